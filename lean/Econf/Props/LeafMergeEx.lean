import Econf.Props.LeafAddNew
open MiniC Leaf LeafKf
set_option linter.unusedSimpArgs false
set_option linter.unusedVariables false
namespace LeafKf

/-! ## `merge_existing_groups` -/

theorem loop_brk (test : St → R (Bool × St)) (body : St → Outcome) (step : St → R St) :
    ∀ (n : Nat) (P : Nat → St) (R : St),
    (∀ i, i < n → test (P i) = .ok (true, P i) ∧ ∃ Q, (body (P i) = .normal Q ∨ body (P i) = .cont Q) ∧ step Q = .ok (P (i + 1))) →
    test (P n) = .ok (true, P n) → body (P n) = .brk R → ∀ fuel, n < fuel → loop test body step fuel (P 0) = .normal R := by
  intro n
  induction n with
  | zero =>
    intro P R _ ht hb fuel hf
    obtain ⟨f, rfl⟩ : ∃ f, fuel = f + 1 := ⟨fuel - 1, by omega⟩
    simp [loop, ht, hb]
  | succ n ih =>
    intro P R hstep ht hb fuel hf
    obtain ⟨f, rfl⟩ : ∃ f, fuel = f + 1 := ⟨fuel - 1, by omega⟩
    obtain ⟨ht0, Q, hb0, hs⟩ := hstep 0 (by omega)
    have := ih (fun i => P (i + 1)) R (fun i hi => hstep (i + 1) (by omega)) ht hb f (by omega)
    rcases hb0 with hb0 | hb0 <;> simp [loop, ht0, hb0, hs, this]

/-- the address of entry `i` of the array of the object in variable `vk`, the counter in variable `vi` -/
theorem kf_src (vk vi : Nat) (mm : Mem) (loc : List Val) (be bea : Nat) (es : List Econf.Entry) (av : List Nat) (i : Nat)
    (hS : SrcMem mm be bea es av) (hi : i ≤ es.length) (hlk : loc[vk]? = some (.ptr be 0)) (hlv : loc[vi]? = some (.int (i : Int))) :
    evalE (.sidx (.load (.slot (.load (.var vk) .ptr) 0) .ptr) (.load (.var vi) .u64) 7) { mem := mm, loc := loc } =
      .ok (.ptr bea (((7 * i : Nat)) : Int), { mem := mm, loc := loc }) := by
  obtain ⟨kb, k1, k2, k3, k4⟩ := hS.kf
  obtain ⟨ab, a1, a2, a3⟩ := hS.arr
  have hl0 : mm.loadSlot be 0 = .ok (.ptr bea 0) := by simpa using loadSlot_of (i := 0) k1 k2 k3 (by simp)
  have hsx : slotAdd mm bea 0 ((i : Int) * 7) = .ok (.ptr bea ((i : Int) * 7)) := by
    have : (0 : Int) ≤ (i : Int) * 7 ∧ (i : Int) * 7 ≤ (ab.slots.length : Int) := by rw [a3]; omega
    simp [slotAdd, Mem.block, a1, a2, this, bind, Except.bind]
  have e : (((7 * i : Nat)) : Int) = (i : Int) * 7 := by omega
  rw [e]
  exact evalE_sidx _ _ _ _ bea 0 (i : Int) 7 _ (by simp [evalE, evalL, readPlace, hlk, hl0, bind, Except.bind])
    (by simp [evalE, evalL, readPlace, hlv, bind, Except.bind]) (by simpa using hsx)

/-- a pointer member (`group` 0, `key` 1) of entry `i` -/
theorem kf_member (vk vi : Nat) (mm : Mem) (loc : List Val) (be bea : Nat) (es : List Econf.Entry) (av : List Nat) (i : Nat) (k : Nat) (w : Val)
    (hS : SrcMem mm be bea es av) (hi : i < es.length) (hlk : loc[vk]? = some (.ptr be 0)) (hlv : loc[vi]? = some (.int (i : Int)))
    (hw : mm.loadSlot bea (((7 * i : Nat) : Int) + (k : Int)) = .ok w) (hwu : w ≠ .undef) :
    evalE (.load (.slot (.sidx (.load (.slot (.load (.var vk) .ptr) 0) .ptr) (.load (.var vi) .u64) 7) k) .ptr) { mem := mm, loc := loc } =
        .ok (w, { mem := mm, loc := loc }) := by
  have hsrc := kf_src vk vi mm loc be bea es av i hS (Nat.le_of_lt hi) hlk hlv
  generalize (Expr.sidx (.load (.slot (.load (.var vk) .ptr) 0) .ptr) (.load (.var vi) .u64) 7) = S at hsrc ⊢
  simp only [evalE, evalL, hsrc, bind, Except.bind, readPlace, hw]

/-- `v++` on a `size_t` variable, any frame -/
theorem incdec_u64_var (v : Nat) (mm : Mem) (loc : List Val) (j : Nat) (hv : v < loc.length) (hj : (j : Int) + 1 < 18446744073709551616) :
    stepOf (some (.incdec (.var v) true true .u64)) { mem := mm, loc := loc.set v (.int (j : Int)) } =
      .ok { mem := mm, loc := loc.set v (.int ((j + 1 : Nat) : Int)) } := by
  have : wrapTo .u64 ((j : Int) + 1) = (j : Int) + 1 := wrapTo_u64_small _ (by omega) (by omega)
  simp [stepOf, evalE, evalL, readPlace, writePlace, binop, cmpInt, arith, Ty.signed, convert, this, hv, bind, Except.bind, Except.map]

/-- `i < kf->length`, object in variable `vk`, counter in variable `vi` -/
theorem kf_test (vk vi : Nat) (mm : Mem) (loc : List Val) (be bea : Nat) (es : List Econf.Entry) (av : List Nat) (i : Nat)
    (hS : SrcMem mm be bea es av) (hlk : loc[vk]? = some (.ptr be 0)) (hlv : loc[vi]? = some (.int (i : Int))) :
    testOf (some (.bin .lt (.load (.var vi) .u64) (.load (.slot (.load (.var vk) .ptr) 1) .u64) .i32)) { mem := mm, loc := loc } =
      .ok (decide (i < es.length), { mem := mm, loc := loc }) := by
  obtain ⟨kb, k1, k2, k3, k4⟩ := hS.kf
  have hl1 : mm.loadSlot be 1 = .ok (.int es.length) := by simpa using loadSlot_of (i := 1) k1 k2 k4 (by simp)
  by_cases h : i < es.length
  · have : (i : Int) < (es.length : Int) := by omega
    simp [testOf, evalE, evalL, readPlace, hlk, hlv, hl1, binop, cmpInt, boolVal, truth, this, h, bind, Except.bind]
  · have : ¬ (i : Int) < (es.length : Int) := by omega
    simp [testOf, evalE, evalL, readPlace, hlk, hlv, hl1, binop, cmpInt, boolVal, truth, this, h, bind, Except.bind]

/-- `!strcmp(kf->file_entry[i].group, group)` with the group name in variable `vg` -/
theorem kf_group_eq (vk vi vg : Nat) (mm : Mem) (loc : List Val) (be bea bg : Nat) (es : List Econf.Entry) (av : List Nat) (i : Nat) (g : List UInt8)
    (hS : SrcMem mm be bea es av) (hi : i < es.length) (hlk : loc[vk]? = some (.ptr be 0)) (hlv : loc[vi]? = some (.int (i : Int)))
    (hlg : loc[vg]? = some (.ptr bg 0)) (hg : mm.cstr bg 0 = .ok g) :
    testOf (some (.un .lnot (.call "strcmp" (.cons (.load (.slot (.sidx (.load (.slot (.load (.var vk) .ptr) 0) .ptr) (.load (.var vi) .u64) 7) 0) .ptr)
        (.cons (.load (.var vg) .ptr) .nil))) .i32)) { mem := mm, loc := loc } =
      .ok (decide ((es[i]).group = g), { mem := mm, loc := loc }) := by
  obtain ⟨b1, g1, g2, _⟩ := (hS.ents i hi).grp
  have hld := kf_member vk vi mm loc be bea es av i 0 (.ptr b1 0) hS hi hlk hlv (by simpa using g1) (by simp)
  have z1 := cstr_nz g2
  have z2 := cstr_nz hg
  generalize (Expr.load (.slot (.sidx (.load (.slot (.load (.var vk) .ptr) 0) .ptr) (.load (.var vi) .u64) 7) 0) .ptr) = G at hld ⊢
  have hargs : evalArgs (.cons G (.cons (.load (.var vg) .ptr) .nil)) { mem := mm, loc := loc } = .ok ([.ptr b1 0, .ptr bg 0], { mem := mm, loc := loc }) := by
    have h2 : evalE (.load (.var vg) .ptr) { mem := mm, loc := loc } = .ok (.ptr bg 0, { mem := mm, loc := loc }) := by
      simp [evalE, evalL, readPlace, hlg, bind, Except.bind]
    simp only [evalArgs, hld, h2, bind, Except.bind]
  by_cases hq : (es[i]).group = g
  · have q1 : cmpBytes (es[i]).group g = 0 := (cmpBytes_eq_zero _ _ z1 z2).2 hq
    simp only [testOf, evalE, hargs, bind, Except.bind, builtin, g2, hg, q1, unop, truth, Except.map, boolVal]
    simp [hq]
  · have q1 : cmpBytes (es[i]).group g ≠ 0 := fun hh => hq ((cmpBytes_eq_zero _ _ z1 z2).1 hh)
    simp only [testOf, evalE, hargs, bind, Except.bind, builtin, g2, hg, unop, truth, Except.map, boolVal]
    simp [q1, hq]

def meLastTest : Expr := .bin .lt (.load (.var 11) .u64) (.load (.slot (.load (.var 2) .ptr) 1) .u64) .i32
def meLastBody : Stmt := .ite (.un .lnot (.call "strcmp" (.cons (.load (.slot (.sidx (.load (.slot (.load (.var 2) .ptr) 0) .ptr) (.load (.var 11) .u64) 7) 0) .ptr)
    (.cons (.load (.var 7) .ptr) .nil))) .i32) (.seq (.expr (.assign (.var 8) (.cast .bool (.lit 0 .i32)) .bool)) .brk) .skip
def meLastLoop : Stmt := .for (some meLastTest) (some (.incdec (.var 11) true true .u64)) meLastBody

/-- the search for a later entry of the same group: `last_of_group` is cleared iff the rest of the base has the group -/
theorem me_last (fuel : Nat) (mm : Mem) (loc : List Val) (bu bua bg : Nat) (us : List Econf.Entry) (av : List Nat) (g : List UInt8) (i : Nat)
    (hS : SrcMem mm bu bua us av) (hl2 : loc[2]? = some (.ptr bu 0)) (hl7 : loc[7]? = some (.ptr bg 0)) (hg : mm.cstr bg 0 = .ok g)
    (hlen : 12 ≤ loc.length) (hi : i < us.length) (hsmall : (us.length : Int) + 1 < 18446744073709551616) (hf : us.length < fuel) :
    ∃ k, exec fuel meLastLoop { mem := mm, loc := loc.set 11 (.int ((i + 1 : Nat) : Int)) } =
      .normal { mem := mm, loc := if Econf.hasGroup (us.drop (i + 1)) g then (loc.set 11 (.int (k : Int))).set 8 (.int 0) else loc.set 11 (.int (k : Int)) } := by
  let P : Nat → St := fun idx => { mem := mm, loc := loc.set 11 (.int ((i + 1 + idx : Nat) : Int)) }
  have hP2 : ∀ idx, (P idx).loc[2]? = some (.ptr bu 0) := fun idx => by simp [P, List.getElem?_set, hl2]
  have hP7 : ∀ idx, (P idx).loc[7]? = some (.ptr bg 0) := fun idx => by simp [P, List.getElem?_set, hl7]
  have hP11 : ∀ idx, (P idx).loc[11]? = some (.int ((i + 1 + idx : Nat) : Int)) := fun idx => by
    simp only [P, List.getElem?_set]; simp; omega
  have htest : ∀ idx, testOf (some meLastTest) (P idx) = .ok (decide (i + 1 + idx < us.length), P idx) := fun idx =>
    kf_test 2 11 mm _ bu bua us av (i + 1 + idx) hS (hP2 idx) (hP11 idx)
  have hcond : ∀ idx (h : i + 1 + idx < us.length), testOf (some (.un .lnot (.call "strcmp" (.cons (.load (.slot (.sidx (.load (.slot (.load (.var 2) .ptr) 0) .ptr)
      (.load (.var 11) .u64) 7) 0) .ptr) (.cons (.load (.var 7) .ptr) .nil))) .i32)) (P idx) = .ok (decide ((us[i + 1 + idx]).group = g), P idx) := fun idx h =>
    kf_group_eq 2 11 7 mm _ bu bua bg us av (i + 1 + idx) g hS h (hP2 idx) (hP11 idx) (hP7 idx) hg
  have hstep : ∀ idx, i + 1 + idx < us.length → stepOf (some (.incdec (.var 11) true true .u64)) (P idx) = .ok (P (idx + 1)) := fun idx h => by
    have := incdec_u64_var 11 mm loc (i + 1 + idx) (by omega) (by omega)
    simpa [P, Nat.add_assoc] using this
  have htl : (us.drop (i + 1)).length = us.length - (i + 1) := by simp
  have hEl : (entsOf (us.drop (i + 1))).length = us.length - (i + 1) := by simp [entsOf]
  have hEget : ∀ idx (h : idx < us.length - (i + 1)), ((entsOf (us.drop (i + 1)))[idx]'(by rw [hEl]; exact h)).1 = (us[i + 1 + idx]'(by omega)).group := by
    intro idx h; simp [entsOf]
  have hfle := firstG_le (entsOf (us.drop (i + 1))) g
  have hmodel := firstG_model (us.drop (i + 1)) g
  have hmiss : ∀ idx, idx < firstG (entsOf (us.drop (i + 1))) g →
      testOf (some meLastTest) (P idx) = .ok (true, P idx) ∧
      ∃ Q, (exec fuel meLastBody (P idx) = .normal Q ∨ exec fuel meLastBody (P idx) = .cont Q) ∧ stepOf (some (.incdec (.var 11) true true .u64)) Q = .ok (P (idx + 1)) := by
    intro idx hidx
    have hlt : i + 1 + idx < us.length := by omega
    have hne := firstG_before (entsOf (us.drop (i + 1))) g idx hidx
    rw [hEget idx (by omega)] at hne
    refine ⟨by simpa [hlt] using htest idx, P idx, Or.inl ?_, hstep idx hlt⟩
    unfold meLastBody
    rw [exec_ite_false (by simpa [hne] using hcond idx hlt)]; simp [exec]
  unfold meLastLoop
  rw [exec_for]
  by_cases hfound : firstG (entsOf (us.drop (i + 1))) g < us.length - (i + 1)
  · -- a later entry of the group: `last_of_group = false; break`
    have hhas : Econf.hasGroup (us.drop (i + 1)) g = true := by rw [← hmodel, htl]; simpa using hfound
    have hlt : i + 1 + firstG (entsOf (us.drop (i + 1))) g < us.length := by omega
    have hat := firstG_at (entsOf (us.drop (i + 1))) g (by rw [hEl]; exact hfound)
    rw [hEget _ hfound] at hat
    refine ⟨i + 1 + firstG (entsOf (us.drop (i + 1))) g, ?_⟩
    rw [hhas]; simp only [if_true]
    have hbrk : exec fuel meLastBody (P (firstG (entsOf (us.drop (i + 1))) g)) =
        .brk { mem := mm, loc := (loc.set 11 (.int ((i + 1 + firstG (entsOf (us.drop (i + 1))) g : Nat) : Int))).set 8 (.int 0) } := by
      unfold meLastBody
      rw [exec_ite_true (by simpa [hat] using hcond _ hlt)]
      have hw : wrapTo .bool 0 = 0 := by decide
      have h8 : 8 < loc.length := by omega
      simp [exec, evalE, evalL, writePlace, convert, hw, h8, P, bind, Except.bind]
    have := loop_brk _ _ _ (firstG (entsOf (us.drop (i + 1))) g) P _ hmiss (by simpa [hlt] using htest (firstG (entsOf (us.drop (i + 1))) g)) hbrk fuel (by omega)
    simpa [P] using this
  · -- none: the loop runs to the end
    have hfe : firstG (entsOf (us.drop (i + 1))) g = us.length - (i + 1) := by omega
    have hhas : Econf.hasGroup (us.drop (i + 1)) g = false := by
      rw [← hmodel, htl, hfe]; simp
    refine ⟨us.length, ?_⟩
    rw [hhas]; simp only [Bool.false_eq_true, if_false]
    have hend : testOf (some meLastTest) (P (us.length - (i + 1))) = .ok (false, P (us.length - (i + 1))) := by
      have := htest (us.length - (i + 1))
      have hnot : ¬ (i + 1 + (us.length - (i + 1)) < us.length) := by omega
      simpa [hnot] using this
    have := loop_count _ _ _ (us.length - (i + 1)) P _ (fun idx hidx => hmiss idx (by omega)) hend fuel (by omega)
    have hP : P (us.length - (i + 1)) = { mem := mm, loc := loc.set 11 (.int (us.length : Int)) } := by
      simp only [P]; congr 3; omega
    rw [hP] at this
    simpa [P] using this

def meSrc : Expr := .sidx (.load (.slot (.load (.var 2) .ptr) 0) .ptr) (.load (.var 6) .u64) 7
def meDst : Expr := .sidx (.load (.slot (.load (.var 1) .ptr) 0) .ptr) (.load (.var 5) .u64) 7
def meEtc (v : Nat) : Expr := .sidx (.load (.slot (.load (.var 3) .ptr) 0) .ptr) (.load (.var v) .u64) 7
/-- `(*fe)[merge_length] = cpy_file_entry(dest_kf, uf->file_entry[i])` -/
def meCopy : Stmt := .seq (.inl (some (.var 9)) .ptr (.cons (.load (.var 0) .ptr) (.cons meSrc .nil)) 3 LeafFns.cpy_file_entry.body)
  (.expr (.call "copy_words" (.cons meDst (.cons (.load (.var 9) .ptr) (.cons (.lit 7 .u64) .nil)))))
/-- `if (j < ef->length) { free(copy.value); copy.value = ef[j].value ? strdup(ef[j].value) : strdup(""); }` -/
def meOverride : Stmt := .ite (.bin .lt (.load (.var 10) .u64) (.load (.slot (.load (.var 3) .ptr) 1) .u64) .i32)
  (.seq (.expr (.call "free" (.cons (.load (.slot meDst 2) .ptr) .nil)))
    (.expr (.assign (.slot meDst 2) (.cond (.load (.slot (meEtc 10) 2) .ptr) (.call "strdup" (.cons (.load (.slot (meEtc 10) 2) .ptr) .nil))
      (.call "strdup" (.cons (.strlit []) .nil))) .ptr))) .skip
/-- the keys of this group that only the override defines -/
def meNewKeys : Stmt := .for (some (.bin .lt (.load (.var 10) .u64) (.load (.slot (.load (.var 3) .ptr) 1) .u64) .i32)) (some (.incdec (.var 10) true true .u64))
  (.ite (.un .lnot (.call "strcmp" (.cons (.load (.slot (meEtc 10) 0) .ptr) (.cons (.load (.var 7) .ptr) .nil))) .i32)
    (.seq (.inl (some (.var 14)) .bool (.cons (.load (.var 3) .ptr) (.cons (.load (.var 10) .u64) .nil)) 3 LeafFns.first_definition.body)
      (.ite (.cast .i32 (.load (.var 14) .bool))
        (.seq (.inl (some (.var 13)) .u64 (.cons (.load (.var 2) .ptr) (.cons (.load (.var 7) .ptr) (.cons (.load (.slot (meEtc 10) 1) .ptr) .nil))) 4 LeafFns.first_entry.body)
          (.ite (.bin .eq (.load (.var 13) .u64) (.load (.slot (.load (.var 2) .ptr) 1) .u64) .i32)
            (.seq (.inl (some (.var 12)) .ptr (.cons (.load (.var 0) .ptr) (.cons (meEtc 10) .nil)) 3 LeafFns.cpy_file_entry.body)
              (.expr (.call "copy_words" (.cons (.sidx (.load (.slot (.load (.var 1) .ptr) 0) .ptr) (.incdec (.var 5) true true .u64) 7)
                (.cons (.load (.var 12) .ptr) (.cons (.lit 7 .u64) .nil)))))) .skip)) .skip)) .skip)
/-- one round of the outer loop -/
def meRound : Stmt :=
  .seq (.expr (.assign (.var 7) (.load (.slot meSrc 0) .ptr) .ptr))
  (.seq (.expr (.assign (.var 8) (.cast .bool (.lit 1 .i32)) .bool))
  (.seq (.inl (some (.var 9)) .ptr (.cons (.load (.var 0) .ptr) (.cons meSrc .nil)) 3 LeafFns.cpy_file_entry.body)
  (.seq (.expr (.call "copy_words" (.cons meDst (.cons (.load (.var 9) .ptr) (.cons (.lit 7 .u64) .nil)))))
  (.seq (.inl (some (.var 10)) .u64 (.cons (.load (.var 3) .ptr) (.cons (.load (.var 7) .ptr) (.cons (.load (.slot meSrc 1) .ptr) .nil))) 4 LeafFns.first_entry.body)
  (.seq meOverride
  (.seq (.expr (.incdec (.var 5) true true .u64))
  (.seq (.expr (.assign (.var 11) (.bin .add (.load (.var 6) .u64) (.cast .u64 (.lit 1 .i32)) .u64) .u64))
  (.seq meLastLoop
  (.seq (.ite (.un .lnot (.load (.var 8) .bool) .i32) .cont .skip)
  (.seq (.expr (.assign (.var 10) (.cast .u64 (.lit 0 .i32)) .u64)) meNewKeys))))))))))

/-- `(a; b); c` runs like `a; (b; c)` -/
theorem exec_seq_assoc (fuel : Nat) (a b c : Stmt) (st : St) : exec fuel (.seq a (.seq b c)) st = exec fuel (.seq (.seq a b) c) st := by
  simp only [exec]
  cases exec fuel a st <;> simp

/-- the generated `merge_existing_groups` is these pieces (so `me_last` is about a part of it) -/
theorem merge_existing_groups_shape : LeafFns.merge_existing_groups.body =
    .seq (.expr (.assign (.var 5) (.load (.var 4) .u64) .u64))
      (.seq (.ite (.land (.load (.var 2) .ptr) (.load (.var 3) .ptr))
          (.seq (.expr (.assign (.var 6) (.cast .u64 (.lit 0 .i32)) .u64))
            (.for (some (.bin .lt (.load (.var 6) .u64) (.load (.slot (.load (.var 2) .ptr) 1) .u64) .i32)) (some (.incdec (.var 6) true true .u64)) meRound)) .skip)
        (.ret (some (.load (.var 5) .u64)))) := rfl

/-- `insert_nogroup` without a base or without an override: nothing is read or written, 0 is returned -/
theorem insert_nogroup_null (fuel : Nat) (m : Mem) (a0 a1 a2 a3 : Val) (h : a2 = .null ∨ (∃ b, a2 = .ptr b 0) ∧ a3 = .null) :
    exec fuel LeafFns.insert_nogroup.body { mem := m, loc := [a0, a1, a2, a3, .undef, .undef, .undef, .undef, .undef] } =
      .ret (.int 0) { mem := m, loc := [a0, a1, a2, a3, .int 0, .undef, .undef, .undef, .undef] } := by
  have w0 : wrapTo .u64 0 = 0 := wrapTo_u64_small 0 (by decide) (by decide)
  rw [insert_nogroup_shape]
  rcases h with rfl | ⟨⟨b, rfl⟩, rfl⟩ <;>
    simp [exec, testOf, evalE, evalL, readPlace, writePlace, convert, w0, truth, bind, Except.bind, Except.map]

/-- `add_new_groups` without a base or without an override: the count handed in is returned, the array is not touched
    (not even cut to size) -/
theorem add_new_groups_null (fuel : Nat) (m : Mem) (a0 a1 a2 a3 : Val) (start : Nat) (hs : (start : Int) < 18446744073709551616)
    (h : a2 = .null ∨ (∃ b, a2 = .ptr b 0) ∧ a3 = .null) :
    exec fuel LeafFns.add_new_groups.body { mem := m, loc := [a0, a1, a2, a3, .int (start : Int), .undef, .undef, .undef, .undef, .undef] } =
      .ret (.int (start : Int)) { mem := m, loc := [a0, a1, a2, a3, .int (start : Int), .int (start : Int), .undef, .undef, .undef, .undef] } := by
  have wS : wrapTo .u64 (start : Int) = (start : Int) := wrapTo_u64_small _ (by omega) hs
  rw [add_new_groups_shape]
  rcases h with rfl | ⟨⟨b, rfl⟩, rfl⟩ <;>
    simp [exec, testOf, evalE, evalL, readPlace, writePlace, convert, wS, truth, boolVal, bind, Except.bind, Except.map]

/-- `merge_existing_groups` without a base or without an override: likewise -/
theorem merge_existing_groups_null (fuel : Nat) (m : Mem) (a0 a1 a2 a3 : Val) (start : Nat) (hs : (start : Int) < 18446744073709551616)
    (h : a2 = .null ∨ (∃ b, a2 = .ptr b 0) ∧ a3 = .null) :
    exec fuel LeafFns.merge_existing_groups.body { mem := m, loc := [a0, a1, a2, a3, .int (start : Int)] ++ List.replicate 10 .undef } =
      .ret (.int (start : Int)) { mem := m, loc := [a0, a1, a2, a3, .int (start : Int), .int (start : Int)] ++ List.replicate 9 .undef } := by
  have wS : wrapTo .u64 (start : Int) = (start : Int) := wrapTo_u64_small _ (by omega) hs
  rw [merge_existing_groups_shape]
  rcases h with rfl | ⟨⟨b, rfl⟩, rfl⟩ <;>
    simp [exec, testOf, evalE, evalL, readPlace, writePlace, convert, wS, truth, boolVal, bind, Except.bind, Except.map]

/-- the blocks of the strings of the group list are what the object says, whoever describes it -/
theorem GlMem.fst_unique {m : Mem} {bk bl bl' : Nat} {gl gl' : List (Nat × List UInt8)} (h : GlMem m bk bl gl) (h' : GlMem m bk bl' gl') :
    bl = bl' ∧ gl.map (·.1) = gl'.map (·.1) := by
  rcases h with h | ⟨hg, hb, nb, n1, n2, n3, n4⟩
  · rcases h' with h' | ⟨hg', hb', nb', n1', n2', n3', n4'⟩
    · obtain ⟨kb, k1, k2, k3, k4⟩ := h.kf
      obtain ⟨kb', k1', k2', k3', k4'⟩ := h'.kf
      rw [k1] at k1'; injection k1' with hk; subst hk
      rw [k3] at k3'; injection k3' with h3; injection h3 with hbl _
      rw [k4] at k4'; injection k4' with h4; injection h4 with hlen
      have hlen' : gl.length = gl'.length := by omega
      subst hbl
      obtain ⟨gb, g1, g2, g3, g4⟩ := h.arr
      obtain ⟨gb', g1', g2', g3', g4'⟩ := h'.arr
      rw [g1] at g1'; injection g1' with hg; subst hg
      refine ⟨rfl, List.ext_getElem (by simp [hlen']) (fun i hi hi' => ?_)⟩
      simp only [List.length_map] at hi hi'
      have e1 := (g4 i hi).1
      have e2 := (g4' i hi').1
      rw [e1] at e2; injection e2 with e2; injection e2 with e2
      simp [e2]
    · obtain ⟨kb, k1, k2, k3, k4⟩ := h.kf
      rw [k1] at n1'; injection n1' with hk; subst hk
      rw [k3] at n3'; cases n3'
  · rcases h' with h' | ⟨hg', hb', nb', n1', n2', n3', n4'⟩
    · obtain ⟨kb, k1, k2, k3, k4⟩ := h'.kf
      rw [k1] at n1; injection n1 with hk; subst hk
      rw [k3] at n3; cases n3
    · subst hg hg' hb hb'
      exact ⟨rfl, rfl⟩

theorem GlMem.mem_fst {m : Mem} {bk bl bl' : Nat} {gl gl' : List (Nat × List UInt8)} (h : GlMem m bk bl gl) (h' : GlMem m bk bl' gl')
    {x : Nat × List UInt8} (hx : x ∈ gl') : ∃ y, y ∈ gl ∧ y.1 = x.1 := by
  have hu := (h.fst_unique h').2
  have : x.1 ∈ gl'.map (·.1) := List.mem_map.2 ⟨x, hx, rfl⟩
  rw [← hu] at this
  obtain ⟨y, hy, hyx⟩ := List.mem_map.1 this
  exact ⟨y, hy, hyx⟩

/-- the array under construction, whatever the frame of the loop that fills it: `start` entries were there, the copies of `sel`
    stand behind them, the destination lists their groups, everything else of the memory `m0` is as it was -/
structure ArrInv (m0 : Mem) (bk bl0 fa : Nat) (names0 : List (List UInt8)) (gl0len cap start : Nat) (ablk0 : Block)
    (sel : List Econf.Entry) (mem : Mem) : Prop where
  agree : ∀ b, b < m0.length → b ∉ [bk, bl0, fa] → mem[b]? = m0[b]?
  grows : m0.length ≤ mem.length
  dest : ∃ bl' gl', GlMem mem bk bl' gl' ∧ (bl' = bl0 ∨ m0.length ≤ bl') ∧ (∀ kb blk, m0[bk]? = some kb → mem[bk]? = some blk → KfKeep kb blk) ∧ (gl' ≠ [] → bk ≠ bl') ∧
      (∀ x, x ∈ gl' → x.1 ≠ bk ∧ x.1 ≠ bl') ∧ gl'.length ≤ gl0len + sel.length ∧
      gl'.map (·.2) = (sel.map (·.group)).foldl Econf.addGroup names0 ∧
      ∀ j (h : j < sel.length), EntMem mem fa (7 * (start + j)) (Econf.cpyEntry (sel[j])) [bk, bl']
  arr : ∃ ablk, mem[fa]? = some ablk ∧ ablk.live = true ∧ ablk.writable = true ∧ ablk.cells = [] ∧ ablk.slots.length = 7 * cap ∧
      ∀ k, k < 7 * start → ablk.slots[k]? = ablk0.slots[k]?

theorem ArrInv.frame {m0 : Mem} {bk bl0 fa : Nat} {names0 : List (List UInt8)} {gl0len cap start : Nat} {ablk0 : Block} {sel : List Econf.Entry} {mem : Mem}
    (h : ArrInv m0 bk bl0 fa names0 gl0len cap start ablk0 sel mem) (mem' : Mem)
    (hm : ∀ b, b < mem.length → mem'[b]? = mem[b]?) (hlen : mem.length ≤ mem'.length) (hfa : fa < m0.length) (hbk : bk < m0.length) :
    ArrInv m0 bk bl0 fa names0 gl0len cap start ablk0 sel mem' := by
  obtain ⟨bl', gl', d1, d2, d3, d4, d5, d6, d7, d8⟩ := h.dest
  obtain ⟨ablk, a1, a2, a3, a4, a5, a6⟩ := h.arr
  have hg := h.grows
  refine ⟨fun b hb hav => by rw [hm b (by omega)]; exact h.agree b hb hav, by omega, ?_, ⟨ablk, by rw [hm fa (by omega)]; exact a1, a2, a3, a4, a5, a6⟩⟩
  have hG' : GlMem mem' bk bl' gl' := d1.mono_of (hm bk (by omega)) (hm bl' d1.bl_lt)
    (fun b str hc _ => hm b (cstr_lt hc))
  exact ⟨bl', gl', hG', d2, fun kb blk hk hb => d3 kb blk hk (by rw [← hm bk (by omega)]; exact hb), d4, d5, d6, d7, fun j hj => (d8 j hj).mono (fun b hb _ => hm b hb)⟩

/-- what the three loops share about their surroundings -/
structure ArrCtx (m0 : Mem) (bk bl0 fa cell : Nat) (gl0len cap : Nat) : Prop where
  cellb : ∃ cblk, m0[cell]? = some cblk ∧ cblk.live = true ∧ cblk.slots[0]? = some (.ptr fa 0)
  cellav : cell ∉ [bk, bl0, fa]
  fa_lt : fa < m0.length
  bk_lt : bk < m0.length
  bl_lt : bl0 < m0.length
  fa_ne : fa ≠ bk ∧ fa ≠ bl0

/-- the append step in any frame: `(*fe)[start + |sel|] = cpy_file_entry(dest_kf, src)` extends the invariant by the source entry -/
theorem ArrInv.append {m0 : Mem} {bk bl0 fa cell : Nat} {names0 : List (List UInt8)} {gl0len cap start : Nat} {ablk0 : Block} {sel : List Econf.Entry} {M : Mem}
    (h : ArrInv m0 bk bl0 fa names0 gl0len cap start ablk0 sel M) (C : ArrCtx m0 bk bl0 fa cell gl0len cap)
    (bs os : Nat) (e : Econf.Entry) (hE0 : EntMem m0 bs os e [bk, bl0, fa])
    (loc loc2 : List Val) (srcE idxE : Expr) (t : Nat)
    (hroom : start + sel.length < cap) (hsmall : (gl0len : Int) + sel.length + 2 < 2147483648) (hline : (e.line : Int) < 18446744073709551616)
    (fuel : Nat) (hf : gl0len + sel.length + 1 < fuel)
    (hl0 : loc[0]? = some (.ptr bk 0)) (hl1 : loc[1]? = some (.ptr cell 0)) (ht : t < loc.length) (ht1 : t ≠ 1)
    (hsrc : evalE srcE { mem := M, loc := loc } = .ok (.ptr bs (os : Int), { mem := M, loc := loc }))
    (hidx : ∀ mm, evalE idxE { mem := mm, loc := loc.set t (.ptr M.length 0) } = .ok (.int ((start + sel.length : Nat) : Int), { mem := mm, loc := loc2 }))
    (hl2t : loc2[t]? = some (.ptr M.length 0)) :
    ∃ m', exec fuel (.seq (.inl (some (.var t)) .ptr (.cons (.load (.var 0) .ptr) (.cons srcE .nil)) 3 LeafFns.cpy_file_entry.body)
          (.expr (.call "copy_words" (.cons (.sidx (.load (.slot (.load (.var 1) .ptr) 0) .ptr) idxE 7) (.cons (.load (.var t) .ptr) (.cons (.lit 7 .u64) .nil))))))
        { mem := M, loc := loc } = .normal { mem := m', loc := loc2 } ∧
      ArrInv m0 bk bl0 fa names0 gl0len cap start ablk0 (sel ++ [e]) m' ∧ M.length ≤ m'.length ∧
      -- the value of the new element has a block of its own, made in this step
      (∀ bv, m'.loadSlot fa (((7 * (start + sel.length) : Nat) : Int) + 2) = .ok (.ptr bv 0) → M.length < bv ∧
        (∀ k : Nat, k < 5 → k ≠ 2 → m'.loadSlot fa (((7 * (start + sel.length) : Nat) : Int) + (k : Int)) ≠ .ok (.ptr bv 0)) ∧
        ∀ bl3 gl3, GlMem m' bk bl3 gl3 → bl3 ≠ bv ∧ ∀ x, x ∈ gl3 → x.1 ≠ bv) ∧
      (∀ b, b < M.length → b ≠ bk → b ∉ [bk, bl0, fa] → (∀ bl3 gl3, GlMem M bk bl3 gl3 → b ≠ bl3) → m'[b]? = M[b]?) ∧
      (∀ ablkM ablk', M[fa]? = some ablkM → m'[fa]? = some ablk' → ∀ k, k < 7 * (start + sel.length) → ablk'.slots[k]? = ablkM.slots[k]?) := by
  obtain ⟨bl', gl', d1, d2, d3, d4, d5, d6, d7, d8⟩ := h.dest
  obtain ⟨ablk, a1, a2, a3, a4, a5, a6⟩ := h.arr
  obtain ⟨cblk, c1, c2, c3⟩ := C.cellb
  have hclt : cell < m0.length := (List.getElem?_eq_some_iff.1 c1).1
  have hcM : M[cell]? = some cblk := by rw [h.agree cell hclt C.cellav]; exact c1
  have hbl'ne : ∀ b, b < m0.length → b ≠ bl0 → b ≠ bl' := by
    intro b hb hne
    rcases d2 with e | e
    · rw [e]; exact hne
    · omega
  have hcav := C.cellav
  simp only [List.mem_cons, List.not_mem_nil, or_false, not_or] at hcav
  have hE : EntMem M bs os e [bk, bl'] := hE0.transfer h.agree (fun b hb hav => by
    simp only [List.mem_cons, List.not_mem_nil, or_false, not_or] at hav ⊢
    exact ⟨hav.1, hbl'ne b hb hav.2.1⟩)
  have hfalt := C.fa_lt
  have hgrow : m0.length ≤ M.length := h.grows
  obtain ⟨kb0, hkb0⟩ : ∃ kb0, m0[bk]? = some kb0 := ⟨_, List.getElem?_eq_getElem C.bk_lt⟩
  obtain ⟨kbM, hkbM, _⟩ := d1.obj
  obtain ⟨m', bl'', gl'', hex, hEnt, hG', hnames, hfr, ⟨ablk', b1, b2, b3, b4, b5, b6⟩, hlen', hblor, hkw', hne', hd', hgll, hfreshv⟩ :=
    C_fe_append M bk bl' cell fa bs os gl' e loc loc2 srcE idxE t (start + sel.length) cap
      d1 hE (fun blk hb => (d3 kb0 blk hkb0 hb).1) d4 d5 (by omega) hline fuel (by omega) hl0 hl1 ht ht1 hsrc hidx hl2t
      cblk hcM c2 c3 ⟨hcav.1, hbl'ne cell hclt hcav.2.1⟩ ablk a1 a2 a3 a5 a4 ⟨C.fa_ne.1, hbl'ne fa C.fa_lt C.fa_ne.2⟩ hroom
  refine ⟨m', hex, ?_, hlen', fun bv hbv => ?_, fun b hb h1 hav hnb => ?_, fun ablkM ablk2 hM2 hm2 k hk => ?_⟩
  rotate_left
  · obtain ⟨f1, f2, f4, f3⟩ := hfreshv bv hbv
    refine ⟨f1, f2, fun bl3 gl3 hG3 => ⟨?_, fun x hx => ?_⟩⟩
    · rw [← (hG'.fst_unique hG3).1]; exact f4
    · obtain ⟨y, hy, hyx⟩ := hG'.mem_fst hG3 hx
      rw [← hyx]; exact f3 y hy
  · simp only [List.mem_cons, List.not_mem_nil, or_false, not_or] at hav
    exact hfr b hb h1 (hnb bl' gl' d1) hav.2.2
  · rw [a1] at hM2; injection hM2 with hM2; subst hM2
    rw [b1] at hm2; injection hm2 with hm2; subst hm2
    exact b6 k (Or.inl hk)
  have hbl''ne : ∀ b, b < M.length → b ≠ bl' → b ≠ bl'' := by
    intro b hb hne
    rcases hblor with e | e
    · rw [e]; exact hne
    · omega
  refine ⟨?_, by omega, ?_, ⟨ablk', b1, b2, b3, b4, b5, fun k hk => by rw [b6 k (Or.inl (by omega))]; exact a6 k hk⟩⟩
  · intro b hb hav
    simp only [List.mem_cons, List.not_mem_nil, or_false, not_or] at hav
    rw [hfr b (by omega) hav.1 (hbl'ne b hb hav.2.1) hav.2.2]
    exact h.agree b hb (by simp [hav])
  · refine ⟨bl'', gl'', hG', ?_, fun kb blk hk hb => (d3 kb kbM hk hkbM).trans (hkw' kbM blk hkbM hb), hne', hd', by simp; omega, ?_, ?_⟩
    · rcases hblor with e | e
      · rw [e]; exact d2
      · right; omega
    · rw [hnames, d7]
      simp [List.map_append, List.foldl_append]
    · intro j hj
      by_cases hja : j < sel.length
      · rw [List.getElem_append_left hja]
        exact (d8 j hja).keep_in_array a1 b1 b2 (fun k hk => b6 (7 * (start + j) + k) (Or.inl (by omega)))
          (fun b hb hav hne => by
            simp only [List.mem_cons, List.not_mem_nil, or_false, not_or] at hav
            exact hfr b hb hav.1 hav.2 hne) (no_cstr a1 a4)
          (fun b hb hav => by
            simp only [List.mem_cons, List.not_mem_nil, or_false, not_or] at hav ⊢
            exact ⟨hav.1, hbl''ne b hb hav.2⟩)
          (by simp only [List.mem_cons, List.not_mem_nil, or_false, not_or]
              exact ⟨C.fa_ne.1, hbl''ne fa (by omega) (hbl'ne fa C.fa_lt C.fa_ne.2)⟩)
      · have hje : j = sel.length := by simp at hj; omega
        subst hje
        simpa using hEnt

theorem firstIdx_eq_length_iff (es : List Econf.Entry) (g k : List UInt8) :
    firstIdx (entsOf es) g k = es.length ↔ Econf.defines es g k = false := by
  have hl : (entsOf es).length = es.length := by simp [entsOf]
  have hget : ∀ i (h : i < es.length), (entsOf es)[i]'(by rw [hl]; exact h) = ((es[i]).group, (es[i]).key) := by
    intro i h; simp [entsOf]
  constructor
  · intro hf
    cases hd : Econf.defines es g k with
    | false => rfl
    | true =>
      simp only [Econf.defines, List.any_eq_true, Bool.and_eq_true, beq_iff_eq] at hd
      obtain ⟨x, hx, h1, h2⟩ := hd
      obtain ⟨i, hi, rfl⟩ := List.getElem_of_mem hx
      have := firstIdx_before (entsOf es) g k i (by rw [hf]; exact hi)
      rw [hget i hi] at this
      exact absurd ⟨h1, h2⟩ this
  · intro hd
    have hle := firstIdx_le (entsOf es) g k
    by_cases hlt : firstIdx (entsOf es) g k < es.length
    · have hat := firstIdx_at (entsOf es) g k (by rw [hl]; exact hlt)
      rw [hget _ hlt] at hat
      have : Econf.defines es g k = true := by
        simp only [Econf.defines, List.any_eq_true, Bool.and_eq_true, beq_iff_eq]
        exact ⟨_, List.getElem_mem hlt, hat.1, hat.2⟩
      rw [hd] at this; exact absurd this (by simp)
    · omega

/-- which entries of the override the inner loop of `merge_existing_groups` copies for group `g` -/
def mnP (us : List Econf.Entry) (g : List UInt8) (e : Econf.Entry) : Bool := e.group == g && !Econf.defines us g e.key

theorem mnSel_model (us es : List Econf.Entry) (g : List UInt8) : (selBy (mnP us g) es es.length).map Econf.cpyEntry = Econf.newKeysOf us es g := by
  unfold Econf.newKeysOf
  rw [selBy_model]
  rfl

abbrev meLoc (bk cell bu be start cnt i bg : Nat) (v8 v9 : Val) (j : Nat) (v11 v12 v13 v14 : Val) : List Val :=
  [.ptr bk 0, .ptr cell 0, .ptr bu 0, .ptr be 0, .int (start : Int), .int (cnt : Int), .int (i : Int), .ptr bg 0, v8, v9, .int (j : Int), v11, v12, v13, v14]

/-- what the inner loop needs from its surroundings -/
structure MnCtx (m0 : Mem) (bk bl0 fa cell bu bua be bea bg : Nat) (us es : List Econf.Entry) (g : List UInt8) (gl0len cap cnt0 : Nat) : Prop where
  arr : ArrCtx m0 bk bl0 fa cell gl0len cap
  src : SrcMem m0 be bea es [bk, bl0, fa]
  usr : SrcMem m0 bu bua us [bk, bl0, fa]
  grp : m0.cstr bg 0 = .ok g
  grpav : bg ∉ [bk, bl0, fa]
  small : (gl0len : Int) + es.length + 2 < 2147483648
  usmall : (us.length : Int) + 1 < 18446744073709551616
  ssmall : (cnt0 : Int) + es.length + 1 < 18446744073709551616
  lines : ∀ e ∈ es, (e.line : Int) < 18446744073709551616

def mnTest : Expr := .bin .lt (.load (.var 10) .u64) (.load (.slot (.load (.var 3) .ptr) 1) .u64) .i32
def mnAppend : Stmt := .seq (.inl (some (.var 12)) .ptr (.cons (.load (.var 0) .ptr) (.cons (meEtc 10) .nil)) 3 LeafFns.cpy_file_entry.body)
  (.expr (.call "copy_words" (.cons (.sidx (.load (.slot (.load (.var 1) .ptr) 0) .ptr) (.incdec (.var 5) true true .u64) 7)
    (.cons (.load (.var 12) .ptr) (.cons (.lit 7 .u64) .nil)))))
def mnInner2 : Stmt := .seq (.inl (some (.var 13)) .u64 (.cons (.load (.var 2) .ptr) (.cons (.load (.var 7) .ptr) (.cons (.load (.slot (meEtc 10) 1) .ptr) .nil))) 4 LeafFns.first_entry.body)
  (.ite (.bin .eq (.load (.var 13) .u64) (.load (.slot (.load (.var 2) .ptr) 1) .u64) .i32) mnAppend .skip)
def mnInner1 : Stmt := .seq (.inl (some (.var 14)) .bool (.cons (.load (.var 3) .ptr) (.cons (.load (.var 10) .u64) .nil)) 3 LeafFns.first_definition.body)
  (.ite (.cast .i32 (.load (.var 14) .bool)) mnInner2 .skip)
def mnBody : Stmt := .ite (.un .lnot (.call "strcmp" (.cons (.load (.slot (meEtc 10) 0) .ptr) (.cons (.load (.var 7) .ptr) .nil))) .i32) mnInner1 .skip

theorem meNewKeys_shape : meNewKeys = .for (some mnTest) (some (.incdec (.var 10) true true .u64)) mnBody := rfl

/-- the state of the inner loop before round `j` -/
def MnInv (m0 : Mem) (bk bl0 fa cell bu be bg : Nat) (names0 : List (List UInt8)) (gl0len cap cnt0 astart : Nat) (pre : List Econf.Entry) (ablk0 : Block)
    (start i : Nat) (v8 v9 v11 : Val) (sel : List Econf.Entry) (j : Nat) (st : St) : Prop :=
  (∃ v12 v13 v14, st.loc = meLoc bk cell bu be start (cnt0 + sel.length) i bg v8 v9 j v11 v12 v13 v14) ∧
  ArrInv m0 bk bl0 fa names0 gl0len cap astart ablk0 (pre ++ sel) st.mem

/-- `j++` (variable 10 of fifteen) -/
theorem mn_step (mm : Mem) (a0 a1 a2 a3 a4 a5 a6 a7 a8 a9 a11 a12 a13 a14 : Val) (j : Nat) (hj : (j : Int) + 1 < 18446744073709551616) :
    stepOf (some (.incdec (.var 10) true true .u64)) { mem := mm, loc := [a0, a1, a2, a3, a4, a5, a6, a7, a8, a9, .int (j : Int), a11, a12, a13, a14] } =
      .ok { mem := mm, loc := [a0, a1, a2, a3, a4, a5, a6, a7, a8, a9, .int ((j + 1 : Nat) : Int), a11, a12, a13, a14] } := by
  have : wrapTo .u64 ((j : Int) + 1) = (j : Int) + 1 := wrapTo_u64_small _ (by omega) (by omega)
  simp [stepOf, evalE, evalL, readPlace, writePlace, binop, cmpInt, arith, Ty.signed, convert, this, bind, Except.bind, Except.map]

/-- `merge_length++` as an index (variable 5 of fifteen) -/
theorem mn_idx (mm : Mem) (a0 a1 a2 a3 a4 a6 a7 a8 a9 a10 a11 a12 a13 a14 : Val) (a : Nat) (ha : (a : Int) + 1 < 18446744073709551616) :
    evalE (.incdec (.var 5) true true .u64) { mem := mm, loc := [a0, a1, a2, a3, a4, .int (a : Int), a6, a7, a8, a9, a10, a11, a12, a13, a14] } =
      .ok (.int (a : Int), { mem := mm, loc := [a0, a1, a2, a3, a4, .int ((a + 1 : Nat) : Int), a6, a7, a8, a9, a10, a11, a12, a13, a14] }) := by
  have : wrapTo .u64 ((a : Int) + 1) = (a : Int) + 1 := wrapTo_u64_small _ (by omega) (by omega)
  simp [evalE, evalL, readPlace, writePlace, binop, cmpInt, arith, Ty.signed, convert, this, bind, Except.bind, Except.map]

theorem mn_round {m0 : Mem} {bk bl0 fa cell bu bua be bea bg : Nat} {us es : List Econf.Entry} {g : List UInt8} {names0 : List (List UInt8)} {gl0len cap cnt0 : Nat}
    {ablk0 : Block} {start i : Nat} {v8 v9 v11 : Val} {astart : Nat} {pre : List Econf.Entry}
    (C : MnCtx m0 bk bl0 fa cell bu bua be bea bg us es g gl0len cap cnt0) (hcnt : cnt0 = astart + pre.length)
    (hpsmall : (gl0len : Int) + pre.length + es.length + 2 < 2147483648)
    (hroomT : astart + pre.length + (selBy (mnP us g) es es.length).length ≤ cap) (fuel : Nat) (hf : gl0len + pre.length + es.length + us.length + 2 < fuel)
    (j : Nat) (hj : j < es.length) (st : St) (h : MnInv m0 bk bl0 fa cell bu be bg names0 gl0len cap cnt0 astart pre ablk0 start i v8 v9 v11 (selBy (mnP us g) es j) j st) :
    ∃ T Q st', testOf (some mnTest) st = .ok (true, T) ∧ (exec fuel mnBody T = .normal Q ∨ exec fuel mnBody T = .cont Q) ∧
      stepOf (some (.incdec (.var 10) true true .u64)) Q = .ok st' ∧
      MnInv m0 bk bl0 fa cell bu be bg names0 gl0len cap cnt0 astart pre ablk0 start i v8 v9 v11 (selBy (mnP us g) es (j + 1)) (j + 1) st' := by
  obtain ⟨⟨v12, v13, v14, hloc⟩, hA⟩ := h
  obtain ⟨mem, loc⟩ := st
  simp only at hloc hA; subst hloc
  have hfa := C.arr.fa_lt
  have hbk := C.arr.bk_lt
  have hS : SrcMem mem be bea es [bk, bl0, fa] := C.src.mono hA.agree
  have hU : SrcMem mem bu bua us [bk, bl0, fa] := C.usr.mono hA.agree
  have hbglt : bg < m0.length := cstr_lt C.grp
  have hgm : mem.cstr bg 0 = .ok g := by rw [cstr_congr (hA.agree bg hbglt C.grpav)]; exact C.grp
  have ha_le : (selBy (mnP us g) es j).length ≤ j := selBy_length_le _ es j
  have htest := kf_test 3 10 mem (meLoc bk cell bu be start (cnt0 + (selBy (mnP us g) es j).length) i bg v8 v9 j v11 v12 v13 v14) be bea es _ j hS rfl rfl
  simp only [hj, decide_true] at htest
  have hcond := kf_group_eq 3 10 7 mem (meLoc bk cell bu be start (cnt0 + (selBy (mnP us g) es j).length) i bg v8 v9 j v11 v12 v13 v14) be bea bg es _ j g hS hj rfl rfl rfl hgm
  have hsmallstep : (j : Int) + 1 < 18446744073709551616 := by have := C.ssmall; omega
  have hw0 : wrapTo .i32 0 = 0 := by decide
  have hw1 : wrapTo .i32 1 = 1 := by decide
  have keep : ∀ (w12 w13 w14 : Val), (mnP us g es[j] && (firstIdx (entsOf es) (es[j]).group (es[j]).key == j)) = false →
      MnInv m0 bk bl0 fa cell bu be bg names0 gl0len cap cnt0 astart pre ablk0 start i v8 v9 v11 (selBy (mnP us g) es (j + 1)) (j + 1)
        { mem := mem, loc := meLoc bk cell bu be start (cnt0 + (selBy (mnP us g) es j).length) i bg v8 v9 (j + 1) v11 w12 w13 w14 } := by
    intro w12 w13 w14 hsel
    rw [selBy_succ _ es j hj, hsel]
    simp only [Bool.false_eq_true, if_false, List.append_nil]
    exact ⟨⟨w12, w13, w14, rfl⟩, hA⟩
  by_cases hg : (es[j]).group = g
  · have hcT : exec fuel mnBody { mem := mem, loc := meLoc bk cell bu be start (cnt0 + (selBy (mnP us g) es j).length) i bg v8 v9 j v11 v12 v13 v14 } = exec fuel mnInner1 { mem := mem, loc := meLoc bk cell bu be start (cnt0 + (selBy (mnP us g) es j).length) i bg v8 v9 j v11 v12 v13 v14 } := by
      unfold mnBody meEtc
      rw [exec_ite_true (by simpa [hg] using hcond)]
    have hel : (entsOf es).length = es.length := by simp [entsOf]
    have hsm := C.small
    obtain ⟨loc', hfd⟩ := first_definition_exec mem be bea (entsOf es) j (by rw [hel]; exact hj) hS.toKf (by rw [hel]; omega) fuel (by rw [hel]; omega)
    have hent : (entsOf es)[j]'(by rw [hel]; exact hj) = ((es[j]).group, (es[j]).key) := by simp [entsOf]
    rw [hent] at hfd
    have hargs : evalArgs (.cons (.load (.var 3) .ptr) (.cons (.load (.var 10) .u64) .nil)) { mem := mem, loc := meLoc bk cell bu be start (cnt0 + (selBy (mnP us g) es j).length) i bg v8 v9 j v11 v12 v13 v14 } =
        .ok ([.ptr be 0, .int (j : Int)], { mem := mem, loc := meLoc bk cell bu be start (cnt0 + (selBy (mnP us g) es j).length) i bg v8 v9 j v11 v12 v13 v14 }) := by
      simp [evalArgs, evalE, evalL, readPlace, bind, Except.bind]
    by_cases hfirst : firstIdx (entsOf es) (es[j]).group (es[j]).key = j
    · simp only [hfirst, if_true] at hfd
      have hinl14 : exec fuel (.inl (some (.var 14)) .bool (.cons (.load (.var 3) .ptr) (.cons (.load (.var 10) .u64) .nil)) 3 LeafFns.first_definition.body)
          { mem := mem, loc := meLoc bk cell bu be start (cnt0 + (selBy (mnP us g) es j).length) i bg v8 v9 j v11 v12 v13 v14 } = .normal { mem := mem, loc := meLoc bk cell bu be start (cnt0 + (selBy (mnP us g) es j).length) i bg v8 v9 j v11 v12 v13 (.int 1) } :=
        exec_inl_val (fuel := fuel) (nl := 3) (body := LeafFns.first_definition.body) (i := 14) (dty := .bool) (v := .int 1) (v' := .int 1)
          (st' := { mem := mem, loc := loc' }) hargs (by simpa using hfd) (by simp [convert, wrapTo]) (by simp)
      have ht14 : testOf (some (.cast .i32 (.load (.var 14) .bool))) { mem := mem, loc := meLoc bk cell bu be start (cnt0 + (selBy (mnP us g) es j).length) i bg v8 v9 j v11 v12 v13 (.int 1) } = .ok (true, { mem := mem, loc := meLoc bk cell bu be start (cnt0 + (selBy (mnP us g) es j).length) i bg v8 v9 j v11 v12 v13 (.int 1) }) := by
        simp [testOf, evalE, evalL, readPlace, convert, hw1, truth, bind, Except.bind, Except.map]
      -- `first_entry(uf, group, ef->file_entry[j].key)`
      obtain ⟨bq, q1, q2, _⟩ := (hS.ents j hj).key
      have hkey := kf_member 3 10 mem (meLoc bk cell bu be start (cnt0 + (selBy (mnP us g) es j).length) i bg v8 v9 j v11 v12 v13 (.int 1)) be bea es _ j 1 (.ptr bq 0) hS hj rfl rfl (by simpa using q1) (by simp)
      have hargs3 : evalArgs (.cons (.load (.var 2) .ptr) (.cons (.load (.var 7) .ptr) (.cons (.load (.slot (meEtc 10) 1) .ptr) .nil))) { mem := mem, loc := meLoc bk cell bu be start (cnt0 + (selBy (mnP us g) es j).length) i bg v8 v9 j v11 v12 v13 (.int 1) } =
          .ok ([.ptr bu 0, .ptr bg 0, .ptr bq 0], { mem := mem, loc := meLoc bk cell bu be start (cnt0 + (selBy (mnP us g) es j).length) i bg v8 v9 j v11 v12 v13 (.int 1) }) := by
        have h2 : evalE (.load (.var 2) .ptr) { mem := mem, loc := meLoc bk cell bu be start (cnt0 + (selBy (mnP us g) es j).length) i bg v8 v9 j v11 v12 v13 (.int 1) } = .ok (.ptr bu 0, { mem := mem, loc := meLoc bk cell bu be start (cnt0 + (selBy (mnP us g) es j).length) i bg v8 v9 j v11 v12 v13 (.int 1) }) := by
          simp [evalE, evalL, readPlace, bind, Except.bind]
        have h7 : evalE (.load (.var 7) .ptr) { mem := mem, loc := meLoc bk cell bu be start (cnt0 + (selBy (mnP us g) es j).length) i bg v8 v9 j v11 v12 v13 (.int 1) } = .ok (.ptr bg 0, { mem := mem, loc := meLoc bk cell bu be start (cnt0 + (selBy (mnP us g) es j).length) i bg v8 v9 j v11 v12 v13 (.int 1) }) := by
          simp [evalE, evalL, readPlace, bind, Except.bind]
        unfold meEtc
        generalize (Expr.load (.slot (.sidx (.load (.slot (.load (.var 3) .ptr) 0) .ptr) (.load (.var 10) .u64) 7) 1) .ptr) = K at hkey ⊢
        simp only [evalArgs, h2, h7, hkey, bind, Except.bind]
      have hul : (entsOf us).length = us.length := by simp [entsOf]
      have hus := C.usmall
      have hfe := first_entry_exec mem bu bua bg bq (entsOf us) g (es[j]).key hU.toKf hgm q2 (by rw [hul]; exact hus) fuel (by rw [hul]; omega)
      have hfile := firstIdx_le (entsOf us) g (es[j]).key
      have hwf : wrapTo .u64 ((firstIdx (entsOf us) g (es[j]).key) : Int) = ((firstIdx (entsOf us) g (es[j]).key) : Int) := wrapTo_u64_small _ (by omega) (by omega)
      have hinl13 : exec fuel (.inl (some (.var 13)) .u64 (.cons (.load (.var 2) .ptr) (.cons (.load (.var 7) .ptr) (.cons (.load (.slot (meEtc 10) 1) .ptr) .nil))) 4 LeafFns.first_entry.body)
          { mem := mem, loc := meLoc bk cell bu be start (cnt0 + (selBy (mnP us g) es j).length) i bg v8 v9 j v11 v12 v13 (.int 1) } = .normal { mem := mem, loc := meLoc bk cell bu be start (cnt0 + (selBy (mnP us g) es j).length) i bg v8 v9 j v11 v12 (.int ((firstIdx (entsOf us) g (es[j]).key) : Int)) (.int 1) } :=
        exec_inl_val (fuel := fuel) (nl := 4) (body := LeafFns.first_entry.body) (i := 13) (dty := .u64) (v := .int ((firstIdx (entsOf us) g (es[j]).key) : Int)) (v' := .int ((firstIdx (entsOf us) g (es[j]).key) : Int))
          (st' := { mem := mem, loc := [.ptr bu 0, .ptr bg 0, .ptr bq 0, .int ((firstIdx (entsOf us) g (es[j]).key) : Int)] }) hargs3 (by simpa using hfe) (by simp [convert, hwf]) (by simp)
      have hU1 : mem.loadSlot bu 1 = .ok (.int us.length) := by
        obtain ⟨kb, k1, k2, k3, k4⟩ := hU.kf
        simpa using loadSlot_of (i := 1) k1 k2 k4 (by simp)
      have hteq : testOf (some (.bin .eq (.load (.var 13) .u64) (.load (.slot (.load (.var 2) .ptr) 1) .u64) .i32)) { mem := mem, loc := meLoc bk cell bu be start (cnt0 + (selBy (mnP us g) es j).length) i bg v8 v9 j v11 v12 (.int ((firstIdx (entsOf us) g (es[j]).key) : Int)) (.int 1) } =
          .ok (decide ((firstIdx (entsOf us) g (es[j]).key) = us.length), { mem := mem, loc := meLoc bk cell bu be start (cnt0 + (selBy (mnP us g) es j).length) i bg v8 v9 j v11 v12 (.int ((firstIdx (entsOf us) g (es[j]).key) : Int)) (.int 1) }) := by
        by_cases hq : (firstIdx (entsOf us) g (es[j]).key) = us.length
        · simp [testOf, evalE, evalL, readPlace, hU1, binop, cmpInt, boolVal, truth, hq, bind, Except.bind]
        · have : ¬ (((firstIdx (entsOf us) g (es[j]).key) : Int) = (us.length : Int)) := by omega
          simp [testOf, evalE, evalL, readPlace, hU1, binop, cmpInt, boolVal, truth, hq, this, bind, Except.bind]
      have hdef := firstIdx_eq_length_iff us g (es[j]).key
      by_cases hnew : (firstIdx (entsOf us) g (es[j]).key) = us.length
      · -- a key of this group that only the override defines: copied
        have hdf : Econf.defines us g (es[j]).key = false := hdef.1 hnew
        have hfirst' := hfirst
        rw [hg] at hfirst'
        have hsel : (mnP us g es[j] && (firstIdx (entsOf es) (es[j]).group (es[j]).key == j)) = true := by simp [mnP, hg, hdf, hfirst']
        have hsrc := kf_src 3 10 mem (meLoc bk cell bu be start (cnt0 + (selBy (mnP us g) es j).length) i bg v8 v9 j v11 v12 (.int ((firstIdx (entsOf us) g (es[j]).key) : Int)) (.int 1)) be bea es _ j hS (Nat.le_of_lt hj) rfl rfl
        have hss := C.ssmall
        have hidx : ∀ mm, evalE (.incdec (.var 5) true true .u64) { mem := mm, loc := List.set (meLoc bk cell bu be start (cnt0 + (selBy (mnP us g) es j).length) i bg v8 v9 j v11 v12 (.int ((firstIdx (entsOf us) g (es[j]).key) : Int)) (.int 1)) 12 (.ptr mem.length 0) } =
            .ok (.int ((cnt0 + (selBy (mnP us g) es j).length : Nat) : Int), { mem := mm, loc := meLoc bk cell bu be start (cnt0 + (selBy (mnP us g) es j).length + 1) i bg v8 v9 j v11 (.ptr mem.length 0) (.int ((firstIdx (entsOf us) g (es[j]).key) : Int)) (.int 1) }) := fun mm => by
          simpa [meLoc] using mn_idx mm (.ptr bk 0) (.ptr cell 0) (.ptr bu 0) (.ptr be 0) (.int (start : Int)) (.int (i : Int)) (.ptr bg 0) v8 v9 (.int (j : Int)) v11
            (.ptr mem.length 0) (.int ((firstIdx (entsOf us) g (es[j]).key) : Int)) (.int 1) (cnt0 + (selBy (mnP us g) es j).length) (by omega)
        have hroom : (selBy (mnP us g) es j).length + 1 ≤ (selBy (mnP us g) es es.length).length := by
          have h1 := selBy_length_mono (mnP us g) es (i := j + 1) (n := es.length) (by omega)
          rw [selBy_succ _ es j hj, hsel] at h1
          simpa using h1
        have hidx' : ∀ mm, evalE (.incdec (.var 5) true true .u64) { mem := mm, loc := List.set (meLoc bk cell bu be start (cnt0 + (selBy (mnP us g) es j).length) i bg v8 v9 j v11 v12 (.int ((firstIdx (entsOf us) g (es[j]).key) : Int)) (.int 1)) 12 (.ptr mem.length 0) } =
            .ok (.int ((astart + (pre ++ selBy (mnP us g) es j).length : Nat) : Int), { mem := mm, loc := meLoc bk cell bu be start (cnt0 + (selBy (mnP us g) es j).length + 1) i bg v8 v9 j v11 (.ptr mem.length 0) (.int ((firstIdx (entsOf us) g (es[j]).key) : Int)) (.int 1) }) := fun mm => by
          have e : astart + (pre ++ selBy (mnP us g) es j).length = cnt0 + (selBy (mnP us g) es j).length := by simp [hcnt]; omega
          rw [e]; exact hidx mm
        have hpl : (pre ++ selBy (mnP us g) es j).length = pre.length + (selBy (mnP us g) es j).length := List.length_append
        obtain ⟨m', hex, hA', hlen', _, _, _⟩ := hA.append C.arr bea (7 * j) es[j] (C.src.ents j hj) (meLoc bk cell bu be start (cnt0 + (selBy (mnP us g) es j).length) i bg v8 v9 j v11 v12 (.int ((firstIdx (entsOf us) g (es[j]).key) : Int)) (.int 1)) (meLoc bk cell bu be start (cnt0 + (selBy (mnP us g) es j).length + 1) i bg v8 v9 j v11 (.ptr mem.length 0) (.int ((firstIdx (entsOf us) g (es[j]).key) : Int)) (.int 1)) (meEtc 10) (.incdec (.var 5) true true .u64) 12
          (by omega) (by omega) (C.lines _ (List.getElem_mem hj)) fuel (by omega) rfl rfl (by simp) (by decide) (by unfold meEtc; exact hsrc) hidx' rfl
        refine ⟨_, { mem := m', loc := meLoc bk cell bu be start (cnt0 + (selBy (mnP us g) es j).length + 1) i bg v8 v9 j v11 (.ptr mem.length 0) (.int ((firstIdx (entsOf us) g (es[j]).key) : Int)) (.int 1) }, _, htest, Or.inl ?_, mn_step m' _ _ _ _ _ _ _ _ _ _ _ _ _ _ j hsmallstep, ?_⟩
        · rw [hcT]; unfold mnInner1
          rw [exec_seq_normal hinl14, exec_ite_true ht14]; unfold mnInner2
          rw [exec_seq_normal hinl13, exec_ite_true (by rw [hteq, decide_eq_true hnew])]
          exact hex
        · rw [selBy_succ _ es j hj, hsel]
          simp only [if_true]
          exact ⟨⟨.ptr mem.length 0, .int ((firstIdx (entsOf us) g (es[j]).key) : Int), .int 1, by simp [meLoc]; omega⟩, by rw [← List.append_assoc]; exact hA'⟩
      · -- the base defines this key in the group: its entry has taken the value already
        have hdt : Econf.defines us g (es[j]).key = true := by
          cases hd : Econf.defines us g (es[j]).key with
          | true => rfl
          | false => exact absurd (hdef.2 hd) hnew
        have hsel : (mnP us g es[j] && (firstIdx (entsOf es) (es[j]).group (es[j]).key == j)) = false := by simp [mnP, hdt]
        refine ⟨_, { mem := mem, loc := meLoc bk cell bu be start (cnt0 + (selBy (mnP us g) es j).length) i bg v8 v9 j v11 v12 (.int ((firstIdx (entsOf us) g (es[j]).key) : Int)) (.int 1) }, _, htest, Or.inl ?_, mn_step mem _ _ _ _ _ _ _ _ _ _ _ _ _ _ j hsmallstep, keep _ _ _ hsel⟩
        rw [hcT]; unfold mnInner1
        rw [exec_seq_normal hinl14, exec_ite_true ht14]; unfold mnInner2
        rw [exec_seq_normal hinl13, exec_ite_false (by rw [hteq, decide_eq_false hnew])]; simp [exec]
    · -- a later definition of the key
      have hsel : (mnP us g es[j] && (firstIdx (entsOf es) (es[j]).group (es[j]).key == j)) = false := by simp [hfirst]
      simp only [hfirst, if_false] at hfd
      have hinl14 : exec fuel (.inl (some (.var 14)) .bool (.cons (.load (.var 3) .ptr) (.cons (.load (.var 10) .u64) .nil)) 3 LeafFns.first_definition.body)
          { mem := mem, loc := meLoc bk cell bu be start (cnt0 + (selBy (mnP us g) es j).length) i bg v8 v9 j v11 v12 v13 v14 } = .normal { mem := mem, loc := meLoc bk cell bu be start (cnt0 + (selBy (mnP us g) es j).length) i bg v8 v9 j v11 v12 v13 (.int 0) } :=
        exec_inl_val (fuel := fuel) (nl := 3) (body := LeafFns.first_definition.body) (i := 14) (dty := .bool) (v := .int 0) (v' := .int 0)
          (st' := { mem := mem, loc := loc' }) hargs (by simpa using hfd) (by simp [convert, wrapTo]) (by simp)
      refine ⟨_, { mem := mem, loc := meLoc bk cell bu be start (cnt0 + (selBy (mnP us g) es j).length) i bg v8 v9 j v11 v12 v13 (.int 0) }, _, htest, Or.inl ?_, mn_step mem _ _ _ _ _ _ _ _ _ _ _ _ _ _ j hsmallstep, keep _ _ _ hsel⟩
      rw [hcT]; unfold mnInner1
      rw [exec_seq_normal hinl14]
      rw [exec_ite_false (st' := { mem := mem, loc := meLoc bk cell bu be start (cnt0 + (selBy (mnP us g) es j).length) i bg v8 v9 j v11 v12 v13 (.int 0) })
        (by simp [testOf, evalE, evalL, readPlace, convert, hw0, truth, bind, Except.bind, Except.map])]
      simp [exec]
  · -- an entry of another group
    have hsel : (mnP us g es[j] && (firstIdx (entsOf es) (es[j]).group (es[j]).key == j)) = false := by simp [mnP, hg]
    refine ⟨_, { mem := mem, loc := meLoc bk cell bu be start (cnt0 + (selBy (mnP us g) es j).length) i bg v8 v9 j v11 v12 v13 v14 }, _, htest, Or.inl ?_, mn_step mem _ _ _ _ _ _ _ _ _ _ _ _ _ _ j hsmallstep, keep v12 v13 v14 hsel⟩
    unfold mnBody meEtc
    rw [exec_ite_false (by simpa [hg] using hcond)]; simp [exec]

/-- the inner loop of `merge_existing_groups` that appends, behind the last entry of a group of the base, the keys of that group which only
    the override defines: on the generated term, from any state of the array (`astart` entries before, then `pre`), it appends the copies of
    exactly the entries the model selects (`selBy (mnP us g)`), counts them into `merge_length` and keeps the invariant of the array -/
theorem me_newkeys_inv {m0 : Mem} {bk bl0 fa cell bu bua be bea bg : Nat} {us es : List Econf.Entry} {g : List UInt8} {names0 : List (List UInt8)} {gl0len cap cnt0 : Nat}
    {ablk0 : Block} {astart : Nat} {pre : List Econf.Entry} (start i : Nat) (v8 v9 v11 v12 v13 v14 : Val)
    (C : MnCtx m0 bk bl0 fa cell bu bua be bea bg us es g gl0len cap cnt0) (hcnt : cnt0 = astart + pre.length)
    (hpsmall : (gl0len : Int) + pre.length + es.length + 2 < 2147483648)
    (hroomT : astart + pre.length + (selBy (mnP us g) es es.length).length ≤ cap) (fuel : Nat) (hf : gl0len + pre.length + es.length + us.length + 2 < fuel)
    (mem : Mem) (h : ArrInv m0 bk bl0 fa names0 gl0len cap astart ablk0 pre mem) :
    ∃ mem' w12 w13 w14, exec fuel meNewKeys { mem := mem, loc := meLoc bk cell bu be start cnt0 i bg v8 v9 0 v11 v12 v13 v14 } =
        .normal { mem := mem', loc := meLoc bk cell bu be start (cnt0 + (selBy (mnP us g) es es.length).length) i bg v8 v9 es.length v11 w12 w13 w14 } ∧
      ArrInv m0 bk bl0 fa names0 gl0len cap astart ablk0 (pre ++ selBy (mnP us g) es es.length) mem' := by
  have hsel0 : selBy (mnP us g) es 0 = [] := by simp [selBy]
  have h0 : MnInv m0 bk bl0 fa cell bu be bg names0 gl0len cap cnt0 astart pre ablk0 start i v8 v9 v11 (selBy (mnP us g) es 0) 0
      { mem := mem, loc := meLoc bk cell bu be start cnt0 i bg v8 v9 0 v11 v12 v13 v14 } := by
    rw [hsel0]; exact ⟨⟨v12, v13, v14, by simp⟩, by simpa using h⟩
  rw [meNewKeys_shape, exec_for]
  obtain ⟨R, hloop, ⟨w12, w13, w14, hlocR⟩, hAR⟩ := loop_inv _ _ _
    (fun st => MnInv m0 bk bl0 fa cell bu be bg names0 gl0len cap cnt0 astart pre ablk0 start i v8 v9 v11 (selBy (mnP us g) es es.length) es.length st) es.length
    (fun j st => MnInv m0 bk bl0 fa cell bu be bg names0 gl0len cap cnt0 astart pre ablk0 start i v8 v9 v11 (selBy (mnP us g) es j) j st)
    (fun j st hj hinv => mn_round C hcnt hpsmall hroomT fuel hf j hj st hinv)
    (fun st hinv => by
      obtain ⟨⟨x12, x13, x14, hloc⟩, hA⟩ := hinv
      obtain ⟨mm, loc⟩ := st
      simp only at hloc hA; subst hloc
      have hS : SrcMem mm be bea es [bk, bl0, fa] := C.src.mono hA.agree
      have htest := kf_test 3 10 mm (meLoc bk cell bu be start (cnt0 + (selBy (mnP us g) es es.length).length) i bg v8 v9 es.length v11 x12 x13 x14) be bea es _ es.length hS rfl rfl
      simp only [Nat.lt_irrefl, decide_false] at htest
      exact ⟨_, htest, ⟨⟨x12, x13, x14, rfl⟩, hA⟩⟩)
    _ fuel h0 (by omega)
  obtain ⟨memR, locR⟩ := R
  simp only at hlocR hAR; subst hlocR
  exact ⟨memR, w12, w13, w14, hloop, hAR⟩

/-- … from an array with `cnt0` entries: exactly the model's `newKeysOf us es g` is appended -/
theorem C_me_newkeys {m0 : Mem} {bk bl0 fa cell bu bua be bea bg : Nat} {us es : List Econf.Entry} {g : List UInt8} {names0 : List (List UInt8)} {gl0len cap cnt0 : Nat}
    {ablk0 : Block} (start i : Nat) (v8 v9 v11 v12 v13 v14 : Val)
    (C : MnCtx m0 bk bl0 fa cell bu bua be bea bg us es g gl0len cap cnt0) (hroom : cnt0 + es.length ≤ cap) (fuel : Nat) (hf : gl0len + es.length + us.length + 2 < fuel)
    (mem : Mem) (h : ArrInv m0 bk bl0 fa names0 gl0len cap cnt0 ablk0 [] mem) :
    ∃ mem' w12 w13 w14, exec fuel meNewKeys { mem := mem, loc := meLoc bk cell bu be start cnt0 i bg v8 v9 0 v11 v12 v13 v14 } =
        .normal { mem := mem', loc := meLoc bk cell bu be start (cnt0 + (Econf.newKeysOf us es g).length) i bg v8 v9 es.length v11 w12 w13 w14 } ∧
      (∃ bl' gl', GlMem mem' bk bl' gl' ∧
        gl'.map (·.2) = ((Econf.newKeysOf us es g).map (·.group)).foldl Econf.addGroup names0 ∧
        ∀ j (hj : j < (Econf.newKeysOf us es g).length), EntMem mem' fa (7 * (cnt0 + j)) ((Econf.newKeysOf us es g)[j]) [bk, bl']) ∧
      (∃ ablk, mem'[fa]? = some ablk ∧ ablk.live = true ∧ ∀ k, k < 7 * cnt0 → ablk.slots[k]? = ablk0.slots[k]?) ∧
      (∀ b, b < m0.length → b ∉ [bk, bl0, fa] → mem'[b]? = m0[b]?) := by
  have hsm := C.small
  obtain ⟨memR, w12, w13, w14, hloop, hAR⟩ := me_newkeys_inv (astart := cnt0) (pre := []) start i v8 v9 v11 v12 v13 v14 C (by simp) (by simpa using hsm)
    (by have := selBy_length_le (mnP us g) es es.length; simp; omega) fuel (by simpa using hf) mem h
  simp only [List.nil_append] at hAR
  have hm := mnSel_model us es g
  have hlen : (Econf.newKeysOf us es g).length = (selBy (mnP us g) es es.length).length := by rw [← hm]; simp
  have hgrp : (Econf.newKeysOf us es g).map (·.group) = (selBy (mnP us g) es es.length).map (·.group) := by
    rw [← hm, List.map_map]
    apply List.map_congr_left
    intro e _
    simp [Econf.cpyEntry]
  obtain ⟨bl', gl', d1, d2, d3, d4, d5, d6, d7, d8⟩ := hAR.dest
  obtain ⟨ablk, a1, a2, a3, a4, a5, a6⟩ := hAR.arr
  refine ⟨memR, w12, w13, w14, by rw [hlen]; exact hloop, ⟨bl', gl', d1, by rw [hgrp]; exact d7, ?_⟩, ⟨ablk, a1, a2, a6⟩, hAR.agree⟩
  intro j hj
  have hj' : j < (selBy (mnP us g) es es.length).length := by omega
  have : (Econf.newKeysOf us es g)[j] = Econf.cpyEntry ((selBy (mnP us g) es es.length)[j]) := by simp [← hm]
  rw [this]; exact d8 j hj'

/-- `first_entry` in terms of the model's `findEntry` -/
theorem findEntry_eq (es : List Econf.Entry) (g k : List UInt8) :
    Econf.findEntry es g k = es[firstIdx (entsOf es) g k]? := by
  induction es with
  | nil => simp [Econf.findEntry, firstIdx, entsOf]
  | cons e es ih =>
    by_cases hm : (e.group == g && e.key == k) = true
    · have hn : (!(e.group == g) || !(e.key == k)) = false := by
        have := hm; simp only [Bool.and_eq_true] at this; simp [this.1, this.2]
      simp [Econf.findEntry, firstIdx, entsOf, List.takeWhile, hm, hn, List.find?]
    · have hm' : (e.group == g && e.key == k) = false := by simpa using hm
      have hn : (!(e.group == g) || !(e.key == k)) = true := by
        cases h1 : (e.group == g) <;> cases h2 : (e.key == k) <;> simp_all
      have hf : firstIdx (entsOf (e :: es)) g k = firstIdx (entsOf es) g k + 1 := by
        simp [firstIdx, entsOf, List.takeWhile, hm', hn]
      rw [hf]
      simp only [Econf.findEntry, List.find?, hm', List.getElem?_cons_succ]
      exact ih

/-- the new value: `src ? strdup(src) : strdup("")` -/
theorem me_newval (LD : Expr) (M : Mem) (loc : List Val) (w : Val) (so : Option (List UInt8))
    (hw : ∀ mm, (∀ b, b < M.length → mm[b]? = M[b]?) → evalE LD { mem := mm, loc := loc } = .ok (w, { mem := mm, loc := loc })) (hso : OptStr M w so) :
    ∃ M' bn, evalE (.cond LD (.call "strdup" (.cons LD .nil)) (.call "strdup" (.cons (.strlit []) .nil))) { mem := M, loc := loc } =
        .ok (.ptr bn 0, { mem := M', loc := loc }) ∧
      M'.cstr bn 0 = .ok (so.getD []) ∧ M.length ≤ bn ∧ bn < M'.length ∧ M.length ≤ M'.length ∧ (∀ b, b < M.length → M'[b]? = M[b]?) := by
  have hw0 := hw M (fun b _ => rfl)
  cases hso with
  | none =>
    -- `strdup("")`
    have hlit := lit_cstr M [] (by simp)
    obtain ⟨m1, hsd, hmb, hlen, hfr⟩ := strdup_spec (M ++ [({ cells := (([] : List UInt8) ++ [0]).map some, writable := false } : Block)]) M.length 0 [] hlit
    refine ⟨m1, M.length + 1, ?_, ?_, by omega, by rw [hlen]; simp, by rw [hlen]; simp; omega, fun b hb => by rw [hfr b (by simp; omega)]; exact append_get hb⟩
    · have hl : (M ++ [({ cells := (([] : List UInt8) ++ [0]).map some, writable := false } : Block)]).length = M.length + 1 := by simp
      rw [hl] at hsd
      simp only [evalE, hw0, bind, Except.bind, truth, evalArgs]
      simp only [hsd]
      rfl
    · have := hmb.cstr0 (pre := []) (rest := []) (by simp)
      simpa using this
  | some b s hc =>
    obtain ⟨m1, hsd, hmb, hlen, hfr⟩ := strdup_spec M b 0 s hc
    refine ⟨m1, M.length, ?_, ?_, Nat.le_refl _, by omega, by omega, hfr⟩
    · simp only [evalE, hw0, bind, Except.bind, truth, evalArgs, hsd]
      rfl
    · simpa using hmb.cstr0 (rest := []) (cstr_nz hc)

/-- every pointer member of an entry names a block that holds a string and is not to be avoided -/
theorem EntMem.ptr_str {m : Mem} {bs os : Nat} {e : Econf.Entry} {av : List Nat} (h : EntMem m bs os e av) :
    ∀ k : Nat, k < 5 → ∀ b, m.loadSlot bs ((os : Int) + (k : Int)) = .ok (.ptr b 0) → (∃ str, m.cstr b 0 = .ok str) ∧ b ∉ av := by
  obtain ⟨bg, g1, g2, g3⟩ := h.grp
  obtain ⟨bq, k1, k2, k3⟩ := h.key
  obtain ⟨v, v1, v2, v3⟩ := h.val
  obtain ⟨vb, b1, b2, b3⟩ := h.cb
  obtain ⟨va, a1, a2, a3⟩ := h.ca
  have opt : ∀ (w : Val) (so : Option (List UInt8)) (b : Nat), OptStr m w so → w = .ptr b 0 → ∃ str, m.cstr b 0 = .ok str := by
    intro w so b hv hw
    cases hv with
    | none => cases hw
    | some b2 str hc => cases hw; exact ⟨str, hc⟩
  intro k hk b hl
  have hk' : k = 0 ∨ k = 1 ∨ k = 2 ∨ k = 3 ∨ k = 4 := by omega
  rcases hk' with rfl | rfl | rfl | rfl | rfl
  · have : (Except.ok (Val.ptr bg 0) : R Val) = .ok (.ptr b 0) := by rw [← g1]; simpa using hl
    injection this with this; injection this with this; subst this; exact ⟨⟨_, g2⟩, g3⟩
  · have : (Except.ok (Val.ptr bq 0) : R Val) = .ok (.ptr b 0) := by rw [← k1]; simpa using hl
    injection this with this; injection this with this; subst this; exact ⟨⟨_, k2⟩, k3⟩
  · have : (Except.ok v : R Val) = .ok (.ptr b 0) := by rw [← v1]; simpa using hl
    injection this with this; exact ⟨opt v _ b v2 this, v3 b this⟩
  · have : (Except.ok vb : R Val) = .ok (.ptr b 0) := by rw [← b1]; simpa using hl
    injection this with this; exact ⟨opt vb _ b b2 this, b3 b this⟩
  · have : (Except.ok va : R Val) = .ok (.ptr b 0) := by rw [← a1]; simpa using hl
    injection this with this; exact ⟨opt va _ b a2 this, a3 b this⟩

/-- an entry is the same entry in a memory (and block) that keeps its seven words and the blocks its own pointers name -/
theorem EntMem.reblock' {m m' : Mem} {fa fa' os : Nat} {e : Econf.Entry} {av av' : List Nat} {ablk ablk' : Block}
    (h : EntMem m fa os e av) (ha : m[fa]? = some ablk) (ha' : m'[fa']? = some ablk') (hl' : ablk'.live = true)
    (hw : ∀ k, k < 7 → ablk'.slots[os + k]? = ablk.slots[os + k]?)
    (hm : ∀ k : Nat, k < 5 → ∀ b, m.loadSlot fa ((os : Int) + (k : Int)) = .ok (.ptr b 0) → m'[b]? = m[b]?)
    (hav : ∀ k : Nat, k < 5 → ∀ b, m.loadSlot fa ((os : Int) + (k : Int)) = .ok (.ptr b 0) → b ∉ av') (hfa : fa' ∉ av') : EntMem m' fa' os e av' := by
  obtain ⟨bg, g1, g2, g3⟩ := h.grp
  obtain ⟨bq, k1, k2, k3⟩ := h.key
  obtain ⟨v, v1, v2, v3⟩ := h.val
  obtain ⟨vb, b1, b2, b3⟩ := h.cb
  obtain ⟨va, a1, a2, a3⟩ := h.ca
  have word : ∀ (k : Nat) (w : Val), k < 7 → m.loadSlot fa ((os + k : Nat) : Int) = .ok w → m'.loadSlot fa' ((os + k : Nat) : Int) = .ok w := by
    intro k w hk hl
    obtain ⟨s1, s2, _⟩ := loadSlot_inv hl ha
    exact loadSlot_of ha' hl' (by rw [hw k hk]; exact s1) s2
  have optOk : ∀ (k : Nat) (w : Val) (so : Option (List UInt8)), k < 5 → m.loadSlot fa ((os : Int) + (k : Int)) = .ok w → OptStr m w so → OptStr m' w so := by
    intro k w so hk hl hv
    cases hv with
    | none => exact .none
    | some b str hc => exact .some b str (by rw [cstr_congr (hm k hk b hl)]; exact hc)
  refine ⟨hfa, ⟨bg, by simpa using word 0 _ (by omega) (by simpa using g1), by rw [cstr_congr (hm 0 (by omega) bg (by simpa using g1))]; exact g2,
      hav 0 (by omega) bg (by simpa using g1)⟩,
    ⟨bq, by simpa using word 1 _ (by omega) (by simpa using k1), by rw [cstr_congr (hm 1 (by omega) bq (by simpa using k1))]; exact k2,
      hav 1 (by omega) bq (by simpa using k1)⟩,
    ⟨v, by simpa using word 2 _ (by omega) (by simpa using v1), optOk 2 _ _ (by omega) (by simpa using v1) v2, fun b hb => hav 2 (by omega) b (by rw [← hb]; simpa using v1)⟩,
    ⟨vb, by simpa using word 3 _ (by omega) (by simpa using b1), optOk 3 _ _ (by omega) (by simpa using b1) b2, fun b hb => hav 3 (by omega) b (by rw [← hb]; simpa using b1)⟩,
    ⟨va, by simpa using word 4 _ (by omega) (by simpa using a1), optOk 4 _ _ (by omega) (by simpa using a1) a2, fun b hb => hav 4 (by omega) b (by rw [← hb]; simpa using a1)⟩,
    by simpa using word 5 _ (by omega) (by simpa using h.line)⟩

/-- the invariant sees the selected entries through their copies and their groups only -/
theorem ArrInv.congr {m0 : Mem} {bk bl0 fa : Nat} {names0 : List (List UInt8)} {gl0len cap start : Nat} {ablk0 : Block} {sel sel' : List Econf.Entry} {mem : Mem}
    (h : ArrInv m0 bk bl0 fa names0 gl0len cap start ablk0 sel mem) (hc : sel'.map Econf.cpyEntry = sel.map Econf.cpyEntry) :
    ArrInv m0 bk bl0 fa names0 gl0len cap start ablk0 sel' mem := by
  have hl : sel'.length = sel.length := by simpa using congrArg List.length hc
  have hg : sel'.map (·.group) = sel.map (·.group) := by
    have := congrArg (List.map (·.group)) hc
    simpa [List.map_map, Function.comp_def, Econf.cpyEntry] using this
  obtain ⟨bl', gl', d1, d2, d3, d4, d5, d6, d7, d8⟩ := h.dest
  refine ⟨h.agree, h.grows, ⟨bl', gl', d1, d2, d3, d4, d5, by rw [hl]; exact d6, by rw [hg]; exact d7, fun j hj => ?_⟩, h.arr⟩
  have hj' : j < sel.length := by omega
  have : Econf.cpyEntry sel'[j] = Econf.cpyEntry sel[j] := by
    have h1 : (sel'.map Econf.cpyEntry)[j]? = (sel.map Econf.cpyEntry)[j]? := by rw [hc]
    simpa [hj, hj'] using h1
  rw [this]; exact d8 j hj'

/-- `&(*fe)[merge_length]` -/
theorem dst_eval (mm : Mem) (loc : List Val) (cell fa a : Nat) (cblk ablk : Block) (hl1 : loc[1]? = some (.ptr cell 0)) (hl5 : loc[5]? = some (.int (a : Int)))
    (hc1 : mm[cell]? = some cblk) (hc2 : cblk.live = true) (hc3 : cblk.slots[0]? = some (.ptr fa 0))
    (ha1 : mm[fa]? = some ablk) (ha2 : ablk.live = true) (ha : 7 * a ≤ ablk.slots.length) :
    evalE meDst { mem := mm, loc := loc } = .ok (.ptr fa ((7 * a : Nat) : Int), { mem := mm, loc := loc }) := by
  have hl0 : mm.loadSlot cell 0 = .ok (.ptr fa 0) := by simpa using loadSlot_of (i := 0) hc1 hc2 hc3 (by simp)
  have hsx : slotAdd mm fa 0 ((a : Int) * 7) = .ok (.ptr fa ((a : Int) * 7)) := by
    have : (0 : Int) ≤ (a : Int) * 7 ∧ (a : Int) * 7 ≤ (ablk.slots.length : Int) := by omega
    simp [slotAdd, Mem.block, ha1, ha2, this, bind, Except.bind]
  have e : (((7 * a : Nat)) : Int) = (a : Int) * 7 := by omega
  rw [e]
  exact evalE_sidx _ _ _ _ fa 0 (a : Int) 7 _ (by simp [evalE, evalL, readPlace, hl1, hl0, bind, Except.bind])
    (by simp [evalE, evalL, readPlace, hl5, bind, Except.bind]) (by simpa using hsx)

/-- the value replacement of `merge_existing_groups`: if the override defines the key, the copy's value (a block made by `strdup`
    a moment ago, nobody else's) is freed and replaced by a copy of the override's value (the empty string if it has none) -/
theorem me_override {m0 : Mem} {bk bl0 fa cell be bea : Nat} {es : List Econf.Entry} {names0 : List (List UInt8)} {gl0len cap start : Nat} {ablk0 : Block}
    {sel : List Econf.Entry} {M M1 : Mem}
    (C : ArrCtx m0 bk bl0 fa cell gl0len cap) (hSe : SrcMem m0 be bea es [bk, bl0, fa]) (u : Econf.Entry)
    (hM : ArrInv m0 bk bl0 fa names0 gl0len cap start ablk0 sel M)
    (h1 : ArrInv m0 bk bl0 fa names0 gl0len cap start ablk0 (sel ++ [u]) M1) (hlen : M.length ≤ M1.length)
    (hfresh : ∀ bv, M1.loadSlot fa (((7 * (start + sel.length) : Nat) : Int) + 2) = .ok (.ptr bv 0) → M.length < bv ∧
        (∀ k : Nat, k < 5 → k ≠ 2 → M1.loadSlot fa (((7 * (start + sel.length) : Nat) : Int) + (k : Int)) ≠ .ok (.ptr bv 0)) ∧
        ∀ bl3 gl3, GlMem M1 bk bl3 gl3 → bl3 ≠ bv ∧ ∀ x, x ∈ gl3 → x.1 ≠ bv)
    (hwords : ∀ ablkM ablk', M[fa]? = some ablkM → M1[fa]? = some ablk' → ∀ k, k < 7 * (start + sel.length) → ablk'.slots[k]? = ablkM.slots[k]?)
    (loc : List Val) (hl1 : loc[1]? = some (.ptr cell 0)) (hl3 : loc[3]? = some (.ptr be 0))
    (hl5 : loc[5]? = some (.int ((start + sel.length : Nat) : Int))) (hl10 : loc[10]? = some (.int ((firstIdx (entsOf es) u.group u.key : Nat) : Int)))
    (fuel : Nat) :
    ∃ M3, exec fuel meOverride { mem := M1, loc := loc } = .normal { mem := M3, loc := loc } ∧
      ArrInv m0 bk bl0 fa names0 gl0len cap start ablk0 (sel ++ [Econf.overrideValue es u]) M3 ∧ M1.length ≤ M3.length := by
  have hS1 : SrcMem M1 be bea es [bk, bl0, fa] := hSe.mono h1.agree
  have htest := kf_test 3 10 M1 loc be bea es _ (firstIdx (entsOf es) u.group u.key) hS1 hl3 hl10
  have hfe := findEntry_eq es u.group u.key
  by_cases hj : firstIdx (entsOf es) u.group u.key < es.length
  · -- the override defines the key (first at `j`)
    have hsome : Econf.findEntry es u.group u.key = some es[firstIdx (entsOf es) u.group u.key] := by
      rw [hfe]; exact List.getElem?_eq_getElem hj
    have hov : Econf.overrideValue es u = { Econf.cpyEntry u with value := some ((es[firstIdx (entsOf es) u.group u.key]).value.getD []) } := by
      simp [Econf.overrideValue, hsome]
    obtain ⟨bl', gl', d1, d2, d3, d4, d5, d6, d7, d8⟩ := h1.dest
    obtain ⟨ablk1, a1, a2, a3, a4, a5, a6⟩ := h1.arr
    obtain ⟨ablkM, aM1, aM2, _, _, aM5, _⟩ := hM.arr
    obtain ⟨cblk, c1, c2, c3⟩ := C.cellb
    have hclt : cell < m0.length := (List.getElem?_eq_some_iff.1 c1).1
    have hc1 : M1[cell]? = some cblk := by rw [h1.agree cell hclt C.cellav]; exact c1
    have hcav := C.cellav
    simp only [List.mem_cons, List.not_mem_nil, or_false, not_or] at hcav
    have hgrow0 : m0.length ≤ M.length := hM.grows
    have hfalt := C.fa_lt
    have hbklt := C.bk_lt
    -- the new element and its value word
    have hlast : (sel ++ [u])[sel.length]'(by simp) = u := by simp
    have hEnew : EntMem M1 fa (7 * (start + sel.length)) (Econf.cpyEntry u) [bk, bl'] := by
      have := d8 sel.length (by simp)
      rwa [hlast] at this
    obtain ⟨v, v1, v2, v3⟩ := hEnew.val
    have hacap : 7 * (start + sel.length) + 7 ≤ ablk1.slots.length := by
      obtain ⟨s1, s2, s3⟩ := loadSlot_inv (i := 7 * (start + sel.length) + 5) (by simpa using hEnew.line) a1
      have := (List.getElem?_eq_some_iff.1 s1).1
      omega
    have hdst : ∀ mm, mm[cell]? = some cblk → (∃ ab, mm[fa]? = some ab ∧ ab.live = true ∧ 7 * (start + sel.length) ≤ ab.slots.length) →
        evalE meDst { mem := mm, loc := loc } = .ok (.ptr fa ((7 * (start + sel.length) : Nat) : Int), { mem := mm, loc := loc }) := by
      intro mm hcm ⟨ab, hab1, hab2, hab3⟩
      exact dst_eval mm loc cell fa (start + sel.length) cblk ab hl1 hl5 hcm c2 c3 hab1 hab2 hab3
    -- `free(copy.value)`: the memory afterwards, and that only the value's own block is gone
    have hfree : ∃ M2, exec fuel (.expr (.call "free" (.cons (.load (.slot meDst 2) .ptr) .nil))) { mem := M1, loc := loc } = .normal { mem := M2, loc := loc } ∧
        M2.length = M1.length ∧ (∀ b, (∀ bv, v = .ptr bv 0 → b ≠ bv) → M2[b]? = M1[b]?) := by
      have hd1 := hdst M1 hc1 ⟨ablk1, a1, a2, by omega⟩
      have hld : evalE (.load (.slot meDst 2) .ptr) { mem := M1, loc := loc } = .ok (v, { mem := M1, loc := loc }) := by
        generalize meDst = D at hd1 ⊢
        simp only [evalE, evalL, hd1, bind, Except.bind, readPlace]
        have : ((7 * (start + sel.length) : Nat) : Int) + ((2 : Nat) : Int) = ((7 * (start + sel.length) : Nat) : Int) + 2 := by simp
        rw [this, v1]
      generalize (Econf.cpyEntry u).value = so at v2
      cases v2 with
      | none =>
        refine ⟨M1, ?_, rfl, fun b _ => rfl⟩
        generalize (Expr.load (.slot meDst 2) .ptr) = LDv at hld ⊢
        simp [exec, evalE, evalArgs, hld, builtin, bind, Except.bind]
      | some bv str hc =>
        obtain ⟨vblk, w1, w2⟩ : ∃ vblk, M1[bv]? = some vblk ∧ vblk.live = true := by
          cases hb : M1[bv]? with
          | none => simp [Mem.cstr, Mem.block, hb, bind, Except.bind] at hc
          | some vblk =>
            refine ⟨vblk, rfl, ?_⟩
            by_cases hl : vblk.live = true
            · exact hl
            · simp [Mem.cstr, Mem.block, hb, hl, bind, Except.bind] at hc
        have hfs := free_spec M1 bv vblk w1 w2
        refine ⟨M1.set bv { vblk with live := false }, ?_, by simp, fun b hb => set_other (hb bv rfl)⟩
        generalize (Expr.load (.slot meDst 2) .ptr) = LDv at hld ⊢
        simp [exec, evalE, evalArgs, hld, hfs, bind, Except.bind]
    obtain ⟨M2, hfreeex, hM2len, hM2fr⟩ := hfree
    have hbv : ∀ bv, v = .ptr bv 0 → M.length < bv ∧
        (∀ k : Nat, k < 5 → k ≠ 2 → M1.loadSlot fa (((7 * (start + sel.length) : Nat) : Int) + (k : Int)) ≠ .ok (.ptr bv 0)) ∧
        ∀ bl3 gl3, GlMem M1 bk bl3 gl3 → bl3 ≠ bv ∧ ∀ x, x ∈ gl3 → x.1 ≠ bv := fun bv hv => hfresh bv (by rw [← hv]; exact v1)
    have hkeepM : ∀ b, b ≤ M.length → M2[b]? = M1[b]? := fun b hb => hM2fr b (fun bv hv => by have := (hbv bv hv).1; omega)
    have hc2' : M2[cell]? = some cblk := by rw [hkeepM cell (by omega)]; exact hc1
    have ha2' : M2[fa]? = some ablk1 := by rw [hkeepM fa (by omega)]; exact a1
    have hagree2 : ∀ b, b < m0.length → b ∉ [bk, bl0, fa] → M2[b]? = m0[b]? := fun b hb hav => by
      rw [hkeepM b (by omega)]; exact h1.agree b hb hav
    -- the override's value for this key
    obtain ⟨w, w1, w2, w3⟩ := (hSe.ents (firstIdx (entsOf es) u.group u.key) hj).val
    have hbealt : bea < m0.length := loadSlot_lt w1
    have hw2 : OptStr M2 w (es[(firstIdx (entsOf es) u.group u.key)]).value := w2.mono (fun b hb => hagree2 b (w2.lt b hb) (w3 b hb))
    have hwld : ∀ mm, (∀ b, b < M2.length → mm[b]? = M2[b]?) →
        evalE (.load (.slot (meEtc 10) 2) .ptr) { mem := mm, loc := loc } = .ok (w, { mem := mm, loc := loc }) := by
      intro mm hmm
      have hgm2 : m0.length ≤ M2.length := by rw [hM2len]; omega
      have hSm : SrcMem mm be bea es [bk, bl0, fa] := hSe.mono (fun b hb hav => by rw [hmm b (by omega)]; exact hagree2 b hb hav)
      have hwm : mm.loadSlot bea (((7 * (firstIdx (entsOf es) u.group u.key) : Nat) : Int) + ((2 : Nat) : Int)) = .ok w := by
        rw [loadSlot_congr (show mm[bea]? = m0[bea]? by rw [hmm bea (by omega)]; exact hagree2 bea hbealt hSe.arrav)]
        simpa using w1
      have hwu : w ≠ .undef := by
        have : ∀ so, OptStr m0 w so → w ≠ .undef := by intro so h; cases h <;> simp
        exact this _ w2
      exact kf_member 3 10 mm loc be bea es _ (firstIdx (entsOf es) u.group u.key) 2 w hSm hj hl3 hl10 hwm hwu
    obtain ⟨M2', bn, hnv, hbnstr, hbnge, hbnlt, hlen2', hfr2'⟩ := me_newval (.load (.slot (meEtc 10) 2) .ptr) M2 loc w (es[(firstIdx (entsOf es) u.group u.key)]).value hwld hw2
    have hfaM2 : fa < M2.length := by rw [hM2len]; omega
    have ha2'' : M2'[fa]? = some ablk1 := by rw [hfr2' fa hfaM2]; exact ha2'
    have hst := storeSlot_of (i := 7 * (start + sel.length) + 2) (.ptr bn 0) ha2'' a2 a3 (by omega)
    have hassign : exec fuel (.expr (.assign (.slot meDst 2) (.cond (.load (.slot (meEtc 10) 2) .ptr) (.call "strdup" (.cons (.load (.slot (meEtc 10) 2) .ptr) .nil))
        (.call "strdup" (.cons (.strlit []) .nil))) .ptr)) { mem := M2, loc := loc } =
        .normal { mem := M2'.set fa { ablk1 with slots := ablk1.slots.set (7 * (start + sel.length) + 2) (.ptr bn 0) }, loc := loc } := by
      have hd2 := hdst M2 hc2' ⟨ablk1, ha2', a2, by omega⟩
      generalize meDst = D at hd2 ⊢
      generalize (Expr.cond (.load (.slot (meEtc 10) 2) .ptr) (.call "strdup" (.cons (.load (.slot (meEtc 10) 2) .ptr) .nil)) (.call "strdup" (.cons (.strlit []) .nil))) = CE at hnv ⊢
      have hst' : M2'.storeSlot fa (((7 * (start + sel.length) : Nat) : Int) + ((2 : Nat) : Int)) (.ptr bn 0) =
          .ok (M2'.set fa { ablk1 with slots := ablk1.slots.set (7 * (start + sel.length) + 2) (.ptr bn 0) }) := by
        have : ((7 * (start + sel.length) : Nat) : Int) + ((2 : Nat) : Int) = ((7 * (start + sel.length) + 2 : Nat) : Int) := by omega
        rw [this]; exact hst
      simp only [exec, evalE, evalL, hd2, hnv, bind, Except.bind]
      have hst2 := hst
      simp only [Int.natCast_add, Int.natCast_mul] at hst2
      have hst3 := hst2
      simp at hst3
      simp [convert, writePlace, Except.map, hst3]
    refine ⟨M2'.set fa { ablk1 with slots := ablk1.slots.set (7 * (start + sel.length) + 2) (.ptr bn 0) }, ?_, ?_, by rw [List.length_set]; omega⟩
    · unfold meOverride
      rw [exec_ite_true (by simpa [hj] using htest), exec_seq_normal hfreeex]
      exact hassign
    · -- the invariant with the replaced value
      have hM3fa : (M2'.set fa { ablk1 with slots := ablk1.slots.set (7 * (start + sel.length) + 2) (.ptr bn 0) })[fa]? = some { ablk1 with slots := ablk1.slots.set (7 * (start + sel.length) + 2) (.ptr bn 0) } := by
        rw [List.getElem?_set_self (by omega)]
      have hkeep3 : ∀ b, b < M1.length → b ≠ fa → (∀ bv, v = .ptr bv 0 → b ≠ bv) → (M2'.set fa { ablk1 with slots := ablk1.slots.set (7 * (start + sel.length) + 2) (.ptr bn 0) })[b]? = M1[b]? := by
        intro b hb h1' h2'
        rw [set_other h1', hfr2' b (by omega), hM2fr b h2']
      have hlow : ∀ b, b ≤ M.length → ∀ bv, v = .ptr bv 0 → b ≠ bv := fun b hb bv hv => by have := (hbv bv hv).1; omega
      have hbl'fa : bl' ≠ fa := by
        rcases d2 with e | e
        · rw [e]; exact Ne.symm C.fa_ne.2
        · omega
      have hbl'lt : bl' < M1.length := d1.bl_lt
      have hG3 : GlMem (M2'.set fa { ablk1 with slots := ablk1.slots.set (7 * (start + sel.length) + 2) (.ptr bn 0) }) bk bl' gl' := d1.mono_of
        (hkeep3 bk (by omega) (Ne.symm C.fa_ne.1) (hlow bk (by omega)))
        (hkeep3 bl' hbl'lt hbl'fa (fun bv hv => ((hbv bv hv).2.2 bl' gl' d1).1))
        (fun b str hc ⟨x, hx, hxb⟩ => hkeep3 b (cstr_lt hc) (fun hh => no_cstr a1 a4 str (hh ▸ hc))
          (fun bv hv => by rw [← hxb]; exact ((hbv bv hv).2.2 bl' gl' d1).2 x hx))
      have hnewlen : (ablk1.slots.set (7 * (start + sel.length) + 2) (Val.ptr bn 0)).length = ablk1.slots.length := by simp
      refine ⟨fun b hb hav => ?_, by rw [List.length_set]; omega, ⟨bl', gl', hG3, d2, ?_, d4, d5, by simpa using d6, ?_, ?_⟩,
        ⟨{ ablk1 with slots := ablk1.slots.set (7 * (start + sel.length) + 2) (.ptr bn 0) }, hM3fa, a2, a3, a4, by rw [hnewlen]; exact a5, fun k hk => ?_⟩⟩
      · -- blocks of the start memory
        have hav' := hav
        simp only [List.mem_cons, List.not_mem_nil, or_false, not_or] at hav'
        rw [hkeep3 b (by omega) hav'.2.2 (hlow b (by omega))]
        exact h1.agree b hb hav
      · intro kb blk hk hb
        rw [hkeep3 bk (by omega) (Ne.symm C.fa_ne.1) (hlow bk (by omega))] at hb
        exact d3 kb blk hk hb
      · -- the groups are those of the entry copied
        rw [d7]
        simp [hov, Econf.cpyEntry]
      · intro j hjl
        have hcast : ∀ (o k : Nat), ((o : Int) + (k : Int)) = ((o + k : Nat) : Int) := by intros; omega
        have hfaav : fa ∉ [bk, bl'] := by
          simp only [List.mem_cons, List.not_mem_nil, or_false, not_or]
          exact ⟨C.fa_ne.1, Ne.symm hbl'fa⟩
        by_cases hjs : j < sel.length
        · -- an element copied earlier: its words are those it had before this round, its strings are older than the freed block
          have hold := d8 j (by simp; omega)
          have hel1 : (sel ++ [u])[j]'(by simp; omega) = sel[j] := List.getElem_append_left hjs
          have hel2 : (sel ++ [Econf.overrideValue es u])[j]'hjl = sel[j] := List.getElem_append_left hjs
          rw [hel1] at hold
          rw [hel2]
          obtain ⟨blM, glM, _, _, _, _, _, _, _, dM8⟩ := hM.dest
          have hMent := dM8 j hjs
          have hptr : ∀ k : Nat, k < 5 → ∀ b, M1.loadSlot fa (((7 * (start + j) : Nat) : Int) + (k : Int)) = .ok (.ptr b 0) →
              b < M.length ∧ (∃ str, M1.cstr b 0 = .ok str) ∧ b ∉ [bk, bl'] := by
            intro k hk b hl
            have hl' := hl; rw [hcast] at hl'
            obtain ⟨s1, s2, s3⟩ := loadSlot_inv hl' a1
            have hwM := hwords ablkM ablk1 aM1 a1 (7 * (start + j) + k) (by omega)
            have hlM : M.loadSlot fa (((7 * (start + j) : Nat) : Int) + (k : Int)) = .ok (.ptr b 0) := by
              rw [hcast]; exact loadSlot_of aM1 aM2 (by rw [← hwM]; exact s1) (by simp)
            obtain ⟨⟨str, hc⟩, _⟩ := hMent.ptr_str k hk b hlM
            exact ⟨cstr_lt hc, hold.ptr_str k hk b hl⟩
          refine hold.reblock' a1 hM3fa a2 (fun k hk => ?_) (fun k hk b hl => ?_) (fun k hk b hl => (hptr k hk b hl).2.2) hfaav
          · show (ablk1.slots.set (7 * (start + sel.length) + 2) (Val.ptr bn 0))[7 * (start + j) + k]? = _
            rw [List.getElem?_set_ne (by omega)]
          · obtain ⟨h1', ⟨str, hc⟩, _⟩ := hptr k hk b hl
            exact hkeep3 b (cstr_lt hc) (fun hh => no_cstr a1 a4 str (hh ▸ hc)) (hlow b (by omega))
        · -- the new element: the other members as copied, the value the override's
          have hje : j = sel.length := by simp at hjl; omega
          subst hje
          have hlast' : (sel ++ [Econf.overrideValue es u])[sel.length]'hjl = Econf.overrideValue es u := by simp
          rw [hlast', hov]
          obtain ⟨bg, g1, g2, g3⟩ := hEnew.grp
          obtain ⟨bq, k1, k2, k3⟩ := hEnew.key
          obtain ⟨vb, b1, b2, b3⟩ := hEnew.cb
          obtain ⟨va, c1', c2', c3'⟩ := hEnew.ca
          have ldnew : ∀ (k : Nat) (w : Val), k < 7 → k ≠ 2 → M1.loadSlot fa (((7 * (start + sel.length) : Nat) : Int) + (k : Int)) = .ok w →
              Mem.loadSlot (M2'.set fa { ablk1 with slots := ablk1.slots.set (7 * (start + sel.length) + 2) (.ptr bn 0) }) fa (((7 * (start + sel.length) : Nat) : Int) + (k : Int)) = .ok w := by
            intro k w hk hk2 hl
            rw [hcast] at hl ⊢
            obtain ⟨s1, s2, _⟩ := loadSlot_inv hl a1
            exact loadSlot_of hM3fa a2 (by show (ablk1.slots.set (7 * (start + sel.length) + 2) (Val.ptr bn 0))[7 * (start + sel.length) + k]? = _; rw [List.getElem?_set_ne (by omega)]; exact s1) s2
          have strk : ∀ (k : Nat) (b : Nat) (str : List UInt8), k < 5 → k ≠ 2 → M1.loadSlot fa (((7 * (start + sel.length) : Nat) : Int) + (k : Int)) = .ok (.ptr b 0) →
              M1.cstr b 0 = .ok str → Mem.cstr (M2'.set fa { ablk1 with slots := ablk1.slots.set (7 * (start + sel.length) + 2) (.ptr bn 0) }) b 0 = .ok str := by
            intro k b str hk hk2 hl hc
            rw [cstr_congr (hkeep3 b (cstr_lt hc) (fun hh => no_cstr a1 a4 str (hh ▸ hc)) (fun bv hv hh => (hbv bv hv).2.1 k hk hk2 (by rw [← hh]; exact hl)))]
            exact hc
          have optk : ∀ (k : Nat) (w : Val) (so : Option (List UInt8)), k < 5 → k ≠ 2 → M1.loadSlot fa (((7 * (start + sel.length) : Nat) : Int) + (k : Int)) = .ok w →
              OptStr M1 w so → OptStr (M2'.set fa { ablk1 with slots := ablk1.slots.set (7 * (start + sel.length) + 2) (.ptr bn 0) }) w so := by
            intro k w so hk hk2 hl hv
            cases hv with
            | none => exact .none
            | some b str hc => exact .some b str (strk k b str hk hk2 hl hc)
          have hbn3 : Mem.cstr (M2'.set fa { ablk1 with slots := ablk1.slots.set (7 * (start + sel.length) + 2) (.ptr bn 0) }) bn 0 = .ok ((es[(firstIdx (entsOf es) u.group u.key)]).value.getD []) := by
            rw [cstr_congr (set_other (show bn ≠ fa by omega))]; exact hbnstr
          have hval3 : Mem.loadSlot (M2'.set fa { ablk1 with slots := ablk1.slots.set (7 * (start + sel.length) + 2) (.ptr bn 0) }) fa (((7 * (start + sel.length) : Nat) : Int) + 2) = .ok (.ptr bn 0) := by
            have := loadSlot_of (i := 7 * (start + sel.length) + 2) hM3fa a2 (by show (ablk1.slots.set (7 * (start + sel.length) + 2) (Val.ptr bn 0))[7 * (start + sel.length) + 2]? = _; rw [List.getElem?_set_self (by omega)]) (by simp)
            rw [← hcast] at this; simpa using this
          refine ⟨hfaav, ⟨bg, by simpa using ldnew 0 _ (by omega) (by omega) (by simpa using g1), strk 0 bg _ (by omega) (by omega) (by simpa using g1) g2, g3⟩,
            ⟨bq, by simpa using ldnew 1 _ (by omega) (by omega) (by simpa using k1), strk 1 bq _ (by omega) (by omega) (by simpa using k1) k2, k3⟩,
            ⟨.ptr bn 0, hval3, .some bn _ hbn3, fun b hb => ?_⟩,
            ⟨vb, by simpa using ldnew 3 _ (by omega) (by omega) (by simpa using b1), optk 3 _ _ (by omega) (by omega) (by simpa using b1) b2, b3⟩,
            ⟨va, by simpa using ldnew 4 _ (by omega) (by omega) (by simpa using c1'), optk 4 _ _ (by omega) (by omega) (by simpa using c1') c2', c3'⟩,
            by simpa [Econf.cpyEntry] using ldnew 5 _ (by omega) (by omega) (by simpa [Econf.cpyEntry] using hEnew.line)⟩
          injection hb with hb _
          subst hb
          simp only [List.mem_cons, List.not_mem_nil, or_false, not_or]
          omega
      · show (ablk1.slots.set (7 * (start + sel.length) + 2) (Val.ptr bn 0))[k]? = _
        rw [List.getElem?_set_ne (by omega)]
        exact a6 k hk
  · -- the override does not define the key: the copy stays as it is
    have hnone : Econf.findEntry es u.group u.key = none := by
      rw [hfe]; exact List.getElem?_eq_none (by omega)
    have hov : Econf.overrideValue es u = Econf.cpyEntry u := by simp [Econf.overrideValue, hnone]
    refine ⟨M1, ?_, ?_, Nat.le_refl _⟩
    · unfold meOverride
      rw [exec_ite_false (by simpa [hj] using htest)]; simp [exec]
    · rw [hov]
      exact h1.congr (by simp [Econf.cpyEntry])

end LeafKf
