import Econf.Props.LeafMerge
open MiniC Leaf LeafKf
set_option linter.unusedSimpArgs false
set_option linter.unusedVariables false
namespace LeafKf

/-! ## `add_new_groups` -/

/-- the entries among the first `i` that a loop of the merge copies: the first definitions that satisfy `p` -/
def selBy (p : Econf.Entry → Bool) (es : List Econf.Entry) (i : Nat) : List Econf.Entry :=
  ((List.range i).filter (fun j => match es[j]? with
    | some e => p e && (firstIdx (entsOf es) e.group e.key == j)
    | none => false)).filterMap (fun j => es[j]?)

theorem selBy_succ (p : Econf.Entry → Bool) (es : List Econf.Entry) (i : Nat) (hi : i < es.length) :
    selBy p es (i + 1) = selBy p es i ++ (if p es[i] && (firstIdx (entsOf es) (es[i]).group (es[i]).key == i) then [es[i]] else []) := by
  simp only [selBy, List.range_succ, List.filter_append, List.filterMap_append]
  by_cases h : (p es[i] && (firstIdx (entsOf es) (es[i]).group (es[i]).key == i)) = true
  · simp [h, hi]
  · simp [h, hi]

theorem selBy_length_le (p : Econf.Entry → Bool) (es : List Econf.Entry) (i : Nat) : (selBy p es i).length ≤ i := by
  unfold selBy
  calc _ ≤ (List.filter _ (List.range i)).length := List.length_filterMap_le _ _
    _ ≤ (List.range i).length := List.length_filter_le _ _
    _ = i := List.length_range

theorem selBy_length_mono (p : Econf.Entry → Bool) (es : List Econf.Entry) {i n : Nat} (h : i ≤ n) : (selBy p es i).length ≤ (selBy p es n).length := by
  obtain ⟨d, rfl⟩ : ∃ d, n = i + d := ⟨n - i, by omega⟩
  unfold selBy
  rw [List.range_add, List.filter_append, List.filterMap_append, List.length_append]
  omega

theorem selBy_model (p : Econf.Entry → Bool) (es : List Econf.Entry) :
    selBy p es es.length = (Econf.firstDefs es).filter p := by
  unfold selBy Econf.firstDefs
  rw [firstDefsAux_eq, List.filterMap_filter, List.filter_filterMap]
  apply filterMap_congr'
  intro j hj
  have hj' : j < es.length := by simpa using hj
  have hiff := firstIdx_eq_iff es j hj'
  simp only [List.getElem?_eq_getElem hj', List.nil_append]
  by_cases hg : p es[j] = true
  · by_cases hd : Econf.defines (es.take j) (es[j]).group (es[j]).key = true
    · have : ¬ firstIdx (entsOf es) (es[j]).group (es[j]).key = j := fun h => by rw [hiff.1 h] at hd; exact absurd hd (by simp)
      simp [hg, hd, this]
    · have hd' : Econf.defines (es.take j) (es[j]).group (es[j]).key = false := by simpa using hd
      simp [hg, hd', hiff.2 hd', Option.filter]
  · simp [hg]
    split <;> simp [hg, Option.filter]

/-- which entries `add_new_groups` copies -/
def agP (us : List Econf.Entry) (e : Econf.Entry) : Bool := e.group != Econf.NONE && !Econf.hasGroup us e.group

theorem agSel_model (us es : List Econf.Entry) : (selBy (agP us) es es.length).map Econf.cpyEntry = Econf.addNewGroups us es := by
  unfold Econf.addNewGroups
  rw [selBy_model]
  rfl

def agSrc : Expr := .sidx (.load (.slot (.load (.var 3) .ptr) 0) .ptr) (.load (.var 6) .u64) 7
def agCond : Expr := .un .lnot (.call "strcmp" (.cons (.load (.slot agSrc 0) .ptr) (.cons (.strlit [95, 110, 111, 110, 101, 95]) .nil))) .i32
def agAppend : Stmt := .seq (.inl (some (.var 7)) .ptr (.cons (.load (.var 0) .ptr) (.cons agSrc .nil)) 3 LeafFns.cpy_file_entry.body)
  (.expr (.call "copy_words" (.cons (.sidx (.load (.slot (.load (.var 1) .ptr) 0) .ptr) (.incdec (.var 5) true true .u64) 7)
    (.cons (.load (.var 7) .ptr) (.cons (.lit 7 .u64) .nil)))))
def agInner : Stmt := .seq (.inl (some (.var 9)) .bool (.cons (.load (.var 2) .ptr) (.cons (.load (.slot agSrc 0) .ptr) .nil)) 3 LeafFns.has_group.body)
  (.ite (.un .lnot (.load (.var 9) .bool) .i32)
    (.seq (.inl (some (.var 8)) .bool (.cons (.load (.var 3) .ptr) (.cons (.load (.var 6) .u64) .nil)) 3 LeafFns.first_definition.body)
      (.ite (.cast .i32 (.load (.var 8) .bool)) agAppend .skip)) .skip)
def agBody : Stmt := .seq (.ite agCond .cont .skip) agInner
def agTest : Expr := .bin .lt (.load (.var 6) .u64) (.load (.slot (.load (.var 3) .ptr) 1) .u64) .i32
def agLoop : Stmt := .for (some agTest) (some (.incdec (.var 6) true true .u64)) agBody
def agRealloc : Stmt := .ite (.bin .gt (.load (.var 5) .u64) (.cast .u64 (.lit 0 .i32)) .i32)
  (.expr (.assign (.slot (.load (.var 1) .ptr) 0) (.call "realloc_words" (.cons (.load (.slot (.load (.var 1) .ptr) 0) .ptr)
    (.cons (.bin .mul (.load (.var 5) .u64) (.lit 7 .u64) .u64) .nil))) .ptr)) .skip

theorem add_new_groups_shape : LeafFns.add_new_groups.body =
    .seq (.expr (.assign (.var 5) (.load (.var 4) .u64) .u64))
      (.seq (.ite (.land (.load (.var 2) .ptr) (.load (.var 3) .ptr))
          (.seq (.expr (.assign (.var 6) (.cast .u64 (.lit 0 .i32)) .u64)) (.seq agLoop agRealloc)) .skip)
        (.ret (some (.load (.var 5) .u64)))) := rfl

/-- the address of entry `i` of the override's array, the counter in variable `vi` -/
theorem ef_src (vi : Nat) (mm : Mem) (loc : List Val) (be bea : Nat) (es : List Econf.Entry) (av : List Nat) (i : Nat)
    (hS : SrcMem mm be bea es av) (hi : i < es.length) (hl3 : loc[3]? = some (.ptr be 0)) (hlv : loc[vi]? = some (.int (i : Int))) :
    evalE (.sidx (.load (.slot (.load (.var 3) .ptr) 0) .ptr) (.load (.var vi) .u64) 7) { mem := mm, loc := loc } =
      .ok (.ptr bea (((7 * i : Nat)) : Int), { mem := mm, loc := loc }) := by
  obtain ⟨kb, k1, k2, k3, k4⟩ := hS.kf
  obtain ⟨ab, a1, a2, a3⟩ := hS.arr
  have hl0 : mm.loadSlot be 0 = .ok (.ptr bea 0) := by simpa using loadSlot_of (i := 0) k1 k2 k3 (by simp)
  have hsx : slotAdd mm bea 0 ((i : Int) * 7) = .ok (.ptr bea ((i : Int) * 7)) := by
    have : (0 : Int) ≤ (i : Int) * 7 ∧ (i : Int) * 7 ≤ (ab.slots.length : Int) := by rw [a3]; omega
    simp [slotAdd, Mem.block, a1, a2, this, bind, Except.bind]
  have e : (((7 * i : Nat)) : Int) = (i : Int) * 7 := by omega
  rw [e]
  exact evalE_sidx _ _ _ _ bea 0 (i : Int) 7 _ (by simp [evalE, evalL, readPlace, hl3, hl0, bind, Except.bind])
    (by simp [evalE, evalL, readPlace, hlv, bind, Except.bind]) (by simpa using hsx)

/-- `ef->file_entry[i].group` -/
theorem ef_group (vi : Nat) (mm : Mem) (loc : List Val) (be bea : Nat) (es : List Econf.Entry) (av : List Nat) (i : Nat)
    (hS : SrcMem mm be bea es av) (hi : i < es.length) (hl3 : loc[3]? = some (.ptr be 0)) (hlv : loc[vi]? = some (.int (i : Int))) :
    ∃ bg, evalE (.load (.slot (.sidx (.load (.slot (.load (.var 3) .ptr) 0) .ptr) (.load (.var vi) .u64) 7) 0) .ptr) { mem := mm, loc := loc } =
        .ok (.ptr bg 0, { mem := mm, loc := loc }) ∧ mm.cstr bg 0 = .ok (es[i]).group := by
  have hsrc := ef_src vi mm loc be bea es av i hS hi hl3 hlv
  obtain ⟨bg, g1, g2, _⟩ := (hS.ents i hi).grp
  refine ⟨bg, ?_, g2⟩
  generalize (Expr.sidx (.load (.slot (.load (.var 3) .ptr) 0) .ptr) (.load (.var vi) .u64) 7) = S at hsrc ⊢
  simp only [evalE, evalL, hsrc, bind, Except.bind, readPlace]
  have : ((7 * i : Nat) : Int) + ((0 : Nat) : Int) = ((7 * i : Nat) : Int) := by simp
  rw [this, g1]

/-- `!strcmp(ef->file_entry[i].group, "_none_")` -/
theorem ef_cond (vi : Nat) (mm : Mem) (loc : List Val) (be bea : Nat) (es : List Econf.Entry) (av : List Nat) (i : Nat)
    (hS : SrcMem mm be bea es av) (hi : i < es.length) (hl3 : loc[3]? = some (.ptr be 0)) (hlv : loc[vi]? = some (.int (i : Int))) :
    testOf (some (.un .lnot (.call "strcmp" (.cons (.load (.slot (.sidx (.load (.slot (.load (.var 3) .ptr) 0) .ptr) (.load (.var vi) .u64) 7) 0) .ptr)
        (.cons (.strlit [95, 110, 111, 110, 101, 95]) .nil))) .i32)) { mem := mm, loc := loc } =
      .ok (decide ((es[i]).group = Econf.NONE), { mem := mm ++ [noneLit], loc := loc }) := by
  obtain ⟨bg, hld, g2⟩ := ef_group vi mm loc be bea es av i hS hi hl3 hlv
  have hnz : (0 : UInt8) ∉ ([95, 110, 111, 110, 101, 95] : List UInt8) := by decide
  have zg := cstr_nz g2
  have hNONE : Econf.NONE = [95, 110, 111, 110, 101, 95] := rfl
  have hcall := strcmp_lit_eval _ { mem := mm, loc := loc } bg (es[i]).group [95, 110, 111, 110, 101, 95] hld g2 hnz
  generalize (Expr.call "strcmp" (.cons (.load (.slot (.sidx (.load (.slot (.load (.var 3) .ptr) 0) .ptr) (.load (.var vi) .u64) 7) 0) .ptr)
    (.cons (.strlit [95, 110, 111, 110, 101, 95]) .nil))) = C at hcall ⊢
  by_cases hq : (es[i]).group = Econf.NONE
  · have q1 : cmpBytes (es[i]).group [95, 110, 111, 110, 101, 95] = 0 := (cmpBytes_eq_zero _ _ zg hnz).2 (hq.trans hNONE)
    simp only [testOf, evalE, hcall, bind, Except.bind, q1, unop, truth, Except.map, boolVal]
    simp [hq, noneLit]
  · have q1 : cmpBytes (es[i]).group [95, 110, 111, 110, 101, 95] ≠ 0 := fun hh => hq (((cmpBytes_eq_zero _ _ zg hnz).1 hh).trans hNONE.symm)
    simp only [testOf, evalE, hcall, bind, Except.bind, unop, truth, Except.map, boolVal]
    simp [q1, hq, noneLit]

/-- `i < ef->length`, the counter in variable `vi` -/
theorem ef_test (vi : Nat) (mm : Mem) (loc : List Val) (be bea : Nat) (es : List Econf.Entry) (av : List Nat) (i : Nat)
    (hS : SrcMem mm be bea es av) (hl3 : loc[3]? = some (.ptr be 0)) (hlv : loc[vi]? = some (.int (i : Int))) :
    testOf (some (.bin .lt (.load (.var vi) .u64) (.load (.slot (.load (.var 3) .ptr) 1) .u64) .i32)) { mem := mm, loc := loc } =
      .ok (decide (i < es.length), { mem := mm, loc := loc }) := by
  obtain ⟨kb, k1, k2, k3, k4⟩ := hS.kf
  have hl1 : mm.loadSlot be 1 = .ok (.int es.length) := by simpa using loadSlot_of (i := 1) k1 k2 k4 (by simp)
  by_cases h : i < es.length
  · have : (i : Int) < (es.length : Int) := by omega
    simp [testOf, evalE, evalL, readPlace, hl3, hlv, hl1, binop, cmpInt, boolVal, truth, this, h, bind, Except.bind]
  · have : ¬ (i : Int) < (es.length : Int) := by omega
    simp [testOf, evalE, evalL, readPlace, hl3, hlv, hl1, binop, cmpInt, boolVal, truth, this, h, bind, Except.bind]

/-- `i++` (variable 6 of ten) -/
theorem ag_step (mm : Mem) (a0 a1 a2 a3 a4 a5 a7 a8 a9 : Val) (i : Nat) (hi : (i : Int) + 1 < 18446744073709551616) :
    stepOf (some (.incdec (.var 6) true true .u64)) { mem := mm, loc := [a0, a1, a2, a3, a4, a5, .int (i : Int), a7, a8, a9] } =
      .ok { mem := mm, loc := [a0, a1, a2, a3, a4, a5, .int ((i + 1 : Nat) : Int), a7, a8, a9] } := by
  have : wrapTo .u64 ((i : Int) + 1) = (i : Int) + 1 := wrapTo_u64_small _ (by omega) (by omega)
  simp [stepOf, evalE, evalL, readPlace, writePlace, binop, cmpInt, arith, Ty.signed, convert, this, bind, Except.bind, Except.map]

/-- `added_keys++` as an index (variable 5 of ten) -/
theorem ag_idx (mm : Mem) (a0 a1 a2 a3 a4 a6 a7 a8 a9 : Val) (a : Nat) (ha : (a : Int) + 1 < 18446744073709551616) :
    evalE (.incdec (.var 5) true true .u64) { mem := mm, loc := [a0, a1, a2, a3, a4, .int (a : Int), a6, a7, a8, a9] } =
      .ok (.int (a : Int), { mem := mm, loc := [a0, a1, a2, a3, a4, .int ((a + 1 : Nat) : Int), a6, a7, a8, a9] }) := by
  have : wrapTo .u64 ((a : Int) + 1) = (a : Int) + 1 := wrapTo_u64_small _ (by omega) (by omega)
  simp [evalE, evalL, readPlace, writePlace, binop, cmpInt, arith, Ty.signed, convert, this, bind, Except.bind, Except.map]

/-- the state of the loop of `add_new_groups` before round `i`: `start` entries were in the array before, `sel` have been added -/
structure AgInv (m0 : Mem) (bk bl0 fa cell bu be : Nat) (names0 : List (List UInt8)) (gl0len cap start : Nat) (ablk0 : Block)
    (sel : List Econf.Entry) (i : Nat) (st : St) : Prop where
  loc : ∃ v7 v8 v9, st.loc = [.ptr bk 0, .ptr cell 0, .ptr bu 0, .ptr be 0, .int (start : Int), .int ((start + sel.length : Nat) : Int), .int (i : Int), v7, v8, v9]
  agree : ∀ b, b < m0.length → b ∉ [bk, bl0, fa] → st.mem[b]? = m0[b]?
  grows : m0.length ≤ st.mem.length
  dest : ∃ bl' gl', GlMem st.mem bk bl' gl' ∧ (bl' = bl0 ∨ m0.length ≤ bl') ∧ (∀ kb blk, m0[bk]? = some kb → st.mem[bk]? = some blk → KfKeep kb blk) ∧ (gl' ≠ [] → bk ≠ bl') ∧
      (∀ x, x ∈ gl' → x.1 ≠ bk ∧ x.1 ≠ bl') ∧ gl'.length ≤ gl0len + sel.length ∧
      gl'.map (·.2) = (sel.map (·.group)).foldl Econf.addGroup names0 ∧
      ∀ j (h : j < sel.length), EntMem st.mem fa (7 * (start + j)) (Econf.cpyEntry (sel[j])) [bk, bl']
  arr : ∃ ablk, st.mem[fa]? = some ablk ∧ ablk.live = true ∧ ablk.writable = true ∧ ablk.cells = [] ∧ ablk.slots.length = 7 * cap ∧
      ∀ k, k < 7 * start → ablk.slots[k]? = ablk0.slots[k]?

theorem AgInv.frame {m0 : Mem} {bk bl0 fa cell bu be : Nat} {names0 : List (List UInt8)} {gl0len cap start i : Nat} {ablk0 : Block} {sel : List Econf.Entry} {st : St}
    (h : AgInv m0 bk bl0 fa cell bu be names0 gl0len cap start ablk0 sel i st) (mem' : Mem) (i' : Nat) (v7 v8 v9 : Val)
    (hm : ∀ b, b < st.mem.length → mem'[b]? = st.mem[b]?) (hlen : st.mem.length ≤ mem'.length) (hfa : fa < m0.length) (hbk : bk < m0.length) :
    AgInv m0 bk bl0 fa cell bu be names0 gl0len cap start ablk0 sel i'
      { mem := mem', loc := [.ptr bk 0, .ptr cell 0, .ptr bu 0, .ptr be 0, .int (start : Int), .int ((start + sel.length : Nat) : Int), .int (i' : Int), v7, v8, v9] } := by
  obtain ⟨bl', gl', d1, d2, d3, d4, d5, d6, d7, d8⟩ := h.dest
  obtain ⟨ablk, a1, a2, a3, a4, a5, a6⟩ := h.arr
  have hg := h.grows
  refine ⟨⟨v7, v8, v9, rfl⟩, fun b hb hav => by rw [hm b (by omega)]; exact h.agree b hb hav, by simp; omega, ?_, ⟨ablk, by rw [hm fa (by omega)]; exact a1, a2, a3, a4, a5, a6⟩⟩
  have hG' : GlMem mem' bk bl' gl' := d1.grow hm
  refine ⟨bl', gl', hG', d2, fun kb blk hk hb => d3 kb blk hk (by rw [← hm bk (by omega)]; exact hb), d4, d5, d6, d7, fun j hj => (d8 j hj).mono (fun b hb _ => hm b hb)⟩

/-- what the caller of `add_new_groups` provides -/
structure AgCtx (m0 : Mem) (bk bl0 fa cell bu bua be bea : Nat) (us es : List Econf.Entry) (gl0len cap start : Nat) : Prop where
  src : SrcMem m0 be bea es [bk, bl0, fa]
  usr : SrcMem m0 bu bua us [bk, bl0, fa]
  cellb : ∃ cblk, m0[cell]? = some cblk ∧ cblk.live = true ∧ cblk.slots[0]? = some (.ptr fa 0)
  cellav : cell ∉ [bk, bl0, fa]
  fa_lt : fa < m0.length
  bk_lt : bk < m0.length
  bl_lt : bl0 < m0.length
  fa_ne : fa ≠ bk ∧ fa ≠ bl0
  room : start + (selBy (agP us) es es.length).length ≤ cap
  small : (gl0len : Int) + es.length + 2 < 2147483648
  usmall : (us.length : Int) + 1 < 18446744073709551616
  ssmall : (start : Int) + es.length + 1 < 18446744073709551616
  csmall : (7 * cap : Int) < 18446744073709551616
  lines : ∀ e ∈ es, (e.line : Int) < 18446744073709551616

abbrev agLoc (bk cell bu be start cnt i : Nat) (v7 v8 v9 : Val) : List Val :=
  [.ptr bk 0, .ptr cell 0, .ptr bu 0, .ptr be 0, .int (start : Int), .int (cnt : Int), .int (i : Int), v7, v8, v9]

theorem exec_seq_cont {fuel : Nat} {a b : Stmt} {st st' : St} (h : exec fuel a st = .cont st') :
    exec fuel (.seq a b) st = .cont st' := by simp [exec, h]

theorem ag_round {m0 : Mem} {bk bl0 fa cell bu bua be bea : Nat} {us es : List Econf.Entry} {names0 : List (List UInt8)} {gl0len cap start : Nat} {ablk0 : Block}
    (C : AgCtx m0 bk bl0 fa cell bu bua be bea us es gl0len cap start) (fuel : Nat) (hf : gl0len + es.length + us.length + 2 < fuel)
    (i : Nat) (hi : i < es.length) (st : St) (h : AgInv m0 bk bl0 fa cell bu be names0 gl0len cap start ablk0 (selBy (agP us) es i) i st) :
    ∃ T Q st', testOf (some agTest) st = .ok (true, T) ∧ (exec fuel agBody T = .normal Q ∨ exec fuel agBody T = .cont Q) ∧
      stepOf (some (.incdec (.var 6) true true .u64)) Q = .ok st' ∧
      AgInv m0 bk bl0 fa cell bu be names0 gl0len cap start ablk0 (selBy (agP us) es (i + 1)) (i + 1) st' := by
  obtain ⟨v7, v8, v9, hloc⟩ := h.loc
  obtain ⟨mem, loc⟩ := st
  simp only at hloc; subst hloc
  have hS : SrcMem mem be bea es [bk, bl0, fa] := C.src.mono h.agree
  have ha_le : (selBy (agP us) es i).length ≤ i := selBy_length_le _ es i
  have htest := ef_test 6 mem (agLoc bk cell bu be start (start + (selBy (agP us) es i).length) i v7 v8 v9) be bea es _ i hS rfl rfl
  simp only [hi, decide_true] at htest
  have hcond := ef_cond 6 mem (agLoc bk cell bu be start (start + (selBy (agP us) es i).length) i v7 v8 v9) be bea es _ i hS hi rfl rfl
  have hMget : ∀ b, b < mem.length → (mem ++ [noneLit])[b]? = mem[b]? := fun b hb => append_get hb
  have hsmallstep : (i : Int) + 1 < 18446744073709551616 := by have := C.ssmall; omega
  have hw0 : wrapTo .i32 0 = 0 := by decide
  have hw1 : wrapTo .i32 1 = 1 := by decide
  by_cases hg : (es[i]).group = Econf.NONE
  · -- a group-less entry: `continue`
    have hsel : (agP us es[i] && (firstIdx (entsOf es) (es[i]).group (es[i]).key == i)) = false := by simp [agP, hg]
    refine ⟨_, { mem := mem ++ [noneLit], loc := agLoc bk cell bu be start (start + (selBy (agP us) es i).length) i v7 v8 v9 },
      _, htest, Or.inr ?_, ag_step (mem ++ [noneLit]) _ _ _ _ _ _ _ _ _ i hsmallstep, ?_⟩
    · unfold agBody
      apply exec_seq_cont
      unfold agCond agSrc
      rw [exec_ite_true (by simpa [hg] using hcond)]; simp [exec]
    · rw [selBy_succ _ es i hi, hsel]
      simp only [Bool.false_eq_true, if_false, List.append_nil]
      exact h.frame (mem ++ [noneLit]) (i + 1) v7 v8 v9 hMget (by simp) C.fa_lt C.bk_lt
  · have hcF : exec fuel (.ite agCond .cont .skip) { mem := mem, loc := agLoc bk cell bu be start (start + (selBy (agP us) es i).length) i v7 v8 v9 } =
        .normal { mem := mem ++ [noneLit], loc := agLoc bk cell bu be start (start + (selBy (agP us) es i).length) i v7 v8 v9 } := by
      unfold agCond agSrc
      rw [exec_ite_false (by simpa [hg] using hcond)]; simp [exec]
    have hSM : SrcMem (mem ++ [noneLit]) be bea es [bk, bl0, fa] := hS.mono (fun b hb _ => hMget b hb)
    have hUM : SrcMem (mem ++ [noneLit]) bu bua us [bk, bl0, fa] := (C.usr.mono h.agree).mono (fun b hb _ => hMget b hb)
    obtain ⟨bg, hgrp, hgstr⟩ := ef_group 6 (mem ++ [noneLit]) (agLoc bk cell bu be start (start + (selBy (agP us) es i).length) i v7 v8 v9) be bea es _ i hSM hi rfl rfl
    obtain ⟨locg, hhg⟩ := C_has_group (mem ++ [noneLit]) bu bua bg us (es[i]).group hUM.toKf hgstr C.usmall fuel (by omega)
    have hargsg : evalArgs (.cons (.load (.var 2) .ptr) (.cons (.load (.slot agSrc 0) .ptr) .nil))
        { mem := mem ++ [noneLit], loc := agLoc bk cell bu be start (start + (selBy (agP us) es i).length) i v7 v8 v9 } =
        .ok ([.ptr bu 0, .ptr bg 0], { mem := mem ++ [noneLit], loc := agLoc bk cell bu be start (start + (selBy (agP us) es i).length) i v7 v8 v9 }) := by
      have h2 : evalE (.load (.var 2) .ptr) { mem := mem ++ [noneLit], loc := agLoc bk cell bu be start (start + (selBy (agP us) es i).length) i v7 v8 v9 } =
          .ok (.ptr bu 0, { mem := mem ++ [noneLit], loc := agLoc bk cell bu be start (start + (selBy (agP us) es i).length) i v7 v8 v9 }) := by
        simp [evalE, evalL, readPlace, bind, Except.bind]
      unfold agSrc
      generalize (Expr.load (.slot (.sidx (.load (.slot (.load (.var 3) .ptr) 0) .ptr) (.load (.var 6) .u64) 7) 0) .ptr) = G at hgrp ⊢
      simp only [evalArgs, h2, hgrp, bind, Except.bind]
    by_cases hhas : Econf.hasGroup us (es[i]).group = true
    · -- the base has this group: `merge_existing_groups` has dealt with it
      have hsel : (agP us es[i] && (firstIdx (entsOf es) (es[i]).group (es[i]).key == i)) = false := by simp [agP, hhas]
      simp only [hhas, if_true] at hhg
      have hinl := exec_inl_val (fuel := fuel) (nl := 3) (body := LeafFns.has_group.body) (i := 9) (dty := .bool) (v := .int 1) (v' := .int 1)
        (st' := { mem := mem ++ [noneLit], loc := locg }) hargsg (by simpa using hhg) (by simp [convert, wrapTo]) (by simp)
      refine ⟨_, { mem := mem ++ [noneLit], loc := agLoc bk cell bu be start (start + (selBy (agP us) es i).length) i v7 v8 (.int 1) },
        _, htest, Or.inl ?_, ag_step (mem ++ [noneLit]) _ _ _ _ _ _ _ _ _ i hsmallstep, ?_⟩
      · unfold agBody; rw [exec_seq_normal hcF]
        unfold agInner; rw [exec_seq_normal hinl]
        rw [exec_ite_false (st' := { mem := mem ++ [noneLit], loc := agLoc bk cell bu be start (start + (selBy (agP us) es i).length) i v7 v8 (.int 1) })
          (by simp [testOf, evalE, evalL, readPlace, unop, boolVal, truth, bind, Except.bind, Except.map])]
        simp [exec]
      · rw [selBy_succ _ es i hi, hsel]
        simp only [Bool.false_eq_true, if_false, List.append_nil]
        exact h.frame (mem ++ [noneLit]) (i + 1) v7 v8 (.int 1) hMget (by simp) C.fa_lt C.bk_lt
    · -- a group of the override only
      have hhas' : Econf.hasGroup us (es[i]).group = false := by simpa using hhas
      simp only [hhas', Bool.false_eq_true, if_false] at hhg
      have hinl : exec fuel (.inl (some (.var 9)) .bool (.cons (.load (.var 2) .ptr) (.cons (.load (.slot agSrc 0) .ptr) .nil)) 3 LeafFns.has_group.body)
          { mem := mem ++ [noneLit], loc := agLoc bk cell bu be start (start + (selBy (agP us) es i).length) i v7 v8 v9 } = .normal { mem := mem ++ [noneLit], loc := agLoc bk cell bu be start (start + (selBy (agP us) es i).length) i v7 v8 (.int 0) } :=
        exec_inl_val (fuel := fuel) (nl := 3) (body := LeafFns.has_group.body) (i := 9) (dty := .bool) (v := .int 0) (v' := .int 0)
          (st' := { mem := mem ++ [noneLit], loc := locg }) hargsg (by simpa using hhg) (by simp [convert, wrapTo]) (by simp)
      have hnot : testOf (some (.un .lnot (.load (.var 9) .bool) .i32)) { mem := mem ++ [noneLit], loc := agLoc bk cell bu be start (start + (selBy (agP us) es i).length) i v7 v8 (.int 0) } = .ok (true, { mem := mem ++ [noneLit], loc := agLoc bk cell bu be start (start + (selBy (agP us) es i).length) i v7 v8 (.int 0) }) := by
        simp [testOf, evalE, evalL, readPlace, unop, boolVal, truth, bind, Except.bind, Except.map]
      have hel : (entsOf es).length = es.length := by simp [entsOf]
      have hsm := C.small
      obtain ⟨loc', hfd⟩ := first_definition_exec (mem ++ [noneLit]) be bea (entsOf es) i (by rw [hel]; exact hi) hSM.toKf (by rw [hel]; omega) fuel (by rw [hel]; omega)
      have hent : (entsOf es)[i]'(by rw [hel]; exact hi) = ((es[i]).group, (es[i]).key) := by simp [entsOf]
      rw [hent] at hfd
      have hargs : evalArgs (.cons (.load (.var 3) .ptr) (.cons (.load (.var 6) .u64) .nil)) { mem := mem ++ [noneLit], loc := agLoc bk cell bu be start (start + (selBy (agP us) es i).length) i v7 v8 (.int 0) } =
          .ok ([.ptr be 0, .int (i : Int)], { mem := mem ++ [noneLit], loc := agLoc bk cell bu be start (start + (selBy (agP us) es i).length) i v7 v8 (.int 0) }) := by
        simp [evalArgs, evalE, evalL, readPlace, bind, Except.bind]
      have hpT : agP us es[i] = true := by simp [agP, hg, hhas']
      by_cases hfirst : firstIdx (entsOf es) (es[i]).group (es[i]).key = i
      · -- the first definition of a key in a new group: copied behind what is there
        have hsel : (agP us es[i] && (firstIdx (entsOf es) (es[i]).group (es[i]).key == i)) = true := by simp [hpT, hfirst]
        simp only [hfirst, if_true] at hfd
        have hinl8 : exec fuel (.inl (some (.var 8)) .bool (.cons (.load (.var 3) .ptr) (.cons (.load (.var 6) .u64) .nil)) 3 LeafFns.first_definition.body)
            { mem := mem ++ [noneLit], loc := agLoc bk cell bu be start (start + (selBy (agP us) es i).length) i v7 v8 (.int 0) } = .normal { mem := mem ++ [noneLit], loc := agLoc bk cell bu be start (start + (selBy (agP us) es i).length) i v7 (.int 1) (.int 0) } :=
          exec_inl_val (fuel := fuel) (nl := 3) (body := LeafFns.first_definition.body) (i := 8) (dty := .bool) (v := .int 1) (v' := .int 1)
            (st' := { mem := mem ++ [noneLit], loc := loc' }) hargs (by simpa using hfd) (by simp [convert, wrapTo]) (by simp)
        have h1 := h.frame (mem ++ [noneLit]) i v7 (.int 1) (.int 0) hMget (by simp) C.fa_lt C.bk_lt
        obtain ⟨bl', gl', d1, d2, d3, d4, d5, d6, d7, d8⟩ := h1.dest
        obtain ⟨ablk, a1, a2, a3, a4, a5, a6⟩ := h1.arr
        obtain ⟨cblk, c1, c2, c3⟩ := C.cellb
        have hclt : cell < m0.length := (List.getElem?_eq_some_iff.1 c1).1
        have hcM : (mem ++ [noneLit])[cell]? = some cblk := by rw [h1.agree cell hclt C.cellav]; exact c1
        have hbl'ne : ∀ b, b < m0.length → b ≠ bl0 → b ≠ bl' := by
          intro b hb hne
          rcases d2 with e | e
          · rw [e]; exact hne
          · omega
        have hcav := C.cellav
        simp only [List.mem_cons, List.not_mem_nil, or_false, not_or] at hcav
        have hE : EntMem (mem ++ [noneLit]) bea (7 * i) es[i] [bk, bl'] := (C.src.ents i hi).transfer h1.agree (fun b hb hav => by
          simp only [List.mem_cons, List.not_mem_nil, or_false, not_or] at hav ⊢
          exact ⟨hav.1, hbl'ne b hb hav.2.1⟩)
        have hsrc := ef_src 6 (mem ++ [noneLit]) (agLoc bk cell bu be start (start + (selBy (agP us) es i).length) i v7 (.int 1) (.int 0)) be bea es _ i hSM hi rfl rfl
        have hss := C.ssmall
        have hidx : ∀ mm, evalE (.incdec (.var 5) true true .u64) { mem := mm, loc := List.set (agLoc bk cell bu be start (start + (selBy (agP us) es i).length) i v7 (.int 1) (.int 0)) 7 (.ptr (mem ++ [noneLit]).length 0) } =
            .ok (.int ((start + (selBy (agP us) es i).length : Nat) : Int), { mem := mm, loc := agLoc bk cell bu be start (start + (selBy (agP us) es i).length + 1) i (.ptr (mem ++ [noneLit]).length 0) (.int 1) (.int 0) }) := fun mm => by
          simpa [agLoc] using ag_idx mm (.ptr bk 0) (.ptr cell 0) (.ptr bu 0) (.ptr be 0) (.int (start : Int)) (.int (i : Int)) (.ptr (mem ++ [noneLit]).length 0) (.int 1) (.int 0)
            (start + (selBy (agP us) es i).length) (by omega)
        have hfalt := C.fa_lt
        have hgrow : m0.length ≤ (mem ++ [noneLit]).length := h1.grows
        obtain ⟨kb0, hkb0⟩ : ∃ kb0, m0[bk]? = some kb0 := ⟨_, List.getElem?_eq_getElem C.bk_lt⟩
        obtain ⟨kbM, hkbM, _⟩ := d1.obj
        obtain ⟨m', bl'', gl'', hex, hEnt, hG', hnames, hfr, ⟨ablk', b1, b2, b3, b4, b5, b6⟩, hlen', hblor, hkw', hne', hd', hgll, hfreshv⟩ :=
          C_fe_append (mem ++ [noneLit]) bk bl' cell fa bea (7 * i) gl' es[i] _ _ agSrc (.incdec (.var 5) true true .u64) 7 (start + (selBy (agP us) es i).length) cap
            d1 hE (fun blk hb => (d3 kb0 blk hkb0 hb).1) d4 d5 (by omega) (C.lines _ (List.getElem_mem hi)) fuel (by omega) rfl rfl (by simp) (by decide) hsrc hidx rfl
            cblk hcM c2 c3 ⟨hcav.1, hbl'ne cell hclt hcav.2.1⟩ ablk a1 a2 a3 a5 a4 ⟨C.fa_ne.1, hbl'ne fa C.fa_lt C.fa_ne.2⟩ (by
              have hr := C.room
              have h1' := selBy_length_mono (agP us) es (i := i + 1) (n := es.length) (by omega)
              rw [selBy_succ _ es i hi, hsel] at h1'
              simp at h1'
              omega)
        refine ⟨_, { mem := m', loc := agLoc bk cell bu be start (start + (selBy (agP us) es i).length + 1) i (.ptr (mem ++ [noneLit]).length 0) (.int 1) (.int 0) }, _, htest, Or.inl ?_, ag_step m' _ _ _ _ _ _ _ _ _ i hsmallstep, ?_⟩
        · unfold agBody; rw [exec_seq_normal hcF]
          unfold agInner; rw [exec_seq_normal hinl, exec_ite_true hnot, exec_seq_normal hinl8]
          rw [exec_ite_true (st' := { mem := mem ++ [noneLit], loc := agLoc bk cell bu be start (start + (selBy (agP us) es i).length) i v7 (.int 1) (.int 0) })
            (by simp [testOf, evalE, evalL, readPlace, convert, hw1, truth, bind, Except.bind, Except.map])]
          exact hex
        · rw [selBy_succ _ es i hi, hsel]
          simp only [if_true]
          have hbl''ne : ∀ b, b < (mem ++ [noneLit]).length → b ≠ bl' → b ≠ bl'' := by
            intro b hb hne
            rcases hblor with e | e
            · rw [e]; exact hne
            · omega
          have noStr : ∀ str, (mem ++ [noneLit]).cstr fa 0 ≠ .ok str := by
            intro str hc
            simp [Mem.cstr, Mem.block, a1, a2, a4, cstrFrom, bind, Except.bind] at hc
          refine ⟨⟨.ptr (mem ++ [noneLit]).length 0, .int 1, .int 0, by simp [agLoc]; omega⟩, ?_, (by show m0.length ≤ m'.length; omega), ?_,
            ⟨ablk', b1, b2, b3, b4, b5, fun k hk => by rw [b6 k (Or.inl (by omega))]; exact a6 k hk⟩⟩
          · intro b hb hav
            simp only [List.mem_cons, List.not_mem_nil, or_false, not_or] at hav
            rw [hfr b (by omega) hav.1 (hbl'ne b hb hav.2.1) hav.2.2]
            exact h1.agree b hb (by simp [hav])
          · refine ⟨bl'', gl'', hG', ?_, fun kb blk hk hb => (d3 kb kbM hk hkbM).trans (hkw' kbM blk hkbM hb), hne', hd', by simp; omega, ?_, ?_⟩
            · rcases hblor with e | e
              · rw [e]; exact d2
              · right; omega
            · rw [hnames, d7]
              simp [List.map_append, List.foldl_append]
            · intro j hj
              by_cases hja : j < (selBy (agP us) es i).length
              · rw [List.getElem_append_left hja]
                exact (d8 j hja).keep_in_array a1 b1 b2 (fun k hk => b6 (7 * (start + j) + k) (Or.inl (by omega)))
                  (fun b hb hav hne => by
                    simp only [List.mem_cons, List.not_mem_nil, or_false, not_or] at hav
                    exact hfr b hb hav.1 hav.2 hne) noStr
                  (fun b hb hav => by
                    simp only [List.mem_cons, List.not_mem_nil, or_false, not_or] at hav ⊢
                    exact ⟨hav.1, hbl''ne b hb hav.2⟩)
                  (by simp only [List.mem_cons, List.not_mem_nil, or_false, not_or]
                      exact ⟨C.fa_ne.1, hbl''ne fa (by omega) (hbl'ne fa C.fa_lt C.fa_ne.2)⟩)
              · have hje : j = (selBy (agP us) es i).length := by simp at hj; omega
                subst hje
                simpa using hEnt
      · -- a later definition of a key: not copied
        have hsel : (agP us es[i] && (firstIdx (entsOf es) (es[i]).group (es[i]).key == i)) = false := by simp [hfirst]
        simp only [hfirst, if_false] at hfd
        have hinl8 : exec fuel (.inl (some (.var 8)) .bool (.cons (.load (.var 3) .ptr) (.cons (.load (.var 6) .u64) .nil)) 3 LeafFns.first_definition.body)
            { mem := mem ++ [noneLit], loc := agLoc bk cell bu be start (start + (selBy (agP us) es i).length) i v7 v8 (.int 0) } =
            .normal { mem := mem ++ [noneLit], loc := agLoc bk cell bu be start (start + (selBy (agP us) es i).length) i v7 (.int 0) (.int 0) } :=
          exec_inl_val (fuel := fuel) (nl := 3) (body := LeafFns.first_definition.body) (i := 8) (dty := .bool) (v := .int 0) (v' := .int 0)
            (st' := { mem := mem ++ [noneLit], loc := loc' }) hargs (by simpa using hfd) (by simp [convert, wrapTo]) (by simp)
        refine ⟨_, { mem := mem ++ [noneLit], loc := agLoc bk cell bu be start (start + (selBy (agP us) es i).length) i v7 (.int 0) (.int 0) },
          _, htest, Or.inl ?_, ag_step (mem ++ [noneLit]) _ _ _ _ _ _ _ _ _ i hsmallstep, ?_⟩
        · unfold agBody; rw [exec_seq_normal hcF]
          unfold agInner; rw [exec_seq_normal hinl, exec_ite_true hnot, exec_seq_normal hinl8]
          rw [exec_ite_false (st' := { mem := mem ++ [noneLit], loc := agLoc bk cell bu be start (start + (selBy (agP us) es i).length) i v7 (.int 0) (.int 0) })
            (by simp [testOf, evalE, evalL, readPlace, convert, hw0, truth, bind, Except.bind, Except.map])]
          simp [exec]
        · rw [selBy_succ _ es i hi, hsel]
          simp only [Bool.false_eq_true, if_false, List.append_nil]
          exact h.frame (mem ++ [noneLit]) (i + 1) v7 (.int 0) (.int 0) hMget (by simp) C.fa_lt C.bk_lt

theorem ag_loop {m0 : Mem} {bk bl0 fa cell bu bua be bea : Nat} {us es : List Econf.Entry} {names0 : List (List UInt8)} {gl0len cap start : Nat} {ablk0 : Block}
    (C : AgCtx m0 bk bl0 fa cell bu bua be bea us es gl0len cap start) (fuel : Nat) (hf : gl0len + es.length + us.length + 2 < fuel)
    (st : St) (h : AgInv m0 bk bl0 fa cell bu be names0 gl0len cap start ablk0 (selBy (agP us) es 0) 0 st) :
    ∃ R, exec fuel agLoop st = .normal R ∧ AgInv m0 bk bl0 fa cell bu be names0 gl0len cap start ablk0 (selBy (agP us) es es.length) es.length R := by
  unfold agLoop
  rw [exec_for]
  refine loop_inv _ _ _ _ es.length (fun i st => AgInv m0 bk bl0 fa cell bu be names0 gl0len cap start ablk0 (selBy (agP us) es i) i st)
    (fun i st hi hinv => ag_round C fuel hf i hi st hinv) ?_ st fuel h (by omega)
  intro st hinv
  obtain ⟨v7, v8, v9, hloc⟩ := hinv.loc
  obtain ⟨mem, loc⟩ := st
  simp only at hloc; subst hloc
  have hS : SrcMem mem be bea es [bk, bl0, fa] := C.src.mono hinv.agree
  have htest := ef_test 6 mem (agLoc bk cell bu be start (start + (selBy (agP us) es es.length).length) es.length v7 v8 v9) be bea es _ es.length hS rfl rfl
  simp only [Nat.lt_irrefl, decide_false] at htest
  exact ⟨_, htest, hinv⟩

/-- an element of an array is the same element in another block that holds the same seven words, when the blocks that hold its
    strings are kept -/
theorem EntMem.reblock {m m' : Mem} {fa fa' os : Nat} {e : Econf.Entry} {av av' : List Nat} {ablk ablk' : Block}
    (h : EntMem m fa os e av) (ha : m[fa]? = some ablk) (ha' : m'[fa']? = some ablk') (hl' : ablk'.live = true)
    (hw : ∀ k, k < 7 → ablk'.slots[os + k]? = ablk.slots[os + k]?)
    (hm : ∀ b str, m.cstr b 0 = .ok str → b ∉ av → m'[b]? = m[b]?)
    (hav : ∀ b, b < m.length → b ∉ av → b ∉ av') (hfa : fa' ∉ av') : EntMem m' fa' os e av' := by
  obtain ⟨bg, g1, g2, g3⟩ := h.grp
  obtain ⟨bq, k1, k2, k3⟩ := h.key
  obtain ⟨v, v1, v2, v3⟩ := h.val
  obtain ⟨vb, b1, b2, b3⟩ := h.cb
  obtain ⟨va, a1, a2, a3⟩ := h.ca
  have word : ∀ (k : Nat) (w : Val), k < 7 → m.loadSlot fa ((os + k : Nat) : Int) = .ok w → m'.loadSlot fa' ((os + k : Nat) : Int) = .ok w := by
    intro k w hk hl
    obtain ⟨s1, s2, _⟩ := loadSlot_inv hl ha
    exact loadSlot_of ha' hl' (by rw [hw k hk]; exact s1) s2
  have strOk : ∀ (b : Nat) (str : List UInt8), m.cstr b 0 = .ok str → b ∉ av → m'.cstr b 0 = .ok str := by
    intro b str hc hb
    rw [cstr_congr (hm b str hc hb)]; exact hc
  have optOk : ∀ (w : Val) (so : Option (List UInt8)), OptStr m w so → (∀ b, w = .ptr b 0 → b ∉ av) → OptStr m' w so := by
    intro w so hv hb
    cases hv with
    | none => exact .none
    | some b str hc => exact .some b str (strOk b str hc (hb b rfl))
  refine ⟨hfa, ⟨bg, by simpa using word 0 _ (by omega) (by simpa using g1), strOk _ _ g2 g3, hav bg (cstr_lt g2) g3⟩,
    ⟨bq, by simpa using word 1 _ (by omega) (by simpa using k1), strOk _ _ k2 k3, hav bq (cstr_lt k2) k3⟩,
    ⟨v, by simpa using word 2 _ (by omega) (by simpa using v1), optOk _ _ v2 v3, fun b hb => hav b (v2.lt b hb) (v3 b hb)⟩,
    ⟨vb, by simpa using word 3 _ (by omega) (by simpa using b1), optOk _ _ b2 b3, fun b hb => hav b (b2.lt b hb) (b3 b hb)⟩,
    ⟨va, by simpa using word 4 _ (by omega) (by simpa using a1), optOk _ _ a2 a3, fun b hb => hav b (a2.lt b hb) (a3 b hb)⟩,
    by simpa using word 5 _ (by omega) (by simpa using h.line)⟩

/-- a block without character cells holds no string -/
theorem no_cstr {m : Mem} {b : Nat} {blk : Block} (h1 : m[b]? = some blk) (h2 : blk.cells = []) (str : List UInt8) : m.cstr b 0 ≠ .ok str := by
  intro hc
  by_cases hl : blk.live = true
  · simp [Mem.cstr, Mem.block, h1, hl, h2, cstrFrom, bind, Except.bind] at hc
  · simp [Mem.cstr, Mem.block, h1, hl, bind, Except.bind] at hc

/-- `add_new_groups` on the generated term, both objects present: the entries of groups the base does not have are appended behind the
    `start` entries already in the array, the array is then cut to size (`realloc`: it moves to a new block, the cell `*fe` points there),
    the number of entries is returned -/
theorem add_new_groups_exec (m : Mem) (bk bl0 fa cell bu bua be bea : Nat) (us es : List Econf.Entry) (gl0 : List (Nat × List UInt8)) (cap start : Nat)
    (C : AgCtx m bk bl0 fa cell bu bua be bea us es gl0.length cap start)
    (hcw : ∀ cblk, m[cell]? = some cblk → cblk.writable = true ∧ cblk.cells = [])
    (hG : GlMem m bk bl0 gl0) (hkw : ∀ blk, m[bk]? = some blk → blk.writable = true) (hne : gl0 ≠ [] → bk ≠ bl0) (hd : ∀ x, x ∈ gl0 → x.1 ≠ bk ∧ x.1 ≠ bl0)
    (ablk0 : Block) (ha1 : m[fa]? = some ablk0) (ha2 : ablk0.live = true) (ha3 : ablk0.writable = true) (ha4 : ablk0.cells = []) (ha5 : ablk0.slots.length = 7 * cap)
    (fuel : Nat) (hf : gl0.length + es.length + us.length + 2 < fuel) :
    ∃ m' loc' bl' gl' fa', exec fuel LeafFns.add_new_groups.body
        { mem := m, loc := [.ptr bk 0, .ptr cell 0, .ptr bu 0, .ptr be 0, .int (start : Int), .undef, .undef, .undef, .undef, .undef] } =
        .ret (.int ((start + (selBy (agP us) es es.length).length : Nat) : Int)) { mem := m', loc := loc' } ∧
      GlMem m' bk bl' gl' ∧
      gl'.map (·.2) = ((selBy (agP us) es es.length).map (·.group)).foldl Econf.addGroup (gl0.map (·.2)) ∧
      (∃ cblk', m'[cell]? = some cblk' ∧ cblk'.live = true ∧ cblk'.slots[0]? = some (.ptr fa' 0)) ∧
      (∃ ablk', m'[fa']? = some ablk' ∧ ablk'.live = true ∧ ∀ k, k < 7 * start → ablk'.slots[k]? = ablk0.slots[k]?) ∧
      (∀ j (h : j < (selBy (agP us) es es.length).length),
        EntMem m' fa' (7 * (start + j)) (Econf.cpyEntry ((selBy (agP us) es es.length)[j])) [bk, bl']) ∧
      (∀ b, b < m.length → b ∉ [bk, bl0, fa, cell] → m'[b]? = m[b]?) ∧ m.length ≤ m'.length ∧
      (bl' = bl0 ∨ m.length ≤ bl') ∧ fa' ≠ bk ∧ fa' ≠ bl' ∧
      (∀ kb blk, m[bk]? = some kb → m'[bk]? = some blk → KfKeep kb blk) ∧
      (gl' ≠ [] → bk ≠ bl') ∧ (∀ x, x ∈ gl' → x.1 ≠ bk ∧ x.1 ≠ bl') := by
  have hss := C.ssmall
  have wS : wrapTo .u64 (start : Int) = (start : Int) := wrapTo_u64_small _ (by omega) (by omega)
  have w0 : wrapTo .u64 0 = 0 := wrapTo_u64_small 0 (by decide) (by decide)
  rw [add_new_groups_shape]
  have hinit : exec fuel (.expr (.assign (.var 5) (.load (.var 4) .u64) .u64))
      { mem := m, loc := [.ptr bk 0, .ptr cell 0, .ptr bu 0, .ptr be 0, .int (start : Int), .undef, .undef, .undef, .undef, .undef] } =
      .normal { mem := m, loc := [.ptr bk 0, .ptr cell 0, .ptr bu 0, .ptr be 0, .int (start : Int), .int (start : Int), .undef, .undef, .undef, .undef] } := by
    simp [exec, evalE, evalL, readPlace, writePlace, convert, wS, bind, Except.bind]
  rw [exec_seq_normal hinit]
  have htl : testOf (some (.land (.load (.var 2) .ptr) (.load (.var 3) .ptr)))
      { mem := m, loc := [.ptr bk 0, .ptr cell 0, .ptr bu 0, .ptr be 0, .int (start : Int), .int (start : Int), .undef, .undef, .undef, .undef] } =
      .ok (true, { mem := m, loc := [.ptr bk 0, .ptr cell 0, .ptr bu 0, .ptr be 0, .int (start : Int), .int (start : Int), .undef, .undef, .undef, .undef] }) := by
    simp [testOf, evalE, evalL, readPlace, truth, boolVal, bind, Except.bind, Except.map]
  have hi6 : exec fuel (.expr (.assign (.var 6) (.cast .u64 (.lit 0 .i32)) .u64))
      { mem := m, loc := [.ptr bk 0, .ptr cell 0, .ptr bu 0, .ptr be 0, .int (start : Int), .int (start : Int), .undef, .undef, .undef, .undef] } =
      .normal { mem := m, loc := agLoc bk cell bu be start start 0 .undef .undef .undef } := by
    simp [exec, evalE, evalL, writePlace, convert, w0, bind, Except.bind, agLoc]
  have hsel0 : selBy (agP us) es 0 = [] := by simp [selBy]
  have hinv0 : AgInv m bk bl0 fa cell bu be (gl0.map (·.2)) gl0.length cap start ablk0 (selBy (agP us) es 0) 0
      { mem := m, loc := agLoc bk cell bu be start start 0 .undef .undef .undef } := by
    rw [hsel0]
    refine ⟨⟨.undef, .undef, .undef, by simp⟩, fun b _ _ => rfl, Nat.le_refl _, ?_, ⟨ablk0, ha1, ha2, ha3, ha4, ha5, fun k _ => rfl⟩⟩
    exact ⟨bl0, gl0, hG, Or.inl rfl, KfKeep.same hkw rfl, hne, hd, by simp, by simp, by simp⟩
  obtain ⟨R, hloop, hinvR⟩ := ag_loop C fuel hf _ hinv0
  obtain ⟨v7, v8, v9, hlocR⟩ := hinvR.loc
  obtain ⟨memR, locR⟩ := R
  simp only at hlocR; subst hlocR
  obtain ⟨bl', gl', d1, d2, d3, d4, d5, d6, d7, d8⟩ := hinvR.dest
  obtain ⟨ablk, a1, a2, a3, a4, a5, a6⟩ := hinvR.arr
  have hagree := hinvR.agree
  have hgrows : m.length ≤ memR.length := hinvR.grows
  obtain ⟨cblk, c1, c2, c3⟩ := C.cellb
  obtain ⟨cw1, cw2⟩ := hcw cblk c1
  have hclt : cell < m.length := (List.getElem?_eq_some_iff.1 c1).1
  have hcR : memR[cell]? = some cblk := by rw [hagree cell hclt C.cellav]; exact c1
  have hcav := C.cellav
  simp only [List.mem_cons, List.not_mem_nil, or_false, not_or] at hcav
  have hbody0 : exec fuel (.seq (.expr (.assign (.var 6) (.cast .u64 (.lit 0 .i32)) .u64)) (.seq agLoop agRealloc))
      { mem := m, loc := [.ptr bk 0, .ptr cell 0, .ptr bu 0, .ptr be 0, .int (start : Int), .int (start : Int), .undef, .undef, .undef, .undef] } =
      exec fuel agRealloc { mem := memR, loc := agLoc bk cell bu be start (start + (selBy (agP us) es es.length).length) es.length v7 v8 v9 } := by
    rw [exec_seq_normal hi6, exec_seq_normal hloop]
  have hl5 : evalE (.load (.var 5) .u64) { mem := memR, loc := agLoc bk cell bu be start (start + (selBy (agP us) es es.length).length) es.length v7 v8 v9 } =
      .ok (.int ((start + (selBy (agP us) es es.length).length : Nat) : Int), { mem := memR, loc := agLoc bk cell bu be start (start + (selBy (agP us) es es.length).length) es.length v7 v8 v9 }) := by
    simp [evalE, evalL, readPlace, bind, Except.bind]
  have hlen_le : (selBy (agP us) es es.length).length ≤ es.length := selBy_length_le _ es es.length
  by_cases hcnt : start + (selBy (agP us) es es.length).length = 0
  · -- nothing in the array: it stays where it is
    have htest : testOf (some (.bin .gt (.load (.var 5) .u64) (.cast .u64 (.lit 0 .i32)) .i32)) { mem := memR, loc := agLoc bk cell bu be start (start + (selBy (agP us) es es.length).length) es.length v7 v8 v9 } = .ok (false, { mem := memR, loc := agLoc bk cell bu be start (start + (selBy (agP us) es es.length).length) es.length v7 v8 v9 }) := by
      simp [testOf, evalE, evalL, readPlace, convert, w0, binop, cmpInt, boolVal, truth, hcnt, bind, Except.bind, Except.map]
    have hre : exec fuel agRealloc { mem := memR, loc := agLoc bk cell bu be start (start + (selBy (agP us) es es.length).length) es.length v7 v8 v9 } = .normal { mem := memR, loc := agLoc bk cell bu be start (start + (selBy (agP us) es es.length).length) es.length v7 v8 v9 } := by
      unfold agRealloc; rw [exec_ite_false htest]; simp [exec]
    have hmain : exec fuel (.ite (.land (.load (.var 2) .ptr) (.load (.var 3) .ptr))
        (.seq (.expr (.assign (.var 6) (.cast .u64 (.lit 0 .i32)) .u64)) (.seq agLoop agRealloc)) .skip)
        { mem := m, loc := [.ptr bk 0, .ptr cell 0, .ptr bu 0, .ptr be 0, .int (start : Int), .int (start : Int), .undef, .undef, .undef, .undef] } =
        .normal { mem := memR, loc := agLoc bk cell bu be start (start + (selBy (agP us) es es.length).length) es.length v7 v8 v9 } := by
      rw [exec_ite_true htl, hbody0, hre]
    rw [exec_seq_normal hmain]
    refine ⟨memR, agLoc bk cell bu be start (start + (selBy (agP us) es es.length).length) es.length v7 v8 v9, bl', gl', fa, by simp [exec, evalE, evalL, readPlace, bind, Except.bind], d1, d7, ⟨cblk, hcR, c2, c3⟩, ⟨ablk, a1, a2, a6⟩, d8,
      fun b hb hav => hagree b hb (by simp only [List.mem_cons, List.not_mem_nil, or_false, not_or] at hav ⊢; exact ⟨hav.1, hav.2.1, hav.2.2.1⟩), hgrows, d2, C.fa_ne.1, by
        rcases d2 with e | e
        · rw [e]; exact C.fa_ne.2
        · have := C.fa_lt; omega, d3, d4, d5⟩
  · -- the array is cut to its final size: a new block, the cell points to it
    have hroom := C.room
    have hcs := C.csmall
    have hcle : 7 * (start + (selBy (agP us) es es.length).length) ≤ 7 * cap := by omega
    have htest : testOf (some (.bin .gt (.load (.var 5) .u64) (.cast .u64 (.lit 0 .i32)) .i32)) { mem := memR, loc := agLoc bk cell bu be start (start + (selBy (agP us) es es.length).length) es.length v7 v8 v9 } = .ok (true, { mem := memR, loc := agLoc bk cell bu be start (start + (selBy (agP us) es es.length).length) es.length v7 v8 v9 }) := by
      have : (0 : Int) < ((start : Int) + ((selBy (agP us) es es.length).length : Int)) := by omega
      simp [testOf, evalE, evalL, readPlace, convert, w0, binop, cmpInt, boolVal, truth, this, bind, Except.bind, Except.map]
    have hlc : memR.loadSlot cell 0 = .ok (.ptr fa 0) := by simpa using loadSlot_of (i := 0) hcR c2 c3 (by simp)
    have hwm : wrapTo .u64 (((start : Int) + ((selBy (agP us) es es.length).length : Int)) * 7) = 7 * ((start : Int) + ((selBy (agP us) es es.length).length : Int)) := by
      rw [wrapTo_u64_small _ (by omega) (by omega)]; omega
    have hrw := realloc_words_spec memR fa ablk (7 * (start + (selBy (agP us) es es.length).length)) a1 a2
    have htake : (ablk.slots.take (7 * (start + (selBy (agP us) es es.length).length))).length = 7 * (start + (selBy (agP us) es es.length).length) := by
      rw [List.length_take, a5]; omega
    rw [htake, Nat.sub_self] at hrw
    simp only [List.replicate_zero, List.append_nil] at hrw
    have hargs : evalArgs (.cons (.load (.slot (.load (.var 1) .ptr) 0) .ptr) (.cons (.bin .mul (.load (.var 5) .u64) (.lit 7 .u64) .u64) .nil))
        { mem := memR, loc := agLoc bk cell bu be start (start + (selBy (agP us) es es.length).length) es.length v7 v8 v9 } =
        .ok ([.ptr fa 0, .int ((7 * (start + (selBy (agP us) es es.length).length) : Nat) : Int)], { mem := memR, loc := agLoc bk cell bu be start (start + (selBy (agP us) es es.length).length) es.length v7 v8 v9 }) := by
      simp [evalArgs, evalE, evalL, readPlace, hlc, binop, cmpInt, arith_u64, hwm, bind, Except.bind]
    have hfaR : fa < memR.length := (List.getElem?_eq_some_iff.1 a1).1
    have hcltR : cell < memR.length := by omega
    have hc1 : (memR.set fa { ablk with live := false } ++ [({ cells := [], slots := ablk.slots.take (7 * (start + (selBy (agP us) es es.length).length)) } : Block)])[cell]? = some cblk := by
      rw [List.getElem?_append_left (by simpa using hcltR), set_other hcav.2.2]; exact hcR
    have hsl : 0 < cblk.slots.length := by
      cases hq : cblk.slots with
      | nil => rw [hq] at c3; simp at c3
      | cons _ _ => simp
    have hst := storeSlot_of (i := 0) (.ptr memR.length 0) hc1 c2 cw1 hsl
    have hexec : exec fuel (.expr (.assign (.slot (.load (.var 1) .ptr) 0) (.call "realloc_words" (.cons (.load (.slot (.load (.var 1) .ptr) 0) .ptr)
          (.cons (.bin .mul (.load (.var 5) .u64) (.lit 7 .u64) .u64) .nil))) .ptr)) { mem := memR, loc := agLoc bk cell bu be start (start + (selBy (agP us) es es.length).length) es.length v7 v8 v9 } =
        .normal { mem := List.set (memR.set fa { ablk with live := false } ++ [({ cells := [], slots := ablk.slots.take (7 * (start + (selBy (agP us) es es.length).length)) } : Block)]) cell { cblk with slots := cblk.slots.set 0 (.ptr memR.length 0) }, loc := agLoc bk cell bu be start (start + (selBy (agP us) es es.length).length) es.length v7 v8 v9 } := by
      generalize (Args.cons (.load (.slot (.load (.var 1) .ptr) 0) .ptr) (.cons (.bin .mul (.load (.var 5) .u64) (.lit 7 .u64) .u64) .nil)) = A at hargs ⊢
      have hst' : Mem.storeSlot (memR.set fa { ablk with live := false } ++ [({ cells := [], slots := ablk.slots.take (7 * (start + (selBy (agP us) es es.length).length)) } : Block)])
          cell 0 (.ptr memR.length 0) = .ok (List.set (memR.set fa { ablk with live := false } ++ [({ cells := [], slots := ablk.slots.take (7 * (start + (selBy (agP us) es es.length).length)) } : Block)]) cell { cblk with slots := cblk.slots.set 0 (.ptr memR.length 0) }) := by simpa using hst
      have hrw' : builtin "realloc_words" [.ptr fa 0, .int (7 * ((start : Int) + ((selBy (agP us) es es.length).length : Int)))] memR =
          .ok (.ptr memR.length 0, memR.set fa { ablk with live := false } ++ [({ cells := [], slots := ablk.slots.take (7 * (start + (selBy (agP us) es es.length).length)) } : Block)]) := by
        simpa using hrw
      simp [exec, evalE, evalL, readPlace, hargs, hrw', convert, writePlace, hst', bind, Except.bind, Except.map]
    have hre : exec fuel agRealloc { mem := memR, loc := agLoc bk cell bu be start (start + (selBy (agP us) es es.length).length) es.length v7 v8 v9 } = .normal { mem := (List.set (memR.set fa { ablk with live := false } ++ [({ cells := [], slots := ablk.slots.take (7 * (start + (selBy (agP us) es es.length).length)) } : Block)]) cell { cblk with slots := cblk.slots.set 0 (.ptr memR.length 0) }), loc := agLoc bk cell bu be start (start + (selBy (agP us) es es.length).length) es.length v7 v8 v9 } := by
      unfold agRealloc; rw [exec_ite_true htest]; exact hexec
    have hmain : exec fuel (.ite (.land (.load (.var 2) .ptr) (.load (.var 3) .ptr))
        (.seq (.expr (.assign (.var 6) (.cast .u64 (.lit 0 .i32)) .u64)) (.seq agLoop agRealloc)) .skip)
        { mem := m, loc := [.ptr bk 0, .ptr cell 0, .ptr bu 0, .ptr be 0, .int (start : Int), .int (start : Int), .undef, .undef, .undef, .undef] } =
        .normal { mem := (List.set (memR.set fa { ablk with live := false } ++ [({ cells := [], slots := ablk.slots.take (7 * (start + (selBy (agP us) es es.length).length)) } : Block)]) cell { cblk with slots := cblk.slots.set 0 (.ptr memR.length 0) }), loc := agLoc bk cell bu be start (start + (selBy (agP us) es es.length).length) es.length v7 v8 v9 } := by
      rw [exec_ite_true htl, hbody0, hre]
    rw [exec_seq_normal hmain]
    have hlen1 : (memR.set fa { ablk with live := false } ++ [({ cells := [], slots := ablk.slots.take (7 * (start + (selBy (agP us) es es.length).length)) } : Block)]).length = memR.length + 1 := by simp
    have hget : ∀ b, b < memR.length → b ≠ fa → b ≠ cell → (List.set (memR.set fa { ablk with live := false } ++ [({ cells := [], slots := ablk.slots.take (7 * (start + (selBy (agP us) es es.length).length)) } : Block)]) cell { cblk with slots := cblk.slots.set 0 (.ptr memR.length 0) })[b]? = memR[b]? := by
      intro b hb h1 h2
      rw [set_other h2, List.getElem?_append_left (by simpa using hb), set_other h1]
    have hnew : (List.set (memR.set fa { ablk with live := false } ++ [({ cells := [], slots := ablk.slots.take (7 * (start + (selBy (agP us) es es.length).length)) } : Block)]) cell { cblk with slots := cblk.slots.set 0 (.ptr memR.length 0) })[memR.length]? = some ({ cells := [], slots := ablk.slots.take (7 * (start + (selBy (agP us) es es.length).length)) } : Block) := by
      rw [set_other (by omega)]
      have : (memR.set fa { ablk with live := false }).length = memR.length := by simp
      rw [← this, List.getElem?_concat_length]
    have hcell' : (List.set (memR.set fa { ablk with live := false } ++ [({ cells := [], slots := ablk.slots.take (7 * (start + (selBy (agP us) es es.length).length)) } : Block)]) cell { cblk with slots := cblk.slots.set 0 (.ptr memR.length 0) })[cell]? = some { cblk with slots := cblk.slots.set 0 (.ptr memR.length 0) } := by
      rw [List.getElem?_set_self (by rw [hlen1]; omega)]
    have hbkR : bk < memR.length := by have := C.bk_lt; omega
    have hblR : bl' < memR.length := d1.bl_lt
    have hbl'fa : bl' ≠ fa := by
      rcases d2 with e | e
      · rw [e]; exact Ne.symm C.fa_ne.2
      · have := C.fa_lt; omega
    have hbl'cell : bl' ≠ cell := by
      rcases d2 with e | e
      · rw [e]; exact Ne.symm hcav.2.1
      · omega
    have hstr : ∀ b str, memR.cstr b 0 = .ok str → (List.set (memR.set fa { ablk with live := false } ++ [({ cells := [], slots := ablk.slots.take (7 * (start + (selBy (agP us) es es.length).length)) } : Block)]) cell { cblk with slots := cblk.slots.set 0 (.ptr memR.length 0) })[b]? = memR[b]? := by
      intro b str hc
      exact hget b (cstr_lt hc) (fun hh => no_cstr a1 a4 str (hh ▸ hc)) (fun hh => no_cstr hcR cw2 str (hh ▸ hc))
    refine ⟨(List.set (memR.set fa { ablk with live := false } ++ [({ cells := [], slots := ablk.slots.take (7 * (start + (selBy (agP us) es es.length).length)) } : Block)]) cell { cblk with slots := cblk.slots.set 0 (.ptr memR.length 0) }), agLoc bk cell bu be start (start + (selBy (agP us) es es.length).length) es.length v7 v8 v9, bl', gl', memR.length, by simp [exec, evalE, evalL, readPlace, bind, Except.bind],
      d1.mono_of (hget bk hbkR (Ne.symm C.fa_ne.1) (Ne.symm hcav.1)) (hget bl' hblR hbl'fa hbl'cell) (fun b str hc _ => hstr b str hc), d7,
      ⟨_, hcell', c2, by simp [List.getElem?_set, hsl]⟩,
      ⟨_, hnew, rfl, fun k hk => by
        show (ablk.slots.take (7 * (start + (selBy (agP us) es es.length).length)))[k]? = _
        rw [List.getElem?_take_of_lt (by omega)]; exact a6 k hk⟩, ?_, ?_, by rw [List.length_set, hlen1]; omega, d2, by omega, by omega,
      fun kb blk hk hb => d3 kb blk hk (by rw [← hget bk hbkR (Ne.symm C.fa_ne.1) (Ne.symm hcav.1)]; exact hb), d4, d5⟩
    · intro j hj
      refine (d8 j hj).reblock a1 hnew rfl (fun k hk => ?_) (fun b str hc _ => hstr b str hc) (fun b _ hb => hb) ?_
      · show (ablk.slots.take (7 * (start + (selBy (agP us) es es.length).length)))[7 * (start + j) + k]? = _
        rw [List.getElem?_take_of_lt (by omega)]
      · simp only [List.mem_cons, List.not_mem_nil, or_false, not_or]
        omega
    · intro b hb hav
      simp only [List.mem_cons, List.not_mem_nil, or_false, not_or] at hav
      rw [hget b (by omega) hav.2.2.1 hav.2.2.2]
      exact hagree b hb (by simp only [List.mem_cons, List.not_mem_nil, or_false, not_or]; exact ⟨hav.1, hav.2.1, hav.2.2.1⟩)

/-- `add_new_groups`, generated term against the model: behind the `start` entries already in the array stand exactly the model's
    `addNewGroups`, their number is added to the count returned, the destination's group list has got their groups in order, and the rest
    of the caller's memory is unchanged (the array itself has moved: `*fe` points to the block cut to size) -/
theorem C_add_new_groups (m : Mem) (bk bl0 fa cell bu bua be bea : Nat) (us es : List Econf.Entry) (gl0 : List (Nat × List UInt8)) (cap start : Nat)
    (C : AgCtx m bk bl0 fa cell bu bua be bea us es gl0.length cap start)
    (hcw : ∀ cblk, m[cell]? = some cblk → cblk.writable = true ∧ cblk.cells = [])
    (hG : GlMem m bk bl0 gl0) (hkw : ∀ blk, m[bk]? = some blk → blk.writable = true) (hne : gl0 ≠ [] → bk ≠ bl0) (hd : ∀ x, x ∈ gl0 → x.1 ≠ bk ∧ x.1 ≠ bl0)
    (ablk0 : Block) (ha1 : m[fa]? = some ablk0) (ha2 : ablk0.live = true) (ha3 : ablk0.writable = true) (ha4 : ablk0.cells = []) (ha5 : ablk0.slots.length = 7 * cap)
    (fuel : Nat) (hf : gl0.length + es.length + us.length + 2 < fuel) :
    ∃ m' loc' bl' gl' fa', exec fuel LeafFns.add_new_groups.body
        { mem := m, loc := [.ptr bk 0, .ptr cell 0, .ptr bu 0, .ptr be 0, .int (start : Int), .undef, .undef, .undef, .undef, .undef] } =
        .ret (.int ((start + (Econf.addNewGroups us es).length : Nat) : Int)) { mem := m', loc := loc' } ∧
      GlMem m' bk bl' gl' ∧
      gl'.map (·.2) = ((Econf.addNewGroups us es).map (·.group)).foldl Econf.addGroup (gl0.map (·.2)) ∧
      (∃ cblk', m'[cell]? = some cblk' ∧ cblk'.live = true ∧ cblk'.slots[0]? = some (.ptr fa' 0)) ∧
      (∃ ablk', m'[fa']? = some ablk' ∧ ablk'.live = true ∧ ∀ k, k < 7 * start → ablk'.slots[k]? = ablk0.slots[k]?) ∧
      (∀ j (h : j < (Econf.addNewGroups us es).length), EntMem m' fa' (7 * (start + j)) ((Econf.addNewGroups us es)[j]) [bk, bl']) ∧
      (∀ b, b < m.length → b ∉ [bk, bl0, fa, cell] → m'[b]? = m[b]?) ∧ m.length ≤ m'.length ∧
      (bl' = bl0 ∨ m.length ≤ bl') ∧ fa' ≠ bk ∧ fa' ≠ bl' ∧
      (∀ kb blk, m[bk]? = some kb → m'[bk]? = some blk → KfKeep kb blk) ∧
      (gl' ≠ [] → bk ≠ bl') ∧ (∀ x, x ∈ gl' → x.1 ≠ bk ∧ x.1 ≠ bl') := by
  obtain ⟨m', loc', bl', gl', fa', hex, hG', hn, hc, ha, hE, hfr, hlen', hextra⟩ :=
    add_new_groups_exec m bk bl0 fa cell bu bua be bea us es gl0 cap start C hcw hG hkw hne hd ablk0 ha1 ha2 ha3 ha4 ha5 fuel hf
  have hm := agSel_model us es
  have hlen : (Econf.addNewGroups us es).length = (selBy (agP us) es es.length).length := by rw [← hm]; simp
  have hgrp : (Econf.addNewGroups us es).map (·.group) = (selBy (agP us) es es.length).map (·.group) := by
    rw [← hm, List.map_map]
    apply List.map_congr_left
    intro e _
    simp [Econf.cpyEntry]
  refine ⟨m', loc', bl', gl', fa', by rw [hlen]; exact hex, hG', by rw [hgrp]; exact hn, hc, ha, ?_, hfr, hlen', hextra⟩
  intro j hj
  have hj' : j < (selBy (agP us) es es.length).length := by omega
  have : (Econf.addNewGroups us es)[j] = Econf.cpyEntry ((selBy (agP us) es es.length)[j]) := by simp [← hm]
  rw [this]; exact hE j hj'

end LeafKf

namespace LeafKf.Example

theorem ent_u0 : EntMem mem 5 (7 * 0) us[0] [0, 1, 3] :=
  ⟨by decide, ⟨6, rfl, rfl, by decide⟩, ⟨7, rfl, rfl, by decide⟩, ⟨.ptr 8 0, rfl, .some 8 _ rfl, fun b hb => by cases hb; decide⟩,
    ⟨.null, rfl, .none, fun b hb => by cases hb⟩, ⟨.null, rfl, .none, fun b hb => by cases hb⟩, rfl⟩

theorem base_full : SrcMem mem 4 5 us [0, 1, 3] :=
  ⟨⟨_, rfl, rfl, rfl, rfl⟩, by decide, ⟨_, rfl, rfl, rfl⟩, by decide, fun i hi => by
    have : i = 0 := by simp [us] at hi; omega
    subst this
    exact ent_u0⟩

/-- the same memory meets the hypotheses of `C_add_new_groups` (nothing in the array yet) -/
theorem ctx_add : AgCtx mem 0 1 3 2 4 5 9 10 us es 0 3 0 :=
  ⟨override_ok, base_full, ⟨_, rfl, rfl, rfl⟩, by decide, by decide, by decide, by decide, by decide, by decide, by decide, by decide, by decide, by decide,
    fun e he => by
      simp [es] at he
      rcases he with rfl | rfl | rfl <;> decide⟩

theorem model_add : Econf.addNewGroups us es = [{ group := [66], key := [121], value := none, cb := none, ca := none, line := 5, quotes := false }] := by
  decide

/-- `add_new_groups` on it: one entry (group `B`, the base has no such group) is appended, the array is cut to one entry -/
theorem run_add : ∃ m' loc' bl' gl' fa', exec 10 LeafFns.add_new_groups.body
      { mem := mem, loc := [.ptr 0 0, .ptr 2 0, .ptr 4 0, .ptr 9 0, .int 0, .undef, .undef, .undef, .undef, .undef] } = .ret (.int 1) { mem := m', loc := loc' } ∧
    GlMem m' 0 bl' gl' ∧ gl'.map (·.2) = [[66]] ∧
    EntMem m' fa' 0 { group := [66], key := [121], value := none, cb := none, ca := none, line := 5, quotes := false } [0, bl'] := by
  obtain ⟨m', loc', bl', gl', fa', hex, hG, hn, _, _, hE, _, _, _⟩ :=
    C_add_new_groups mem 0 1 3 2 4 5 9 10 us es [] 3 0 ctx_add (fun cblk hb => by cases hb; exact ⟨rfl, rfl⟩) dest_ok
      (fun blk hb => by cases hb; rfl) (by decide) (fun x hx => by cases hx) _ rfl rfl rfl rfl rfl 10 (by decide)
  rw [model_add] at hex hn hE
  exact ⟨m', loc', bl', gl', fa', by simpa using hex, hG, by simpa [Econf.addGroup] using hn, by simpa using hE 0 (by simp)⟩

end LeafKf.Example
