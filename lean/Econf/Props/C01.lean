import Econf.Lemmas.LayeredLemmas
import Econf.Props.C03

/-!
  C01 — layered lookup yields the vendor < /run < /etc precedence for every tree.

  The statement is split along the sentence of the property:
  * main file only from the highest-priority layer that has one, an empty file or a link to
    /dev/null counting as present: `C01_main_skip_absent`, `C01_main_first_present`;
  * drop-ins layer by layer in ascending priority (`C01_layer_order`), inside a directory in
    byte-wise name order and only those carrying the suffix (`C01_dir_order`);
  * later files override earlier ones key by key, a drop-in is ignored completely when a later
    consulted file has its name: `C01_lookup`, `C01_masked_ignored`;
  * no file at all: file-not-found (`C01_nofile`); no name at all: refused (`C01_null_refused`).
  Known finding F14: the first file of the list is never masked (`mergeHistory` takes it
  unconditionally), which is what the implementation does — see known_findings.json.
-/

set_option linter.unusedSimpArgs false

namespace Econf

/-- the files that take part in the merge after the first one: those not masked by a later file -/
def unmaskedList : List KeyFile → List KeyFile
  | [] => []
  | k :: ks => if masked k ks then unmaskedList ks else k :: unmaskedList ks

theorem mergeRest_eq_foldl (acc : KeyFile) (ks : List KeyFile) :
    mergeRest acc ks = (unmaskedList ks).foldl mergeFiles acc := by
  induction ks generalizing acc with
  | nil => rfl
  | cons k ks ih =>
    simp only [mergeRest, unmaskedList]
    split
    · exact ih acc
    · simp only [List.foldl_cons]; exact ih _

/-- the last file of a list that defines (section, key) -/
def lastDefining (fs : List KeyFile) (g k : Str) : Option KeyFile := fs.reverse.find? (fun f => defines f.entries g k)

theorem lookup_foldl_merge (acc : KeyFile) (fs : List KeyFile) (g k : Str) :
    lookupTxt (fs.foldl mergeFiles acc).entries g k =
      match lastDefining fs g k with
      | some f => lookupTxt f.entries g k
      | none => lookupTxt acc.entries g k := by
  induction fs generalizing acc with
  | nil => rfl
  | cons x xs ih =>
    simp only [List.foldl_cons]
    rw [ih (mergeFiles acc x)]
    unfold lastDefining
    simp only [List.reverse_cons, List.find?_append]
    cases hx : xs.reverse.find? (fun f => defines f.entries g k) with
    | some f => simp
    | none =>
      simp only [Option.none_or, List.find?_cons, List.find?_nil]
      have hm : (mergeFiles acc x).entries = mergeEntries acc.entries x.entries := rfl
      rw [hm, C03_lookup]
      cases hd : defines x.entries g k <;> simp

/-- C01: the merged result of a history.  For every (section, key): the value comes from the last
    consulted file (after the first) that is not masked and defines the key — later files override
    earlier ones key by key — and from the first file otherwise. -/
theorem C01_lookup (first : KeyFile) (rest : List KeyFile) (g k : Str) :
    lookupTxt (mergeRest first rest).entries g k =
      match lastDefining (unmaskedList rest) g k with
      | some f => lookupTxt f.entries g k
      | none => lookupTxt first.entries g k := by
  rw [mergeRest_eq_foldl]; exact lookup_foldl_merge _ _ _ _

/-- a drop-in is ignored completely when a later consulted file has its name -/
theorem C01_masked_ignored (acc k : KeyFile) (ks : List KeyFile) (h : masked k ks = true) :
    mergeRest acc (k :: ks) = mergeRest acc ks := by
  simp [mergeRest, h]


/-- absent main-file candidates are passed over without any effect -/
theorem C01_main_skip_absent (ctx : RdCtx) (join python : Bool) (delim comment : Str) (s : RdState) (pre rest : List Str)
    (h : ∀ q ∈ pre, ctx.fs.lstat q = none) :
    readFirst ctx join python delim comment s (pre ++ rest) = readFirst ctx join python delim comment s rest := by
  induction pre with
  | nil => rfl
  | cons q qs ih =>
    have hq : readFileCB ctx s join python q delim comment = (s, .error .nofile) := by
      unfold readFileCB; simp only [h q List.mem_cons_self]
    simp only [List.cons_append, readFirst, hq]
    exact ih (fun x hx => h x (List.mem_cons_of_mem _ hx))

/-- the first candidate that can be read is the main file; the lower layers are not looked at -/
theorem C01_main_first_present (ctx : RdCtx) (join python : Bool) (delim comment : Str) (s : RdState) (p : Str) (rest : List Str)
    (kf : KeyFile) (h : (readFileCB ctx s join python p delim comment).2 = .ok kf) :
    readFirst ctx join python delim comment s (p :: rest) = ((readFileCB ctx s join python p delim comment).1, .ok (some kf)) := by
  simp only [readFirst]
  rw [pair_eta _ _ h]

/-- the candidates are the layers from the highest priority down -/
theorem C01_main_candidates (dirs : List Str) (d : Str) (name sfx : Str) :
    mainCandidates (dirs ++ [d]) name sfx = (d ++ SLASH :: name ++ sfx) :: mainCandidates dirs name sfx := by
  simp [mainCandidates]

/-- drop-ins: layer by layer in ascending priority, per layer the drop-in directories in their order -/
theorem C01_layer_order (fs : FS) (d : Str) (ds : List Str) (name sfx : Str) (postfixes : List Str) :
    dropinPaths fs (d :: ds) name sfx postfixes =
      postfixes.flatMap (fun q => dropinsOfDir fs (d ++ SLASH :: name ++ q) sfx) ++ dropinPaths fs ds name sfx postfixes := by
  simp [dropinPaths]

/-- inside a directory: byte-wise name order; exactly the entries (with `.` and `..`) that are
    strictly longer than the suffix and end with it -/
theorem C01_dir_order (fs : FS) (dir sfx : Str) (names : List Str) (h : fs.scandir dir = some names) :
    dropinsOfDir fs dir sfx = (names.filter (fun n => sfx.length < n.length && endsWith n sfx)).map (fun n => dir ++ SLASH :: n) ∧
    names.Pairwise strLe := by
  refine ⟨by simp [dropinsOfDir, h], ?_⟩
  unfold FS.scandir at h
  split at h
  · simp only [Option.some.injEq] at h
    rw [← h]; exact sortNames_sorted _
  · cases h

/-- when no file at all exists the call reports file-not-found -/
theorem C01_nofile (ctx : RdCtx) (s : RdState) (dirs : List Str) (name : Str) (suffix : Option Str) (delim comment : Str)
    (join python : Bool) (confDirs : List Str)
    (hmain : ∀ q ∈ mainCandidates dirs name (dotSuffix (some name) suffix), ctx.fs.lstat q = none)
    (hdrop : dropinPaths ctx.fs dirs name (dotSuffix (some name) suffix)
       (if confDirs.isEmpty then [dotSuffix (some name) suffix ++ [0x2e, 0x64]] else confDirs) = []) :
    (readHistory ctx s dirs (some name) suffix (some delim) comment join python confDirs).2 = .error (.nofile, true) := by
  unfold readHistory
  simp only [hdrop, readSeq]
  have hm := C01_main_skip_absent ctx join python delim comment s _ [] hmain
  simp only [List.append_nil, readFirst] at hm
  by_cases hne : name.isEmpty = true
  · simp [hne]
  · simp [hne, hm]

/-- both project and configuration name absent: refused with an error code, nothing is read -/
theorem C01_null_refused (ctx : RdCtx) (s : RdState) (slot : Option KeyFile) (usrSubdir suffix : Option Str) (delim : Option Str) (comment : Str) :
    (readConfig ctx s slot none usrSubdir none suffix delim comment).2.1 ≠ .success ∧
    (readConfig ctx s slot none usrSubdir none suffix delim comment).1 = s := by
  unfold readConfig prepareConfig readConfigCore readHistory
  cases delim <;> simp

/-- non-vacuity: three layers, /etc has an empty main file that silences the vendor one; the drop-in
    `9-a` sorts after `10-a` byte-wise and overrides it -/
example :
    let fs : FS := ((((({} : FS).add [0x2f,0x75,0x2f,0x63] (.file [0x6b,0x3d,0x75,0x0a] 0 0)).add
      [0x2f,0x65,0x2f,0x63] (.file [] 0 0)).add
      [0x2f,0x75,0x2f,0x63,0x2e,0x64,0x2f,0x31,0x30,0x2d,0x61] (.file [0x6b,0x3d,0x31,0x30,0x0a] 0 0)).add
      [0x2f,0x75,0x2f,0x63,0x2e,0x64,0x2f,0x39,0x2d,0x61] (.file [0x6b,0x3d,0x39,0x0a] 0 0))
    let r := readConfigCore { fs := fs, cb := none } { g := {} } { parseDirs := [[0x2f,0x75], [0x2f,0x65]] } (some [0x63]) none (some [0x3d]) [0x23]
    (match r.2 with
     | .ok m => lookupTxt m.entries NONE [0x6b] == some [0x39]
     | .error _ => false) = true := by decide

/-! ### known finding F14, stated outright

The property asks that a drop-in be ignored completely when a later consulted file has its name.
`C01_lookup` proves this for every file of the list **but the first** – it is the `…_partial` form of
the claim: the full claim is false of the model and of the implementation alike when no main file
exists and the first drop-in is masked.  The witness below is the negation on a concrete history
(kernel-checked); the scenario `f14witness` of `checks/C01.py` replays the same situation on the library on every run, and
`tests/tst-getconfdirs5` pins the behaviour, which is why it is a known finding and not a repair. -/

/-- `/usr/etc/p.d/a.conf` (`only=1`) and `/etc/p.d/a.conf` (`x=2`), no main file: the first drop-in has
    the name of a later one and yet its key is in the merged result -/
theorem C01_F14_witness :
    let first : KeyFile := { entries := [⟨NONE, [0x6f, 0x6e, 0x6c, 0x79], some [0x31], none, none, 1, false⟩], groups := [NONE],
                             path := some [0x2f, 0x75, 0x73, 0x72, 0x2f, 0x65, 0x74, 0x63, 0x2f, 0x70, 0x2e, 0x64, 0x2f, 0x61, 0x2e, 0x63, 0x6f, 0x6e, 0x66] }
    let later : KeyFile := { entries := [⟨NONE, [0x78], some [0x32], none, none, 1, false⟩], groups := [NONE],
                             path := some [0x2f, 0x65, 0x74, 0x63, 0x2f, 0x70, 0x2e, 0x64, 0x2f, 0x61, 0x2e, 0x63, 0x6f, 0x6e, 0x66] }
    masked first [later] = true ∧
    lookupTxt (mergeRest first [later]).entries NONE [0x6f, 0x6e, 0x6c, 0x79] = some [0x31] := by decide

end Econf
