import Econf.KeyFileOps

/-!
  C11 — the set/get/list API behaves as an ordered map from (section, key) to text.

  `OMap` is the reference: an insertion-ordered association list plus the list of registered
  section names.  `abs` maps a model object to it; every operation of the model commutes with
  `abs` and returns what the reference returns (`C11_step`), hence so does every operation
  sequence of any length from any starting object (`C11_refines`).  The algebraic laws users
  rely on (`C11_get_set_same`, `C11_get_set_other`, `C11_keys_set`) are proved on the model
  directly.
-/

set_option linter.unusedSimpArgs false

namespace Econf

/-! ### reference ordered map -/

abbrev GK := Str × Str

structure OMap where
  items : List (GK × Option Str) := []
  sections : List Str := []
  deriving DecidableEq, Repr

def OMap.get (m : OMap) (gk : GK) : Option (Option Str) := (m.items.find? (fun p => p.1 == gk)).map (·.2)

def replaceFirst (gk : GK) (v : Str) : List (GK × Option Str) → List (GK × Option Str)
  | [] => []
  | p :: ps => if p.1 == gk then (gk, some v) :: ps else p :: replaceFirst gk v ps

/-- a set creates or replaces exactly one entry; a new section is registered behind the others -/
def OMap.set (m : OMap) (gk : GK) (v : Str) : OMap :=
  if (m.get gk).isSome then { m with items := replaceFirst gk v m.items }
  else { items := m.items ++ [(gk, some v)], sections := addGroup (addGroup m.sections NONE) gk.1 }

def OMap.keys (m : OMap) (g : Str) : List Str := (m.items.filter (fun p => p.1.1 == g)).map (·.1.2)

def OMap.sectionList (m : OMap) : List Str := m.sections.filter (· != NONE)

/-- abstraction of a model object -/
def abs (kf : KeyFile) : OMap :=
  { items := kf.entries.map (fun e => ((e.group, e.key), e.value)), sections := kf.groups }

/-! ### helper lemmas -/

theorem gk_beq (a b c d : Str) : (((a, b) : GK) == (c, d)) = (a == c && b == d) := rfl

theorem find_abs (es : List Entry) (g k : Str) :
    ((es.map (fun e => ((e.group, e.key), e.value))).find? (fun p => p.1 == (g, k))).map (·.2) =
      (es.find? (fun e => e.group == g && e.key == k)).map (·.value) := by
  induction es with
  | nil => rfl
  | cons e es ih =>
    simp only [List.map_cons, List.find?_cons, gk_beq]
    cases hc : (e.group == g && e.key == k)
    · exact ih
    · rfl

theorem findIdx_isSome (es : List Entry) (g k : Str) :
    (findIdx es g k).isSome = (es.find? (fun e => e.group == g && e.key == k)).isSome := by
  unfold findIdx
  induction es with
  | nil => rfl
  | cons e es ih =>
    simp only [List.findIdx?_cons, List.find?_cons]
    cases hc : (e.group == g && e.key == k)
    · simp only [Bool.false_eq_true, if_false, Option.isSome_map]; exact ih
    · rfl

theorem findIdx_get (es : List Entry) (g k : Str) :
    ((findIdx es g k).bind (fun i => (es[i]?).bind (·.value))) =
      ((es.find? (fun e => e.group == g && e.key == k)).bind (·.value)) := by
  unfold findIdx
  induction es with
  | nil => rfl
  | cons e es ih =>
    simp only [List.findIdx?_cons, List.find?_cons]
    cases h : (e.group == g && e.key == k)
    · simp only [Bool.false_eq_true, if_false]
      cases hh : List.findIdx? (fun e => e.group == g && e.key == k) es with
      | none => rw [hh] at ih; simpa using ih
      | some i => rw [hh] at ih; simpa using ih
    · simp
theorem setFirst_abs (es : List Entry) (g k v : Str) :
    ((setFirst g k v es).getD es).map (fun e => ((e.group, e.key), e.value)) =
      replaceFirst (g, k) v (es.map (fun e => ((e.group, e.key), e.value))) := by
  induction es with
  | nil => rfl
  | cons e es ih =>
    unfold setFirst
    simp only [List.map_cons, replaceFirst]
    rw [gk_beq]
    cases h : (e.group == g && e.key == k)
    · simp only [Bool.false_eq_true, if_false]
      cases hs : setFirst g k v es with
      | none => rw [hs] at ih; simpa using ih
      | some l => rw [hs] at ih; simpa using ih
    · simp only [if_true, Option.getD_some, List.map_cons]
      simp only [Bool.and_eq_true, beq_iff_eq] at h
      simp [h.1, h.2]

/-! ### the operations commute with the abstraction -/

/-- set with a valid key -/
theorem C11_set (kf : KeyFile) (g : Option Str) (k v : Str) (hk : k ≠ []) :
    abs (setValue kf g (some k) (.ok v)).1 = (abs kf).set (normGroup g, k) v ∧
    (setValue kf g (some k) (.ok v)).2 = .success := by
  have hke : k.isEmpty = false := by cases k <;> simp_all
  unfold setValue
  simp only [hke, Bool.false_eq_true, if_false]
  have hsome : ((abs kf).get (normGroup g, k)).isSome = (findIdx kf.entries (normGroup g) k).isSome := by
    unfold OMap.get abs
    rw [find_abs, findIdx_isSome]; simp
  unfold OMap.set
  rw [hsome]
  cases hf : (findIdx kf.entries (normGroup g) k).isSome
  · simp only [Bool.false_eq_true, if_false]
    exact ⟨by simp [abs, freshEntry], by first | rfl | trivial⟩
  · simp only [if_true]
    refine ⟨?_, by first | rfl | trivial⟩
    simp only [abs]
    rw [setFirst_abs]

/-- string getter with a valid key: the text last set, or key-not-found -/
theorem C11_get (kf : KeyFile) (g : Option Str) (k : Str) (hk : k ≠ []) :
    getString kf g (some k) =
      match (abs kf).get (normGroup g, k) with
      | some v => .ok v
      | none => .error .nokey := by
  have hke : k.isEmpty = false := by cases k <;> simp_all
  unfold getString findKey
  simp only [hke, Bool.false_eq_true, if_false]
  have hget : (abs kf).get (normGroup g, k) =
      (kf.entries.find? (fun e => e.group == normGroup g && e.key == k)).map (·.value) := by
    unfold OMap.get abs; exact find_abs _ _ _
  rw [hget]
  have h1 := findIdx_isSome kf.entries (normGroup g) k
  have h2 := findIdx_get kf.entries (normGroup g) k
  cases hi : findIdx kf.entries (normGroup g) k with
  | none =>
    rw [hi] at h1
    cases hf : kf.entries.find? (fun e => e.group == normGroup g && e.key == k) with
    | none => rfl
    | some e => rw [hf] at h1; simp at h1
  | some i =>
    rw [hi] at h1 h2
    cases hf : kf.entries.find? (fun e => e.group == normGroup g && e.key == k) with
    | none => rw [hf] at h1; simp at h1
    | some e =>
      rw [hf] at h2
      simp only [Option.bind_some] at h2
      simp only [Option.map_some]
      rw [h2]

/-- key listing -/
theorem C11_keys (kf : KeyFile) (g : Option Str) :
    getKeys kf g = if ((abs kf).keys (rawGroup g)).isEmpty then .error .nokey else .ok ((abs kf).keys (rawGroup g)) := by
  unfold getKeys OMap.keys abs
  simp only [List.filter_map, List.map_map]
  rfl

/-- section listing -/
theorem C11_groups (kf : KeyFile) :
    getGroups kf = if (abs kf).sections.isEmpty then .error .nogroup else .ok (abs kf).sectionList := rfl

/-- refused calls (no key, empty key) have no effect -/
theorem C11_refused (kf : KeyFile) (g : Option Str) (txt : Except Err Str) :
    setValue kf g none txt = (kf, .emptykey) ∧ setValue kf g (some []) txt = (kf, .emptykey) := ⟨rfl, rfl⟩

/-- a section name with or without surrounding brackets denotes the same section;
    absent and empty names mean group-less -/
theorem C11_brackets (a : Str) (h : RBR ∉ a) :
    normGroup (some (LBR :: a ++ [RBR])) = normGroup (some a) ∧ normGroup none = NONE ∧ normGroup (some []) = NONE := by
  refine ⟨?_, rfl, rfl⟩
  have htw : (a ++ [RBR]).takeWhile (· != RBR) = a := by
    induction a with
    | nil => simp [RBR]
    | cons x xs ih =>
      have hx : x ≠ RBR := fun hh => h (by simp [hh])
      have hxs : RBR ∉ xs := fun hh => h (by simp [hh])
      simp [List.takeWhile_cons, hx, ih hxs]
  have hlast : (LBR :: (a ++ [RBR])).getLast? = some RBR := by
    rw [← List.cons_append, List.getLast?_append]; simp
  have hstrip1 : stripBrackets (LBR :: (a ++ [RBR])) = a := by
    unfold stripBrackets
    simp [htw, hlast]
  have hstrip2 : stripBrackets a = a := by
    unfold stripBrackets
    cases a with
    | nil => rfl
    | cons c cs =>
      have : (c :: cs).getLast? ≠ some RBR := by
        intro hh
        have := List.mem_of_getLast? hh
        exact h this
      simp [this]
  unfold normGroup
  simp only [hstrip2]
  rw [show (LBR :: a ++ [RBR]) = LBR :: (a ++ [RBR]) from rfl, hstrip1]

/-! ### laws of the reference map, and their transfer -/

theorem OMap.get_set_same (m : OMap) (gk : GK) (v : Str) : (m.set gk v).get gk = some (some v) := by
  unfold OMap.set
  cases h : (m.get gk).isSome
  · simp only [Bool.false_eq_true, if_false]
    unfold OMap.get at h ⊢
    simp only [Option.isSome_map] at h
    have hn : m.items.find? (fun p => p.1 == gk) = none := by
      cases hh : m.items.find? (fun p => p.1 == gk) <;> simp_all
    simp [List.find?_append, hn]
  · simp only [if_true]
    unfold OMap.get at h ⊢
    simp only
    generalize m.items = l at h
    induction l with
    | nil => simp at h
    | cons p ps ih =>
      simp only [replaceFirst]
      cases hp : p.1 == gk
      · simp only [Bool.false_eq_true, if_false, List.find?_cons, hp]
        apply ih
        simpa [List.find?_cons, hp] using h
      · simp [List.find?_cons]

theorem OMap.get_set_other (m : OMap) (gk gk' : GK) (v : Str) (hne : gk' ≠ gk) :
    (m.set gk v).get gk' = m.get gk' := by
  have hb : (gk == gk') = false := by simpa using (fun h => hne h.symm)
  unfold OMap.set
  cases h : (m.get gk).isSome
  · simp only [Bool.false_eq_true, if_false]
    unfold OMap.get
    simp only [List.find?_append, List.find?_cons, hb]
    cases m.items.find? (fun p => p.1 == gk') <;> simp
  · simp only [if_true]
    unfold OMap.get
    simp only
    generalize m.items = l
    induction l with
    | nil => rfl
    | cons p ps ih =>
      simp only [replaceFirst]
      cases hp : p.1 == gk
      · simp only [Bool.false_eq_true, if_false, List.find?_cons]
        cases hp' : p.1 == gk'
        · simpa using ih
        · simp
      · simp only [if_true, List.find?_cons, hb]
        have : (p.1 == gk') = false := by
          have := eq_of_beq hp
          rw [this]; exact hb
        simp [this]

/-- a get returns the text last set -/
theorem C11_get_set_same (kf : KeyFile) (g : Option Str) (k v : Str) (hk : k ≠ []) :
    getString (setValue kf g (some k) (.ok v)).1 g (some k) = .ok (some v) := by
  rw [C11_get _ _ _ hk, (C11_set kf g k v hk).1, OMap.get_set_same]

/-- a set leaves every other (section, key) as it was -/
theorem C11_get_set_other (kf : KeyFile) (g g' : Option Str) (k k' v : Str) (hk : k ≠ []) (hk' : k' ≠ [])
    (hne : (normGroup g', k') ≠ (normGroup g, k)) :
    getString (setValue kf g (some k) (.ok v)).1 g' (some k') = getString kf g' (some k') := by
  rw [C11_get _ _ _ hk', C11_get _ _ _ hk', (C11_set kf g k v hk).1, OMap.get_set_other _ _ _ _ hne]

/-- insertion order: a set of a new key appends it to the key list of its section, a set of an
    existing key leaves every key list as it is -/
theorem C11_keys_set (kf : KeyFile) (g : Option Str) (k v : Str) (hk : k ≠ []) (s : Str) :
    (abs (setValue kf g (some k) (.ok v)).1).keys s =
      if ((abs kf).get (normGroup g, k)).isSome then (abs kf).keys s
      else if s = normGroup g then (abs kf).keys s ++ [k] else (abs kf).keys s := by
  rw [(C11_set kf g k v hk).1]
  unfold OMap.set
  cases h : ((abs kf).get (normGroup g, k)).isSome
  · simp only [Bool.false_eq_true, if_false]
    unfold OMap.keys
    simp only [List.filter_append, List.map_append, List.filter_cons, List.filter_nil]
    by_cases hs : s = normGroup g
    · subst hs; simp
    · have : (normGroup g == s) = false := by simpa using (fun hh => hs hh.symm)
      simp [this, hs]
  · simp only [if_true]
    unfold OMap.keys
    simp only
    generalize (abs kf).items = l
    induction l with
    | nil => rfl
    | cons p ps ih =>
      simp only [replaceFirst]
      cases hp : p.1 == (normGroup g, k)
      · simp only [Bool.false_eq_true, if_false, List.filter_cons]
        cases (p.1.1 == s) <;> simp [ih]
      · simp only [if_true, List.filter_cons]
        have := eq_of_beq hp
        rw [this]
        cases (normGroup g == s) <;> simp [this]

/-- a defaulted get returns the default exactly when the key is absent -/
def getStringDef (kf : KeyFile) (g k : Option Str) (d : Option Str) : Err × Option Str :=
  match getString kf g k with
  | .ok v => (.success, v)
  | .error .nokey => (.nokey, d)
  | .error e => (e, none)

theorem C11_default (kf : KeyFile) (g : Option Str) (k : Str) (d : Option Str) (hk : k ≠ []) :
    getStringDef kf g (some k) d =
      match (abs kf).get (normGroup g, k) with
      | some v => (.success, v)
      | none => (.nokey, d) := by
  unfold getStringDef
  rw [C11_get kf g k hk]
  cases (abs kf).get (normGroup g, k) <;> rfl

/-! ### operation sequences -/

inductive Op where
  | set (g : Option Str) (k : Str) (v : Str)
  | get (g : Option Str) (k : Str)
  | getDef (g : Option Str) (k : Str) (d : Option Str)
  | keys (g : Option Str)
  | sections

inductive Out where
  | code (e : Err)
  | text (e : Err) (v : Option Str)
  | list (e : Err) (l : List Str)
  deriving DecidableEq

/-- a step of the model -/
def stepModel (kf : KeyFile) : Op → KeyFile × Out
  | .set g k v => let r := setValue kf g (some k) (.ok v); (r.1, .code r.2)
  | .get g k => (kf, match getString kf g (some k) with
      | .ok v => .text .success v
      | .error e => .text e none)
  | .getDef g k d => (kf, let r := getStringDef kf g (some k) d; .text r.1 r.2)
  | .keys g => (kf, match getKeys kf g with
      | .ok l => .list .success l
      | .error e => .list e [])
  | .sections => (kf, match getGroups kf with
      | .ok l => .list .success l
      | .error e => .list e [])

/-- a step of the reference (keys are non-empty: calls with an empty key are refused, `C11_refused`) -/
def stepSpec (m : OMap) : Op → OMap × Out
  | .set g k v => (m.set (normGroup g, k) v, .code .success)
  | .get g k => (m, match m.get (normGroup g, k) with
      | some v => .text .success v
      | none => .text .nokey none)
  | .getDef g k d => (m, match m.get (normGroup g, k) with
      | some v => .text .success v
      | none => .text .nokey d)
  | .keys g => (m, if (m.keys (rawGroup g)).isEmpty then .list .nokey [] else .list .success (m.keys (rawGroup g)))
  | .sections => (m, if m.sections.isEmpty then .list .nogroup [] else .list .success m.sectionList)

def Op.valid : Op → Prop
  | .set _ k _ => k ≠ []
  | .get _ k => k ≠ []
  | .getDef _ k _ => k ≠ []
  | _ => True

theorem C11_step (kf : KeyFile) (op : Op) (h : op.valid) :
    abs (stepModel kf op).1 = (stepSpec (abs kf) op).1 ∧ (stepModel kf op).2 = (stepSpec (abs kf) op).2 := by
  cases op with
  | set g k v =>
    have := C11_set kf g k v h
    exact ⟨this.1, by simp [stepModel, stepSpec, this.2]⟩
  | get g k =>
    refine ⟨rfl, ?_⟩
    simp only [stepModel, stepSpec]
    rw [C11_get kf g k h]
    cases (abs kf).get (normGroup g, k) <;> rfl
  | getDef g k d =>
    refine ⟨rfl, ?_⟩
    simp only [stepModel, stepSpec]
    rw [C11_default kf g k d h]
    cases (abs kf).get (normGroup g, k) <;> rfl
  | keys g =>
    refine ⟨rfl, ?_⟩
    simp only [stepModel, stepSpec]
    rw [C11_keys]
    cases ((abs kf).keys (rawGroup g)).isEmpty <;> rfl
  | sections =>
    refine ⟨rfl, ?_⟩
    simp only [stepModel, stepSpec]
    rw [C11_groups]
    cases (abs kf).sections.isEmpty <;> rfl

def runModel (kf : KeyFile) : List Op → KeyFile × List Out
  | [] => (kf, [])
  | op :: ops => let r := stepModel kf op; let rest := runModel r.1 ops; (rest.1, r.2 :: rest.2)

def runSpec (m : OMap) : List Op → OMap × List Out
  | [] => (m, [])
  | op :: ops => let r := stepSpec m op; let rest := runSpec r.1 ops; (rest.1, r.2 :: rest.2)

/-- every operation sequence, of any length, from any object (fresh or parsed): all outputs equal
    those of the reference ordered map, and the final states correspond -/
theorem C11_refines (kf : KeyFile) (ops : List Op) (h : ∀ op ∈ ops, op.valid) :
    abs (runModel kf ops).1 = (runSpec (abs kf) ops).1 ∧ (runModel kf ops).2 = (runSpec (abs kf) ops).2 := by
  induction ops generalizing kf with
  | nil => exact ⟨rfl, rfl⟩
  | cons op ops ih =>
    have hs := C11_step kf op (h op List.mem_cons_self)
    have hr := ih (stepModel kf op).1 (fun o ho => h o (List.mem_cons_of_mem _ ho))
    simp only [runModel, runSpec]
    rw [hs.1] at hr
    exact ⟨hr.1, by rw [hs.2, hr.2]⟩

/-- the three starting points correspond to the empty map (`econf_newKeyFile` has the group-less
    pseudo section registered already) -/
theorem C11_fresh : (abs {}).items = [] ∧ (abs (newKeyFile 0x3D 0x23)).items = [] ∧ (abs newIniFile).items = [] ∧
    (abs (newKeyFile 0x3D 0x23)).sectionList = [] := by decide

/-- non-vacuity: creation, overwrite, lookup miss and growth on a concrete sequence -/
example :
    let A : Str := [0x41]; let x : Str := [0x78]; let y : Str := [0x79]
    let ops := [Op.set (some A) x [0x31], .set none y [0x32], .set (some (LBR :: A ++ [RBR])) x [0x33], .get (some A) x,
                .get (some A) y, .keys (some A), .sections]
    (runModel newIniFile ops).2 =
      [.code .success, .code .success, .code .success, .text .success (some [0x33]), .text .nokey none,
       .list .success [x], .list .success [A]] := by decide

end Econf
