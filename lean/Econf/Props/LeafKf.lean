import Econf.Props.Leaf
import Econf.Merge
import Econf.KeyFileOps
import Generated.LeafFns

/-!
  # The functions over the entry array of an `econf_file`, on the terms generated from the C source

  `has_group`, `first_entry`, `first_definition` (lib/mergefiles.c) are translated by gen/c2lean.py on every run
  (`Generated/LeafFns.lean`); struct members are word slots of the interpreter's memory (`MiniC.Block.slots`).
  For every entry array, every group and key: no access outside the array of `length` entries, no change of memory,
  and the result is what the list-level model (`Econf.findIdx`, `Econf.hasGroup`) says.
-/
open MiniC Leaf
set_option linter.unusedSimpArgs false
set_option linter.unusedVariables false
namespace LeafKf

/-- a loop whose body returns in round `n`, after `n` ordinary rounds -/
theorem loop_ret (test : St → R (Bool × St)) (body : St → Outcome) (step : St → R St) :
    ∀ (n : Nat) (P : Nat → St) (v : Val) (R : St),
    (∀ i, i < n → test (P i) = .ok (true, P i) ∧ ∃ Q, (body (P i) = .normal Q ∨ body (P i) = .cont Q) ∧ step Q = .ok (P (i + 1))) →
    test (P n) = .ok (true, P n) → body (P n) = .ret v R → ∀ fuel, n < fuel → loop test body step fuel (P 0) = .ret v R := by
  intro n
  induction n with
  | zero =>
    intro P v R _ ht hb fuel hf
    obtain ⟨f, rfl⟩ : ∃ f, fuel = f + 1 := ⟨fuel - 1, by omega⟩
    simp [loop, ht, hb]
  | succ n ih =>
    intro P v R hstep ht hb fuel hf
    obtain ⟨f, rfl⟩ : ∃ f, fuel = f + 1 := ⟨fuel - 1, by omega⟩
    obtain ⟨ht0, Q, hb0, hs⟩ := hstep 0 (by omega)
    have := ih (fun i => P (i + 1)) v R (fun i hi => hstep (i + 1) (by omega)) ht hb f (by omega)
    rcases hb0 with hb0 | hb0 <;> simp [loop, ht0, hb0, hs, this]

theorem cstrFrom_nz : ∀ (l : List (Option UInt8)) (s : List UInt8), cstrFrom l = .ok s → (0 : UInt8) ∉ s
  | [], s, h => by simp [cstrFrom] at h
  | none :: _, s, h => by simp [cstrFrom] at h
  | some c :: rest, s, h => by
    simp only [cstrFrom] at h
    by_cases hc : c = 0
    · subst hc
      simp at h
      subst h; simp
    · have hc' : (c == 0) = false := by simpa using hc
      simp only [hc', Bool.false_eq_true, if_false] at h
      cases hr : cstrFrom rest with
      | error e => simp [hr, Except.map] at h
      | ok r =>
        simp only [hr, Except.map] at h
        injection h with h
        subst h
        have := cstrFrom_nz rest r hr
        intro hm
        rcases List.mem_cons.1 hm with h0 | h0
        · exact hc h0.symm
        · exact this h0

theorem cstr_nz {m : Mem} {b : Nat} {o : Int} {s : List UInt8} (h : m.cstr b o = .ok s) : (0 : UInt8) ∉ s := by
  simp only [Mem.cstr, bind, Except.bind] at h
  split at h
  · simp at h
  · split at h
    · simp at h
    · split at h
      · exact cstrFrom_nz _ _ h
      · simp at h

theorem cmpBytes_eq_zero : ∀ (s t : List UInt8), (0 : UInt8) ∉ s → (0 : UInt8) ∉ t → (cmpBytes s t = 0 ↔ s = t)
  | [], [], _, _ => by simp [cmpBytes]
  | [], b :: bs, _, ht => by
    simp only [cmpBytes, reduceCtorEq, iff_false]
    intro h0
    apply ht
    have : b = 0 := UInt8.toNat_inj.1 (by simp; omega)
    simp [this]
  | a :: as, [], hs, _ => by
    simp only [cmpBytes, reduceCtorEq, iff_false]
    intro h0
    apply hs
    have : a = 0 := UInt8.toNat_inj.1 (by simp; omega)
    simp [this]
  | a :: as, b :: bs, hs, ht => by
    simp only [cmpBytes]
    have hs' : (0 : UInt8) ∉ as := fun h => hs (List.mem_cons_of_mem _ h)
    have ht' : (0 : UInt8) ∉ bs := fun h => ht (List.mem_cons_of_mem _ h)
    by_cases h : a = b
    · subst h; simp [cmpBytes_eq_zero as bs hs' ht']
    · have : (a == b) = false := by simpa using h
      simp only [this, Bool.false_eq_true, if_false, List.cons.injEq, h, false_and, iff_false]
      intro h0
      apply h
      apply UInt8.toNat_inj.1
      omega

/-- (group, key) of every element of the entry array -/
abbrev Ents := List (List UInt8 × List UInt8)

/-- block `bk` holds an `econf_file` whose `file_entry` member points at block `be`, an array of exactly
    `length = ents.length` entries (7 words each) whose group and key members point at the C strings of `ents` -/
structure KfMem (m : Mem) (bk be : Nat) (ents : Ents) : Prop where
  kf : ∃ blk, m[bk]? = some blk ∧ blk.live = true ∧ blk.slots[0]? = some (.ptr be 0) ∧ blk.slots[1]? = some (.int ents.length)
  arr : ∃ blk, m[be]? = some blk ∧ blk.live = true ∧ blk.slots.length = 7 * ents.length ∧
    ∀ i (h : i < ents.length), ∃ bg bq, blk.slots[7 * i]? = some (.ptr bg 0) ∧ blk.slots[7 * i + 1]? = some (.ptr bq 0) ∧
      m.cstr bg 0 = .ok (ents[i]).1 ∧ m.cstr bq 0 = .ok (ents[i]).2

theorem KfMem.len {m bk be ents} (h : KfMem m bk be ents) : m.loadSlot bk 1 = .ok (.int ents.length) := by
  obtain ⟨blk, h1, h2, _, h4⟩ := h.kf
  simp [Mem.loadSlot, Mem.block, h1, h2, h4, bind, Except.bind]

theorem KfMem.arrp {m bk be ents} (h : KfMem m bk be ents) : m.loadSlot bk 0 = .ok (.ptr be 0) := by
  obtain ⟨blk, h1, h2, h3, _⟩ := h.kf
  simp [Mem.loadSlot, Mem.block, h1, h2, h3, bind, Except.bind]

theorem KfMem.sidx {m bk be ents} (h : KfMem m bk be ents) (i : Nat) (hi : i ≤ ents.length) :
    slotAdd m be 0 ((i : Int) * 7) = .ok (.ptr be ((i : Int) * 7)) := by
  obtain ⟨blk, h1, h2, h3, _⟩ := h.arr
  have : (0 : Int) ≤ (i : Int) * 7 ∧ (i : Int) * 7 ≤ (blk.slots.length : Int) := by rw [h3]; omega
  simp [slotAdd, Mem.block, h1, h2, this, bind, Except.bind]

theorem KfMem.group {m bk be ents} (h : KfMem m bk be ents) (i : Nat) (hi : i < ents.length) :
    ∃ bg, m.loadSlot be ((i : Int) * 7) = .ok (.ptr bg 0) ∧ m.cstr bg 0 = .ok (ents[i]).1 := by
  obtain ⟨blk, h1, h2, h3, h4⟩ := h.arr
  obtain ⟨bg, bq, e1, e2, e3, e4⟩ := h4 i hi
  refine ⟨bg, ?_, e3⟩
  have hn : ¬ ((i : Int) * 7 < 0) := by omega
  have ht : ((i : Int) * 7).toNat = 7 * i := by omega
  simp [Mem.loadSlot, Mem.block, h1, h2, hn, ht, e1, bind, Except.bind]

theorem KfMem.key {m bk be ents} (h : KfMem m bk be ents) (i : Nat) (hi : i < ents.length) :
    ∃ bq, m.loadSlot be ((i : Int) * 7 + 1) = .ok (.ptr bq 0) ∧ m.cstr bq 0 = .ok (ents[i]).2 := by
  obtain ⟨blk, h1, h2, h3, h4⟩ := h.arr
  obtain ⟨bg, bq, e1, e2, e3, e4⟩ := h4 i hi
  refine ⟨bq, ?_, e4⟩
  have hn : ¬ ((i : Int) * 7 + 1 < 0) := by omega
  have ht : ((i : Int) * 7 + 1).toNat = 7 * i + 1 := by omega
  simp [Mem.loadSlot, Mem.block, h1, h2, hn, ht, e2, bind, Except.bind]

/-- index of the first entry with the given group and key; the number of entries when there is none -/
def firstIdx (ents : Ents) (g k : List UInt8) : Nat := (ents.takeWhile (fun e => !(e.1 == g && e.2 == k))).length

theorem firstIdx_le (ents : Ents) (g k) : firstIdx ents g k ≤ ents.length := by
  unfold firstIdx
  exact (List.takeWhile_sublist _).length_le

theorem firstIdx_before (ents : Ents) (g k) : ∀ i (h : i < firstIdx ents g k), ¬ ((ents[i]'(Nat.lt_of_lt_of_le h (firstIdx_le ents g k))).1 = g ∧ (ents[i]'(Nat.lt_of_lt_of_le h (firstIdx_le ents g k))).2 = k) := by
  induction ents with
  | nil => intro i h; simp [firstIdx] at h
  | cons e es ih =>
    intro i h
    unfold firstIdx at h
    by_cases hm : (e.1 == g && e.2 == k) = true
    · simp [List.takeWhile, hm] at h
    · have hm' : (e.1 == g && e.2 == k) = false := by simpa using hm
      cases i with
      | zero => simpa using hm
      | succ j =>
        have hj : j < firstIdx es g k := by
          simp only [List.takeWhile, hm', Bool.not_false, List.length_cons] at h
          unfold firstIdx; omega
        simpa using ih j hj

theorem firstIdx_at (ents : Ents) (g k) (h : firstIdx ents g k < ents.length) :
    (ents[firstIdx ents g k]).1 = g ∧ (ents[firstIdx ents g k]).2 = k := by
  induction ents with
  | nil => simp at h
  | cons e es ih =>
    by_cases hm : (e.1 == g && e.2 == k) = true
    · have : firstIdx (e :: es) g k = 0 := by simp [firstIdx, List.takeWhile, hm]
      simp only [this, List.getElem_cons_zero]
      simpa using hm
    · have hm' : (e.1 == g && e.2 == k) = false := by simpa using hm
      have e1 : firstIdx (e :: es) g k = firstIdx es g k + 1 := by simp [firstIdx, List.takeWhile, hm']
      have h' : firstIdx es g k < es.length := by rw [e1] at h; simpa using h
      simp only [e1, List.getElem_cons_succ]
      exact ih h'

theorem wrapTo_u64_nat (n : Nat) (h : (n : Int) < 18446744073709551616) : wrapTo .u64 (n : Int) = n :=
  wrapTo_u64_small _ (by omega) h

/-- `first_entry`: the test of the `if` in the loop body -/
def feMatch : Expr := .land
  (.un .lnot (.call "strcmp" (.cons (.load (.slot (.sidx (.load (.slot (.load (.var 0) .ptr) 0) .ptr) (.load (.var 3) .u64) 7) 0) .ptr) (.cons (.load (.var 1) .ptr) .nil))) .i32)
  (.un .lnot (.call "strcmp" (.cons (.load (.slot (.sidx (.load (.slot (.load (.var 0) .ptr) 0) .ptr) (.load (.var 3) .u64) 7) 1) .ptr) (.cons (.load (.var 2) .ptr) .nil))) .i32)
def feBody : Stmt := .ite feMatch (.ret (some (.load (.var 3) .u64))) .skip
def feTest : Expr := .bin .lt (.load (.var 3) .u64) (.load (.slot (.load (.var 0) .ptr) 1) .u64) .i32

/-- the shape of the generated term (checked by `rfl` against what the translator produced on this run) -/
theorem first_entry_shape : LeafFns.first_entry.body =
    .seq (.expr (.assign (.var 3) (.cast .u64 (.lit 0 .i32)) .u64))
      (.seq (.for (some feTest) (some (.incdec (.var 3) true true .u64)) feBody)
        (.ret (some (.load (.slot (.load (.var 0) .ptr) 1) .u64)))) := rfl

theorem first_entry_exec (m : Mem) (bk be ag ak : Nat) (ents : Ents) (g k : List UInt8) (h : KfMem m bk be ents)
    (hg : m.cstr ag 0 = .ok g) (hk : m.cstr ak 0 = .ok k) (hsmall : (ents.length : Int) + 1 < 18446744073709551616)
    (fuel : Nat) (hf : ents.length < fuel) :
    exec fuel LeafFns.first_entry.body { mem := m, loc := [.ptr bk 0, .ptr ag 0, .ptr ak 0, .undef] } =
      .ret (.int (firstIdx ents g k)) { mem := m, loc := [.ptr bk 0, .ptr ag 0, .ptr ak 0, .int (firstIdx ents g k)] } := by
  have hlen := h.len
  have harr := h.arrp
  have w0 : wrapTo .u64 0 = 0 := wrapTo_u64_small 0 (by decide) (by decide)
  let P : Nat → St := fun i => { mem := m, loc := [.ptr bk 0, .ptr ag 0, .ptr ak 0, .int (i : Int)] }
  have hinit : exec fuel (.expr (.assign (.var 3) (.cast .u64 (.lit 0 .i32)) .u64))
      { mem := m, loc := [.ptr bk 0, .ptr ag 0, .ptr ak 0, .undef] } = .normal (P 0) := by
    simp [exec, evalE, evalL, writePlace, convert, w0, bind, Except.bind, P]
  have htest_lt : ∀ i, i < ents.length → testOf (some feTest) (P i) = .ok (true, P i) := by
    intro i hi
    have : (i : Int) < (ents.length : Int) := by omega
    simp [feTest, testOf, evalE, evalL, readPlace, hlen, binop, cmpInt, boolVal, truth, this, bind, Except.bind, P]
  have htest_ge : testOf (some feTest) (P ents.length) = .ok (false, P ents.length) := by
    simp [feTest, testOf, evalE, evalL, readPlace, hlen, binop, cmpInt, boolVal, truth, bind, Except.bind, P]
  have hstep : ∀ i, i < ents.length → stepOf (some (.incdec (.var 3) true true .u64)) (P i) = .ok (P (i + 1)) := by
    intro i hi
    have : wrapTo .u64 ((i : Int) + 1) = (i : Int) + 1 := wrapTo_u64_small _ (by omega) (by omega)
    simp [stepOf, evalE, evalL, readPlace, writePlace, binop, cmpInt, arith, Ty.signed, convert, this, bind, Except.bind, Except.map, P]
  have hgz := cstr_nz hg
  have hkz := cstr_nz hk
  have hcond : ∀ i (hi : i < ents.length), testOf (some feMatch) (P i) = .ok (decide ((ents[i]).1 = g ∧ (ents[i]).2 = k), P i) := by
    intro i hi
    obtain ⟨bg, l1, c1⟩ := h.group i hi
    obtain ⟨bq, l2, c2⟩ := h.key i hi
    have hsx := h.sidx i (Nat.le_of_lt hi)
    have z1 := cstr_nz c1
    have z2 := cstr_nz c2
    by_cases e1 : (ents[i]).1 = g
    · by_cases e2 : (ents[i]).2 = k
      · have q1 : cmpBytes g g = 0 := (cmpBytes_eq_zero _ _ hgz hgz).2 rfl
        have q2 : cmpBytes k k = 0 := (cmpBytes_eq_zero _ _ hkz hkz).2 rfl
        simp [feMatch, testOf, evalE, evalL, evalArgs, readPlace, harr, hsx, l1, l2, c1, c2, hg, hk, builtin, unop, truth, boolVal, q1, q2, e1, e2,
          bind, Except.bind, Except.map, P]
      · have q1 : cmpBytes g g = 0 := (cmpBytes_eq_zero _ _ hgz hgz).2 rfl
        have q2 : cmpBytes (ents[i]).2 k ≠ 0 := fun hq => e2 ((cmpBytes_eq_zero _ _ z2 hkz).1 hq)
        simp [feMatch, testOf, evalE, evalL, evalArgs, readPlace, harr, hsx, l1, l2, c1, c2, hg, hk, builtin, unop, truth, boolVal, q1, q2, e1, e2,
          bind, Except.bind, Except.map, P]
    · have q1 : cmpBytes (ents[i]).1 g ≠ 0 := fun hq => e1 ((cmpBytes_eq_zero _ _ z1 hgz).1 hq)
      simp [feMatch, testOf, evalE, evalL, evalArgs, readPlace, harr, hsx, l1, l2, c1, c2, hg, hk, builtin, unop, truth, boolVal, q1, e1,
        bind, Except.bind, Except.map, P]
  have hfi := firstIdx_le ents g k
  rw [first_entry_shape]
  rw [exec_seq_normal hinit]
  -- rounds before the first match: the test holds, the body does nothing, the counter moves on
  have hround : ∀ i, i < firstIdx ents g k →
      testOf (some feTest) (P i) = .ok (true, P i) ∧
      ∃ Q, (exec fuel feBody (P i) = .normal Q ∨ exec fuel feBody (P i) = .cont Q) ∧
        stepOf (some (.incdec (.var 3) true true .u64)) Q = .ok (P (i + 1)) := by
    intro i hi
    have hi' : i < ents.length := by omega
    refine ⟨htest_lt i hi', P i, Or.inl ?_, hstep i hi'⟩
    have hc := hcond i hi'
    have : decide ((ents[i]).1 = g ∧ (ents[i]).2 = k) = false := by
      simpa using firstIdx_before ents g k i hi
    rw [this] at hc
    unfold feBody; rw [exec_ite_false hc]; simp [exec]
  by_cases hfound : firstIdx ents g k < ents.length
  · -- found: the body returns in round `firstIdx`
    have hc := hcond _ hfound
    have : decide ((ents[firstIdx ents g k]).1 = g ∧ (ents[firstIdx ents g k]).2 = k) = true := by
      simpa using firstIdx_at ents g k hfound
    rw [this] at hc
    have hret : exec fuel feBody (P (firstIdx ents g k)) = .ret (.int (firstIdx ents g k)) (P (firstIdx ents g k)) := by
      unfold feBody; rw [exec_ite_true hc]
      simp [exec, evalE, evalL, readPlace, bind, Except.bind, P]
    have hl := loop_ret _ _ _ (firstIdx ents g k) P _ _ hround (htest_lt _ hfound) hret fuel (by omega)
    have hl' : exec fuel (.for (some feTest) (some (.incdec (.var 3) true true .u64)) feBody) (P 0) =
        .ret (.int (firstIdx ents g k)) (P (firstIdx ents g k)) := by rw [exec_for]; exact hl
    rw [exec_seq_ret hl']
  · -- not found: `length` rounds, then the test fails and `length` is returned
    have heq : firstIdx ents g k = ents.length := by omega
    have hl := loop_count _ _ _ ents.length P (P ents.length) (fun i hi => hround i (by omega)) htest_ge fuel hf
    have hl' : exec fuel (.for (some feTest) (some (.incdec (.var 3) true true .u64)) feBody) (P 0) =
        .normal (P ents.length) := by rw [exec_for]; exact hl
    rw [exec_seq_normal hl', heq]
    simp [exec, evalE, evalL, readPlace, hlen, bind, Except.bind, P]

/-- a counting `for` loop that searches: rounds `0 … f-1` pass, round `f` (if `f < n`) returns -/
theorem search_loop (fuel : Nat) (test inc : Expr) (body : Stmt) (P : Nat → St) (n f : Nat) (v : Val)
    (htest_lt : ∀ i, i < n → testOf (some test) (P i) = .ok (true, P i))
    (htest_ge : testOf (some test) (P n) = .ok (false, P n))
    (hstep : ∀ i, i < n → stepOf (some inc) (P i) = .ok (P (i + 1)))
    (hmiss : ∀ i, i < f → exec fuel body (P i) = .normal (P i))
    (hfn : f ≤ n) (hhit : f < n → exec fuel body (P f) = .ret v (P f)) (hfuel : n < fuel) :
    exec fuel (.for (some test) (some inc) body) (P 0) = if f < n then .ret v (P f) else .normal (P n) := by
  rw [exec_for]
  have hround : ∀ i, i < f → testOf (some test) (P i) = .ok (true, P i) ∧
      ∃ Q, (exec fuel body (P i) = .normal Q ∨ exec fuel body (P i) = .cont Q) ∧ stepOf (some inc) Q = .ok (P (i + 1)) :=
    fun i hi => ⟨htest_lt i (by omega), P i, Or.inl (hmiss i hi), hstep i (by omega)⟩
  by_cases hlt : f < n
  · simp only [hlt, if_true]
    exact loop_ret _ _ _ f P _ _ hround (htest_lt f hlt) (hhit hlt) fuel (by omega)
  · simp only [hlt, if_false]
    have : f = n := by omega
    subst this
    exact loop_count _ _ _ f P (P f) hround htest_ge fuel hfuel

/-- index of the first entry of the group; the number of entries when there is none -/
def firstG (ents : Ents) (g : List UInt8) : Nat := (ents.takeWhile (fun e => !(e.1 == g))).length

theorem firstG_le (ents : Ents) (g) : firstG ents g ≤ ents.length := (List.takeWhile_sublist _).length_le

theorem firstG_before (ents : Ents) (g) : ∀ i (h : i < firstG ents g), (ents[i]'(Nat.lt_of_lt_of_le h (firstG_le ents g))).1 ≠ g := by
  induction ents with
  | nil => intro i h; simp [firstG] at h
  | cons e es ih =>
    intro i h
    unfold firstG at h
    by_cases hm : (e.1 == g) = true
    · simp [List.takeWhile, hm] at h
    · have hm' : (e.1 == g) = false := by simpa using hm
      cases i with
      | zero => simpa using hm
      | succ j =>
        have hj : j < firstG es g := by
          simp only [List.takeWhile, hm', Bool.not_false, List.length_cons] at h
          unfold firstG; omega
        simpa using ih j hj

theorem firstG_at (ents : Ents) (g) (h : firstG ents g < ents.length) : (ents[firstG ents g]).1 = g := by
  induction ents with
  | nil => simp at h
  | cons e es ih =>
    by_cases hm : (e.1 == g) = true
    · have : firstG (e :: es) g = 0 := by simp [firstG, List.takeWhile, hm]
      simp only [this, List.getElem_cons_zero]
      simpa using hm
    · have hm' : (e.1 == g) = false := by simpa using hm
      have e1 : firstG (e :: es) g = firstG es g + 1 := by simp [firstG, List.takeWhile, hm']
      have h' : firstG es g < es.length := by rw [e1] at h; simpa using h
      simp only [e1, List.getElem_cons_succ]
      exact ih h'

def hgMatch : Expr := .un .lnot (.call "strcmp" (.cons (.load (.slot (.sidx (.load (.slot (.load (.var 0) .ptr) 0) .ptr) (.load (.var 2) .u64) 7) 0) .ptr) (.cons (.load (.var 1) .ptr) .nil))) .i32
def hgBody : Stmt := .ite hgMatch (.ret (some (.cast .bool (.lit 1 .i32)))) .skip
def hgTest : Expr := .bin .lt (.load (.var 2) .u64) (.load (.slot (.load (.var 0) .ptr) 1) .u64) .i32

theorem has_group_shape : LeafFns.has_group.body =
    .seq (.expr (.assign (.var 2) (.cast .u64 (.lit 0 .i32)) .u64))
      (.seq (.for (some hgTest) (some (.incdec (.var 2) true true .u64)) hgBody)
        (.ret (some (.cast .bool (.lit 0 .i32))))) := rfl

theorem has_group_exec (m : Mem) (bk be ag : Nat) (ents : Ents) (g : List UInt8) (h : KfMem m bk be ents)
    (hg : m.cstr ag 0 = .ok g) (hsmall : (ents.length : Int) + 1 < 18446744073709551616)
    (fuel : Nat) (hf : ents.length < fuel) :
    ∃ loc', exec fuel LeafFns.has_group.body { mem := m, loc := [.ptr bk 0, .ptr ag 0, .undef] } =
      .ret (.int (if firstG ents g < ents.length then 1 else 0)) { mem := m, loc := loc' } := by
  have hlen := h.len
  have harr := h.arrp
  have w0 : wrapTo .u64 0 = 0 := wrapTo_u64_small 0 (by decide) (by decide)
  let P : Nat → St := fun i => { mem := m, loc := [.ptr bk 0, .ptr ag 0, .int (i : Int)] }
  have hinit : exec fuel (.expr (.assign (.var 2) (.cast .u64 (.lit 0 .i32)) .u64))
      { mem := m, loc := [.ptr bk 0, .ptr ag 0, .undef] } = .normal (P 0) := by
    simp [exec, evalE, evalL, writePlace, convert, w0, bind, Except.bind, P]
  have htest_lt : ∀ i, i < ents.length → testOf (some hgTest) (P i) = .ok (true, P i) := by
    intro i hi
    have : (i : Int) < (ents.length : Int) := by omega
    simp [hgTest, testOf, evalE, evalL, readPlace, hlen, binop, cmpInt, boolVal, truth, this, bind, Except.bind, P]
  have htest_ge : testOf (some hgTest) (P ents.length) = .ok (false, P ents.length) := by
    simp [hgTest, testOf, evalE, evalL, readPlace, hlen, binop, cmpInt, boolVal, truth, bind, Except.bind, P]
  have hstep : ∀ i, i < ents.length → stepOf (some (.incdec (.var 2) true true .u64)) (P i) = .ok (P (i + 1)) := by
    intro i hi
    have : wrapTo .u64 ((i : Int) + 1) = (i : Int) + 1 := wrapTo_u64_small _ (by omega) (by omega)
    simp [stepOf, evalE, evalL, readPlace, writePlace, binop, cmpInt, arith, Ty.signed, convert, this, bind, Except.bind, Except.map, P]
  have hgz := cstr_nz hg
  have hcond : ∀ i (hi : i < ents.length), testOf (some hgMatch) (P i) = .ok (decide ((ents[i]).1 = g), P i) := by
    intro i hi
    obtain ⟨bg, l1, c1⟩ := h.group i hi
    have hsx := h.sidx i (Nat.le_of_lt hi)
    have z1 := cstr_nz c1
    by_cases e1 : (ents[i]).1 = g
    · have q1 : cmpBytes g g = 0 := (cmpBytes_eq_zero _ _ hgz hgz).2 rfl
      simp [hgMatch, testOf, evalE, evalL, evalArgs, readPlace, harr, hsx, l1, c1, hg, builtin, unop, truth, boolVal, q1, e1,
        bind, Except.bind, Except.map, P]
    · have q1 : cmpBytes (ents[i]).1 g ≠ 0 := fun hq => e1 ((cmpBytes_eq_zero _ _ z1 hgz).1 hq)
      simp [hgMatch, testOf, evalE, evalL, evalArgs, readPlace, harr, hsx, l1, c1, hg, builtin, unop, truth, boolVal, q1, e1,
        bind, Except.bind, Except.map, P]
  have hmiss : ∀ i, i < firstG ents g → exec fuel hgBody (P i) = .normal (P i) := by
    intro i hi
    have hi' : i < ents.length := Nat.lt_of_lt_of_le hi (firstG_le ents g)
    have hc := hcond i hi'
    have : decide ((ents[i]).1 = g) = false := by simpa using firstG_before ents g i hi
    rw [this] at hc
    unfold hgBody; rw [exec_ite_false hc]; simp [exec]
  have b1 : wrapTo .bool 1 = 1 := by decide
  have b0 : wrapTo .bool 0 = 0 := by decide
  have hhit : firstG ents g < ents.length → exec fuel hgBody (P (firstG ents g)) = .ret (.int 1) (P (firstG ents g)) := by
    intro hlt
    have hc := hcond _ hlt
    have : decide ((ents[firstG ents g]).1 = g) = true := by simpa using firstG_at ents g hlt
    rw [this] at hc
    unfold hgBody; rw [exec_ite_true hc]
    simp [exec, evalE, convert, b1, bind, Except.bind]
  have hl := search_loop fuel hgTest _ hgBody P ents.length (firstG ents g) (.int 1) htest_lt htest_ge hstep hmiss (firstG_le ents g) hhit hf
  rw [has_group_shape, exec_seq_normal hinit]
  by_cases hlt : firstG ents g < ents.length
  · simp only [hlt, if_true] at hl ⊢
    exact ⟨_, exec_seq_ret hl⟩
  · simp only [hlt, if_false] at hl ⊢
    rw [exec_seq_normal hl]
    exact ⟨[.ptr bk 0, .ptr ag 0, .int (ents.length : Int)], by simp [exec, evalE, convert, b0, bind, Except.bind, P]⟩

theorem exec_inl_val {fuel : Nat} {args : Args} {nl : Nat} {body : Stmt} {st st1 st' : St} {vs : List Val} {v v' : Val} {dty : Ty} {i : Nat}
    (ha : evalArgs args st = .ok (vs, st1))
    (hb : exec fuel body { mem := st1.mem, loc := vs ++ List.replicate (nl - vs.length) .undef } = .ret v st')
    (hc : convert dty v = .ok v') (hi : i < st1.loc.length) :
    exec fuel (.inl (some (.var i)) dty args nl body) st = .normal { mem := st'.mem, loc := st1.loc.set i v' } := by
  simp [exec, ha, hb, evalL, hc, writePlace, hi, Except.bind]

theorem first_definition_shape : LeafFns.first_definition.body =
    .seq (.inl (some (.var 2)) .u64 (.cons (.load (.var 0) .ptr)
        (.cons (.load (.slot (.sidx (.load (.slot (.load (.var 0) .ptr) 0) .ptr) (.load (.var 1) .u64) 7) 0) .ptr)
          (.cons (.load (.slot (.sidx (.load (.slot (.load (.var 0) .ptr) 0) .ptr) (.load (.var 1) .u64) 7) 1) .ptr) .nil))) 4 LeafFns.first_entry.body)
      (.ret (some (.cast .bool (.bin .eq (.load (.var 2) .u64) (.load (.var 1) .u64) .i32)))) := rfl

/-- `first_definition(kf, num)`: is entry `num` the first one with its group and key? -/
theorem first_definition_exec (m : Mem) (bk be : Nat) (ents : Ents) (num : Nat) (hnum : num < ents.length) (h : KfMem m bk be ents)
    (hsmall : (ents.length : Int) + 1 < 18446744073709551616) (fuel : Nat) (hf : ents.length < fuel) :
    ∃ loc', exec fuel LeafFns.first_definition.body { mem := m, loc := [.ptr bk 0, .int (num : Int), .undef] } =
      .ret (.int (if firstIdx ents (ents[num]).1 (ents[num]).2 = num then 1 else 0)) { mem := m, loc := loc' } := by
  obtain ⟨bg, l1, c1⟩ := h.group num hnum
  obtain ⟨bq, l2, c2⟩ := h.key num hnum
  have hsx := h.sidx num (Nat.le_of_lt hnum)
  have harr := h.arrp
  have ha : evalArgs (.cons (.load (.var 0) .ptr)
        (.cons (.load (.slot (.sidx (.load (.slot (.load (.var 0) .ptr) 0) .ptr) (.load (.var 1) .u64) 7) 0) .ptr)
          (.cons (.load (.slot (.sidx (.load (.slot (.load (.var 0) .ptr) 0) .ptr) (.load (.var 1) .u64) 7) 1) .ptr) .nil)))
      { mem := m, loc := [.ptr bk 0, .int (num : Int), .undef] } =
      .ok ([.ptr bk 0, .ptr bg 0, .ptr bq 0], { mem := m, loc := [.ptr bk 0, .int (num : Int), .undef] }) := by
    simp [evalArgs, evalE, evalL, readPlace, harr, hsx, l1, l2, bind, Except.bind]
  have hfe := first_entry_exec m bk be bg bq ents _ _ h c1 c2 hsmall fuel hf
  have hfi := firstIdx_le ents (ents[num]).1 (ents[num]).2
  have hcv : convert .u64 (.int (firstIdx ents (ents[num]).1 (ents[num]).2 : Int)) = .ok (.int (firstIdx ents (ents[num]).1 (ents[num]).2 : Int)) := by
    simp [convert, wrapTo_u64_small _ (Int.natCast_nonneg _) (by omega : ((firstIdx ents (ents[num]).1 (ents[num]).2 : Nat) : Int) < 18446744073709551616)]
  have hinl := exec_inl_val (fuel := fuel) (nl := 4) (i := 2) (dty := .u64) ha (by simpa using hfe) hcv (by simp)
  rw [first_definition_shape, exec_seq_normal hinl]
  have b1 : wrapTo .bool 1 = 1 := by decide
  have b0 : wrapTo .bool 0 = 0 := by decide
  refine ⟨[.ptr bk 0, .int (num : Int), .int (firstIdx ents (ents[num]).1 (ents[num]).2 : Int)], ?_⟩
  by_cases e : firstIdx ents (ents[num]).1 (ents[num]).2 = num
  · have e' : ((firstIdx ents (ents[num]).1 (ents[num]).2 : Nat) : Int) = (num : Int) := by omega
    simp [exec, evalE, evalL, readPlace, binop, cmpInt, boolVal, convert, e, e', b1, bind, Except.bind]
  · have e' : ¬ ((firstIdx ents (ents[num]).1 (ents[num]).2 : Nat) : Int) = (num : Int) := by omega
    simp [exec, evalE, evalL, readPlace, binop, cmpInt, boolVal, convert, e, e', b0, bind, Except.bind]

/-! ### the list-level model -/

/-- what the C functions look at: group and key of every entry -/
def entsOf (es : List Econf.Entry) : Ents := es.map (fun e => (e.group, e.key))

theorem firstIdx_model (es : List Econf.Entry) (g k : List UInt8) :
    firstIdx (entsOf es) g k = (Econf.findIdx es g k).getD es.length := by
  induction es with
  | nil => simp [firstIdx, entsOf, Econf.findIdx]
  | cons e es ih =>
    by_cases hm : (e.group == g && e.key == k) = true
    · have hp : (!((e.group, e.key).1 == g && (e.group, e.key).2 == k)) = false := by simp only [hm, Bool.not_true]
      simp only [firstIdx, entsOf, List.map_cons, List.takeWhile_cons, hp, Econf.findIdx, List.findIdx?_cons, hm]
      simp
    · have hm' : (e.group == g && e.key == k) = false := by simpa using hm
      have hp : (!((e.group, e.key).1 == g && (e.group, e.key).2 == k)) = true := by simp only [hm', Bool.not_false]
      have : firstIdx (entsOf (e :: es)) g k = firstIdx (entsOf es) g k + 1 := by
        simp only [firstIdx, entsOf, List.map_cons, List.takeWhile_cons, hp, if_true, List.length_cons]
      rw [this, ih]
      simp only [Econf.findIdx, List.findIdx?_cons, hm', Bool.false_eq_true, if_false, List.length_cons]
      cases List.findIdx? (fun e => e.group == g && e.key == k) es <;> simp

theorem firstG_model (es : List Econf.Entry) (g : List UInt8) :
    decide (firstG (entsOf es) g < es.length) = Econf.hasGroup es g := by
  induction es with
  | nil => simp [firstG, entsOf, Econf.hasGroup]
  | cons e es ih =>
    by_cases hm : (e.group == g) = true
    · simp [firstG, entsOf, Econf.hasGroup, List.takeWhile, hm]
    · have hm' : (e.group == g) = false := by simpa using hm
      have : firstG (entsOf (e :: es)) g = firstG (entsOf es) g + 1 := by simp [firstG, entsOf, List.takeWhile, hm']
      rw [this]
      have ih' := ih
      simp only [Econf.hasGroup, List.any_cons, hm', Bool.false_or] at ih' ⊢
      rw [← ih']
      simp

/-- `first_entry` (lib/mergefiles.c) on the translated term: for every entry array and every group and key the function
    runs without a fault – no access outside the array of `length` entries –, leaves the memory alone and returns the
    index the model's `findIdx` names, or `length` when the model finds nothing. -/
theorem C_first_entry (m : Mem) (bk be ag ak : Nat) (es : List Econf.Entry) (g k : List UInt8) (h : KfMem m bk be (entsOf es))
    (hg : m.cstr ag 0 = .ok g) (hk : m.cstr ak 0 = .ok k) (hsmall : (es.length : Int) + 1 < 18446744073709551616)
    (fuel : Nat) (hf : es.length < fuel) :
    ∃ loc', exec fuel LeafFns.first_entry.body { mem := m, loc := [.ptr bk 0, .ptr ag 0, .ptr ak 0, .undef] } =
      .ret (.int (((Econf.findIdx es g k).getD es.length : Nat) : Int)) { mem := m, loc := loc' } := by
  have hl : (entsOf es).length = es.length := by simp [entsOf]
  have := first_entry_exec m bk be ag ak (entsOf es) g k h hg hk (by rw [hl]; exact hsmall) fuel (by rw [hl]; exact hf)
  rw [firstIdx_model] at this
  exact ⟨_, this⟩

/-- `has_group` on the translated term: no fault, memory untouched, the answer is the model's `hasGroup`. -/
theorem C_has_group (m : Mem) (bk be ag : Nat) (es : List Econf.Entry) (g : List UInt8) (h : KfMem m bk be (entsOf es))
    (hg : m.cstr ag 0 = .ok g) (hsmall : (es.length : Int) + 1 < 18446744073709551616) (fuel : Nat) (hf : es.length < fuel) :
    ∃ loc', exec fuel LeafFns.has_group.body { mem := m, loc := [.ptr bk 0, .ptr ag 0, .undef] } =
      .ret (.int (if Econf.hasGroup es g then 1 else 0)) { mem := m, loc := loc' } := by
  have hl : (entsOf es).length = es.length := by simp [entsOf]
  obtain ⟨loc', this⟩ := has_group_exec m bk be ag (entsOf es) g h hg (by rw [hl]; exact hsmall) fuel (by rw [hl]; exact hf)
  refine ⟨loc', ?_⟩
  rw [this, hl]
  have := firstG_model es g
  by_cases hlt : firstG (entsOf es) g < es.length
  · simp [hlt] at this ⊢; simp [← this]
  · simp [hlt] at this ⊢; simp [← this]

/-- the hypotheses are satisfiable: an object with two entries in a concrete memory -/
example : KfMem
    [{ cells := [], slots := [.ptr 1 0, .int 2] }, { cells := [], slots := [.ptr 2 0, .ptr 3 0, .null, .null, .null, .int 0, .int 0, .ptr 2 0, .ptr 4 0, .null, .null, .null, .int 0, .int 0] },
     strBlock [65], strBlock [120], strBlock [121]] 0 1 [([65], [120]), ([65], [121])] := by
  refine ⟨⟨_, rfl, rfl, rfl, rfl⟩, ⟨_, rfl, rfl, rfl, ?_⟩⟩
  intro i hi
  have : i = 0 ∨ i = 1 := by simp at hi; omega
  rcases this with rfl | rfl
  · exact ⟨2, 3, rfl, rfl, rfl, rfl⟩
  · exact ⟨2, 4, rfl, rfl, rfl, rfl⟩

end LeafKf
