import Econf.Props.Leaf
import Econf.Merge
import Econf.KeyFileOps
import Generated.LeafFns

/-!
  # The functions over the entry array of an `econf_file`, on the terms generated from the C source

  `has_group`, `first_entry`, `first_definition` (lib/mergefiles.c) are translated by gen/c2lean.py on every run
  (`Generated/LeafFns.lean`); struct members are word slots of the interpreter's memory (`MiniC.Block.slots`).
  For every entry array, every group and key: no access outside the array of `length` entries, no change of memory,
  and the result is what the list-level model (`Econf.findIdx`, `Econf.hasGroup`) says.
-/
open MiniC Leaf
set_option linter.unusedSimpArgs false
set_option linter.unusedVariables false
namespace LeafKf

/-- a loop whose body returns in round `n`, after `n` ordinary rounds -/
theorem loop_ret (test : St → R (Bool × St)) (body : St → Outcome) (step : St → R St) :
    ∀ (n : Nat) (P : Nat → St) (v : Val) (R : St),
    (∀ i, i < n → test (P i) = .ok (true, P i) ∧ ∃ Q, (body (P i) = .normal Q ∨ body (P i) = .cont Q) ∧ step Q = .ok (P (i + 1))) →
    test (P n) = .ok (true, P n) → body (P n) = .ret v R → ∀ fuel, n < fuel → loop test body step fuel (P 0) = .ret v R := by
  intro n
  induction n with
  | zero =>
    intro P v R _ ht hb fuel hf
    obtain ⟨f, rfl⟩ : ∃ f, fuel = f + 1 := ⟨fuel - 1, by omega⟩
    simp [loop, ht, hb]
  | succ n ih =>
    intro P v R hstep ht hb fuel hf
    obtain ⟨f, rfl⟩ : ∃ f, fuel = f + 1 := ⟨fuel - 1, by omega⟩
    obtain ⟨ht0, Q, hb0, hs⟩ := hstep 0 (by omega)
    have := ih (fun i => P (i + 1)) v R (fun i hi => hstep (i + 1) (by omega)) ht hb f (by omega)
    rcases hb0 with hb0 | hb0 <;> simp [loop, ht0, hb0, hs, this]

theorem cstrFrom_nz : ∀ (l : List (Option UInt8)) (s : List UInt8), cstrFrom l = .ok s → (0 : UInt8) ∉ s
  | [], s, h => by simp [cstrFrom] at h
  | none :: _, s, h => by simp [cstrFrom] at h
  | some c :: rest, s, h => by
    simp only [cstrFrom] at h
    by_cases hc : c = 0
    · subst hc
      simp at h
      subst h; simp
    · have hc' : (c == 0) = false := by simpa using hc
      simp only [hc', Bool.false_eq_true, if_false] at h
      cases hr : cstrFrom rest with
      | error e => simp [hr, Except.map] at h
      | ok r =>
        simp only [hr, Except.map] at h
        injection h with h
        subst h
        have := cstrFrom_nz rest r hr
        intro hm
        rcases List.mem_cons.1 hm with h0 | h0
        · exact hc h0.symm
        · exact this h0

theorem cstr_nz {m : Mem} {b : Nat} {o : Int} {s : List UInt8} (h : m.cstr b o = .ok s) : (0 : UInt8) ∉ s := by
  simp only [Mem.cstr, bind, Except.bind] at h
  split at h
  · simp at h
  · split at h
    · simp at h
    · split at h
      · exact cstrFrom_nz _ _ h
      · simp at h

theorem cmpBytes_eq_zero : ∀ (s t : List UInt8), (0 : UInt8) ∉ s → (0 : UInt8) ∉ t → (cmpBytes s t = 0 ↔ s = t)
  | [], [], _, _ => by simp [cmpBytes]
  | [], b :: bs, _, ht => by
    simp only [cmpBytes, reduceCtorEq, iff_false]
    intro h0
    apply ht
    have : b = 0 := UInt8.toNat_inj.1 (by simp; omega)
    simp [this]
  | a :: as, [], hs, _ => by
    simp only [cmpBytes, reduceCtorEq, iff_false]
    intro h0
    apply hs
    have : a = 0 := UInt8.toNat_inj.1 (by simp; omega)
    simp [this]
  | a :: as, b :: bs, hs, ht => by
    simp only [cmpBytes]
    have hs' : (0 : UInt8) ∉ as := fun h => hs (List.mem_cons_of_mem _ h)
    have ht' : (0 : UInt8) ∉ bs := fun h => ht (List.mem_cons_of_mem _ h)
    by_cases h : a = b
    · subst h; simp [cmpBytes_eq_zero as bs hs' ht']
    · have : (a == b) = false := by simpa using h
      simp only [this, Bool.false_eq_true, if_false, List.cons.injEq, h, false_and, iff_false]
      intro h0
      apply h
      apply UInt8.toNat_inj.1
      omega

/-- (group, key) of every element of the entry array -/
abbrev Ents := List (List UInt8 × List UInt8)

/-- block `bk` holds an `econf_file` whose `file_entry` member points at block `be`, an array of exactly
    `length = ents.length` entries (7 words each) whose group and key members point at the C strings of `ents` -/
structure KfMem (m : Mem) (bk be : Nat) (ents : Ents) : Prop where
  kf : ∃ blk, m[bk]? = some blk ∧ blk.live = true ∧ blk.slots[0]? = some (.ptr be 0) ∧ blk.slots[1]? = some (.int ents.length)
  arr : ∃ blk, m[be]? = some blk ∧ blk.live = true ∧ blk.slots.length = 7 * ents.length ∧
    ∀ i (h : i < ents.length), ∃ bg bq, blk.slots[7 * i]? = some (.ptr bg 0) ∧ blk.slots[7 * i + 1]? = some (.ptr bq 0) ∧
      m.cstr bg 0 = .ok (ents[i]).1 ∧ m.cstr bq 0 = .ok (ents[i]).2

theorem KfMem.len {m bk be ents} (h : KfMem m bk be ents) : m.loadSlot bk 1 = .ok (.int ents.length) := by
  obtain ⟨blk, h1, h2, _, h4⟩ := h.kf
  simp [Mem.loadSlot, Mem.block, h1, h2, h4, bind, Except.bind]

theorem KfMem.arrp {m bk be ents} (h : KfMem m bk be ents) : m.loadSlot bk 0 = .ok (.ptr be 0) := by
  obtain ⟨blk, h1, h2, h3, _⟩ := h.kf
  simp [Mem.loadSlot, Mem.block, h1, h2, h3, bind, Except.bind]

theorem KfMem.sidx {m bk be ents} (h : KfMem m bk be ents) (i : Nat) (hi : i ≤ ents.length) :
    slotAdd m be 0 ((i : Int) * 7) = .ok (.ptr be ((i : Int) * 7)) := by
  obtain ⟨blk, h1, h2, h3, _⟩ := h.arr
  have : (0 : Int) ≤ (i : Int) * 7 ∧ (i : Int) * 7 ≤ (blk.slots.length : Int) := by rw [h3]; omega
  simp [slotAdd, Mem.block, h1, h2, this, bind, Except.bind]

theorem KfMem.group {m bk be ents} (h : KfMem m bk be ents) (i : Nat) (hi : i < ents.length) :
    ∃ bg, m.loadSlot be ((i : Int) * 7) = .ok (.ptr bg 0) ∧ m.cstr bg 0 = .ok (ents[i]).1 := by
  obtain ⟨blk, h1, h2, h3, h4⟩ := h.arr
  obtain ⟨bg, bq, e1, e2, e3, e4⟩ := h4 i hi
  refine ⟨bg, ?_, e3⟩
  have hn : ¬ ((i : Int) * 7 < 0) := by omega
  have ht : ((i : Int) * 7).toNat = 7 * i := by omega
  simp [Mem.loadSlot, Mem.block, h1, h2, hn, ht, e1, bind, Except.bind]

theorem KfMem.key {m bk be ents} (h : KfMem m bk be ents) (i : Nat) (hi : i < ents.length) :
    ∃ bq, m.loadSlot be ((i : Int) * 7 + 1) = .ok (.ptr bq 0) ∧ m.cstr bq 0 = .ok (ents[i]).2 := by
  obtain ⟨blk, h1, h2, h3, h4⟩ := h.arr
  obtain ⟨bg, bq, e1, e2, e3, e4⟩ := h4 i hi
  refine ⟨bq, ?_, e4⟩
  have hn : ¬ ((i : Int) * 7 + 1 < 0) := by omega
  have ht : ((i : Int) * 7 + 1).toNat = 7 * i + 1 := by omega
  simp [Mem.loadSlot, Mem.block, h1, h2, hn, ht, e2, bind, Except.bind]

/-- index of the first entry with the given group and key; the number of entries when there is none -/
def firstIdx (ents : Ents) (g k : List UInt8) : Nat := (ents.takeWhile (fun e => !(e.1 == g && e.2 == k))).length

theorem firstIdx_le (ents : Ents) (g k) : firstIdx ents g k ≤ ents.length := by
  unfold firstIdx
  exact (List.takeWhile_sublist _).length_le

theorem firstIdx_before (ents : Ents) (g k) : ∀ i (h : i < firstIdx ents g k), ¬ ((ents[i]'(Nat.lt_of_lt_of_le h (firstIdx_le ents g k))).1 = g ∧ (ents[i]'(Nat.lt_of_lt_of_le h (firstIdx_le ents g k))).2 = k) := by
  induction ents with
  | nil => intro i h; simp [firstIdx] at h
  | cons e es ih =>
    intro i h
    unfold firstIdx at h
    by_cases hm : (e.1 == g && e.2 == k) = true
    · simp [List.takeWhile, hm] at h
    · have hm' : (e.1 == g && e.2 == k) = false := by simpa using hm
      cases i with
      | zero => simpa using hm
      | succ j =>
        have hj : j < firstIdx es g k := by
          simp only [List.takeWhile, hm', Bool.not_false, List.length_cons] at h
          unfold firstIdx; omega
        simpa using ih j hj

theorem firstIdx_at (ents : Ents) (g k) (h : firstIdx ents g k < ents.length) :
    (ents[firstIdx ents g k]).1 = g ∧ (ents[firstIdx ents g k]).2 = k := by
  induction ents with
  | nil => simp at h
  | cons e es ih =>
    by_cases hm : (e.1 == g && e.2 == k) = true
    · have : firstIdx (e :: es) g k = 0 := by simp [firstIdx, List.takeWhile, hm]
      simp only [this, List.getElem_cons_zero]
      simpa using hm
    · have hm' : (e.1 == g && e.2 == k) = false := by simpa using hm
      have e1 : firstIdx (e :: es) g k = firstIdx es g k + 1 := by simp [firstIdx, List.takeWhile, hm']
      have h' : firstIdx es g k < es.length := by rw [e1] at h; simpa using h
      simp only [e1, List.getElem_cons_succ]
      exact ih h'

theorem wrapTo_u64_nat (n : Nat) (h : (n : Int) < 18446744073709551616) : wrapTo .u64 (n : Int) = n :=
  wrapTo_u64_small _ (by omega) h

/-- `first_entry`: the test of the `if` in the loop body -/
def feMatch : Expr := .land
  (.un .lnot (.call "strcmp" (.cons (.load (.slot (.sidx (.load (.slot (.load (.var 0) .ptr) 0) .ptr) (.load (.var 3) .u64) 7) 0) .ptr) (.cons (.load (.var 1) .ptr) .nil))) .i32)
  (.un .lnot (.call "strcmp" (.cons (.load (.slot (.sidx (.load (.slot (.load (.var 0) .ptr) 0) .ptr) (.load (.var 3) .u64) 7) 1) .ptr) (.cons (.load (.var 2) .ptr) .nil))) .i32)
def feBody : Stmt := .ite feMatch (.ret (some (.load (.var 3) .u64))) .skip
def feTest : Expr := .bin .lt (.load (.var 3) .u64) (.load (.slot (.load (.var 0) .ptr) 1) .u64) .i32

/-- the shape of the generated term (checked by `rfl` against what the translator produced on this run) -/
theorem first_entry_shape : LeafFns.first_entry.body =
    .seq (.expr (.assign (.var 3) (.cast .u64 (.lit 0 .i32)) .u64))
      (.seq (.for (some feTest) (some (.incdec (.var 3) true true .u64)) feBody)
        (.ret (some (.load (.slot (.load (.var 0) .ptr) 1) .u64)))) := rfl

theorem first_entry_exec (m : Mem) (bk be ag ak : Nat) (ents : Ents) (g k : List UInt8) (h : KfMem m bk be ents)
    (hg : m.cstr ag 0 = .ok g) (hk : m.cstr ak 0 = .ok k) (hsmall : (ents.length : Int) + 1 < 18446744073709551616)
    (fuel : Nat) (hf : ents.length < fuel) :
    exec fuel LeafFns.first_entry.body { mem := m, loc := [.ptr bk 0, .ptr ag 0, .ptr ak 0, .undef] } =
      .ret (.int (firstIdx ents g k)) { mem := m, loc := [.ptr bk 0, .ptr ag 0, .ptr ak 0, .int (firstIdx ents g k)] } := by
  have hlen := h.len
  have harr := h.arrp
  have w0 : wrapTo .u64 0 = 0 := wrapTo_u64_small 0 (by decide) (by decide)
  let P : Nat → St := fun i => { mem := m, loc := [.ptr bk 0, .ptr ag 0, .ptr ak 0, .int (i : Int)] }
  have hinit : exec fuel (.expr (.assign (.var 3) (.cast .u64 (.lit 0 .i32)) .u64))
      { mem := m, loc := [.ptr bk 0, .ptr ag 0, .ptr ak 0, .undef] } = .normal (P 0) := by
    simp [exec, evalE, evalL, writePlace, convert, w0, bind, Except.bind, P]
  have htest_lt : ∀ i, i < ents.length → testOf (some feTest) (P i) = .ok (true, P i) := by
    intro i hi
    have : (i : Int) < (ents.length : Int) := by omega
    simp [feTest, testOf, evalE, evalL, readPlace, hlen, binop, cmpInt, boolVal, truth, this, bind, Except.bind, P]
  have htest_ge : testOf (some feTest) (P ents.length) = .ok (false, P ents.length) := by
    simp [feTest, testOf, evalE, evalL, readPlace, hlen, binop, cmpInt, boolVal, truth, bind, Except.bind, P]
  have hstep : ∀ i, i < ents.length → stepOf (some (.incdec (.var 3) true true .u64)) (P i) = .ok (P (i + 1)) := by
    intro i hi
    have : wrapTo .u64 ((i : Int) + 1) = (i : Int) + 1 := wrapTo_u64_small _ (by omega) (by omega)
    simp [stepOf, evalE, evalL, readPlace, writePlace, binop, cmpInt, arith, Ty.signed, convert, this, bind, Except.bind, Except.map, P]
  have hgz := cstr_nz hg
  have hkz := cstr_nz hk
  have hcond : ∀ i (hi : i < ents.length), testOf (some feMatch) (P i) = .ok (decide ((ents[i]).1 = g ∧ (ents[i]).2 = k), P i) := by
    intro i hi
    obtain ⟨bg, l1, c1⟩ := h.group i hi
    obtain ⟨bq, l2, c2⟩ := h.key i hi
    have hsx := h.sidx i (Nat.le_of_lt hi)
    have z1 := cstr_nz c1
    have z2 := cstr_nz c2
    by_cases e1 : (ents[i]).1 = g
    · by_cases e2 : (ents[i]).2 = k
      · have q1 : cmpBytes g g = 0 := (cmpBytes_eq_zero _ _ hgz hgz).2 rfl
        have q2 : cmpBytes k k = 0 := (cmpBytes_eq_zero _ _ hkz hkz).2 rfl
        simp [feMatch, testOf, evalE, evalL, evalArgs, readPlace, harr, hsx, l1, l2, c1, c2, hg, hk, builtin, unop, truth, boolVal, q1, q2, e1, e2,
          bind, Except.bind, Except.map, P]
      · have q1 : cmpBytes g g = 0 := (cmpBytes_eq_zero _ _ hgz hgz).2 rfl
        have q2 : cmpBytes (ents[i]).2 k ≠ 0 := fun hq => e2 ((cmpBytes_eq_zero _ _ z2 hkz).1 hq)
        simp [feMatch, testOf, evalE, evalL, evalArgs, readPlace, harr, hsx, l1, l2, c1, c2, hg, hk, builtin, unop, truth, boolVal, q1, q2, e1, e2,
          bind, Except.bind, Except.map, P]
    · have q1 : cmpBytes (ents[i]).1 g ≠ 0 := fun hq => e1 ((cmpBytes_eq_zero _ _ z1 hgz).1 hq)
      simp [feMatch, testOf, evalE, evalL, evalArgs, readPlace, harr, hsx, l1, l2, c1, c2, hg, hk, builtin, unop, truth, boolVal, q1, e1,
        bind, Except.bind, Except.map, P]
  have hfi := firstIdx_le ents g k
  rw [first_entry_shape]
  rw [exec_seq_normal hinit]
  -- rounds before the first match: the test holds, the body does nothing, the counter moves on
  have hround : ∀ i, i < firstIdx ents g k →
      testOf (some feTest) (P i) = .ok (true, P i) ∧
      ∃ Q, (exec fuel feBody (P i) = .normal Q ∨ exec fuel feBody (P i) = .cont Q) ∧
        stepOf (some (.incdec (.var 3) true true .u64)) Q = .ok (P (i + 1)) := by
    intro i hi
    have hi' : i < ents.length := by omega
    refine ⟨htest_lt i hi', P i, Or.inl ?_, hstep i hi'⟩
    have hc := hcond i hi'
    have : decide ((ents[i]).1 = g ∧ (ents[i]).2 = k) = false := by
      simpa using firstIdx_before ents g k i hi
    rw [this] at hc
    unfold feBody; rw [exec_ite_false hc]; simp [exec]
  by_cases hfound : firstIdx ents g k < ents.length
  · -- found: the body returns in round `firstIdx`
    have hc := hcond _ hfound
    have : decide ((ents[firstIdx ents g k]).1 = g ∧ (ents[firstIdx ents g k]).2 = k) = true := by
      simpa using firstIdx_at ents g k hfound
    rw [this] at hc
    have hret : exec fuel feBody (P (firstIdx ents g k)) = .ret (.int (firstIdx ents g k)) (P (firstIdx ents g k)) := by
      unfold feBody; rw [exec_ite_true hc]
      simp [exec, evalE, evalL, readPlace, bind, Except.bind, P]
    have hl := loop_ret _ _ _ (firstIdx ents g k) P _ _ hround (htest_lt _ hfound) hret fuel (by omega)
    have hl' : exec fuel (.for (some feTest) (some (.incdec (.var 3) true true .u64)) feBody) (P 0) =
        .ret (.int (firstIdx ents g k)) (P (firstIdx ents g k)) := by rw [exec_for]; exact hl
    rw [exec_seq_ret hl']
  · -- not found: `length` rounds, then the test fails and `length` is returned
    have heq : firstIdx ents g k = ents.length := by omega
    have hl := loop_count _ _ _ ents.length P (P ents.length) (fun i hi => hround i (by omega)) htest_ge fuel hf
    have hl' : exec fuel (.for (some feTest) (some (.incdec (.var 3) true true .u64)) feBody) (P 0) =
        .normal (P ents.length) := by rw [exec_for]; exact hl
    rw [exec_seq_normal hl', heq]
    simp [exec, evalE, evalL, readPlace, hlen, bind, Except.bind, P]

/-- a counting `for` loop that searches: rounds `0 … f-1` pass, round `f` (if `f < n`) returns -/
theorem search_loop (fuel : Nat) (test inc : Expr) (body : Stmt) (P : Nat → St) (n f : Nat) (v : Val)
    (htest_lt : ∀ i, i < n → testOf (some test) (P i) = .ok (true, P i))
    (htest_ge : testOf (some test) (P n) = .ok (false, P n))
    (hstep : ∀ i, i < n → stepOf (some inc) (P i) = .ok (P (i + 1)))
    (hmiss : ∀ i, i < f → exec fuel body (P i) = .normal (P i))
    (hfn : f ≤ n) (hhit : f < n → exec fuel body (P f) = .ret v (P f)) (hfuel : n < fuel) :
    exec fuel (.for (some test) (some inc) body) (P 0) = if f < n then .ret v (P f) else .normal (P n) := by
  rw [exec_for]
  have hround : ∀ i, i < f → testOf (some test) (P i) = .ok (true, P i) ∧
      ∃ Q, (exec fuel body (P i) = .normal Q ∨ exec fuel body (P i) = .cont Q) ∧ stepOf (some inc) Q = .ok (P (i + 1)) :=
    fun i hi => ⟨htest_lt i (by omega), P i, Or.inl (hmiss i hi), hstep i (by omega)⟩
  by_cases hlt : f < n
  · simp only [hlt, if_true]
    exact loop_ret _ _ _ f P _ _ hround (htest_lt f hlt) (hhit hlt) fuel (by omega)
  · simp only [hlt, if_false]
    have : f = n := by omega
    subst this
    exact loop_count _ _ _ f P (P f) hround htest_ge fuel hfuel

/-- index of the first entry of the group; the number of entries when there is none -/
def firstG (ents : Ents) (g : List UInt8) : Nat := (ents.takeWhile (fun e => !(e.1 == g))).length

theorem firstG_le (ents : Ents) (g) : firstG ents g ≤ ents.length := (List.takeWhile_sublist _).length_le

theorem firstG_before (ents : Ents) (g) : ∀ i (h : i < firstG ents g), (ents[i]'(Nat.lt_of_lt_of_le h (firstG_le ents g))).1 ≠ g := by
  induction ents with
  | nil => intro i h; simp [firstG] at h
  | cons e es ih =>
    intro i h
    unfold firstG at h
    by_cases hm : (e.1 == g) = true
    · simp [List.takeWhile, hm] at h
    · have hm' : (e.1 == g) = false := by simpa using hm
      cases i with
      | zero => simpa using hm
      | succ j =>
        have hj : j < firstG es g := by
          simp only [List.takeWhile, hm', Bool.not_false, List.length_cons] at h
          unfold firstG; omega
        simpa using ih j hj

theorem firstG_at (ents : Ents) (g) (h : firstG ents g < ents.length) : (ents[firstG ents g]).1 = g := by
  induction ents with
  | nil => simp at h
  | cons e es ih =>
    by_cases hm : (e.1 == g) = true
    · have : firstG (e :: es) g = 0 := by simp [firstG, List.takeWhile, hm]
      simp only [this, List.getElem_cons_zero]
      simpa using hm
    · have hm' : (e.1 == g) = false := by simpa using hm
      have e1 : firstG (e :: es) g = firstG es g + 1 := by simp [firstG, List.takeWhile, hm']
      have h' : firstG es g < es.length := by rw [e1] at h; simpa using h
      simp only [e1, List.getElem_cons_succ]
      exact ih h'

def hgMatch : Expr := .un .lnot (.call "strcmp" (.cons (.load (.slot (.sidx (.load (.slot (.load (.var 0) .ptr) 0) .ptr) (.load (.var 2) .u64) 7) 0) .ptr) (.cons (.load (.var 1) .ptr) .nil))) .i32
def hgBody : Stmt := .ite hgMatch (.ret (some (.cast .bool (.lit 1 .i32)))) .skip
def hgTest : Expr := .bin .lt (.load (.var 2) .u64) (.load (.slot (.load (.var 0) .ptr) 1) .u64) .i32

theorem has_group_shape : LeafFns.has_group.body =
    .seq (.expr (.assign (.var 2) (.cast .u64 (.lit 0 .i32)) .u64))
      (.seq (.for (some hgTest) (some (.incdec (.var 2) true true .u64)) hgBody)
        (.ret (some (.cast .bool (.lit 0 .i32))))) := rfl

theorem has_group_exec (m : Mem) (bk be ag : Nat) (ents : Ents) (g : List UInt8) (h : KfMem m bk be ents)
    (hg : m.cstr ag 0 = .ok g) (hsmall : (ents.length : Int) + 1 < 18446744073709551616)
    (fuel : Nat) (hf : ents.length < fuel) :
    ∃ loc', exec fuel LeafFns.has_group.body { mem := m, loc := [.ptr bk 0, .ptr ag 0, .undef] } =
      .ret (.int (if firstG ents g < ents.length then 1 else 0)) { mem := m, loc := loc' } := by
  have hlen := h.len
  have harr := h.arrp
  have w0 : wrapTo .u64 0 = 0 := wrapTo_u64_small 0 (by decide) (by decide)
  let P : Nat → St := fun i => { mem := m, loc := [.ptr bk 0, .ptr ag 0, .int (i : Int)] }
  have hinit : exec fuel (.expr (.assign (.var 2) (.cast .u64 (.lit 0 .i32)) .u64))
      { mem := m, loc := [.ptr bk 0, .ptr ag 0, .undef] } = .normal (P 0) := by
    simp [exec, evalE, evalL, writePlace, convert, w0, bind, Except.bind, P]
  have htest_lt : ∀ i, i < ents.length → testOf (some hgTest) (P i) = .ok (true, P i) := by
    intro i hi
    have : (i : Int) < (ents.length : Int) := by omega
    simp [hgTest, testOf, evalE, evalL, readPlace, hlen, binop, cmpInt, boolVal, truth, this, bind, Except.bind, P]
  have htest_ge : testOf (some hgTest) (P ents.length) = .ok (false, P ents.length) := by
    simp [hgTest, testOf, evalE, evalL, readPlace, hlen, binop, cmpInt, boolVal, truth, bind, Except.bind, P]
  have hstep : ∀ i, i < ents.length → stepOf (some (.incdec (.var 2) true true .u64)) (P i) = .ok (P (i + 1)) := by
    intro i hi
    have : wrapTo .u64 ((i : Int) + 1) = (i : Int) + 1 := wrapTo_u64_small _ (by omega) (by omega)
    simp [stepOf, evalE, evalL, readPlace, writePlace, binop, cmpInt, arith, Ty.signed, convert, this, bind, Except.bind, Except.map, P]
  have hgz := cstr_nz hg
  have hcond : ∀ i (hi : i < ents.length), testOf (some hgMatch) (P i) = .ok (decide ((ents[i]).1 = g), P i) := by
    intro i hi
    obtain ⟨bg, l1, c1⟩ := h.group i hi
    have hsx := h.sidx i (Nat.le_of_lt hi)
    have z1 := cstr_nz c1
    by_cases e1 : (ents[i]).1 = g
    · have q1 : cmpBytes g g = 0 := (cmpBytes_eq_zero _ _ hgz hgz).2 rfl
      simp [hgMatch, testOf, evalE, evalL, evalArgs, readPlace, harr, hsx, l1, c1, hg, builtin, unop, truth, boolVal, q1, e1,
        bind, Except.bind, Except.map, P]
    · have q1 : cmpBytes (ents[i]).1 g ≠ 0 := fun hq => e1 ((cmpBytes_eq_zero _ _ z1 hgz).1 hq)
      simp [hgMatch, testOf, evalE, evalL, evalArgs, readPlace, harr, hsx, l1, c1, hg, builtin, unop, truth, boolVal, q1, e1,
        bind, Except.bind, Except.map, P]
  have hmiss : ∀ i, i < firstG ents g → exec fuel hgBody (P i) = .normal (P i) := by
    intro i hi
    have hi' : i < ents.length := Nat.lt_of_lt_of_le hi (firstG_le ents g)
    have hc := hcond i hi'
    have : decide ((ents[i]).1 = g) = false := by simpa using firstG_before ents g i hi
    rw [this] at hc
    unfold hgBody; rw [exec_ite_false hc]; simp [exec]
  have b1 : wrapTo .bool 1 = 1 := by decide
  have b0 : wrapTo .bool 0 = 0 := by decide
  have hhit : firstG ents g < ents.length → exec fuel hgBody (P (firstG ents g)) = .ret (.int 1) (P (firstG ents g)) := by
    intro hlt
    have hc := hcond _ hlt
    have : decide ((ents[firstG ents g]).1 = g) = true := by simpa using firstG_at ents g hlt
    rw [this] at hc
    unfold hgBody; rw [exec_ite_true hc]
    simp [exec, evalE, convert, b1, bind, Except.bind]
  have hl := search_loop fuel hgTest _ hgBody P ents.length (firstG ents g) (.int 1) htest_lt htest_ge hstep hmiss (firstG_le ents g) hhit hf
  rw [has_group_shape, exec_seq_normal hinit]
  by_cases hlt : firstG ents g < ents.length
  · simp only [hlt, if_true] at hl ⊢
    exact ⟨_, exec_seq_ret hl⟩
  · simp only [hlt, if_false] at hl ⊢
    rw [exec_seq_normal hl]
    exact ⟨[.ptr bk 0, .ptr ag 0, .int (ents.length : Int)], by simp [exec, evalE, convert, b0, bind, Except.bind, P]⟩

theorem exec_inl_val {fuel : Nat} {args : Args} {nl : Nat} {body : Stmt} {st st1 st' : St} {vs : List Val} {v v' : Val} {dty : Ty} {i : Nat}
    (ha : evalArgs args st = .ok (vs, st1))
    (hb : exec fuel body { mem := st1.mem, loc := vs ++ List.replicate (nl - vs.length) .undef } = .ret v st')
    (hc : convert dty v = .ok v') (hi : i < st1.loc.length) :
    exec fuel (.inl (some (.var i)) dty args nl body) st = .normal { mem := st'.mem, loc := st1.loc.set i v' } := by
  simp [exec, ha, hb, evalL, hc, writePlace, hi, Except.bind]

theorem first_definition_shape : LeafFns.first_definition.body =
    .seq (.inl (some (.var 2)) .u64 (.cons (.load (.var 0) .ptr)
        (.cons (.load (.slot (.sidx (.load (.slot (.load (.var 0) .ptr) 0) .ptr) (.load (.var 1) .u64) 7) 0) .ptr)
          (.cons (.load (.slot (.sidx (.load (.slot (.load (.var 0) .ptr) 0) .ptr) (.load (.var 1) .u64) 7) 1) .ptr) .nil))) 4 LeafFns.first_entry.body)
      (.ret (some (.cast .bool (.bin .eq (.load (.var 2) .u64) (.load (.var 1) .u64) .i32)))) := rfl

/-- `first_definition(kf, num)`: is entry `num` the first one with its group and key? -/
theorem first_definition_exec (m : Mem) (bk be : Nat) (ents : Ents) (num : Nat) (hnum : num < ents.length) (h : KfMem m bk be ents)
    (hsmall : (ents.length : Int) + 1 < 18446744073709551616) (fuel : Nat) (hf : ents.length < fuel) :
    ∃ loc', exec fuel LeafFns.first_definition.body { mem := m, loc := [.ptr bk 0, .int (num : Int), .undef] } =
      .ret (.int (if firstIdx ents (ents[num]).1 (ents[num]).2 = num then 1 else 0)) { mem := m, loc := loc' } := by
  obtain ⟨bg, l1, c1⟩ := h.group num hnum
  obtain ⟨bq, l2, c2⟩ := h.key num hnum
  have hsx := h.sidx num (Nat.le_of_lt hnum)
  have harr := h.arrp
  have ha : evalArgs (.cons (.load (.var 0) .ptr)
        (.cons (.load (.slot (.sidx (.load (.slot (.load (.var 0) .ptr) 0) .ptr) (.load (.var 1) .u64) 7) 0) .ptr)
          (.cons (.load (.slot (.sidx (.load (.slot (.load (.var 0) .ptr) 0) .ptr) (.load (.var 1) .u64) 7) 1) .ptr) .nil)))
      { mem := m, loc := [.ptr bk 0, .int (num : Int), .undef] } =
      .ok ([.ptr bk 0, .ptr bg 0, .ptr bq 0], { mem := m, loc := [.ptr bk 0, .int (num : Int), .undef] }) := by
    simp [evalArgs, evalE, evalL, readPlace, harr, hsx, l1, l2, bind, Except.bind]
  have hfe := first_entry_exec m bk be bg bq ents _ _ h c1 c2 hsmall fuel hf
  have hfi := firstIdx_le ents (ents[num]).1 (ents[num]).2
  have hcv : convert .u64 (.int (firstIdx ents (ents[num]).1 (ents[num]).2 : Int)) = .ok (.int (firstIdx ents (ents[num]).1 (ents[num]).2 : Int)) := by
    simp [convert, wrapTo_u64_small _ (Int.natCast_nonneg _) (by omega : ((firstIdx ents (ents[num]).1 (ents[num]).2 : Nat) : Int) < 18446744073709551616)]
  have hinl := exec_inl_val (fuel := fuel) (nl := 4) (i := 2) (dty := .u64) ha (by simpa using hfe) hcv (by simp)
  rw [first_definition_shape, exec_seq_normal hinl]
  have b1 : wrapTo .bool 1 = 1 := by decide
  have b0 : wrapTo .bool 0 = 0 := by decide
  refine ⟨[.ptr bk 0, .int (num : Int), .int (firstIdx ents (ents[num]).1 (ents[num]).2 : Int)], ?_⟩
  by_cases e : firstIdx ents (ents[num]).1 (ents[num]).2 = num
  · have e' : ((firstIdx ents (ents[num]).1 (ents[num]).2 : Nat) : Int) = (num : Int) := by omega
    simp [exec, evalE, evalL, readPlace, binop, cmpInt, boolVal, convert, e, e', b1, bind, Except.bind]
  · have e' : ¬ ((firstIdx ents (ents[num]).1 (ents[num]).2 : Nat) : Int) = (num : Int) := by omega
    simp [exec, evalE, evalL, readPlace, binop, cmpInt, boolVal, convert, e, e', b0, bind, Except.bind]

/-! ### the list-level model -/

/-- what the C functions look at: group and key of every entry -/
def entsOf (es : List Econf.Entry) : Ents := es.map (fun e => (e.group, e.key))

theorem firstIdx_model (es : List Econf.Entry) (g k : List UInt8) :
    firstIdx (entsOf es) g k = (Econf.findIdx es g k).getD es.length := by
  induction es with
  | nil => simp [firstIdx, entsOf, Econf.findIdx]
  | cons e es ih =>
    by_cases hm : (e.group == g && e.key == k) = true
    · have hp : (!((e.group, e.key).1 == g && (e.group, e.key).2 == k)) = false := by simp only [hm, Bool.not_true]
      simp only [firstIdx, entsOf, List.map_cons, List.takeWhile_cons, hp, Econf.findIdx, List.findIdx?_cons, hm]
      simp
    · have hm' : (e.group == g && e.key == k) = false := by simpa using hm
      have hp : (!((e.group, e.key).1 == g && (e.group, e.key).2 == k)) = true := by simp only [hm', Bool.not_false]
      have : firstIdx (entsOf (e :: es)) g k = firstIdx (entsOf es) g k + 1 := by
        simp only [firstIdx, entsOf, List.map_cons, List.takeWhile_cons, hp, if_true, List.length_cons]
      rw [this, ih]
      simp only [Econf.findIdx, List.findIdx?_cons, hm', Bool.false_eq_true, if_false, List.length_cons]
      cases List.findIdx? (fun e => e.group == g && e.key == k) es <;> simp

theorem firstG_model (es : List Econf.Entry) (g : List UInt8) :
    decide (firstG (entsOf es) g < es.length) = Econf.hasGroup es g := by
  induction es with
  | nil => simp [firstG, entsOf, Econf.hasGroup]
  | cons e es ih =>
    by_cases hm : (e.group == g) = true
    · simp [firstG, entsOf, Econf.hasGroup, List.takeWhile, hm]
    · have hm' : (e.group == g) = false := by simpa using hm
      have : firstG (entsOf (e :: es)) g = firstG (entsOf es) g + 1 := by simp [firstG, entsOf, List.takeWhile, hm']
      rw [this]
      have ih' := ih
      simp only [Econf.hasGroup, List.any_cons, hm', Bool.false_or] at ih' ⊢
      rw [← ih']
      simp

/-- `first_entry` (lib/mergefiles.c) on the translated term: for every entry array and every group and key the function
    runs without a fault – no access outside the array of `length` entries –, leaves the memory alone and returns the
    index the model's `findIdx` names, or `length` when the model finds nothing. -/
theorem C_first_entry (m : Mem) (bk be ag ak : Nat) (es : List Econf.Entry) (g k : List UInt8) (h : KfMem m bk be (entsOf es))
    (hg : m.cstr ag 0 = .ok g) (hk : m.cstr ak 0 = .ok k) (hsmall : (es.length : Int) + 1 < 18446744073709551616)
    (fuel : Nat) (hf : es.length < fuel) :
    ∃ loc', exec fuel LeafFns.first_entry.body { mem := m, loc := [.ptr bk 0, .ptr ag 0, .ptr ak 0, .undef] } =
      .ret (.int (((Econf.findIdx es g k).getD es.length : Nat) : Int)) { mem := m, loc := loc' } := by
  have hl : (entsOf es).length = es.length := by simp [entsOf]
  have := first_entry_exec m bk be ag ak (entsOf es) g k h hg hk (by rw [hl]; exact hsmall) fuel (by rw [hl]; exact hf)
  rw [firstIdx_model] at this
  exact ⟨_, this⟩

/-- `has_group` on the translated term: no fault, memory untouched, the answer is the model's `hasGroup`. -/
theorem C_has_group (m : Mem) (bk be ag : Nat) (es : List Econf.Entry) (g : List UInt8) (h : KfMem m bk be (entsOf es))
    (hg : m.cstr ag 0 = .ok g) (hsmall : (es.length : Int) + 1 < 18446744073709551616) (fuel : Nat) (hf : es.length < fuel) :
    ∃ loc', exec fuel LeafFns.has_group.body { mem := m, loc := [.ptr bk 0, .ptr ag 0, .undef] } =
      .ret (.int (if Econf.hasGroup es g then 1 else 0)) { mem := m, loc := loc' } := by
  have hl : (entsOf es).length = es.length := by simp [entsOf]
  obtain ⟨loc', this⟩ := has_group_exec m bk be ag (entsOf es) g h hg (by rw [hl]; exact hsmall) fuel (by rw [hl]; exact hf)
  refine ⟨loc', ?_⟩
  rw [this, hl]
  have := firstG_model es g
  by_cases hlt : firstG (entsOf es) g < es.length
  · simp [hlt] at this ⊢; simp [← this]
  · simp [hlt] at this ⊢; simp [← this]

/-- the hypotheses are satisfiable: an object with two entries in a concrete memory -/
example : KfMem
    [{ cells := [], slots := [.ptr 1 0, .int 2] }, { cells := [], slots := [.ptr 2 0, .ptr 3 0, .null, .null, .null, .int 0, .int 0, .ptr 2 0, .ptr 4 0, .null, .null, .null, .int 0, .int 0] },
     strBlock [65], strBlock [120], strBlock [121]] 0 1 [([65], [120]), ([65], [121])] := by
  refine ⟨⟨_, rfl, rfl, rfl, rfl⟩, ⟨_, rfl, rfl, rfl, ?_⟩⟩
  intro i hi
  have : i = 0 ∨ i = 1 := by simp at hi; omega
  rcases this with rfl | rfl
  · exact ⟨2, 3, rfl, rfl, rfl, rfl⟩
  · exact ⟨2, 4, rfl, rfl, rfl, rfl⟩

/-! ## `find_key` (lib/helpers.c) -/

theorem strdup_spec (m : Mem) (b : Nat) (o : Int) (s : List UInt8) (h : m.cstr b o = .ok s) :
    ∃ m', builtin "strdup" [.ptr b o] m = .ok (.ptr m.length 0, m') ∧ MemBytes m' m.length (s ++ [0]) ∧
      m'.length = m.length + 1 ∧ ∀ b', b' < m.length → m'[b']? = m[b']? := by
  obtain ⟨a1, a2, a3, a4⟩ := alloc_spec m (s.length + 1)
  have hp : MemPart (m.alloc (s.length + 1)).1 m.length [] ((s ++ [0]).length + 0) := by simpa using a2
  obtain ⟨m', hs, hm', hl, ho⟩ := hp.storeBytes (s ++ [0])
  refine ⟨m', ?_, by simpa using hm'.toBytes, by rw [hl, a3], fun b' hb' => by rw [ho b' (by omega), a4 b' hb']⟩
  simp only [List.length_nil, Int.natCast_zero] at hs
  have e : (m.alloc (s.length + 1)) = ((m.alloc (s.length + 1)).1, m.length) := by rw [← a1]
  simp only [builtin, h, bind, Except.bind]
  rw [e]
  simp [hs]

theorem free_spec (m : Mem) (b : Nat) (blk : Block) (h1 : m[b]? = some blk) (h2 : blk.live = true) :
    builtin "free" [.ptr b 0] m = .ok (.int 0, m.set b { blk with live := false }) := by
  simp [builtin, Mem.block, h1, h2, bind, Except.bind]

theorem cstr_congr {m m' : Mem} {b : Nat} (h : m'[b]? = m[b]?) (o : Int) : m'.cstr b o = m.cstr b o := by
  simp [Mem.cstr, Mem.block, h]

theorem loadSlot_congr {m m' : Mem} {b : Nat} (h : m'[b]? = m[b]?) (i : Int) : m'.loadSlot b i = m.loadSlot b i := by
  simp [Mem.loadSlot, Mem.block, h]

theorem cstr_lt {m : Mem} {b : Nat} {o : Int} {s : List UInt8} (h : m.cstr b o = .ok s) : b < m.length := by
  cases hb : m[b]? with
  | none => simp [Mem.cstr, Mem.block, hb, bind, Except.bind] at h
  | some blk => exact (List.getElem?_eq_some_iff.1 hb).1

/-- a memory that agrees with `m` on the blocks of `m` still holds the object -/
theorem KfMem.mono {m m' : Mem} {bk be : Nat} {ents : Ents} (h : KfMem m bk be ents) (hm : ∀ b, b < m.length → m'[b]? = m[b]?) :
    KfMem m' bk be ents := by
  obtain ⟨blk, k1, k2, k3, k4⟩ := h.kf
  obtain ⟨ablk, a1, a2, a3, a4⟩ := h.arr
  have lk : bk < m.length := (List.getElem?_eq_some_iff.1 k1).1
  have la : be < m.length := (List.getElem?_eq_some_iff.1 a1).1
  refine ⟨⟨blk, by rw [hm bk lk]; exact k1, k2, k3, k4⟩, ⟨ablk, by rw [hm be la]; exact a1, a2, a3, ?_⟩⟩
  intro i hi
  obtain ⟨bg, bq, e1, e2, e3, e4⟩ := a4 i hi
  exact ⟨bg, bq, e1, e2, by rw [cstr_congr (hm bg (cstr_lt e3))]; exact e3, by rw [cstr_congr (hm bq (cstr_lt e4))]; exact e4⟩

def headCh : List UInt8 → Int
  | [] => 0
  | c :: _ => sch c

/-- first byte of a C string, as `char` -/
theorem cstr_head {m : Mem} {b : Nat} {s : List UInt8} (h : m.cstr b 0 = .ok s) :
    m.load8 b 0 = .ok (headCh s) := by
  simp only [Mem.cstr, bind, Except.bind] at h
  cases hb : m.block b with
  | error e => simp [hb] at h
  | ok blk =>
    simp only [hb, Int.lt_irrefl, if_false, Int.toNat_zero, Nat.zero_le, if_true, List.drop_zero] at h
    cases hc : blk.cells with
    | nil => simp [hc, cstrFrom] at h
    | cons c rest =>
      cases c with
      | none => simp [hc, cstrFrom] at h
      | some c =>
        simp only [hc, cstrFrom] at h
        by_cases hz : c = 0
        · subst hz
          simp at h; subst h
          simp [Mem.load8, hb, hc, bind, Except.bind, headCh]
          decide
        · have hz' : (c == 0) = false := by simpa using hz
          simp only [hz', Bool.false_eq_true, if_false] at h
          cases hr : cstrFrom rest with
          | error e => simp [hr, Except.map] at h
          | ok r =>
            simp only [hr, Except.map] at h
            injection h with h; subst h
            simp [Mem.load8, hb, hc, bind, Except.bind, sch, headCh]

def fkGrp : Expr := .cond (.lor (.un .lnot (.load (.var 1) .ptr) .i32) (.un .lnot (.load (.deref (.load (.var 1) .ptr)) .i8) .i32))
  (.call "strdup" (.cons (.strlit [95, 110, 111, 110, 101, 95]) .nil)) (.call "strdup" (.cons (.load (.var 1) .ptr) .nil))
def fkNoKey : Expr := .lor (.un .lnot (.load (.var 2) .ptr) .i32) (.un .lnot (.load (.deref (.load (.var 2) .ptr)) .i8) .i32)
def fkFree : Stmt := .expr (.call "free" (.cons (.load (.var 4) .ptr) .nil))
def fkTest : Expr := .bin .lt (.load (.var 5) .u64) (.load (.slot (.load (.var 0) .ptr) 1) .u64) .i32
def fkMatch : Expr := .land
  (.un .lnot (.call "strcmp" (.cons (.load (.slot (.sidx (.load (.slot (.load (.var 0) .ptr) 0) .ptr) (.load (.var 5) .u64) 7) 0) .ptr) (.cons (.load (.var 4) .ptr) .nil))) .i32)
  (.un .lnot (.call "strcmp" (.cons (.load (.slot (.sidx (.load (.slot (.load (.var 0) .ptr) 0) .ptr) (.load (.var 5) .u64) 7) 1) .ptr) (.cons (.load (.var 2) .ptr) .nil))) .i32)
def fkHit : Stmt := .seq fkFree (.seq (.expr (.assign (.slot (.load (.var 3) .ptr) 0) (.load (.var 5) .u64) .u64)) (.ret (some (.cast .u32 (.lit 0 .i32)))))
def fkBody : Stmt := .ite fkMatch fkHit .skip

theorem find_key_shape : LeafFns.find_key.body =
    .seq (.expr (.assign (.var 4) fkGrp .ptr))
      (.seq (.ite (.bin .eq (.load (.var 4) .ptr) .null .i32) (.ret (some (.cast .u32 (.lit 2 .i32)))) .skip)
        (.seq (.ite fkNoKey (.seq fkFree (.ret (some (.cast .u32 (.lit 1 .i32))))) .skip)
          (.seq (.expr (.assign (.var 5) (.cast .u64 (.lit 0 .i32)) .u64))
            (.seq (.for (some fkTest) (some (.incdec (.var 5) true true .u64)) fkBody)
              (.seq fkFree (.ret (some (.cast .u32 (.lit 5 .i32))))))))) := rfl

/-- a `const char *` argument: NULL or a C string -/
inductive StrArg (m : Mem) : Val → Option (List UInt8) → Prop where
  | null : StrArg m .null none
  | str (b : Nat) (s : List UInt8) (h : m.cstr b 0 = .ok s) : StrArg m (.ptr b 0) (some s)

/-- the group a lookup uses: NULL and "" mean the group of the group-less keys -/
def grpOf (g : Option (List UInt8)) : List UInt8 :=
  match g with
  | none => Econf.NONE
  | some g => if g.isEmpty then Econf.NONE else g

theorem lit_cstr (m : Mem) (bs : List UInt8) (hz : (0 : UInt8) ∉ bs) :
    (m ++ [({ cells := (bs ++ [0]).map some, writable := false } : Block)]).cstr m.length 0 = .ok bs := by
  have := cstrFrom_str bs hz []
  simp [Mem.cstr, Mem.block, bind, Except.bind, this]

/-- the first statement: `grp` is a fresh copy of the group name in a block of its own -/
theorem fk_grp (m : Mem) (loc : List Val) (gv : Val) (g : Option (List UInt8)) (hg : StrArg m gv g) (hl1 : loc[1]? = some gv) (hl4 : 4 < loc.length)
    (fuel : Nat) :
    ∃ m1 gb, exec fuel (.expr (.assign (.var 4) fkGrp .ptr)) { mem := m, loc := loc } = .normal { mem := m1, loc := loc.set 4 (.ptr gb 0) } ∧
      m.length ≤ gb ∧ MemBytes m1 gb (grpOf g ++ [0]) ∧ (∀ b, b < m.length → m1[b]? = m[b]?) ∧
      (∀ b blk, m.length ≤ b → b ≠ gb → m1[b]? = some blk → blk.writable = false) := by
  have hnz : (0 : UInt8) ∉ [95, 110, 111, 110, 101, 95] := by decide
  -- the copy of "_none_": the literal is a read-only block, the copy the block behind it
  have hlit : ∃ m1, evalE (.call "strdup" (.cons (.strlit [95, 110, 111, 110, 101, 95]) .nil)) { mem := m, loc := loc } =
        .ok (.ptr (m.length + 1) 0, { mem := m1, loc := loc }) ∧ MemBytes m1 (m.length + 1) (Econf.NONE ++ [0]) ∧
        (∀ b, b < m.length → m1[b]? = m[b]?) ∧ (∀ b blk, m.length ≤ b → b ≠ m.length + 1 → m1[b]? = some blk → blk.writable = false) := by
    have hc := lit_cstr m _ hnz
    obtain ⟨m1, d1, d2, d3, d4⟩ := strdup_spec _ _ _ _ hc
    simp only [List.length_append, List.length_singleton] at d1 d2 d3 d4
    refine ⟨m1, ?_, d2, fun b hb => by rw [d4 b (by omega)]; simp [List.getElem?_append_left hb], ?_⟩
    · simp only [evalE, evalArgs, bind, Except.bind, d1]
    · intro b blk hb1 hb2 hb3
      have hlt : b < m1.length := (List.getElem?_eq_some_iff.1 hb3).1
      have : b = m.length := by omega
      subst this
      rw [d4 _ (by omega)] at hb3
      simp at hb3
      rw [← hb3]
  cases hg with
  | null =>
    obtain ⟨m1, e1, e2, e3, e4⟩ := hlit
    refine ⟨m1, m.length + 1, ?_, by omega, e2, e3, e4⟩
    simp only [fkGrp]
    generalize (Expr.call "strdup" (Args.cons (Expr.strlit [95, 110, 111, 110, 101, 95]) Args.nil)) = E at e1 ⊢
    simp [exec, evalE, evalL, readPlace, hl1, unop, truth, boolVal, e1, convert, writePlace, hl4, bind, Except.bind, Except.map]
  | str b s h =>
    have hh := cstr_head h
    cases s with
    | nil =>
      obtain ⟨m1, e1, e2, e3, e4⟩ := hlit
      refine ⟨m1, m.length + 1, ?_, by omega, by simpa [grpOf] using e2, e3, e4⟩
      simp only [fkGrp]
      simp only [headCh] at hh
      generalize (Expr.call "strdup" (Args.cons (Expr.strlit [95, 110, 111, 110, 101, 95]) Args.nil)) = E at e1 ⊢
      simp [exec, evalE, evalL, readPlace, hl1, hh, unop, truth, boolVal, e1, convert, writePlace, hl4, bind, Except.bind, Except.map]
    | cons c cs =>
      have hcz : c ≠ 0 := fun hc0 => (cstr_nz h) (by simp [hc0])
      have hs0 : sch c ≠ 0 := fun h0 => hcz ((sch_zero_iff c).1 h0)
      obtain ⟨m1, d1, d2, d3, d4⟩ := strdup_spec _ _ _ _ h
      refine ⟨m1, m.length, ?_, Nat.le_refl _, by simpa [grpOf] using d2, d4, ?_⟩
      · simp only [headCh] at hh
        simp [fkGrp, exec, evalE, evalArgs, evalL, readPlace, hl1, hh, hs0, unop, truth, boolVal, d1, convert, writePlace, hl4, bind, Except.bind, Except.map]
      · intro b' blk hb1 hb2 hb3
        have hlt : b' < m1.length := (List.getElem?_eq_some_iff.1 hb3).1
        omega

/-- the argument check of `find_key`: no key, or an empty one -/
theorem fk_nokey (m : Mem) (loc : List Val) (kv : Val) (k : Option (List UInt8)) (hk : StrArg m kv k) (hl2 : loc[2]? = some kv) :
    testOf (some fkNoKey) { mem := m, loc := loc } = .ok (decide (k = none ∨ k = some []), { mem := m, loc := loc }) := by
  cases hk with
  | null => simp [fkNoKey, testOf, evalE, evalL, readPlace, hl2, unop, truth, boolVal, bind, Except.bind, Except.map]
  | str b s h =>
    have hh := cstr_head h
    cases s with
    | nil =>
      simp only [headCh] at hh
      simp [fkNoKey, testOf, evalE, evalL, readPlace, hl2, hh, unop, truth, boolVal, bind, Except.bind, Except.map]
    | cons c cs =>
      have hcz : c ≠ 0 := fun hc0 => (cstr_nz h) (by simp [hc0])
      have hs0 : sch c ≠ 0 := fun h0 => hcz ((sch_zero_iff c).1 h0)
      simp only [headCh] at hh
      simp [fkNoKey, testOf, evalE, evalL, readPlace, hl2, hh, hs0, unop, truth, boolVal, bind, Except.bind, Except.map]

/-- the result code of `find_key` -/
def fkCode (ents : Ents) (g k : Option (List UInt8)) : Int :=
  match k with
  | none => 1
  | some [] => 1
  | some (c :: cs) => if firstIdx ents (grpOf g) (c :: cs) < ents.length then 0 else 5

/-- `free(grp)`: the copy is dead afterwards, everything else as before -/
theorem fk_free (m1 : Mem) (loc : List Val) (gb : Nat) (cells : List UInt8) (hb : MemBytes m1 gb cells) (hl4 : loc[4]? = some (.ptr gb 0)) (fuel : Nat) :
    ∃ blk, m1[gb]? = some blk ∧
      exec fuel fkFree { mem := m1, loc := loc } = .normal { mem := m1.set gb { blk with live := false }, loc := loc } := by
  obtain ⟨blk, b1, b2, _, _⟩ := hb.blk
  refine ⟨blk, b1, ?_⟩
  have := free_spec m1 gb blk b1 b2
  simp [fkFree, exec, evalE, evalArgs, evalL, readPlace, hl4, this, bind, Except.bind]

/-- `search_loop` with a hit that changes the state -/
theorem search_loop' (fuel : Nat) (test inc : Expr) (body : Stmt) (P : Nat → St) (n f : Nat) (v : Val) (R : St)
    (htest_lt : ∀ i, i < n → testOf (some test) (P i) = .ok (true, P i))
    (htest_ge : testOf (some test) (P n) = .ok (false, P n))
    (hstep : ∀ i, i < n → stepOf (some inc) (P i) = .ok (P (i + 1)))
    (hmiss : ∀ i, i < f → exec fuel body (P i) = .normal (P i))
    (hfn : f ≤ n) (hhit : f < n → exec fuel body (P f) = .ret v R) (hfuel : n < fuel) :
    exec fuel (.for (some test) (some inc) body) (P 0) = if f < n then .ret v R else .normal (P n) := by
  rw [exec_for]
  have hround : ∀ i, i < f → testOf (some test) (P i) = .ok (true, P i) ∧
      ∃ Q, (exec fuel body (P i) = .normal Q ∨ exec fuel body (P i) = .cont Q) ∧ stepOf (some inc) Q = .ok (P (i + 1)) :=
    fun i hi => ⟨htest_lt i (by omega), P i, Or.inl (hmiss i hi), hstep i (by omega)⟩
  by_cases hlt : f < n
  · simp only [hlt, if_true]
    exact loop_ret _ _ _ f P _ _ hround (htest_lt f hlt) (hhit hlt) fuel (by omega)
  · simp only [hlt, if_false]
    have : f = n := by omega
    subst this
    exact loop_count _ _ _ f P (P f) hround htest_ge fuel hfuel

theorem StrArg.mono {m m' : Mem} {v : Val} {s : Option (List UInt8)} (h : StrArg m v s) (hm : ∀ b, b < m.length → m'[b]? = m[b]?) :
    StrArg m' v s := by
  cases h with
  | null => exact .null
  | str b s hc => exact .str b s (by rw [cstr_congr (hm b (cstr_lt hc))]; exact hc)

theorem set_other {m : Mem} {b b' : Nat} {blk : Block} (hne : b' ≠ b) : (m.set b blk)[b']? = m[b']? := by
  simp [List.getElem?_set, Ne.symm hne]

theorem find_key_exec (m : Mem) (bk be bn : Nat) (ents : Ents) (gv kv : Val) (g k : Option (List UInt8))
    (h : KfMem m bk be ents) (hg : StrArg m gv g) (hk : StrArg m kv k)
    (hn : ∃ blk, m[bn]? = some blk ∧ blk.live = true ∧ blk.writable = true ∧ blk.slots.length = 1)
    (hsmall : (ents.length : Int) + 1 < 18446744073709551616) (fuel : Nat) (hf : ents.length < fuel) :
    ∃ m' loc', exec fuel LeafFns.find_key.body { mem := m, loc := [.ptr bk 0, gv, kv, .ptr bn 0, .undef, .undef] } =
        .ret (.int (fkCode ents g k)) { mem := m', loc := loc' } ∧
      (∀ b, b < m.length → b ≠ bn → m'[b]? = m[b]?) ∧
      (fkCode ents g k = 0 → m'.loadSlot bn 0 = .ok (.int (firstIdx ents (grpOf g) (k.getD [])))) ∧
      (fkCode ents g k ≠ 0 → m'[bn]? = m[bn]?) ∧
      (∀ b blk, m.length ≤ b → m'[b]? = some blk → blk.live = true → blk.writable = false) := by
  obtain ⟨m1, gb, hS1, hgb, hgm, hfr, hro⟩ := fk_grp m [.ptr bk 0, gv, kv, .ptr bn 0, .undef, .undef] gv g hg rfl (by simp) fuel
  simp only [List.set_cons_succ, List.set_cons_zero] at hS1
  rw [find_key_shape, exec_seq_normal hS1]
  have hS2 : exec fuel (.ite (.bin .eq (.load (.var 4) .ptr) .null .i32) (.ret (some (.cast .u32 (.lit 2 .i32)))) .skip)
      { mem := m1, loc := [.ptr bk 0, gv, kv, .ptr bn 0, .ptr gb 0, .undef] } =
      .normal { mem := m1, loc := [.ptr bk 0, gv, kv, .ptr bn 0, .ptr gb 0, .undef] } := by
    simp [exec, testOf, evalE, evalL, readPlace, binop, boolVal, truth, bind, Except.bind]
  rw [exec_seq_normal hS2]
  have hk1 := hk.mono hfr
  have hnk := fk_nokey m1 [.ptr bk 0, gv, kv, .ptr bn 0, .ptr gb 0, .undef] kv k hk1 rfl
  obtain ⟨nblk, n1, n2, n3, n4⟩ := hn
  have hbn : bn < m.length := (List.getElem?_eq_some_iff.1 n1).1
  have hbn_gb : bn ≠ gb := by omega
  -- what `free(grp)` leaves, for every state of the local variables
  have hfree : ∀ loc : List Val, loc[4]? = some (.ptr gb 0) → ∃ gblk, m1[gb]? = some gblk ∧
      exec fuel fkFree { mem := m1, loc := loc } = .normal { mem := m1.set gb { gblk with live := false }, loc := loc } :=
    fun loc hl => fk_free m1 loc gb _ hgm hl fuel
  have hframe2 : ∀ gblk : Block, ∀ b, b < m.length → (m1.set gb { gblk with live := false })[b]? = m[b]? := by
    intro gblk b hb
    rw [set_other (by omega), hfr b hb]
  have hleak2 : ∀ gblk : Block, ∀ b blk, m.length ≤ b → (m1.set gb { gblk with live := false })[b]? = some blk → blk.live = true → blk.writable = false := by
    intro gblk b blk hb hsome hlive
    by_cases hbg : b = gb
    · subst hbg
      have hlt : b < m1.length := by
        have := (List.getElem?_eq_some_iff.1 hsome).1
        simpa using this
      simp [List.getElem?_set, hlt] at hsome
      rw [← hsome] at hlive
      simp at hlive
    · rw [set_other hbg] at hsome
      exact hro b blk hb hbg hsome
  by_cases hno : k = none ∨ k = some []
  · -- no key: `grp` is released, ECONF_ERROR
    have hd : decide (k = none ∨ k = some []) = true := by simpa using hno
    rw [hd] at hnk
    obtain ⟨gblk, _, hfr1⟩ := hfree [.ptr bk 0, gv, kv, .ptr bn 0, .ptr gb 0, .undef] rfl
    have w1 : wrapTo .u32 1 = 1 := by decide
    have hret : exec fuel (.ite fkNoKey (.seq fkFree (.ret (some (.cast .u32 (.lit 1 .i32))))) .skip)
        { mem := m1, loc := [.ptr bk 0, gv, kv, .ptr bn 0, .ptr gb 0, .undef] } =
        .ret (.int 1) { mem := m1.set gb { gblk with live := false }, loc := [.ptr bk 0, gv, kv, .ptr bn 0, .ptr gb 0, .undef] } := by
      rw [exec_ite_true hnk, exec_seq_normal hfr1]
      simp [exec, evalE, convert, w1, bind, Except.bind]
    have hcode : fkCode ents g k = 1 := by
      rcases hno with rfl | rfl <;> rfl
    refine ⟨_, _, by rw [exec_seq_ret hret, hcode], fun b hb _ => hframe2 gblk b hb, by rw [hcode]; intro h0; exact absurd h0 (by decide),
      fun _ => hframe2 gblk bn hbn, hleak2 gblk⟩
  · -- a key: the search
    have hd : decide (k = none ∨ k = some []) = false := by simpa using hno
    rw [hd] at hnk
    have hS3 : exec fuel (.ite fkNoKey (.seq fkFree (.ret (some (.cast .u32 (.lit 1 .i32))))) .skip)
        { mem := m1, loc := [.ptr bk 0, gv, kv, .ptr bn 0, .ptr gb 0, .undef] } =
        .normal { mem := m1, loc := [.ptr bk 0, gv, kv, .ptr bn 0, .ptr gb 0, .undef] } := by
      rw [exec_ite_false hnk]; simp [exec]
    rw [exec_seq_normal hS3]
    -- the key argument is a non-empty string
    obtain ⟨ak, ks, rfl, rfl, hkc, hkne⟩ : ∃ ak ks, kv = .ptr ak 0 ∧ k = some ks ∧ m1.cstr ak 0 = .ok ks ∧ ks ≠ [] := by
      cases hk1 with
      | null => exact absurd (Or.inl rfl) hno
      | str b s hc => exact ⟨b, s, rfl, rfl, hc, fun he => hno (Or.inr (by rw [he]))⟩
    have h1 : KfMem m1 bk be ents := h.mono hfr
    have hlen := h1.len
    have harr := h1.arrp
    have hnone : (0 : UInt8) ∉ Econf.NONE := by decide
    have hgz : (0 : UInt8) ∉ grpOf g := by
      cases hg with
      | null => exact hnone
      | str b s hc =>
        unfold grpOf
        simp only
        split
        · exact hnone
        · exact cstr_nz hc
    have hgc : m1.cstr gb 0 = .ok (grpOf g) := hgm.cstr0 (rest := []) hgz
    have hkz := cstr_nz hkc
    have w0 : wrapTo .u64 0 = 0 := wrapTo_u64_small 0 (by decide) (by decide)
    let P : Nat → St := fun i => { mem := m1, loc := [.ptr bk 0, gv, .ptr ak 0, .ptr bn 0, .ptr gb 0, .int (i : Int)] }
    have hinit : exec fuel (.expr (.assign (.var 5) (.cast .u64 (.lit 0 .i32)) .u64))
        { mem := m1, loc := [.ptr bk 0, gv, .ptr ak 0, .ptr bn 0, .ptr gb 0, .undef] } = .normal (P 0) := by
      simp [exec, evalE, evalL, writePlace, convert, w0, bind, Except.bind, P]
    rw [exec_seq_normal hinit]
    have htest_lt : ∀ i, i < ents.length → testOf (some fkTest) (P i) = .ok (true, P i) := by
      intro i hi
      have : (i : Int) < (ents.length : Int) := by omega
      simp [fkTest, testOf, evalE, evalL, readPlace, hlen, binop, cmpInt, boolVal, truth, this, bind, Except.bind, P]
    have htest_ge : testOf (some fkTest) (P ents.length) = .ok (false, P ents.length) := by
      simp [fkTest, testOf, evalE, evalL, readPlace, hlen, binop, cmpInt, boolVal, truth, bind, Except.bind, P]
    have hstep : ∀ i, i < ents.length → stepOf (some (.incdec (.var 5) true true .u64)) (P i) = .ok (P (i + 1)) := by
      intro i hi
      have : wrapTo .u64 ((i : Int) + 1) = (i : Int) + 1 := wrapTo_u64_small _ (by omega) (by omega)
      simp [stepOf, evalE, evalL, readPlace, writePlace, binop, cmpInt, arith, Ty.signed, convert, this, bind, Except.bind, Except.map, P]
    have hcond : ∀ i (hi : i < ents.length), testOf (some fkMatch) (P i) = .ok (decide ((ents[i]).1 = grpOf g ∧ (ents[i]).2 = ks), P i) := by
      intro i hi
      obtain ⟨bg, l1, c1⟩ := h1.group i hi
      obtain ⟨bq, l2, c2⟩ := h1.key i hi
      have hsx := h1.sidx i (Nat.le_of_lt hi)
      have z1 := cstr_nz c1
      have z2 := cstr_nz c2
      by_cases e1 : (ents[i]).1 = grpOf g
      · by_cases e2 : (ents[i]).2 = ks
        · have q1 : cmpBytes (grpOf g) (grpOf g) = 0 := (cmpBytes_eq_zero _ _ hgz hgz).2 rfl
          have q2 : cmpBytes ks ks = 0 := (cmpBytes_eq_zero _ _ hkz hkz).2 rfl
          simp [fkMatch, testOf, evalE, evalL, evalArgs, readPlace, harr, hsx, l1, l2, c1, c2, hgc, hkc, builtin, unop, truth, boolVal, q1, q2, e1, e2,
            bind, Except.bind, Except.map, P]
        · have q1 : cmpBytes (grpOf g) (grpOf g) = 0 := (cmpBytes_eq_zero _ _ hgz hgz).2 rfl
          have q2 : cmpBytes (ents[i]).2 ks ≠ 0 := fun hq => e2 ((cmpBytes_eq_zero _ _ z2 hkz).1 hq)
          simp [fkMatch, testOf, evalE, evalL, evalArgs, readPlace, harr, hsx, l1, l2, c1, c2, hgc, hkc, builtin, unop, truth, boolVal, q1, q2, e1, e2,
            bind, Except.bind, Except.map, P]
      · have q1 : cmpBytes (ents[i]).1 (grpOf g) ≠ 0 := fun hq => e1 ((cmpBytes_eq_zero _ _ z1 hgz).1 hq)
        simp [fkMatch, testOf, evalE, evalL, evalArgs, readPlace, harr, hsx, l1, l2, c1, c2, hgc, hkc, builtin, unop, truth, boolVal, q1, e1,
          bind, Except.bind, Except.map, P]
    let f := firstIdx ents (grpOf g) ks
    have hfle : f ≤ ents.length := firstIdx_le _ _ _
    have hmiss : ∀ i, i < f → exec fuel fkBody (P i) = .normal (P i) := by
      intro i hi
      have hi' : i < ents.length := by omega
      have hc := hcond i hi'
      have : decide ((ents[i]).1 = grpOf g ∧ (ents[i]).2 = ks) = false := by simpa using firstIdx_before ents _ _ i hi
      rw [this] at hc
      unfold fkBody; rw [exec_ite_false hc]; simp [exec]
    obtain ⟨gblk, hgblk, _⟩ := hfree (P 0).loc rfl
    have hfreeP : ∀ i, exec fuel fkFree (P i) = .normal { mem := m1.set gb { gblk with live := false }, loc := (P i).loc } := by
      intro i
      obtain ⟨gblk', hg', hx⟩ := hfree (P i).loc rfl
      have : gblk' = gblk := by rw [hgblk] at hg'; injection hg' with hg'; exact hg'.symm
      rw [← this]; exact hx
    -- the cell `*num`
    have hbn2 : (m1.set gb { gblk with live := false })[bn]? = some nblk := by rw [hframe2 gblk bn hbn]; exact n1
    have w0' : wrapTo .u32 0 = 0 := by decide
    have w5 : wrapTo .u32 5 = 5 := by decide
    let m3 : Mem := (m1.set gb { gblk with live := false }).set bn { nblk with slots := nblk.slots.set 0 (.int (f : Int)) }
    have hhit : f < ents.length → exec fuel fkBody (P f) = .ret (.int 0) { mem := m3, loc := (P f).loc } := by
      intro hlt
      have hc := hcond f hlt
      have : decide ((ents[f]).1 = grpOf g ∧ (ents[f]).2 = ks) = true := by simpa using firstIdx_at ents _ _ hlt
      rw [this] at hc
      have wf : wrapTo .u64 (f : Int) = f := wrapTo_u64_small _ (by omega) (by omega)
      have hst : Mem.storeSlot (m1.set gb { gblk with live := false }) bn 0 (.int (f : Int)) = Except.ok m3 := by
        simp [Mem.storeSlot, Mem.block, hbn2, n2, n3, n4, bind, Except.bind, m3]
      unfold fkBody fkHit
      rw [exec_ite_true hc, exec_seq_normal (hfreeP f)]
      simp [exec, evalE, evalL, readPlace, writePlace, convert, wf, hst, w0', bind, Except.bind, Except.map, P]
    have hl := search_loop' fuel fkTest _ fkBody P ents.length f (.int 0) _ htest_lt htest_ge hstep hmiss hfle hhit hf
    by_cases hlt : f < ents.length
    · -- found
      simp only [hlt, if_true] at hl
      have hcode : fkCode ents g (some ks) = 0 := by
        cases ks with
        | nil => exact absurd rfl hkne
        | cons c cs => simp [fkCode, f] at hlt ⊢; exact hlt
      refine ⟨m3, _, by rw [exec_seq_ret hl, hcode], ?_, ?_, fun hne => absurd hcode hne, ?_⟩
      · intro b hb hbne
        simp only [m3]
        rw [set_other hbne, hframe2 gblk b hb]
      · intro _
        have hl3 : bn < (m1.set gb { gblk with live := false }).length := (List.getElem?_eq_some_iff.1 hbn2).1
        have : 0 < nblk.slots.length := by omega
        have hl3' : bn < m1.length := by simpa using hl3
        simp [Mem.loadSlot, Mem.block, m3, List.getElem?_set, hl3', n2, n4, this, bind, Except.bind, f]
      · intro b blk hb hsome hlive
        have hbne : b ≠ bn := by omega
        simp only [m3] at hsome
        rw [set_other hbne] at hsome
        exact hleak2 gblk b blk hb hsome hlive
    · -- not found
      simp only [hlt, if_false] at hl
      have hcode : fkCode ents g (some ks) = 5 := by
        cases ks with
        | nil => exact absurd rfl hkne
        | cons c cs => simp [fkCode, f] at hlt ⊢; omega
      rw [exec_seq_normal hl, exec_seq_normal (hfreeP ents.length)]
      refine ⟨m1.set gb { gblk with live := false }, (P ents.length).loc, by simp [exec, evalE, convert, w5, hcode, bind, Except.bind], fun b hb _ => hframe2 gblk b hb,
        fun h0 => absurd (hcode ▸ h0) (by decide), fun _ => hframe2 gblk bn hbn, hleak2 gblk⟩

/-! ### the list-level model of `find_key` -/

theorem grpOf_eq (g : Option (List UInt8)) : grpOf g = Econf.rawGroup g := by
  cases g <;> rfl

theorem firstIdx_found (es : List Econf.Entry) (g k : List UInt8) :
    decide (firstIdx (entsOf es) g k < es.length) = (Econf.findIdx es g k).isSome := by
  induction es with
  | nil => simp [firstIdx, entsOf, Econf.findIdx]
  | cons e es ih =>
    by_cases hm : (e.group == g && e.key == k) = true
    · have hp : (!((e.group, e.key).1 == g && (e.group, e.key).2 == k)) = false := by simp only [hm, Bool.not_true]
      simp only [firstIdx, entsOf, List.map_cons, List.takeWhile_cons, hp, Econf.findIdx, List.findIdx?_cons, hm]
      simp
    · have hm' : (e.group == g && e.key == k) = false := by simpa using hm
      have hp : (!((e.group, e.key).1 == g && (e.group, e.key).2 == k)) = true := by simp only [hm', Bool.not_false]
      have : firstIdx (entsOf (e :: es)) g k = firstIdx (entsOf es) g k + 1 := by
        simp only [firstIdx, entsOf, List.map_cons, List.takeWhile_cons, hp, if_true, List.length_cons]
      rw [this]
      have ih' := ih
      simp only [Econf.findIdx, List.findIdx?_cons, hm', Bool.false_eq_true, if_false, List.length_cons] at ih' ⊢
      cases hf : List.findIdx? (fun e => e.group == g && e.key == k) es with
      | none => simp [hf] at ih' ⊢; omega
      | some i => simp [hf] at ih' ⊢; omega

/-- the result code of the C function is the model's: ECONF_ERROR for a missing or empty key, ECONF_NOKEY when no entry of
    the group has the key, success otherwise -/
theorem fkCode_model (es : List Econf.Entry) (g k : Option (List UInt8)) :
    fkCode (entsOf es) g k =
      match Econf.findKey { entries := es } (Econf.rawGroup g) k with
      | .ok _ => 0
      | .error e => (e.code : Int) := by
  have hl : (entsOf es).length = es.length := by simp [entsOf]
  cases k with
  | none => simp [fkCode, Econf.findKey, Econf.Err.code]
  | some ks =>
    cases ks with
    | nil => simp [fkCode, Econf.findKey, Econf.Err.code]
    | cons c cs =>
      have hf := firstIdx_found es (Econf.rawGroup g) (c :: cs)
      simp only [fkCode, grpOf_eq, hl, Econf.findKey, List.isEmpty_cons, Bool.false_eq_true, if_false]
      cases hi : Econf.findIdx es (Econf.rawGroup g) (c :: cs) with
      | none =>
        have : ¬ firstIdx (entsOf es) (Econf.rawGroup g) (c :: cs) < es.length := by simpa [hi] using hf
        simp [this, Econf.Err.code]
      | some i =>
        have : firstIdx (entsOf es) (Econf.rawGroup g) (c :: cs) < es.length := by simpa [hi] using hf
        simp [this]

/-- `find_key` (lib/helpers.c) on the translated term, for every object, every group argument (NULL, empty, a name) and every
    key argument: no fault; the copy of the group name is released on every path (nothing the function allocated is alive
    afterwards but the read-only literal); memory the caller can see is untouched except `*num`; the code returned is the
    model's `findKey`, and on success `*num` is the index the model finds. -/
theorem C_find_key (m : Mem) (bk be bn : Nat) (es : List Econf.Entry) (gv kv : Val) (g k : Option (List UInt8))
    (h : KfMem m bk be (entsOf es)) (hg : StrArg m gv g) (hk : StrArg m kv k)
    (hn : ∃ blk, m[bn]? = some blk ∧ blk.live = true ∧ blk.writable = true ∧ blk.slots.length = 1)
    (hsmall : (es.length : Int) + 1 < 18446744073709551616) (fuel : Nat) (hf : es.length < fuel) :
    ∃ m' loc' code, exec fuel LeafFns.find_key.body { mem := m, loc := [.ptr bk 0, gv, kv, .ptr bn 0, .undef, .undef] } =
        .ret (.int code) { mem := m', loc := loc' } ∧
      (match Econf.findKey { entries := es } (Econf.rawGroup g) k with
       | .ok i => code = 0 ∧ m'.loadSlot bn 0 = .ok (.int (i : Int))
       | .error e => code = (e.code : Int) ∧ m'[bn]? = m[bn]?) ∧
      (∀ b, b < m.length → b ≠ bn → m'[b]? = m[b]?) ∧
      (∀ b blk, m.length ≤ b → m'[b]? = some blk → blk.live = true → blk.writable = false) := by
  have hl : (entsOf es).length = es.length := by simp [entsOf]
  obtain ⟨m', loc', he, hfr, h0, hne, hlk⟩ := find_key_exec m bk be bn (entsOf es) gv kv g k h hg hk hn (by rw [hl]; exact hsmall) fuel (by rw [hl]; exact hf)
  refine ⟨m', loc', _, he, ?_, hfr, hlk⟩
  have hc := fkCode_model es g k
  cases hfk : Econf.findKey { entries := es } (Econf.rawGroup g) k with
  | ok i =>
    rw [hfk] at hc
    refine ⟨hc, ?_⟩
    have := h0 hc
    rw [this]
    -- the index: the model's search
    cases k with
    | none => simp [Econf.findKey] at hfk
    | some ks =>
      simp only [Econf.findKey] at hfk
      split at hfk
      · simp at hfk
      · cases hi : Econf.findIdx es (Econf.rawGroup g) ks with
        | none => simp [hi] at hfk
        | some j =>
          simp only [hi] at hfk
          injection hfk with hfk
          subst hfk
          simp [grpOf_eq, firstIdx_model, hi]
  | error e =>
    rw [hfk] at hc
    refine ⟨hc, hne ?_⟩
    rw [hc]
    have he : e = .error ∨ e = .nokey := by
      cases k with
      | none => simp [Econf.findKey] at hfk; exact Or.inl hfk.symm
      | some ks =>
        simp only [Econf.findKey] at hfk
        split at hfk
        · injection hfk with hfk; exact Or.inl hfk.symm
        · split at hfk
          · simp at hfk
          · injection hfk with hfk; exact Or.inr hfk.symm
    rcases he with rfl | rfl <;> simp [Econf.Err.code]

/-! ## `getFromGroupList` (lib/helpers.c) -/

/-- block `bk` holds an `econf_file` whose `groups` member points at block `bl`, an array of `group_count` pointers to the
    C strings `gl[i].2` (in the blocks `gl[i].1`) followed by a NULL pointer -/
structure GlMemA (m : Mem) (bk bl : Nat) (gl : List (Nat × List UInt8)) : Prop where
  kf : ∃ blk, m[bk]? = some blk ∧ blk.live = true ∧ blk.slots[13]? = some (.ptr bl 0) ∧ blk.slots[14]? = some (.int gl.length)
  arr : ∃ blk, m[bl]? = some blk ∧ blk.live = true ∧ blk.slots.length = gl.length + 1 ∧
    ∀ i (h : i < gl.length), blk.slots[i]? = some (.ptr (gl[i]).1 0) ∧ m.cstr (gl[i]).1 0 = .ok (gl[i]).2

/-- block `bk` holds an `econf_file` without a group array: `groups == NULL`, `group_count == 0` (the object as `calloc` leaves it) -/
def GlNull (m : Mem) (bk : Nat) : Prop :=
  ∃ blk, m[bk]? = some blk ∧ blk.live = true ∧ blk.slots[13]? = some .null ∧ blk.slots[14]? = some (.int 0)

/-- the group list of the `econf_file` in block `bk`: either the array in block `bl` (`GlMemA`), or – for the empty list only – no array
    at all (`groups == NULL`).  In the second case there is no array block; `bl` is then `bk` itself by convention, so that "the blocks
    of the object" (`bk`, `bl`) are always blocks that exist, and a frame "every block other than `bk` and `bl`" says the right thing. -/
def GlMem (m : Mem) (bk bl : Nat) (gl : List (Nat × List UInt8)) : Prop :=
  GlMemA m bk bl gl ∨ (gl = [] ∧ bl = bk ∧ GlNull m bk)

theorem GlNull.toGlMem {m bk} (h : GlNull m bk) : GlMem m bk bk [] := Or.inr ⟨rfl, rfl, h⟩

theorem GlMemA.toGlMem {m bk bl gl} (h : GlMemA m bk bl gl) : GlMem m bk bl gl := Or.inl h

/-- a list with an element is held in an array -/
theorem GlMem.toA {m bk bl gl} (h : GlMem m bk bl gl) {i : Nat} (hi : i < gl.length) : GlMemA m bk bl gl := by
  rcases h with h | ⟨rfl, _, _⟩
  · exact h
  · simp at hi

theorem GlMem.toA' {m bk bl gl} (h : GlMem m bk bl gl) (hne : gl ≠ []) : GlMemA m bk bl gl := by
  rcases h with h | ⟨rfl, _, _⟩
  · exact h
  · exact absurd rfl hne

/-- the object itself: alive, its counter is the length of the list -/
theorem GlMem.obj {m bk bl gl} (h : GlMem m bk bl gl) :
    ∃ blk, m[bk]? = some blk ∧ blk.live = true ∧ blk.slots[14]? = some (.int gl.length) ∧
      (blk.slots[13]? = some (.ptr bl 0) ∨ blk.slots[13]? = some .null) := by
  rcases h with h | ⟨rfl, _, blk, h1, h2, h3, h4⟩
  · obtain ⟨blk, h1, h2, h3, h4⟩ := h.kf
    exact ⟨blk, h1, h2, h4, Or.inl h3⟩
  · exact ⟨blk, h1, h2, by simpa using h4, Or.inr h3⟩

theorem GlMem.bk_lt {m bk bl gl} (h : GlMem m bk bl gl) : bk < m.length := by
  obtain ⟨blk, h1, _⟩ := h.obj
  exact (List.getElem?_eq_some_iff.1 h1).1

/-- `bl` is a block of the memory in either case (the array, or the object itself when there is no array) -/
theorem GlMem.bl_lt {m bk bl gl} (h : GlMem m bk bl gl) : bl < m.length := by
  rcases h with h | ⟨_, rfl, blk, h1, _⟩
  · obtain ⟨blk, h1, _⟩ := h.arr
    exact (List.getElem?_eq_some_iff.1 h1).1
  · exact (List.getElem?_eq_some_iff.1 h1).1

/-- the names of the list are C strings of the memory -/
theorem GlMem.str {m bk bl gl} (h : GlMem m bk bl gl) (i : Nat) (hi : i < gl.length) : m.cstr (gl[i]).1 0 = .ok (gl[i]).2 := by
  obtain ⟨blk, _, _, _, h4⟩ := (h.toA hi).arr
  exact (h4 i hi).2

theorem GlMem.str_lt {m bk bl gl} (h : GlMem m bk bl gl) {x : Nat × List UInt8} (hx : x ∈ gl) : x.1 < m.length := by
  obtain ⟨i, hi, rfl⟩ := List.getElem_of_mem hx
  exact cstr_lt (h.str i hi)

/-- the object and its array are two blocks (the array is not long enough to be the object unless it lists the object as a name) -/
theorem GlMemA.ne {m bk bl gl} (h : GlMemA m bk bl gl) (hne : gl ≠ [] → bk ≠ bl) : bk ≠ bl := by
  by_cases hg : gl = []
  · subst hg
    intro hb
    subst hb
    obtain ⟨kb, k1, k2, k3, k4⟩ := h.kf
    obtain ⟨gb, g1, g2, g3, g4⟩ := h.arr
    rw [k1] at g1; injection g1 with g1; subst g1
    have := (List.getElem?_eq_some_iff.1 k3).1
    simp at g3
    omega
  · exact hne hg

/-- the group list read through the blocks it uses only -/
theorem GlMem.mono_of {m m' : Mem} {bk bl : Nat} {gl : List (Nat × List UInt8)} (h : GlMem m bk bl gl)
    (hk : m'[bk]? = m[bk]?) (hl : m'[bl]? = m[bl]?) (hs : ∀ b str, m.cstr b 0 = .ok str → (∃ e, e ∈ gl ∧ e.1 = b) → m'[b]? = m[b]?) : GlMem m' bk bl gl := by
  rcases h with h | ⟨hg, hb, blk, h1, h2, h3, h4⟩
  · obtain ⟨kblk, k1, k2, k3, k4⟩ := h.kf
    obtain ⟨gblk, g1, g2, g3, g4⟩ := h.arr
    refine Or.inl ⟨⟨kblk, by rw [hk]; exact k1, k2, k3, k4⟩, ⟨gblk, by rw [hl]; exact g1, g2, g3, fun i hi => ?_⟩⟩
    obtain ⟨e1, e2⟩ := g4 i hi
    exact ⟨e1, by rw [cstr_congr (hs _ _ e2 ⟨gl[i], List.getElem_mem hi, rfl⟩)]; exact e2⟩
  · exact Or.inr ⟨hg, hb, blk, by rw [hk]; exact h1, h2, h3, h4⟩

/-- … in particular in a memory that keeps every block of the old one -/
theorem GlMem.grow {m m' : Mem} {bk bl : Nat} {gl : List (Nat × List UInt8)} (h : GlMem m bk bl gl)
    (hm : ∀ b, b < m.length → m'[b]? = m[b]?) : GlMem m' bk bl gl :=
  h.mono_of (hm bk h.bk_lt) (hm bl h.bl_lt) (fun b str hc _ => hm b (cstr_lt hc))

theorem GlMem.count {m bk bl gl} (h : GlMem m bk bl gl) : m.loadSlot bk 14 = .ok (.int gl.length) := by
  obtain ⟨blk, h1, h2, h4, _⟩ := h.obj
  simp [Mem.loadSlot, Mem.block, h1, h2, h4, bind, Except.bind]

theorem GlMemA.arrp {m bk bl gl} (h : GlMemA m bk bl gl) : m.loadSlot bk 13 = .ok (.ptr bl 0) := by
  obtain ⟨blk, h1, h2, h3, _⟩ := h.kf
  simp [Mem.loadSlot, Mem.block, h1, h2, h3, bind, Except.bind]

theorem GlMemA.sidx {m bk bl gl} (h : GlMemA m bk bl gl) (i : Nat) (hi : i ≤ gl.length) :
    slotAdd m bl 0 (i : Int) = .ok (.ptr bl (i : Int)) := by
  obtain ⟨blk, h1, h2, h3, _⟩ := h.arr
  have : (0 : Int) ≤ (i : Int) ∧ (i : Int) ≤ (blk.slots.length : Int) := by rw [h3]; omega
  simp [slotAdd, Mem.block, h1, h2, this, bind, Except.bind]

theorem GlMemA.elem {m bk bl gl} (h : GlMemA m bk bl gl) (i : Nat) (hi : i < gl.length) :
    m.loadSlot bl (i : Int) = .ok (.ptr (gl[i]).1 0) ∧ m.cstr (gl[i]).1 0 = .ok (gl[i]).2 := by
  obtain ⟨blk, h1, h2, h3, h4⟩ := h.arr
  obtain ⟨e1, e2⟩ := h4 i hi
  refine ⟨?_, e2⟩
  have hn : ¬ ((i : Int) < 0) := by omega
  simp [Mem.loadSlot, Mem.block, h1, h2, hn, e1, bind, Except.bind]

/-- index of the first name equal to `nm`; the number of names when there is none -/
def firstN (gl : List (Nat × List UInt8)) (nm : List UInt8) : Nat := (gl.takeWhile (fun e => !(e.2 == nm))).length

theorem firstN_le (gl) (nm) : firstN gl nm ≤ gl.length := (List.takeWhile_sublist _).length_le

theorem firstN_before (gl : List (Nat × List UInt8)) (nm) : ∀ i (h : i < firstN gl nm), (gl[i]'(Nat.lt_of_lt_of_le h (firstN_le gl nm))).2 ≠ nm := by
  induction gl with
  | nil => intro i h; simp [firstN] at h
  | cons e es ih =>
    intro i h
    unfold firstN at h
    by_cases hm : (e.2 == nm) = true
    · simp [List.takeWhile, hm] at h
    · have hm' : (e.2 == nm) = false := by simpa using hm
      cases i with
      | zero => simpa using hm
      | succ j =>
        have hj : j < firstN es nm := by
          simp only [List.takeWhile, hm', Bool.not_false, List.length_cons] at h
          unfold firstN; omega
        simpa using ih j hj

theorem firstN_at (gl : List (Nat × List UInt8)) (nm) (h : firstN gl nm < gl.length) : (gl[firstN gl nm]).2 = nm := by
  induction gl with
  | nil => simp at h
  | cons e es ih =>
    by_cases hm : (e.2 == nm) = true
    · have : firstN (e :: es) nm = 0 := by simp [firstN, List.takeWhile, hm]
      simp only [this, List.getElem_cons_zero]
      simpa using hm
    · have hm' : (e.2 == nm) = false := by simpa using hm
      have e1 : firstN (e :: es) nm = firstN es nm + 1 := by simp [firstN, List.takeWhile, hm']
      have h' : firstN es nm < es.length := by rw [e1] at h; simpa using h
      simp only [e1, List.getElem_cons_succ]
      exact ih h'

def glMatch : Expr := .un .lnot (.call "strcmp" (.cons (.load (.slot (.sidx (.load (.slot (.load (.var 0) .ptr) 13) .ptr) (.load (.var 3) .i32) 1) 0) .ptr) (.cons (.load (.var 1) .ptr) .nil))) .i32
def glTake : Stmt := .seq (.expr (.assign (.var 2) (.load (.slot (.sidx (.load (.slot (.load (.var 0) .ptr) 13) .ptr) (.load (.var 3) .i32) 1) 0) .ptr) .ptr))
  (.expr (.assign (.var 3) (.load (.slot (.load (.var 0) .ptr) 14) .i32) .i32))
def glBody : Stmt := .ite glMatch glTake .skip
def glTest : Expr := .bin .lt (.load (.var 3) .i32) (.load (.slot (.load (.var 0) .ptr) 14) .i32) .i32

theorem getFromGroupList_shape : LeafFns.getFromGroupList.body =
    .seq (.expr (.assign (.var 2) .null .ptr))
      (.seq (.expr (.assign (.var 3) (.lit 0 .i32) .i32))
        (.seq (.for (some glTest) (some (.incdec (.var 3) true true .i32)) glBody)
          (.ret (some (.load (.var 2) .ptr))))) := rfl

theorem inRange_i32 (n : Int) (h1 : -2147483648 ≤ n) (h2 : n < 2147483648) : inRange .i32 n = true := by
  simp [inRange, Ty.signed, Ty.bits]
  exact ⟨decide_eq_true h1, decide_eq_true h2⟩

theorem stepOf_some (e : Expr) (st st' : St) (v : Val) (h : evalE e st = .ok (v, st')) : stepOf (some e) st = .ok st' := by
  simp only [stepOf, h, Except.map]

theorem arith_i32 (n : Int) (h1 : -2147483648 ≤ n) (h2 : n < 2147483648) : arith .i32 n = .ok (.int n) := by
  have hr := inRange_i32 n h1 h2
  simp [arith, Ty.signed, hr]

/-- `i++` on the `int` variable 3 -/
theorem incdec_i32_var3 (m : Mem) (a b c : Val) (n : Int) (h1 : -2147483648 ≤ n + 1) (h2 : n + 1 < 2147483648) :
    evalE (.incdec (.var 3) true true .i32) { mem := m, loc := [a, b, c, .int n] } = .ok (.int n, { mem := m, loc := [a, b, c, .int (n + 1)] }) := by
  have hb : binop m .add .i32 (.int n) (.int 1) = .ok (.int (n + 1)) := by
    have ha := arith_i32 (n + 1) h1 h2
    simp [binop, cmpInt, ha]
  have hc : convert .i32 (.int (n + 1)) = .ok (.int (n + 1)) := by
    have hw : wrapTo .i32 (n + 1) = n + 1 := wrapTo_i32 _ h1 h2
    simp [convert, hw]
  simp only [evalE, evalL, readPlace, bind, Except.bind]
  simp only [List.getElem?_cons_succ, List.getElem?_cons_zero]
  simp only [if_true, hb]
  simp only [show (Ty.i32 == Ty.ptr) = false from rfl]
  simp only [Bool.false_eq_true, if_false, hc, writePlace]
  try simp

theorem getFromGroupList_exec (m : Mem) (bk bl an : Nat) (gl : List (Nat × List UInt8)) (nm : List UInt8) (h : GlMem m bk bl gl)
    (hn : m.cstr an 0 = .ok nm) (hsmall : (gl.length : Int) + 1 < 2147483648) (fuel : Nat) (hf : gl.length + 1 < fuel) :
    ∃ loc', exec fuel LeafFns.getFromGroupList.body { mem := m, loc := [.ptr bk 0, .ptr an 0, .undef, .undef] } =
      .ret (if hlt : firstN gl nm < gl.length then .ptr (gl[firstN gl nm]).1 0 else .null) { mem := m, loc := loc' } := by
  have hcnt := h.count
  have hnz := cstr_nz hn
  let A : Nat → St := fun i => { mem := m, loc := [.ptr bk 0, .ptr an 0, .null, .int (i : Int)] }
  have hinit1 : exec fuel (.expr (.assign (.var 2) .null .ptr)) { mem := m, loc := [.ptr bk 0, .ptr an 0, .undef, .undef] } =
      .normal { mem := m, loc := [.ptr bk 0, .ptr an 0, .null, .undef] } := by
    simp [exec, evalE, evalL, writePlace, convert, bind, Except.bind]
  have w0 : wrapTo .i32 0 = 0 := wrapTo_i32 0 (by omega) (by omega)
  have hinit2 : exec fuel (.expr (.assign (.var 3) (.lit 0 .i32) .i32)) { mem := m, loc := [.ptr bk 0, .ptr an 0, .null, .undef] } = .normal (A 0) := by
    simp [exec, evalE, evalL, writePlace, convert, w0, bind, Except.bind, A]
  rw [getFromGroupList_shape, exec_seq_normal hinit1, exec_seq_normal hinit2]
  have htestA : ∀ i, testOf (some glTest) (A i) = .ok (decide (i < gl.length), A i) := by
    intro i
    by_cases hi : i < gl.length
    · have : (i : Int) < (gl.length : Int) := by omega
      simp [glTest, testOf, evalE, evalL, readPlace, hcnt, binop, cmpInt, boolVal, truth, this, hi, bind, Except.bind, A]
    · have : ¬ (i : Int) < (gl.length : Int) := by omega
      simp [glTest, testOf, evalE, evalL, readPlace, hcnt, binop, cmpInt, boolVal, truth, this, hi, bind, Except.bind, A]
  have hstepA : ∀ i, i < gl.length → stepOf (some (.incdec (.var 3) true true .i32)) (A i) = .ok (A (i + 1)) := by
    intro i hi
    have := incdec_i32_var3 m (.ptr bk 0) (.ptr an 0) .null (i : Int) (by omega) (by omega)
    exact stepOf_some _ _ _ _ (by simpa [A] using this)
  have hcond : ∀ i (hi : i < gl.length), testOf (some glMatch) (A i) = .ok (if (gl[i]).2 = nm then true else false, A i) := by
    intro i hi
    have hA := h.toA hi
    have harr := hA.arrp
    obtain ⟨l1, c1⟩ := hA.elem i hi
    have hsx := hA.sidx i (Nat.le_of_lt hi)
    have z1 := cstr_nz c1
    by_cases e1 : (gl[i]).2 = nm
    · have q1 : cmpBytes nm nm = 0 := (cmpBytes_eq_zero _ _ hnz hnz).2 rfl
      simp [glMatch, testOf, evalE, evalL, evalArgs, readPlace, harr, hsx, l1, c1, hn, builtin, unop, truth, boolVal, q1, e1,
        bind, Except.bind, Except.map, A]
    · have q1 : cmpBytes (gl[i]).2 nm ≠ 0 := fun hq => e1 ((cmpBytes_eq_zero _ _ z1 hnz).1 hq)
      simp [glMatch, testOf, evalE, evalL, evalArgs, readPlace, harr, hsx, l1, c1, hn, builtin, unop, truth, boolVal, q1, e1,
        bind, Except.bind, Except.map, A]
  have hmiss : ∀ i, i < firstN gl nm → exec fuel glBody (A i) = .normal (A i) := by
    intro i hi
    have hi' : i < gl.length := Nat.lt_of_lt_of_le hi (firstN_le gl nm)
    have hc := hcond i hi'
    simp only [firstN_before gl nm i hi, if_false] at hc
    unfold glBody; rw [exec_ite_false hc]; simp [exec]
  have hfle := firstN_le gl nm
  by_cases hlt : firstN gl nm < gl.length
  · -- found in round f: `ret` takes the pointer, the counter jumps to the end
    simp only [hlt, dite_true]
    have hat := firstN_at gl nm hlt
    obtain ⟨f, hfdef⟩ : ∃ f, f = firstN gl nm := ⟨_, rfl⟩
    simp only [← hfdef] at hlt hat hmiss hfle ⊢
    let Q : St := { mem := m, loc := [.ptr bk 0, .ptr an 0, .ptr (gl[f]).1 0, .int (gl.length : Int)] }
    let E : St := { mem := m, loc := [.ptr bk 0, .ptr an 0, .ptr (gl[f]).1 0, .int ((gl.length : Int) + 1)] }
    have hhit : exec fuel glBody (A f) = .normal Q := by
      have hc := hcond f hlt
      simp only [hat, if_true] at hc
      have hA := h.toA hlt
      have harr := hA.arrp
      obtain ⟨l1, c1⟩ := hA.elem f hlt
      have hsx := hA.sidx f (Nat.le_of_lt hlt)
      have hw : wrapTo .i32 (gl.length : Int) = gl.length := wrapTo_i32 _ (by omega) (by omega)
      unfold glBody glTake; rw [exec_ite_true hc]
      simp [exec, evalE, evalL, readPlace, writePlace, harr, hsx, l1, hcnt, convert, hw, bind, Except.bind, Except.map, A, Q]
    have hstepQ : stepOf (some (.incdec (.var 3) true true .i32)) Q = .ok E := by
      exact stepOf_some _ _ _ _ (incdec_i32_var3 m (.ptr bk 0) (.ptr an 0) (.ptr (gl[f]).1 0) (gl.length : Int) (by omega) (by omega))
    have htestE : testOf (some glTest) E = .ok (false, E) := by
      have : ¬ ((gl.length : Int) + 1 < (gl.length : Int)) := by omega
      simp [glTest, testOf, evalE, evalL, readPlace, hcnt, binop, cmpInt, boolVal, truth, this, bind, Except.bind, E]
    let P : Nat → St := fun i => if i ≤ f then A i else E
    have hrounds : ∀ i, i < f + 1 → testOf (some glTest) (P i) = .ok (true, P i) ∧
        ∃ Q', (exec fuel glBody (P i) = .normal Q' ∨ exec fuel glBody (P i) = .cont Q') ∧
          stepOf (some (.incdec (.var 3) true true .i32)) Q' = .ok (P (i + 1)) := by
      intro i hi
      have hile : i ≤ f := by omega
      have hin : i < gl.length := by omega
      have hP : P i = A i := by simp [P, hile]
      rw [hP]
      have ht := htestA i
      simp only [hin, decide_true] at ht
      by_cases hif : i < f
      · have hP1 : P (i + 1) = A (i + 1) := by simp [P]; omega
        exact ⟨ht, A i, Or.inl (hmiss i hif), by rw [hP1]; exact hstepA i hin⟩
      · have hif' : i = f := by omega
        have hP1 : P (f + 1) = E := by
          have : ¬ (f + 1 ≤ f) := by omega
          simp [P, this]
        rw [hif'] at ht ⊢
        exact ⟨ht, Q, Or.inl hhit, by rw [hP1]; exact hstepQ⟩
    have hPend : P (f + 1) = E := by
      have : ¬ (f + 1 ≤ f) := by omega
      simp [P, this]
    have hl := loop_count _ _ _ (f + 1) P E hrounds (by rw [hPend]; exact htestE) fuel (by omega)
    have hP0 : P 0 = A 0 := by simp [P]
    rw [hP0] at hl
    have hl' : exec fuel (.for (some glTest) (some (.incdec (.var 3) true true .i32)) glBody) (A 0) = .normal E := by rw [exec_for]; exact hl
    rw [exec_seq_normal hl']
    exact ⟨E.loc, by simp [exec, evalE, evalL, readPlace, bind, Except.bind, E]⟩
  · -- not found
    simp only [hlt, dite_false]
    have heq : firstN gl nm = gl.length := by omega
    have hrounds : ∀ i, i < gl.length → testOf (some glTest) (A i) = .ok (true, A i) ∧
        ∃ Q', (exec fuel glBody (A i) = .normal Q' ∨ exec fuel glBody (A i) = .cont Q') ∧
          stepOf (some (.incdec (.var 3) true true .i32)) Q' = .ok (A (i + 1)) := by
      intro i hi
      have ht := htestA i
      simp only [hi, decide_true] at ht
      exact ⟨ht, A i, Or.inl (hmiss i (by omega)), hstepA i hi⟩
    have hte := htestA gl.length
    simp only [Nat.lt_irrefl, decide_false] at hte
    have hl := loop_count _ _ _ gl.length A (A gl.length) hrounds hte fuel (by omega)
    have hl' : exec fuel (.for (some glTest) (some (.incdec (.var 3) true true .i32)) glBody) (A 0) = .normal (A gl.length) := by rw [exec_for]; exact hl
    rw [exec_seq_normal hl']
    exact ⟨(A gl.length).loc, by simp [exec, evalE, evalL, readPlace, bind, Except.bind, A]⟩

/-! ## `setGroupList` (lib/helpers.c) -/

theorem loadSlot_of {m : Mem} {b : Nat} {blk : Block} {i : Nat} {v : Val} (h1 : m[b]? = some blk) (h2 : blk.live = true)
    (h3 : blk.slots[i]? = some v) (hv : v ≠ .undef) : m.loadSlot b (i : Int) = .ok v := by
  have hn : ¬ ((i : Int) < 0) := by omega
  cases v <;> simp_all [Mem.loadSlot, Mem.block, bind, Except.bind]

theorem storeSlot_of {m : Mem} {b : Nat} {blk : Block} {i : Nat} (v : Val) (h1 : m[b]? = some blk) (h2 : blk.live = true) (h3 : blk.writable = true)
    (hi : i < blk.slots.length) : m.storeSlot b (i : Int) v = .ok (m.set b { blk with slots := blk.slots.set i v }) := by
  have hn : ¬ ((i : Int) < 0) := by omega
  simp [Mem.storeSlot, Mem.block, h1, h2, h3, hn, hi, bind, Except.bind]

theorem realloc_words_spec (m : Mem) (b : Nat) (blk : Block) (n : Nat) (h1 : m[b]? = some blk) (h2 : blk.live = true) :
    builtin "realloc_words" [.ptr b 0, .int (n : Int)] m =
      .ok (.ptr m.length 0, m.set b { blk with live := false } ++
        [{ cells := [], slots := blk.slots.take n ++ List.replicate (n - (blk.slots.take n).length) .undef }]) := by
  simp [builtin, Mem.block, h1, h2, bind, Except.bind]

theorem arith_u64 (n : Int) : arith .u64 n = .ok (.int (wrapTo .u64 n)) := by simp [arith, Ty.signed]

/-- `a + b` / `a - b` in `int`, operands without side effects -/
theorem evalE_addsub_i32 (st : St) (a b : Expr) (x y : Int) (sub : Bool)
    (ha : evalE a st = .ok (.int x, st)) (hb : evalE b st = .ok (.int y, st))
    (h1 : -2147483648 ≤ (if sub then x - y else x + y)) (h2 : (if sub then x - y else x + y) < 2147483648) :
    evalE (.bin (if sub then .sub else .add) a b .i32) st = .ok (.int (if sub then x - y else x + y), st) := by
  have har := arith_i32 _ h1 h2
  have hbin : binop st.mem (if sub then .sub else .add) .i32 (.int x) (.int y) = .ok (.int (if sub then x - y else x + y)) := by
    cases sub <;> simp_all [binop, cmpInt]
  simp only [evalE, ha, hb, bind, Except.bind, hbin]

/-- `x->member++` / `x->member--` on an `int` member -/
theorem incdec_i32_slot (m m' : Mem) (loc : List Val) (e : Expr) (b : Nat) (k : Nat) (n : Int) (inc : Bool)
    (he : evalE e { mem := m, loc := loc } = .ok (.ptr b 0, { mem := m, loc := loc }))
    (hl : m.loadSlot b (k : Int) = .ok (.int n))
    (h1 : -2147483648 ≤ (if inc then n + 1 else n - 1)) (h2 : (if inc then n + 1 else n - 1) < 2147483648)
    (hs : m.storeSlot b (k : Int) (.int (if inc then n + 1 else n - 1)) = .ok m') :
    evalE (.incdec (.slot e k) inc true .i32) { mem := m, loc := loc } = .ok (.int n, { mem := m', loc := loc }) := by
  have hb : binop m (if inc then .add else .sub) .i32 (.int n) (.int 1) = .ok (.int (if inc then n + 1 else n - 1)) := by
    have ha := arith_i32 _ h1 h2
    cases inc <;> simp_all [binop, cmpInt]
  have hc : convert .i32 (.int (if inc then n + 1 else n - 1)) = .ok (.int (if inc then n + 1 else n - 1)) := by
    have hw := wrapTo_i32 _ h1 h2
    simp [convert, hw]
  simp only [evalE, evalL, he, bind, Except.bind, readPlace, Int.zero_add, hl]
  simp only [hb]
  simp only [show (Ty.i32 == Ty.ptr) = false from rfl]
  simp only [Bool.false_eq_true, if_false, hc, writePlace]
  simp only [hs, Except.map, if_true]

def sgCount1 : Expr := .bin .add (.load (.slot (.load (.var 0) .ptr) 14) .i32) (.lit 1 .i32) .i32
def sgRealloc : Expr := .call "realloc_words" (.cons (.load (.slot (.load (.var 0) .ptr) 13) .ptr) (.cons (.bin .mul (.cast .u64 sgCount1) (.lit 1 .u64) .u64) .nil))
def sgIdx : Expr := .bin .sub (.load (.slot (.load (.var 0) .ptr) 14) .i32) (.lit 1 .i32) .i32
def sgLast : Expr := .sidx (.load (.slot (.load (.var 0) .ptr) 13) .ptr) sgIdx 1
def sgGrow : Stmt := .seq (.expr (.assign (.slot (.sidx (.load (.slot (.load (.var 0) .ptr) 13) .ptr) (.load (.slot (.load (.var 0) .ptr) 14) .i32) 1) 0) .null .ptr))
  (.seq (.expr (.assign (.slot sgLast 0) (.call "strdup" (.cons (.load (.var 1) .ptr) .nil)) .ptr))
    (.expr (.assign (.var 2) (.load (.slot sgLast 0) .ptr) .ptr)))

theorem setGroupList_shape : LeafFns.setGroupList.body =
    .seq (.inl (some (.var 2)) .ptr (.cons (.load (.var 0) .ptr) (.cons (.load (.var 1) .ptr) .nil)) 4 LeafFns.getFromGroupList.body)
      (.seq (.ite (.bin .ne (.load (.var 2) .ptr) .null .i32) (.ret (some (.load (.var 2) .ptr))) .skip)
        (.seq (.expr (.incdec (.slot (.load (.var 0) .ptr) 14) true true .i32))
          (.seq (.expr (.assign (.slot (.load (.var 0) .ptr) 13) sgRealloc .ptr))
            (.seq (.ite (.bin .eq (.load (.slot (.load (.var 0) .ptr) 13) .ptr) .null .i32)
                (.expr (.incdec (.slot (.load (.var 0) .ptr) 14) false true .i32)) sgGrow)
              (.ret (some (.load (.var 2) .ptr))))))) := rfl

/-- `setGroupList`, the name is already in the list: its element is returned, nothing changes -/
theorem setGroupList_found (m : Mem) (bk bl an : Nat) (gl : List (Nat × List UInt8)) (nm : List UInt8) (h : GlMem m bk bl gl)
    (hn : m.cstr an 0 = .ok nm) (hsmall : (gl.length : Int) + 1 < 2147483648) (fuel : Nat) (hf : gl.length + 1 < fuel)
    (hlt : firstN gl nm < gl.length) :
    ∃ loc', exec fuel LeafFns.setGroupList.body { mem := m, loc := [.ptr bk 0, .ptr an 0, .undef] } =
      .ret (.ptr (gl[firstN gl nm]).1 0) { mem := m, loc := loc' } := by
  obtain ⟨loc1, hg⟩ := getFromGroupList_exec m bk bl an gl nm h hn hsmall fuel hf
  simp only [hlt, dite_true] at hg
  have ha : evalArgs (.cons (.load (.var 0) .ptr) (.cons (.load (.var 1) .ptr) .nil)) { mem := m, loc := [.ptr bk 0, .ptr an 0, .undef] } =
      .ok ([.ptr bk 0, .ptr an 0], { mem := m, loc := [.ptr bk 0, .ptr an 0, .undef] }) := by
    simp [evalArgs, evalE, evalL, readPlace, bind, Except.bind]
  have hinl := exec_inl_val (fuel := fuel) (nl := 4) (i := 2) (dty := .ptr) (v' := .ptr (gl[firstN gl nm]).1 0) ha (by simpa using hg)
    (by simp [convert]) (by simp)
  rw [setGroupList_shape, exec_seq_normal hinl]
  refine ⟨[.ptr bk 0, .ptr an 0, .ptr (gl[firstN gl nm]).1 0], ?_⟩
  have ht : testOf (some (.bin .ne (.load (.var 2) .ptr) .null .i32)) { mem := m, loc := [.ptr bk 0, .ptr an 0, .ptr (gl[firstN gl nm]).1 0] } =
      .ok (true, { mem := m, loc := [.ptr bk 0, .ptr an 0, .ptr (gl[firstN gl nm]).1 0] }) := by
    simp [testOf, evalE, evalL, readPlace, binop, boolVal, truth, bind, Except.bind]
  simp only [List.set_cons_succ, List.set_cons_zero]
  have hret : exec fuel (.ite (.bin .ne (.load (.var 2) .ptr) .null .i32) (.ret (some (.load (.var 2) .ptr))) .skip)
      { mem := m, loc := [.ptr bk 0, .ptr an 0, .ptr (gl[firstN gl nm]).1 0] } =
      .ret (.ptr (gl[firstN gl nm]).1 0) { mem := m, loc := [.ptr bk 0, .ptr an 0, .ptr (gl[firstN gl nm]).1 0] } := by
    rw [exec_ite_true ht]; simp [exec, evalE, evalL, readPlace, bind, Except.bind]
  rw [exec_seq_ret hret]

/-- `setGroupList`, a new name: the counter goes up, the array is reallocated with one more element (allocated, if the object had
    none: `realloc(NULL, …)`), the NULL terminator and a fresh copy of the name are written; the caller's object now lists the old
    names and the new one, in an array -/
theorem setGroupList_new (m : Mem) (bk bl an : Nat) (gl : List (Nat × List UInt8)) (nm : List UInt8) (h : GlMem m bk bl gl)
    (hn : m.cstr an 0 = .ok nm) (hkw : ∀ blk, m[bk]? = some blk → blk.writable = true) (hne : gl ≠ [] → bk ≠ bl)
    (hd : ∀ e, e ∈ gl → e.1 ≠ bk ∧ e.1 ≠ bl) (han : an ≠ bk ∧ an ≠ bl)
    (hsmall : (gl.length : Int) + 2 < 2147483648) (fuel : Nat) (hf : gl.length + 1 < fuel)
    (hnew : ¬ firstN gl nm < gl.length) :
    ∃ m' loc', exec fuel LeafFns.setGroupList.body { mem := m, loc := [.ptr bk 0, .ptr an 0, .undef] } =
        .ret (.ptr (m.length + 1) 0) { mem := m', loc := loc' } ∧
      GlMemA m' bk m.length (gl ++ [(m.length + 1, nm)]) ∧ m'.length = m.length + 2 ∧
      (∀ b, b < m.length → b ≠ bk → b ≠ bl → m'[b]? = m[b]?) ∧
      (∀ kb kb', m[bk]? = some kb → m'[bk]? = some kb' → kb'.live = true ∧ kb'.writable = true ∧ kb'.cells = kb.cells ∧ kb'.slots.length = kb.slots.length ∧
        ∀ i, i ≠ 13 → i ≠ 14 → kb'.slots[i]? = kb.slots[i]?) := by
  obtain ⟨kblk, k1, k2, k4, k3'⟩ := h.obj
  have hstr := h.str
  have kw := hkw kblk k1
  have hbk : bk < m.length := (List.getElem?_eq_some_iff.1 k1).1
  have h14 : 14 < kblk.slots.length := by
    rcases List.getElem?_eq_some_iff.1 k4 with ⟨hlt, _⟩; exact hlt
  have h13 : 13 < kblk.slots.length := by omega
  -- the look-up finds nothing
  obtain ⟨loc1, hg⟩ := getFromGroupList_exec m bk bl an gl nm h hn (by omega) fuel hf
  simp only [hnew, dite_false] at hg
  have ha : evalArgs (.cons (.load (.var 0) .ptr) (.cons (.load (.var 1) .ptr) .nil)) { mem := m, loc := [.ptr bk 0, .ptr an 0, .undef] } =
      .ok ([.ptr bk 0, .ptr an 0], { mem := m, loc := [.ptr bk 0, .ptr an 0, .undef] }) := by
    simp [evalArgs, evalE, evalL, readPlace, bind, Except.bind]
  have hinl := exec_inl_val (fuel := fuel) (nl := 4) (i := 2) (dty := .ptr) (v' := .null) ha (by simpa using hg) (by simp [convert]) (by simp)
  simp only [List.set_cons_succ, List.set_cons_zero] at hinl
  rw [setGroupList_shape, exec_seq_normal hinl]
  have hS1 : exec fuel (.ite (.bin .ne (.load (.var 2) .ptr) .null .i32) (.ret (some (.load (.var 2) .ptr))) .skip)
      { mem := m, loc := [.ptr bk 0, .ptr an 0, .null] } = .normal { mem := m, loc := [.ptr bk 0, .ptr an 0, .null] } := by
    simp [exec, testOf, evalE, evalL, readPlace, binop, boolVal, truth, bind, Except.bind]
  rw [exec_seq_normal hS1]
  -- group_count++
  let n := gl.length
  let ks1 := kblk.slots.set 14 (.int ((n : Int) + 1))
  let m1 : Mem := m.set bk { kblk with slots := ks1 }
  have hcnt : m.loadSlot bk 14 = .ok (.int (n : Int)) := h.count
  have hS2 : exec fuel (.expr (.incdec (.slot (.load (.var 0) .ptr) 14) true true .i32)) { mem := m, loc := [.ptr bk 0, .ptr an 0, .null] } =
      .normal { mem := m1, loc := [.ptr bk 0, .ptr an 0, .null] } := by
    have hst : m.storeSlot bk ((14 : Nat) : Int) (.int (if true then (n : Int) + 1 else (n : Int) - 1)) = .ok m1 := by
      simpa [m1, ks1] using storeSlot_of (m := m) (b := bk) (i := 14) (.int ((n : Int) + 1)) k1 k2 kw h14
    have hev := incdec_i32_slot m m1 [.ptr bk 0, .ptr an 0, .null] (.load (.var 0) .ptr) bk 14 (n : Int) true
      (by simp [evalE, evalL, readPlace, bind, Except.bind]) (by simpa using hcnt) (by simp; omega) (by simp; omega) hst
    simp only [exec, hev]
  rw [exec_seq_normal hS2]
  -- the array with one more element; the old one, if there was one, is released
  have hm1k : m1[bk]? = some { kblk with slots := ks1 } := by simp [m1, hbk]
  have hks1_14 : ks1[14]? = some (.int ((n : Int) + 1)) := by simp [ks1, List.getElem?_set, h14]
  have hl14 : m1.loadSlot bk 14 = .ok (.int ((n : Int) + 1)) := by
    simpa using loadSlot_of (i := 14) hm1k k2 hks1_14 (by simp)
  let L := m.length
  have hm1len : m1.length = L := by simp [m1, L]
  obtain ⟨v13, gs2, m2, hk13, hv13, hre, hLlen, hm2k, hm2L, hgs2len, hgs2, hm2fr⟩ : ∃ (v13 : Val) (gs2 : List Val) (m2 : Mem),
      kblk.slots[13]? = some v13 ∧ v13 ≠ .undef ∧
      builtin "realloc_words" [v13, .int ((n : Int) + 2)] m1 = .ok (.ptr L 0, m2) ∧ m2.length = L + 1 ∧
      m2[bk]? = some { kblk with slots := ks1 } ∧ m2[L]? = some ({ cells := [], slots := gs2 } : Block) ∧ gs2.length = n + 2 ∧
      (∀ i (hi : i < n), gs2[i]? = some (.ptr (gl[i]).1 0)) ∧ (∀ b, b < L → b ≠ bk → b ≠ bl → m2[b]? = m[b]?) := by
    have h' := h
    rcases h' with hA | ⟨hg, hb, nblk, n1, n2, n3, n4⟩
    · -- there is an array: it moves
      have hne' : bk ≠ bl := hA.ne hne
      obtain ⟨kblk', k1', _, k3, _⟩ := hA.kf
      rw [k1] at k1'; injection k1' with k1'; subst k1'
      obtain ⟨gblk, g1, g2, g3, g4⟩ := hA.arr
      have hm1l : m1[bl]? = some gblk := by simp only [m1]; rw [set_other (Ne.symm hne')]; exact g1
      refine ⟨.ptr bl 0, gblk.slots ++ [.undef], m1.set bl { gblk with live := false } ++ [{ cells := [], slots := gblk.slots ++ [.undef] }],
        k3, by simp, ?_, by simp [m1, L], ?_, ?_, by simp [g3, n], fun i hi => ?_, fun b hb hbk' hbl' => ?_⟩
      · have := realloc_words_spec m1 bl gblk (n + 2) hm1l g2
        have e1 : gblk.slots.take (n + 2) = gblk.slots := List.take_of_length_le (by omega)
        have e2 : (n + 2) - gblk.slots.length = 1 := by omega
        simp only [e1, e2, List.replicate_one, hm1len] at this
        have e4 : (((n + 2 : Nat)) : Int) = (n : Int) + 2 := by omega
        rw [e4] at this
        exact this
      · rw [List.getElem?_append_left (by simp [m1]; exact hbk), set_other hne']; exact hm1k
      · rw [List.getElem?_append_right (by simp [m1, L])]
        simp [m1, L]
      · rw [List.getElem?_append_left (by rw [g3]; omega)]
        exact (g4 i hi).1
      · rw [List.getElem?_append_left (by simp [m1]; exact hb), set_other hbl']
        simp only [m1]; rw [set_other hbk']
    · -- `groups == NULL`: `realloc` makes the first array
      rw [k1] at n1; injection n1 with n1; subst n1
      have hn0 : n = 0 := by simp [n, hg]
      refine ⟨.null, [.undef, .undef], m1 ++ [{ cells := [], slots := [.undef, .undef] }], n3, by simp, ?_, by simp [m1, L], ?_, ?_, by simp [hn0],
        fun i hi => by omega, fun b hb hbk' _ => ?_⟩
      · simp [builtin, Mem.allocWords, hn0, hm1len, List.replicate]
      · rw [List.getElem?_append_left (by simp [m1]; exact hbk)]; exact hm1k
      · rw [List.getElem?_append_right (by simp [m1, L])]
        simp [m1, L]
      · rw [List.getElem?_append_left (by simp [m1]; exact hb)]
        simp only [m1]; rw [set_other hbk']
  have hks1_13 : ks1[13]? = some v13 := by simp [ks1, List.getElem?_set, hk13]
  have hl13 : m1.loadSlot bk 13 = .ok v13 := by
    simpa using loadSlot_of (i := 13) hm1k k2 hks1_13 hv13
  let ks3 := ks1.set 13 (.ptr L 0)
  let m3 : Mem := m2.set bk { kblk with slots := ks3 }
  have hS3 : exec fuel (.expr (.assign (.slot (.load (.var 0) .ptr) 13) sgRealloc .ptr)) { mem := m1, loc := [.ptr bk 0, .ptr an 0, .null] } =
      .normal { mem := m3, loc := [.ptr bk 0, .ptr an 0, .null] } := by
    have hc1 : evalE sgCount1 { mem := m1, loc := [.ptr bk 0, .ptr an 0, .null] } = .ok (.int ((n : Int) + 1 + 1), { mem := m1, loc := [.ptr bk 0, .ptr an 0, .null] }) := by
      have := evalE_addsub_i32 { mem := m1, loc := [.ptr bk 0, .ptr an 0, .null] } (.load (.slot (.load (.var 0) .ptr) 14) .i32) (.lit 1 .i32) ((n : Int) + 1) 1 false
        (by simp [evalE, evalL, readPlace, hl14, bind, Except.bind]) (by simp [evalE]) (by simp; omega) (by simp; omega)
      simpa [sgCount1] using this
    have hw64 : wrapTo .u64 ((n : Int) + 1 + 1) = (n : Int) + 2 := by rw [wrapTo_u64_small _ (by omega) (by omega)]; omega
    have hw64' : wrapTo .u64 (((n : Int) + 2) * 1) = (n : Int) + 2 := by rw [Int.mul_one, wrapTo_u64_small _ (by omega) (by omega)]
    have hw64'' : wrapTo .u64 ((n : Int) + 2) = (n : Int) + 2 := wrapTo_u64_small _ (by omega) (by omega)
    have hst : m2.storeSlot bk 13 (.ptr L 0) = .ok m3 := by
      simpa [m3, ks3] using storeSlot_of (m := m2) (b := bk) (i := 13) (.ptr L 0) hm2k k2 kw (by simp [ks1]; exact h13)
    simp [exec, evalE, evalL, evalArgs, readPlace, writePlace, sgRealloc, hl13, hc1, binop, cmpInt, arith_u64, convert, hw64, hw64', hw64'', hre, hst,
      bind, Except.bind, Except.map]
  rw [exec_seq_normal hS3]
  -- the new array is there: the else branch
  have hm3k : m3[bk]? = some { kblk with slots := ks3 } := by
    have : bk < m2.length := by omega
    simp [m3, this]
  have hbkL : bk ≠ L := by omega
  have hm3L : m3[L]? = some { cells := [], slots := gs2 } := by
    simp only [m3]
    rw [set_other (Ne.symm hbkL)]
    exact hm2L
  have hks3_13 : ks3[13]? = some (.ptr L 0) := by simp [ks3, ks1, List.getElem?_set, h13]
  have hks3_14 : ks3[14]? = some (.int ((n : Int) + 1)) := by simp [ks3, List.getElem?_set, hks1_14]
  have hl13' : m3.loadSlot bk 13 = .ok (.ptr L 0) := by simpa using loadSlot_of (i := 13) hm3k k2 hks3_13 (by simp)
  have hl14' : m3.loadSlot bk 14 = .ok (.int ((n : Int) + 1)) := by simpa using loadSlot_of (i := 14) hm3k k2 hks3_14 (by simp)
  have hcondF : testOf (some (.bin .eq (.load (.slot (.load (.var 0) .ptr) 13) .ptr) .null .i32)) { mem := m3, loc := [.ptr bk 0, .ptr an 0, .null] } =
      .ok (false, { mem := m3, loc := [.ptr bk 0, .ptr an 0, .null] }) := by
    simp [testOf, evalE, evalL, readPlace, hl13', binop, boolVal, truth, bind, Except.bind]
  -- groups[count] = NULL
  let gs4 := gs2.set (n + 1) .null
  let m4 : Mem := m3.set L { cells := [], slots := gs4 }
  have hsx1 : slotAdd m3 L 0 ((n : Int) + 1) = .ok (.ptr L ((n : Int) + 1)) := by
    have : (0 : Int) ≤ (n : Int) + 1 ∧ (n : Int) + 1 ≤ (gs2.length : Int) := by rw [hgs2len]; omega
    simp [slotAdd, Mem.block, hm3L, this, bind, Except.bind]
  have hst4 : m3.storeSlot L ((n : Int) + 1) .null = .ok m4 := by
    have := storeSlot_of (m := m3) (b := L) (i := n + 1) .null hm3L rfl rfl (by rw [hgs2len]; omega)
    simpa [m4, gs4] using this
  have hS5 : exec fuel (.expr (.assign (.slot (.sidx (.load (.slot (.load (.var 0) .ptr) 13) .ptr) (.load (.slot (.load (.var 0) .ptr) 14) .i32) 1) 0) .null .ptr))
      { mem := m3, loc := [.ptr bk 0, .ptr an 0, .null] } = .normal { mem := m4, loc := [.ptr bk 0, .ptr an 0, .null] } := by
    simp [exec, evalE, evalL, readPlace, writePlace, hl13', hl14', hsx1, convert, hst4, bind, Except.bind, Except.map]
  -- in every later memory that still holds the struct: its two members, and the index `count - 1`
  have kfacts : ∀ (mm : Mem) (v2 : Val), mm[bk]? = some { kblk with slots := ks3 } →
      mm.loadSlot bk 13 = .ok (.ptr L 0) ∧
      evalE sgIdx { mem := mm, loc := [.ptr bk 0, .ptr an 0, v2] } = .ok (.int (n : Int), { mem := mm, loc := [.ptr bk 0, .ptr an 0, v2] }) := by
    intro mm v2 hmm
    have a13 : mm.loadSlot bk 13 = .ok (.ptr L 0) := by simpa using loadSlot_of (i := 13) hmm k2 hks3_13 (by simp)
    have a14 : mm.loadSlot bk 14 = .ok (.int ((n : Int) + 1)) := by simpa using loadSlot_of (i := 14) hmm k2 hks3_14 (by simp)
    refine ⟨a13, ?_⟩
    have := evalE_addsub_i32 { mem := mm, loc := [.ptr bk 0, .ptr an 0, v2] } (.load (.slot (.load (.var 0) .ptr) 14) .i32) (.lit 1 .i32) ((n : Int) + 1) 1 true
      (by simp [evalE, evalL, readPlace, a14, bind, Except.bind]) (by simp [evalE]) (by simp <;> omega) (by simp <;> omega)
    simpa [sgIdx] using this
  have hm4k : m4[bk]? = some { kblk with slots := ks3 } := by simp only [m4]; rw [set_other hbkL, hm3k]
  have hm4L : m4[L]? = some { cells := [], slots := gs4 } := by
    have : L < m3.length := by simp [m3]; omega
    simp [m4, this]
  have hm4len : m4.length = L + 1 := by simp [m4, m3, hLlen]
  -- the copy of the name
  have hanlt : an < m.length := cstr_lt hn
  have hm4an : m4[an]? = m[an]? := by
    have e1 : an ≠ L := by omega
    simp only [m4]; rw [set_other e1]
    simp only [m3]; rw [set_other han.1]
    exact hm2fr an hanlt han.1 han.2
  have hn4 : m4.cstr an 0 = .ok nm := by rw [cstr_congr hm4an]; exact hn
  obtain ⟨m5, hsd, hm5b, hm5len, hm5fr⟩ := strdup_spec m4 an 0 nm hn4
  rw [hm4len] at hsd hm5b hm5len hm5fr
  have hm5k : m5[bk]? = some { kblk with slots := ks3 } := by rw [hm5fr bk (by omega)]; exact hm4k
  have hm5L : m5[L]? = some { cells := [], slots := gs4 } := by rw [hm5fr L (by omega)]; exact hm4L
  let gs6 := gs4.set n (.ptr (L + 1) 0)
  let m6 : Mem := m5.set L { cells := [], slots := gs6 }
  have hgs4len : gs4.length = n + 2 := by simp [gs4, hgs2len]
  have hsxn : ∀ mm : Mem, mm[L]? = some ({ cells := [], slots := gs4 } : Block) ∨ mm[L]? = some ({ cells := [], slots := gs6 } : Block) →
      slotAdd mm L 0 (n : Int) = .ok (.ptr L (n : Int)) := by
    intro mm hmm
    have hgs6len : gs6.length = n + 2 := by simp [gs6, hgs4len]
    rcases hmm with hmm | hmm
    · have : (0 : Int) ≤ (n : Int) ∧ (n : Int) ≤ (gs4.length : Int) := by rw [hgs4len]; omega
      simp [slotAdd, Mem.block, hmm, this, bind, Except.bind]
    · have : (0 : Int) ≤ (n : Int) ∧ (n : Int) ≤ (gs6.length : Int) := by rw [hgs6len]; omega
      simp [slotAdd, Mem.block, hmm, this, bind, Except.bind]
  have hst6 : m5.storeSlot L (n : Int) (.ptr (L + 1) 0) = .ok m6 := by
    have := storeSlot_of (m := m5) (b := L) (i := n) (.ptr (L + 1) 0) hm5L rfl rfl (by rw [hgs4len]; omega)
    simpa [m6, gs6] using this
  obtain ⟨k13_4, kidx_4⟩ := kfacts m4 .null hm4k
  have hS6 : exec fuel (.expr (.assign (.slot sgLast 0) (.call "strdup" (.cons (.load (.var 1) .ptr) .nil)) .ptr))
      { mem := m4, loc := [.ptr bk 0, .ptr an 0, .null] } = .normal { mem := m6, loc := [.ptr bk 0, .ptr an 0, .null] } := by
    have hsx := hsxn m4 (Or.inl hm4L)
    simp [exec, evalE, evalL, evalArgs, readPlace, writePlace, sgLast, k13_4, kidx_4, hsx, hsd, convert, hst6, bind, Except.bind, Except.map]
  have hm6k : m6[bk]? = some { kblk with slots := ks3 } := by simp only [m6]; rw [set_other hbkL, hm5k]
  have hm6L : m6[L]? = some { cells := [], slots := gs6 } := by
    have : L < m5.length := by omega
    simp [m6, this]
  obtain ⟨k13_6, kidx_6⟩ := kfacts m6 .null hm6k
  have hgs6n : gs6[n]? = some (.ptr (L + 1) 0) := by simp [gs6, List.getElem?_set, hgs4len]
  have hl6 : m6.loadSlot L (n : Int) = .ok (.ptr (L + 1) 0) := loadSlot_of hm6L rfl hgs6n (by simp)
  have hS7 : exec fuel (.expr (.assign (.var 2) (.load (.slot sgLast 0) .ptr) .ptr))
      { mem := m6, loc := [.ptr bk 0, .ptr an 0, .null] } = .normal { mem := m6, loc := [.ptr bk 0, .ptr an 0, .ptr (L + 1) 0] } := by
    have hsx := hsxn m6 (Or.inr hm6L)
    simp [exec, evalE, evalL, readPlace, writePlace, sgLast, k13_6, kidx_6, hsx, hl6, convert, bind, Except.bind, Except.map]
  have hgrow : exec fuel sgGrow { mem := m3, loc := [.ptr bk 0, .ptr an 0, .null] } = .normal { mem := m6, loc := [.ptr bk 0, .ptr an 0, .ptr (L + 1) 0] } := by
    unfold sgGrow
    rw [exec_seq_normal hS5, exec_seq_normal hS6, hS7]
  rw [exec_seq_normal (by rw [exec_ite_false hcondF]; exact hgrow)]
  have hfr6 : ∀ b, b < L → b ≠ bk → b ≠ bl → m6[b]? = m[b]? := by
    intro b hb hbk' hbl'
    have e1 : b ≠ L := by omega
    simp only [m6]; rw [set_other e1, hm5fr b (by omega)]
    simp only [m4]; rw [set_other e1]
    simp only [m3]; rw [set_other hbk']
    exact hm2fr b hb hbk' hbl'
  have hm6len : m6.length = L + 2 := by simp [m6, hm5len]
  have hm6new : m6.cstr (L + 1) 0 = .ok nm := by
    have hz := cstr_nz hn
    have : m6[L + 1]? = m5[L + 1]? := by simp only [m6]; rw [set_other (by omega)]
    rw [cstr_congr this]
    exact hm5b.cstr0 (rest := []) hz
  refine ⟨m6, [.ptr bk 0, .ptr an 0, .ptr (L + 1) 0], by simp [exec, evalE, evalL, readPlace, bind, Except.bind, L], ?_, hm6len, hfr6, ?_⟩
  · -- the object lists the old names and the new one
    refine ⟨⟨_, hm6k, k2, hks3_13, by simp [hks3_14, n]⟩, ⟨_, hm6L, rfl, by simp [gs6, hgs4len, n], ?_⟩⟩
    intro i hi
    have hi' : i < n + 1 := by simpa [n] using hi
    by_cases hin : i < n
    · have e2 := hstr i hin
      have hmem := hd (gl[i]) (List.getElem_mem hin)
      have hgi : gs6[i]? = some (.ptr (gl[i]).1 0) := by
        have a1 : i ≠ n := by omega
        have a2 : i ≠ n + 1 := by omega
        simp only [gs6, gs4]
        rw [List.getElem?_set_ne (Ne.symm a1), List.getElem?_set_ne (Ne.symm a2)]
        exact hgs2 i hin
      have hlt := cstr_lt e2
      have hc : m6.cstr (gl[i]).1 0 = .ok (gl[i]).2 := by rw [cstr_congr (hfr6 _ hlt hmem.1 hmem.2)]; exact e2
      simp only [List.getElem_append_left hin]
      exact ⟨hgi, hc⟩
    · have hin' : i = n := by omega
      subst hin'
      have hx : (gl ++ [(m.length + 1, nm)])[n]'hi = (m.length + 1, nm) := by
        simp [n]
      rw [hx]
      exact ⟨hgs6n, hm6new⟩
  · intro kb kb' hkb hkb'
    rw [k1] at hkb; injection hkb with hkb; subst hkb
    rw [hm6k] at hkb'; injection hkb' with hkb'; subst hkb'
    refine ⟨k2, kw, rfl, by simp [ks3, ks1], ?_⟩
    intro i h13' h14'
    simp only [ks3, ks1]
    rw [List.getElem?_set_ne (Ne.symm h13'), List.getElem?_set_ne (Ne.symm h14')]

theorem firstN_mem (gl : List (Nat × List UInt8)) (nm : List UInt8) :
    firstN gl nm < gl.length ↔ nm ∈ gl.map (·.2) := by
  induction gl with
  | nil => simp [firstN]
  | cons e es ih =>
    by_cases hm : (e.2 == nm) = true
    · have : firstN (e :: es) nm = 0 := by simp [firstN, List.takeWhile, hm]
      have h2 : e.2 = nm := by simpa using hm
      simp [this, h2]
    · have hm' : (e.2 == nm) = false := by simpa using hm
      have e1 : firstN (e :: es) nm = firstN es nm + 1 := by simp [firstN, List.takeWhile, hm']
      have h2 : ¬ e.2 = nm := by simpa using hm
      have h3 : ¬ nm = e.2 := fun h => h2 h.symm
      rw [e1]
      simp only [List.length_cons, Nat.add_lt_add_iff_right, List.map_cons, List.mem_cons, h3, false_or]
      exact ih

/-- `setGroupList` (lib/helpers.c) on the translated term: no fault, and afterwards the object's group list is the model's
    `addGroup` of the old one – the name is appended exactly when it was not there, first-appearance order is kept – and the
    pointer returned is the list's element for that name. -/
theorem C_setGroupList (m : Mem) (bk bl an : Nat) (gl : List (Nat × List UInt8)) (nm : List UInt8) (h : GlMem m bk bl gl)
    (hn : m.cstr an 0 = .ok nm) (hkw : ∀ blk, m[bk]? = some blk → blk.writable = true) (hne : gl ≠ [] → bk ≠ bl)
    (hd : ∀ e, e ∈ gl → e.1 ≠ bk ∧ e.1 ≠ bl) (han : an ≠ bk ∧ an ≠ bl)
    (hsmall : (gl.length : Int) + 2 < 2147483648) (fuel : Nat) (hf : gl.length + 1 < fuel) :
    ∃ m' loc' b' bl' gl', exec fuel LeafFns.setGroupList.body { mem := m, loc := [.ptr bk 0, .ptr an 0, .undef] } =
        .ret (.ptr b' 0) { mem := m', loc := loc' } ∧
      GlMem m' bk bl' gl' ∧ gl'.map (·.2) = Econf.addGroup (gl.map (·.2)) nm ∧ (b', nm) ∈ gl' := by
  have hc := firstN_mem gl nm
  by_cases hlt : firstN gl nm < gl.length
  · obtain ⟨loc', he⟩ := setGroupList_found m bk bl an gl nm h hn (by omega) fuel hf hlt
    have hmem : nm ∈ gl.map (·.2) := hc.1 hlt
    have hcont : (gl.map (·.2)).contains nm = true := by simpa using hmem
    refine ⟨m, loc', _, bl, gl, he, h, by simp only [Econf.addGroup, hcont, if_true], ?_⟩
    have hat := firstN_at gl nm hlt
    have hx : gl[firstN gl nm] = ((gl[firstN gl nm]).1, nm) := Prod.ext rfl hat
    have := List.getElem_mem hlt
    rw [hx] at this
    exact this
  · obtain ⟨m', loc', he, hg, _, _, _⟩ := setGroupList_new m bk bl an gl nm h hn hkw hne hd han hsmall fuel hf hlt
    have hmem : ¬ nm ∈ gl.map (·.2) := fun hh => hlt (hc.2 hh)
    have hcont : (gl.map (·.2)).contains nm = false := by simpa using hmem
    exact ⟨m', loc', _, _, _, he, hg.toGlMem, by simp only [Econf.addGroup, hcont, Bool.false_eq_true, if_false, List.map_append, List.map_cons, List.map_nil], by simp⟩

/-- what the steps of the merge keep of the destination object: it stays writable, and every member other than `groups` (word 13) and
    `group_count` (word 14) is as in `kb0` -/
def KfKeep (kb0 blk : Block) : Prop :=
  blk.writable = true ∧ blk.cells = kb0.cells ∧ blk.slots.length = kb0.slots.length ∧ ∀ i, i ≠ 13 → i ≠ 14 → blk.slots[i]? = kb0.slots[i]?

theorem KfKeep.refl {kb : Block} (h : kb.writable = true) : KfKeep kb kb := ⟨h, rfl, rfl, fun _ _ _ => rfl⟩

theorem KfKeep.trans {a b c : Block} (h1 : KfKeep a b) (h2 : KfKeep b c) : KfKeep a c :=
  ⟨h2.1, h2.2.1.trans h1.2.1, h2.2.2.1.trans h1.2.2.1, fun i h13 h14 => (h2.2.2.2 i h13 h14).trans (h1.2.2.2 i h13 h14)⟩

/-- the object is kept over a step that leaves its block alone -/
theorem KfKeep.same {m m' : Mem} {bk : Nat} (hw : ∀ blk, m[bk]? = some blk → blk.writable = true) (he : m'[bk]? = m[bk]?) :
    ∀ kb blk, m[bk]? = some kb → m'[bk]? = some blk → KfKeep kb blk := by
  intro kb blk hk hb
  rw [he, hk] at hb; injection hb with hb; subst hb
  exact KfKeep.refl (hw kb hk)

/-! ## `cpy_file_entry` (lib/helpers.c) -/

/-- `setGroupList` as its callers see it: the object's group list becomes `addGroup`, the result is the list's element for
    the name, every block of the old memory other than the struct and the old array is as before, nothing shrinks -/
theorem setGroupList_spec (m : Mem) (bk bl an : Nat) (gl : List (Nat × List UInt8)) (nm : List UInt8) (h : GlMem m bk bl gl)
    (hn : m.cstr an 0 = .ok nm) (hkw : ∀ blk, m[bk]? = some blk → blk.writable = true) (hne : gl ≠ [] → bk ≠ bl)
    (hd : ∀ e, e ∈ gl → e.1 ≠ bk ∧ e.1 ≠ bl) (han : an ≠ bk ∧ an ≠ bl)
    (hsmall : (gl.length : Int) + 2 < 2147483648) (fuel : Nat) (hf : gl.length + 1 < fuel) :
    ∃ m' loc' b' bl' gl', exec fuel LeafFns.setGroupList.body { mem := m, loc := [.ptr bk 0, .ptr an 0, .undef] } =
        .ret (.ptr b' 0) { mem := m', loc := loc' } ∧
      GlMem m' bk bl' gl' ∧ gl'.map (·.2) = Econf.addGroup (gl.map (·.2)) nm ∧ (b', nm) ∈ gl' ∧
      m.length ≤ m'.length ∧ (∀ b, b < m.length → b ≠ bk → b ≠ bl → m'[b]? = m[b]?) ∧
      (∀ kb blk, m[bk]? = some kb → m'[bk]? = some blk → KfKeep kb blk) ∧ (gl' ≠ [] → bk ≠ bl') ∧ (∀ e, e ∈ gl' → e.1 ≠ bk ∧ e.1 ≠ bl') ∧ gl'.length ≤ gl.length + 1 ∧
      (bl' = bl ∨ m.length ≤ bl') := by
  have hc := firstN_mem gl nm
  by_cases hlt : firstN gl nm < gl.length
  · obtain ⟨loc', he⟩ := setGroupList_found m bk bl an gl nm h hn (by omega) fuel hf hlt
    have hmem : nm ∈ gl.map (·.2) := hc.1 hlt
    have hcont : (gl.map (·.2)).contains nm = true := by simpa using hmem
    refine ⟨m, loc', _, bl, gl, he, h, by simp only [Econf.addGroup, hcont, if_true], ?_, Nat.le_refl _, fun _ _ _ _ => rfl, KfKeep.same hkw rfl, hne, hd, by omega, Or.inl rfl⟩
    have hat := firstN_at gl nm hlt
    have hx : gl[firstN gl nm] = ((gl[firstN gl nm]).1, nm) := Prod.ext rfl hat
    have := List.getElem_mem hlt
    rw [hx] at this
    exact this
  · obtain ⟨m', loc', he, hg, hlen, hfr, hkf⟩ := setGroupList_new m bk bl an gl nm h hn hkw hne hd han hsmall fuel hf hlt
    have hmem : ¬ nm ∈ gl.map (·.2) := fun hh => hlt (hc.2 hh)
    have hcont : (gl.map (·.2)).contains nm = false := by simpa using hmem
    obtain ⟨kblk, k1, _⟩ := h.obj
    have hbk : bk < m.length := h.bk_lt
    have hbl : bl < m.length := h.bl_lt
    refine ⟨m', loc', _, _, _, he, hg.toGlMem, by simp only [Econf.addGroup, hcont, Bool.false_eq_true, if_false, List.map_append, List.map_cons, List.map_nil], by simp,
      by omega, hfr, ?_, fun _ => by omega, ?_, by simp, Or.inr (Nat.le_refl _)⟩
    · intro kb blk hk hb
      exact (hkf kb blk hk hb).2
    · intro e he'
      rcases List.mem_append.1 he' with h1 | h1
      · have := hd e h1
        have hlt' : e.1 < m.length := h.str_lt h1
        exact ⟨this.1, by omega⟩
      · simp at h1
        subst h1
        simp
        omega

/-- `copy.member = strdup(src.member)` for member number `k` of a struct copy that lives in block `L` -/
theorem cp_strdup (fuel : Nat) (mm : Mem) (bk bs L os k : Nat) (sl : List Val) (b : Nat) (s : List UInt8)
    (hL : mm[L]? = some { cells := [], slots := sl }) (hk : k < sl.length)
    (hsrc : mm.loadSlot bs ((os : Int) + (k : Int)) = .ok (.ptr b 0)) (hstr : mm.cstr b 0 = .ok s) :
    ∃ mm', exec fuel (.expr (.assign (.slot (.load (.var 2) .ptr) k) (.call "strdup" (.cons (.load (.slot (.load (.var 1) .ptr) k) .ptr) .nil)) .ptr))
        { mem := mm, loc := [.ptr bk 0, .ptr bs (os : Int), .ptr L 0] } = .normal { mem := mm', loc := [.ptr bk 0, .ptr bs (os : Int), .ptr L 0] } ∧
      mm'[L]? = some { cells := [], slots := sl.set k (.ptr mm.length 0) } ∧ mm'.length = mm.length + 1 ∧
      mm'.cstr mm.length 0 = .ok s ∧ ∀ b', b' < mm.length → b' ≠ L → mm'[b']? = mm[b']? := by
  obtain ⟨m1, hsd, hmb, hlen, hfr⟩ := strdup_spec mm b 0 s hstr
  have hLlt : L < mm.length := (List.getElem?_eq_some_iff.1 hL).1
  have hL1 : m1[L]? = some { cells := [], slots := sl } := by rw [hfr L hLlt]; exact hL
  have hst := storeSlot_of (m := m1) (b := L) (i := k) (.ptr mm.length 0) hL1 rfl rfl hk
  refine ⟨m1.set L { cells := [], slots := sl.set k (.ptr mm.length 0) }, ?_, ?_, by simp [hlen], ?_, ?_⟩
  · simp [exec, evalE, evalL, evalArgs, readPlace, writePlace, hsrc, hsd, convert, hst, bind, Except.bind, Except.map]
  · have : L < m1.length := by omega
    simp [this]
  · have hne : mm.length ≠ L := by omega
    rw [cstr_congr (set_other hne)]
    exact hmb.cstr0 (rest := []) (cstr_nz hstr)
  · intro b' hb' hne
    rw [set_other hne, hfr b' hb']

/-- `copy.member = NULL` -/
theorem cp_null (fuel : Nat) (mm : Mem) (bk bs L os k : Nat) (sl : List Val)
    (hL : mm[L]? = some { cells := [], slots := sl }) (hk : k < sl.length) :
    exec fuel (.expr (.assign (.slot (.load (.var 2) .ptr) k) .null .ptr))
        { mem := mm, loc := [.ptr bk 0, .ptr bs (os : Int), .ptr L 0] } =
      .normal { mem := mm.set L { cells := [], slots := sl.set k .null }, loc := [.ptr bk 0, .ptr bs (os : Int), .ptr L 0] } := by
  have hst := storeSlot_of (m := mm) (b := L) (i := k) .null hL rfl rfl hk
  simp [exec, evalE, evalL, readPlace, writePlace, convert, hst, bind, Except.bind, Except.map]

/-- an optional string member: NULL, or a pointer to a C string -/
inductive OptStr (m : Mem) : Val → Option (List UInt8) → Prop where
  | none : OptStr m .null none
  | some (b : Nat) (s : List UInt8) (h : m.cstr b 0 = .ok s) : OptStr m (.ptr b 0) (some s)

/-- `if (src.member) copy.member = strdup(src.member); else copy.member = NULL;` -/
theorem cp_opt (fuel : Nat) (mm : Mem) (bk bs L os k : Nat) (sl : List Val) (v : Val) (s : Option (List UInt8))
    (hL : mm[L]? = some { cells := [], slots := sl }) (hk : k < sl.length)
    (hsrc : mm.loadSlot bs ((os : Int) + (k : Int)) = .ok v) (hv : OptStr mm v s) :
    ∃ mm' v', exec fuel (.ite (.load (.slot (.load (.var 1) .ptr) k) .ptr)
          (.expr (.assign (.slot (.load (.var 2) .ptr) k) (.call "strdup" (.cons (.load (.slot (.load (.var 1) .ptr) k) .ptr) .nil)) .ptr))
          (.expr (.assign (.slot (.load (.var 2) .ptr) k) .null .ptr)))
        { mem := mm, loc := [.ptr bk 0, .ptr bs (os : Int), .ptr L 0] } = .normal { mem := mm', loc := [.ptr bk 0, .ptr bs (os : Int), .ptr L 0] } ∧
      mm'[L]? = some { cells := [], slots := sl.set k v' } ∧ OptStr mm' v' s ∧ mm.length ≤ mm'.length ∧
      (∀ b', b' < mm.length → b' ≠ L → mm'[b']? = mm[b']?) ∧ (∀ b, v' = .ptr b 0 → mm.length ≤ b) := by
  have hLlt : L < mm.length := (List.getElem?_eq_some_iff.1 hL).1
  cases hv with
  | none =>
    have ht : testOf (some (.load (.slot (.load (.var 1) .ptr) k) .ptr)) { mem := mm, loc := [.ptr bk 0, .ptr bs (os : Int), .ptr L 0] } =
        .ok (false, { mem := mm, loc := [.ptr bk 0, .ptr bs (os : Int), .ptr L 0] }) := by
      simp [testOf, evalE, evalL, readPlace, hsrc, truth, bind, Except.bind]
    refine ⟨_, .null, by rw [exec_ite_false ht]; exact cp_null fuel mm bk bs L os k sl hL hk, by simp [hLlt], .none, by simp, fun b' _ hne => set_other hne,
      fun b hb => by cases hb⟩
  | some b str hc =>
    have ht : testOf (some (.load (.slot (.load (.var 1) .ptr) k) .ptr)) { mem := mm, loc := [.ptr bk 0, .ptr bs (os : Int), .ptr L 0] } =
        .ok (true, { mem := mm, loc := [.ptr bk 0, .ptr bs (os : Int), .ptr L 0] }) := by
      simp [testOf, evalE, evalL, readPlace, hsrc, truth, bind, Except.bind]
    obtain ⟨mm', he, h1, h2, h3, h4⟩ := cp_strdup fuel mm bk bs L os k sl b str hL hk hsrc hc
    exact ⟨mm', _, by rw [exec_ite_true ht]; exact he, h1, .some _ _ h3, by omega, h4, fun b hb => by cases hb; exact Nat.le_refl _⟩

theorem OptStr.mono {m m' : Mem} {v : Val} {s : Option (List UInt8)} (h : OptStr m v s)
    (hm : ∀ b, v = .ptr b 0 → m'[b]? = m[b]?) : OptStr m' v s := by
  cases h with
  | none => exact .none
  | some b str hc => exact .some b str (by rw [cstr_congr (hm b rfl)]; exact hc)

/-- one `struct file_entry` at word `os` of block `bs`, holding the entry `e`; none of the blocks it uses is in `avoid` -/
structure EntMem (m : Mem) (bs os : Nat) (e : Econf.Entry) (avoid : List Nat) : Prop where
  self : bs ∉ avoid
  grp : ∃ b, m.loadSlot bs (os : Int) = .ok (.ptr b 0) ∧ m.cstr b 0 = .ok e.group ∧ b ∉ avoid
  key : ∃ b, m.loadSlot bs ((os : Int) + 1) = .ok (.ptr b 0) ∧ m.cstr b 0 = .ok e.key ∧ b ∉ avoid
  val : ∃ v, m.loadSlot bs ((os : Int) + 2) = .ok v ∧ OptStr m v e.value ∧ ∀ b, v = .ptr b 0 → b ∉ avoid
  cb : ∃ v, m.loadSlot bs ((os : Int) + 3) = .ok v ∧ OptStr m v e.cb ∧ ∀ b, v = .ptr b 0 → b ∉ avoid
  ca : ∃ v, m.loadSlot bs ((os : Int) + 4) = .ok v ∧ OptStr m v e.ca ∧ ∀ b, v = .ptr b 0 → b ∉ avoid
  line : m.loadSlot bs ((os : Int) + 5) = .ok (.int (e.line : Int))

theorem cstr_lt' {m : Mem} {b : Nat} {s : List UInt8} (h : m.cstr b 0 = .ok s) : b < m.length := cstr_lt h

theorem loadSlot_lt {m : Mem} {b : Nat} {i : Int} {v : Val} (h : m.loadSlot b i = .ok v) : b < m.length := by
  cases hb : m[b]? with
  | none => simp [Mem.loadSlot, Mem.block, hb, bind, Except.bind] at h
  | some blk => exact (List.getElem?_eq_some_iff.1 hb).1

theorem OptStr.lt {m : Mem} {v : Val} {s : Option (List UInt8)} (h : OptStr m v s) : ∀ b, v = .ptr b 0 → b < m.length := by
  intro b hv
  cases h with
  | none => cases hv
  | some b' str hc => cases hv; exact cstr_lt hc

/-- the entry is still there in a memory that agrees with the old one outside `avoid` -/
theorem EntMem.mono {m m' : Mem} {bs os : Nat} {e : Econf.Entry} {avoid : List Nat} (h : EntMem m bs os e avoid)
    (hm : ∀ b, b < m.length → b ∉ avoid → m'[b]? = m[b]?) : EntMem m' bs os e avoid := by
  obtain ⟨bg, g1, g2, g3⟩ := h.grp
  obtain ⟨bq, k1, k2, k3⟩ := h.key
  obtain ⟨v, v1, v2, v3⟩ := h.val
  obtain ⟨vb, b1, b2, b3⟩ := h.cb
  obtain ⟨va, a1, a2, a3⟩ := h.ca
  have hs := hm bs (loadSlot_lt g1) h.self
  refine ⟨h.self, ⟨bg, by rw [loadSlot_congr hs]; exact g1, by rw [cstr_congr (hm bg (cstr_lt g2) g3)]; exact g2, g3⟩,
    ⟨bq, by rw [loadSlot_congr hs]; exact k1, by rw [cstr_congr (hm bq (cstr_lt k2) k3)]; exact k2, k3⟩,
    ⟨v, by rw [loadSlot_congr hs]; exact v1, v2.mono (fun b hb => hm b (v2.lt b hb) (v3 b hb)), v3⟩,
    ⟨vb, by rw [loadSlot_congr hs]; exact b1, b2.mono (fun b hb => hm b (b2.lt b hb) (b3 b hb)), b3⟩,
    ⟨va, by rw [loadSlot_congr hs]; exact a1, a2.mono (fun b hb => hm b (a2.lt b hb) (a3 b hb)), a3⟩,
    by rw [loadSlot_congr hs]; exact h.line⟩

theorem GlMem.mono {m m' : Mem} {bk bl : Nat} {gl : List (Nat × List UInt8)} (h : GlMem m bk bl gl) (L : Nat)
    (hm : ∀ b, b < m.length → b ≠ L → m'[b]? = m[b]?) (h1 : bk ≠ L) (h2 : bl ≠ L) (h3 : ∀ e, e ∈ gl → e.1 ≠ L) : GlMem m' bk bl gl :=
  h.mono_of (hm bk h.bk_lt h1) (hm bl h.bl_lt h2) (fun b str hc ⟨e, he, hb⟩ => hm b (cstr_lt hc) (hb ▸ h3 e he))

/-- call of a translated function whose result is stored through an lvalue -/
theorem exec_inl_lval {fuel : Nat} {args : Args} {nl : Nat} {body : Stmt} {st st1 st' st2 st3 : St} {vs : List Val} {v : Val} {dty : Ty}
    {dst : LVal} {p : Place}
    (ha : evalArgs args st = .ok (vs, st1))
    (hb : exec fuel body { mem := st1.mem, loc := vs ++ List.replicate (nl - vs.length) .undef } = .ret v st')
    (hl : evalL dst { mem := st'.mem, loc := st1.loc } = .ok (p, st2))
    (hw : (convert dty v).bind (writePlace st2 dty p) = .ok st3) :
    exec fuel (.inl (some dst) dty args nl body) st = .normal st3 := by
  simp [exec, ha, hb, hl, hw]

def cpOpt (k : Nat) : Stmt := .ite (.load (.slot (.load (.var 1) .ptr) k) .ptr)
  (.expr (.assign (.slot (.load (.var 2) .ptr) k) (.call "strdup" (.cons (.load (.slot (.load (.var 1) .ptr) k) .ptr) .nil)) .ptr))
  (.expr (.assign (.slot (.load (.var 2) .ptr) k) .null .ptr))

theorem cpy_file_entry_shape : LeafFns.cpy_file_entry.body =
    .seq (.expr (.assign (.var 2) (.call "alloca_words" (.cons (.lit 7 .u64) .nil)) .ptr))
      (.seq (.inl (some (.slot (.load (.var 2) .ptr) 0)) .ptr (.cons (.load (.var 0) .ptr) (.cons (.load (.slot (.load (.var 1) .ptr) 0) .ptr) .nil)) 3
          LeafFns.setGroupList.body)
        (.seq (.expr (.assign (.slot (.load (.var 2) .ptr) 1) (.call "strdup" (.cons (.load (.slot (.load (.var 1) .ptr) 1) .ptr) .nil)) .ptr))
          (.seq (cpOpt 2) (.seq (cpOpt 3) (.seq (cpOpt 4)
            (.seq (.expr (.assign (.slot (.load (.var 2) .ptr) 5) (.load (.slot (.load (.var 1) .ptr) 5) .u64) .u64))
              (.seq (.expr (.assign (.slot (.load (.var 2) .ptr) 6) (.cast .bool (.lit 0 .i32)) .bool))
                (.ret (some (.load (.var 2) .ptr)))))))))) := rfl

/-- `cpy_file_entry(dest_kf, fe)` on the translated term: no fault; the copy (a struct of the callee, block `m.length`) holds
    the model's `cpyEntry fe` – fresh copies of key, value and comments, the line number, the quote flag cleared – with its
    group pointer taken from the destination's group list, which is `addGroup` of the old one; the source is untouched. -/
theorem cpy_file_entry_exec (m : Mem) (bk bl bs os : Nat) (gl : List (Nat × List UInt8)) (e : Econf.Entry)
    (hG : GlMem m bk bl gl) (hE : EntMem m bs os e [bk, bl])
    (hkw : ∀ blk, m[bk]? = some blk → blk.writable = true) (hne : gl ≠ [] → bk ≠ bl) (hd : ∀ x, x ∈ gl → x.1 ≠ bk ∧ x.1 ≠ bl)
    (hsmall : (gl.length : Int) + 2 < 2147483648) (hline : (e.line : Int) < 18446744073709551616) (fuel : Nat) (hf : gl.length + 1 < fuel) :
    ∃ m' loc' bl' gl', exec fuel LeafFns.cpy_file_entry.body { mem := m, loc := [.ptr bk 0, .ptr bs (os : Int), .undef] } =
        .ret (.ptr m.length 0) { mem := m', loc := loc' } ∧
      EntMem m' m.length 0 (Econf.cpyEntry e) [bk, bl'] ∧ m'.loadSlot m.length 6 = .ok (.int 0) ∧
      (∃ ws, m'[m.length]? = some ({ cells := [], slots := ws } : Block) ∧ ws.length = 7) ∧
      GlMem m' bk bl' gl' ∧ gl'.map (·.2) = Econf.addGroup (gl.map (·.2)) e.group ∧
      (∃ bg, m'.loadSlot m.length 0 = .ok (.ptr bg 0) ∧ (bg, e.group) ∈ gl') ∧
      (∀ b, b < m.length → b ≠ bk → b ≠ bl → m'[b]? = m[b]?) ∧ (bl' = bl ∨ m.length ≤ bl') ∧
      (∀ kb blk, m[bk]? = some kb → m'[bk]? = some blk → KfKeep kb blk) ∧ (gl' ≠ [] → bk ≠ bl') ∧ (∀ x, x ∈ gl' → x.1 ≠ bk ∧ x.1 ≠ bl') ∧ gl'.length ≤ gl.length + 1 ∧
      -- the value of the copy has a block of its own, made here: no other member of the copy and no string of the group list lives there
      (∀ bv, m'.loadSlot m.length 2 = .ok (.ptr bv 0) → m.length < bv ∧ m'.loadSlot m.length 0 ≠ .ok (.ptr bv 0) ∧
        m'.loadSlot m.length 1 ≠ .ok (.ptr bv 0) ∧ m'.loadSlot m.length 3 ≠ .ok (.ptr bv 0) ∧ m'.loadSlot m.length 4 ≠ .ok (.ptr bv 0) ∧
        bl' ≠ bv ∧ ∀ x, x ∈ gl' → x.1 ≠ bv) := by
  let L := m.length
  let sl0 : List Val := List.replicate 7 .undef
  let m0 : Mem := m ++ [{ cells := [], slots := sl0 }]
  have hS1 : exec fuel (.expr (.assign (.var 2) (.call "alloca_words" (.cons (.lit 7 .u64) .nil)) .ptr))
      { mem := m, loc := [.ptr bk 0, .ptr bs (os : Int), .undef] } = .normal { mem := m0, loc := [.ptr bk 0, .ptr bs (os : Int), .ptr L 0] } := by
    simp [exec, evalE, evalL, evalArgs, writePlace, builtin, Mem.allocWords, convert, bind, Except.bind, m0, sl0, L]
  rw [cpy_file_entry_shape, exec_seq_normal hS1]
  have hm0fr : ∀ b, b < m.length → m0[b]? = m[b]? := fun b hb => by simp [m0, List.getElem?_append_left hb]
  have hm0L : m0[L]? = some { cells := [], slots := sl0 } := by simp [m0, L]
  -- the object and the source entry in the grown memory
  have hbk : bk < L := hG.bk_lt
  have hbl : bl < L := hG.bl_lt
  have hG0 : GlMem m0 bk bl gl := hG.grow hm0fr
  have hE0 : EntMem m0 bs os e [bk, bl] := hE.mono (fun b hb _ => hm0fr b hb)
  obtain ⟨bg, eg1, eg2, eg3⟩ := hE0.grp
  have hbgne : bg ≠ bk ∧ bg ≠ bl := by simpa using eg3
  have hkw0 : ∀ blk, m0[bk]? = some blk → blk.writable = true := fun blk hb => hkw blk (by rw [← hm0fr bk hbk]; exact hb)
  obtain ⟨m1, loc1, b', bl', gl', hsg, hG1, hnames, hmem1, hlen1, hfr1, hkw1, hne1, hd1, hgl'len, hblor⟩ :=
    setGroupList_spec m0 bk bl bg gl e.group hG0 eg2 hkw0 hne hd hbgne hsmall fuel hf
  have hm0len : m0.length = L + 1 := by simp [m0, L]
  have hm1L : m1[L]? = some { cells := [], slots := sl0 } := by rw [hfr1 L (by omega) (by omega) (by omega)]; exact hm0L
  -- the group pointer goes into member 0 of the copy
  let sl1 := sl0.set 0 (.ptr b' 0)
  let m1' : Mem := m1.set L { cells := [], slots := sl1 }
  have hargs : evalArgs (.cons (.load (.var 0) .ptr) (.cons (.load (.slot (.load (.var 1) .ptr) 0) .ptr) .nil))
      { mem := m0, loc := [.ptr bk 0, .ptr bs (os : Int), .ptr L 0] } =
      .ok ([.ptr bk 0, .ptr bg 0], { mem := m0, loc := [.ptr bk 0, .ptr bs (os : Int), .ptr L 0] }) := by
    simp [evalArgs, evalE, evalL, readPlace, eg1, bind, Except.bind]
  have hS2 : exec fuel (.inl (some (.slot (.load (.var 2) .ptr) 0)) .ptr (.cons (.load (.var 0) .ptr) (.cons (.load (.slot (.load (.var 1) .ptr) 0) .ptr) .nil)) 3
      LeafFns.setGroupList.body) { mem := m0, loc := [.ptr bk 0, .ptr bs (os : Int), .ptr L 0] } =
      .normal { mem := m1', loc := [.ptr bk 0, .ptr bs (os : Int), .ptr L 0] } := by
    have hst := storeSlot_of (m := m1) (b := L) (i := 0) (.ptr b' 0) hm1L rfl rfl (by simp [sl0])
    refine exec_inl_lval (p := .slot L 0) (st2 := { mem := m1, loc := [.ptr bk 0, .ptr bs (os : Int), .ptr L 0] }) hargs (by simpa using hsg) ?_ ?_
    · simp [evalL, evalE, readPlace, bind, Except.bind]
    · have : m1.storeSlot L 0 (.ptr b' 0) = .ok m1' := by simpa [m1', sl1] using hst
      simp [convert, writePlace, this, Except.bind, Except.map]
  rw [exec_seq_normal hS2]
  -- what every later memory keeps: the caller's blocks other than the object's two, and the blocks behind `L`
  have hm1'L : m1'[L]? = some { cells := [], slots := sl1 } := by
    have : L < m1.length := by omega
    simp [m1', this]
  have hag1 : ∀ b, b < L → b ≠ bk → b ≠ bl → m1'[b]? = m[b]? := by
    intro b hb h1 h2
    have : b ≠ L := by omega
    simp only [m1']; rw [set_other this, hfr1 b (by omega) h1 h2, hm0fr b hb]
  have hm1'len : m1'.length = m1.length := by simp [m1']
  have monoE : ∀ mm : Mem, (∀ b, b < L → b ≠ bk → b ≠ bl → mm[b]? = m[b]?) → EntMem mm bs os e [bk, bl] :=
    fun mm hag => hE.mono (fun b hb hav => hag b hb (by simpa using (by simpa using hav : b ≠ bk ∧ b ≠ bl).1) (by simpa using (by simpa using hav : b ≠ bk ∧ b ≠ bl).2))
  -- key
  have hE1 := monoE m1' hag1
  obtain ⟨bq, q1, q2, _⟩ := hE1.key
  obtain ⟨mm2, hS3, hL2, hlen2, hkey2, hfr2⟩ := cp_strdup fuel m1' bk bs L os 1 sl1 bq e.key hm1'L (by simp [sl1, sl0]) (by simpa using q1) q2
  have hag2 : ∀ b, b < L → b ≠ bk → b ≠ bl → mm2[b]? = m[b]? := fun b hb h1 h2 => by
    rw [hfr2 b (by omega) (by omega)]; exact hag1 b hb h1 h2
  -- value and the two comments
  have hE2 := monoE mm2 hag2
  obtain ⟨v2, w1, w2, _⟩ := hE2.val
  obtain ⟨mm3, v2', hS4, hL3, hval3, hlen3, hfr3, hnew3⟩ := cp_opt fuel mm2 bk bs L os 2 _ v2 e.value hL2 (by simp [sl1, sl0]) (by simpa using w1) w2
  have hag3 : ∀ b, b < L → b ≠ bk → b ≠ bl → mm3[b]? = m[b]? := fun b hb h1 h2 => by
    rw [hfr3 b (by omega) (by omega)]; exact hag2 b hb h1 h2
  have hE3 := monoE mm3 hag3
  obtain ⟨v3, x1, x2, _⟩ := hE3.cb
  obtain ⟨mm4, v3', hS5, hL4, hcb4, hlen4, hfr4, hnew4⟩ := cp_opt fuel mm3 bk bs L os 3 _ v3 e.cb hL3 (by simp [sl1, sl0]) (by simpa using x1) x2
  have hag4 : ∀ b, b < L → b ≠ bk → b ≠ bl → mm4[b]? = m[b]? := fun b hb h1 h2 => by
    rw [hfr4 b (by omega) (by omega)]; exact hag3 b hb h1 h2
  have hE4 := monoE mm4 hag4
  obtain ⟨v4, y1, y2, _⟩ := hE4.ca
  obtain ⟨mm5, v4', hS6, hL5, hca5, hlen5, hfr5, hnew5⟩ := cp_opt fuel mm4 bk bs L os 4 _ v4 e.ca hL4 (by simp [sl1, sl0]) (by simpa using y1) y2
  have hag5 : ∀ b, b < L → b ≠ bk → b ≠ bl → mm5[b]? = m[b]? := fun b hb h1 h2 => by
    rw [hfr5 b (by omega) (by omega)]; exact hag4 b hb h1 h2
  have hE5 := monoE mm5 hag5
  rw [exec_seq_normal hS3]
  unfold cpOpt
  rw [exec_seq_normal hS4, exec_seq_normal hS5, exec_seq_normal hS6]
  -- line number and quote flag
  let sl5 := (((sl1.set 1 (.ptr m1'.length 0)).set 2 v2').set 3 v3').set 4 v4'
  have hL5' : mm5[L]? = some { cells := [], slots := sl5 } := hL5
  let sl6 := sl5.set 5 (.int (e.line : Int))
  let mm6 : Mem := mm5.set L { cells := [], slots := sl6 }
  have hln5 := hE5.line
  have hS7 : exec fuel (.expr (.assign (.slot (.load (.var 2) .ptr) 5) (.load (.slot (.load (.var 1) .ptr) 5) .u64) .u64))
      { mem := mm5, loc := [.ptr bk 0, .ptr bs (os : Int), .ptr L 0] } = .normal { mem := mm6, loc := [.ptr bk 0, .ptr bs (os : Int), .ptr L 0] } := by
    have hw : wrapTo .u64 (e.line : Int) = e.line := wrapTo_u64_small _ (Int.natCast_nonneg _) hline
    have hst := storeSlot_of (m := mm5) (b := L) (i := 5) (.int (e.line : Int)) hL5' rfl rfl (by simp [sl5, sl1, sl0])
    have hst' : mm5.storeSlot L 5 (.int (e.line : Int)) = .ok mm6 := by simpa [mm6, sl6] using hst
    simp [exec, evalE, evalL, readPlace, writePlace, hln5, convert, hw, hst', bind, Except.bind, Except.map]
  let sl7 := sl6.set 6 (.int 0)
  let mm7 : Mem := mm6.set L { cells := [], slots := sl7 }
  have hL6 : mm6[L]? = some { cells := [], slots := sl6 } := by
    have : L < mm5.length := by omega
    simp [mm6, this]
  have hS8 : exec fuel (.expr (.assign (.slot (.load (.var 2) .ptr) 6) (.cast .bool (.lit 0 .i32)) .bool))
      { mem := mm6, loc := [.ptr bk 0, .ptr bs (os : Int), .ptr L 0] } = .normal { mem := mm7, loc := [.ptr bk 0, .ptr bs (os : Int), .ptr L 0] } := by
    have b0 : wrapTo .bool 0 = 0 := by decide
    have hst := storeSlot_of (m := mm6) (b := L) (i := 6) (.int 0) hL6 rfl rfl (by simp [sl6, sl5, sl1, sl0])
    have hst' : mm6.storeSlot L 6 (.int 0) = .ok mm7 := by simpa [mm7, sl7] using hst
    simp [exec, evalE, evalL, readPlace, writePlace, convert, b0, hst', bind, Except.bind, Except.map]
  rw [exec_seq_normal hS7, exec_seq_normal hS8]
  -- what is left: blocks other than `L` as in `mm5`
  have hfr7 : ∀ b, b ≠ L → mm7[b]? = mm5[b]? := fun b hb => by simp only [mm7, mm6]; rw [set_other hb, set_other hb]
  have hL7 : mm7[L]? = some { cells := [], slots := sl7 } := by
    have : L < mm6.length := by simp [mm6]; omega
    simp [mm7, this]
  have hag7 : ∀ b, b < L → b ≠ bk → b ≠ bl → mm7[b]? = m[b]? := fun b hb h1 h2 => by rw [hfr7 b (by omega)]; exact hag5 b hb h1 h2
  -- blocks of `m1` other than `L` are as in `m1` at the end; so are the copies made on the way
  have hlen2' : mm2.length = m1.length + 1 := by rw [hlen2, hm1'len]
  have keep2 : ∀ b, b < mm2.length → b ≠ L → mm7[b]? = mm2[b]? := fun b hb hne' => by
    rw [hfr7 b hne', hfr5 b (by omega) hne', hfr4 b (by omega) hne', hfr3 b hb hne']
  have keep3 : ∀ b, b < mm3.length → b ≠ L → mm7[b]? = mm3[b]? := fun b hb hne' => by
    rw [hfr7 b hne', hfr5 b (by omega) hne', hfr4 b hb hne']
  have keep4 : ∀ b, b < mm4.length → b ≠ L → mm7[b]? = mm4[b]? := fun b hb hne' => by
    rw [hfr7 b hne', hfr5 b hb hne']
  have keep1 : ∀ b, b < m1.length → b ≠ L → mm7[b]? = m1[b]? := fun b hb hne' => by
    rw [keep2 b (by omega) hne', hfr2 b (by omega) hne']
    simp only [m1']; rw [set_other hne']
  -- a block of words holds no string
  have noStr : ∀ (mm : Mem) (sl : List Val) (str : List UInt8), mm[L]? = some ({ cells := [], slots := sl } : Block) → mm.cstr L 0 ≠ .ok str := by
    intro mm sl str hmm hc
    simp [Mem.cstr, Mem.block, hmm, cstrFrom, bind, Except.bind] at hc
  obtain ⟨ig, hig, hgi⟩ := List.getElem_of_mem hmem1
  obtain ⟨ablk, a1, a2, a3, a4⟩ := (hG1.toA hig).arr
  have hb'str : m1.cstr b' 0 = .ok e.group := by
    have := (a4 ig hig).2
    rw [hgi] at this; exact this
  have hb'ne : b' ≠ L := fun hh => noStr m1 sl0 e.group hm1L (hh ▸ hb'str)
  have hbl'ne : bl' ≠ L := by
    intro hh
    have h0 : 0 < gl'.length := by omega
    have := (a4 0 h0).1
    rw [hh, hm1L] at a1
    injection a1 with a1
    rw [← a1] at this
    simp [sl0] at this
  have hgl'ne : ∀ x, x ∈ gl' → x.1 ≠ L := by
    intro x hx hh
    obtain ⟨i, hi, rfl⟩ := List.getElem_of_mem hx
    exact noStr m1 sl0 _ hm1L (hh ▸ (a4 i hi).2)
  have hG7 : GlMem mm7 bk bl' gl' := hG1.mono L keep1 (by omega) hbl'ne hgl'ne
  have hsl7 : sl7 = [.ptr b' 0, .ptr m1'.length 0, v2', v3', v4', .int (e.line : Int), .int 0] := by
    simp [sl7, sl6, sl5, sl1, sl0]
  have ld : ∀ (i : Nat) (v : Val), sl7[i]? = some v → v ≠ .undef → mm7.loadSlot L (i : Int) = .ok v :=
    fun i v hi hv => loadSlot_of hL7 rfl hi hv
  have hkey7 : mm7.cstr m1'.length 0 = .ok e.key := by
    rw [cstr_congr (keep2 _ (by omega) (by omega))]; exact hkey2
  have ov : ∀ (v : Val) (so : Option (List UInt8)) (mm : Mem), OptStr mm v so → (∀ b, b < mm.length → b ≠ L → mm7[b]? = mm[b]?) →
      (∀ str, mm.cstr L 0 ≠ .ok str) → OptStr mm7 v so ∧ v ≠ .undef := by
    intro v so mm hv hk hno
    refine ⟨hv.mono (fun b hb => hk b (hv.lt b hb) ?_), by cases hv <;> simp⟩
    intro hbL
    cases hv with
    | none => cases hb
    | some b2 str hc => cases hb; exact hno str (hbL ▸ hc)
  obtain ⟨o2, n2⟩ := ov v2' e.value mm3 hval3 keep3 (fun str => noStr mm3 _ str hL3)
  obtain ⟨o3, n3⟩ := ov v3' e.cb mm4 hcb4 keep4 (fun str => noStr mm4 _ str hL4)
  obtain ⟨o4, n4⟩ := ov v4' e.ca mm5 hca5 (fun b _ hne' => hfr7 b hne') (fun str => noStr mm5 _ str hL5)
  have hg7 : mm7.loadSlot L 0 = .ok (.ptr b' 0) := by simpa using ld 0 _ (by rw [hsl7]; rfl) (by simp)
  refine ⟨mm7, [.ptr bk 0, .ptr bs (os : Int), .ptr L 0], bl', gl', by simp [exec, evalE, evalL, readPlace, bind, Except.bind, L], ?_, ?_,
    ⟨sl7, hL7, by rw [hsl7]; rfl⟩, hG7, hnames, ⟨b', hg7, hmem1⟩, hag7, ?_, ?_, hne1, hd1, hgl'len, ?_⟩
  · have hbl'lt : bl' < m1.length := hG1.bl_lt
    have fresh : ∀ b, m1.length ≤ b → b ∉ [bk, bl'] := by
      intro b hb hmem
      simp at hmem
      omega
    have hb'av : b' ∉ [bk, bl'] := by
      have := hd1 _ hmem1
      simp; exact ⟨this.1, this.2⟩
    refine ⟨by simp; omega, ⟨b', by simpa using hg7, by rw [cstr_congr (keep1 b' (cstr_lt hb'str) hb'ne)]; simpa [Econf.cpyEntry] using hb'str, hb'av⟩,
      ⟨m1'.length, by simpa using ld 1 _ (by rw [hsl7]; rfl) (by simp), by simpa [Econf.cpyEntry] using hkey7, fresh _ (by omega)⟩,
      ⟨v2', by simpa using ld 2 _ (by rw [hsl7]; rfl) n2, by simpa [Econf.cpyEntry] using o2, fun b hb => fresh b (by have := hnew3 b hb; omega)⟩,
      ⟨v3', by simpa using ld 3 _ (by rw [hsl7]; rfl) n3, by simpa [Econf.cpyEntry] using o3, fun b hb => fresh b (by have := hnew4 b hb; omega)⟩,
      ⟨v4', by simpa using ld 4 _ (by rw [hsl7]; rfl) n4, by simpa [Econf.cpyEntry] using o4, fun b hb => fresh b (by have := hnew5 b hb; omega)⟩,
      by simpa [Econf.cpyEntry] using ld 5 _ (by rw [hsl7]; rfl) (by simp)⟩
  · simpa using ld 6 _ (by rw [hsl7]; rfl) (by simp)
  · rcases hblor with h1 | h1
    · exact Or.inl h1
    · exact Or.inr (by omega)
  · intro kb blk hk hb
    have hbk1 : bk < m1.length := by omega
    rw [keep1 bk hbk1 (by omega)] at hb
    exact hkw1 kb blk (by rw [hm0fr bk hbk]; exact hk) hb
  · -- the value's block is the one `strdup` made for it
    intro bv hbv
    have h2 : mm7.loadSlot L 2 = .ok v2' := by simpa using ld 2 _ (by rw [hsl7]; rfl) n2
    have hv2 : v2' = .ptr bv 0 := by
      have : (Except.ok v2' : R Val) = .ok (.ptr bv 0) := by rw [← h2]; exact hbv
      injection this
    have hge := hnew3 bv hv2
    have hb'lt : b' < m1.length := cstr_lt hb'str
    have hbvlt3 : bv < mm3.length := hval3.lt bv hv2
    have hbl'lt2 : bl' < m1.length := hG1.bl_lt
    refine ⟨by omega, ?_, ?_, ?_, ?_, by omega, ?_⟩
    · rw [hg7]; intro hh; injection hh with hh; injection hh with hh; omega
    · have h1 : mm7.loadSlot L 1 = .ok (.ptr m1'.length 0) := by simpa using ld 1 _ (by rw [hsl7]; rfl) (by simp)
      rw [h1]; intro hh; injection hh with hh; injection hh with hh; omega
    · have h3 : mm7.loadSlot L 3 = .ok v3' := by simpa using ld 3 _ (by rw [hsl7]; rfl) n3
      rw [h3]; intro hh; injection hh with hh
      have := hnew4 bv hh; omega
    · have h4 : mm7.loadSlot L 4 = .ok v4' := by simpa using ld 4 _ (by rw [hsl7]; rfl) n4
      rw [h4]; intro hh; injection hh with hh
      have := hnew5 bv hh; omega
    · intro x hx hh
      obtain ⟨i, hi, rfl⟩ := List.getElem_of_mem hx
      have := cstr_lt (a4 i hi).2
      omega

/-! ## the append step of the merge: `(*fe)[idx] = cpy_file_entry(dest_kf, src)` -/

theorem loadWords_of {m : Mem} {b : Nat} {blk : Block} {o n : Nat} (h1 : m[b]? = some blk) (h2 : blk.live = true) (h3 : o + n ≤ blk.slots.length) :
    m.loadWords b (o : Int) n = .ok ((blk.slots.drop o).take n) := by
  have hn : ¬ ((o : Int) < 0) := by omega
  simp [Mem.loadWords, Mem.block, h1, h2, hn, h3, bind, Except.bind]

theorem storeWords_of {m : Mem} {b : Nat} {blk : Block} {o : Nat} (vs : List Val) (h1 : m[b]? = some blk) (h2 : blk.live = true) (h3 : blk.writable = true)
    (h4 : o + vs.length ≤ blk.slots.length) :
    m.storeWords b (o : Int) vs = .ok (m.set b { blk with slots := blk.slots.take o ++ vs ++ blk.slots.drop (o + vs.length) }) := by
  have hn : ¬ ((o : Int) < 0) := by omega
  simp [Mem.storeWords, Mem.block, h1, h2, h3, hn, h4, bind, Except.bind]

theorem evalE_sidx (st st2 : St) (B I : Expr) (b : Nat) (o n : Int) (stride : Nat) (r : Val)
    (hb : evalE B st = .ok (.ptr b o, st)) (hi : evalE I st = .ok (.int n, st2)) (hs : slotAdd st2.mem b o (n * stride) = .ok r) :
    evalE (.sidx B I stride) st = .ok (r, st2) := by
  simp only [evalE, hb, hi, bind, Except.bind, hs]

theorem exec_copy_words (fuel : Nat) (D S : Expr) (st st2 st3 : St) (d s : Nat) (od os : Int) (ws : List Val) (m' : Mem)
    (hd : evalE D st = .ok (.ptr d od, st2)) (hs : evalE S st2 = .ok (.ptr s os, st3))
    (hl : st3.mem.loadWords s os 7 = .ok ws) (hw : st3.mem.storeWords d od ws = .ok m') :
    exec fuel (.expr (.call "copy_words" (.cons D (.cons S (.cons (.lit 7 .u64) .nil))))) st = .normal { mem := m', loc := st3.loc } := by
  simp only [exec, evalE, evalArgs, hd, hs, bind, Except.bind]
  simp [builtin, hl, hw, bind, Except.bind]

/-- `(*fe)[idx] = cpy_file_entry(dest_kf, src)` – the step all three loops of the merge are built from: when the index is
    below the capacity of the array the step runs without a fault, the seven words of the model's `cpyEntry src` land at
    words `7·idx … 7·idx+6` of the array, nothing else in the array changes, the destination's group list becomes `addGroup`,
    and the blocks of the caller other than the destination's two and the array are untouched. -/
theorem fe_append_exec (m : Mem) (bk bl cell fa bs os : Nat) (gl : List (Nat × List UInt8)) (e : Econf.Entry)
    (loc loc2 : List Val) (srcE idxE : Expr) (t a cap : Nat)
    (hG : GlMem m bk bl gl) (hE : EntMem m bs os e [bk, bl])
    (hkw : ∀ blk, m[bk]? = some blk → blk.writable = true) (hne : gl ≠ [] → bk ≠ bl) (hd : ∀ x, x ∈ gl → x.1 ≠ bk ∧ x.1 ≠ bl)
    (hsmall : (gl.length : Int) + 2 < 2147483648) (hline : (e.line : Int) < 18446744073709551616) (fuel : Nat) (hf : gl.length + 1 < fuel)
    (hl0 : loc[0]? = some (.ptr bk 0)) (hl1 : loc[1]? = some (.ptr cell 0)) (ht : t < loc.length) (ht1 : t ≠ 1)
    (hsrc : evalE srcE { mem := m, loc := loc } = .ok (.ptr bs (os : Int), { mem := m, loc := loc }))
    (hidx : ∀ mm, evalE idxE { mem := mm, loc := loc.set t (.ptr m.length 0) } = .ok (.int (a : Int), { mem := mm, loc := loc2 }))
    (hl2t : loc2[t]? = some (.ptr m.length 0))
    (cblk : Block) (hc1 : m[cell]? = some cblk) (hc2 : cblk.live = true) (hc3 : cblk.slots[0]? = some (.ptr fa 0)) (hcne : cell ≠ bk ∧ cell ≠ bl)
    (ablk : Block) (ha1 : m[fa]? = some ablk) (ha2 : ablk.live = true) (ha3 : ablk.writable = true) (ha4 : ablk.slots.length = 7 * cap)
    (hane : fa ≠ bk ∧ fa ≠ bl) (hacap : a < cap) :
    ∃ m1 m' bl' gl' ws, exec fuel (.seq (.inl (some (.var t)) .ptr (.cons (.load (.var 0) .ptr) (.cons srcE .nil)) 3 LeafFns.cpy_file_entry.body)
          (.expr (.call "copy_words" (.cons (.sidx (.load (.slot (.load (.var 1) .ptr) 0) .ptr) idxE 7) (.cons (.load (.var t) .ptr) (.cons (.lit 7 .u64) .nil))))))
        { mem := m, loc := loc } = .normal { mem := m', loc := loc2 } ∧
      EntMem m1 m.length 0 (Econf.cpyEntry e) [bk, bl'] ∧ m1[m.length]? = some ({ cells := [], slots := ws } : Block) ∧ ws.length = 7 ∧
      GlMem m1 bk bl' gl' ∧ gl'.map (·.2) = Econf.addGroup (gl.map (·.2)) e.group ∧
      (∀ b, b < m.length → b ≠ bk → b ≠ bl → m1[b]? = m[b]?) ∧
      m' = m1.set fa { ablk with slots := ablk.slots.take (7 * a) ++ ws ++ ablk.slots.drop (7 * a + 7) } ∧
      (bl' = bl ∨ m.length ≤ bl') ∧ (∀ kb blk, m[bk]? = some kb → m1[bk]? = some blk → KfKeep kb blk) ∧ (gl' ≠ [] → bk ≠ bl') ∧
      (∀ x, x ∈ gl' → x.1 ≠ bk ∧ x.1 ≠ bl') ∧ gl'.length ≤ gl.length + 1 ∧
      (∀ bv, m1.loadSlot m.length 2 = .ok (.ptr bv 0) → m.length < bv ∧ m1.loadSlot m.length 0 ≠ .ok (.ptr bv 0) ∧
        m1.loadSlot m.length 1 ≠ .ok (.ptr bv 0) ∧ m1.loadSlot m.length 3 ≠ .ok (.ptr bv 0) ∧ m1.loadSlot m.length 4 ≠ .ok (.ptr bv 0) ∧
        bl' ≠ bv ∧ ∀ x, x ∈ gl' → x.1 ≠ bv) := by
  obtain ⟨m1, loc1, bl', gl', hcp, hEnt, _, ⟨ws, hws, hwl⟩, hG1, hnames, _, hfr, hblor, hkw1, hne1, hd1, hgll, hfresh⟩ :=
    cpy_file_entry_exec m bk bl bs os gl e hG hE hkw hne hd hsmall hline fuel hf
  have hargs : evalArgs (.cons (.load (.var 0) .ptr) (.cons srcE .nil)) { mem := m, loc := loc } =
      .ok ([.ptr bk 0, .ptr bs (os : Int)], { mem := m, loc := loc }) := by
    simp [evalArgs, evalE, evalL, readPlace, hl0, hsrc, bind, Except.bind]
  have hinl := exec_inl_val (fuel := fuel) (nl := 3) (i := t) (dty := .ptr) (v' := .ptr m.length 0) hargs (by simpa using hcp) (by simp [convert]) (by simpa using ht)
  have hclt : cell < m.length := (List.getElem?_eq_some_iff.1 hc1).1
  have halt : fa < m.length := (List.getElem?_eq_some_iff.1 ha1).1
  have hc1' : m1[cell]? = some cblk := by rw [hfr cell hclt hcne.1 hcne.2]; exact hc1
  have ha1' : m1[fa]? = some ablk := by rw [hfr fa halt hane.1 hane.2]; exact ha1
  have hld : m1.loadWords m.length 0 7 = .ok ws := by
    have := loadWords_of (m := m1) (b := m.length) (o := 0) (n := 7) hws rfl (by simp [hwl])
    simpa [hwl, List.take_of_length_le] using this
  have hst : m1.storeWords fa ((7 * a : Nat) : Int) ws = .ok (m1.set fa { ablk with slots := ablk.slots.take (7 * a) ++ ws ++ ablk.slots.drop (7 * a + 7) }) := by
    have := storeWords_of (m := m1) (b := fa) (o := 7 * a) ws ha1' ha2 ha3 (by rw [hwl, ha4]; omega)
    simpa [hwl] using this
  refine ⟨m1, _, bl', gl', ws, ?_, hEnt, hws, hwl, hG1, hnames, hfr, rfl, hblor, hkw1, hne1, hd1, hgll, hfresh⟩
  rw [exec_seq_normal hinl]
  have hcl : m1.loadSlot cell 0 = .ok (.ptr fa 0) := by simpa using loadSlot_of (i := 0) hc1' hc2 hc3 (by simp)
  have hl1' : (loc.set t (.ptr m.length 0))[1]? = some (.ptr cell 0) := by rw [List.getElem?_set_ne ht1]; exact hl1
  have hsx : slotAdd m1 fa 0 ((a : Int) * 7) = .ok (.ptr fa ((a : Int) * 7)) := by
    have : (0 : Int) ≤ (a : Int) * 7 ∧ (a : Int) * 7 ≤ (ablk.slots.length : Int) := by rw [ha4]; omega
    simp [slotAdd, Mem.block, ha1', ha2, this, bind, Except.bind]
  have hst' : m1.storeWords fa ((a : Int) * 7) ws = .ok (m1.set fa { ablk with slots := ablk.slots.take (7 * a) ++ ws ++ ablk.slots.drop (7 * a + 7) }) := by
    have e : (((7 * a : Nat)) : Int) = (a : Int) * 7 := by omega
    rw [← e]; exact hst
  have hbase : evalE (.load (.slot (.load (.var 1) .ptr) 0) .ptr) { mem := m1, loc := loc.set t (.ptr m.length 0) } =
      .ok (.ptr fa 0, { mem := m1, loc := loc.set t (.ptr m.length 0) }) := by
    simp [evalE, evalL, readPlace, hl1', hcl, bind, Except.bind]
  have hsidx : evalE (.sidx (.load (.slot (.load (.var 1) .ptr) 0) .ptr) idxE 7) { mem := m1, loc := loc.set t (.ptr m.length 0) } =
      .ok (.ptr fa ((a : Int) * 7), { mem := m1, loc := loc2 }) :=
    evalE_sidx _ _ _ _ fa 0 (a : Int) 7 _ hbase (hidx m1) (by simpa using hsx)
  have hlt : evalE (.load (.var t) .ptr) { mem := m1, loc := loc2 } = .ok (.ptr m.length 0, { mem := m1, loc := loc2 }) := by
    simp [evalE, evalL, readPlace, hl2t, bind, Except.bind]
  exact exec_copy_words fuel _ _ _ _ _ fa m.length _ 0 ws _ hsidx hlt hld hst'

theorem loadSlot_inv {m : Mem} {b : Nat} {blk : Block} {i : Nat} {v : Val} (h : m.loadSlot b (i : Int) = .ok v) (hb : m[b]? = some blk) :
    blk.slots[i]? = some v ∧ v ≠ .undef ∧ blk.live = true := by
  have hn : ¬ ((i : Int) < 0) := by omega
  simp only [Mem.loadSlot, Mem.block, hb, bind, Except.bind] at h
  by_cases hl : blk.live = true
  · simp only [hl, if_true, hn, if_false, Int.toNat_natCast] at h
    cases hs : blk.slots[i]? with
    | none => simp [hs] at h
    | some w =>
      simp only [hs] at h
      cases w with
      | undef => simp at h
      | int n => simp at h; subst h; simp [hl]
      | ptr b2 o2 => simp at h; subst h; simp [hl]
      | null => simp at h; subst h; simp [hl]
  · simp [hl] at h

/-- the copy, moved word for word into the array (`(*fe)[a] = copy`), is the same entry there -/
theorem EntMem.moved {m1 : Mem} {L fa a : Nat} {e : Econf.Entry} {ws : List Val} {ablk : Block} {avoid : List Nat}
    (h : EntMem m1 L 0 e avoid) (hL : m1[L]? = some ({ cells := [], slots := ws } : Block)) (hwl : ws.length = 7)
    (ha : m1[fa]? = some ablk) (hal : ablk.live = true) (hac : ablk.cells = []) (hlen : 7 * a + 7 ≤ ablk.slots.length) (hne : fa ≠ L)
    (hfav : fa ∉ avoid) :
    EntMem (m1.set fa { ablk with slots := ablk.slots.take (7 * a) ++ ws ++ ablk.slots.drop (7 * a + 7) }) fa (7 * a) e avoid := by
  obtain ⟨m', hm'⟩ : ∃ m' : Mem, m' = m1.set fa { ablk with slots := ablk.slots.take (7 * a) ++ ws ++ ablk.slots.drop (7 * a + 7) } := ⟨_, rfl⟩
  rw [← hm']
  have hfalt : fa < m1.length := (List.getElem?_eq_some_iff.1 ha).1
  have hnew : m'[fa]? =
      some { ablk with slots := ablk.slots.take (7 * a) ++ ws ++ ablk.slots.drop (7 * a + 7) } := by rw [hm']; simp [hfalt]
  have hother : ∀ b, b ≠ fa → m'[b]? = m1[b]? :=
    fun b hb => by rw [hm']; exact set_other hb
  -- the array holds no string
  have noStr : ∀ str, m1.cstr fa 0 ≠ .ok str := by
    intro str hc
    simp [Mem.cstr, Mem.block, ha, hal, hac, cstrFrom, bind, Except.bind] at hc
  have wordAt : ∀ (k : Nat) (v : Val), k < 7 → m1.loadSlot L ((0 : Nat) + (k : Nat) : Nat) = .ok v →
      m'.loadSlot fa ((7 * a + k : Nat) : Int) = .ok v := by
    intro k v hk hl
    obtain ⟨h1, h2, _⟩ := loadSlot_inv (by simpa using hl) hL
    have htk : (ablk.slots.take (7 * a)).length = 7 * a := by simp; omega
    have : (ablk.slots.take (7 * a) ++ ws ++ ablk.slots.drop (7 * a + 7))[7 * a + k]? = some v := by
      rw [List.append_assoc, List.getElem?_append_right (by omega), htk]
      have : 7 * a + k - 7 * a = k := by omega
      rw [this, List.getElem?_append_left (by omega)]
      simpa using h1
    exact loadSlot_of hnew hal this h2
  have strOk : ∀ (b : Nat) (str : List UInt8), m1.cstr b 0 = .ok str →
      m'.cstr b 0 = .ok str := by
    intro b str hc
    have : b ≠ fa := fun hb => noStr str (hb ▸ hc)
    rw [cstr_congr (hother b this)]; exact hc
  have optOk : ∀ (v : Val) (so : Option (List UInt8)), OptStr m1 v so →
      OptStr m' v so := by
    intro v so hv
    cases hv with
    | none => exact .none
    | some b str hc => exact .some b str (strOk b str hc)
  obtain ⟨bg, g1, g2, g3⟩ := h.grp
  obtain ⟨bq, k1, k2, k3⟩ := h.key
  obtain ⟨v, v1, v2, v3⟩ := h.val
  obtain ⟨vb, b1, b2, b3⟩ := h.cb
  obtain ⟨va, a1, a2, a3⟩ := h.ca
  refine ⟨hfav, ⟨bg, by simpa using wordAt 0 _ (by omega) (by simpa using g1), strOk _ _ g2, g3⟩,
    ⟨bq, by simpa using wordAt 1 _ (by omega) (by simpa using k1), strOk _ _ k2, k3⟩,
    ⟨v, by simpa using wordAt 2 _ (by omega) (by simpa using v1), optOk _ _ v2, v3⟩,
    ⟨vb, by simpa using wordAt 3 _ (by omega) (by simpa using b1), optOk _ _ b2, b3⟩,
    ⟨va, by simpa using wordAt 4 _ (by omega) (by simpa using a1), optOk _ _ a2, a3⟩,
    by simpa using wordAt 5 _ (by omega) (by simpa using h.line)⟩

/-- the append step as the loops use it: afterwards the array element `a` is the model's `cpyEntry` of the source, the
    destination lists the group, and the rest of the caller's memory is as before -/
theorem C_fe_append (m : Mem) (bk bl cell fa bs os : Nat) (gl : List (Nat × List UInt8)) (e : Econf.Entry)
    (loc loc2 : List Val) (srcE idxE : Expr) (t a cap : Nat)
    (hG : GlMem m bk bl gl) (hE : EntMem m bs os e [bk, bl])
    (hkw : ∀ blk, m[bk]? = some blk → blk.writable = true) (hne : gl ≠ [] → bk ≠ bl) (hd : ∀ x, x ∈ gl → x.1 ≠ bk ∧ x.1 ≠ bl)
    (hsmall : (gl.length : Int) + 2 < 2147483648) (hline : (e.line : Int) < 18446744073709551616) (fuel : Nat) (hf : gl.length + 1 < fuel)
    (hl0 : loc[0]? = some (.ptr bk 0)) (hl1 : loc[1]? = some (.ptr cell 0)) (ht : t < loc.length) (ht1 : t ≠ 1)
    (hsrc : evalE srcE { mem := m, loc := loc } = .ok (.ptr bs (os : Int), { mem := m, loc := loc }))
    (hidx : ∀ mm, evalE idxE { mem := mm, loc := loc.set t (.ptr m.length 0) } = .ok (.int (a : Int), { mem := mm, loc := loc2 }))
    (hl2t : loc2[t]? = some (.ptr m.length 0))
    (cblk : Block) (hc1 : m[cell]? = some cblk) (hc2 : cblk.live = true) (hc3 : cblk.slots[0]? = some (.ptr fa 0)) (hcne : cell ≠ bk ∧ cell ≠ bl)
    (ablk : Block) (ha1 : m[fa]? = some ablk) (ha2 : ablk.live = true) (ha3 : ablk.writable = true) (ha4 : ablk.slots.length = 7 * cap)
    (ha5 : ablk.cells = []) (hane : fa ≠ bk ∧ fa ≠ bl) (hacap : a < cap) :
    ∃ m' bl' gl', exec fuel (.seq (.inl (some (.var t)) .ptr (.cons (.load (.var 0) .ptr) (.cons srcE .nil)) 3 LeafFns.cpy_file_entry.body)
          (.expr (.call "copy_words" (.cons (.sidx (.load (.slot (.load (.var 1) .ptr) 0) .ptr) idxE 7) (.cons (.load (.var t) .ptr) (.cons (.lit 7 .u64) .nil))))))
        { mem := m, loc := loc } = .normal { mem := m', loc := loc2 } ∧
      EntMem m' fa (7 * a) (Econf.cpyEntry e) [bk, bl'] ∧
      GlMem m' bk bl' gl' ∧ gl'.map (·.2) = Econf.addGroup (gl.map (·.2)) e.group ∧
      (∀ b, b < m.length → b ≠ bk → b ≠ bl → b ≠ fa → m'[b]? = m[b]?) ∧
      (∃ ablk', m'[fa]? = some ablk' ∧ ablk'.live = true ∧ ablk'.writable = true ∧ ablk'.cells = [] ∧ ablk'.slots.length = 7 * cap ∧
        ∀ i, (i < 7 * a ∨ 7 * a + 7 ≤ i) → ablk'.slots[i]? = ablk.slots[i]?) ∧
      m.length ≤ m'.length ∧
      (bl' = bl ∨ m.length ≤ bl') ∧ (∀ kb blk, m[bk]? = some kb → m'[bk]? = some blk → KfKeep kb blk) ∧ (gl' ≠ [] → bk ≠ bl') ∧
      (∀ x, x ∈ gl' → x.1 ≠ bk ∧ x.1 ≠ bl') ∧ gl'.length ≤ gl.length + 1 ∧
      -- the value of the new element has a block of its own, made in this step
      (∀ bv, m'.loadSlot fa (((7 * a : Nat) : Int) + 2) = .ok (.ptr bv 0) → m.length < bv ∧
        (∀ k : Nat, k < 5 → k ≠ 2 → m'.loadSlot fa (((7 * a : Nat) : Int) + (k : Int)) ≠ .ok (.ptr bv 0)) ∧ bl' ≠ bv ∧ ∀ x, x ∈ gl' → x.1 ≠ bv) := by
  obtain ⟨m1, m', bl', gl', ws, hex, hEnt, hws, hwl, hG1, hnames, hfr, hm', hblor, hkw1, hne1, hd1, hgll, hfresh⟩ :=
    fe_append_exec m bk bl cell fa bs os gl e loc loc2 srcE idxE t a cap hG hE hkw hne hd hsmall hline fuel hf hl0 hl1 ht ht1 hsrc hidx hl2t
      cblk hc1 hc2 hc3 hcne ablk ha1 ha2 ha3 ha4 hane hacap
  have halt : fa < m.length := (List.getElem?_eq_some_iff.1 ha1).1
  have ha1' : m1[fa]? = some ablk := by rw [hfr fa halt hane.1 hane.2]; exact ha1
  have hLlt : m.length < m1.length := (List.getElem?_eq_some_iff.1 hws).1
  have hfaL : fa ≠ m.length := by omega
  have hblfa0 : bl' ≠ fa := by
    rcases hblor with h1 | h1
    · rw [h1]; exact Ne.symm hane.2
    · omega
  have hmoved := EntMem.moved (a := a) hEnt hws hwl ha1' ha2 ha5 (by rw [ha4]; omega) hfaL (by simp; exact ⟨hane.1, Ne.symm hblfa0⟩)
  rw [← hm'] at hmoved
  have hother : ∀ b, b ≠ fa → m'[b]? = m1[b]? := fun b hb => by rw [hm']; exact set_other hb
  -- the array holds no string, so nothing the group list points at is the array
  have noStr : ∀ str, m1.cstr fa 0 ≠ .ok str := by
    intro str hc
    simp [Mem.cstr, Mem.block, ha1', ha2, ha5, cstrFrom, bind, Except.bind] at hc
  have hblfa : bl' ≠ fa := by
    rcases hblor with h1 | h1
    · rw [h1]; exact Ne.symm hane.2
    · omega
  have hG' : GlMem m' bk bl' gl' := hG1.mono fa (fun b _ hb => hother b hb) (Ne.symm hane.1) hblfa (by
    intro x hx hh
    obtain ⟨i, hi, rfl⟩ := List.getElem_of_mem hx
    exact noStr _ (hh ▸ hG1.str i hi))
  refine ⟨m', bl', gl', hex, hmoved, hG', hnames, fun b hb h1 h2 h3 => by rw [hother b h3, hfr b hb h1 h2], ?_, by rw [hm']; simp; omega,
    hblor, fun kb blk hk hb => hkw1 kb blk hk (by rw [← hother bk (Ne.symm hane.1)]; exact hb), hne1, hd1, hgll, ?_⟩
  rotate_left
  · -- a word of the new element is the word of the copy it came from
    have htk : (ablk.slots.take (7 * a)).length = 7 * a := by simp; omega
    have hfa' : m'[fa]? = some { ablk with slots := ablk.slots.take (7 * a) ++ ws ++ ablk.slots.drop (7 * a + 7) } := by
      rw [hm']; simp [(List.getElem?_eq_some_iff.1 ha1').1]
    have back : ∀ (k : Nat) (w : Val), k < 7 → m'.loadSlot fa (((7 * a : Nat) : Int) + (k : Int)) = .ok w → m1.loadSlot m.length (k : Int) = .ok w := by
      intro k w hk hl
      have hl' : m'.loadSlot fa ((7 * a + k : Nat) : Int) = .ok w := by
        have : ((7 * a + k : Nat) : Int) = ((7 * a : Nat) : Int) + (k : Int) := by omega
        rw [this]; exact hl
      obtain ⟨s1, s2, _⟩ := loadSlot_inv hl' hfa'
      have s1' : ws[k]? = some w := by
        have : (ablk.slots.take (7 * a) ++ ws ++ ablk.slots.drop (7 * a + 7))[7 * a + k]? = ws[k]? := by
          rw [List.append_assoc, List.getElem?_append_right (by omega), htk, Nat.add_sub_cancel_left, List.getElem?_append_left (by omega)]
        rw [← this]; exact s1
      exact loadSlot_of hws rfl s1' s2
    intro bv hbv
    obtain ⟨f1, f2, f3, f4, f5, f7, f6⟩ := hfresh bv (by simpa using back 2 _ (by omega) hbv)
    refine ⟨f1, ?_, f7, f6⟩
    intro k hk hk2 hl
    have := back k _ (by omega) hl
    have hk' : k = 0 ∨ k = 1 ∨ k = 3 ∨ k = 4 := by omega
    rcases hk' with rfl | rfl | rfl | rfl
    · exact f2 (by simpa using this)
    · exact f3 (by simpa using this)
    · exact f4 (by simpa using this)
    · exact f5 (by simpa using this)
  have htk : (ablk.slots.take (7 * a)).length = 7 * a := by simp; omega
  refine ⟨{ ablk with slots := ablk.slots.take (7 * a) ++ ws ++ ablk.slots.drop (7 * a + 7) }, by rw [hm']; simp [(List.getElem?_eq_some_iff.1 ha1').1],
    ha2, ha3, ha5, by simp only [List.length_append, htk, hwl, List.length_drop, ha4]; omega, ?_⟩
  intro i hi
  rcases hi with hi | hi
  · show (ablk.slots.take (7 * a) ++ ws ++ ablk.slots.drop (7 * a + 7))[i]? = ablk.slots[i]?
    rw [List.append_assoc, List.getElem?_append_left (by omega), List.getElem?_take_of_lt hi]
  · show (ablk.slots.take (7 * a) ++ ws ++ ablk.slots.drop (7 * a + 7))[i]? = ablk.slots[i]?
    rw [List.getElem?_append_right (by simp only [List.length_append, htk, hwl]; omega)]
    simp only [List.length_append, htk, hwl, List.getElem?_drop]
    congr 1; omega

end LeafKf
