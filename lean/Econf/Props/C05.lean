import Econf.Lemmas.ParserLemmas
import Econf.Lemmas.DocLemmas

/-!
  C05 — a commented-out line is inert whatever it contains.

  `C05_step_inert` is a one-step invariant for EVERY parser state (not only reachable ones) and
  every raw line: if the first non-blank byte of the line is a comment character, then whatever
  follows (further comment characters, delimiters, quotes, brackets, NUL bytes), the line
  produces no key, no value, no section, no continuation of the previous value and no error.
  `C05_lines_inert` lifts it to any block of such lines at any position of a file.
-/

set_option linter.unusedSimpArgs false

namespace Econf

/-- a line whose first non-blank character is a comment character -/
def IsCommentLine (cfg : Cfg) (raw : Str) : Prop :=
  ∃ c rest, lineBody raw = c :: rest ∧ cfg.comment.contains c = true

/-- a line of blanks only (or an empty line) -/
def IsBlankLine (raw : Str) : Prop := lineBody raw = []

theorem C05_step_inert (cfg : Cfg) (st : PState) (raw : Str) (h : IsCommentLine cfg raw) :
    ∃ st', parseLine cfg st raw = .ok st' ∧ st'.entries = st.entries ∧ st'.groups = st.groups ∧
      st'.curGroup = st.curGroup ∧ st'.ca = st.ca ∧ st'.line = st.line + 1 ∧
      ∃ text, lineBody raw = (lineBody raw).headD 0 :: text ∧ st'.cb = appendComment st.cb text := by
  obtain ⟨c, rest, hb, hc⟩ := h
  unfold parseLine
  simp only [hb, hc, if_true]
  exact ⟨{ st with line := st.line + 1, cb := appendComment st.cb rest }, rfl, rfl, rfl, rfl, rfl, rfl, rest, by simp, rfl⟩

/-- a blank line changes nothing but the line counter -/
theorem C05_blank_inert (cfg : Cfg) (st : PState) (raw : Str) (h : IsBlankLine raw) :
    parseLine cfg st raw = .ok { st with line := st.line + 1 } := by
  unfold IsBlankLine at h
  unfold parseLine
  simp only [h]

/-- any block of comment lines, anywhere: entries, sections, current section and pending trailing
    comment are what they were before the block; no error -/
theorem C05_lines_inert (cfg : Cfg) (st : PState) (block : List Str) (h : ∀ l ∈ block, IsCommentLine cfg l) :
    ∃ st', parseLines cfg st block = .ok st' ∧ st'.entries = st.entries ∧ st'.groups = st.groups ∧
      st'.curGroup = st.curGroup ∧ st'.ca = st.ca ∧ st'.line = st.line + block.length := by
  induction block generalizing st with
  | nil => exact ⟨st, rfl, rfl, rfl, rfl, rfl, rfl⟩
  | cons l ls ih =>
    obtain ⟨st1, h1, he, hg, hcg, hca, hl, _⟩ := C05_step_inert cfg st l (h l List.mem_cons_self)
    obtain ⟨st2, h2, he2, hg2, hcg2, hca2, hl2⟩ := ih st1 (fun x hx => h x (List.mem_cons_of_mem _ hx))
    refine ⟨st2, ?_, ?_, ?_, ?_, ?_, ?_⟩
    · simp only [parseLines, h1, h2]
    · rw [he2, he]
    · rw [hg2, hg]
    · rw [hcg2, hcg]
    · rw [hca2, hca]
    · rw [hl2, hl]; simp only [List.length_cons]; omega

/-- non-vacuity: the witnesses of fixed finding F01/F03 are comment lines, for the comment set `#;` -/
example : IsCommentLine { delim := [0x3d], comment := [0x23, 0x3b] } [0x23, 0x6f, 0x6c, 0x64, 0x3d, 0x31, 0x20, 0x23, 0x20, 0x64, 0x0a] ∧
    IsCommentLine { delim := [0x3d], comment := [0x23, 0x3b] } [0x20, 0x09, 0x3b, 0x5b, 0x78, 0x0a] :=
  ⟨⟨0x23, [0x6f, 0x6c, 0x64, 0x3d, 0x31, 0x20, 0x23, 0x20, 0x64], by decide, by decide⟩, ⟨0x3b, [0x5b, 0x78], by decide, by decide⟩⟩

/-! ### inserting or deleting comment lines (second sentence of C05)

Documents are those of the conventional grammar (`Econf/Grammar.lean`, every delimiter class of `CfgWF`);
the inserted block is any list of comment-line and blank-line items – a comment line is an
indentation, a comment character and **any** text without NUL and line break (further comment
characters, delimiters, quotes, brackets included: `Item.WF` asks for `texts text` only) – and the
insertion point is any item boundary; in a single-line-value file that is every line boundary.
Deleting is the same statement read from right to left. -/

theorem C05_insert_comments (cfg : Cfg) (pre block post : List Item) (hw : CfgWF cfg.eff)
    (hpre : ∀ it ∈ pre, it.WF cfg.eff) (hpost : ∀ it ∈ post, it.WF cfg.eff)
    (hblock : ∀ it ∈ block, it.WF cfg.eff ∧ it.inert = true) (hj : cfg.join = false) :
    ∃ s1 s2, parseBytes cfg (render (pre ++ post)) = .ok s1 ∧
             parseBytes cfg (render (pre ++ block ++ post)) = .ok s2 ∧
             s1.view = s2.view := by
  have h1 : ∀ it ∈ pre ++ post, it.WF cfg.eff := by
    intro it hit
    rcases List.mem_append.mp hit with hit | hit
    · exact hpre it hit
    · exact hpost it hit
  have h2 : ∀ it ∈ pre ++ block ++ post, it.WF cfg.eff := by
    intro it hit
    rcases List.mem_append.mp hit with hit | hit
    · rcases List.mem_append.mp hit with hit | hit
      · exact hpre it hit
      · exact (hblock it hit).1
    · exact hpost it hit
  refine ⟨expDoc (pre ++ post), expDoc (pre ++ block ++ post),
    C02_parse_render_plain cfg _ hw h1 hj, C02_parse_render_plain cfg _ hw h2 hj, ?_⟩
  unfold expDoc
  rw [List.foldl_append, List.foldl_append, List.foldl_append]
  have hb := sameContent_inert_block (pre.foldl expItem {}) block (fun it hit => (hblock it hit).2)
  have := sameContent_doc cfg.eff post _ _ hpost hb
  unfold PState.view
  rw [this.1, this.2.1]

/-- non-vacuity: `#old=1 # "x [y` inserted into the concrete document of `Props/C02.lean` behind its section header -/
example : ∃ s1 s2, parseBytes exCfg (render (exDoc.take 3 ++ exDoc.drop 3)) = .ok s1 ∧
    parseBytes exCfg (render (exDoc.take 3 ++ [.comment [0x09] 0x23 [0x6f, 0x6c, 0x64, 0x3d, 0x31, 0x20, 0x23, 0x20, 0x22, 0x78, 0x20, 0x5b, 0x79]] ++ exDoc.drop 3)) = .ok s2 ∧
    s1.view = s2.view := by
  apply C05_insert_comments exCfg _ _ _ exCfg_wf
  · intro it hit; exact exDoc_wf it (List.mem_of_mem_take hit)
  · intro it hit; exact exDoc_wf it (List.mem_of_mem_drop hit)
  · intro it hit
    simp only [List.mem_singleton] at hit; subst hit
    exact ⟨⟨by decide, by decide, by decide⟩, rfl⟩
  · rfl

end Econf
