import Econf.Lemmas.ParserLemmas

/-!
  C05 — a commented-out line is inert whatever it contains.

  `C05_step_inert` is a one-step invariant for EVERY parser state (not only reachable ones) and
  every raw line: if the first non-blank byte of the line is a comment character, then whatever
  follows (further comment characters, delimiters, quotes, brackets, NUL bytes), the line
  produces no key, no value, no section, no continuation of the previous value and no error.
  `C05_lines_inert` lifts it to any block of such lines at any position of a file.
-/

set_option linter.unusedSimpArgs false

namespace Econf

/-- a line whose first non-blank character is a comment character -/
def IsCommentLine (cfg : Cfg) (raw : Str) : Prop :=
  ∃ c rest, lineBody raw = c :: rest ∧ cfg.comment.contains c = true

/-- a line of blanks only (or an empty line) -/
def IsBlankLine (raw : Str) : Prop := lineBody raw = []

theorem C05_step_inert (cfg : Cfg) (st : PState) (raw : Str) (h : IsCommentLine cfg raw) :
    ∃ st', parseLine cfg st raw = .ok st' ∧ st'.entries = st.entries ∧ st'.groups = st.groups ∧
      st'.curGroup = st.curGroup ∧ st'.ca = st.ca ∧ st'.line = st.line + 1 ∧
      ∃ text, lineBody raw = (lineBody raw).headD 0 :: text ∧ st'.cb = appendComment st.cb text := by
  obtain ⟨c, rest, hb, hc⟩ := h
  unfold parseLine
  simp only [hb, hc, if_true]
  exact ⟨{ st with line := st.line + 1, cb := appendComment st.cb rest }, rfl, rfl, rfl, rfl, rfl, rfl, rest, by simp, rfl⟩

/-- a blank line changes nothing but the line counter -/
theorem C05_blank_inert (cfg : Cfg) (st : PState) (raw : Str) (h : IsBlankLine raw) :
    parseLine cfg st raw = .ok { st with line := st.line + 1 } := by
  unfold IsBlankLine at h
  unfold parseLine
  simp only [h]

/-- any block of comment lines, anywhere: entries, sections, current section and pending trailing
    comment are what they were before the block; no error -/
theorem C05_lines_inert (cfg : Cfg) (st : PState) (block : List Str) (h : ∀ l ∈ block, IsCommentLine cfg l) :
    ∃ st', parseLines cfg st block = .ok st' ∧ st'.entries = st.entries ∧ st'.groups = st.groups ∧
      st'.curGroup = st.curGroup ∧ st'.ca = st.ca ∧ st'.line = st.line + block.length := by
  induction block generalizing st with
  | nil => exact ⟨st, rfl, rfl, rfl, rfl, rfl, rfl⟩
  | cons l ls ih =>
    obtain ⟨st1, h1, he, hg, hcg, hca, hl, _⟩ := C05_step_inert cfg st l (h l List.mem_cons_self)
    obtain ⟨st2, h2, he2, hg2, hcg2, hca2, hl2⟩ := ih st1 (fun x hx => h x (List.mem_cons_of_mem _ hx))
    refine ⟨st2, ?_, ?_, ?_, ?_, ?_, ?_⟩
    · simp only [parseLines, h1, h2]
    · rw [he2, he]
    · rw [hg2, hg]
    · rw [hcg2, hcg]
    · rw [hca2, hca]
    · rw [hl2, hl]; simp only [List.length_cons]; omega

/-- non-vacuity: the witnesses of fixed finding F01/F03 are comment lines, for the comment set `#;` -/
example : IsCommentLine { delim := [0x3d], comment := [0x23, 0x3b] } [0x23, 0x6f, 0x6c, 0x64, 0x3d, 0x31, 0x20, 0x23, 0x20, 0x64, 0x0a] ∧
    IsCommentLine { delim := [0x3d], comment := [0x23, 0x3b] } [0x20, 0x09, 0x3b, 0x5b, 0x78, 0x0a] :=
  ⟨⟨0x23, [0x6f, 0x6c, 0x64, 0x3d, 0x31, 0x20, 0x23, 0x20, 0x64], by decide, by decide⟩, ⟨0x3b, [0x5b, 0x78], by decide, by decide⟩⟩

end Econf
