import Generated.Facts
import Econf.Writer
import Econf.Layered
import Econf.Lemmas.ParserLemmas

/-!
  # The constants of the model are the constants of the source

  `Generated/Facts.lean` is re-extracted from /repo on every run (`gen/extract_facts.py`).  The
  theorems here pin the literals the hand-written model uses – error numbering, the group-less marker,
  option names, boolean words, default directories – and the set of error codes each parser / gate
  function can hand out to what the C source says *now*.  A change of one of these in /repo breaks a
  `decide` here, and the checks that list the theorem report it (with a search for a failing input).
-/

namespace Econf.Struct
open Generated

/-- the C name of every code of the model -/
def cname : Err → String
  | .success => "ECONF_SUCCESS" | .error => "ECONF_ERROR" | .nomem => "ECONF_NOMEM" | .nofile => "ECONF_NOFILE"
  | .nogroup => "ECONF_NOGROUP" | .nokey => "ECONF_NOKEY" | .emptykey => "ECONF_EMPTYKEY" | .writeerror => "ECONF_WRITEERROR"
  | .parseError => "ECONF_PARSE_ERROR" | .missingBracket => "ECONF_MISSING_BRACKET"
  | .missingDelimiter => "ECONF_MISSING_DELIMITER" | .emptySectionName => "ECONF_EMPTY_SECTION_NAME"
  | .textAfterSection => "ECONF_TEXT_AFTER_SECTION" | .fileListIsNull => "ECONF_FILE_LIST_IS_NULL"
  | .wrongBooleanValue => "ECONF_WRONG_BOOLEAN_VALUE" | .keyHasNullValue => "ECONF_KEY_HAS_NULL_VALUE"
  | .wrongOwner => "ECONF_WRONG_OWNER" | .wrongGroup => "ECONF_WRONG_GROUP"
  | .wrongFilePermission => "ECONF_WRONG_FILE_PERMISSION" | .wrongDirPermission => "ECONF_WRONG_DIR_PERMISSION"
  | .fileIsSymLink => "ECONF_ERROR_FILE_IS_SYM_LINK" | .parsingCallbackFailed => "ECONF_PARSING_CALLBACK_FAILED"
  | .argumentIsNullValue => "ECONF_ARGUMENT_IS_NULL_VALUE" | .optionNotFound => "ECONF_OPTION_NOT_FOUND"
  | .valueConversionError => "ECONF_VALUE_CONVERSION_ERROR"

def allErrs : List Err :=
  [.success, .error, .nomem, .nofile, .nogroup, .nokey, .emptykey, .writeerror, .parseError, .missingBracket,
   .missingDelimiter, .emptySectionName, .textAfterSection, .fileListIsNull, .wrongBooleanValue, .keyHasNullValue,
   .wrongOwner, .wrongGroup, .wrongFilePermission, .wrongDirPermission, .fileIsSymLink, .parsingCallbackFailed,
   .argumentIsNullValue, .optionNotFound, .valueConversionError]

theorem allErrs_complete (e : Err) : e ∈ allErrs := by cases e <;> decide

/-- the numbering used by the model (and printed by its driver) is the numbering of the enum in
    include/libeconf.h, constant by constant; and the enum has no further constant -/
theorem tie_err_codes :
    (∀ e ∈ allErrs, errEnum.lookup (cname e) = some e.code) ∧ errEnum.length = allErrs.length := by decide

/-- the group-less marker and the default layer directories -/
theorem tie_macros :
    stringMacros.lookup "KEY_FILE_NULL_VALUE" = some NONE ∧
    stringMacros.lookup "DEFAULT_RUN_SUBDIR" = some [0x2f, 0x72, 0x75, 0x6e] ∧
    stringMacros.lookup "DEFAULT_ETC_SUBDIR" = some [0x2f, 0x65, 0x74, 0x63] := by decide

def cmpOf (file fn : String) : Option (List (List UInt8)) :=
  (cmpStrings.find? (fun x => x.1 == file && x.2.1 == fn)).map (·.2.2)

def refsOf (file fn : String) : Option (List String) :=
  (errRefs.find? (fun x => x.1 == file && x.2.1 == fn)).map (·.2.2)

/-- the option names `econf_newKeyFile_with_options` compares its items with are exactly the five the
    model knows, spelled the same -/
theorem tie_option_names :
    cmpOf "libeconf.c" "econf_newKeyFile_with_options" =
      some [optConfigDirs, optJoin, optParsingDirs, optPython, optRootPrefix] := by decide

/-- the words the boolean getter and setter compare with are the words of `classifyBool` -/
theorem tie_bool_words :
    cmpOf "keyfile.c" "getBoolValueNum" = some [[0x30], [0x31], NONE, [0x66, 0x61, 0x6c, 0x73, 0x65], [0x6e, 0x6f], [0x74, 0x72, 0x75, 0x65], [0x79, 0x65, 0x73]] ∧
    cmpOf "keyfile.c" "setBoolValueNum" = some [[0x30], [0x31], NONE, [0x66, 0x61, 0x6c, 0x73, 0x65], [0x6e, 0x6f], [0x74, 0x72, 0x75, 0x65], [0x79, 0x65, 0x73]] := by decide

/-- which of the model's codes the parser can return (`ParseErr`), by C name -/
def parseErrNames : List String :=
  ["ECONF_EMPTY_SECTION_NAME", "ECONF_MISSING_BRACKET", "ECONF_MISSING_DELIMITER", "ECONF_TEXT_AFTER_SECTION"]

theorem parseErr_names (e : Err) : ParseErr e ↔ cname e ∈ parseErrNames := by
  unfold ParseErr
  cases e <;> simp [cname, parseErrNames]

/-- the line loop (`read_file`, `store`, `join_same_entries`) mentions no error code but the four
    parse errors, out-of-memory, file-not-found and success: the closed error set of `C04_read_total`
    is the set the source can produce -/
theorem tie_parser_codes :
    refsOf "getfilecontents.c" "read_file" =
      some (["ECONF_EMPTY_SECTION_NAME", "ECONF_MISSING_BRACKET", "ECONF_MISSING_DELIMITER", "ECONF_NOFILE", "ECONF_NOMEM",
             "ECONF_SUCCESS", "ECONF_TEXT_AFTER_SECTION"]) ∧
    refsOf "getfilecontents.c" "store" = some ["ECONF_MISSING_DELIMITER", "ECONF_NOMEM", "ECONF_SUCCESS"] ∧
    refsOf "getfilecontents.c" "join_same_entries" = some ["ECONF_NOMEM", "ECONF_SUCCESS"] := by decide

/-- the gate in front of the line loop (`read_file_with_callback`) hands out exactly the codes of the
    model's `gate`/`readFileCB` (plus the permission codes of the unused permission check) -/
theorem tie_gate_codes :
    refsOf "getfilecontents.c" "read_file_with_callback" =
      some ["ECONF_ERROR", "ECONF_ERROR_FILE_IS_SYM_LINK", "ECONF_NOFILE", "ECONF_PARSING_CALLBACK_FAILED", "ECONF_SUCCESS",
            "ECONF_WRONG_DIR_PERMISSION", "ECONF_WRONG_FILE_PERMISSION", "ECONF_WRONG_GROUP", "ECONF_WRONG_OWNER"] := by decide

/-! ### C10: the read-only API functions have no place where they could modify the object

`gen/frames.py` computes, over clang's AST of lib/*.c, for every function and parameter the places where
memory reachable from the parameter (member / index / dereference chains, local pointers derived from
them, results of functions that return a pointer into their argument) is stored into, handed to a function
that writes through that argument (fixed point over the call graph, libc writers listed), or freed.  The
fact below is the list of such places for the `econf_file` argument of the getters, the listings, the
extended getter and the writer: it is empty.  (Both independently written C10 changes – `strsep` on the stored
comment in the writer, trimming the stored value in place in the extended getter – make it non-empty.) -/

theorem C10_frames :
    kfMutations = [] ∧
    readonlyApi = ["econf_getBoolValue", "econf_getBoolValueDef", "econf_getDoubleValue", "econf_getDoubleValueDef", "econf_getExtValue",
      "econf_getFloatValue", "econf_getFloatValueDef", "econf_getGroups", "econf_getInt64Value", "econf_getInt64ValueDef",
      "econf_getIntValue", "econf_getIntValueDef", "econf_getKeys", "econf_getPath", "econf_getStringValue", "econf_getStringValueDef",
      "econf_getUInt64Value", "econf_getUInt64ValueDef", "econf_getUIntValue", "econf_getUIntValueDef", "econf_writeFile"] := by decide

/-- the whole table: through which of its parameters each exported function can write.  Getters and
    listings write through their result parameters only, setters and readers through the object (pointer)
    they are given, `econf_mergeFiles` through its result pointer only – not through its two inputs (C03:
    the merge is non-destructive) –, `econf_writeFile` and `econf_getPath` through none. -/
theorem api_frames :
    apiWrites = [("econf_errLocation", [0, 1]), ("econf_freeArray", [0]), ("econf_freeArrayp", [0]), ("econf_freeExtValue", [0]),
      ("econf_freeFile", [0]), ("econf_freeFilep", [0]), ("econf_getBoolValue", [3]), ("econf_getBoolValueDef", [3]),
      ("econf_getDoubleValue", [3]), ("econf_getDoubleValueDef", [3]), ("econf_getExtValue", [3]), ("econf_getFloatValue", [3]),
      ("econf_getFloatValueDef", [3]), ("econf_getGroups", [1, 2]), ("econf_getInt64Value", [3]), ("econf_getInt64ValueDef", [3]),
      ("econf_getIntValue", [3]), ("econf_getIntValueDef", [3]), ("econf_getKeys", [2, 3]), ("econf_getStringValue", [3]),
      ("econf_getStringValueDef", [3]), ("econf_getUInt64Value", [3]), ("econf_getUInt64ValueDef", [3]), ("econf_getUIntValue", [3]),
      ("econf_getUIntValueDef", [3]), ("econf_mergeFiles", [0]), ("econf_newIniFile", [0]), ("econf_newKeyFile", [0]),
      ("econf_newKeyFile_with_options", [0]), ("econf_readConfig", [0]), ("econf_readConfigWithCallback", [0]), ("econf_readDirs", [0]),
      ("econf_readDirsHistory", [0, 1]), ("econf_readDirsHistoryWithCallback", [0, 1]), ("econf_readDirsWithCallback", [0]),
      ("econf_readFile", [0]), ("econf_readFileWithCallback", [0]), ("econf_setBoolValue", [0]), ("econf_setDoubleValue", [0]),
      ("econf_setFloatValue", [0]), ("econf_setInt64Value", [0]), ("econf_setIntValue", [0]), ("econf_setStringValue", [0]),
      ("econf_setUInt64Value", [0]), ("econf_setUIntValue", [0]), ("econf_set_comment_tag", [0]), ("econf_set_delimiter_tag", [0])] := by
  decide

end Econf.Struct
