import Econf.Layered
import Econf.Lemmas.LayeredLemmas
import Econf.Lemmas.OwnLemmas

/-!
  # C20 – out-pointer discipline of the read entry points (the part of C20 a model can carry)

  C20 has two halves.  *Release exactly once, nothing left, nothing read uninitialised* is a
  statement about the C heap.  At the granularity of `econf_file` objects it is proved in the second part of
  this file for the ownership model `Econf/Own.lean` (which object is created, handed on and released on which
  path; tied to the library by the hook `econf_verif_object_hook` and the event-by-event comparison of the
  correspondence run); below that granularity (the strings and arrays inside an object, uninitialised reads)
  it is decided by the correspondence harness (ASan/UBSan, live-byte accounting at MARK/LEAK, with a
  failure injected at every consulted file in turn), see DESIGN.md 10.4.  *Each out-pointer is
  afterwards NULL, left as the caller initialised it, or a valid object* is decision logic of the
  entry points and is proved below for the layered-read model, for every file system, callback,
  security setting and argument; the harness compares the same out-pointer states (`SLOT` lines)
  with the model on every scenario.
-/

set_option linter.unusedSimpArgs false

namespace Econf

/-- `econf_readFile`: an object exactly on success, NULL on every failure -/
theorem C20_readFile_out (ctx : RdCtx) (s : RdState) (p d c : Option Str) :
    let r := readFile ctx s p d c
    (r.2.1 = .success ↔ r.2.2.isSome) := by
  intro r
  simp only [r]
  unfold readFile
  cases p with
  | none => simp
  | some p =>
    cases d with
    | none => simp
    | some d =>
      cases c with
      | none => simp
      | some c =>
        simp only
        have hne := readFileCB_ne_success ctx s false false p d c
        generalize readFileCB ctx s false false p d c = q at hne
        obtain ⟨q1, q2⟩ := q
        cases q2 with
        | ok kf => simp
        | error e => simp only [Option.isSome_none, Bool.false_eq_true, iff_false]; exact hne e rfl

/-- `econf_readConfig`: on success a valid (merged) object; on failure NULL when the caller passed
    NULL, and the caller's own object (with the directories filled in) when the caller passed one –
    never a partial result -/
theorem C20_readConfig_out (ctx : RdCtx) (s : RdState) (slot : Option KeyFile)
    (project usr name suffix delim : Option Str) (comment : Str) :
    let r := readConfig ctx s slot project usr name suffix delim comment
    (r.2.1 = .success → r.2.2.isSome) ∧
    (r.2.1 ≠ .success → r.2.2 = if slot.isNone then none else some (prepareConfig (slot.getD {}) project usr name).1) := by
  intro r
  simp only [r]
  unfold readConfig
  simp only
  have hne := readConfigCore_ne_success ctx s (prepareConfig (slot.getD {}) project usr name).1
    (prepareConfig (slot.getD {}) project usr name).2 suffix delim comment
  generalize readConfigCore ctx s (prepareConfig (slot.getD {}) project usr name).1
    (prepareConfig (slot.getD {}) project usr name).2 suffix delim comment = q at hne
  obtain ⟨q1, q2⟩ := q
  cases q2 with
  | ok m => simp
  | error e =>
    refine ⟨fun h => absurd h (hne e rfl), fun _ => ?_⟩
    simp only

/-- a history handed to the caller is never empty -/
theorem C20_history_out (ctx : RdCtx) (s : RdState) (dirs : List Str) (name suffix delim : Option Str)
    (comment : Str) (join python : Bool) (confDirs : List Str) (files : List KeyFile)
    (h : (readHistory ctx s dirs name suffix delim comment join python confDirs).2 = .ok files) : files ≠ [] := by
  unfold readHistory at h
  cases delim with
  | none => simp at h
  | some d =>
    cases name with
    | none => simp at h
    | some nm =>
      simp only at h
      split at h
      · cases h
      · split at h
        · cases h
        · split at h
          · cases h
          · simp only [Except.ok.injEq] at h
            subst h
            rename_i hh
            intro he; apply hh; simp [he]

/-- the merge pipeline turns every non-empty history into an object -/
theorem C20_merge_out (files : List KeyFile) (h : files ≠ []) : (mergeHistory files).isSome := by
  cases files with
  | nil => exact absurd rfl h
  | cons k ks => rfl


/-! ## Object ledger of the read entry points

`Takes L evs P` (Lemmas/OwnLemmas.lean): replaying the object events `evs` from the live objects `L` never
creates an id twice, never releases an object that is not alive (released twice, or never created), and
afterwards exactly the ids with `P` are alive.  `Bnd L n`: the ids in `L` are below the allocation counter.
Each theorem holds for every file system, callback, restriction setting and argument (NULL included). -/

/-- id of the object a pointer holds -/
def ptrId (p : Option (Nat × KeyFile)) : Option Nat := p.map Prod.fst

theorem C20_readConfig_ledger (ctx : RdCtx) (o : OSt) (slot : Option (Nat × KeyFile))
    (project usr name suffix delim : Option Str) (comment : Str) (L : List Nat)
    (hb : Bnd L o.next) (hs : ∀ s, slot = some s → s.1 ∈ L) :
    ∃ evs, (ownReadConfig ctx o slot project usr name suffix delim comment).1.log = o.log ++ evs ∧
      Takes L evs (fun i => (i ∈ L ∧ some i ≠ ptrId slot) ∨
        some i = ptrId (ownReadConfig ctx o slot project usr name suffix delim comment).2.2) := by
  unfold ownReadConfig
  cases slot with
  | none =>
    simp only
    obtain ⟨evs, h1, h2, h3⟩ := ownReadConfigCore_spec ctx o.alloc.1 o.alloc.2 (prepareConfig {} project usr name).1
      (prepareConfig {} project usr name).2 suffix delim comment
    have hn : o.next ∉ L := fun h => Nat.lt_irrefl _ (hb _ h)
    generalize ownReadConfigCore ctx o.alloc.1 o.alloc.2 _ _ suffix delim comment = q at h1 h2 h3 ⊢
    obtain ⟨o1, r⟩ := q
    simp only [OSt.alloc] at h1 h2 h3 ⊢
    cases r with
    | ok m =>
      refine ⟨[OEv.new o.next] ++ evs, by simp [h1], ?_⟩
      refine Takes.append (Takes.new hn) (fun L' hL' => ?_)
      have := h3 L' (fun i hi => by rcases (hL' i).1 hi with h | h; (have := hb i h; omega); omega) ((hL' _).2 (Or.inr rfl))
      simp only [CorePost] at this
      refine this.1.congr (fun i => ?_)
      simp only [hL', ptrId, Option.map_none, Option.map_some, ne_eq, reduceCtorEq, not_false_eq_true, and_true, Option.some.injEq]
      constructor
      · rintro (⟨a | a, b⟩ | h)
        · exact Or.inl a
        · exact absurd a b
        · exact Or.inr h
      · rintro (a | h)
        · exact Or.inl ⟨Or.inl a, fun h => by have := hb i a; omega⟩
        · exact Or.inr h
    | error e =>
      simp only [↓reduceIte]
      refine ⟨[OEv.new o.next] ++ evs ++ [OEv.free o.next], by simp [h1, OSt.release, OSt.emit], ?_⟩
      refine Takes.append (P := fun i => i ∈ L ∨ i = o.next) (Takes.append (Takes.new hn) (fun L' hL' => ?_)) (fun L' hL' => ?_)
      · have := h3 L' (fun i hi => by rcases (hL' i).1 hi with h | h; (have := hb i h; omega); omega) ((hL' _).2 (Or.inr rfl))
        simp only [CorePost] at this
        exact this.congr (fun i => by simp [hL'])
      · refine (Takes.free ((hL' _).2 (Or.inr rfl))).congr (fun i => ?_)
        simp only [hL', ptrId, Option.map_none, ne_eq, reduceCtorEq, not_false_eq_true, and_true, or_false]
        constructor
        · rintro ⟨a | a, b⟩
          · exact a
          · exact absurd a b
        · intro a; exact ⟨Or.inl a, fun h => by have := hb i a; omega⟩
  | some s =>
    obtain ⟨id, kf⟩ := s
    simp only
    have hid : id ∈ L := hs (id, kf) rfl
    obtain ⟨evs, h1, h2, h3⟩ := ownReadConfigCore_spec ctx o id (prepareConfig kf project usr name).1
      (prepareConfig kf project usr name).2 suffix delim comment
    have := h3 L hb hid
    generalize ownReadConfigCore ctx o id _ _ suffix delim comment = q at h1 h2 this ⊢
    obtain ⟨o1, r⟩ := q
    cases r with
    | ok m =>
      simp only [CorePost] at this
      exact ⟨evs, h1, this.1.congr (fun i => by simp [ptrId])⟩
    | error e =>
      simp only [CorePost] at this
      simp only [Bool.false_eq_true, ↓reduceIte]
      refine ⟨evs, h1, this.congr (fun i => ?_)⟩
      simp only [ptrId, Option.map_some, ne_eq, Option.some.injEq]
      constructor
      · intro a
        by_cases h : i = id
        · exact Or.inr h
        · exact Or.inl ⟨a, h⟩
      · rintro (⟨a, _⟩ | h)
        · exact a
        · exact h ▸ hid

theorem C20_readDirs_ledger (ctx : RdCtx) (o : OSt) (usr etc name suffix delim : Option Str) (comment : Str) (L : List Nat)
    (hb : Bnd L o.next) :
    ∃ evs, (ownReadDirs ctx o usr etc name suffix delim comment).1.log = o.log ++ evs ∧
      Takes L evs (fun i => i ∈ L ∨ some i = ptrId (ownReadDirs ctx o usr etc name suffix delim comment).2.2) := by
  unfold ownReadDirs
  simp only
  obtain ⟨evs, h1, h2, h3⟩ := ownReadConfigCore_spec ctx o.alloc.1 o.alloc.2 { parseDirs := [usr.getD [], etc.getD []] } name suffix delim comment
  have hn : o.next ∉ L := fun h => Nat.lt_irrefl _ (hb _ h)
  generalize ownReadConfigCore ctx o.alloc.1 o.alloc.2 _ name suffix delim comment = q at h1 h2 h3 ⊢
  obtain ⟨o1, r⟩ := q
  simp only [OSt.alloc] at h1 h2 h3 ⊢
  refine ⟨[OEv.new o.next] ++ evs, by cases r <;> simp [h1], ?_⟩
  refine Takes.append (Takes.new hn) (fun L' hL' => ?_)
  have := h3 L' (fun i hi => by rcases (hL' i).1 hi with h | h; (have := hb i h; omega); omega) ((hL' _).2 (Or.inr rfl))
  cases r with
  | ok m =>
    simp only [CorePost] at this
    refine this.1.congr (fun i => ?_)
    simp only [hL', ptrId, Option.map_some, Option.some.injEq]
    constructor
    · rintro (⟨a | a, b⟩ | h)
      · exact Or.inl a
      · exact absurd a b
      · exact Or.inr h
    · rintro (a | h)
      · exact Or.inl ⟨Or.inl a, fun h => by have := hb i a; omega⟩
      · exact Or.inr h
  | error e =>
    simp only [CorePost] at this
    exact this.congr (fun i => by simp [hL', ptrId])

theorem C20_readFile_ledger (ctx : RdCtx) (o : OSt) (path delim comment : Option Str) (L : List Nat) (hb : Bnd L o.next) :
    ∃ evs, (ownReadFile ctx o path delim comment).1.log = o.log ++ evs ∧
      Takes L evs (fun i => i ∈ L ∨ some i = ptrId (ownReadFile ctx o path delim comment).2.2) := by
  have hn : o.next ∉ L := fun h => Nat.lt_irrefl _ (hb _ h)
  have gone : Takes L ([OEv.new o.next] ++ [OEv.free o.next]) (· ∈ L) :=
    Takes.append (Takes.new hn) (fun L' hL' => (Takes.free ((hL' _).2 (Or.inr rfl))).congr (fun i => by
      simp only [hL']
      constructor
      · rintro ⟨a | a, b⟩
        · exact a
        · exact absurd a b
      · intro a; exact ⟨Or.inl a, fun h => hn (h ▸ a)⟩))
  unfold ownReadFile
  have hnull : ∃ evs, ((o.alloc.1.release o.alloc.2, Err.error, (none : Option (Nat × KeyFile))) : OSt × Err × Option (Nat × KeyFile)).1.log = o.log ++ evs ∧
      Takes L evs (fun i => i ∈ L ∨ some i = ptrId ((o.alloc.1.release o.alloc.2, Err.error, (none : Option (Nat × KeyFile))) : OSt × Err × Option (Nat × KeyFile)).2.2) :=
    ⟨[OEv.new o.next] ++ [OEv.free o.next], by simp [OSt.alloc, OSt.release, OSt.emit], gone.congr (by simp [ptrId])⟩
  cases path with
  | none => exact hnull
  | some p =>
    cases delim with
    | none => exact hnull
    | some d =>
      cases comment with
      | none => exact hnull
      | some c =>
        simp only
        obtain ⟨evs2, h2log, h2next, h2takes, h2ok⟩ := ownReadFileCB_spec ctx o.alloc.1 o.alloc.2 false false p d c
        generalize ownReadFileCB ctx o.alloc.1 o.alloc.2 false false p d c = q at h2log h2next h2takes h2ok ⊢
        obtain ⟨o2, r, freed⟩ := q
        simp only [OSt.alloc] at h2log h2next h2takes h2ok ⊢
        have mid : Takes L ([OEv.new o.next] ++ evs2) (fun i => (i ∈ L ∨ i = o.next) ∧ (freed = true → i ≠ o.next)) :=
          Takes.append (Takes.new hn) (fun L' hL' => (h2takes L' ((hL' _).2 (Or.inr rfl))).congr (fun i => by simp [hL']))
        cases r with
        | ok kf =>
          have := h2ok kf rfl
          subst this
          exact ⟨[OEv.new o.next] ++ evs2, by simp [h2log], mid.congr (fun i => by simp [ptrId, eq_comm])⟩
        | error e =>
          cases freed with
          | true =>
            refine ⟨[OEv.new o.next] ++ evs2, by simp [h2log], mid.congr (fun i => ?_)⟩
            simp only [ptrId, Option.map_none, reduceCtorEq, or_false, forall_const]
            constructor
            · rintro ⟨a | a, b⟩
              · exact a
              · exact absurd a b
            · intro a; exact ⟨Or.inl a, fun h => hn (h ▸ a)⟩
          | false =>
            refine ⟨[OEv.new o.next] ++ evs2 ++ [OEv.free o.next], by simp [h2log, OSt.release, OSt.emit], ?_⟩
            refine Takes.append mid (fun L' hL' => (Takes.free ((hL' _).2 ⟨Or.inr rfl, by simp⟩)).congr (fun i => ?_))
            simp only [hL', ptrId, Option.map_none, reduceCtorEq, or_false, Bool.false_eq_true, false_implies, and_true]
            constructor
            · rintro ⟨a | a, b⟩
              · exact a
              · exact absurd a b
            · intro a; exact ⟨Or.inl a, fun h => hn (h ▸ a)⟩

theorem C20_history_ledger (ctx : RdCtx) (o : OSt) (usr etc name suffix delim : Option Str) (comment : Str) (L : List Nat)
    (hb : Bnd L o.next) :
    ∃ evs, (ownReadDirsHistory ctx o usr etc name suffix delim comment).1.log = o.log ++ evs ∧
      match (ownReadDirsHistory ctx o usr etc name suffix delim comment).2 with
      | .ok files => Takes L evs (fun i => i ∈ L ∨ i ∈ idsOf files) ∧ (idsOf files).Nodup ∧ (∀ i ∈ idsOf files, i ∉ L) ∧
          -- and when the caller has released every member, what was alive before is alive, nothing else
          Takes L (evs ++ (idsOf files).map OEv.free) (· ∈ L)
      | .error _ => Takes L evs (· ∈ L) := by
  unfold ownReadDirsHistory
  obtain ⟨evs, h1, h2, h3⟩ := ownHistory_spec ctx o [usr.getD [], etc.getD []] name suffix delim comment false false o.rs.g.confDirs
  have := h3 L hb
  generalize ownHistory ctx o [usr.getD [], etc.getD []] name suffix delim comment false false o.rs.g.confDirs = q at h1 h2 this ⊢
  obtain ⟨o1, r⟩ := q
  refine ⟨evs, h1, ?_⟩
  cases r with
  | error e => simpa [HistPost] using this
  | ok files =>
    simp only [HistPost] at this ⊢
    have hnd : (idsOf files).Nodup := this.2.1.imp (fun h => Nat.ne_of_lt h)
    have hrng := this.2.2
    have hdis : ∀ i ∈ idsOf files, i ∉ L := fun i hi h => by have h1 := hb i h; have h2 := (hrng i hi).1; omega
    refine ⟨this.1, hnd, hdis, Takes.append this.1 (fun L' hL' => ?_)⟩
    refine (Takes.freeAll _ L' hnd (fun i hi => (hL' i).2 (Or.inr hi))).congr (fun i => ?_)
    simp only [hL']
    constructor
    · rintro ⟨a | a, b⟩
      · exact a
      · exact absurd a b
    · intro a; exact ⟨Or.inl a, fun h => hdis i h a⟩

/-- an object handed out for a NULL pointer is a new one -/
theorem C20_readConfig_fresh (ctx : RdCtx) (o : OSt) (project usr name suffix delim : Option Str) (comment : Str) (id : Nat)
    (h : ptrId (ownReadConfig ctx o none project usr name suffix delim comment).2.2 = some id) : o.next ≤ id := by
  unfold ownReadConfig at h
  simp only at h
  obtain ⟨evs, h1, h2, h3⟩ := ownReadConfigCore_spec ctx o.alloc.1 o.alloc.2 (prepareConfig {} project usr name).1
    (prepareConfig {} project usr name).2 suffix delim comment
  have := h3 [o.next] (by intro i hi; simp at hi; subst hi; simp [OSt.alloc]) (by simp [OSt.alloc])
  generalize ownReadConfigCore ctx o.alloc.1 o.alloc.2 _ _ suffix delim comment = q at h this
  obtain ⟨o1, r⟩ := q
  cases r with
  | ok m =>
    simp only [CorePost, OSt.alloc] at this
    simp only [ptrId, Option.map_some, Option.some.injEq] at h
    omega
  | error e => simp [ptrId] at h

/-- the caller passed NULL, got an object and released it: what was alive before is alive, nothing else -/
theorem C20_readConfig_no_leak (ctx : RdCtx) (o : OSt) (project usr name suffix delim : Option Str) (comment : Str)
    (L : List Nat) (hb : Bnd L o.next) :
    ∃ evs, (ownReadConfig ctx o none project usr name suffix delim comment).1.log = o.log ++ evs ∧
      Takes L (evs ++ ((ptrId (ownReadConfig ctx o none project usr name suffix delim comment).2.2).toList.map OEv.free)) (· ∈ L) := by
  obtain ⟨evs, h1, h2⟩ := C20_readConfig_ledger ctx o none project usr name suffix delim comment L hb (by simp)
  refine ⟨evs, h1, Takes.append h2 (fun L' hL' => ?_)⟩
  have hf := C20_readConfig_fresh ctx o project usr name suffix delim comment
  generalize ptrId (ownReadConfig ctx o none project usr name suffix delim comment).2.2 = res at hL' hf ⊢
  cases res with
  | none => exact (Takes.nil L').congr (fun i => by simp [hL', ptrId])
  | some id =>
    have hid := hf id rfl
    refine (Takes.free ((hL' id).2 (Or.inr rfl))).congr (fun i => ?_)
    simp only [hL', ptrId, Option.map_none, ne_eq, reduceCtorEq, not_false_eq_true, and_true, Option.some.injEq]
    constructor
    · rintro ⟨a | a, b⟩
      · exact a
      · exact absurd a b
    · intro a; exact ⟨Or.inl a, fun h => by have := hb i a; omega⟩

/-- the results (state, return code, object or file list) are those of the functional model, so every theorem
    of C01/C06/C12/C13/C16 about `readConfig`, `readDirs`, `readDirsHistory`, `readFile` speaks about the very
    calls whose object events are counted here -/
theorem C20_own_refines (ctx : RdCtx) (o : OSt) :
    (∀ slot project usr name suffix delim comment,
      ((ownReadConfig ctx o slot project usr name suffix delim comment).1.rs,
       (ownReadConfig ctx o slot project usr name suffix delim comment).2.1,
       (ownReadConfig ctx o slot project usr name suffix delim comment).2.2.map Prod.snd) =
      readConfig ctx o.rs (slot.map Prod.snd) project usr name suffix delim comment) ∧
    (∀ usr etc name suffix delim comment,
      ((ownReadDirs ctx o usr etc name suffix delim comment).1.rs,
       (ownReadDirs ctx o usr etc name suffix delim comment).2.1,
       (ownReadDirs ctx o usr etc name suffix delim comment).2.2.map Prod.snd) =
      readDirs ctx o.rs usr etc name suffix delim comment) ∧
    (∀ usr etc name suffix delim comment,
      ((ownReadDirsHistory ctx o usr etc name suffix delim comment).1.rs,
       (ownReadDirsHistory ctx o usr etc name suffix delim comment).2.map (List.map Prod.snd)) =
      readDirsHistory ctx o.rs usr etc name suffix delim comment) ∧
    (∀ path delim comment,
      ((ownReadFile ctx o path delim comment).1.rs, (ownReadFile ctx o path delim comment).2.1,
       (ownReadFile ctx o path delim comment).2.2.map Prod.snd) = readFile ctx o.rs path delim comment) :=
  ⟨fun _ _ _ _ _ _ _ => ownReadConfig_result .., fun _ _ _ _ _ _ => ownReadDirs_result ..,
   fun _ _ _ _ _ _ => by unfold ownReadDirsHistory readDirsHistory; exact ownHistory_result ..,
   fun _ _ _ => ownReadFile_result ..⟩

/-! non-vacuity: the premises of the ledger theorems hold at the start of every scenario (nothing alive, counter 0),
    and the ledger refuses the sequences C20 forbids -/
example : Bnd [] 0 := by intro i hi; cases hi
example : ledger [] [.new 0, .new 1, .cb [], .openFile [], .free 1, .merged 2, .free 0] = some [2] := by decide
example : ledger [] [.new 0, .free 0, .free 0] = none := by decide          -- released twice
example : ledger [] [.new 0, .free 1] = none := by decide                   -- released, never created
example : ledger [0] [.new 0] = none := by decide                           -- id handed out twice

end Econf
