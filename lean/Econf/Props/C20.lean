import Econf.Layered
import Econf.Lemmas.LayeredLemmas

/-!
  # C20 – out-pointer discipline of the read entry points (the part of C20 a model can carry)

  C20 has two halves.  *Release exactly once, nothing left, nothing read uninitialised* is a
  statement about the C heap; the functional model has no heap, so no theorem here speaks about it –
  it is decided by the correspondence harness (ASan/UBSan, live-byte accounting at MARK/LEAK, with a
  failure injected at every consulted file in turn), see DESIGN.md 10.4.  *Each out-pointer is
  afterwards NULL, left as the caller initialised it, or a valid object* is decision logic of the
  entry points and is proved below for the layered-read model, for every file system, callback,
  security setting and argument; the harness compares the same out-pointer states (`SLOT` lines)
  with the model on every scenario.
-/

set_option linter.unusedSimpArgs false

namespace Econf

/-- `econf_readFile`: an object exactly on success, NULL on every failure -/
theorem C20_readFile_out (ctx : RdCtx) (s : RdState) (p d c : Option Str) :
    let r := readFile ctx s p d c
    (r.2.1 = .success ↔ r.2.2.isSome) := by
  intro r
  simp only [r]
  unfold readFile
  cases p with
  | none => simp
  | some p =>
    cases d with
    | none => simp
    | some d =>
      cases c with
      | none => simp
      | some c =>
        simp only
        have hne := readFileCB_ne_success ctx s false false p d c
        generalize readFileCB ctx s false false p d c = q at hne
        obtain ⟨q1, q2⟩ := q
        cases q2 with
        | ok kf => simp
        | error e => simp only [Option.isSome_none, Bool.false_eq_true, iff_false]; exact hne e rfl

/-- `econf_readConfig`: on success a valid (merged) object; on failure NULL when the caller passed
    NULL, and the caller's own object (with the directories filled in) when the caller passed one –
    never a partial result -/
theorem C20_readConfig_out (ctx : RdCtx) (s : RdState) (slot : Option KeyFile)
    (project usr name suffix delim : Option Str) (comment : Str) :
    let r := readConfig ctx s slot project usr name suffix delim comment
    (r.2.1 = .success → r.2.2.isSome) ∧
    (r.2.1 ≠ .success → r.2.2 = if slot.isNone then none else some (prepareConfig (slot.getD {}) project usr name).1) := by
  intro r
  simp only [r]
  unfold readConfig
  simp only
  have hne := readConfigCore_ne_success ctx s (prepareConfig (slot.getD {}) project usr name).1
    (prepareConfig (slot.getD {}) project usr name).2 suffix delim comment
  generalize readConfigCore ctx s (prepareConfig (slot.getD {}) project usr name).1
    (prepareConfig (slot.getD {}) project usr name).2 suffix delim comment = q at hne
  obtain ⟨q1, q2⟩ := q
  cases q2 with
  | ok m => simp
  | error e =>
    refine ⟨fun h => absurd h (hne e rfl), fun _ => ?_⟩
    simp only

/-- a history handed to the caller is never empty -/
theorem C20_history_out (ctx : RdCtx) (s : RdState) (dirs : List Str) (name suffix delim : Option Str)
    (comment : Str) (join python : Bool) (confDirs : List Str) (files : List KeyFile)
    (h : (readHistory ctx s dirs name suffix delim comment join python confDirs).2 = .ok files) : files ≠ [] := by
  unfold readHistory at h
  cases delim with
  | none => simp at h
  | some d =>
    cases name with
    | none => simp at h
    | some nm =>
      simp only at h
      split at h
      · cases h
      · split at h
        · cases h
        · split at h
          · cases h
          · simp only [Except.ok.injEq] at h
            subst h
            rename_i hh
            intro he; apply hh; simp [he]

/-- the merge pipeline turns every non-empty history into an object -/
theorem C20_merge_out (files : List KeyFile) (h : files ≠ []) : (mergeHistory files).isSome := by
  cases files with
  | nil => exact absurd rfl h
  | cons k ks => rfl

end Econf
