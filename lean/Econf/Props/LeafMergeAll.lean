import Econf.Props.LeafMergeEx
import Econf.Props.C03
open MiniC Leaf LeafKf
set_option linter.unusedSimpArgs false
set_option linter.unusedVariables false
namespace LeafKf

/-- what one round of the outer loop of `merge_existing_groups` appends: the base entry with the override's value, and behind the
    last entry of a group the keys of that group which only the override defines -/
def meChunk (us es : List Econf.Entry) (i : Nat) : List Econf.Entry :=
  match us[i]? with
  | some u => Econf.overrideValue es u :: (if Econf.hasGroup (us.drop (i + 1)) u.group then [] else Econf.newKeysOf us es u.group)
  | none => []

def meUpTo (us es : List Econf.Entry) (i : Nat) : List Econf.Entry := (List.range i).flatMap (meChunk us es)

theorem meUpTo_succ (us es : List Econf.Entry) (i : Nat) : meUpTo us es (i + 1) = meUpTo us es i ++ meChunk us es i := by
  simp [meUpTo, List.range_succ, List.flatMap_append]

theorem meUpTo_rest (us es : List Econf.Entry) : ∀ i, i ≤ us.length →
    meUpTo us es i ++ Econf.mergeExistingAux us es (us.drop i) = Econf.mergeExisting us es := by
  intro i
  induction i with
  | zero => intro _; simp [meUpTo, Econf.mergeExisting]
  | succ i ih =>
    intro hi
    have hlt : i < us.length := by omega
    rw [← ih (by omega), meUpTo_succ, List.append_assoc]
    congr 1
    rw [List.drop_eq_getElem_cons hlt]
    simp [meChunk, hlt, Econf.mergeExistingAux]

theorem meUpTo_model (us es : List Econf.Entry) : meUpTo us es us.length = Econf.mergeExisting us es := by
  have := meUpTo_rest us es us.length (Nat.le_refl _)
  simpa [Econf.mergeExistingAux] using this

theorem cpy_overrideValue (es : List Econf.Entry) (u : Econf.Entry) : Econf.cpyEntry (Econf.overrideValue es u) = Econf.overrideValue es u := by
  unfold Econf.overrideValue
  split <;> simp [Econf.cpyEntry]

theorem cpy_newKeysOf (us es : List Econf.Entry) (g : List UInt8) : (Econf.newKeysOf us es g).map Econf.cpyEntry = Econf.newKeysOf us es g := by
  simp [Econf.newKeysOf, List.map_map, Function.comp_def, Econf.cpyEntry]

theorem cpy_meChunk (us es : List Econf.Entry) (i : Nat) : (meChunk us es i).map Econf.cpyEntry = meChunk us es i := by
  unfold meChunk
  split
  · split <;> simp only [List.map_cons, List.map_nil, cpy_overrideValue, cpy_newKeysOf]
  · rfl

theorem cpy_meUpTo (us es : List Econf.Entry) (i : Nat) : (meUpTo us es i).map Econf.cpyEntry = meUpTo us es i := by
  induction i with
  | zero => simp [meUpTo]
  | succ i ih => rw [meUpTo_succ, List.map_append, ih, cpy_meChunk]

theorem meUpTo_length_mono (us es : List Econf.Entry) {i n : Nat} (h : i ≤ n) : (meUpTo us es i).length ≤ (meUpTo us es n).length := by
  obtain ⟨d, rfl⟩ : ∃ d, n = i + d := ⟨n - i, by omega⟩
  unfold meUpTo
  rw [List.range_add, List.flatMap_append, List.length_append]
  omega

/-- what the caller of `merge_existing_groups` provides -/
structure MeCtx (m0 : Mem) (bk bl0 fa cell bu bua be bea : Nat) (us es : List Econf.Entry) (gl0len cap start : Nat) : Prop where
  arr : ArrCtx m0 bk bl0 fa cell gl0len cap
  src : SrcMem m0 be bea es [bk, bl0, fa]
  usr : SrcMem m0 bu bua us [bk, bl0, fa]
  room : start + (Econf.mergeExisting us es).length ≤ cap
  small : (gl0len : Int) + (Econf.mergeExisting us es).length + es.length + 2 < 2147483648
  usmall : (us.length : Int) + 1 < 18446744073709551616
  esmall : (es.length : Int) + 1 < 18446744073709551616
  ssmall : (start : Int) + (Econf.mergeExisting us es).length + es.length + 1 < 18446744073709551616
  lines : ∀ e ∈ es, (e.line : Int) < 18446744073709551616
  ulines : ∀ e ∈ us, (e.line : Int) < 18446744073709551616

abbrev moLoc (bk cell bu be start cnt i : Nat) (v7 v8 v9 v10 v11 v12 v13 v14 : Val) : List Val :=
  [.ptr bk 0, .ptr cell 0, .ptr bu 0, .ptr be 0, .int (start : Int), .int (cnt : Int), .int (i : Int), v7, v8, v9, v10, v11, v12, v13, v14]

/-- the state of the outer loop before round `i` -/
def MoInv (m0 : Mem) (bk bl0 fa cell bu be : Nat) (us es : List Econf.Entry) (names0 : List (List UInt8)) (gl0len cap start : Nat) (ablk0 : Block)
    (i : Nat) (st : St) : Prop :=
  (∃ v7 v8 v9 v10 v11 v12 v13 v14, st.loc = moLoc bk cell bu be start (start + (meUpTo us es i).length) i v7 v8 v9 v10 v11 v12 v13 v14) ∧
  ArrInv m0 bk bl0 fa names0 gl0len cap start ablk0 (meUpTo us es i) st.mem

def moTest : Expr := .bin .lt (.load (.var 6) .u64) (.load (.slot (.load (.var 2) .ptr) 1) .u64) .i32

/-- the first part of a round: the group pointer, the flag, the copy of the base entry, the look-up in the override, the value -/
theorem mo_first {m0 : Mem} {bk bl0 fa cell bu bua be bea : Nat} {us es : List Econf.Entry} {names0 : List (List UInt8)} {gl0len cap start : Nat} {ablk0 : Block}
    (C : MeCtx m0 bk bl0 fa cell bu bua be bea us es gl0len cap start) (fuel : Nat) (hf : gl0len + (Econf.mergeExisting us es).length + es.length + us.length + 2 < fuel)
    (i : Nat) (hi : i < us.length) (mem : Mem) (v7 v8 v9 v10 v11 v12 v13 v14 : Val)
    (hA : ArrInv m0 bk bl0 fa names0 gl0len cap start ablk0 (meUpTo us es i) mem) (REST : Stmt) :
    ∃ M3 bg w9 w10, M3.cstr bg 0 = .ok (us[i]).group ∧ bg < m0.length ∧ bg ∉ [bk, bl0, fa] ∧
      exec fuel (.seq (.expr (.assign (.var 7) (.load (.slot meSrc 0) .ptr) .ptr))
        (.seq (.expr (.assign (.var 8) (.cast .bool (.lit 1 .i32)) .bool))
        (.seq (.inl (some (.var 9)) .ptr (.cons (.load (.var 0) .ptr) (.cons meSrc .nil)) 3 LeafFns.cpy_file_entry.body)
        (.seq (.expr (.call "copy_words" (.cons meDst (.cons (.load (.var 9) .ptr) (.cons (.lit 7 .u64) .nil)))))
        (.seq (.inl (some (.var 10)) .u64 (.cons (.load (.var 3) .ptr) (.cons (.load (.var 7) .ptr) (.cons (.load (.slot meSrc 1) .ptr) .nil))) 4 LeafFns.first_entry.body)
        (.seq meOverride REST))))))
        { mem := mem, loc := moLoc bk cell bu be start (start + (meUpTo us es i).length) i v7 v8 v9 v10 v11 v12 v13 v14 } =
      exec fuel REST { mem := M3, loc := moLoc bk cell bu be start (start + (meUpTo us es i).length) i (.ptr bg 0) (.int 1) w9 w10 v11 v12 v13 v14 } ∧
      ArrInv m0 bk bl0 fa names0 gl0len cap start ablk0 (meUpTo us es i ++ [Econf.overrideValue es us[i]]) M3 := by
  have hU : SrcMem mem bu bua us [bk, bl0, fa] := C.usr.mono hA.agree
  obtain ⟨bg, g1, g2, g3⟩ := (C.usr.ents i hi).grp
  have hbglt : bg < m0.length := cstr_lt g2
  obtain ⟨bq, q1, q2, q3⟩ := (C.usr.ents i hi).key
  have hbqlt : bq < m0.length := cstr_lt q2
  have hbualt : bua < m0.length := loadSlot_lt g1
  have hgw : ∀ mm : Mem, (∀ b, b < m0.length → b ∉ [bk, bl0, fa] → mm[b]? = m0[b]?) → mm.loadSlot bua (((7 * i : Nat) : Int) + ((0 : Nat) : Int)) = .ok (.ptr bg 0) := by
    intro mm hmm
    rw [loadSlot_congr (hmm bua hbualt C.usr.arrav)]; simpa using g1
  -- (1) `group = uf->file_entry[i].group`
  have hs1 : exec fuel (.expr (.assign (.var 7) (.load (.slot meSrc 0) .ptr) .ptr))
      { mem := mem, loc := moLoc bk cell bu be start (start + (meUpTo us es i).length) i v7 v8 v9 v10 v11 v12 v13 v14 } =
      .normal { mem := mem, loc := moLoc bk cell bu be start (start + (meUpTo us es i).length) i (.ptr bg 0) v8 v9 v10 v11 v12 v13 v14 } := by
    have hld := kf_member 2 6 mem (moLoc bk cell bu be start (start + (meUpTo us es i).length) i v7 v8 v9 v10 v11 v12 v13 v14) bu bua us _ i 0 (.ptr bg 0) hU hi rfl rfl
      (hgw mem hA.agree) (by simp)
    unfold meSrc
    generalize (Expr.load (.slot (.sidx (.load (.slot (.load (.var 2) .ptr) 0) .ptr) (.load (.var 6) .u64) 7) 0) .ptr) = G at hld ⊢
    simp [exec, evalE, evalL, hld, convert, writePlace, bind, Except.bind]
  rw [exec_seq_normal hs1]
  -- (2) `last_of_group = true`
  have hs2 : exec fuel (.expr (.assign (.var 8) (.cast .bool (.lit 1 .i32)) .bool)) { mem := mem, loc := moLoc bk cell bu be start (start + (meUpTo us es i).length) i (.ptr bg 0) v8 v9 v10 v11 v12 v13 v14 } = .normal { mem := mem, loc := moLoc bk cell bu be start (start + (meUpTo us es i).length) i (.ptr bg 0) (.int 1) v9 v10 v11 v12 v13 v14 } := by
    have hw : wrapTo .bool 1 = 1 := by decide
    simp [exec, evalE, evalL, convert, hw, writePlace, bind, Except.bind]
  rw [exec_seq_normal hs2]
  -- (3) the copy of the base entry behind what is there
  have hsrc := kf_src 2 6 mem (moLoc bk cell bu be start (start + (meUpTo us es i).length) i (.ptr bg 0) (.int 1) v9 v10 v11 v12 v13 v14) bu bua us _ i hU (Nat.le_of_lt hi) rfl rfl
  have hidx : ∀ mm, evalE (.load (.var 5) .u64) { mem := mm, loc := List.set (moLoc bk cell bu be start (start + (meUpTo us es i).length) i (.ptr bg 0) (.int 1) v9 v10 v11 v12 v13 v14) 9 (.ptr mem.length 0) } =
      .ok (.int ((start + (meUpTo us es i).length : Nat) : Int), { mem := mm, loc := moLoc bk cell bu be start (start + (meUpTo us es i).length) i (.ptr bg 0) (.int 1) (.ptr mem.length 0) v10 v11 v12 v13 v14 }) := fun mm => by
    simp [evalE, evalL, readPlace, bind, Except.bind]
  have hmono := meUpTo_length_mono us es (i := i + 1) (n := us.length) (by omega)
  rw [meUpTo_succ, meUpTo_model, List.length_append] at hmono
  have hchunk1 : 1 ≤ (meChunk us es i).length := by simp [meChunk, hi]
  have hroom := C.room
  have hsm := C.small
  obtain ⟨M1, hex1, hA1, hlen1, hfresh, hfr1, hwords⟩ := hA.append C.arr bua (7 * i) us[i] (C.usr.ents i hi) (moLoc bk cell bu be start (start + (meUpTo us es i).length) i (.ptr bg 0) (.int 1) v9 v10 v11 v12 v13 v14) (moLoc bk cell bu be start (start + (meUpTo us es i).length) i (.ptr bg 0) (.int 1) (.ptr mem.length 0) v10 v11 v12 v13 v14) meSrc (.load (.var 5) .u64) 9
    (by omega) (by omega) (C.ulines _ (List.getElem_mem hi)) fuel (by omega) rfl rfl (by simp) (by decide) (by unfold meSrc; exact hsrc) hidx rfl
  rw [exec_seq_assoc, exec_seq_normal (by unfold meDst; exact hex1)]
  -- (4) `j = first_entry(ef, group, uf->file_entry[i].key)`
  have hagree1 := hA1.agree
  have hgrow1 : m0.length ≤ M1.length := hA1.grows
  have hU1 : SrcMem M1 bu bua us [bk, bl0, fa] := C.usr.mono hagree1
  have hS1 : SrcMem M1 be bea es [bk, bl0, fa] := C.src.mono hagree1
  have hg1 : M1.cstr bg 0 = .ok (us[i]).group := by rw [cstr_congr (hagree1 bg hbglt g3)]; exact g2
  have hq1 : M1.cstr bq 0 = .ok (us[i]).key := by rw [cstr_congr (hagree1 bq hbqlt q3)]; exact q2
  have hkey := kf_member 2 6 M1 (moLoc bk cell bu be start (start + (meUpTo us es i).length) i (.ptr bg 0) (.int 1) (.ptr mem.length 0) v10 v11 v12 v13 v14) bu bua us _ i 1 (.ptr bq 0) hU1 hi rfl rfl
    (by rw [loadSlot_congr (hagree1 bua hbualt C.usr.arrav)]; simpa using q1) (by simp)
  have hargs3 : evalArgs (.cons (.load (.var 3) .ptr) (.cons (.load (.var 7) .ptr) (.cons (.load (.slot meSrc 1) .ptr) .nil))) { mem := M1, loc := moLoc bk cell bu be start (start + (meUpTo us es i).length) i (.ptr bg 0) (.int 1) (.ptr mem.length 0) v10 v11 v12 v13 v14 } =
      .ok ([.ptr be 0, .ptr bg 0, .ptr bq 0], { mem := M1, loc := moLoc bk cell bu be start (start + (meUpTo us es i).length) i (.ptr bg 0) (.int 1) (.ptr mem.length 0) v10 v11 v12 v13 v14 }) := by
    have h3 : evalE (.load (.var 3) .ptr) { mem := M1, loc := moLoc bk cell bu be start (start + (meUpTo us es i).length) i (.ptr bg 0) (.int 1) (.ptr mem.length 0) v10 v11 v12 v13 v14 } = .ok (.ptr be 0, { mem := M1, loc := moLoc bk cell bu be start (start + (meUpTo us es i).length) i (.ptr bg 0) (.int 1) (.ptr mem.length 0) v10 v11 v12 v13 v14 }) := by
      simp [evalE, evalL, readPlace, bind, Except.bind]
    have h7 : evalE (.load (.var 7) .ptr) { mem := M1, loc := moLoc bk cell bu be start (start + (meUpTo us es i).length) i (.ptr bg 0) (.int 1) (.ptr mem.length 0) v10 v11 v12 v13 v14 } = .ok (.ptr bg 0, { mem := M1, loc := moLoc bk cell bu be start (start + (meUpTo us es i).length) i (.ptr bg 0) (.int 1) (.ptr mem.length 0) v10 v11 v12 v13 v14 }) := by
      simp [evalE, evalL, readPlace, bind, Except.bind]
    unfold meSrc
    generalize (Expr.load (.slot (.sidx (.load (.slot (.load (.var 2) .ptr) 0) .ptr) (.load (.var 6) .u64) 7) 1) .ptr) = K at hkey ⊢
    simp only [evalArgs, h3, h7, hkey, bind, Except.bind]
  have hel : (entsOf es).length = es.length := by simp [entsOf]
  have hes := C.esmall
  have hfe := first_entry_exec M1 be bea bg bq (entsOf es) (us[i]).group (us[i]).key hS1.toKf hg1 hq1 (by rw [hel]; exact hes) fuel
    (by rw [hel]; omega)
  have hfile := firstIdx_le (entsOf es) (us[i]).group (us[i]).key
  have hwf : wrapTo .u64 ((firstIdx (entsOf es) (us[i]).group (us[i]).key) : Int) = ((firstIdx (entsOf es) (us[i]).group (us[i]).key) : Int) := wrapTo_u64_small _ (by omega) (by omega)
  have hinl10 : exec fuel (.inl (some (.var 10)) .u64 (.cons (.load (.var 3) .ptr) (.cons (.load (.var 7) .ptr) (.cons (.load (.slot meSrc 1) .ptr) .nil))) 4 LeafFns.first_entry.body)
      { mem := M1, loc := moLoc bk cell bu be start (start + (meUpTo us es i).length) i (.ptr bg 0) (.int 1) (.ptr mem.length 0) v10 v11 v12 v13 v14 } = .normal { mem := M1, loc := moLoc bk cell bu be start (start + (meUpTo us es i).length) i (.ptr bg 0) (.int 1) (.ptr mem.length 0) (.int ((firstIdx (entsOf es) (us[i]).group (us[i]).key) : Int)) v11 v12 v13 v14 } :=
    exec_inl_val (fuel := fuel) (nl := 4) (body := LeafFns.first_entry.body) (i := 10) (dty := .u64) (v := .int ((firstIdx (entsOf es) (us[i]).group (us[i]).key) : Int)) (v' := .int ((firstIdx (entsOf es) (us[i]).group (us[i]).key) : Int))
      (st' := { mem := M1, loc := [.ptr be 0, .ptr bg 0, .ptr bq 0, .int ((firstIdx (entsOf es) (us[i]).group (us[i]).key) : Int)] }) hargs3 (by simpa using hfe) (by simp [convert, hwf]) (by simp)
  rw [exec_seq_normal hinl10]
  -- (5) the override's value, if it defines the key
  obtain ⟨M3, hex3, hA3, hlen3⟩ := me_override C.arr C.src us[i] hA hA1 hlen1 hfresh hwords (moLoc bk cell bu be start (start + (meUpTo us es i).length) i (.ptr bg 0) (.int 1) (.ptr mem.length 0) (.int ((firstIdx (entsOf es) (us[i]).group (us[i]).key) : Int)) v11 v12 v13 v14) rfl rfl rfl rfl fuel
  rw [exec_seq_normal hex3]
  refine ⟨M3, bg, .ptr mem.length 0, .int ((firstIdx (entsOf es) (us[i]).group (us[i]).key) : Int), ?_, hbglt, g3, rfl, hA3⟩
  rw [cstr_congr (hA3.agree bg hbglt g3)]; exact g2

/-- `i++` (variable 6 of fifteen) -/
theorem ag_step_any (mm : Mem) (a0 a1 a2 a3 a4 a5 a7 a8 a9 a10 a11 a12 a13 a14 : Val) (i : Nat) (hi : (i : Int) + 1 < 18446744073709551616) :
    stepOf (some (.incdec (.var 6) true true .u64)) { mem := mm, loc := [a0, a1, a2, a3, a4, a5, .int (i : Int), a7, a8, a9, a10, a11, a12, a13, a14] } =
      .ok { mem := mm, loc := [a0, a1, a2, a3, a4, a5, .int ((i + 1 : Nat) : Int), a7, a8, a9, a10, a11, a12, a13, a14] } := by
  have : wrapTo .u64 ((i : Int) + 1) = (i : Int) + 1 := wrapTo_u64_small _ (by omega) (by omega)
  simp [stepOf, evalE, evalL, readPlace, writePlace, binop, cmpInt, arith, Ty.signed, convert, this, bind, Except.bind, Except.map]

theorem mo_round {m0 : Mem} {bk bl0 fa cell bu bua be bea : Nat} {us es : List Econf.Entry} {names0 : List (List UInt8)} {gl0len cap start : Nat} {ablk0 : Block}
    (C : MeCtx m0 bk bl0 fa cell bu bua be bea us es gl0len cap start) (fuel : Nat) (hf : gl0len + (Econf.mergeExisting us es).length + es.length + us.length + 2 < fuel)
    (i : Nat) (hi : i < us.length) (st : St) (h : MoInv m0 bk bl0 fa cell bu be us es names0 gl0len cap start ablk0 i st) :
    ∃ T Q st', testOf (some moTest) st = .ok (true, T) ∧ (exec fuel meRound T = .normal Q ∨ exec fuel meRound T = .cont Q) ∧
      stepOf (some (.incdec (.var 6) true true .u64)) Q = .ok st' ∧
      MoInv m0 bk bl0 fa cell bu be us es names0 gl0len cap start ablk0 (i + 1) st' := by
  obtain ⟨⟨v7, v8, v9, v10, v11, v12, v13, v14, hloc⟩, hA⟩ := h
  obtain ⟨mem, loc⟩ := st
  simp only at hloc hA; subst hloc
  have hU : SrcMem mem bu bua us [bk, bl0, fa] := C.usr.mono hA.agree
  have htest := kf_test 2 6 mem (moLoc bk cell bu be start (start + (meUpTo us es i).length) i v7 v8 v9 v10 v11 v12 v13 v14) bu bua us _ i hU rfl rfl
  simp only [hi, decide_true] at htest
  have hmono := meUpTo_length_mono us es (i := i + 1) (n := us.length) (by omega)
  rw [meUpTo_model] at hmono
  have hsucc := meUpTo_succ us es i
  have hroom := C.room
  have hsm := C.small
  have hss := C.ssmall
  have hus := C.usmall
  have hstep6 : (i : Int) + 1 < 18446744073709551616 := by omega
  -- first part
  obtain ⟨M3, bg, w9, w10, hg3, hbglt, hbgav, hex, hA3⟩ := mo_first C fuel hf i hi mem v7 v8 v9 v10 v11 v12 v13 v14 hA
    (.seq (.expr (.incdec (.var 5) true true .u64))
    (.seq (.expr (.assign (.var 11) (.bin .add (.load (.var 6) .u64) (.cast .u64 (.lit 1 .i32)) .u64) .u64))
    (.seq meLastLoop
    (.seq (.ite (.un .lnot (.load (.var 8) .bool) .i32) .cont .skip)
    (.seq (.expr (.assign (.var 10) (.cast .u64 (.lit 0 .i32)) .u64)) meNewKeys)))))
  have hround : exec fuel meRound { mem := mem, loc := moLoc bk cell bu be start (start + (meUpTo us es i).length) i v7 v8 v9 v10 v11 v12 v13 v14 } = _ := hex
  suffices hmain : ∃ Q st', (exec fuel meRound { mem := mem, loc := moLoc bk cell bu be start (start + (meUpTo us es i).length) i v7 v8 v9 v10 v11 v12 v13 v14 } = .normal Q ∨
      exec fuel meRound { mem := mem, loc := moLoc bk cell bu be start (start + (meUpTo us es i).length) i v7 v8 v9 v10 v11 v12 v13 v14 } = .cont Q) ∧
      stepOf (some (.incdec (.var 6) true true .u64)) Q = .ok st' ∧ MoInv m0 bk bl0 fa cell bu be us es names0 gl0len cap start ablk0 (i + 1) st' by
    obtain ⟨Q, st', hb, hs, hinv⟩ := hmain
    exact ⟨_, Q, st', htest, hb, hs, hinv⟩
  rw [hround]
  -- (6) `merge_length++`
  have hchunklen : (meUpTo us es (i + 1)).length = (meUpTo us es i).length + (meChunk us es i).length := by rw [hsucc, List.length_append]
  have hchunk1 : 1 ≤ (meChunk us es i).length := by simp [meChunk, hi]
  have hs6 : exec fuel (.expr (.incdec (.var 5) true true .u64)) { mem := M3, loc := moLoc bk cell bu be start (start + (meUpTo us es i).length) i (.ptr bg 0) (.int 1) w9 w10 v11 v12 v13 v14 } = .normal { mem := M3, loc := moLoc bk cell bu be start (start + (meUpTo us es i).length + 1) i (.ptr bg 0) (.int 1) w9 w10 v11 v12 v13 v14 } := by
    have : wrapTo .u64 (((start : Int) + ((meUpTo us es i).length : Int)) + 1) = ((start : Int) + ((meUpTo us es i).length : Int)) + 1 := wrapTo_u64_small _ (by omega) (by omega)
    simp [exec, evalE, evalL, readPlace, writePlace, binop, cmpInt, arith, Ty.signed, convert, this, bind, Except.bind, Except.map]
  rw [exec_seq_normal hs6]
  -- (7) `k = i + 1`
  have hs7 : exec fuel (.expr (.assign (.var 11) (.bin .add (.load (.var 6) .u64) (.cast .u64 (.lit 1 .i32)) .u64) .u64)) { mem := M3, loc := moLoc bk cell bu be start (start + (meUpTo us es i).length + 1) i (.ptr bg 0) (.int 1) w9 w10 v11 v12 v13 v14 } =
      .normal { mem := M3, loc := moLoc bk cell bu be start (start + (meUpTo us es i).length + 1) i (.ptr bg 0) (.int 1) w9 w10 (.int ((i + 1 : Nat) : Int)) v12 v13 v14 } := by
    have w1 : wrapTo .u64 1 = 1 := wrapTo_u64_small 1 (by decide) (by decide)
    have : wrapTo .u64 ((i : Int) + 1) = (i : Int) + 1 := wrapTo_u64_small _ (by omega) (by omega)
    simp [exec, evalE, evalL, readPlace, writePlace, binop, cmpInt, arith, Ty.signed, convert, w1, this, bind, Except.bind, Except.map]
  rw [exec_seq_normal hs7]
  -- (8) is there a later entry of the group?
  have hU3 : SrcMem M3 bu bua us [bk, bl0, fa] := C.usr.mono hA3.agree
  obtain ⟨k, hlast⟩ := me_last fuel M3 (moLoc bk cell bu be start (start + (meUpTo us es i).length + 1) i (.ptr bg 0) (.int 1) w9 w10 (.int ((i + 1 : Nat) : Int)) v12 v13 v14) bu bua bg us _ (us[i]).group i hU3 rfl rfl hg3 (by simp) hi hus (by omega)
  have hset : List.set (moLoc bk cell bu be start (start + (meUpTo us es i).length + 1) i (.ptr bg 0) (.int 1) w9 w10 (.int ((i + 1 : Nat) : Int)) v12 v13 v14) 11 (.int ((i + 1 : Nat) : Int)) = moLoc bk cell bu be start (start + (meUpTo us es i).length + 1) i (.ptr bg 0) (.int 1) w9 w10 (.int ((i + 1 : Nat) : Int)) v12 v13 v14 := by simp [moLoc]
  rw [hset] at hlast
  rw [exec_seq_normal hlast]
  have hov1 : ((meUpTo us es i) ++ [Econf.overrideValue es us[i]]).length = (meUpTo us es i).length + 1 := by simp
  by_cases hhas : Econf.hasGroup (us.drop (i + 1)) (us[i]).group = true
  · -- yes: `continue`
    have hchunk : meChunk us es i = [Econf.overrideValue es us[i]] := by simp [meChunk, hi, hhas]
    simp only [hhas, if_true]
    refine ⟨{ mem := M3, loc := moLoc bk cell bu be start (start + (meUpTo us es i).length + 1) i (.ptr bg 0) (.int 0) w9 w10 (.int (k : Int)) v12 v13 v14 }, { mem := M3, loc := moLoc bk cell bu be start (start + (meUpTo us es i).length + 1) (i + 1) (.ptr bg 0) (.int 0) w9 w10 (.int (k : Int)) v12 v13 v14 }, Or.inr ?_, ?_, ?_⟩
    · have ht8 : testOf (some (.un .lnot (.load (.var 8) .bool) .i32)) { mem := M3, loc := List.set (List.set (moLoc bk cell bu be start (start + (meUpTo us es i).length + 1) i (.ptr bg 0) (.int 1) w9 w10 (.int ((i + 1 : Nat) : Int)) v12 v13 v14) 11 (.int (k : Int))) 8 (.int 0) } =
          .ok (true, { mem := M3, loc := moLoc bk cell bu be start (start + (meUpTo us es i).length + 1) i (.ptr bg 0) (.int 0) w9 w10 (.int (k : Int)) v12 v13 v14 }) := by
        simp [testOf, evalE, evalL, readPlace, unop, boolVal, truth, bind, Except.bind, Except.map, moLoc]
      apply exec_seq_cont
      rw [exec_ite_true ht8]; simp [exec]
    · exact ag_step_any M3 _ _ _ _ _ _ _ _ _ _ _ _ _ _ i hstep6
    · refine ⟨⟨.ptr bg 0, .int 0, w9, w10, .int (k : Int), v12, v13, v14, ?_⟩, ?_⟩
      · rw [hsucc, hchunk]; simp [moLoc]; omega
      · rw [hsucc, hchunk]; exact hA3
  · -- no: the keys of this group that only the override defines follow
    have hhas' : Econf.hasGroup (us.drop (i + 1)) (us[i]).group = false := by simpa using hhas
    have hchunk : meChunk us es i = Econf.overrideValue es us[i] :: Econf.newKeysOf us es (us[i]).group := by simp [meChunk, hi, hhas']
    simp only [hhas', Bool.false_eq_true, if_false]
    have ht8 : testOf (some (.un .lnot (.load (.var 8) .bool) .i32)) { mem := M3, loc := List.set (moLoc bk cell bu be start (start + (meUpTo us es i).length + 1) i (.ptr bg 0) (.int 1) w9 w10 (.int ((i + 1 : Nat) : Int)) v12 v13 v14) 11 (.int (k : Int)) } =
        .ok (false, { mem := M3, loc := moLoc bk cell bu be start (start + (meUpTo us es i).length + 1) i (.ptr bg 0) (.int 1) w9 w10 (.int (k : Int)) v12 v13 v14 }) := by
      simp [testOf, evalE, evalL, readPlace, unop, boolVal, truth, bind, Except.bind, Except.map, moLoc]
    have hs9 : exec fuel (.ite (.un .lnot (.load (.var 8) .bool) .i32) .cont .skip) { mem := M3, loc := List.set (moLoc bk cell bu be start (start + (meUpTo us es i).length + 1) i (.ptr bg 0) (.int 1) w9 w10 (.int ((i + 1 : Nat) : Int)) v12 v13 v14) 11 (.int (k : Int)) } =
        .normal { mem := M3, loc := moLoc bk cell bu be start (start + (meUpTo us es i).length + 1) i (.ptr bg 0) (.int 1) w9 w10 (.int (k : Int)) v12 v13 v14 } := by
      rw [exec_ite_false ht8]; simp [exec]
    rw [exec_seq_normal hs9]
    have hs10 : exec fuel (.expr (.assign (.var 10) (.cast .u64 (.lit 0 .i32)) .u64)) { mem := M3, loc := moLoc bk cell bu be start (start + (meUpTo us es i).length + 1) i (.ptr bg 0) (.int 1) w9 w10 (.int (k : Int)) v12 v13 v14 } = .normal { mem := M3, loc := moLoc bk cell bu be start (start + (meUpTo us es i).length + 1) i (.ptr bg 0) (.int 1) w9 (.int 0) (.int (k : Int)) v12 v13 v14 } := by
      have w0 : wrapTo .u64 0 = 0 := wrapTo_u64_small 0 (by decide) (by decide)
      simp [exec, evalE, evalL, convert, w0, writePlace, bind, Except.bind]
    rw [exec_seq_normal hs10]
    -- the inner loop
    obtain ⟨bgm, gm1, gm2, gm3⟩ := (C.usr.ents i hi).grp
    have hnk := mnSel_model us es (us[i]).group
    have hnklen : (Econf.newKeysOf us es (us[i]).group).length = (selBy (mnP us (us[i]).group) es es.length).length := by rw [← hnk]; simp
    have hchunklen2 : (meChunk us es i).length = 1 + (selBy (mnP us (us[i]).group) es es.length).length := by rw [hchunk]; simp [hnklen]; omega
    have hctx : MnCtx m0 bk bl0 fa cell bu bua be bea bg us es (us[i]).group gl0len cap (start + (meUpTo us es i).length + 1) :=
      ⟨C.arr, C.src, C.usr, by rw [← cstr_congr (hA3.agree bg hbglt hbgav)]; exact hg3, hbgav, by omega, hus, by omega, C.lines⟩
    obtain ⟨mem', x12, x13, x14, hexn, hAn⟩ := me_newkeys_inv (astart := start) (pre := (meUpTo us es i) ++ [Econf.overrideValue es us[i]]) start i (.int 1) w9 (.int (k : Int)) v12 v13 v14
      hctx (by simp; omega) (by simp; omega) (by simp; omega) fuel (by simp; omega) M3 hA3
    have hexn' : exec fuel meNewKeys { mem := M3, loc := moLoc bk cell bu be start (start + (meUpTo us es i).length + 1) i (.ptr bg 0) (.int 1) w9 (.int 0) (.int (k : Int)) v12 v13 v14 } = .normal { mem := mem', loc := moLoc bk cell bu be start (start + (meUpTo us es i).length + 1 + (selBy (mnP us (us[i]).group) es es.length).length) i (.ptr bg 0) (.int 1) w9 (.int (es.length : Int)) (.int (k : Int)) x12 x13 x14 } := hexn
    refine ⟨{ mem := mem', loc := moLoc bk cell bu be start (start + (meUpTo us es i).length + 1 + (selBy (mnP us (us[i]).group) es es.length).length) i (.ptr bg 0) (.int 1) w9 (.int (es.length : Int)) (.int (k : Int)) x12 x13 x14 }, { mem := mem', loc := moLoc bk cell bu be start (start + (meUpTo us es i).length + 1 + (selBy (mnP us (us[i]).group) es es.length).length) (i + 1) (.ptr bg 0) (.int 1) w9 (.int (es.length : Int)) (.int (k : Int)) x12 x13 x14 }, Or.inl hexn', ag_step_any mem' _ _ _ _ _ _ _ _ _ _ _ _ _ _ i hstep6, ?_⟩
    refine ⟨⟨.ptr bg 0, .int 1, w9, .int (es.length : Int), .int (k : Int), x12, x13, x14, ?_⟩, ?_⟩
    · rw [hsucc, List.length_append, hchunklen2]; simp [moLoc]; omega
    · rw [hsucc, hchunk]
      refine hAn.congr ?_
      rw [List.map_append, List.map_append, List.map_append, List.map_cons, hnk, cpy_newKeysOf]
      simp

/-- `merge_existing_groups` on the generated term, both objects present: behind the `start` entries already in the array stand exactly the
    entries of the model's `mergeExisting` (every entry of the base with the override's value if the override defines the key, and behind
    the last entry of each group the keys of that group which only the override defines); their number is added to the count returned; the
    destination's group list has got their groups in order of first use; the rest of the caller's memory is unchanged -/
theorem C_merge_existing_groups (m : Mem) (bk bl0 fa cell bu bua be bea : Nat) (us es : List Econf.Entry) (gl0 : List (Nat × List UInt8)) (cap start : Nat)
    (C : MeCtx m bk bl0 fa cell bu bua be bea us es gl0.length cap start)
    (hG : GlMem m bk bl0 gl0) (hkw : ∀ blk, m[bk]? = some blk → blk.writable = true) (hne : gl0 ≠ [] → bk ≠ bl0) (hd : ∀ x, x ∈ gl0 → x.1 ≠ bk ∧ x.1 ≠ bl0)
    (ablk0 : Block) (ha1 : m[fa]? = some ablk0) (ha2 : ablk0.live = true) (ha3 : ablk0.writable = true) (ha4 : ablk0.cells = []) (ha5 : ablk0.slots.length = 7 * cap)
    (fuel : Nat) (hf : gl0.length + (Econf.mergeExisting us es).length + es.length + us.length + 2 < fuel) :
    ∃ m' loc' bl' gl', exec fuel LeafFns.merge_existing_groups.body
        { mem := m, loc := [.ptr bk 0, .ptr cell 0, .ptr bu 0, .ptr be 0, .int (start : Int)] ++ List.replicate 10 .undef } =
        .ret (.int ((start + (Econf.mergeExisting us es).length : Nat) : Int)) { mem := m', loc := loc' } ∧
      GlMem m' bk bl' gl' ∧
      gl'.map (·.2) = ((Econf.mergeExisting us es).map (·.group)).foldl Econf.addGroup (gl0.map (·.2)) ∧
      (∃ ablk', m'[fa]? = some ablk' ∧ ablk'.live = true ∧ ablk'.writable = true ∧ ablk'.cells = [] ∧ ablk'.slots.length = 7 * cap ∧
        ∀ k, k < 7 * start → ablk'.slots[k]? = ablk0.slots[k]?) ∧
      (∀ j (h : j < (Econf.mergeExisting us es).length), EntMem m' fa (7 * (start + j)) ((Econf.mergeExisting us es)[j]) [bk, bl']) ∧
      (∀ b, b < m.length → b ∉ [bk, bl0, fa] → m'[b]? = m[b]?) ∧ m.length ≤ m'.length ∧
      (bl' = bl0 ∨ m.length ≤ bl') ∧ (∀ kb blk, m[bk]? = some kb → m'[bk]? = some blk → KfKeep kb blk) ∧ (gl' ≠ [] → bk ≠ bl') ∧ (∀ x, x ∈ gl' → x.1 ≠ bk ∧ x.1 ≠ bl') ∧
      gl'.length ≤ gl0.length + (Econf.mergeExisting us es).length := by
  have hss := C.ssmall
  have wS : wrapTo .u64 (start : Int) = (start : Int) := wrapTo_u64_small _ (by omega) (by omega)
  have w0 : wrapTo .u64 0 = 0 := wrapTo_u64_small 0 (by decide) (by decide)
  rw [merge_existing_groups_shape]
  have hinit : exec fuel (.expr (.assign (.var 5) (.load (.var 4) .u64) .u64))
      { mem := m, loc := [.ptr bk 0, .ptr cell 0, .ptr bu 0, .ptr be 0, .int (start : Int)] ++ List.replicate 10 .undef } =
      .normal { mem := m, loc := moLoc bk cell bu be start start 0 .undef .undef .undef .undef .undef .undef .undef .undef |>.set 6 .undef } := by
    simp [exec, evalE, evalL, readPlace, writePlace, convert, wS, bind, Except.bind, moLoc]
  rw [exec_seq_normal hinit]
  have htl : testOf (some (.land (.load (.var 2) .ptr) (.load (.var 3) .ptr)))
      { mem := m, loc := moLoc bk cell bu be start start 0 .undef .undef .undef .undef .undef .undef .undef .undef |>.set 6 .undef } =
      .ok (true, { mem := m, loc := moLoc bk cell bu be start start 0 .undef .undef .undef .undef .undef .undef .undef .undef |>.set 6 .undef }) := by
    simp [testOf, evalE, evalL, readPlace, truth, boolVal, bind, Except.bind, Except.map, moLoc]
  have hi6 : exec fuel (.expr (.assign (.var 6) (.cast .u64 (.lit 0 .i32)) .u64))
      { mem := m, loc := moLoc bk cell bu be start start 0 .undef .undef .undef .undef .undef .undef .undef .undef |>.set 6 .undef } =
      .normal { mem := m, loc := moLoc bk cell bu be start start 0 .undef .undef .undef .undef .undef .undef .undef .undef } := by
    simp [exec, evalE, evalL, writePlace, convert, w0, bind, Except.bind, moLoc]
  have hsel0 : meUpTo us es 0 = [] := by simp [meUpTo]
  have hinv0 : MoInv m bk bl0 fa cell bu be us es (gl0.map (·.2)) gl0.length cap start ablk0 0
      { mem := m, loc := moLoc bk cell bu be start start 0 .undef .undef .undef .undef .undef .undef .undef .undef } := by
    refine ⟨⟨.undef, .undef, .undef, .undef, .undef, .undef, .undef, .undef, by rw [hsel0]; simp⟩, ?_⟩
    rw [hsel0]
    exact ⟨fun b _ _ => rfl, Nat.le_refl _, ⟨bl0, gl0, hG, Or.inl rfl, KfKeep.same hkw rfl, hne, hd, by simp, by simp, by simp⟩, ⟨ablk0, ha1, ha2, ha3, ha4, ha5, fun k _ => rfl⟩⟩
  obtain ⟨R, hloop, ⟨v7, v8, v9, v10, v11, v12, v13, v14, hlocR⟩, hAR⟩ := loop_inv _ _ _
    (fun st => MoInv m bk bl0 fa cell bu be us es (gl0.map (·.2)) gl0.length cap start ablk0 us.length st) us.length
    (fun i st => MoInv m bk bl0 fa cell bu be us es (gl0.map (·.2)) gl0.length cap start ablk0 i st)
    (fun i st hi hinv => mo_round C fuel hf i hi st hinv)
    (fun st hinv => by
      obtain ⟨⟨x7, x8, x9, x10, x11, x12, x13, x14, hloc⟩, hA⟩ := hinv
      obtain ⟨mm, loc⟩ := st
      simp only at hloc hA; subst hloc
      have hU : SrcMem mm bu bua us [bk, bl0, fa] := C.usr.mono hA.agree
      have htest := kf_test 2 6 mm (moLoc bk cell bu be start (start + (meUpTo us es us.length).length) us.length x7 x8 x9 x10 x11 x12 x13 x14) bu bua us _ us.length hU rfl rfl
      simp only [Nat.lt_irrefl, decide_false] at htest
      exact ⟨_, htest, ⟨⟨x7, x8, x9, x10, x11, x12, x13, x14, rfl⟩, hA⟩⟩)
    _ fuel hinv0 (by omega)
  obtain ⟨memR, locR⟩ := R
  simp only at hlocR hAR; subst hlocR
  have hloop' : exec fuel (.for (some moTest) (some (.incdec (.var 6) true true .u64)) meRound)
      { mem := m, loc := moLoc bk cell bu be start start 0 .undef .undef .undef .undef .undef .undef .undef .undef } =
      .normal { mem := memR, loc := moLoc bk cell bu be start (start + (meUpTo us es us.length).length) us.length v7 v8 v9 v10 v11 v12 v13 v14 } := by
    rw [exec_for]; exact hloop
  have hmain : exec fuel (.ite (.land (.load (.var 2) .ptr) (.load (.var 3) .ptr))
      (.seq (.expr (.assign (.var 6) (.cast .u64 (.lit 0 .i32)) .u64))
        (.for (some (.bin .lt (.load (.var 6) .u64) (.load (.slot (.load (.var 2) .ptr) 1) .u64) .i32)) (some (.incdec (.var 6) true true .u64)) meRound)) .skip)
      { mem := m, loc := moLoc bk cell bu be start start 0 .undef .undef .undef .undef .undef .undef .undef .undef |>.set 6 .undef } =
      .normal { mem := memR, loc := moLoc bk cell bu be start (start + (meUpTo us es us.length).length) us.length v7 v8 v9 v10 v11 v12 v13 v14 } := by
    rw [exec_ite_true htl, exec_seq_normal hi6]; exact hloop'
  rw [exec_seq_normal hmain]
  have hmod := meUpTo_model us es
  rw [hmod] at hAR
  obtain ⟨bl', gl', d1, d2, d3, d4, d5, d6, d7, d8⟩ := hAR.dest
  have hcpy : ∀ j (h : j < (Econf.mergeExisting us es).length), Econf.cpyEntry ((Econf.mergeExisting us es)[j]) = (Econf.mergeExisting us es)[j] := by
    intro j h
    have := cpy_meUpTo us es us.length
    rw [hmod] at this
    have h2 := congrArg (fun l => l[j]?) this
    simpa [h] using h2
  refine ⟨memR, moLoc bk cell bu be start (start + (meUpTo us es us.length).length) us.length v7 v8 v9 v10 v11 v12 v13 v14, bl', gl',
    by simp [exec, evalE, evalL, readPlace, bind, Except.bind, hmod], d1, d7, hAR.arr, fun j hj => ?_, hAR.agree, hAR.grows, d2, d3, d4, d5, d6⟩
  rw [← hcpy j hj]; exact d8 j hj

/-- an object described in an old memory is still there, with another avoid list, in a memory that agrees with the old one on the
    blocks that were not to be avoided -/
theorem SrcMem.transfer {m0 m : Mem} {bo ba : Nat} {es : List Econf.Entry} {av0 av : List Nat} (h : SrcMem m0 bo ba es av0)
    (hm : ∀ b, b < m0.length → b ∉ av0 → m[b]? = m0[b]?) (hav : ∀ b, b < m0.length → b ∉ av0 → b ∉ av) : SrcMem m bo ba es av := by
  obtain ⟨kb, k1, k2, k3, k4⟩ := h.kf
  obtain ⟨ab, a1, a2, a3⟩ := h.arr
  have hbo : bo < m0.length := (List.getElem?_eq_some_iff.1 k1).1
  have hba : ba < m0.length := (List.getElem?_eq_some_iff.1 a1).1
  exact ⟨⟨kb, by rw [hm bo hbo h.kfav]; exact k1, k2, k3, k4⟩, hav bo hbo h.kfav, ⟨ab, by rw [hm ba hba h.arrav]; exact a1, a2, a3⟩, hav ba hba h.arrav,
    fun i hi => (h.ents i hi).transfer hm hav⟩

/-- an element of the array stays what it is over a later step that keeps its words and every older block outside the destination's two
    and the array (which may move to `fa'`) -/
theorem EntMem.carry {m m' : Mem} {fa fa' os bk bl bl' : Nat} {e : Econf.Entry} {ablk ablk' : Block} (skip : List Nat)
    (h : EntMem m fa os e [bk, bl]) (ha : m[fa]? = some ablk) (hac : ablk.cells = []) (ha' : m'[fa']? = some ablk') (hl' : ablk'.live = true)
    (hw : ∀ k, k < 7 → ablk'.slots[os + k]? = ablk.slots[os + k]?)
    (hfr : ∀ b, b < m.length → b ≠ bk → b ≠ bl → b ≠ fa → b ∉ skip → m'[b]? = m[b]?)
    (hskip : ∀ b, b ∈ skip → ∀ str, m.cstr b 0 ≠ .ok str)
    (hbl : bl' = bl ∨ m.length ≤ bl') (hfa : fa' ≠ bk ∧ fa' ≠ bl') : EntMem m' fa' os e [bk, bl'] := by
  have hp := h.ptr_str
  refine h.reblock' ha ha' hl' hw (fun k hk b hl => ?_) (fun k hk b hl => ?_) (by simp; exact hfa)
  · obtain ⟨⟨str, hc⟩, hav⟩ := hp k hk b hl
    simp only [List.mem_cons, List.not_mem_nil, or_false, not_or] at hav
    exact hfr b (cstr_lt hc) hav.1 hav.2 (fun hh => no_cstr ha hac str (hh ▸ hc)) (fun hs => hskip b hs str hc)
  · obtain ⟨⟨str, hc⟩, hav⟩ := hp k hk b hl
    simp only [List.mem_cons, List.not_mem_nil, or_false, not_or] at hav ⊢
    refine ⟨hav.1, ?_⟩
    rcases hbl with e | e
    · rw [e]; exact hav.2
    · have := cstr_lt hc; omega

theorem addGroup_idem' (gs : List (List UInt8)) (g : List UInt8) : Econf.addGroup (Econf.addGroup gs g) g = Econf.addGroup gs g := addGroup_idem gs g

/-- the group-less entries add the group-less marker once -/
theorem foldl_addGroup_none (names : List (List UInt8)) (l : List Econf.Entry) (hl : ∀ e, e ∈ l → e.group = Econf.NONE) :
    (l.map (·.group)).foldl Econf.addGroup names = (if l.length = 0 then names else Econf.addGroup names Econf.NONE) := by
  induction l generalizing names with
  | nil => simp
  | cons e l ih =>
    have he := hl e (by simp)
    rw [List.map_cons, List.foldl_cons, he, ih (Econf.addGroup names Econf.NONE) (fun x hx => hl x (by simp [hx]))]
    by_cases h0 : l.length = 0
    · simp [h0]
    · simp [h0, addGroup_idem]

theorem insertNoGroup_groups (us es : List Econf.Entry) : ∀ e, e ∈ Econf.insertNoGroup us es → e.group = Econf.NONE := by
  intro e he
  unfold Econf.insertNoGroup at he
  split at he
  · simp at he
  · simp only [List.mem_map, List.mem_filter] at he
    obtain ⟨x, ⟨_, hx⟩, rfl⟩ := he
    simpa [Econf.cpyEntry] using hx

/-- **The three calls of `econf_mergeFiles` in sequence**, on the generated terms: from a destination `bk` with group list `gl0`, a fresh
    entry array of `cap` entries behind the cell `*fe`, a base `us` and an override `es` that live apart from them, the calls
    `insert_nogroup`, `merge_existing_groups(…, n1)`, `add_new_groups(…, n2)` return `n1`, `n2`, `n3` with `n3` the length of the model's
    `mergeEntries us es`, the array `*fe` points to afterwards holds exactly `mergeEntries us es`, the destination's group list is the old one
    with the groups of these entries added in order of first use, and every other block of the caller is unchanged. -/
theorem C_merge3 (m : Mem) (bk bl0 fa cell bu bua be bea : Nat) (us es : List Econf.Entry) (gl0 : List (Nat × List UInt8)) (cap : Nat)
    (hUs : SrcMem m bu bua us [bk, bl0, fa]) (hEs : SrcMem m be bea es [bk, bl0, fa])
    (cblk : Block) (hc1 : m[cell]? = some cblk) (hc2 : cblk.live = true) (hc3 : cblk.slots[0]? = some (.ptr fa 0)) (hc4 : cblk.writable = true) (hc5 : cblk.cells = [])
    (hcav : cell ∉ [bk, bl0, fa]) (hfane : fa ≠ bk ∧ fa ≠ bl0)
    (hG : GlMem m bk bl0 gl0) (hkw : ∀ blk, m[bk]? = some blk → blk.writable = true) (hne : gl0 ≠ [] → bk ≠ bl0) (hd : ∀ x, x ∈ gl0 → x.1 ≠ bk ∧ x.1 ≠ bl0)
    (ablk0 : Block) (ha1 : m[fa]? = some ablk0) (ha2 : ablk0.live = true) (ha3 : ablk0.writable = true) (ha4 : ablk0.cells = []) (ha5 : ablk0.slots.length = 7 * cap)
    (hcap : (Econf.mergeEntries us es).length ≤ cap) (hcap2 : es.length ≤ cap)
    (hsmall : (gl0.length : Int) + (Econf.mergeEntries us es).length + es.length + 2 < 2147483648)
    (husmall : (us.length : Int) + 1 < 18446744073709551616) (hesmall : (es.length : Int) + 1 < 18446744073709551616)
    (hcsmall : (7 * cap : Int) < 18446744073709551616)
    (hlines : ∀ e ∈ es, (e.line : Int) < 18446744073709551616) (hulines : ∀ e ∈ us, (e.line : Int) < 18446744073709551616)
    (fuel : Nat) (hf : gl0.length + (Econf.mergeEntries us es).length + es.length + us.length + 4 < fuel) :
    ∃ m1 m2 m3 loc1 loc2 loc3 bl' gl' fa',
      exec fuel LeafFns.insert_nogroup.body { mem := m, loc := [.ptr bk 0, .ptr cell 0, .ptr bu 0, .ptr be 0, .undef, .undef, .undef, .undef, .undef] } =
        .ret (.int ((Econf.insertNoGroup us es).length : Int)) { mem := m1, loc := loc1 } ∧
      exec fuel LeafFns.merge_existing_groups.body
        { mem := m1, loc := [.ptr bk 0, .ptr cell 0, .ptr bu 0, .ptr be 0, .int ((Econf.insertNoGroup us es).length : Int)] ++ List.replicate 10 .undef } =
        .ret (.int (((Econf.insertNoGroup us es).length + (Econf.mergeExisting us es).length : Nat) : Int)) { mem := m2, loc := loc2 } ∧
      exec fuel LeafFns.add_new_groups.body
        { mem := m2, loc := [.ptr bk 0, .ptr cell 0, .ptr bu 0, .ptr be 0, .int (((Econf.insertNoGroup us es).length + (Econf.mergeExisting us es).length : Nat) : Int),
          .undef, .undef, .undef, .undef, .undef] } =
        .ret (.int ((Econf.mergeEntries us es).length : Int)) { mem := m3, loc := loc3 } ∧
      GlMem m3 bk bl' gl' ∧
      gl'.map (·.2) = ((Econf.mergeEntries us es).map (·.group)).foldl Econf.addGroup (gl0.map (·.2)) ∧
      (∃ cblk', m3[cell]? = some cblk' ∧ cblk'.live = true ∧ cblk'.slots[0]? = some (.ptr fa' 0)) ∧
      (∀ j (h : j < (Econf.mergeEntries us es).length), EntMem m3 fa' (7 * j) ((Econf.mergeEntries us es)[j]) [bk, bl']) ∧
      (∀ b, b < m.length → b ∉ [bk, bl0, fa, cell] → m3[b]? = m[b]?) ∧
      (∀ kb blk, m[bk]? = some kb → m3[bk]? = some blk → KfKeep kb blk) ∧
      (gl' ≠ [] → bk ≠ bl') ∧ (∀ x, x ∈ gl' → x.1 ≠ bk ∧ x.1 ≠ bl') ∧
      (∀ b, b < m.length → b ∉ [bk, bl0, fa] → m1[b]? = m[b]?) ∧ (∀ b, b < m.length → b ∉ [bk, bl0, fa] → m2[b]? = m[b]?) := by
  have hfalt : fa < m.length := (List.getElem?_eq_some_iff.1 ha1).1
  have hclt : cell < m.length := (List.getElem?_eq_some_iff.1 hc1).1
  have hbklt : bk < m.length := hG.bk_lt
  have hbllt : bl0 < m.length := hG.bl_lt
  have hcav' := hcav
  simp only [List.mem_cons, List.not_mem_nil, or_false, not_or] at hcav'
  have hE123 : (Econf.mergeEntries us es).length = (Econf.insertNoGroup us es).length + (Econf.mergeExisting us es).length + (Econf.addNewGroups us es).length := by
    simp [Econf.mergeEntries]; omega
  -- the first call
  have hng := ngSel_model us es
  have hn1 : (ngSel us es).length = (Econf.insertNoGroup us es).length := by rw [← hng]; simp
  obtain ⟨m1, loc1, bl1, gl1, hex1, hG1, hnm1, hE1, hfr1, hlen1, hbl1, hkw1, hne1, hd1, hgl1, ⟨ablk1, b1, b2, b3, b4, b5⟩⟩ :=
    insert_nogroup_exec m bk bl0 fa cell bu bua be bea us es gl0 cap hUs.toKf husmall
      ⟨hEs, ⟨cblk, hc1, hc2, hc3⟩, hcav, hfalt, hbklt, hbllt, hfane, hcap2, by omega, hlines⟩ hG hkw hne hd ablk0 ha1 ha2 ha3 ha4 ha5 fuel (by omega)
  have hgrow1 : m.length ≤ m1.length := hlen1
  obtain ⟨kb0, hkb0, _⟩ := hG.obj
  obtain ⟨kb1, hkb1, _⟩ := hG1.obj
  have hbl1lt : bl1 < m1.length := hG1.bl_lt
  have hbl1ne : ∀ b, b < m.length → b ≠ bl0 → b ≠ bl1 := by
    intro b hb hne'
    rcases hbl1 with e | e
    · rw [e]; exact hne'
    · omega
  have hav01 : ∀ b, b < m.length → b ∉ [bk, bl0, fa] → b ∉ [bk, bl1, fa] := by
    intro b hb hav
    simp only [List.mem_cons, List.not_mem_nil, or_false, not_or] at hav ⊢
    exact ⟨hav.1, hbl1ne b hb hav.2.1, hav.2.2⟩
  have hc1' : m1[cell]? = some cblk := by rw [hfr1 cell hclt hcav]; exact hc1
  -- the second call
  have hEsum : (Econf.insertNoGroup us es).length + (Econf.mergeExisting us es).length ≤ (Econf.mergeEntries us es).length := by omega
  have hctx2 : MeCtx m1 bk bl1 fa cell bu bua be bea us es gl1.length cap (Econf.insertNoGroup us es).length :=
    ⟨⟨⟨cblk, hc1', hc2, hc3⟩, hav01 cell hclt hcav, by omega, by omega, hbl1lt, ⟨hfane.1, hbl1ne fa hfalt hfane.2⟩⟩,
      hEs.transfer hfr1 hav01, hUs.transfer hfr1 hav01, by omega, by omega, husmall, hesmall, by omega, hlines, hulines⟩
  obtain ⟨m2, loc2, bl2, gl2, hex2, hG2, hnm2, ⟨ablk2, c1, c2, c3, c4, c5, c6⟩, hE2, hfr2, hlen2, hbl2, hkw2, hne2, hd2, hgl2⟩ :=
    C_merge_existing_groups m1 bk bl1 fa cell bu bua be bea us es gl1 cap (Econf.insertNoGroup us es).length hctx2 hG1 (fun blk hb => (hkw1 kb0 blk hkb0 hb).1) hne1 hd1
      ablk1 b1 b2 b3 b4 b5 fuel (by omega)
  have hgrow2 : m1.length ≤ m2.length := hlen2
  obtain ⟨kb2, hkb2, _⟩ := hG2.obj
  have hbl2lt : bl2 < m2.length := hG2.bl_lt
  have hbl2ne : ∀ b, b < m1.length → b ≠ bl1 → b ≠ bl2 := by
    intro b hb hne'
    rcases hbl2 with e | e
    · rw [e]; exact hne'
    · omega
  have hfr02 : ∀ b, b < m.length → b ∉ [bk, bl0, fa] → m2[b]? = m[b]? := fun b hb hav => by
    rw [hfr2 b (by omega) (hav01 b hb hav)]; exact hfr1 b hb hav
  have hav02 : ∀ b, b < m.length → b ∉ [bk, bl0, fa] → b ∉ [bk, bl2, fa] := by
    intro b hb hav
    have h1 := hav01 b hb hav
    simp only [List.mem_cons, List.not_mem_nil, or_false, not_or] at h1 ⊢
    exact ⟨h1.1, hbl2ne b (by omega) h1.2.1, h1.2.2⟩
  have hc2' : m2[cell]? = some cblk := by rw [hfr02 cell hclt hcav]; exact hc1
  -- the third call
  have hag := agSel_model us es
  have hn3 : (selBy (agP us) es es.length).length = (Econf.addNewGroups us es).length := by rw [← hag]; simp
  have hctx3 : AgCtx m2 bk bl2 fa cell bu bua be bea us es gl2.length cap ((Econf.insertNoGroup us es).length + (Econf.mergeExisting us es).length) :=
    ⟨hEs.transfer hfr02 hav02, hUs.transfer hfr02 hav02, ⟨cblk, hc2', hc2, hc3⟩, hav02 cell hclt hcav, by omega, by omega, hbl2lt,
      ⟨hfane.1, hbl2ne fa (by omega) (hbl1ne fa hfalt hfane.2)⟩, by omega, by omega, husmall, by omega, hcsmall, hlines⟩
  obtain ⟨m3, loc3, bl3, gl3, fa', hex3, hG3, hnm3, hcell3, ⟨ablk3, e1, e2, e6⟩, hE3, hfr3, hlen3, hbl3, hfa3a, hfa3b, hkw3, hne3, hd3⟩ :=
    C_add_new_groups m2 bk bl2 fa cell bu bua be bea us es gl2 cap ((Econf.insertNoGroup us es).length + (Econf.mergeExisting us es).length) hctx3
      (fun cb hcb => by rw [hc2'] at hcb; injection hcb with hcb; subst hcb; exact ⟨hc4, hc5⟩) hG2 (fun blk hb => (hkw2 kb1 blk hkb1 hb).1) hne2 hd2 ablk2 c1 c2 c3 c4 c5 fuel (by omega)
  have hfa3 : fa' ≠ bk ∧ fa' ≠ bl3 := ⟨hfa3a, hfa3b⟩
  have hcellno2 : ∀ b, b ∈ [cell] → ∀ str, m2.cstr b 0 ≠ .ok str := by
    intro b hb str
    simp only [List.mem_singleton] at hb
    subst hb
    exact no_cstr hc2' hc5 str
  have hfr3' : ∀ b, b < m2.length → b ≠ bk → b ≠ bl2 → b ≠ fa → b ∉ [cell] → m3[b]? = m2[b]? := fun b hb h1 h2 h3 h4 =>
    hfr3 b hb (by simp only [List.mem_cons, List.not_mem_nil, or_false, not_or] at h4 ⊢; exact ⟨h1, h2, h3, h4⟩)
  refine ⟨m1, m2, m3, loc1, loc2, loc3, bl3, gl3, fa', by rw [← hn1]; exact hex1, hex2, by rw [hE123]; exact hex3, hG3, ?_, hcell3, ?_, ?_,
    fun kb blk hk hb => ((hkw1 kb kb1 hk hkb1).trans (hkw2 kb1 kb2 hkb1 hkb2)).trans (hkw3 kb2 blk hkb2 hb), hne3, hd3, hfr1, hfr02⟩
  · -- the group list
    rw [hnm3, hnm2, hnm1, hn1, ← foldl_addGroup_none (gl0.map (·.2)) (Econf.insertNoGroup us es) (insertNoGroup_groups us es)]
    simp [Econf.mergeEntries, List.map_append, List.foldl_append]
  · intro j hj
    have hme : Econf.mergeEntries us es = Econf.insertNoGroup us es ++ Econf.mergeExisting us es ++ Econf.addNewGroups us es := rfl
    have hfa2 : fa ≠ bk ∧ fa ≠ bl2 := ⟨hfane.1, hbl2ne fa (by omega) (hbl1ne fa hfalt hfane.2)⟩
    have carry12 : ∀ (os : Nat) (e : Econf.Entry), os + 7 ≤ 7 * (Econf.insertNoGroup us es).length → EntMem m1 fa os e [bk, bl1] → EntMem m2 fa os e [bk, bl2] := by
      intro os e hos h1e
      exact h1e.carry [] b1 b4 c1 c2 (fun k hk => c6 (os + k) (by omega))
        (fun b hb h1 h2 h3 _ => hfr2 b hb (by simp only [List.mem_cons, List.not_mem_nil, or_false, not_or]; exact ⟨h1, h2, h3⟩)) (by simp) hbl2 hfa2
    have carry23 : ∀ (os : Nat) (e : Econf.Entry), os + 7 ≤ 7 * ((Econf.insertNoGroup us es).length + (Econf.mergeExisting us es).length) → EntMem m2 fa os e [bk, bl2] → EntMem m3 fa' os e [bk, bl3] := by
      intro os e hos h2e
      exact h2e.carry [cell] c1 c4 e1 e2 (fun k hk => e6 (os + k) (by omega)) hfr3' hcellno2 hbl3 hfa3
    by_cases hj1 : j < (Econf.insertNoGroup us es).length
    · -- inserted by the first call
      have hel : (Econf.mergeEntries us es)[j] = (Econf.insertNoGroup us es)[j] := by
        simp only [hme]
        rw [List.getElem_append_left (by simp; omega), List.getElem_append_left hj1]
      have hcp : (Econf.insertNoGroup us es)[j] = Econf.cpyEntry ((ngSel us es)[j]'(by omega)) := by simp [← hng]
      rw [hel, hcp]
      exact carry23 (7 * j) _ (by omega) (carry12 (7 * j) _ (by omega) (hE1 j (by omega)))
    · by_cases hj2 : j < (Econf.insertNoGroup us es).length + (Econf.mergeExisting us es).length
      · -- written by the second call
        have hel : (Econf.mergeEntries us es)[j] = (Econf.mergeExisting us es)[j - (Econf.insertNoGroup us es).length]'(by omega) := by
          simp only [hme]
          rw [List.getElem_append_left (by simp; omega), List.getElem_append_right (by omega)]
        rw [hel]
        have h2e := hE2 (j - (Econf.insertNoGroup us es).length) (by omega)
        have hidx : (Econf.insertNoGroup us es).length + (j - (Econf.insertNoGroup us es).length) = j := by omega
        rw [hidx] at h2e
        exact carry23 (7 * j) _ (by omega) h2e
      · -- appended by the third call
        have hel : (Econf.mergeEntries us es)[j] = (Econf.addNewGroups us es)[j - ((Econf.insertNoGroup us es).length + (Econf.mergeExisting us es).length)]'(by omega) := by
          simp only [hme]
          rw [List.getElem_append_right (by simp; omega)]
          simp
        rw [hel]
        have h3e := hE3 (j - ((Econf.insertNoGroup us es).length + (Econf.mergeExisting us es).length)) (by omega)
        have hidx : (Econf.insertNoGroup us es).length + (Econf.mergeExisting us es).length + (j - ((Econf.insertNoGroup us es).length + (Econf.mergeExisting us es).length)) = j := by omega
        rw [hidx] at h3e
        exact h3e
  · intro b hb hav
    simp only [List.mem_cons, List.not_mem_nil, or_false, not_or] at hav
    have h0 : b ∉ [bk, bl0, fa] := by simp only [List.mem_cons, List.not_mem_nil, or_false, not_or]; exact ⟨hav.1, hav.2.1, hav.2.2.1⟩
    have h2 := hav02 b hb h0
    simp only [List.mem_cons, List.not_mem_nil, or_false, not_or] at h2
    rw [hfr3 b (by omega) (by simp only [List.mem_cons, List.not_mem_nil, or_false, not_or]; exact ⟨h2.1, h2.2.1, h2.2.2, hav.2.2.2⟩)]
    exact hfr02 b hb h0

/-- … with an empty group list and the array `econf_mergeFiles` allocates (`etc->length + usr->length` entries, enough by the list-level bound
    `C03_bound`).  Array and group list are then the `entries` and `groups` of the model's `mergeFiles`.
    (`GlMem m bk bl0 []` holds for an object with an allocated array of one terminating slot and, with `bl0 = bk`, for the object
    `econf_mergeFiles` has just made, whose `groups` is `NULL`: see `C_merge3_fresh`.) -/
theorem C_merge3_mergeFiles (m : Mem) (bk bl0 fa cell bu bua be bea : Nat) (us es : List Econf.Entry)
    (hUs : SrcMem m bu bua us [bk, bl0, fa]) (hEs : SrcMem m be bea es [bk, bl0, fa])
    (cblk : Block) (hc1 : m[cell]? = some cblk) (hc2 : cblk.live = true) (hc3 : cblk.slots[0]? = some (.ptr fa 0)) (hc4 : cblk.writable = true) (hc5 : cblk.cells = [])
    (hcav : cell ∉ [bk, bl0, fa]) (hfane : fa ≠ bk ∧ fa ≠ bl0)
    (hG : GlMem m bk bl0 []) (hkw : ∀ blk, m[bk]? = some blk → blk.writable = true)
    (ablk0 : Block) (ha1 : m[fa]? = some ablk0) (ha2 : ablk0.live = true) (ha3 : ablk0.writable = true) (ha4 : ablk0.cells = [])
    (ha5 : ablk0.slots.length = 7 * (es.length + us.length))
    (hsmall : (us.length : Int) + 2 * es.length + 2 < 2147483648)
    (hlines : ∀ e ∈ es, (e.line : Int) < 18446744073709551616) (hulines : ∀ e ∈ us, (e.line : Int) < 18446744073709551616)
    (fuel : Nat) (hf : 2 * es.length + 2 * us.length + 4 < fuel) :
    ∃ m1 m2 m3 loc1 loc2 loc3 bl' gl' fa' n1 n2,
      exec fuel LeafFns.insert_nogroup.body { mem := m, loc := [.ptr bk 0, .ptr cell 0, .ptr bu 0, .ptr be 0, .undef, .undef, .undef, .undef, .undef] } =
        .ret (.int (n1 : Int)) { mem := m1, loc := loc1 } ∧
      exec fuel LeafFns.merge_existing_groups.body { mem := m1, loc := [.ptr bk 0, .ptr cell 0, .ptr bu 0, .ptr be 0, .int (n1 : Int)] ++ List.replicate 10 .undef } =
        .ret (.int (n2 : Int)) { mem := m2, loc := loc2 } ∧
      exec fuel LeafFns.add_new_groups.body { mem := m2, loc := [.ptr bk 0, .ptr cell 0, .ptr bu 0, .ptr be 0, .int (n2 : Int), .undef, .undef, .undef, .undef, .undef] } =
        .ret (.int ((Econf.mergeEntries us es).length : Int)) { mem := m3, loc := loc3 } ∧
      GlMem m3 bk bl' gl' ∧ gl'.map (·.2) = Econf.groupsOf (Econf.mergeEntries us es) ∧
      (∃ cblk', m3[cell]? = some cblk' ∧ cblk'.live = true ∧ cblk'.slots[0]? = some (.ptr fa' 0)) ∧
      (∀ j (h : j < (Econf.mergeEntries us es).length), EntMem m3 fa' (7 * j) ((Econf.mergeEntries us es)[j]) [bk, bl']) ∧
      (∀ b, b < m.length → b ∉ [bk, bl0, fa, cell] → m3[b]? = m[b]?) ∧
      n1 = (Econf.insertNoGroup us es).length ∧ n2 = n1 + (Econf.mergeExisting us es).length ∧
      (∀ kb blk, m[bk]? = some kb → m3[bk]? = some blk → KfKeep kb blk) ∧
      (gl' ≠ [] → bk ≠ bl') ∧ (∀ x, x ∈ gl' → x.1 ≠ bk ∧ x.1 ≠ bl') ∧
      (∀ b, b < m.length → b ∉ [bk, bl0, fa] → m1[b]? = m[b]?) ∧ (∀ b, b < m.length → b ∉ [bk, bl0, fa] → m2[b]? = m[b]?) := by
  have hb := Econf.C03_bound us es
  obtain ⟨m1, m2, m3, loc1, loc2, loc3, bl', gl', fa', h1, h2, h3, hG3, hn, hc, hE, hfr, hkeep, hne3, hd3, hfr1, hfr2⟩ :=
    C_merge3 m bk bl0 fa cell bu bua be bea us es [] (es.length + us.length) hUs hEs cblk hc1 hc2 hc3 hc4 hc5 hcav hfane hG hkw (fun h => absurd rfl h) (by simp)
      ablk0 ha1 ha2 ha3 ha4 ha5 (by omega) (by omega) (by simp; omega) (by omega) (by omega) (by omega) hlines hulines fuel (by simp; omega)
  refine ⟨m1, m2, m3, loc1, loc2, loc3, bl', gl', fa', _, _, h1, h2, h3, hG3, ?_, hc, hE, hfr, rfl, rfl, hkeep, hne3, hd3, hfr1, hfr2⟩
  rw [hn]
  simp [Econf.groupsOf, List.foldl_map]

/-- **The three calls on the object `econf_mergeFiles` has just made** (`calloc`: `groups == NULL`, `group_count == 0`): the first
    `setGroupList` allocates the group array through `realloc(NULL, …)`.  No group array is among the hypotheses: the base and the override
    live apart from the object `bk` and the new entry array `fa`, the cell `*fe` is neither of them; afterwards every block of the caller
    other than `bk`, `fa` and the cell is unchanged. -/
theorem C_merge3_fresh (m : Mem) (bk fa cell bu bua be bea : Nat) (us es : List Econf.Entry)
    (hUs : SrcMem m bu bua us [bk, fa]) (hEs : SrcMem m be bea es [bk, fa])
    (cblk : Block) (hc1 : m[cell]? = some cblk) (hc2 : cblk.live = true) (hc3 : cblk.slots[0]? = some (.ptr fa 0)) (hc4 : cblk.writable = true) (hc5 : cblk.cells = [])
    (hcav : cell ∉ [bk, fa]) (hfane : fa ≠ bk)
    (hG : GlNull m bk) (hkw : ∀ blk, m[bk]? = some blk → blk.writable = true)
    (ablk0 : Block) (ha1 : m[fa]? = some ablk0) (ha2 : ablk0.live = true) (ha3 : ablk0.writable = true) (ha4 : ablk0.cells = [])
    (ha5 : ablk0.slots.length = 7 * (es.length + us.length))
    (hsmall : (us.length : Int) + 2 * es.length + 2 < 2147483648)
    (hlines : ∀ e ∈ es, (e.line : Int) < 18446744073709551616) (hulines : ∀ e ∈ us, (e.line : Int) < 18446744073709551616)
    (fuel : Nat) (hf : 2 * es.length + 2 * us.length + 4 < fuel) :
    ∃ m1 m2 m3 loc1 loc2 loc3 bl' gl' fa' n1 n2,
      exec fuel LeafFns.insert_nogroup.body { mem := m, loc := [.ptr bk 0, .ptr cell 0, .ptr bu 0, .ptr be 0, .undef, .undef, .undef, .undef, .undef] } =
        .ret (.int (n1 : Int)) { mem := m1, loc := loc1 } ∧
      exec fuel LeafFns.merge_existing_groups.body { mem := m1, loc := [.ptr bk 0, .ptr cell 0, .ptr bu 0, .ptr be 0, .int (n1 : Int)] ++ List.replicate 10 .undef } =
        .ret (.int (n2 : Int)) { mem := m2, loc := loc2 } ∧
      exec fuel LeafFns.add_new_groups.body { mem := m2, loc := [.ptr bk 0, .ptr cell 0, .ptr bu 0, .ptr be 0, .int (n2 : Int), .undef, .undef, .undef, .undef, .undef] } =
        .ret (.int ((Econf.mergeEntries us es).length : Int)) { mem := m3, loc := loc3 } ∧
      GlMem m3 bk bl' gl' ∧ gl'.map (·.2) = Econf.groupsOf (Econf.mergeEntries us es) ∧
      (∃ cblk', m3[cell]? = some cblk' ∧ cblk'.live = true ∧ cblk'.slots[0]? = some (.ptr fa' 0)) ∧
      (∀ j (h : j < (Econf.mergeEntries us es).length), EntMem m3 fa' (7 * j) ((Econf.mergeEntries us es)[j]) [bk, bl']) ∧
      (∀ b, b < m.length → b ∉ [bk, fa, cell] → m3[b]? = m[b]?) ∧
      n1 = (Econf.insertNoGroup us es).length ∧ n2 = n1 + (Econf.mergeExisting us es).length ∧
      (∀ kb blk, m[bk]? = some kb → m3[bk]? = some blk → KfKeep kb blk) ∧
      (gl' ≠ [] → bk ≠ bl') ∧ (∀ x, x ∈ gl' → x.1 ≠ bk ∧ x.1 ≠ bl') ∧
      (∀ b, b < m.length → b ∉ [bk, fa] → m1[b]? = m[b]?) ∧ (∀ b, b < m.length → b ∉ [bk, fa] → m2[b]? = m[b]?) := by
  have hav : ∀ b, b < m.length → b ∉ [bk, fa] → b ∉ [bk, bk, fa] := by
    intro b _ h
    simp only [List.mem_cons, List.not_mem_nil, or_false, not_or] at h ⊢
    exact ⟨h.1, h.1, h.2⟩
  have hcav' : cell ∉ [bk, bk, fa] := by
    simp only [List.mem_cons, List.not_mem_nil, or_false, not_or] at hcav ⊢
    exact ⟨hcav.1, hcav.1, hcav.2⟩
  obtain ⟨m1, m2, m3, loc1, loc2, loc3, bl', gl', fa', n1, n2, h1, h2, h3, hG3, hn, hc, hE, hfr, hn1, hn2, hkeep, hne3, hd3, hfr1, hfr2⟩ :=
    C_merge3_mergeFiles m bk bk fa cell bu bua be bea us es (hUs.transfer (fun _ _ _ => rfl) hav) (hEs.transfer (fun _ _ _ => rfl) hav)
      cblk hc1 hc2 hc3 hc4 hc5 hcav' ⟨hfane, hfane⟩ hG.toGlMem hkw ablk0 ha1 ha2 ha3 ha4 ha5 hsmall hlines hulines fuel hf
  refine ⟨m1, m2, m3, loc1, loc2, loc3, bl', gl', fa', n1, n2, h1, h2, h3, hG3, hn, hc, hE, fun b hb hav' => hfr b hb ?_, hn1, hn2, hkeep, hne3, hd3, fun b hb h => hfr1 b hb (hav b hb h), fun b hb h => hfr2 b hb (hav b hb h)⟩
  simp only [List.mem_cons, List.not_mem_nil, or_false, not_or] at hav' ⊢
  exact ⟨hav'.1, hav'.1, hav'.2.1, hav'.2.2⟩

end LeafKf

namespace LeafKf.Example

theorem model_merge : Econf.mergeEntries us es = [
    { group := Econf.NONE, key := [120], value := some [50], cb := none, ca := some [99], line := 2, quotes := false },
    { group := [65], key := [107], value := some [49], cb := none, ca := none, line := 1, quotes := false },
    { group := [66], key := [121], value := none, cb := none, ca := none, line := 5, quotes := false }] := by
  decide

/-- the three calls in sequence on the concrete memory of this section: every hypothesis of `C_merge3` is met, the array ends up with the
    model's three entries (the group-less one first, the base's entry, the entry of the new group) and the group list with their groups -/
theorem run_merge3 : ∃ m1 m2 m3 loc1 loc2 loc3 bl' gl' fa',
    exec 20 LeafFns.insert_nogroup.body { mem := mem, loc := [.ptr 0 0, .ptr 2 0, .ptr 4 0, .ptr 9 0, .undef, .undef, .undef, .undef, .undef] } =
      .ret (.int 1) { mem := m1, loc := loc1 } ∧
    exec 20 LeafFns.merge_existing_groups.body { mem := m1, loc := [.ptr 0 0, .ptr 2 0, .ptr 4 0, .ptr 9 0, .int 1] ++ List.replicate 10 .undef } =
      .ret (.int 2) { mem := m2, loc := loc2 } ∧
    exec 20 LeafFns.add_new_groups.body { mem := m2, loc := [.ptr 0 0, .ptr 2 0, .ptr 4 0, .ptr 9 0, .int 2, .undef, .undef, .undef, .undef, .undef] } =
      .ret (.int 3) { mem := m3, loc := loc3 } ∧
    GlMem m3 0 bl' gl' ∧ gl'.map (·.2) = [Econf.NONE, [65], [66]] ∧
    (∃ cblk', m3[2]? = some cblk' ∧ cblk'.live = true ∧ cblk'.slots[0]? = some (.ptr fa' 0)) ∧
    EntMem m3 fa' 7 { group := [65], key := [107], value := some [49], cb := none, ca := none, line := 1, quotes := false } [0, bl'] := by
  obtain ⟨m1, m2, m3, loc1, loc2, loc3, bl', gl', fa', h1, h2, h3, hG, hn, hc, hE, _⟩ :=
    C_merge3 mem 0 1 3 2 4 5 9 10 us es [] 3 base_full override_ok _ rfl rfl rfl rfl rfl (by decide) (by decide) dest_ok
      (fun blk hb => by cases hb; rfl) (by decide) (fun x hx => by cases hx) _ rfl rfl rfl rfl rfl
      (by rw [model_merge]; decide) (by decide) (by rw [model_merge]; decide) (by decide) (by decide) (by decide)
      (fun e he => by simp [es] at he; rcases he with rfl | rfl | rfl <;> decide)
      (fun e he => by simp [us] at he; subst he; decide) 20 (by rw [model_merge]; decide)
  have hi : (Econf.insertNoGroup us es).length = 1 := by decide
  have hm : (Econf.mergeExisting us es).length = 1 := by decide
  rw [hi] at h1 h2 h3
  rw [hm] at h2 h3
  rw [model_merge] at h3 hn hE
  refine ⟨m1, m2, m3, loc1, loc2, loc3, bl', gl', fa', h1, h2, h3, hG, ?_, hc, ?_⟩
  · rw [hn]; decide
  · simpa using hE 1 (by simp)

/-! The same caller's memory with the destination as `calloc` leaves it – `groups == NULL`, no group array (block 1 is dead) – and the
    entry array `econf_mergeFiles` allocates (`etc->length + usr->length` = 4 entries). -/

def memN : Mem :=
  { cells := [], slots := kfSlots .null 0 .null 0 } :: { cells := [], live := false } :: { cells := [], slots := [.ptr 3 0] } ::
    { cells := [], slots := List.replicate 28 .undef } :: mem.drop 4

theorem memN_other : ∀ b, b < mem.length → b ∉ [0, 1, 3] → memN[b]? = mem[b]? := by
  intro b _ hav
  match b with
  | 0 => simp at hav
  | 1 => simp at hav
  | 2 => rfl
  | 3 => simp at hav
  | k + 4 => rfl

theorem dest_null : GlNull memN 0 := ⟨_, rfl, rfl, rfl, rfl⟩

/-- every hypothesis of `C_merge3_fresh` is met by it, and the three calls (the first `setGroupList` goes through `realloc(NULL, …)`)
    leave the model's three entries and their three groups -/
theorem run_merge3_fresh : ∃ m1 m2 m3 loc1 loc2 loc3 bl' gl' fa',
    exec 20 LeafFns.insert_nogroup.body { mem := memN, loc := [.ptr 0 0, .ptr 2 0, .ptr 4 0, .ptr 9 0, .undef, .undef, .undef, .undef, .undef] } =
      .ret (.int 1) { mem := m1, loc := loc1 } ∧
    exec 20 LeafFns.merge_existing_groups.body { mem := m1, loc := [.ptr 0 0, .ptr 2 0, .ptr 4 0, .ptr 9 0, .int 1] ++ List.replicate 10 .undef } =
      .ret (.int 2) { mem := m2, loc := loc2 } ∧
    exec 20 LeafFns.add_new_groups.body { mem := m2, loc := [.ptr 0 0, .ptr 2 0, .ptr 4 0, .ptr 9 0, .int 2, .undef, .undef, .undef, .undef, .undef] } =
      .ret (.int 3) { mem := m3, loc := loc3 } ∧
    GlMem m3 0 bl' gl' ∧ gl'.map (·.2) = [Econf.NONE, [65], [66]] ∧
    (∃ cblk', m3[2]? = some cblk' ∧ cblk'.live = true ∧ cblk'.slots[0]? = some (.ptr fa' 0)) ∧
    EntMem m3 fa' 7 { group := [65], key := [107], value := some [49], cb := none, ca := none, line := 1, quotes := false } [0, bl'] := by
  have hav : ∀ b, b < mem.length → b ∉ [0, 1, 3] → b ∉ [0, 3] := by
    intro b _ h
    simp only [List.mem_cons, List.not_mem_nil, or_false, not_or] at h ⊢
    exact ⟨h.1, h.2.2⟩
  obtain ⟨m1, m2, m3, loc1, loc2, loc3, bl', gl', fa', n1, n2, h1, h2, h3, hG, hn, hc, hE, _, hn1, hn2, _⟩ :=
    C_merge3_fresh memN 0 3 2 4 5 9 10 us es (base_full.transfer memN_other hav) (override_ok.transfer memN_other hav)
      _ rfl rfl rfl rfl rfl (by decide) (by decide) dest_null (fun blk hb => by cases hb; rfl) _ rfl rfl rfl rfl rfl (by decide)
      (fun e he => by simp [es] at he; rcases he with rfl | rfl | rfl <;> decide)
      (fun e he => by simp [us] at he; subst he; decide) 20 (by decide)
  have hi : (Econf.insertNoGroup us es).length = 1 := by decide
  have hm : (Econf.mergeExisting us es).length = 1 := by decide
  rw [hi] at hn1; subst hn1
  rw [hm] at hn2; subst hn2
  rw [model_merge] at h3 hE
  have hg : Econf.groupsOf (Econf.mergeEntries us es) = [Econf.NONE, [65], [66]] := by rw [model_merge]; decide
  rw [hg] at hn
  exact ⟨m1, m2, m3, loc1, loc2, loc3, bl', gl', fa', h1, h2, h3, hG, hn, hc, by simpa using hE 1 (by simp)⟩

end LeafKf.Example
