import Econf.Props.LeafMergeEx
open MiniC Leaf LeafKf
set_option linter.unusedSimpArgs false
set_option linter.unusedVariables false
namespace LeafKf

/-- what one round of the outer loop of `merge_existing_groups` appends: the base entry with the override's value, and behind the
    last entry of a group the keys of that group which only the override defines -/
def meChunk (us es : List Econf.Entry) (i : Nat) : List Econf.Entry :=
  match us[i]? with
  | some u => Econf.overrideValue es u :: (if Econf.hasGroup (us.drop (i + 1)) u.group then [] else Econf.newKeysOf us es u.group)
  | none => []

def meUpTo (us es : List Econf.Entry) (i : Nat) : List Econf.Entry := (List.range i).flatMap (meChunk us es)

theorem meUpTo_succ (us es : List Econf.Entry) (i : Nat) : meUpTo us es (i + 1) = meUpTo us es i ++ meChunk us es i := by
  simp [meUpTo, List.range_succ, List.flatMap_append]

theorem meUpTo_rest (us es : List Econf.Entry) : ∀ i, i ≤ us.length →
    meUpTo us es i ++ Econf.mergeExistingAux us es (us.drop i) = Econf.mergeExisting us es := by
  intro i
  induction i with
  | zero => intro _; simp [meUpTo, Econf.mergeExisting]
  | succ i ih =>
    intro hi
    have hlt : i < us.length := by omega
    rw [← ih (by omega), meUpTo_succ, List.append_assoc]
    congr 1
    rw [List.drop_eq_getElem_cons hlt]
    simp [meChunk, hlt, Econf.mergeExistingAux]

theorem meUpTo_model (us es : List Econf.Entry) : meUpTo us es us.length = Econf.mergeExisting us es := by
  have := meUpTo_rest us es us.length (Nat.le_refl _)
  simpa [Econf.mergeExistingAux] using this

theorem cpy_overrideValue (es : List Econf.Entry) (u : Econf.Entry) : Econf.cpyEntry (Econf.overrideValue es u) = Econf.overrideValue es u := by
  unfold Econf.overrideValue
  split <;> simp [Econf.cpyEntry]

theorem cpy_newKeysOf (us es : List Econf.Entry) (g : List UInt8) : (Econf.newKeysOf us es g).map Econf.cpyEntry = Econf.newKeysOf us es g := by
  simp [Econf.newKeysOf, List.map_map, Function.comp_def, Econf.cpyEntry]

theorem cpy_meChunk (us es : List Econf.Entry) (i : Nat) : (meChunk us es i).map Econf.cpyEntry = meChunk us es i := by
  unfold meChunk
  split
  · split <;> simp only [List.map_cons, List.map_nil, cpy_overrideValue, cpy_newKeysOf]
  · rfl

theorem cpy_meUpTo (us es : List Econf.Entry) (i : Nat) : (meUpTo us es i).map Econf.cpyEntry = meUpTo us es i := by
  induction i with
  | zero => simp [meUpTo]
  | succ i ih => rw [meUpTo_succ, List.map_append, ih, cpy_meChunk]

theorem meUpTo_length_mono (us es : List Econf.Entry) {i n : Nat} (h : i ≤ n) : (meUpTo us es i).length ≤ (meUpTo us es n).length := by
  obtain ⟨d, rfl⟩ : ∃ d, n = i + d := ⟨n - i, by omega⟩
  unfold meUpTo
  rw [List.range_add, List.flatMap_append, List.length_append]
  omega

/-- what the caller of `merge_existing_groups` provides -/
structure MeCtx (m0 : Mem) (bk bl0 fa cell bu bua be bea : Nat) (us es : List Econf.Entry) (gl0len cap start : Nat) : Prop where
  arr : ArrCtx m0 bk bl0 fa cell gl0len cap
  src : SrcMem m0 be bea es [bk, bl0, fa]
  usr : SrcMem m0 bu bua us [bk, bl0, fa]
  room : start + (Econf.mergeExisting us es).length ≤ cap
  small : (gl0len : Int) + (Econf.mergeExisting us es).length + es.length + 2 < 2147483648
  usmall : (us.length : Int) + 1 < 18446744073709551616
  esmall : (es.length : Int) + 1 < 18446744073709551616
  ssmall : (start : Int) + (Econf.mergeExisting us es).length + es.length + 1 < 18446744073709551616
  lines : ∀ e ∈ es, (e.line : Int) < 18446744073709551616
  ulines : ∀ e ∈ us, (e.line : Int) < 18446744073709551616

abbrev moLoc (bk cell bu be start cnt i : Nat) (v7 v8 v9 v10 v11 v12 v13 v14 : Val) : List Val :=
  [.ptr bk 0, .ptr cell 0, .ptr bu 0, .ptr be 0, .int (start : Int), .int (cnt : Int), .int (i : Int), v7, v8, v9, v10, v11, v12, v13, v14]

/-- the state of the outer loop before round `i` -/
def MoInv (m0 : Mem) (bk bl0 fa cell bu be : Nat) (us es : List Econf.Entry) (names0 : List (List UInt8)) (gl0len cap start : Nat) (ablk0 : Block)
    (i : Nat) (st : St) : Prop :=
  (∃ v7 v8 v9 v10 v11 v12 v13 v14, st.loc = moLoc bk cell bu be start (start + (meUpTo us es i).length) i v7 v8 v9 v10 v11 v12 v13 v14) ∧
  ArrInv m0 bk bl0 fa names0 gl0len cap start ablk0 (meUpTo us es i) st.mem

def moTest : Expr := .bin .lt (.load (.var 6) .u64) (.load (.slot (.load (.var 2) .ptr) 1) .u64) .i32

/-- the first part of a round: the group pointer, the flag, the copy of the base entry, the look-up in the override, the value -/
theorem mo_first {m0 : Mem} {bk bl0 fa cell bu bua be bea : Nat} {us es : List Econf.Entry} {names0 : List (List UInt8)} {gl0len cap start : Nat} {ablk0 : Block}
    (C : MeCtx m0 bk bl0 fa cell bu bua be bea us es gl0len cap start) (fuel : Nat) (hf : gl0len + (Econf.mergeExisting us es).length + es.length + us.length + 2 < fuel)
    (i : Nat) (hi : i < us.length) (mem : Mem) (v7 v8 v9 v10 v11 v12 v13 v14 : Val)
    (hA : ArrInv m0 bk bl0 fa names0 gl0len cap start ablk0 (meUpTo us es i) mem) (REST : Stmt) :
    ∃ M3 bg w9 w10, M3.cstr bg 0 = .ok (us[i]).group ∧ bg < m0.length ∧ bg ∉ [bk, bl0, fa] ∧
      exec fuel (.seq (.expr (.assign (.var 7) (.load (.slot meSrc 0) .ptr) .ptr))
        (.seq (.expr (.assign (.var 8) (.cast .bool (.lit 1 .i32)) .bool))
        (.seq (.inl (some (.var 9)) .ptr (.cons (.load (.var 0) .ptr) (.cons meSrc .nil)) 3 LeafFns.cpy_file_entry.body)
        (.seq (.expr (.call "copy_words" (.cons meDst (.cons (.load (.var 9) .ptr) (.cons (.lit 7 .u64) .nil)))))
        (.seq (.inl (some (.var 10)) .u64 (.cons (.load (.var 3) .ptr) (.cons (.load (.var 7) .ptr) (.cons (.load (.slot meSrc 1) .ptr) .nil))) 4 LeafFns.first_entry.body)
        (.seq meOverride REST))))))
        { mem := mem, loc := moLoc bk cell bu be start (start + (meUpTo us es i).length) i v7 v8 v9 v10 v11 v12 v13 v14 } =
      exec fuel REST { mem := M3, loc := moLoc bk cell bu be start (start + (meUpTo us es i).length) i (.ptr bg 0) (.int 1) w9 w10 v11 v12 v13 v14 } ∧
      ArrInv m0 bk bl0 fa names0 gl0len cap start ablk0 (meUpTo us es i ++ [Econf.overrideValue es us[i]]) M3 := by
  have hU : SrcMem mem bu bua us [bk, bl0, fa] := C.usr.mono hA.agree
  obtain ⟨bg, g1, g2, g3⟩ := (C.usr.ents i hi).grp
  have hbglt : bg < m0.length := cstr_lt g2
  obtain ⟨bq, q1, q2, q3⟩ := (C.usr.ents i hi).key
  have hbqlt : bq < m0.length := cstr_lt q2
  have hbualt : bua < m0.length := loadSlot_lt g1
  have hgw : ∀ mm : Mem, (∀ b, b < m0.length → b ∉ [bk, bl0, fa] → mm[b]? = m0[b]?) → mm.loadSlot bua (((7 * i : Nat) : Int) + ((0 : Nat) : Int)) = .ok (.ptr bg 0) := by
    intro mm hmm
    rw [loadSlot_congr (hmm bua hbualt C.usr.arrav)]; simpa using g1
  -- (1) `group = uf->file_entry[i].group`
  have hs1 : exec fuel (.expr (.assign (.var 7) (.load (.slot meSrc 0) .ptr) .ptr))
      { mem := mem, loc := moLoc bk cell bu be start (start + (meUpTo us es i).length) i v7 v8 v9 v10 v11 v12 v13 v14 } =
      .normal { mem := mem, loc := moLoc bk cell bu be start (start + (meUpTo us es i).length) i (.ptr bg 0) v8 v9 v10 v11 v12 v13 v14 } := by
    have hld := kf_member 2 6 mem (moLoc bk cell bu be start (start + (meUpTo us es i).length) i v7 v8 v9 v10 v11 v12 v13 v14) bu bua us _ i 0 (.ptr bg 0) hU hi rfl rfl
      (hgw mem hA.agree) (by simp)
    unfold meSrc
    generalize (Expr.load (.slot (.sidx (.load (.slot (.load (.var 2) .ptr) 0) .ptr) (.load (.var 6) .u64) 7) 0) .ptr) = G at hld ⊢
    simp [exec, evalE, evalL, hld, convert, writePlace, bind, Except.bind]
  rw [exec_seq_normal hs1]
  -- (2) `last_of_group = true`
  have hs2 : exec fuel (.expr (.assign (.var 8) (.cast .bool (.lit 1 .i32)) .bool)) { mem := mem, loc := moLoc bk cell bu be start (start + (meUpTo us es i).length) i (.ptr bg 0) v8 v9 v10 v11 v12 v13 v14 } = .normal { mem := mem, loc := moLoc bk cell bu be start (start + (meUpTo us es i).length) i (.ptr bg 0) (.int 1) v9 v10 v11 v12 v13 v14 } := by
    have hw : wrapTo .bool 1 = 1 := by decide
    simp [exec, evalE, evalL, convert, hw, writePlace, bind, Except.bind]
  rw [exec_seq_normal hs2]
  -- (3) the copy of the base entry behind what is there
  have hsrc := kf_src 2 6 mem (moLoc bk cell bu be start (start + (meUpTo us es i).length) i (.ptr bg 0) (.int 1) v9 v10 v11 v12 v13 v14) bu bua us _ i hU (Nat.le_of_lt hi) rfl rfl
  have hidx : ∀ mm, evalE (.load (.var 5) .u64) { mem := mm, loc := List.set (moLoc bk cell bu be start (start + (meUpTo us es i).length) i (.ptr bg 0) (.int 1) v9 v10 v11 v12 v13 v14) 9 (.ptr mem.length 0) } =
      .ok (.int ((start + (meUpTo us es i).length : Nat) : Int), { mem := mm, loc := moLoc bk cell bu be start (start + (meUpTo us es i).length) i (.ptr bg 0) (.int 1) (.ptr mem.length 0) v10 v11 v12 v13 v14 }) := fun mm => by
    simp [evalE, evalL, readPlace, bind, Except.bind]
  have hmono := meUpTo_length_mono us es (i := i + 1) (n := us.length) (by omega)
  rw [meUpTo_succ, meUpTo_model, List.length_append] at hmono
  have hchunk1 : 1 ≤ (meChunk us es i).length := by simp [meChunk, hi]
  have hroom := C.room
  have hsm := C.small
  obtain ⟨M1, hex1, hA1, hlen1, hfresh, hfr1, hwords⟩ := hA.append C.arr bua (7 * i) us[i] (C.usr.ents i hi) (moLoc bk cell bu be start (start + (meUpTo us es i).length) i (.ptr bg 0) (.int 1) v9 v10 v11 v12 v13 v14) (moLoc bk cell bu be start (start + (meUpTo us es i).length) i (.ptr bg 0) (.int 1) (.ptr mem.length 0) v10 v11 v12 v13 v14) meSrc (.load (.var 5) .u64) 9
    (by omega) (by omega) (C.ulines _ (List.getElem_mem hi)) fuel (by omega) rfl rfl (by simp) (by decide) (by unfold meSrc; exact hsrc) hidx rfl
  rw [exec_seq_assoc, exec_seq_normal (by unfold meDst; exact hex1)]
  -- (4) `j = first_entry(ef, group, uf->file_entry[i].key)`
  have hagree1 := hA1.agree
  have hgrow1 : m0.length ≤ M1.length := hA1.grows
  have hU1 : SrcMem M1 bu bua us [bk, bl0, fa] := C.usr.mono hagree1
  have hS1 : SrcMem M1 be bea es [bk, bl0, fa] := C.src.mono hagree1
  have hg1 : M1.cstr bg 0 = .ok (us[i]).group := by rw [cstr_congr (hagree1 bg hbglt g3)]; exact g2
  have hq1 : M1.cstr bq 0 = .ok (us[i]).key := by rw [cstr_congr (hagree1 bq hbqlt q3)]; exact q2
  have hkey := kf_member 2 6 M1 (moLoc bk cell bu be start (start + (meUpTo us es i).length) i (.ptr bg 0) (.int 1) (.ptr mem.length 0) v10 v11 v12 v13 v14) bu bua us _ i 1 (.ptr bq 0) hU1 hi rfl rfl
    (by rw [loadSlot_congr (hagree1 bua hbualt C.usr.arrav)]; simpa using q1) (by simp)
  have hargs3 : evalArgs (.cons (.load (.var 3) .ptr) (.cons (.load (.var 7) .ptr) (.cons (.load (.slot meSrc 1) .ptr) .nil))) { mem := M1, loc := moLoc bk cell bu be start (start + (meUpTo us es i).length) i (.ptr bg 0) (.int 1) (.ptr mem.length 0) v10 v11 v12 v13 v14 } =
      .ok ([.ptr be 0, .ptr bg 0, .ptr bq 0], { mem := M1, loc := moLoc bk cell bu be start (start + (meUpTo us es i).length) i (.ptr bg 0) (.int 1) (.ptr mem.length 0) v10 v11 v12 v13 v14 }) := by
    have h3 : evalE (.load (.var 3) .ptr) { mem := M1, loc := moLoc bk cell bu be start (start + (meUpTo us es i).length) i (.ptr bg 0) (.int 1) (.ptr mem.length 0) v10 v11 v12 v13 v14 } = .ok (.ptr be 0, { mem := M1, loc := moLoc bk cell bu be start (start + (meUpTo us es i).length) i (.ptr bg 0) (.int 1) (.ptr mem.length 0) v10 v11 v12 v13 v14 }) := by
      simp [evalE, evalL, readPlace, bind, Except.bind]
    have h7 : evalE (.load (.var 7) .ptr) { mem := M1, loc := moLoc bk cell bu be start (start + (meUpTo us es i).length) i (.ptr bg 0) (.int 1) (.ptr mem.length 0) v10 v11 v12 v13 v14 } = .ok (.ptr bg 0, { mem := M1, loc := moLoc bk cell bu be start (start + (meUpTo us es i).length) i (.ptr bg 0) (.int 1) (.ptr mem.length 0) v10 v11 v12 v13 v14 }) := by
      simp [evalE, evalL, readPlace, bind, Except.bind]
    unfold meSrc
    generalize (Expr.load (.slot (.sidx (.load (.slot (.load (.var 2) .ptr) 0) .ptr) (.load (.var 6) .u64) 7) 1) .ptr) = K at hkey ⊢
    simp only [evalArgs, h3, h7, hkey, bind, Except.bind]
  have hel : (entsOf es).length = es.length := by simp [entsOf]
  have hes := C.esmall
  have hfe := first_entry_exec M1 be bea bg bq (entsOf es) (us[i]).group (us[i]).key hS1.toKf hg1 hq1 (by rw [hel]; exact hes) fuel
    (by rw [hel]; omega)
  have hfile := firstIdx_le (entsOf es) (us[i]).group (us[i]).key
  have hwf : wrapTo .u64 ((firstIdx (entsOf es) (us[i]).group (us[i]).key) : Int) = ((firstIdx (entsOf es) (us[i]).group (us[i]).key) : Int) := wrapTo_u64_small _ (by omega) (by omega)
  have hinl10 : exec fuel (.inl (some (.var 10)) .u64 (.cons (.load (.var 3) .ptr) (.cons (.load (.var 7) .ptr) (.cons (.load (.slot meSrc 1) .ptr) .nil))) 4 LeafFns.first_entry.body)
      { mem := M1, loc := moLoc bk cell bu be start (start + (meUpTo us es i).length) i (.ptr bg 0) (.int 1) (.ptr mem.length 0) v10 v11 v12 v13 v14 } = .normal { mem := M1, loc := moLoc bk cell bu be start (start + (meUpTo us es i).length) i (.ptr bg 0) (.int 1) (.ptr mem.length 0) (.int ((firstIdx (entsOf es) (us[i]).group (us[i]).key) : Int)) v11 v12 v13 v14 } :=
    exec_inl_val (fuel := fuel) (nl := 4) (body := LeafFns.first_entry.body) (i := 10) (dty := .u64) (v := .int ((firstIdx (entsOf es) (us[i]).group (us[i]).key) : Int)) (v' := .int ((firstIdx (entsOf es) (us[i]).group (us[i]).key) : Int))
      (st' := { mem := M1, loc := [.ptr be 0, .ptr bg 0, .ptr bq 0, .int ((firstIdx (entsOf es) (us[i]).group (us[i]).key) : Int)] }) hargs3 (by simpa using hfe) (by simp [convert, hwf]) (by simp)
  rw [exec_seq_normal hinl10]
  -- (5) the override's value, if it defines the key
  obtain ⟨M3, hex3, hA3, hlen3⟩ := me_override C.arr C.src us[i] hA hA1 hlen1 hfresh hwords (moLoc bk cell bu be start (start + (meUpTo us es i).length) i (.ptr bg 0) (.int 1) (.ptr mem.length 0) (.int ((firstIdx (entsOf es) (us[i]).group (us[i]).key) : Int)) v11 v12 v13 v14) rfl rfl rfl rfl fuel
  rw [exec_seq_normal hex3]
  refine ⟨M3, bg, .ptr mem.length 0, .int ((firstIdx (entsOf es) (us[i]).group (us[i]).key) : Int), ?_, hbglt, g3, rfl, hA3⟩
  rw [cstr_congr (hA3.agree bg hbglt g3)]; exact g2

/-- `i++` (variable 6 of fifteen) -/
theorem ag_step_any (mm : Mem) (a0 a1 a2 a3 a4 a5 a7 a8 a9 a10 a11 a12 a13 a14 : Val) (i : Nat) (hi : (i : Int) + 1 < 18446744073709551616) :
    stepOf (some (.incdec (.var 6) true true .u64)) { mem := mm, loc := [a0, a1, a2, a3, a4, a5, .int (i : Int), a7, a8, a9, a10, a11, a12, a13, a14] } =
      .ok { mem := mm, loc := [a0, a1, a2, a3, a4, a5, .int ((i + 1 : Nat) : Int), a7, a8, a9, a10, a11, a12, a13, a14] } := by
  have : wrapTo .u64 ((i : Int) + 1) = (i : Int) + 1 := wrapTo_u64_small _ (by omega) (by omega)
  simp [stepOf, evalE, evalL, readPlace, writePlace, binop, cmpInt, arith, Ty.signed, convert, this, bind, Except.bind, Except.map]

theorem mo_round {m0 : Mem} {bk bl0 fa cell bu bua be bea : Nat} {us es : List Econf.Entry} {names0 : List (List UInt8)} {gl0len cap start : Nat} {ablk0 : Block}
    (C : MeCtx m0 bk bl0 fa cell bu bua be bea us es gl0len cap start) (fuel : Nat) (hf : gl0len + (Econf.mergeExisting us es).length + es.length + us.length + 2 < fuel)
    (i : Nat) (hi : i < us.length) (st : St) (h : MoInv m0 bk bl0 fa cell bu be us es names0 gl0len cap start ablk0 i st) :
    ∃ T Q st', testOf (some moTest) st = .ok (true, T) ∧ (exec fuel meRound T = .normal Q ∨ exec fuel meRound T = .cont Q) ∧
      stepOf (some (.incdec (.var 6) true true .u64)) Q = .ok st' ∧
      MoInv m0 bk bl0 fa cell bu be us es names0 gl0len cap start ablk0 (i + 1) st' := by
  obtain ⟨⟨v7, v8, v9, v10, v11, v12, v13, v14, hloc⟩, hA⟩ := h
  obtain ⟨mem, loc⟩ := st
  simp only at hloc hA; subst hloc
  have hU : SrcMem mem bu bua us [bk, bl0, fa] := C.usr.mono hA.agree
  have htest := kf_test 2 6 mem (moLoc bk cell bu be start (start + (meUpTo us es i).length) i v7 v8 v9 v10 v11 v12 v13 v14) bu bua us _ i hU rfl rfl
  simp only [hi, decide_true] at htest
  have hmono := meUpTo_length_mono us es (i := i + 1) (n := us.length) (by omega)
  rw [meUpTo_model] at hmono
  have hsucc := meUpTo_succ us es i
  have hroom := C.room
  have hsm := C.small
  have hss := C.ssmall
  have hus := C.usmall
  have hstep6 : (i : Int) + 1 < 18446744073709551616 := by omega
  -- first part
  obtain ⟨M3, bg, w9, w10, hg3, hbglt, hbgav, hex, hA3⟩ := mo_first C fuel hf i hi mem v7 v8 v9 v10 v11 v12 v13 v14 hA
    (.seq (.expr (.incdec (.var 5) true true .u64))
    (.seq (.expr (.assign (.var 11) (.bin .add (.load (.var 6) .u64) (.cast .u64 (.lit 1 .i32)) .u64) .u64))
    (.seq meLastLoop
    (.seq (.ite (.un .lnot (.load (.var 8) .bool) .i32) .cont .skip)
    (.seq (.expr (.assign (.var 10) (.cast .u64 (.lit 0 .i32)) .u64)) meNewKeys)))))
  have hround : exec fuel meRound { mem := mem, loc := moLoc bk cell bu be start (start + (meUpTo us es i).length) i v7 v8 v9 v10 v11 v12 v13 v14 } = _ := hex
  suffices hmain : ∃ Q st', (exec fuel meRound { mem := mem, loc := moLoc bk cell bu be start (start + (meUpTo us es i).length) i v7 v8 v9 v10 v11 v12 v13 v14 } = .normal Q ∨
      exec fuel meRound { mem := mem, loc := moLoc bk cell bu be start (start + (meUpTo us es i).length) i v7 v8 v9 v10 v11 v12 v13 v14 } = .cont Q) ∧
      stepOf (some (.incdec (.var 6) true true .u64)) Q = .ok st' ∧ MoInv m0 bk bl0 fa cell bu be us es names0 gl0len cap start ablk0 (i + 1) st' by
    obtain ⟨Q, st', hb, hs, hinv⟩ := hmain
    exact ⟨_, Q, st', htest, hb, hs, hinv⟩
  rw [hround]
  -- (6) `merge_length++`
  have hchunklen : (meUpTo us es (i + 1)).length = (meUpTo us es i).length + (meChunk us es i).length := by rw [hsucc, List.length_append]
  have hchunk1 : 1 ≤ (meChunk us es i).length := by simp [meChunk, hi]
  have hs6 : exec fuel (.expr (.incdec (.var 5) true true .u64)) { mem := M3, loc := moLoc bk cell bu be start (start + (meUpTo us es i).length) i (.ptr bg 0) (.int 1) w9 w10 v11 v12 v13 v14 } = .normal { mem := M3, loc := moLoc bk cell bu be start (start + (meUpTo us es i).length + 1) i (.ptr bg 0) (.int 1) w9 w10 v11 v12 v13 v14 } := by
    have : wrapTo .u64 (((start : Int) + ((meUpTo us es i).length : Int)) + 1) = ((start : Int) + ((meUpTo us es i).length : Int)) + 1 := wrapTo_u64_small _ (by omega) (by omega)
    simp [exec, evalE, evalL, readPlace, writePlace, binop, cmpInt, arith, Ty.signed, convert, this, bind, Except.bind, Except.map]
  rw [exec_seq_normal hs6]
  -- (7) `k = i + 1`
  have hs7 : exec fuel (.expr (.assign (.var 11) (.bin .add (.load (.var 6) .u64) (.cast .u64 (.lit 1 .i32)) .u64) .u64)) { mem := M3, loc := moLoc bk cell bu be start (start + (meUpTo us es i).length + 1) i (.ptr bg 0) (.int 1) w9 w10 v11 v12 v13 v14 } =
      .normal { mem := M3, loc := moLoc bk cell bu be start (start + (meUpTo us es i).length + 1) i (.ptr bg 0) (.int 1) w9 w10 (.int ((i + 1 : Nat) : Int)) v12 v13 v14 } := by
    have w1 : wrapTo .u64 1 = 1 := wrapTo_u64_small 1 (by decide) (by decide)
    have : wrapTo .u64 ((i : Int) + 1) = (i : Int) + 1 := wrapTo_u64_small _ (by omega) (by omega)
    simp [exec, evalE, evalL, readPlace, writePlace, binop, cmpInt, arith, Ty.signed, convert, w1, this, bind, Except.bind, Except.map]
  rw [exec_seq_normal hs7]
  -- (8) is there a later entry of the group?
  have hU3 : SrcMem M3 bu bua us [bk, bl0, fa] := C.usr.mono hA3.agree
  obtain ⟨k, hlast⟩ := me_last fuel M3 (moLoc bk cell bu be start (start + (meUpTo us es i).length + 1) i (.ptr bg 0) (.int 1) w9 w10 (.int ((i + 1 : Nat) : Int)) v12 v13 v14) bu bua bg us _ (us[i]).group i hU3 rfl rfl hg3 (by simp) hi hus (by omega)
  have hset : List.set (moLoc bk cell bu be start (start + (meUpTo us es i).length + 1) i (.ptr bg 0) (.int 1) w9 w10 (.int ((i + 1 : Nat) : Int)) v12 v13 v14) 11 (.int ((i + 1 : Nat) : Int)) = moLoc bk cell bu be start (start + (meUpTo us es i).length + 1) i (.ptr bg 0) (.int 1) w9 w10 (.int ((i + 1 : Nat) : Int)) v12 v13 v14 := by simp [moLoc]
  rw [hset] at hlast
  rw [exec_seq_normal hlast]
  have hov1 : ((meUpTo us es i) ++ [Econf.overrideValue es us[i]]).length = (meUpTo us es i).length + 1 := by simp
  by_cases hhas : Econf.hasGroup (us.drop (i + 1)) (us[i]).group = true
  · -- yes: `continue`
    have hchunk : meChunk us es i = [Econf.overrideValue es us[i]] := by simp [meChunk, hi, hhas]
    simp only [hhas, if_true]
    refine ⟨{ mem := M3, loc := moLoc bk cell bu be start (start + (meUpTo us es i).length + 1) i (.ptr bg 0) (.int 0) w9 w10 (.int (k : Int)) v12 v13 v14 }, { mem := M3, loc := moLoc bk cell bu be start (start + (meUpTo us es i).length + 1) (i + 1) (.ptr bg 0) (.int 0) w9 w10 (.int (k : Int)) v12 v13 v14 }, Or.inr ?_, ?_, ?_⟩
    · have ht8 : testOf (some (.un .lnot (.load (.var 8) .bool) .i32)) { mem := M3, loc := List.set (List.set (moLoc bk cell bu be start (start + (meUpTo us es i).length + 1) i (.ptr bg 0) (.int 1) w9 w10 (.int ((i + 1 : Nat) : Int)) v12 v13 v14) 11 (.int (k : Int))) 8 (.int 0) } =
          .ok (true, { mem := M3, loc := moLoc bk cell bu be start (start + (meUpTo us es i).length + 1) i (.ptr bg 0) (.int 0) w9 w10 (.int (k : Int)) v12 v13 v14 }) := by
        simp [testOf, evalE, evalL, readPlace, unop, boolVal, truth, bind, Except.bind, Except.map, moLoc]
      apply exec_seq_cont
      rw [exec_ite_true ht8]; simp [exec]
    · exact ag_step_any M3 _ _ _ _ _ _ _ _ _ _ _ _ _ _ i hstep6
    · refine ⟨⟨.ptr bg 0, .int 0, w9, w10, .int (k : Int), v12, v13, v14, ?_⟩, ?_⟩
      · rw [hsucc, hchunk]; simp [moLoc]; omega
      · rw [hsucc, hchunk]; exact hA3
  · -- no: the keys of this group that only the override defines follow
    have hhas' : Econf.hasGroup (us.drop (i + 1)) (us[i]).group = false := by simpa using hhas
    have hchunk : meChunk us es i = Econf.overrideValue es us[i] :: Econf.newKeysOf us es (us[i]).group := by simp [meChunk, hi, hhas']
    simp only [hhas', Bool.false_eq_true, if_false]
    have ht8 : testOf (some (.un .lnot (.load (.var 8) .bool) .i32)) { mem := M3, loc := List.set (moLoc bk cell bu be start (start + (meUpTo us es i).length + 1) i (.ptr bg 0) (.int 1) w9 w10 (.int ((i + 1 : Nat) : Int)) v12 v13 v14) 11 (.int (k : Int)) } =
        .ok (false, { mem := M3, loc := moLoc bk cell bu be start (start + (meUpTo us es i).length + 1) i (.ptr bg 0) (.int 1) w9 w10 (.int (k : Int)) v12 v13 v14 }) := by
      simp [testOf, evalE, evalL, readPlace, unop, boolVal, truth, bind, Except.bind, Except.map, moLoc]
    have hs9 : exec fuel (.ite (.un .lnot (.load (.var 8) .bool) .i32) .cont .skip) { mem := M3, loc := List.set (moLoc bk cell bu be start (start + (meUpTo us es i).length + 1) i (.ptr bg 0) (.int 1) w9 w10 (.int ((i + 1 : Nat) : Int)) v12 v13 v14) 11 (.int (k : Int)) } =
        .normal { mem := M3, loc := moLoc bk cell bu be start (start + (meUpTo us es i).length + 1) i (.ptr bg 0) (.int 1) w9 w10 (.int (k : Int)) v12 v13 v14 } := by
      rw [exec_ite_false ht8]; simp [exec]
    rw [exec_seq_normal hs9]
    have hs10 : exec fuel (.expr (.assign (.var 10) (.cast .u64 (.lit 0 .i32)) .u64)) { mem := M3, loc := moLoc bk cell bu be start (start + (meUpTo us es i).length + 1) i (.ptr bg 0) (.int 1) w9 w10 (.int (k : Int)) v12 v13 v14 } = .normal { mem := M3, loc := moLoc bk cell bu be start (start + (meUpTo us es i).length + 1) i (.ptr bg 0) (.int 1) w9 (.int 0) (.int (k : Int)) v12 v13 v14 } := by
      have w0 : wrapTo .u64 0 = 0 := wrapTo_u64_small 0 (by decide) (by decide)
      simp [exec, evalE, evalL, convert, w0, writePlace, bind, Except.bind]
    rw [exec_seq_normal hs10]
    -- the inner loop
    obtain ⟨bgm, gm1, gm2, gm3⟩ := (C.usr.ents i hi).grp
    have hnk := mnSel_model us es (us[i]).group
    have hnklen : (Econf.newKeysOf us es (us[i]).group).length = (selBy (mnP us (us[i]).group) es es.length).length := by rw [← hnk]; simp
    have hchunklen2 : (meChunk us es i).length = 1 + (selBy (mnP us (us[i]).group) es es.length).length := by rw [hchunk]; simp [hnklen]; omega
    have hctx : MnCtx m0 bk bl0 fa cell bu bua be bea bg us es (us[i]).group gl0len cap (start + (meUpTo us es i).length + 1) :=
      ⟨C.arr, C.src, C.usr, by rw [← cstr_congr (hA3.agree bg hbglt hbgav)]; exact hg3, hbgav, by omega, hus, by omega, C.lines⟩
    obtain ⟨mem', x12, x13, x14, hexn, hAn⟩ := me_newkeys_inv (astart := start) (pre := (meUpTo us es i) ++ [Econf.overrideValue es us[i]]) start i (.int 1) w9 (.int (k : Int)) v12 v13 v14
      hctx (by simp; omega) (by simp; omega) (by simp; omega) fuel (by simp; omega) M3 hA3
    have hexn' : exec fuel meNewKeys { mem := M3, loc := moLoc bk cell bu be start (start + (meUpTo us es i).length + 1) i (.ptr bg 0) (.int 1) w9 (.int 0) (.int (k : Int)) v12 v13 v14 } = .normal { mem := mem', loc := moLoc bk cell bu be start (start + (meUpTo us es i).length + 1 + (selBy (mnP us (us[i]).group) es es.length).length) i (.ptr bg 0) (.int 1) w9 (.int (es.length : Int)) (.int (k : Int)) x12 x13 x14 } := hexn
    refine ⟨{ mem := mem', loc := moLoc bk cell bu be start (start + (meUpTo us es i).length + 1 + (selBy (mnP us (us[i]).group) es es.length).length) i (.ptr bg 0) (.int 1) w9 (.int (es.length : Int)) (.int (k : Int)) x12 x13 x14 }, { mem := mem', loc := moLoc bk cell bu be start (start + (meUpTo us es i).length + 1 + (selBy (mnP us (us[i]).group) es es.length).length) (i + 1) (.ptr bg 0) (.int 1) w9 (.int (es.length : Int)) (.int (k : Int)) x12 x13 x14 }, Or.inl hexn', ag_step_any mem' _ _ _ _ _ _ _ _ _ _ _ _ _ _ i hstep6, ?_⟩
    refine ⟨⟨.ptr bg 0, .int 1, w9, .int (es.length : Int), .int (k : Int), x12, x13, x14, ?_⟩, ?_⟩
    · rw [hsucc, List.length_append, hchunklen2]; simp [moLoc]; omega
    · rw [hsucc, hchunk]
      refine hAn.congr ?_
      rw [List.map_append, List.map_append, List.map_append, List.map_cons, hnk, cpy_newKeysOf]
      simp

/-- `merge_existing_groups` on the generated term, both objects present: behind the `start` entries already in the array stand exactly the
    entries of the model's `mergeExisting` (every entry of the base with the override's value if the override defines the key, and behind
    the last entry of each group the keys of that group which only the override defines); their number is added to the count returned; the
    destination's group list has got their groups in order of first use; the rest of the caller's memory is unchanged -/
theorem C_merge_existing_groups (m : Mem) (bk bl0 fa cell bu bua be bea : Nat) (us es : List Econf.Entry) (gl0 : List (Nat × List UInt8)) (cap start : Nat)
    (C : MeCtx m bk bl0 fa cell bu bua be bea us es gl0.length cap start)
    (hG : GlMem m bk bl0 gl0) (hkw : ∀ blk, m[bk]? = some blk → blk.writable = true) (hne : bk ≠ bl0) (hd : ∀ x, x ∈ gl0 → x.1 ≠ bk ∧ x.1 ≠ bl0)
    (ablk0 : Block) (ha1 : m[fa]? = some ablk0) (ha2 : ablk0.live = true) (ha3 : ablk0.writable = true) (ha4 : ablk0.cells = []) (ha5 : ablk0.slots.length = 7 * cap)
    (fuel : Nat) (hf : gl0.length + (Econf.mergeExisting us es).length + es.length + us.length + 2 < fuel) :
    ∃ m' loc' bl' gl', exec fuel LeafFns.merge_existing_groups.body
        { mem := m, loc := [.ptr bk 0, .ptr cell 0, .ptr bu 0, .ptr be 0, .int (start : Int)] ++ List.replicate 10 .undef } =
        .ret (.int ((start + (Econf.mergeExisting us es).length : Nat) : Int)) { mem := m', loc := loc' } ∧
      GlMem m' bk bl' gl' ∧
      gl'.map (·.2) = ((Econf.mergeExisting us es).map (·.group)).foldl Econf.addGroup (gl0.map (·.2)) ∧
      (∃ ablk', m'[fa]? = some ablk' ∧ ablk'.live = true ∧ ablk'.writable = true ∧ ablk'.cells = [] ∧ ablk'.slots.length = 7 * cap ∧
        ∀ k, k < 7 * start → ablk'.slots[k]? = ablk0.slots[k]?) ∧
      (∀ j (h : j < (Econf.mergeExisting us es).length), EntMem m' fa (7 * (start + j)) ((Econf.mergeExisting us es)[j]) [bk, bl']) ∧
      (∀ b, b < m.length → b ∉ [bk, bl0, fa] → m'[b]? = m[b]?) ∧ m.length ≤ m'.length := by
  have hss := C.ssmall
  have wS : wrapTo .u64 (start : Int) = (start : Int) := wrapTo_u64_small _ (by omega) (by omega)
  have w0 : wrapTo .u64 0 = 0 := wrapTo_u64_small 0 (by decide) (by decide)
  rw [merge_existing_groups_shape]
  have hinit : exec fuel (.expr (.assign (.var 5) (.load (.var 4) .u64) .u64))
      { mem := m, loc := [.ptr bk 0, .ptr cell 0, .ptr bu 0, .ptr be 0, .int (start : Int)] ++ List.replicate 10 .undef } =
      .normal { mem := m, loc := moLoc bk cell bu be start start 0 .undef .undef .undef .undef .undef .undef .undef .undef |>.set 6 .undef } := by
    simp [exec, evalE, evalL, readPlace, writePlace, convert, wS, bind, Except.bind, moLoc]
  rw [exec_seq_normal hinit]
  have htl : testOf (some (.land (.load (.var 2) .ptr) (.load (.var 3) .ptr)))
      { mem := m, loc := moLoc bk cell bu be start start 0 .undef .undef .undef .undef .undef .undef .undef .undef |>.set 6 .undef } =
      .ok (true, { mem := m, loc := moLoc bk cell bu be start start 0 .undef .undef .undef .undef .undef .undef .undef .undef |>.set 6 .undef }) := by
    simp [testOf, evalE, evalL, readPlace, truth, boolVal, bind, Except.bind, Except.map, moLoc]
  have hi6 : exec fuel (.expr (.assign (.var 6) (.cast .u64 (.lit 0 .i32)) .u64))
      { mem := m, loc := moLoc bk cell bu be start start 0 .undef .undef .undef .undef .undef .undef .undef .undef |>.set 6 .undef } =
      .normal { mem := m, loc := moLoc bk cell bu be start start 0 .undef .undef .undef .undef .undef .undef .undef .undef } := by
    simp [exec, evalE, evalL, writePlace, convert, w0, bind, Except.bind, moLoc]
  have hsel0 : meUpTo us es 0 = [] := by simp [meUpTo]
  have hinv0 : MoInv m bk bl0 fa cell bu be us es (gl0.map (·.2)) gl0.length cap start ablk0 0
      { mem := m, loc := moLoc bk cell bu be start start 0 .undef .undef .undef .undef .undef .undef .undef .undef } := by
    refine ⟨⟨.undef, .undef, .undef, .undef, .undef, .undef, .undef, .undef, by rw [hsel0]; simp⟩, ?_⟩
    rw [hsel0]
    exact ⟨fun b _ _ => rfl, Nat.le_refl _, ⟨bl0, gl0, hG, Or.inl rfl, hkw, hne, hd, by simp, by simp, by simp⟩, ⟨ablk0, ha1, ha2, ha3, ha4, ha5, fun k _ => rfl⟩⟩
  obtain ⟨R, hloop, ⟨v7, v8, v9, v10, v11, v12, v13, v14, hlocR⟩, hAR⟩ := loop_inv _ _ _
    (fun st => MoInv m bk bl0 fa cell bu be us es (gl0.map (·.2)) gl0.length cap start ablk0 us.length st) us.length
    (fun i st => MoInv m bk bl0 fa cell bu be us es (gl0.map (·.2)) gl0.length cap start ablk0 i st)
    (fun i st hi hinv => mo_round C fuel hf i hi st hinv)
    (fun st hinv => by
      obtain ⟨⟨x7, x8, x9, x10, x11, x12, x13, x14, hloc⟩, hA⟩ := hinv
      obtain ⟨mm, loc⟩ := st
      simp only at hloc hA; subst hloc
      have hU : SrcMem mm bu bua us [bk, bl0, fa] := C.usr.mono hA.agree
      have htest := kf_test 2 6 mm (moLoc bk cell bu be start (start + (meUpTo us es us.length).length) us.length x7 x8 x9 x10 x11 x12 x13 x14) bu bua us _ us.length hU rfl rfl
      simp only [Nat.lt_irrefl, decide_false] at htest
      exact ⟨_, htest, ⟨⟨x7, x8, x9, x10, x11, x12, x13, x14, rfl⟩, hA⟩⟩)
    _ fuel hinv0 (by omega)
  obtain ⟨memR, locR⟩ := R
  simp only at hlocR hAR; subst hlocR
  have hloop' : exec fuel (.for (some moTest) (some (.incdec (.var 6) true true .u64)) meRound)
      { mem := m, loc := moLoc bk cell bu be start start 0 .undef .undef .undef .undef .undef .undef .undef .undef } =
      .normal { mem := memR, loc := moLoc bk cell bu be start (start + (meUpTo us es us.length).length) us.length v7 v8 v9 v10 v11 v12 v13 v14 } := by
    rw [exec_for]; exact hloop
  have hmain : exec fuel (.ite (.land (.load (.var 2) .ptr) (.load (.var 3) .ptr))
      (.seq (.expr (.assign (.var 6) (.cast .u64 (.lit 0 .i32)) .u64))
        (.for (some (.bin .lt (.load (.var 6) .u64) (.load (.slot (.load (.var 2) .ptr) 1) .u64) .i32)) (some (.incdec (.var 6) true true .u64)) meRound)) .skip)
      { mem := m, loc := moLoc bk cell bu be start start 0 .undef .undef .undef .undef .undef .undef .undef .undef |>.set 6 .undef } =
      .normal { mem := memR, loc := moLoc bk cell bu be start (start + (meUpTo us es us.length).length) us.length v7 v8 v9 v10 v11 v12 v13 v14 } := by
    rw [exec_ite_true htl, exec_seq_normal hi6]; exact hloop'
  rw [exec_seq_normal hmain]
  have hmod := meUpTo_model us es
  rw [hmod] at hAR
  obtain ⟨bl', gl', d1, d2, d3, d4, d5, d6, d7, d8⟩ := hAR.dest
  have hcpy : ∀ j (h : j < (Econf.mergeExisting us es).length), Econf.cpyEntry ((Econf.mergeExisting us es)[j]) = (Econf.mergeExisting us es)[j] := by
    intro j h
    have := cpy_meUpTo us es us.length
    rw [hmod] at this
    have h2 := congrArg (fun l => l[j]?) this
    simpa [h] using h2
  refine ⟨memR, moLoc bk cell bu be start (start + (meUpTo us es us.length).length) us.length v7 v8 v9 v10 v11 v12 v13 v14, bl', gl',
    by simp [exec, evalE, evalL, readPlace, bind, Except.bind, hmod], d1, d7, hAR.arr, fun j hj => ?_, hAR.agree, hAR.grows⟩
  rw [← hcpy j hj]; exact d8 j hj

end LeafKf
