import Econf.Lemmas.ParserLemmas
import Econf.Lemmas.DocLemmas
import Econf.Lemmas.LayeredLemmas

/-!
  C13 — parse failures name the right error and line and return nothing partial.
  (The message table `C13_messages` is in `Econf/Props/Struct.lean`, over the facts extracted
  from lib/econf_error.c and include/libeconf.h.)
-/

set_option linter.unusedSimpArgs false

namespace Econf

/-- the three malformed section headers and their codes (text after the `[`) -/
theorem C13_section_codes (rest : Str) :
    (RBR ∉ rest → parseSection rest = .error .missingBracket) ∧
    (dropLastWhile isSpace rest = [RBR] → parseSection rest = .error .emptySectionName) ∧
    (RBR ∈ rest → (dropLastWhile isSpace rest).getLast? ≠ some RBR → parseSection rest = .error .textAfterSection) := by
  refine ⟨?_, ?_, ?_⟩
  · intro h
    unfold parseSection
    simp only
    split
    · rfl
    · rename_i l hl
      have hc : rest.contains RBR = false := by simpa using h
      have : (l != RBR) = true := by
        -- the last byte of a suffix-trimmed list is a member of the list
        have hmem : l ∈ dropLastWhile isSpace rest := List.mem_of_getLast? hl
        have hsub : l ∈ rest := by
          unfold dropLastWhile at hmem
          have := List.mem_reverse.mp hmem
          have := (List.dropWhile_sublist _).subset this
          exact List.mem_reverse.mp this
        simp only [bne_iff_ne, ne_eq]
        intro hh; exact h (hh ▸ hsub)
      simp [this, hc, h]
  · intro h
    unfold parseSection
    simp [h, RBR]
  · intro hm hl
    unfold parseSection
    simp only
    split
    · rename_i hnone
      -- nothing left after trimming would mean that every byte is a blank; `]` is not
      exfalso
      have hnil : dropLastWhile isSpace rest = [] := List.getLast?_eq_none_iff.mp hnone
      exact dropLastWhile_ne_nil isSpace rest RBR hm (by decide) hnil
    · rename_i l hl'
      have : (l != RBR) = true := by
        simp only [bne_iff_ne, ne_eq]
        intro hh; rw [hh] at hl'; exact hl hl'
      simp [this, hm]


/-- a section-header line without comment characters fails with the code of `parseSection`,
    in every parser state -/
theorem C13_section_line (cfg : Cfg) (st : PState) (raw rest : Str) (e : Err)
    (hb : lineBody raw = LBR :: rest) (hc : ∀ c ∈ cfg.comment, c ∉ LBR :: rest)
    (he : parseSection rest = .error e) : parseLine cfg st raw = .error e := by
  have hl : cfg.comment.contains LBR = false := by
    cases h : cfg.comment.contains LBR
    · rfl
    · exact absurd (List.mem_cons_self) (hc LBR (by simpa using h))
  unfold parseLine
  simp only [hb, hl, Bool.false_eq_true, if_false]
  rw [scanComments_none _ _ _ _ hc]
  simp [parseContent, he]

/-- a key followed by text without a delimiter (delimiter set without blanks, line not in
    continuation position) fails with missing-delimiter, in every parser state -/
theorem C13_nodelim_line (cfg : Cfg) (st : PState) (raw : Str) (key : Str) (b t : Byte) (more ts : Str)
    (hb : lineBody raw = key ++ b :: more)
    (hc : ∀ c ∈ cfg.comment, c ∉ key ++ b :: more)
    (hkey : key ≠ []) (hk0 : key.head? ≠ some LBR)
    (hkc : ∀ c ∈ key, isSpace c = false ∧ cfg.delim.contains c = false)
    (hbs : isSpace b = true)
    (hmore : ∀ c ∈ more, cfg.delim.contains c = false)
    (ht : more.dropWhile isSpace = t :: ts)
    (hw : hasWsp cfg.delim = false) (hnd : noDelim cfg.delim = false)
    (hcont : lastEntryOnPrevLine { st with line := st.line + 1 } = false) :
    parseLine cfg st raw = .error .missingDelimiter := by
  obtain ⟨k0, ks, rfl⟩ : ∃ k0 ks, key = k0 :: ks := by
    cases key with
    | nil => exact absurd rfl hkey
    | cons a as => exact ⟨a, as, rfl⟩
  have hk0c : cfg.comment.contains k0 = false := by
    cases h : cfg.comment.contains k0
    · rfl
    · exact absurd (by simp) (hc k0 (by simpa using h))
  have hk0b : (k0 == LBR) = false := by
    cases h : k0 == LBR
    · rfl
    · simp at h; simp [h] at hk0
  have hbd : cfg.delim.contains b = false := by
    cases h : cfg.delim.contains b
    · rfl
    · -- a blank in the delimiter set contradicts `hasWsp = false`
      unfold hasWsp at hw
      have := List.any_eq_false.mp hw b (by simpa using h)
      simp [hbs] at this
  have hmixed : mixedDelim cfg.delim = false := by simp [mixedDelim, hw]
  -- the split of the line
  have hsplit : splitKey cfg.delim ((k0 :: ks) ++ b :: more) = (k0 :: ks, false, more) := by
    unfold splitKey
    have htk : ((k0 :: ks) ++ b :: more).takeWhile (fun c => !(isSpace c || cfg.delim.contains c)) = k0 :: ks := by
      rw [takeWhile_append_of_all _ _ _ (fun x hx => by rw [(hkc x hx).1, (hkc x hx).2]; rfl)]
      simp [List.takeWhile_cons, hbs]
    have hdk : ((k0 :: ks) ++ b :: more).dropWhile (fun c => !(isSpace c || cfg.delim.contains c)) = b :: more := by
      rw [dropWhile_append_of_all _ _ _ (fun x hx => by rw [(hkc x hx).1, (hkc x hx).2]; rfl)]
      simp [List.dropWhile_cons, hbs]
    simp only [htk, hdk, hmixed, Bool.false_eq_true, if_false, hbd]
  have hany : more.any cfg.delim.contains = false := by
    apply List.any_eq_false.mpr
    intro x hx; rw [hmore x hx]; simp
  unfold parseLine
  simp only [hb, List.cons_append, hk0c, Bool.false_eq_true, if_false]
  rw [show k0 :: (ks ++ b :: more) = (k0 :: ks) ++ b :: more from rfl, scanComments_none _ _ _ _ hc]
  simp only [parseContent, List.cons_append, hk0b, Bool.false_eq_true, if_false, hnd]
  rw [show k0 :: (ks ++ b :: more) = (k0 :: ks) ++ b :: more from rfl]
  unfold parseEntry
  simp only [hsplit]
  have hnc : isContinuation cfg { st with line := st.line + 1, ca := st.ca } (cstr raw) false more = false := by
    unfold isContinuation
    simp only [hany, Bool.or_false, hmixed]
    have : lastEntryOnPrevLine { st with line := st.line + 1, ca := st.ca } = false := hcont
    rw [this]; simp
  simp only [hnc, Bool.false_eq_true, if_false, List.isEmpty_cons]
  -- the value part
  have hmne : more ≠ [] := by intro h; rw [h] at ht; simp at ht
  have htd : cfg.delim.contains t = false := by
    have : t ∈ more := (List.dropWhile_sublist _).subset (by rw [ht]; simp)
    exact hmore t this
  unfold parseValue skipDelim
  have hme : more.isEmpty = false := by cases more <;> simp_all
  simp only [hme, Bool.false_eq_true, if_false, ht, hw, Bool.not_false, Bool.and_self, if_true, htd]

/-- the first failing line determines code and line number (1-based), whatever follows it -/
theorem C13_first_error (cfg : Cfg) (st1 : PState) (pre : List Str) (bad : Str) (rest : List Str) (e : Err)
    (hpre : parseLines cfg {} pre = .ok st1) (hbad : parseLine cfg st1 bad = .error e) :
    parseLines cfg {} (pre ++ bad :: rest) = .error (e, pre.length + 1) := by
  have := parseLines_first_error cfg {} st1 pre bad rest e hpre hbad
  simpa using this

/-- every failure is one of the four documented parse errors and names a line of the file -/
theorem C13_error_range (cfg : Cfg) (ls : List Str) (e : Err) (n : Nat)
    (h : parseLines cfg {} ls = .error (e, n)) : ParseErr e ∧ 1 ≤ n ∧ n ≤ ls.length := by
  have := parseLines_err cfg {} ls e n h
  simp at this
  exact ⟨this.1, by omega, this.2.2⟩

/-- non-vacuity: `a=1`, `[x] y`, `b=2` with delimiter `=` fails with text-after-section at line 2 -/
example : (match parseBytes { delim := [0x3d], comment := [0x23] } [0x61, 0x3d, 0x31, 0x0a, 0x5b, 0x78, 0x5d, 0x20, 0x79, 0x0a, 0x62, 0x3d, 0x32, 0x0a] with
    | .error (e, n) => e == .textAfterSection && n == 2
    | .ok _ => false) = true := by decide

/-! ### the malformed line behind any conventional document

The premise "the lines before it parse" of `C13_first_error` is discharged by the C02 theorem for
every document of the conventional grammar – comment blocks, sections, entries with continuation
lines – so the reported line number is the number of physical lines of that document plus one,
whatever precedes the malformed line, and whatever follows it. -/

theorem C13_after_conventional (cfg : Cfg) (doc : List Item) (bad rest : Str) (e : Err)
    (hw : CfgWF cfg.eff) (hdoc : ∀ it ∈ doc, it.WF cfg.eff) (hline : IsLine bad)
    (hbad : ∀ st, parseLine cfg.eff st bad = .error e) :
    parseBytes cfg (render doc ++ bad ++ rest) = .error (e, (renderLines doc).length + 1) := by
  obtain ⟨t, rfl, ht⟩ := hline
  have hs : splitLines (render doc ++ (t ++ [NL]) ++ rest) = renderLines doc ++ (t ++ [NL]) :: splitLines rest := by
    rw [List.append_assoc, splitLines_render_append cfg.eff hw doc _ hdoc, List.append_assoc, List.singleton_append,
      splitLines_line t rest (text_ne_NL ht)]
  have hp := parse_doc cfg.eff hw doc {} hdoc
  have := C13_first_error cfg.eff (doc.foldl expItem {}) (renderLines doc) (t ++ [NL]) (splitLines rest) e hp (hbad _)
  unfold Cfg.eff at this
  unfold parseBytes
  simp only [hs, this]

/-- a header without closing bracket behind the concrete document of `Props/C02.lean` (6 lines): line 7 -/
example : parseBytes exCfg (render exDoc ++ [0x5b, 0x78, 0x0a] ++ [0x61, 0x3d, 0x31, 0x0a]) = .error (.missingBracket, 7) := by
  apply C13_after_conventional exCfg exDoc _ _ _ exCfg_wf exDoc_wf ⟨[0x5b, 0x78], rfl, by decide⟩
  intro st
  exact C13_section_line _ st _ [0x78] _ (by decide) (by decide) ((C13_section_codes [0x78]).1 (by decide))

/-! ### the error location of a layered read (the process-wide record `last_scanned_filename` / `last_scanned_line_nr`) -/


/-- "the error location is `(file, line)` and the failure is the parse error `e` of that file's content" -/
def LocatedAt (ctx : RdCtx) (join python : Bool) (d c : Str) (s' : RdState) (path : Str) (e : Err) : Prop :=
  ∃ abs content n, absPath ctx.fs path = some abs ∧ ctx.fs.read abs = some content ∧
    parseBytes { delim := d, comment := c, python := python, join := join } content = .error (e, n) ∧
    s'.g.errFile = abs ∧ s'.g.errLine = n

theorem parseErr_ne_nofile (e : Err) (h : ParseErr e) : e ≠ .nofile := by
  rcases h with h | h | h | h <;> (rw [h]; intro hh; cases hh)

theorem parseErr_ne_cb (e : Err) (h : ParseErr e) : e ≠ .parsingCallbackFailed := by
  rcases h with h | h | h | h <;> (rw [h]; intro hh; cases hh)

theorem parseErr_not_gate (g : Global) (node : Node) (e : Err) (h : gate g node = some e) : ¬ ParseErr e := by
  intro hp
  rcases gate_codes g node e h with h | h | h | h | h <;> (rw [h] at hp; rcases hp with h | h | h | h <;> cases h)

/-- one file: a parse failure leaves the location record at that file's absolute path and the
    number of the offending line -/
theorem C13_location_file (ctx : RdCtx) (s : RdState) (join python : Bool) (path d c : Str) (e : Err)
    (h : (readFileCB ctx s join python path d c).2 = .error e) (hp : ParseErr e) :
    LocatedAt ctx join python d c (readFileCB ctx s join python path d c).1 path e := by
  unfold readFileCB at h ⊢
  split at h
  · cases h; exact absurd rfl (parseErr_ne_nofile _ hp)
  · rename_i node hl
    simp only [hl]
    split at h
    · rename_i e' hg; cases h; exact absurd hp (parseErr_not_gate _ _ _ hg)
    · generalize askCallback ctx.cb s path = a at h ⊢
      obtain ⟨a1, a2⟩ := a
      simp only at h ⊢
      cases a2
      · simp only [Bool.not_false, if_true] at h; cases h; exact absurd rfl (parseErr_ne_cb _ hp)
      · simp only [Bool.not_true, Bool.false_eq_true, if_false] at h ⊢
        cases ha : absPath ctx.fs path with
        | none => simp only [ha] at h; cases h; exact absurd rfl (parseErr_ne_nofile _ hp)
        | some abs =>
          simp only [ha] at h ⊢
          unfold readOpened at h ⊢
          cases hr : ctx.fs.read abs with
          | none => simp only [hr] at h; cases h; exact absurd rfl (parseErr_ne_nofile _ hp)
          | some content =>
            simp only [hr] at h ⊢
            cases hpb : parseBytes { delim := d, comment := c, python := python, join := join } content with
            | ok st => simp only [hpb] at h; cases h
            | error en =>
              obtain ⟨e', n⟩ := en
              simp only [hpb] at h ⊢
              cases h
              exact ⟨abs, content, n, ha, hr, hpb, rfl, rfl⟩

/-- a sequence of files (the drop-ins of a layered read): the location record names the file at
    which the read stopped – the first one that fails – whatever was read before it -/
theorem C13_location_seq (ctx : RdCtx) (join python : Bool) (d c : Str) (s : RdState) (paths : List Str) (e : Err)
    (h : (readSeq ctx join python d c s paths).2 = .error e) (hp : ParseErr e) :
    ∃ pre p post, paths = pre ++ p :: post ∧
      LocatedAt ctx join python d c (readSeq ctx join python d c s paths).1 p e := by
  induction paths generalizing s with
  | nil => simp [readSeq] at h
  | cons p ps ih =>
    unfold readSeq at h ⊢
    simp only at h ⊢
    have h1 := C13_location_file ctx s join python p d c
    generalize readFileCB ctx s join python p d c = q at h h1 ⊢
    obtain ⟨q1, q2⟩ := q
    cases q2 with
    | error e' =>
      simp only at h ⊢; cases h
      exact ⟨[], p, ps, rfl, h1 e rfl hp⟩
    | ok kf =>
      simp only at h ⊢
      have h2 := ih q1
      generalize readSeq ctx join python d c q1 ps = r at h h2 ⊢
      obtain ⟨r1, r2⟩ := r
      cases r2 with
      | error e' =>
        simp only at h ⊢; cases h
        obtain ⟨pre, p', post, hps, hloc⟩ := h2 rfl
        exact ⟨p :: pre, p', post, by rw [hps]; rfl, hloc⟩
      | ok kfs => simp at h

/-- the main-file search -/
theorem C13_location_first (ctx : RdCtx) (join python : Bool) (d c : Str) (s : RdState) (paths : List Str) (e : Err)
    (h : (readFirst ctx join python d c s paths).2 = .error e) (hp : ParseErr e) :
    ∃ p ∈ paths, LocatedAt ctx join python d c (readFirst ctx join python d c s paths).1 p e := by
  induction paths generalizing s with
  | nil => simp [readFirst] at h
  | cons p ps ih =>
    unfold readFirst at h ⊢
    simp only at h ⊢
    have h1 := C13_location_file ctx s join python p d c
    generalize readFileCB ctx s join python p d c = q at h h1 ⊢
    obtain ⟨q1, q2⟩ := q
    cases q2 with
    | ok kf => simp at h
    | error e' =>
      by_cases hn : e' = .nofile
      · subst hn
        simp only at h ⊢
        obtain ⟨p', hp', hloc⟩ := ih q1 h
        exact ⟨p', List.mem_cons_of_mem _ hp', hloc⟩
      · simp only at h h1 ⊢
        have hee : e = e' := by cases e' <;> simp_all
        subst hee
        exact ⟨p, by simp, h1 e rfl hp⟩


/-- **the layered read**: when `econf_readConfig*`/`econf_readDirs*` fail with a parse error, the
    location record names one of the consulted files – the main-file candidate or the drop-in at
    which the read stopped, whatever number it has in the sequence – by its absolute path, and the
    line number is the one the parser reported for that file's content. -/
theorem C13_location_history (ctx : RdCtx) (s : RdState) (dirs : List Str) (nm : Str) (suffix : Option Str) (d : Str)
    (comment : Str) (join python : Bool) (confDirs : List Str) (e : Err) (b : Bool)
    (h : (readHistory ctx s dirs (some nm) suffix (some d) comment join python confDirs).2 = .error (e, b))
    (hp : ParseErr e) :
    ∃ p ∈ mainCandidates dirs nm (dotSuffix (some nm) suffix) ++
          dropinPaths ctx.fs dirs nm (dotSuffix (some nm) suffix)
            (if confDirs.isEmpty then [dotSuffix (some nm) suffix ++ [0x2e, 0x64]] else confDirs),
      LocatedAt ctx join python d comment
        (readHistory ctx s dirs (some nm) suffix (some d) comment join python confDirs).1 p e := by
  unfold readHistory at h ⊢
  simp only at h ⊢
  by_cases hnm : nm.isEmpty = true
  · simp only [hnm, if_true] at h ⊢
    have h2 := C13_location_seq ctx join python d comment s
      (dropinPaths ctx.fs dirs nm (dotSuffix (some nm) suffix) (if confDirs.isEmpty then [dotSuffix (some nm) suffix ++ [0x2e, 0x64]] else confDirs))
    generalize readSeq ctx join python d comment s _ = r at h h2 ⊢
    obtain ⟨r1, r2⟩ := r
    cases r2 with
    | error e' =>
      simp only at h ⊢; cases h
      obtain ⟨pre, p, post, hps, hloc⟩ := h2 e rfl hp
      exact ⟨p, List.mem_append_right _ (by rw [hps]; simp), hloc⟩
    | ok kfs =>
      simp only at h
      split at h
      · cases h; exact absurd rfl (parseErr_ne_nofile _ hp)
      · cases h
  · simp only [hnm, Bool.false_eq_true, if_false] at h ⊢
    have h1 := C13_location_first ctx join python d comment s (mainCandidates dirs nm (dotSuffix (some nm) suffix))
    generalize readFirst ctx join python d comment s _ = q at h h1 ⊢
    obtain ⟨q1, q2⟩ := q
    cases q2 with
    | error e' =>
      simp only at h ⊢; cases h
      obtain ⟨p, hpm, hloc⟩ := h1 e rfl hp
      exact ⟨p, List.mem_append_left _ hpm, hloc⟩
    | ok main =>
      simp only at h ⊢
      have h2 := C13_location_seq ctx join python d comment q1
        (dropinPaths ctx.fs dirs nm (dotSuffix (some nm) suffix) (if confDirs.isEmpty then [dotSuffix (some nm) suffix ++ [0x2e, 0x64]] else confDirs))
      generalize readSeq ctx join python d comment q1 _ = r at h h2 ⊢
      obtain ⟨r1, r2⟩ := r
      cases r2 with
      | error e' =>
        simp only at h ⊢; cases h
        obtain ⟨pre, p, post, hps, hloc⟩ := h2 e rfl hp
        exact ⟨p, List.mem_append_right _ (by rw [hps]; simp), hloc⟩
      | ok kfs =>
        simp only at h
        split at h
        · cases h; exact absurd rfl (parseErr_ne_nofile _ hp)
        · cases h


/-- the two theorems composed: the failing file is a conventional document followed by a malformed
    line – then the recorded line number is that line's number -/
theorem C13_layered_line (ctx : RdCtx) (join : Bool) (d c : Str) (s' : RdState) (p : Str) (e e' : Err)
    (hloc : LocatedAt ctx join false d c s' p e)
    (doc : List Item) (bad rest : Str)
    (hcontent : ∀ abs, absPath ctx.fs p = some abs → ctx.fs.read abs = some (render doc ++ bad ++ rest))
    (hw : CfgWF (Cfg.eff { delim := d, comment := c, python := false, join := join }))
    (hdoc : ∀ it ∈ doc, it.WF (Cfg.eff { delim := d, comment := c, python := false, join := join }))
    (hline : IsLine bad)
    (hbad : ∀ st, parseLine (Cfg.eff { delim := d, comment := c, python := false, join := join }) st bad = .error e') :
    e = e' ∧ s'.g.errLine = (renderLines doc).length + 1 := by
  obtain ⟨abs, content, n, ha, hr, hpb, _, hline'⟩ := hloc
  have hc := hcontent abs ha
  rw [hr] at hc
  simp only [Option.some.injEq] at hc
  subst hc
  have := C13_after_conventional { delim := d, comment := c, python := false, join := join } doc bad rest e' hw hdoc hline hbad
  rw [this] at hpb
  simp only [Except.error.injEq, Prod.mk.injEq] at hpb
  exact ⟨hpb.1.symm, by rw [hline', ← hpb.2]⟩

end Econf
