import Econf.Lemmas.MergeLemmas

/-!
  C03 — merging two configurations is a complete, ordered, non-destructive override.
  Property theorems only; helper lemmas are in `Econf/Lemmas/MergeLemmas.lean`.
  `uf` = entries of the base, `ef` = entries of the override, for *all* entry lists
  (empty, only group-less, sections re-opened, duplicate keys).
-/

set_option linter.unusedSimpArgs false

namespace Econf

/-- the text a lookup of (section, key) yields: first definition, absent value = empty text -/
def lookupTxt (l : List Entry) (g k : Str) : Option Str :=
  (findEntry l g k).map (fun e => e.value.getD [])

theorem lookupTxt_eq (l : List Entry) (g k : Str) :
    lookupTxt l g k = (l.find? (isKey g k)).map (fun e => e.value.getD []) := rfl

theorem value_cpy (e : Entry) : (cpyEntry e).value = e.value := rfl

/-- (L) every (section, key) has exactly the override's value when the override defines it,
    otherwise the base's — and is absent when neither defines it. -/
theorem C03_lookup (uf ef : List Entry) (g k : Str) :
    lookupTxt (mergeEntries uf ef) g k =
      if defines ef g k then lookupTxt ef g k else lookupTxt uf g k := by
  simp only [lookupTxt_eq, mergeEntries, mergeExisting, List.find?_append, find_insertNoGroup, find_addNewGroups]
  by_cases hu : defines uf g k = true
  · -- the base defines the key
    have hg := hasGroup_of_defines hu
    obtain ⟨u, hfu, hug, huk⟩ := find_some_of_defines hu
    rw [find_mergeExistingAux_defined uf ef uf g k hu, hfu]
    have hins : (if (!hasGroup uf NONE && g == NONE) = true then Option.map cpyEntry (List.find? (isKey g k) ef) else none) = none := by
      by_cases hn : g = NONE
      · subst hn; simp [hg]
      · have : (g == NONE) = false := by simpa using hn
        simp [this]
    rw [hins]
    simp only [Option.map_some, Option.none_or, Option.some_or, Option.map_some]
    unfold overrideValue
    rw [findEntry_eq, hug, huk]
    by_cases he : defines ef g k = true
    · obtain ⟨e, hfe, _, _⟩ := find_some_of_defines he
      simp [he, hfe]
    · have he' : defines ef g k = false := by simpa using he
      simp [he', find_none_of_not_defines he', value_cpy]
  · have hu' : defines uf g k = false := by simpa using hu
    rw [find_mergeExistingAux_new uf ef uf g k hu' hu', find_none_of_not_defines hu']
    by_cases he : defines ef g k = true
    · obtain ⟨e, hfe, _, _⟩ := find_some_of_defines he
      simp only [he, hfe, if_true, Option.map_some, value_cpy]
      by_cases hg : hasGroup uf g = true
      · by_cases hn : g = NONE
        · subst hn; simp [hg, value_cpy]
        · have : (g == NONE) = false := by simpa using hn
          simp [this, hg, value_cpy]
      · have hg' : hasGroup uf g = false := by simpa using hg
        by_cases hn : g = NONE
        · subst hn; simp [hg', value_cpy]
        · have : (g == NONE) = false := by simpa using hn
          have h2 : (g != NONE) = true := by simp [bne, this]
          simp [this, h2, hg', value_cpy]
    · have he' : defines ef g k = false := by simpa using he
      simp [he', find_none_of_not_defines he']

/-- non-vacuity: a base with a re-opened section and an override with a duplicate key -/
example :
    let e := fun (g k v : Str) => ({ group := g, key := k, value := some v, cb := none, ca := none, line := 0, quotes := false } : Entry)
    let A : Str := [0x41]; let B : Str := [0x42]
    let uf := [e A [0x78] [0x31], e B [0x79] [0x32], e A [0x7a] [0x33]]
    let ef := [e A [0x78] [0x34], e A [0x77] [0x35], e A [0x78] [0x36], e NONE [0x67] [0x37]]
    lookupTxt (mergeEntries uf ef) A [0x78] = some [0x34] ∧
    lookupTxt (mergeEntries uf ef) NONE [0x67] = some [0x37] ∧
    (mergeEntries uf ef).length = 5 := by decide

end Econf
