import Econf.Lemmas.MergeLemmas

/-!
  C03 — merging two configurations is a complete, ordered, non-destructive override.
  Property theorems only; helper lemmas are in `Econf/Lemmas/MergeLemmas.lean`.
  `uf` = entries of the base, `ef` = entries of the override, for *all* entry lists
  (empty, only group-less, sections re-opened, duplicate keys).
-/

set_option linter.unusedSimpArgs false

namespace Econf

/-- the text a lookup of (section, key) yields: first definition, absent value = empty text -/
def lookupTxt (l : List Entry) (g k : Str) : Option Str :=
  (findEntry l g k).map (fun e => e.value.getD [])

theorem lookupTxt_eq (l : List Entry) (g k : Str) :
    lookupTxt l g k = (l.find? (isKey g k)).map (fun e => e.value.getD []) := rfl

theorem value_cpy (e : Entry) : (cpyEntry e).value = e.value := rfl

/-- (L) every (section, key) has exactly the override's value when the override defines it,
    otherwise the base's — and is absent when neither defines it. -/
theorem C03_lookup (uf ef : List Entry) (g k : Str) :
    lookupTxt (mergeEntries uf ef) g k =
      if defines ef g k then lookupTxt ef g k else lookupTxt uf g k := by
  simp only [lookupTxt_eq, mergeEntries, mergeExisting, List.find?_append, find_insertNoGroup, find_addNewGroups]
  by_cases hu : defines uf g k = true
  · -- the base defines the key
    have hg := hasGroup_of_defines hu
    obtain ⟨u, hfu, hug, huk⟩ := find_some_of_defines hu
    rw [find_mergeExistingAux_defined uf ef uf g k hu, hfu]
    have hins : (if (!hasGroup uf NONE && g == NONE) = true then Option.map cpyEntry (List.find? (isKey g k) ef) else none) = none := by
      by_cases hn : g = NONE
      · subst hn; simp [hg]
      · have : (g == NONE) = false := by simpa using hn
        simp [this]
    rw [hins]
    simp only [Option.map_some, Option.none_or, Option.some_or, Option.map_some]
    unfold overrideValue
    rw [findEntry_eq, hug, huk]
    by_cases he : defines ef g k = true
    · obtain ⟨e, hfe, _, _⟩ := find_some_of_defines he
      simp [he, hfe]
    · have he' : defines ef g k = false := by simpa using he
      simp [he', find_none_of_not_defines he', value_cpy]
  · have hu' : defines uf g k = false := by simpa using hu
    rw [find_mergeExistingAux_new uf ef uf g k hu' hu', find_none_of_not_defines hu']
    by_cases he : defines ef g k = true
    · obtain ⟨e, hfe, _, _⟩ := find_some_of_defines he
      simp only [he, hfe, if_true, Option.map_some, value_cpy]
      by_cases hg : hasGroup uf g = true
      · by_cases hn : g = NONE
        · subst hn; simp [hg, value_cpy]
        · have : (g == NONE) = false := by simpa using hn
          simp [this, hg, value_cpy]
      · have hg' : hasGroup uf g = false := by simpa using hg
        by_cases hn : g = NONE
        · subst hn; simp [hg', value_cpy]
        · have : (g == NONE) = false := by simpa using hn
          have h2 : (g != NONE) = true := by simp [bne, this]
          simp [this, h2, hg', value_cpy]
    · have he' : defines ef g k = false := by simpa using he
      simp [he', find_none_of_not_defines he']

/-- (N) nothing else appears: every entry of the result has its (section, key) in an input -/
theorem C03_nothing_else (uf ef : List Entry) (e : Entry) (h : e ∈ mergeEntries uf ef) :
    defines uf e.group e.key = true ∨ defines ef e.group e.key = true := by
  unfold mergeEntries at h
  have hblock : ∀ q, e ∈ ((firstDefs ef).filter q).map cpyEntry → defines ef e.group e.key = true := by
    intro q hq
    obtain ⟨e', he', _, rfl⟩ := mem_block hq
    exact defines_of_mem (e := e') he'
  rcases List.mem_append.mp h with h | h
  · rcases List.mem_append.mp h with h | h
    · right
      unfold insertNoGroup at h
      split at h
      · simp at h
      · exact hblock _ h
    · -- mergeExisting
      unfold mergeExisting at h
      suffices ∀ rem, (∀ u ∈ rem, u ∈ uf) → e ∈ mergeExistingAux uf ef rem →
          defines uf e.group e.key = true ∨ defines ef e.group e.key = true from this uf (fun _ h => h) h
      intro rem
      induction rem with
      | nil => intro _ h; simp [mergeExistingAux] at h
      | cons u us ih =>
        intro hsub h
        unfold mergeExistingAux at h
        rcases List.mem_cons.mp h with h | h
        · left
          rw [h, group_overrideValue, key_overrideValue]
          exact defines_of_mem (hsub u List.mem_cons_self)
        · rcases List.mem_append.mp h with h | h
          · split at h
            · simp at h
            · right; exact hblock _ h
          · exact ih (fun x hx => hsub x (List.mem_cons_of_mem _ hx)) h
  · right; exact hblock _ h

/-- (O1) base keys keep their relative order -/
theorem C03_base_order (uf ef : List Entry) :
    (uf.map keyOf).Sublist ((mergeEntries uf ef).map keyOf) := by
  have haux : ∀ rem : List Entry, (rem.map keyOf).Sublist ((mergeExistingAux uf ef rem).map keyOf) := by
    intro rem
    induction rem with
    | nil => simp [mergeExistingAux]
    | cons u us ih =>
      unfold mergeExistingAux
      simp only [List.map_cons, List.map_append, keyOf_overrideValue]
      apply List.Sublist.cons_cons
      exact ih.trans (List.sublist_append_right _ _)
  unfold mergeEntries mergeExisting
  simp only [List.map_append]
  exact ((haux uf).trans (List.sublist_append_right _ _)).trans (List.sublist_append_left _ _)

/-- (B) the result fits into |base| + |override| entries -/
theorem C03_bound (uf ef : List Entry) : (mergeEntries uf ef).length ≤ uf.length + ef.length := by
  unfold mergeEntries mergeExisting
  simp only [List.length_append]
  have h1 := length_mergeExistingAux uf ef uf
  have hfd : (firstDefs ef).length ≤ ef.length := (firstDefs_sublist ef).length_le
  by_cases hn : hasGroup uf NONE = true
  · -- no leading block; new groups are disjoint from the groups of the base
    have hins : (insertNoGroup uf ef).length = 0 := by unfold insertNoGroup; simp [hn]
    have hnw : (addNewGroups uf ef).length = cnt (fun e => e.group != NONE && !hasGroup uf e.group) (firstDefs ef) := by
      unfold addNewGroups cnt; rw [List.length_map]
    have hdis := cnt_add_le_of_disjoint (p := fun e => hasGroup uf e.group) (q := fun e => e.group != NONE && !hasGroup uf e.group)
      (r := fun _ => true) (firstDefs ef) (fun _ _ => rfl) (fun _ _ => rfl)
      (fun e he => by simp [he])
    have hall : cnt (fun _ => true) (firstDefs ef) = (firstDefs ef).length := by simp [cnt]
    omega
  · have hn' : hasGroup uf NONE = false := by simpa using hn
    have hins : (insertNoGroup uf ef).length = cnt (fun e => e.group == NONE) (firstDefs ef) := by
      unfold insertNoGroup cnt; simp [hn']
    have hnw : (addNewGroups uf ef).length = cnt (fun e => e.group != NONE && !hasGroup uf e.group) (firstDefs ef) := by
      unfold addNewGroups cnt; rw [List.length_map]
    -- three pairwise disjoint classes: group-less, groups of the base, other groups
    have h12 := cnt_add_le_of_disjoint (p := fun e => e.group == NONE) (q := fun e => hasGroup uf e.group)
      (r := fun e => e.group == NONE || hasGroup uf e.group) (firstDefs ef)
      (fun e he => by simp at he; simp [he]) (fun e he => by simp [he])
      (fun e he => by simp at he; rw [he]; exact hn')
    have h123 := cnt_add_le_of_disjoint (p := fun e => e.group == NONE || hasGroup uf e.group)
      (q := fun e => e.group != NONE && !hasGroup uf e.group) (r := fun _ => true) (firstDefs ef)
      (fun _ _ => rfl) (fun _ _ => rfl)
      (fun e he => by
        simp only [Bool.or_eq_true, beq_iff_eq] at he
        rcases he with he | he
        · simp [he]
        · simp [he])
    have hall : cnt (fun _ => true) (firstDefs ef) = (firstDefs ef).length := by simp [cnt]
    omega

/-- "the earlier entry is a key only the override has, in a section the base has, and the later
    one is in the same section  →  the later one is not a base key either" -/
def AfterBase (uf : List Entry) (a b : Entry) : Prop :=
  defines uf a.group a.key = false → hasGroup uf a.group = true → b.group = a.group →
    defines uf b.group b.key = false

/-- (O2) keys only the override has follow the base keys of their section -/
theorem C03_new_keys_after_base (uf ef : List Entry) :
    (mergeEntries uf ef).Pairwise (AfterBase uf) := by
  have haux : ∀ rem : List Entry, (∀ u ∈ rem, defines uf u.group u.key = true) →
      (mergeExistingAux uf ef rem).Pairwise (AfterBase uf) := by
    intro rem
    induction rem with
    | nil => intro _; simp [mergeExistingAux]
    | cons u us ih =>
      intro hdef
      unfold mergeExistingAux
      rw [List.pairwise_cons]
      constructor
      · intro b _ hnd
        rw [group_overrideValue, key_overrideValue, hdef u List.mem_cons_self] at hnd
        exact absurd hnd (by simp)
      · rw [List.pairwise_append]
        refine ⟨?_, ih (fun x hx => hdef x (List.mem_cons_of_mem _ hx)), ?_⟩
        · split
          · exact List.Pairwise.nil
          · apply List.pairwise_of_forall_mem_list
            intro a _ b hb _ _ _
            exact (not_defines_of_mem_newKeysOf hb).2
        · intro a ha b hb _ _ hgrp
          split at ha
          · simp at ha
          · rename_i hng
            have h1 := (not_defines_of_mem_newKeysOf ha).1
            have h2 := group_mem_mergeExistingAux hb
            rw [hgrp, h1] at h2
            exact absurd h2 (by simpa using hng)
  unfold mergeEntries
  rw [List.pairwise_append, List.pairwise_append]
  refine ⟨⟨?_, ?_, ?_⟩, ?_, ?_⟩
  · apply List.pairwise_of_forall_mem_list
    intro a ha b _ _ hg _
    have := group_mem_insertNoGroup ha
    rw [this.1, this.2] at hg; exact absurd hg (by simp)
  · exact haux uf (fun u hu => defines_of_mem hu)
  · intro a ha b _ _ hg _
    have := group_mem_insertNoGroup ha
    rw [this.1, this.2] at hg; exact absurd hg (by simp)
  · apply List.pairwise_of_forall_mem_list
    intro a ha b _ _ hg _
    have := group_mem_addNewGroups ha
    rw [this.2] at hg; exact absurd hg (by simp)
  · intro a ha b hb _ hg hgrp
    have := group_mem_addNewGroups hb
    rw [hgrp, hg] at this; exact absurd this.2 (by simp)

/-- entries of sections only the override has -/
def NewSection (uf : List Entry) (e : Entry) : Prop := e.group ≠ NONE ∧ hasGroup uf e.group = false

/-- (O3) sections only the override has come last: once such an entry appears, only such entries follow;
    and they appear in the override's order -/
theorem C03_new_groups_last (uf ef : List Entry) :
    (mergeEntries uf ef).Pairwise (fun a b => NewSection uf a → NewSection uf b) ∧
    ∃ pre, mergeEntries uf ef = pre ++ addNewGroups uf ef ∧ (∀ e ∈ pre, ¬ NewSection uf e) ∧
      (∀ e ∈ addNewGroups uf ef, NewSection uf e) ∧
      ((addNewGroups uf ef).map keyOf).Sublist (ef.map keyOf) := by
  have hpre : ∀ e ∈ insertNoGroup uf ef ++ mergeExisting uf ef, ¬ NewSection uf e := by
    intro e he hn
    rcases List.mem_append.mp he with h | h
    · exact hn.1 (group_mem_insertNoGroup h).1
    · have := group_mem_mergeExistingAux h
      rw [hn.2] at this; exact absurd this (by simp)
  have hnew : ∀ e ∈ addNewGroups uf ef, NewSection uf e := fun e he => group_mem_addNewGroups he
  refine ⟨?_, insertNoGroup uf ef ++ mergeExisting uf ef, by simp [mergeEntries], hpre, hnew, ?_⟩
  · unfold mergeEntries
    rw [List.pairwise_append]
    refine ⟨?_, ?_, ?_⟩
    · apply List.pairwise_of_forall_mem_list
      intro a ha _ _ hn
      exact absurd hn (hpre a ha)
    · apply List.pairwise_of_forall_mem_list
      intro _ _ b hb _
      exact hnew b hb
    · intro _ _ b hb _
      exact hnew b hb
  · unfold addNewGroups
    have h1 : ((firstDefs ef).filter (fun e => e.group != NONE && !hasGroup uf e.group)).Sublist ef :=
      (List.filter_sublist).trans (firstDefs_sublist ef)
    have h2 := h1.map keyOf
    rw [List.map_map]
    have : (keyOf ∘ cpyEntry) = keyOf := by funext e; rfl
    rw [this]; exact h2

/-- group-less entries precede all sectioned ones -/
def GroupLessFirst (l : List Entry) : Prop := l.Pairwise (fun a b => b.group = NONE → a.group = NONE)

/-- (O4) group-less keys stay group-less and first: if they are first in the base (in particular
    if the base has none), they are first in the result -/
theorem C03_groupless_first (uf ef : List Entry) (h : GroupLessFirst uf) : GroupLessFirst (mergeEntries uf ef) := by
  have haux : ∀ rem : List Entry, GroupLessFirst rem → GroupLessFirst (mergeExistingAux uf ef rem) := by
    intro rem
    induction rem with
    | nil => intro _; simp [mergeExistingAux, GroupLessFirst]
    | cons u us ih =>
      intro hglf
      unfold GroupLessFirst at hglf ⊢
      rw [List.pairwise_cons] at hglf
      have hu : hasGroup us NONE = true → u.group = NONE := by
        intro hh
        obtain ⟨x, hx, hxg⟩ := List.any_eq_true.mp hh
        exact hglf.1 x hx (by simpa using hxg)
      unfold mergeExistingAux
      rw [List.pairwise_cons]
      constructor
      · intro b hb hbn
        rw [group_overrideValue]
        rcases List.mem_append.mp hb with hb | hb
        · split at hb
          · simp at hb
          · rw [← (not_defines_of_mem_newKeysOf hb).1]; exact hbn
        · have := group_mem_mergeExistingAux hb
          rw [hbn] at this; exact hu this
      · rw [List.pairwise_append]
        refine ⟨?_, ih hglf.2, ?_⟩
        · split
          · exact List.Pairwise.nil
          · apply List.pairwise_of_forall_mem_list
            intro a ha b hb hbn
            rw [(not_defines_of_mem_newKeysOf ha).1, ← (not_defines_of_mem_newKeysOf hb).1]; exact hbn
        · intro a ha b hb hbn
          split at ha
          · simp at ha
          · have := group_mem_mergeExistingAux hb
            rw [hbn] at this
            rw [(not_defines_of_mem_newKeysOf ha).1]; exact hu this
  unfold GroupLessFirst mergeEntries
  rw [List.pairwise_append, List.pairwise_append]
  refine ⟨⟨?_, ?_, ?_⟩, ?_, ?_⟩
  · apply List.pairwise_of_forall_mem_list
    intro a ha _ _ _
    exact (group_mem_insertNoGroup ha).1
  · exact haux uf h
  · intro a ha _ _ _
    exact (group_mem_insertNoGroup ha).1
  · apply List.pairwise_of_forall_mem_list
    intro _ _ b hb hbn
    exact absurd hbn (group_mem_addNewGroups hb).1
  · intro _ _ b hb hbn
    exact absurd hbn (group_mem_addNewGroups hb).1

/-- (U) a duplicate-free base gives a duplicate-free result (the override contributes first definitions only) -/
theorem C03_no_duplicates (uf ef : List Entry) (h : KeysNodup uf) : KeysNodup (mergeEntries uf ef) := by
  have haux : ∀ rem : List Entry, KeysNodup rem → (∀ u ∈ rem, defines uf u.group u.key = true) →
      KeysNodup (mergeExistingAux uf ef rem) := by
    intro rem
    induction rem with
    | nil => intro _ _; simp [mergeExistingAux, KeysNodup]
    | cons u us ih =>
      intro hnd hdef
      unfold KeysNodup at hnd ⊢
      rw [List.pairwise_cons] at hnd
      have hdef' : ∀ x ∈ us, defines uf x.group x.key = true := fun x hx => hdef x (List.mem_cons_of_mem _ hx)
      unfold mergeExistingAux
      rw [List.pairwise_cons]
      constructor
      · intro b hb
        rw [keyOf_overrideValue]
        rcases List.mem_append.mp hb with hb | hb
        · split at hb
          · simp at hb
          · intro heq
            have hb2 := (not_defines_of_mem_newKeysOf hb).2
            have hu := hdef u List.mem_cons_self
            unfold keyOf at heq; rw [Prod.mk.injEq] at heq
            rw [heq.1, heq.2, hb2] at hu; exact absurd hu (by simp)
        · -- b is emitted for `us`: either a copy of some base entry of `us` or an override-only key
          suffices ∀ rem' : List Entry, (∀ x ∈ rem', keyOf u ≠ keyOf x) → b ∈ mergeExistingAux uf ef rem' → keyOf u ≠ keyOf b from
            this us hnd.1 hb
          intro rem'
          induction rem' with
          | nil => intro _ hb'; simp [mergeExistingAux] at hb'
          | cons v vs ihv =>
            intro hne hb'
            unfold mergeExistingAux at hb'
            rcases List.mem_cons.mp hb' with rfl | hb'
            · rw [keyOf_overrideValue]; exact hne v List.mem_cons_self
            · rcases List.mem_append.mp hb' with hb' | hb'
              · split at hb'
                · simp at hb'
                · intro heq
                  have hb2 := (not_defines_of_mem_newKeysOf hb').2
                  have hu := hdef u List.mem_cons_self
                  unfold keyOf at heq; rw [Prod.mk.injEq] at heq
                  rw [heq.1, heq.2, hb2] at hu; exact absurd hu (by simp)
              · exact ihv (fun x hx => hne x (List.mem_cons_of_mem _ hx)) hb'
      · rw [List.pairwise_append]
        refine ⟨?_, ih hnd.2 hdef', ?_⟩
        · split
          · exact List.Pairwise.nil
          · exact block_nodup ef _
        · intro a ha b hb heq
          split at ha
          · simp at ha
          · rename_i hng
            have h1 := (not_defines_of_mem_newKeysOf ha).1
            have h2 := group_mem_mergeExistingAux hb
            unfold keyOf at heq; rw [Prod.mk.injEq] at heq
            rw [← heq.1, h1] at h2
            exact absurd h2 (by simpa using hng)
  unfold KeysNodup mergeEntries
  rw [List.pairwise_append, List.pairwise_append]
  refine ⟨⟨?_, haux uf h (fun u hu => defines_of_mem hu), ?_⟩, block_nodup ef _, ?_⟩
  · unfold insertNoGroup
    split
    · exact List.Pairwise.nil
    · exact block_nodup ef _
  · intro a ha b hb heq
    have h1 := group_mem_insertNoGroup ha
    have h2 := group_mem_mergeExistingAux hb
    unfold keyOf at heq; rw [Prod.mk.injEq] at heq
    rw [← heq.1, h1.1, h1.2] at h2; exact absurd h2 (by simp)
  · intro a ha b hb heq
    have h2 := group_mem_addNewGroups hb
    unfold keyOf at heq; rw [Prod.mk.injEq] at heq
    rcases List.mem_append.mp ha with ha | ha
    · exact h2.1 (heq.1 ▸ (group_mem_insertNoGroup ha).1)
    · have := group_mem_mergeExistingAux ha
      rw [heq.1, h2.2] at this; exact absurd this (by simp)


/-- `econf_mergeFiles` on whole objects: tags of the base, no path; the inputs are values and
    therefore unchanged (the harness compares both inputs before and after the call). -/
theorem C03_object (u e : KeyFile) :
    (mergeFiles u e).entries = mergeEntries u.entries e.entries ∧ (mergeFiles u e).delim = u.delim ∧
    (mergeFiles u e).comment = u.comment ∧ (mergeFiles u e).path = none := ⟨rfl, rfl, rfl, rfl⟩

/-- The merge specification of DESIGN.md section 4 (C03), all clauses together, for all entry lists. -/
theorem C03_merge_spec (uf ef : List Entry) :
    (∀ g k, lookupTxt (mergeEntries uf ef) g k = if defines ef g k then lookupTxt ef g k else lookupTxt uf g k) ∧
    (∀ e ∈ mergeEntries uf ef, defines uf e.group e.key = true ∨ defines ef e.group e.key = true) ∧
    (KeysNodup uf → KeysNodup (mergeEntries uf ef)) ∧
    (uf.map keyOf).Sublist ((mergeEntries uf ef).map keyOf) ∧
    (mergeEntries uf ef).Pairwise (AfterBase uf) ∧
    (mergeEntries uf ef).Pairwise (fun a b => NewSection uf a → NewSection uf b) ∧
    (GroupLessFirst uf → GroupLessFirst (mergeEntries uf ef)) ∧
    (mergeEntries uf ef).length ≤ uf.length + ef.length :=
  ⟨C03_lookup uf ef, C03_nothing_else uf ef, C03_no_duplicates uf ef, C03_base_order uf ef,
   C03_new_keys_after_base uf ef, (C03_new_groups_last uf ef).1, C03_groupless_first uf ef, C03_bound uf ef⟩

/-- non-vacuity: a base with a re-opened section and an override with a duplicate key -/
example :
    let e := fun (g k v : Str) => ({ group := g, key := k, value := some v, cb := none, ca := none, line := 0, quotes := false } : Entry)
    let A : Str := [0x41]; let B : Str := [0x42]
    let uf := [e A [0x78] [0x31], e B [0x79] [0x32], e A [0x7a] [0x33]]
    let ef := [e A [0x78] [0x34], e A [0x77] [0x35], e A [0x78] [0x36], e NONE [0x67] [0x37]]
    lookupTxt (mergeEntries uf ef) A [0x78] = some [0x34] ∧
    lookupTxt (mergeEntries uf ef) NONE [0x67] = some [0x37] ∧
    (mergeEntries uf ef).length = 5 := by decide

end Econf
