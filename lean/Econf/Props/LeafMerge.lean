import Econf.Props.LeafKf
open MiniC Leaf LeafKf
set_option linter.unusedSimpArgs false
set_option linter.unusedVariables false
namespace LeafKf

/-- an `econf_file` (block `bo`) whose entry array (block `ba`) holds the entries `es`; none of the blocks involved is in `avoid` -/
structure SrcMem (m : Mem) (bo ba : Nat) (es : List Econf.Entry) (avoid : List Nat) : Prop where
  kf : ∃ blk, m[bo]? = some blk ∧ blk.live = true ∧ blk.slots[0]? = some (.ptr ba 0) ∧ blk.slots[1]? = some (.int es.length)
  kfav : bo ∉ avoid
  arr : ∃ blk, m[ba]? = some blk ∧ blk.live = true ∧ blk.slots.length = 7 * es.length
  arrav : ba ∉ avoid
  ents : ∀ i (h : i < es.length), EntMem m ba (7 * i) es[i] avoid

theorem SrcMem.mono {m m' : Mem} {bo ba : Nat} {es : List Econf.Entry} {avoid : List Nat} (h : SrcMem m bo ba es avoid)
    (hm : ∀ b, b < m.length → b ∉ avoid → m'[b]? = m[b]?) : SrcMem m' bo ba es avoid := by
  obtain ⟨kb, k1, k2, k3, k4⟩ := h.kf
  obtain ⟨ab, a1, a2, a3⟩ := h.arr
  refine ⟨⟨kb, by rw [hm bo (List.getElem?_eq_some_iff.1 k1).1 h.kfav]; exact k1, k2, k3, k4⟩, h.kfav,
    ⟨ab, by rw [hm ba (List.getElem?_eq_some_iff.1 a1).1 h.arrav]; exact a1, a2, a3⟩, h.arrav, fun i hi => (h.ents i hi).mono hm⟩

/-- the look-up functions see the object through its groups and keys -/
theorem SrcMem.toKf {m : Mem} {bo ba : Nat} {es : List Econf.Entry} {avoid : List Nat} (h : SrcMem m bo ba es avoid) :
    KfMem m bo ba (entsOf es) := by
  obtain ⟨kb, k1, k2, k3, k4⟩ := h.kf
  obtain ⟨ab, a1, a2, a3⟩ := h.arr
  have hl : (entsOf es).length = es.length := by simp [entsOf]
  refine ⟨⟨kb, k1, k2, k3, by rw [hl]; exact k4⟩, ⟨ab, a1, a2, by rw [hl]; exact a3, ?_⟩⟩
  intro i hi
  have hi' : i < es.length := by rw [hl] at hi; exact hi
  obtain ⟨bg, g1, g2, _⟩ := (h.ents i hi').grp
  obtain ⟨bq, q1, q2, _⟩ := (h.ents i hi').key
  have s1 := (loadSlot_inv (i := 7 * i) (by simpa using g1) a1).1
  have s2 := (loadSlot_inv (i := 7 * i + 1) (by simpa using q1) a1).1
  refine ⟨bg, bq, s1, s2, ?_, ?_⟩
  · simpa [entsOf] using g2
  · simpa [entsOf] using q2

theorem EntMem.weaken {m : Mem} {bs os : Nat} {e : Econf.Entry} {av av' : List Nat} (h : EntMem m bs os e av) (hsub : ∀ b, b ∉ av → b ∉ av') :
    EntMem m bs os e av' := by
  obtain ⟨bg, g1, g2, g3⟩ := h.grp
  obtain ⟨bq, k1, k2, k3⟩ := h.key
  obtain ⟨v, v1, v2, v3⟩ := h.val
  obtain ⟨vb, b1, b2, b3⟩ := h.cb
  obtain ⟨va, a1, a2, a3⟩ := h.ca
  exact ⟨hsub _ h.self, ⟨bg, g1, g2, hsub _ g3⟩, ⟨bq, k1, k2, hsub _ k3⟩, ⟨v, v1, v2, fun b hb => hsub _ (v3 b hb)⟩,
    ⟨vb, b1, b2, fun b hb => hsub _ (b3 b hb)⟩, ⟨va, a1, a2, fun b hb => hsub _ (a3 b hb)⟩, h.line⟩

/-- an entry described in an old memory `m0` is still there in `m`, with another avoid list, when `m` agrees with `m0` on the
    blocks that were not to be avoided and those are not to be avoided now -/
theorem EntMem.transfer {m0 m : Mem} {bs os : Nat} {e : Econf.Entry} {av0 av : List Nat} (h : EntMem m0 bs os e av0)
    (hm : ∀ b, b < m0.length → b ∉ av0 → m[b]? = m0[b]?) (hav : ∀ b, b < m0.length → b ∉ av0 → b ∉ av) : EntMem m bs os e av := by
  obtain ⟨bg, g1, g2, g3⟩ := h.grp
  obtain ⟨bq, k1, k2, k3⟩ := h.key
  obtain ⟨v, v1, v2, v3⟩ := h.val
  obtain ⟨vb, b1, b2, b3⟩ := h.cb
  obtain ⟨va, a1, a2, a3⟩ := h.ca
  have hbs := loadSlot_lt g1
  have hs := hm bs hbs h.self
  refine ⟨hav bs hbs h.self, ⟨bg, by rw [loadSlot_congr hs]; exact g1, by rw [cstr_congr (hm bg (cstr_lt g2) g3)]; exact g2, hav bg (cstr_lt g2) g3⟩,
    ⟨bq, by rw [loadSlot_congr hs]; exact k1, by rw [cstr_congr (hm bq (cstr_lt k2) k3)]; exact k2, hav bq (cstr_lt k2) k3⟩,
    ⟨v, by rw [loadSlot_congr hs]; exact v1, v2.mono (fun b hb => hm b (v2.lt b hb) (v3 b hb)), fun b hb => hav b (v2.lt b hb) (v3 b hb)⟩,
    ⟨vb, by rw [loadSlot_congr hs]; exact b1, b2.mono (fun b hb => hm b (b2.lt b hb) (b3 b hb)), fun b hb => hav b (b2.lt b hb) (b3 b hb)⟩,
    ⟨va, by rw [loadSlot_congr hs]; exact a1, a2.mono (fun b hb => hm b (a2.lt b hb) (a3 b hb)), fun b hb => hav b (a2.lt b hb) (a3 b hb)⟩,
    by rw [loadSlot_congr hs]; exact h.line⟩

/-- an element of the array stays what it is when other elements are written and the blocks its strings live in are kept -/
theorem EntMem.keep_in_array {m m' : Mem} {fa os : Nat} {e : Econf.Entry} {av av' : List Nat} {ablk ablk' : Block}
    (h : EntMem m fa os e av) (ha : m[fa]? = some ablk) (ha' : m'[fa]? = some ablk') (hl' : ablk'.live = true)
    (hw : ∀ k, k < 7 → ablk'.slots[os + k]? = ablk.slots[os + k]?)
    (hm : ∀ b, b < m.length → b ∉ av → b ≠ fa → m'[b]? = m[b]?) (hnostr : ∀ str, m.cstr fa 0 ≠ .ok str)
    (hav : ∀ b, b < m.length → b ∉ av → b ∉ av') (hfa : fa ∉ av') : EntMem m' fa os e av' := by
  obtain ⟨bg, g1, g2, g3⟩ := h.grp
  obtain ⟨bq, k1, k2, k3⟩ := h.key
  obtain ⟨v, v1, v2, v3⟩ := h.val
  obtain ⟨vb, b1, b2, b3⟩ := h.cb
  obtain ⟨va, a1, a2, a3⟩ := h.ca
  have word : ∀ (k : Nat) (w : Val), k < 7 → m.loadSlot fa ((os + k : Nat) : Int) = .ok w → m'.loadSlot fa ((os + k : Nat) : Int) = .ok w := by
    intro k w hk hl
    obtain ⟨s1, s2, _⟩ := loadSlot_inv hl ha
    exact loadSlot_of ha' hl' (by rw [hw k hk]; exact s1) s2
  have strOk : ∀ (b : Nat) (str : List UInt8), m.cstr b 0 = .ok str → b ∉ av → m'.cstr b 0 = .ok str := by
    intro b str hc hb
    have : b ≠ fa := fun hh => hnostr str (hh ▸ hc)
    rw [cstr_congr (hm b (cstr_lt hc) hb this)]; exact hc
  have optOk : ∀ (w : Val) (so : Option (List UInt8)), OptStr m w so → (∀ b, w = .ptr b 0 → b ∉ av) → OptStr m' w so := by
    intro w so hv hb
    cases hv with
    | none => exact .none
    | some b str hc => exact .some b str (strOk b str hc (hb b rfl))
  refine ⟨hfa, ⟨bg, by simpa using word 0 _ (by omega) (by simpa using g1), strOk _ _ g2 g3, hav bg (cstr_lt g2) g3⟩,
    ⟨bq, by simpa using word 1 _ (by omega) (by simpa using k1), strOk _ _ k2 k3, hav bq (cstr_lt k2) k3⟩,
    ⟨v, by simpa using word 2 _ (by omega) (by simpa using v1), optOk _ _ v2 v3, fun b hb => hav b (v2.lt b hb) (v3 b hb)⟩,
    ⟨vb, by simpa using word 3 _ (by omega) (by simpa using b1), optOk _ _ b2 b3, fun b hb => hav b (b2.lt b hb) (b3 b hb)⟩,
    ⟨va, by simpa using word 4 _ (by omega) (by simpa using a1), optOk _ _ a2 a3, fun b hb => hav b (a2.lt b hb) (a3 b hb)⟩,
    by simpa using word 5 _ (by omega) (by simpa using h.line)⟩

theorem addGroup_idem (gs : List (List UInt8)) (g : List UInt8) : Econf.addGroup (Econf.addGroup gs g) g = Econf.addGroup gs g := by
  unfold Econf.addGroup
  by_cases h : gs.contains g = true
  · simp only [h, if_true]
  · have h' : gs.contains g = false := by simpa using h
    have h2 : (gs ++ [g]).contains g = true := by simp
    simp only [h', Bool.false_eq_true, if_false, h2, if_true]

/-! ## `insert_nogroup` -/

/-- is entry `j` of the override copied by `insert_nogroup`: group-less, and the first definition of its key -/
def isSel (es : List Econf.Entry) (j : Nat) : Bool :=
  match es[j]? with
  | some e => e.group == Econf.NONE && (firstIdx (entsOf es) e.group e.key == j)
  | none => false

/-- the entries among the first `i` that are copied, in order -/
def selUpTo (es : List Econf.Entry) (i : Nat) : List Econf.Entry := ((List.range i).filter (isSel es)).filterMap (fun j => es[j]?)

theorem selUpTo_succ (es : List Econf.Entry) (i : Nat) (hi : i < es.length) :
    selUpTo es (i + 1) = selUpTo es i ++ (if isSel es i then [es[i]] else []) := by
  simp only [selUpTo, List.range_succ, List.filter_append, List.filterMap_append]
  by_cases h : isSel es i = true
  · simp [h, hi]
  · simp [h]

theorem selUpTo_length_le (es : List Econf.Entry) (i : Nat) : (selUpTo es i).length ≤ i := by
  unfold selUpTo
  calc (List.filterMap (fun j => es[j]?) (List.filter (isSel es) (List.range i))).length
      ≤ (List.filter (isSel es) (List.range i)).length := List.length_filterMap_le _ _
    _ ≤ (List.range i).length := List.length_filter_le _ _
    _ = i := List.length_range

def ngSrc : Expr := .sidx (.load (.slot (.load (.var 3) .ptr) 0) .ptr) (.load (.var 5) .u64) 7
def ngCond : Expr := .un .lnot (.call "strcmp" (.cons (.load (.slot ngSrc 0) .ptr) (.cons (.strlit [95, 110, 111, 110, 101, 95]) .nil))) .i32
def ngAppend : Stmt := .seq (.inl (some (.var 6)) .ptr (.cons (.load (.var 0) .ptr) (.cons ngSrc .nil)) 3 LeafFns.cpy_file_entry.body)
  (.expr (.call "copy_words" (.cons (.sidx (.load (.slot (.load (.var 1) .ptr) 0) .ptr) (.incdec (.var 4) true true .u64) 7)
    (.cons (.load (.var 6) .ptr) (.cons (.lit 7 .u64) .nil)))))
def ngInner : Stmt := .seq (.inl (some (.var 7)) .bool (.cons (.load (.var 3) .ptr) (.cons (.load (.var 5) .u64) .nil)) 3 LeafFns.first_definition.body)
  (.ite (.cast .i32 (.load (.var 7) .bool)) ngAppend .skip)
def ngBody : Stmt := .ite ngCond ngInner .skip
def ngTest : Expr := .bin .lt (.load (.var 5) .u64) (.load (.slot (.load (.var 3) .ptr) 1) .u64) .i32
def ngLoop : Stmt := .for (some ngTest) (some (.incdec (.var 5) true true .u64)) ngBody

theorem insert_nogroup_shape : LeafFns.insert_nogroup.body =
    .seq (.expr (.assign (.var 4) (.cast .u64 (.lit 0 .i32)) .u64))
      (.seq (.ite (.load (.var 2) .ptr) (.ite (.load (.var 3) .ptr)
          (.seq (.inl (some (.var 8)) .bool (.cons (.load (.var 2) .ptr) (.cons (.strlit [95, 110, 111, 110, 101, 95]) .nil)) 3 LeafFns.has_group.body)
            (.ite (.un .lnot (.load (.var 8) .bool) .i32) (.seq (.expr (.assign (.var 5) (.cast .u64 (.lit 0 .i32)) .u64)) ngLoop) .skip))
          .skip) .skip)
        (.ret (some (.load (.var 4) .u64)))) := rfl

/-- the state of the loop of `insert_nogroup` before round `i`, when `sel` are the entries copied so far -/
structure NgInv (m0 : Mem) (bk bl0 fa cell bu be : Nat) (names0 : List (List UInt8)) (gl0len cap : Nat)
    (sel : List Econf.Entry) (i : Nat) (st : St) : Prop where
  loc : ∃ v6 v7, st.loc = [.ptr bk 0, .ptr cell 0, .ptr bu 0, .ptr be 0, .int (sel.length : Int), .int (i : Int), v6, v7, .int 0]
  agree : ∀ b, b < m0.length → b ∉ [bk, bl0, fa] → st.mem[b]? = m0[b]?
  grows : m0.length ≤ st.mem.length
  dest : ∃ bl' gl', GlMem st.mem bk bl' gl' ∧ (bl' = bl0 ∨ m0.length ≤ bl') ∧ (∀ kb blk, m0[bk]? = some kb → st.mem[bk]? = some blk → KfKeep kb blk) ∧ (gl' ≠ [] → bk ≠ bl') ∧
      (∀ x, x ∈ gl' → x.1 ≠ bk ∧ x.1 ≠ bl') ∧ gl'.length ≤ gl0len + sel.length ∧
      gl'.map (·.2) = (if sel.length = 0 then names0 else Econf.addGroup names0 Econf.NONE) ∧
      ∀ j (h : j < sel.length), EntMem st.mem fa (7 * j) (Econf.cpyEntry (sel[j])) [bk, bl']
  arr : ∃ ablk, st.mem[fa]? = some ablk ∧ ablk.live = true ∧ ablk.writable = true ∧ ablk.cells = [] ∧ ablk.slots.length = 7 * cap

/-- the invariant does not look at blocks added behind the memory, nor at the counter and the two scratch variables -/
theorem NgInv.frame {m0 : Mem} {bk bl0 fa cell bu be : Nat} {names0 : List (List UInt8)} {gl0len cap i : Nat} {sel : List Econf.Entry} {st : St}
    (h : NgInv m0 bk bl0 fa cell bu be names0 gl0len cap sel i st) (mem' : Mem) (i' : Nat) (v6 v7 : Val)
    (hm : ∀ b, b < st.mem.length → mem'[b]? = st.mem[b]?) (hlen : st.mem.length ≤ mem'.length) (hfa : fa < m0.length) (hbk : bk < m0.length) :
    NgInv m0 bk bl0 fa cell bu be names0 gl0len cap sel i'
      { mem := mem', loc := [.ptr bk 0, .ptr cell 0, .ptr bu 0, .ptr be 0, .int (sel.length : Int), .int (i' : Int), v6, v7, .int 0] } := by
  obtain ⟨bl', gl', d1, d2, d3, d4, d5, d6, d7, d8⟩ := h.dest
  obtain ⟨ablk, a1, a2, a3, a4, a5⟩ := h.arr
  have hg := h.grows
  refine ⟨⟨v6, v7, rfl⟩, fun b hb hav => by rw [hm b (by omega)]; exact h.agree b hb hav, by simp; omega, ?_, ⟨ablk, by rw [hm fa (by omega)]; exact a1, a2, a3, a4, a5⟩⟩
  -- the destination and the copies: nothing they use has changed
  have hG' : GlMem mem' bk bl' gl' := d1.grow hm
  refine ⟨bl', gl', hG', d2, fun kb blk hk hb => d3 kb blk hk (by rw [← hm bk (by omega)]; exact hb), d4, d5, d6, d7, fun j hj => (d8 j hj).mono (fun b hb _ => hm b hb)⟩

def noneLit : Block := { cells := (([95, 110, 111, 110, 101, 95] : List UInt8) ++ [0]).map some, writable := false }

theorem append_get {m : Mem} {l : List Block} {b : Nat} (hb : b < m.length) : (m ++ l)[b]? = m[b]? := List.getElem?_append_left hb

/-- the address of entry `i` of the override's array -/
theorem ng_src (mm : Mem) (loc : List Val) (be bea : Nat) (es : List Econf.Entry) (av : List Nat) (i : Nat)
    (hS : SrcMem mm be bea es av) (hi : i < es.length) (hl3 : loc[3]? = some (.ptr be 0)) (hl5 : loc[5]? = some (.int (i : Int))) :
    evalE ngSrc { mem := mm, loc := loc } = .ok (.ptr bea (((7 * i : Nat)) : Int), { mem := mm, loc := loc }) := by
  obtain ⟨kb, k1, k2, k3, k4⟩ := hS.kf
  obtain ⟨ab, a1, a2, a3⟩ := hS.arr
  have hl0 : mm.loadSlot be 0 = .ok (.ptr bea 0) := by simpa using loadSlot_of (i := 0) k1 k2 k3 (by simp)
  have hsx : slotAdd mm bea 0 ((i : Int) * 7) = .ok (.ptr bea ((i : Int) * 7)) := by
    have : (0 : Int) ≤ (i : Int) * 7 ∧ (i : Int) * 7 ≤ (ab.slots.length : Int) := by rw [a3]; omega
    simp [slotAdd, Mem.block, a1, a2, this, bind, Except.bind]
  have e : (((7 * i : Nat)) : Int) = (i : Int) * 7 := by omega
  rw [e]
  exact evalE_sidx _ _ _ _ bea 0 (i : Int) 7 _ (by simp [evalE, evalL, readPlace, hl3, hl0, bind, Except.bind])
    (by simp [evalE, evalL, readPlace, hl5, bind, Except.bind]) (by simpa using hsx)

/-- `strcmp(E, "literal")`: the literal becomes a read-only block of its own behind the memory -/
theorem strcmp_lit_eval (E : Expr) (st : St) (bg : Nat) (s lit : List UInt8) (hE : evalE E st = .ok (.ptr bg 0, st))
    (hs : st.mem.cstr bg 0 = .ok s) (hz : (0 : UInt8) ∉ lit) :
    evalE (.call "strcmp" (.cons E (.cons (.strlit lit) .nil))) st =
      .ok (.int (cmpBytes s lit), { mem := st.mem ++ [{ cells := (lit ++ [0]).map some, writable := false }], loc := st.loc }) := by
  have hlit := lit_cstr st.mem lit hz
  have hgs : (st.mem ++ [({ cells := (lit ++ [0]).map some, writable := false } : Block)]).cstr bg 0 = .ok s := by
    rw [cstr_congr (append_get (cstr_lt hs))]; exact hs
  simp only [evalE, evalArgs, hE, bind, Except.bind, builtin, hgs, hlit]

/-- `!strcmp(ef->file_entry[i].group, "_none_")`: the answer is whether the group is the group-less marker -/
theorem ng_cond (mm : Mem) (loc : List Val) (be bea : Nat) (es : List Econf.Entry) (av : List Nat) (i : Nat)
    (hS : SrcMem mm be bea es av) (hi : i < es.length) (hl3 : loc[3]? = some (.ptr be 0)) (hl5 : loc[5]? = some (.int (i : Int))) :
    testOf (some ngCond) { mem := mm, loc := loc } = .ok (decide ((es[i]).group = Econf.NONE), { mem := mm ++ [noneLit], loc := loc }) := by
  have hsrc := ng_src mm loc be bea es av i hS hi hl3 hl5
  obtain ⟨bg, g1, g2, _⟩ := (hS.ents i hi).grp
  have hnz : (0 : UInt8) ∉ ([95, 110, 111, 110, 101, 95] : List UInt8) := by decide
  have hld : evalE (.load (.slot ngSrc 0) .ptr) { mem := mm, loc := loc } = .ok (.ptr bg 0, { mem := mm, loc := loc }) := by
    simp only [evalE, evalL, hsrc, bind, Except.bind, readPlace]
    have : ((7 * i : Nat) : Int) + ((0 : Nat) : Int) = ((7 * i : Nat) : Int) := by simp
    rw [this, g1]
  have zg := cstr_nz g2
  have hNONE : Econf.NONE = [95, 110, 111, 110, 101, 95] := rfl
  have hcall := strcmp_lit_eval (.load (.slot ngSrc 0) .ptr) { mem := mm, loc := loc } bg (es[i]).group [95, 110, 111, 110, 101, 95] hld g2 hnz
  have hmem : (mm ++ [({ cells := (([95, 110, 111, 110, 101, 95] : List UInt8) ++ [0]).map some, writable := false } : Block)]) = mm ++ [noneLit] := rfl
  unfold ngCond
  generalize (Expr.call "strcmp" (.cons (.load (.slot ngSrc 0) .ptr) (.cons (.strlit [95, 110, 111, 110, 101, 95]) .nil))) = C at hcall ⊢
  by_cases hq : (es[i]).group = Econf.NONE
  · have q1 : cmpBytes (es[i]).group [95, 110, 111, 110, 101, 95] = 0 := (cmpBytes_eq_zero _ _ zg hnz).2 (hq.trans hNONE)
    simp only [testOf, evalE, hcall, bind, Except.bind, q1, unop, truth, Except.map, boolVal]
    simp [hq, noneLit]
  · have q1 : cmpBytes (es[i]).group [95, 110, 111, 110, 101, 95] ≠ 0 := fun hh => hq (((cmpBytes_eq_zero _ _ zg hnz).1 hh).trans hNONE.symm)
    simp only [testOf, evalE, hcall, bind, Except.bind, unop, truth, Except.map, boolVal]
    simp [q1, hq, noneLit]

/-- what the caller of `insert_nogroup` provides: the override `es` readable and apart from the destination, the cell holding the
    new array, enough room in that array, sizes that fit the C types -/
structure NgCtx (m0 : Mem) (bk bl0 fa cell be bea : Nat) (es : List Econf.Entry) (gl0len cap : Nat) : Prop where
  src : SrcMem m0 be bea es [bk, bl0, fa]
  cellb : ∃ cblk, m0[cell]? = some cblk ∧ cblk.live = true ∧ cblk.slots[0]? = some (.ptr fa 0)
  cellav : cell ∉ [bk, bl0, fa]
  fa_lt : fa < m0.length
  bk_lt : bk < m0.length
  bl_lt : bl0 < m0.length
  fa_ne : fa ≠ bk ∧ fa ≠ bl0
  room : es.length ≤ cap
  small : (gl0len : Int) + es.length + 2 < 2147483648
  lines : ∀ e ∈ es, (e.line : Int) < 18446744073709551616

/-- `i < ef->length` -/
theorem ng_test (mm : Mem) (loc : List Val) (be bea : Nat) (es : List Econf.Entry) (av : List Nat) (i : Nat)
    (hS : SrcMem mm be bea es av) (hl3 : loc[3]? = some (.ptr be 0)) (hl5 : loc[5]? = some (.int (i : Int))) :
    testOf (some ngTest) { mem := mm, loc := loc } = .ok (decide (i < es.length), { mem := mm, loc := loc }) := by
  obtain ⟨kb, k1, k2, k3, k4⟩ := hS.kf
  have hl1 : mm.loadSlot be 1 = .ok (.int es.length) := by simpa using loadSlot_of (i := 1) k1 k2 k4 (by simp)
  by_cases h : i < es.length
  · have : (i : Int) < (es.length : Int) := by omega
    simp [ngTest, testOf, evalE, evalL, readPlace, hl3, hl5, hl1, binop, cmpInt, boolVal, truth, this, h, bind, Except.bind]
  · have : ¬ (i : Int) < (es.length : Int) := by omega
    simp [ngTest, testOf, evalE, evalL, readPlace, hl3, hl5, hl1, binop, cmpInt, boolVal, truth, this, h, bind, Except.bind]

/-- `i++` -/
theorem ng_step (mm : Mem) (a0 a1 a2 a3 a4 a6 a7 a8 : Val) (i : Nat) (hi : (i : Int) + 1 < 18446744073709551616) :
    stepOf (some (.incdec (.var 5) true true .u64)) { mem := mm, loc := [a0, a1, a2, a3, a4, .int (i : Int), a6, a7, a8] } =
      .ok { mem := mm, loc := [a0, a1, a2, a3, a4, .int ((i + 1 : Nat) : Int), a6, a7, a8] } := by
  have : wrapTo .u64 ((i : Int) + 1) = (i : Int) + 1 := wrapTo_u64_small _ (by omega) (by omega)
  simp [stepOf, evalE, evalL, readPlace, writePlace, binop, cmpInt, arith, Ty.signed, convert, this, bind, Except.bind, Except.map]

/-- `added_keys++` as an index -/
theorem ng_idx (mm : Mem) (a0 a1 a2 a3 a5 a6 a7 a8 : Val) (a : Nat) (ha : (a : Int) + 1 < 18446744073709551616) :
    evalE (.incdec (.var 4) true true .u64) { mem := mm, loc := [a0, a1, a2, a3, .int (a : Int), a5, a6, a7, a8] } =
      .ok (.int (a : Int), { mem := mm, loc := [a0, a1, a2, a3, .int ((a + 1 : Nat) : Int), a5, a6, a7, a8] }) := by
  have : wrapTo .u64 ((a : Int) + 1) = (a : Int) + 1 := wrapTo_u64_small _ (by omega) (by omega)
  simp [evalE, evalL, readPlace, writePlace, binop, cmpInt, arith, Ty.signed, convert, this, bind, Except.bind, Except.map]

theorem ng_round {m0 : Mem} {bk bl0 fa cell bu be bea : Nat} {es : List Econf.Entry} {names0 : List (List UInt8)} {gl0len cap : Nat}
    (C : NgCtx m0 bk bl0 fa cell be bea es gl0len cap) (fuel : Nat) (hf : gl0len + es.length + 2 < fuel)
    (i : Nat) (hi : i < es.length) (st : St) (h : NgInv m0 bk bl0 fa cell bu be names0 gl0len cap (selUpTo es i) i st) :
    ∃ T Q st', testOf (some ngTest) st = .ok (true, T) ∧ (exec fuel ngBody T = .normal Q ∨ exec fuel ngBody T = .cont Q) ∧
      stepOf (some (.incdec (.var 5) true true .u64)) Q = .ok st' ∧
      NgInv m0 bk bl0 fa cell bu be names0 gl0len cap (selUpTo es (i + 1)) (i + 1) st' := by
  obtain ⟨v6, v7, hloc⟩ := h.loc
  obtain ⟨mem, loc⟩ := st
  simp only at hloc; subst hloc
  have hS : SrcMem mem be bea es [bk, bl0, fa] := C.src.mono h.agree
  have ha_le : (selUpTo es i).length ≤ i := selUpTo_length_le es i
  have htest := ng_test mem [.ptr bk 0, .ptr cell 0, .ptr bu 0, .ptr be 0, .int ((selUpTo es i).length : Int), .int (i : Int), v6, v7, .int 0]
    be bea es _ i hS rfl rfl
  simp only [hi, decide_true] at htest
  have hcond := ng_cond mem [.ptr bk 0, .ptr cell 0, .ptr bu 0, .ptr be 0, .int ((selUpTo es i).length : Int), .int (i : Int), v6, v7, .int 0]
    be bea es _ i hS hi rfl rfl
  have hMget : ∀ b, b < mem.length → (mem ++ [noneLit])[b]? = mem[b]? := fun b hb => append_get hb
  have hsmallstep : (i : Int) + 1 < 18446744073709551616 := by have := C.small; omega
  by_cases hg : (es[i]).group ≠ Econf.NONE
  · -- another group: nothing happens
    have hsel : isSel es i = false := by simp [isSel, hi, hg]
    refine ⟨_, { mem := mem ++ [noneLit], loc := [.ptr bk 0, .ptr cell 0, .ptr bu 0, .ptr be 0, .int ((selUpTo es i).length : Int), .int (i : Int), v6, v7, .int 0] },
      _, htest, Or.inl ?_, ng_step (mem ++ [noneLit]) _ _ _ _ _ _ _ _ i hsmallstep, ?_⟩
    · unfold ngBody; rw [exec_ite_false (by simpa [hg] using hcond)]; simp [exec]
    · rw [selUpTo_succ es i hi, hsel]
      simp only [Bool.false_eq_true, if_false, List.append_nil]
      exact h.frame (mem ++ [noneLit]) (i + 1) v6 v7 hMget (by simp) C.fa_lt C.bk_lt
  · have hg' : (es[i]).group = Econf.NONE := by simpa using hg
    have hcT : testOf (some ngCond) { mem := mem, loc := [.ptr bk 0, .ptr cell 0, .ptr bu 0, .ptr be 0, .int ((selUpTo es i).length : Int), .int (i : Int), v6, v7, .int 0] } =
        .ok (true, { mem := mem ++ [noneLit], loc := [.ptr bk 0, .ptr cell 0, .ptr bu 0, .ptr be 0, .int ((selUpTo es i).length : Int), .int (i : Int), v6, v7, .int 0] }) := by
      simpa [hg'] using hcond
    have hSM : SrcMem (mem ++ [noneLit]) be bea es [bk, bl0, fa] := hS.mono (fun b hb _ => hMget b hb)
    have hKf := hSM.toKf
    have hel : (entsOf es).length = es.length := by simp [entsOf]
    have hsm := C.small
    obtain ⟨loc', hfd⟩ := first_definition_exec (mem ++ [noneLit]) be bea (entsOf es) i (by rw [hel]; exact hi) hKf (by rw [hel]; omega) fuel (by rw [hel]; omega)
    have hent : (entsOf es)[i]'(by rw [hel]; exact hi) = ((es[i]).group, (es[i]).key) := by simp [entsOf]
    rw [hent] at hfd
    have hargs : evalArgs (.cons (.load (.var 3) .ptr) (.cons (.load (.var 5) .u64) .nil))
        { mem := mem ++ [noneLit], loc := [.ptr bk 0, .ptr cell 0, .ptr bu 0, .ptr be 0, .int ((selUpTo es i).length : Int), .int (i : Int), v6, v7, .int 0] } =
        .ok ([.ptr be 0, .int (i : Int)], { mem := mem ++ [noneLit], loc := [.ptr bk 0, .ptr cell 0, .ptr bu 0, .ptr be 0, .int ((selUpTo es i).length : Int), .int (i : Int), v6, v7, .int 0] }) := by
      simp [evalArgs, evalE, evalL, readPlace, bind, Except.bind]
    by_cases hfirst : firstIdx (entsOf es) (es[i]).group (es[i]).key = i
    · -- the first definition of a group-less key: copied behind the ones copied so far
      have hfirst' := hfirst
      rw [hg'] at hfirst'
      have hsel : isSel es i = true := by simp [isSel, hi, hg', hfirst']
      simp only [hfirst, if_true] at hfd
      have hinl := exec_inl_val (fuel := fuel) (nl := 3) (body := LeafFns.first_definition.body) (i := 7) (dty := .bool) (v := .int 1) (v' := .int 1)
        (st' := { mem := mem ++ [noneLit], loc := loc' }) hargs (by simpa using hfd) (by simp [convert, wrapTo]) (by simp)
      have h1 := h.frame (mem ++ [noneLit]) i v6 (.int 1) hMget (by simp) C.fa_lt C.bk_lt
      obtain ⟨bl', gl', d1, d2, d3, d4, d5, d6, d7, d8⟩ := h1.dest
      obtain ⟨ablk, a1, a2, a3, a4, a5⟩ := h1.arr
      obtain ⟨cblk, c1, c2, c3⟩ := C.cellb
      have hclt : cell < m0.length := (List.getElem?_eq_some_iff.1 c1).1
      have hcM : (mem ++ [noneLit])[cell]? = some cblk := by rw [h1.agree cell hclt C.cellav]; exact c1
      have hbl'ne : ∀ b, b < m0.length → b ≠ bl0 → b ≠ bl' := by
        intro b hb hne
        rcases d2 with e | e
        · rw [e]; exact hne
        · omega
      have hcav := C.cellav
      simp only [List.mem_cons, List.not_mem_nil, or_false, not_or] at hcav
      have hE : EntMem (mem ++ [noneLit]) bea (7 * i) es[i] [bk, bl'] := (C.src.ents i hi).transfer h1.agree (fun b hb hav => by
        simp only [List.mem_cons, List.not_mem_nil, or_false, not_or] at hav ⊢
        exact ⟨hav.1, hbl'ne b hb hav.2.1⟩)
      have hsrc := ng_src (mem ++ [noneLit]) [.ptr bk 0, .ptr cell 0, .ptr bu 0, .ptr be 0, .int ((selUpTo es i).length : Int), .int (i : Int), v6, .int 1, .int 0]
        be bea es _ i hSM hi rfl rfl
      have hidx : ∀ mm, evalE (.incdec (.var 4) true true .u64)
          { mem := mm, loc := List.set [.ptr bk 0, .ptr cell 0, .ptr bu 0, .ptr be 0, .int ((selUpTo es i).length : Int), .int (i : Int), v6, .int 1, .int 0] 6 (.ptr (mem ++ [noneLit]).length 0) } =
          .ok (.int ((selUpTo es i).length : Int), { mem := mm, loc := [.ptr bk 0, .ptr cell 0, .ptr bu 0, .ptr be 0, .int (((selUpTo es i).length + 1 : Nat) : Int), .int (i : Int),
            .ptr (mem ++ [noneLit]).length 0, .int 1, .int 0] }) := fun mm => by
        simpa using ng_idx mm (.ptr bk 0) (.ptr cell 0) (.ptr bu 0) (.ptr be 0) (.int (i : Int)) (.ptr (mem ++ [noneLit]).length 0) (.int 1) (.int 0) (selUpTo es i).length (by omega)
      have hfalt := C.fa_lt
      have hgrow : m0.length ≤ (mem ++ [noneLit]).length := h1.grows
      obtain ⟨kb0, hkb0⟩ : ∃ kb0, m0[bk]? = some kb0 := ⟨_, List.getElem?_eq_getElem C.bk_lt⟩
      obtain ⟨kbM, hkbM, _⟩ := d1.obj
      obtain ⟨m', bl'', gl'', hex, hEnt, hG', hnames, hfr, ⟨ablk', b1, b2, b3, b4, b5, b6⟩, hlen', hblor, hkw', hne', hd', hgll, hfreshv⟩ :=
        C_fe_append (mem ++ [noneLit]) bk bl' cell fa bea (7 * i) gl' es[i] _ _ ngSrc (.incdec (.var 4) true true .u64) 6 (selUpTo es i).length cap
          d1 hE (fun blk hb => (d3 kb0 blk hkb0 hb).1) d4 d5 (by omega) (C.lines _ (List.getElem_mem hi)) fuel (by omega) rfl rfl (by simp) (by decide) hsrc hidx rfl
          cblk hcM c2 c3 ⟨hcav.1, hbl'ne cell hclt hcav.2.1⟩ ablk a1 a2 a3 a5 a4 ⟨C.fa_ne.1, hbl'ne fa C.fa_lt C.fa_ne.2⟩ (by have := C.room; omega)
      refine ⟨_, { mem := m', loc := [.ptr bk 0, .ptr cell 0, .ptr bu 0, .ptr be 0, .int (((selUpTo es i).length + 1 : Nat) : Int), .int (i : Int),
            .ptr (mem ++ [noneLit]).length 0, .int 1, .int 0] },
        _, htest, Or.inl ?_, ng_step m' _ _ _ _ _ _ _ _ i hsmallstep, ?_⟩
      · unfold ngBody; rw [exec_ite_true hcT]
        unfold ngInner; rw [exec_seq_normal hinl]
        rw [exec_ite_true (st' := { mem := mem ++ [noneLit], loc := [.ptr bk 0, .ptr cell 0, .ptr bu 0, .ptr be 0, .int ((selUpTo es i).length : Int), .int (i : Int), v6, .int 1, .int 0] })
          (by have w1 : wrapTo .i32 1 = 1 := by decide
              simp [testOf, evalE, evalL, readPlace, convert, w1, truth, bind, Except.bind, Except.map])]
        exact hex
      · rw [selUpTo_succ es i hi, hsel]
        simp only [if_true]
        have hMlen : (mem ++ [noneLit]).length = mem.length + 1 := by simp
        have hbl''ne : ∀ b, b < (mem ++ [noneLit]).length → b ≠ bl' → b ≠ bl'' := by
          intro b hb hne
          rcases hblor with e | e
          · rw [e]; exact hne
          · omega
        have noStr : ∀ str, (mem ++ [noneLit]).cstr fa 0 ≠ .ok str := by
          intro str hc
          simp [Mem.cstr, Mem.block, a1, a2, a4, cstrFrom, bind, Except.bind] at hc
        refine ⟨⟨.ptr (mem ++ [noneLit]).length 0, .int 1, by simp⟩, ?_, (by show m0.length ≤ m'.length; omega), ?_, ⟨ablk', b1, b2, b3, b4, b5⟩⟩
        · intro b hb hav
          simp only [List.mem_cons, List.not_mem_nil, or_false, not_or] at hav
          rw [hfr b (by omega) hav.1 (hbl'ne b hb hav.2.1) hav.2.2]
          exact h1.agree b hb (by simp [hav])
        · refine ⟨bl'', gl'', hG', ?_, fun kb blk hk hb => (d3 kb kbM hk hkbM).trans (hkw' kbM blk hkbM hb), hne', hd', by simp; omega, ?_, ?_⟩
          · rcases hblor with e | e
            · rw [e]; exact d2
            · right; omega
          · rw [hnames, d7, hg']
            simp only [List.length_append, List.length_singleton, Nat.add_eq_zero_iff, Nat.succ_ne_zero, and_false, if_false]
            split
            · rfl
            · exact addGroup_idem _ _
          · intro j hj
            by_cases hja : j < (selUpTo es i).length
            · rw [List.getElem_append_left hja]
              exact (d8 j hja).keep_in_array a1 b1 b2 (fun k hk => b6 (7 * j + k) (Or.inl (by omega)))
                (fun b hb hav hne => by
                  simp only [List.mem_cons, List.not_mem_nil, or_false, not_or] at hav
                  exact hfr b hb hav.1 hav.2 hne) noStr
                (fun b hb hav => by
                  simp only [List.mem_cons, List.not_mem_nil, or_false, not_or] at hav ⊢
                  exact ⟨hav.1, hbl''ne b hb hav.2⟩)
                (by simp only [List.mem_cons, List.not_mem_nil, or_false, not_or]
                    exact ⟨C.fa_ne.1, hbl''ne fa (by omega) (hbl'ne fa C.fa_lt C.fa_ne.2)⟩)
            · have hje : j = (selUpTo es i).length := by simp at hj; omega
              subst hje
              simpa using hEnt
    · -- a later definition of a key: not copied
      have hsel : isSel es i = false := by simp [isSel, hi, hfirst]
      simp only [hfirst, if_false] at hfd
      have hinl := exec_inl_val (fuel := fuel) (nl := 3) (body := LeafFns.first_definition.body) (i := 7) (dty := .bool) (v := .int 0) (v' := .int 0)
        (st' := { mem := mem ++ [noneLit], loc := loc' }) hargs (by simpa using hfd) (by simp [convert, wrapTo]) (by simp)
      refine ⟨_, { mem := mem ++ [noneLit], loc := [.ptr bk 0, .ptr cell 0, .ptr bu 0, .ptr be 0, .int ((selUpTo es i).length : Int), .int (i : Int), v6, .int 0, .int 0] },
        _, htest, Or.inl ?_, ng_step (mem ++ [noneLit]) _ _ _ _ _ _ _ _ i hsmallstep, ?_⟩
      · unfold ngBody; rw [exec_ite_true hcT]
        unfold ngInner; rw [exec_seq_normal hinl]
        rw [exec_ite_false (st' := { mem := mem ++ [noneLit], loc := [.ptr bk 0, .ptr cell 0, .ptr bu 0, .ptr be 0, .int ((selUpTo es i).length : Int), .int (i : Int), v6, .int 0, .int 0] })
          (by have w0 : wrapTo .i32 0 = 0 := by decide
              simp [testOf, evalE, evalL, readPlace, convert, w0, truth, bind, Except.bind, Except.map])]
        simp [exec]
      · rw [selUpTo_succ es i hi, hsel]
        simp only [Bool.false_eq_true, if_false, List.append_nil]
        exact h.frame (mem ++ [noneLit]) (i + 1) v6 (.int 0) hMget (by simp) C.fa_lt C.bk_lt

/-- the whole loop: afterwards the array holds the copies of all selected entries -/
theorem ng_loop {m0 : Mem} {bk bl0 fa cell bu be bea : Nat} {es : List Econf.Entry} {names0 : List (List UInt8)} {gl0len cap : Nat}
    (C : NgCtx m0 bk bl0 fa cell be bea es gl0len cap) (fuel : Nat) (hf : gl0len + es.length + 2 < fuel)
    (st : St) (h : NgInv m0 bk bl0 fa cell bu be names0 gl0len cap (selUpTo es 0) 0 st) :
    ∃ R, exec fuel ngLoop st = .normal R ∧ NgInv m0 bk bl0 fa cell bu be names0 gl0len cap (selUpTo es es.length) es.length R := by
  unfold ngLoop
  rw [exec_for]
  refine loop_inv _ _ _ _ es.length (fun i st => NgInv m0 bk bl0 fa cell bu be names0 gl0len cap (selUpTo es i) i st)
    (fun i st hi hinv => ng_round C fuel hf i hi st hinv) ?_ st fuel h (by omega)
  intro st hinv
  obtain ⟨v6, v7, hloc⟩ := hinv.loc
  obtain ⟨mem, loc⟩ := st
  simp only at hloc; subst hloc
  have hS : SrcMem mem be bea es [bk, bl0, fa] := C.src.mono hinv.agree
  have htest := ng_test mem [.ptr bk 0, .ptr cell 0, .ptr bu 0, .ptr be 0, .int ((selUpTo es es.length).length : Int), .int (es.length : Int), v6, v7, .int 0]
    be bea es _ es.length hS rfl rfl
  simp only [Nat.lt_irrefl, decide_false] at htest
  exact ⟨_, htest, hinv⟩

/-- what `insert_nogroup` copies: nothing when the base has group-less entries, else the override's group-less first definitions -/
def ngSel (us es : List Econf.Entry) : List Econf.Entry := if Econf.hasGroup us Econf.NONE then [] else selUpTo es es.length

/-- `insert_nogroup` on the generated term, both objects present: it returns the number of entries it copied; the first words of the new array
    hold the model's copies of those entries; the destination's group list has got the group-less marker if anything was copied; the caller's
    other memory is as before. -/
theorem insert_nogroup_exec (m : Mem) (bk bl0 fa cell bu bua be bea : Nat) (us es : List Econf.Entry) (gl0 : List (Nat × List UInt8)) (cap : Nat)
    (hU : KfMem m bu bua (entsOf us)) (husmall : (us.length : Int) + 1 < 18446744073709551616)
    (C : NgCtx m bk bl0 fa cell be bea es gl0.length cap)
    (hG : GlMem m bk bl0 gl0) (hkw : ∀ blk, m[bk]? = some blk → blk.writable = true) (hne : gl0 ≠ [] → bk ≠ bl0) (hd : ∀ x, x ∈ gl0 → x.1 ≠ bk ∧ x.1 ≠ bl0)
    (ablk : Block) (ha1 : m[fa]? = some ablk) (ha2 : ablk.live = true) (ha3 : ablk.writable = true) (ha4 : ablk.cells = []) (ha5 : ablk.slots.length = 7 * cap)
    (fuel : Nat) (hf : gl0.length + es.length + us.length + 2 < fuel) :
    ∃ m' loc' bl' gl', exec fuel LeafFns.insert_nogroup.body
        { mem := m, loc := [.ptr bk 0, .ptr cell 0, .ptr bu 0, .ptr be 0, .undef, .undef, .undef, .undef, .undef] } =
        .ret (.int ((ngSel us es).length : Int)) { mem := m', loc := loc' } ∧
      GlMem m' bk bl' gl' ∧
      gl'.map (·.2) = (if (ngSel us es).length = 0 then gl0.map (·.2) else Econf.addGroup (gl0.map (·.2)) Econf.NONE) ∧
      (∀ j (h : j < (ngSel us es).length), EntMem m' fa (7 * j) (Econf.cpyEntry ((ngSel us es)[j])) [bk, bl']) ∧
      (∀ b, b < m.length → b ∉ [bk, bl0, fa] → m'[b]? = m[b]?) ∧ m.length ≤ m'.length ∧
      (bl' = bl0 ∨ m.length ≤ bl') ∧ (∀ kb blk, m[bk]? = some kb → m'[bk]? = some blk → KfKeep kb blk) ∧ (gl' ≠ [] → bk ≠ bl') ∧ (∀ x, x ∈ gl' → x.1 ≠ bk ∧ x.1 ≠ bl') ∧
      gl'.length ≤ gl0.length + (ngSel us es).length ∧
      ∃ ablk', m'[fa]? = some ablk' ∧ ablk'.live = true ∧ ablk'.writable = true ∧ ablk'.cells = [] ∧ ablk'.slots.length = 7 * cap := by
  have w0 : wrapTo .u64 0 = 0 := wrapTo_u64_small 0 (by decide) (by decide)
  have hnz : (0 : UInt8) ∉ ([95, 110, 111, 110, 101, 95] : List UInt8) := by decide
  have hlit : (m ++ [noneLit]).cstr m.length 0 = .ok Econf.NONE := lit_cstr m _ hnz
  have hMget : ∀ b, b < m.length → (m ++ [noneLit])[b]? = m[b]? := fun b hb => append_get hb
  have hUM : KfMem (m ++ [noneLit]) bu bua (entsOf us) := hU.mono hMget
  obtain ⟨locg, hhg⟩ := C_has_group (m ++ [noneLit]) bu bua m.length us Econf.NONE hUM hlit husmall fuel (by omega)
  rw [insert_nogroup_shape]
  have hinit : exec fuel (.expr (.assign (.var 4) (.cast .u64 (.lit 0 .i32)) .u64))
      { mem := m, loc := [.ptr bk 0, .ptr cell 0, .ptr bu 0, .ptr be 0, .undef, .undef, .undef, .undef, .undef] } =
      .normal { mem := m, loc := [.ptr bk 0, .ptr cell 0, .ptr bu 0, .ptr be 0, .int 0, .undef, .undef, .undef, .undef] } := by
    simp [exec, evalE, evalL, writePlace, convert, w0, bind, Except.bind]
  rw [exec_seq_normal hinit]
  have ht2 : testOf (some (.load (.var 2) .ptr)) { mem := m, loc := [.ptr bk 0, .ptr cell 0, .ptr bu 0, .ptr be 0, .int 0, .undef, .undef, .undef, .undef] } =
      .ok (true, { mem := m, loc := [.ptr bk 0, .ptr cell 0, .ptr bu 0, .ptr be 0, .int 0, .undef, .undef, .undef, .undef] }) := by
    simp [testOf, evalE, evalL, readPlace, truth, bind, Except.bind, Except.map]
  have ht3 : testOf (some (.load (.var 3) .ptr)) { mem := m, loc := [.ptr bk 0, .ptr cell 0, .ptr bu 0, .ptr be 0, .int 0, .undef, .undef, .undef, .undef] } =
      .ok (true, { mem := m, loc := [.ptr bk 0, .ptr cell 0, .ptr bu 0, .ptr be 0, .int 0, .undef, .undef, .undef, .undef] }) := by
    simp [testOf, evalE, evalL, readPlace, truth, bind, Except.bind, Except.map]
  have hargs : evalArgs (.cons (.load (.var 2) .ptr) (.cons (.strlit [95, 110, 111, 110, 101, 95]) .nil))
      { mem := m, loc := [.ptr bk 0, .ptr cell 0, .ptr bu 0, .ptr be 0, .int 0, .undef, .undef, .undef, .undef] } =
      .ok ([.ptr bu 0, .ptr m.length 0], { mem := m ++ [noneLit], loc := [.ptr bk 0, .ptr cell 0, .ptr bu 0, .ptr be 0, .int 0, .undef, .undef, .undef, .undef] }) := by
    simp [evalArgs, evalE, evalL, readPlace, noneLit, bind, Except.bind]
  have w0' : wrapTo .i32 0 = 0 := by decide
  have w1' : wrapTo .i32 1 = 1 := by decide
  have hGM : GlMem (m ++ [noneLit]) bk bl0 gl0 := hG.grow hMget
  have hbklt := C.bk_lt
  have hfalt := C.fa_lt
  by_cases hhas : Econf.hasGroup us Econf.NONE = true
  · -- the base has group-less entries: nothing is inserted
    simp only [hhas, if_true] at hhg
    have hinl := exec_inl_val (fuel := fuel) (nl := 3) (body := LeafFns.has_group.body) (i := 8) (dty := .bool) (v := .int 1) (v' := .int 1)
      (st' := { mem := m ++ [noneLit], loc := locg }) hargs (by simpa using hhg) (by simp [convert, wrapTo]) (by simp)
    have hbody : exec fuel (.ite (.load (.var 2) .ptr) (.ite (.load (.var 3) .ptr)
          (.seq (.inl (some (.var 8)) .bool (.cons (.load (.var 2) .ptr) (.cons (.strlit [95, 110, 111, 110, 101, 95]) .nil)) 3 LeafFns.has_group.body)
            (.ite (.un .lnot (.load (.var 8) .bool) .i32) (.seq (.expr (.assign (.var 5) (.cast .u64 (.lit 0 .i32)) .u64)) ngLoop) .skip))
          .skip) .skip) { mem := m, loc := [.ptr bk 0, .ptr cell 0, .ptr bu 0, .ptr be 0, .int 0, .undef, .undef, .undef, .undef] } =
        .normal { mem := m ++ [noneLit], loc := [.ptr bk 0, .ptr cell 0, .ptr bu 0, .ptr be 0, .int 0, .undef, .undef, .undef, .int 1] } := by
      rw [exec_ite_true ht2, exec_ite_true ht3, exec_seq_normal hinl]
      rw [exec_ite_false (st' := { mem := m ++ [noneLit], loc := [.ptr bk 0, .ptr cell 0, .ptr bu 0, .ptr be 0, .int 0, .undef, .undef, .undef, .int 1] })
        (by simp [testOf, evalE, evalL, readPlace, unop, boolVal, truth, bind, Except.bind, Except.map])]
      simp [exec]
    rw [exec_seq_normal hbody]
    have hsel : ngSel us es = [] := by simp [ngSel, hhas]
    rw [hsel]
    refine ⟨m ++ [noneLit], [.ptr bk 0, .ptr cell 0, .ptr bu 0, .ptr be 0, .int 0, .undef, .undef, .undef, .int 1], bl0, gl0, by simp [exec, evalE, evalL, readPlace, bind, Except.bind], hGM, by simp, by simp,
      fun b hb _ => hMget b hb, by simp, Or.inl rfl, KfKeep.same hkw (hMget bk hbklt), hne, hd, by simp,
      ⟨ablk, by rw [hMget fa hfalt]; exact ha1, ha2, ha3, ha4, ha5⟩⟩
  · -- no group-less entry in the base: the loop runs
    have hhas' : Econf.hasGroup us Econf.NONE = false := by simpa using hhas
    simp only [hhas', Bool.false_eq_true, if_false] at hhg
    have hinl := exec_inl_val (fuel := fuel) (nl := 3) (body := LeafFns.has_group.body) (i := 8) (dty := .bool) (v := .int 0) (v' := .int 0)
      (st' := { mem := m ++ [noneLit], loc := locg }) hargs (by simpa using hhg) (by simp [convert, wrapTo]) (by simp)
    have hsel0 : selUpTo es 0 = [] := by simp [selUpTo]
    -- the invariant at the start of the loop
    have hinv0 : NgInv m bk bl0 fa cell bu be (gl0.map (·.2)) gl0.length cap (selUpTo es 0) 0
        { mem := m ++ [noneLit], loc := [.ptr bk 0, .ptr cell 0, .ptr bu 0, .ptr be 0, .int 0, .int 0, .undef, .undef, .int 0] } := by
      rw [hsel0]
      refine ⟨⟨.undef, .undef, by simp⟩, fun b hb _ => hMget b hb, by simp, ?_, ⟨ablk, by rw [hMget fa hfalt]; exact ha1, ha2, ha3, ha4, ha5⟩⟩
      exact ⟨bl0, gl0, hGM, Or.inl rfl, KfKeep.same hkw (hMget bk hbklt), hne, hd, by simp, by simp, by simp⟩
    obtain ⟨R, hloop, hinvR⟩ := ng_loop C fuel (by omega) _ hinv0
    obtain ⟨v6, v7, hlocR⟩ := hinvR.loc
    obtain ⟨memR, locR⟩ := R
    simp only at hlocR; subst hlocR
    have hbody : exec fuel (.ite (.load (.var 2) .ptr) (.ite (.load (.var 3) .ptr)
          (.seq (.inl (some (.var 8)) .bool (.cons (.load (.var 2) .ptr) (.cons (.strlit [95, 110, 111, 110, 101, 95]) .nil)) 3 LeafFns.has_group.body)
            (.ite (.un .lnot (.load (.var 8) .bool) .i32) (.seq (.expr (.assign (.var 5) (.cast .u64 (.lit 0 .i32)) .u64)) ngLoop) .skip))
          .skip) .skip) { mem := m, loc := [.ptr bk 0, .ptr cell 0, .ptr bu 0, .ptr be 0, .int 0, .undef, .undef, .undef, .undef] } =
        .normal { mem := memR, loc := [.ptr bk 0, .ptr cell 0, .ptr bu 0, .ptr be 0, .int ((selUpTo es es.length).length : Int), .int (es.length : Int), v6, v7, .int 0] } := by
      rw [exec_ite_true ht2, exec_ite_true ht3, exec_seq_normal hinl]
      rw [exec_ite_true (st' := { mem := m ++ [noneLit], loc := [.ptr bk 0, .ptr cell 0, .ptr bu 0, .ptr be 0, .int 0, .undef, .undef, .undef, .int 0] })
        (by simp [testOf, evalE, evalL, readPlace, unop, boolVal, truth, bind, Except.bind, Except.map])]
      have hi5 : exec fuel (.expr (.assign (.var 5) (.cast .u64 (.lit 0 .i32)) .u64))
          { mem := m ++ [noneLit], loc := [.ptr bk 0, .ptr cell 0, .ptr bu 0, .ptr be 0, .int 0, .undef, .undef, .undef, .int 0] } =
          .normal { mem := m ++ [noneLit], loc := [.ptr bk 0, .ptr cell 0, .ptr bu 0, .ptr be 0, .int 0, .int 0, .undef, .undef, .int 0] } := by
        simp [exec, evalE, evalL, writePlace, convert, w0, bind, Except.bind]
      rw [exec_seq_normal hi5]
      exact hloop
    rw [exec_seq_normal hbody]
    have hsel : ngSel us es = selUpTo es es.length := by simp [ngSel, hhas']
    rw [hsel]
    obtain ⟨bl', gl', d1, d2, d3, d4, d5, d6, d7, d8⟩ := hinvR.dest
    obtain ⟨ablk', b1, b2, b3, b4, b5⟩ := hinvR.arr
    exact ⟨memR, [.ptr bk 0, .ptr cell 0, .ptr bu 0, .ptr be 0, .int ((selUpTo es es.length).length : Int), .int (es.length : Int), v6, v7, .int 0],
      bl', gl', by simp [exec, evalE, evalL, readPlace, bind, Except.bind], d1, d7, d8, hinvR.agree, hinvR.grows, d2, d3, d4, d5, d6,
      ⟨ablk', b1, b2, b3, b4, b5⟩⟩

/-- the first definitions of a list, by position: entry `j` stays when none of the entries before it has its group and key -/
theorem firstDefsAux_eq (seen rest : List Econf.Entry) :
    Econf.firstDefsAux seen rest = (List.range rest.length).filterMap (fun j =>
      match rest[j]? with
      | some e => if Econf.defines (seen ++ rest.take j) e.group e.key then none else some e
      | none => none) := by
  induction rest generalizing seen with
  | nil => simp [Econf.firstDefsAux]
  | cons e r ih =>
    rw [List.length_cons, List.range_succ_eq_map, List.filterMap_cons, List.filterMap_map]
    have htail : (List.range r.length).filterMap ((fun j =>
          match (e :: r)[j]? with
          | some x => if Econf.defines (seen ++ (e :: r).take j) x.group x.key then none else some x
          | none => none) ∘ Nat.succ) = Econf.firstDefsAux (seen ++ [e]) r := by
      rw [ih (seen ++ [e])]
      congr 1
      funext j
      simp [List.append_assoc]
      cases r[j]? <;> rfl
    rw [htail]
    rw [show Econf.firstDefsAux seen (e :: r) = (if Econf.defines seen e.group e.key then Econf.firstDefsAux (seen ++ [e]) r
      else e :: Econf.firstDefsAux (seen ++ [e]) r) from rfl]
    by_cases hd : Econf.defines seen e.group e.key = true
    · simp [hd]
    · simp [hd]

theorem filterMap_congr' {α β : Type} {f g : α → Option β} {l : List α} (h : ∀ x, x ∈ l → f x = g x) : l.filterMap f = l.filterMap g := by
  induction l with
  | nil => rfl
  | cons a l ih =>
    have ha := h a (by simp)
    have ih' := ih (fun x hx => h x (by simp [hx]))
    simp only [List.filterMap_cons, ha, ih']

theorem defines_take_iff (es : List Econf.Entry) (j : Nat) (g k : List UInt8) :
    Econf.defines (es.take j) g k = true ↔ ∃ i, ∃ h : i < es.length, i < j ∧ (es[i]).group = g ∧ (es[i]).key = k := by
  simp only [Econf.defines, List.any_eq_true, Bool.and_eq_true, beq_iff_eq]
  constructor
  · rintro ⟨x, hx, h1, h2⟩
    obtain ⟨i, hi, rfl⟩ := List.getElem_of_mem hx
    rw [List.length_take] at hi
    refine ⟨i, by omega, by omega, ?_, ?_⟩
    · simpa using h1
    · simpa using h2
  · rintro ⟨i, hi, hij, h1, h2⟩
    refine ⟨es[i], ?_, h1, h2⟩
    rw [List.mem_take_iff_getElem]
    exact ⟨i, by omega, rfl⟩

/-- `first_definition` in terms of the model: entry `j` is the first with its group and key iff no earlier entry defines them -/
theorem firstIdx_eq_iff (es : List Econf.Entry) (j : Nat) (hj : j < es.length) :
    firstIdx (entsOf es) (es[j]).group (es[j]).key = j ↔ Econf.defines (es.take j) (es[j]).group (es[j]).key = false := by
  have hl : (entsOf es).length = es.length := by simp [entsOf]
  have hget : ∀ i (h : i < es.length), (entsOf es)[i]'(by rw [hl]; exact h) = ((es[i]).group, (es[i]).key) := by
    intro i h; simp [entsOf]
  constructor
  · intro hf
    cases hd : Econf.defines (es.take j) (es[j]).group (es[j]).key with
    | false => rfl
    | true =>
      obtain ⟨i, hi, hij, h1, h2⟩ := (defines_take_iff es j _ _).1 hd
      have := firstIdx_before (entsOf es) (es[j]).group (es[j]).key i (by rw [hf]; exact hij)
      rw [hget i hi] at this
      exact absurd ⟨h1, h2⟩ this
  · intro hd
    have hle := firstIdx_le (entsOf es) (es[j]).group (es[j]).key
    by_cases hlt : firstIdx (entsOf es) (es[j]).group (es[j]).key < j
    · have hat := firstIdx_at (entsOf es) (es[j]).group (es[j]).key (by omega)
      rw [hget _ (by omega)] at hat
      have : Econf.defines (es.take j) (es[j]).group (es[j]).key = true :=
        (defines_take_iff es j _ _).2 ⟨_, by omega, hlt, hat.1, hat.2⟩
      rw [hd] at this; exact absurd this (by simp)
    · by_cases hgt : j < firstIdx (entsOf es) (es[j]).group (es[j]).key
      · have := firstIdx_before (entsOf es) (es[j]).group (es[j]).key j hgt
        rw [hget j hj] at this
        exact absurd ⟨rfl, rfl⟩ this
      · omega

/-- the entries `insert_nogroup` selects are the model's: the group-less first definitions, in order -/
theorem selUpTo_model (es : List Econf.Entry) :
    selUpTo es es.length = (Econf.firstDefs es).filter (fun e => e.group == Econf.NONE) := by
  unfold selUpTo Econf.firstDefs
  rw [firstDefsAux_eq, List.filterMap_filter, List.filter_filterMap]
  apply filterMap_congr'
  intro j hj
  have hj' : j < es.length := by simpa using hj
  have hiff := firstIdx_eq_iff es j hj'
  simp only [isSel, List.getElem?_eq_getElem hj', List.nil_append]
  by_cases hg : (es[j]).group == Econf.NONE
  · by_cases hd : Econf.defines (es.take j) (es[j]).group (es[j]).key = true
    · have : ¬ firstIdx (entsOf es) (es[j]).group (es[j]).key = j := fun h => by rw [hiff.1 h] at hd; exact absurd hd (by simp)
      simp [hg, hd, this]
    · have hd' : Econf.defines (es.take j) (es[j]).group (es[j]).key = false := by simpa using hd
      simp [hg, hd', hiff.2 hd', Option.filter]
  · simp [hg]
    split <;> simp [hg, Option.filter]

theorem ngSel_model (us es : List Econf.Entry) : (ngSel us es).map Econf.cpyEntry = Econf.insertNoGroup us es := by
  unfold ngSel Econf.insertNoGroup
  split
  · rfl
  · rw [selUpTo_model]

/-- `insert_nogroup`, generated term against the model: it returns the length of the model's `insertNoGroup`, the new array starts with
    exactly those entries, the destination's group list is the old one with the group-less marker added if anything was inserted, and
    nothing else of the caller's memory has changed -/
theorem C_insert_nogroup (m : Mem) (bk bl0 fa cell bu bua be bea : Nat) (us es : List Econf.Entry) (gl0 : List (Nat × List UInt8)) (cap : Nat)
    (hU : KfMem m bu bua (entsOf us)) (husmall : (us.length : Int) + 1 < 18446744073709551616)
    (C : NgCtx m bk bl0 fa cell be bea es gl0.length cap)
    (hG : GlMem m bk bl0 gl0) (hkw : ∀ blk, m[bk]? = some blk → blk.writable = true) (hne : gl0 ≠ [] → bk ≠ bl0) (hd : ∀ x, x ∈ gl0 → x.1 ≠ bk ∧ x.1 ≠ bl0)
    (ablk : Block) (ha1 : m[fa]? = some ablk) (ha2 : ablk.live = true) (ha3 : ablk.writable = true) (ha4 : ablk.cells = []) (ha5 : ablk.slots.length = 7 * cap)
    (fuel : Nat) (hf : gl0.length + es.length + us.length + 2 < fuel) :
    ∃ m' loc' bl' gl', exec fuel LeafFns.insert_nogroup.body
        { mem := m, loc := [.ptr bk 0, .ptr cell 0, .ptr bu 0, .ptr be 0, .undef, .undef, .undef, .undef, .undef] } =
        .ret (.int ((Econf.insertNoGroup us es).length : Int)) { mem := m', loc := loc' } ∧
      GlMem m' bk bl' gl' ∧
      gl'.map (·.2) = (if (Econf.insertNoGroup us es).length = 0 then gl0.map (·.2) else Econf.addGroup (gl0.map (·.2)) Econf.NONE) ∧
      (∀ j (h : j < (Econf.insertNoGroup us es).length), EntMem m' fa (7 * j) ((Econf.insertNoGroup us es)[j]) [bk, bl']) ∧
      (∀ b, b < m.length → b ∉ [bk, bl0, fa] → m'[b]? = m[b]?) ∧ m.length ≤ m'.length := by
  obtain ⟨m', loc', bl', gl', hex, hG', hn, hE, hfr, hlen', _⟩ :=
    insert_nogroup_exec m bk bl0 fa cell bu bua be bea us es gl0 cap hU husmall C hG hkw hne hd ablk ha1 ha2 ha3 ha4 ha5 fuel hf
  have hm := ngSel_model us es
  have hlen : (Econf.insertNoGroup us es).length = (ngSel us es).length := by rw [← hm]; simp
  refine ⟨m', loc', bl', gl', by rw [hlen]; exact hex, hG', by rw [hlen]; exact hn, ?_, hfr, hlen'⟩
  intro j hj
  have hj' : j < (ngSel us es).length := by omega
  have : (Econf.insertNoGroup us es)[j] = Econf.cpyEntry ((ngSel us es)[j]) := by simp [← hm]
  rw [this]; exact hE j hj'

end LeafKf

namespace LeafKf.Example

/-! A concrete caller's memory that meets every hypothesis of `C_insert_nogroup` (the premises are satisfiable, and by more than
    the empty object): a destination without groups, a base with one entry in group `A`, an override with a group-less entry
    (value, comment behind the value), a second definition of the same key, and an entry of another group without value. -/

def str (s : List UInt8) : Block := { cells := (s ++ [0]).map some }

def us : List Econf.Entry := [{ group := [65], key := [107], value := some [49], cb := none, ca := none, line := 1, quotes := false }]
def es : List Econf.Entry := [
  { group := Econf.NONE, key := [120], value := some [50], cb := none, ca := some [99], line := 2, quotes := true },
  { group := Econf.NONE, key := [120], value := some [51], cb := none, ca := none, line := 3, quotes := false },
  { group := [66], key := [121], value := none, cb := none, ca := none, line := 5, quotes := false }]

def kfSlots (arr : Val) (n : Int) (groups : Val) (ng : Int) : List Val :=
  [arr, .int n, .int n, .int 61, .int 35, .int 0, .null, .int 0, .int 0, .null, .int 0, .null, .int 0, groups, .int ng, .null]

def mem : Mem := [
  /- 0 destination -/ { cells := [], slots := kfSlots .null 0 (.ptr 1 0) 0 },
  /- 1 its group array -/ { cells := [], slots := [.null] },
  /- 2 the cell `*fe` -/ { cells := [], slots := [.ptr 3 0] },
  /- 3 the new array, room for 3 -/ { cells := [], slots := List.replicate 21 .undef },
  /- 4 base -/ { cells := [], slots := kfSlots (.ptr 5 0) 1 .null 0 },
  /- 5 its entries -/ { cells := [], slots := [.ptr 6 0, .ptr 7 0, .ptr 8 0, .null, .null, .int 1, .int 0] },
  str [65], str [107], str [49],
  /- 9 override -/ { cells := [], slots := kfSlots (.ptr 10 0) 3 .null 0 },
  /- 10 its entries -/ { cells := [], slots := [.ptr 11 0, .ptr 12 0, .ptr 13 0, .null, .ptr 14 0, .int 2, .int 1,
                                                 .ptr 15 0, .ptr 16 0, .ptr 17 0, .null, .null, .int 3, .int 0,
                                                 .ptr 18 0, .ptr 19 0, .null, .null, .null, .int 5, .int 0] },
  str Econf.NONE, str [120], str [50], str [99], str Econf.NONE, str [120], str [51], str [66], str [121]]

theorem base_ok : KfMem mem 4 5 (entsOf us) :=
  ⟨⟨_, rfl, rfl, rfl, rfl⟩, ⟨_, rfl, rfl, rfl, fun i hi => by
    have : i = 0 := by simp [entsOf, us] at hi; omega
    subst this
    exact ⟨6, 7, rfl, rfl, rfl, rfl⟩⟩⟩

theorem ent0 : EntMem mem 10 (7 * 0) es[0] [0, 1, 3] :=
  ⟨by decide, ⟨11, rfl, rfl, by decide⟩, ⟨12, rfl, rfl, by decide⟩, ⟨.ptr 13 0, rfl, .some 13 _ rfl, fun b hb => by cases hb; decide⟩,
    ⟨.null, rfl, .none, fun b hb => by cases hb⟩, ⟨.ptr 14 0, rfl, .some 14 _ rfl, fun b hb => by cases hb; decide⟩, rfl⟩

theorem ent1 : EntMem mem 10 (7 * 1) es[1] [0, 1, 3] :=
  ⟨by decide, ⟨15, rfl, rfl, by decide⟩, ⟨16, rfl, rfl, by decide⟩, ⟨.ptr 17 0, rfl, .some 17 _ rfl, fun b hb => by cases hb; decide⟩,
    ⟨.null, rfl, .none, fun b hb => by cases hb⟩, ⟨.null, rfl, .none, fun b hb => by cases hb⟩, rfl⟩

theorem ent2 : EntMem mem 10 (7 * 2) es[2] [0, 1, 3] :=
  ⟨by decide, ⟨18, rfl, rfl, by decide⟩, ⟨19, rfl, rfl, by decide⟩, ⟨.null, rfl, .none, fun b hb => by cases hb⟩,
    ⟨.null, rfl, .none, fun b hb => by cases hb⟩, ⟨.null, rfl, .none, fun b hb => by cases hb⟩, rfl⟩

theorem override_ok : SrcMem mem 9 10 es [0, 1, 3] :=
  ⟨⟨_, rfl, rfl, rfl, rfl⟩, by decide, ⟨_, rfl, rfl, rfl⟩, by decide, fun i hi => by
    have : i = 0 ∨ i = 1 ∨ i = 2 := by simp [es] at hi; omega
    rcases this with rfl | rfl | rfl
    · exact ent0
    · exact ent1
    · exact ent2⟩

theorem ctx_ok : NgCtx mem 0 1 3 2 9 10 es 0 3 :=
  ⟨override_ok, ⟨_, rfl, rfl, rfl⟩, by decide, by decide, by decide, by decide, by decide, by decide, by decide, fun e he => by
    simp [es] at he
    rcases he with rfl | rfl | rfl <;> decide⟩

theorem dest_ok : GlMem mem 0 1 [] := Or.inl ⟨⟨_, rfl, rfl, rfl, rfl⟩, ⟨_, rfl, rfl, rfl, fun i hi => by simp at hi⟩⟩

/-- what the model says for this pair: exactly the first group-less definition, its quote flag cleared -/
theorem model_says : Econf.insertNoGroup us es = [{ group := Econf.NONE, key := [120], value := some [50], cb := none, ca := some [99], line := 2, quotes := false }] := by
  decide

/-- and so does the translated C function on this memory, by the general theorem -/
theorem run : ∃ m' loc' bl' gl', exec 10 LeafFns.insert_nogroup.body
      { mem := mem, loc := [.ptr 0 0, .ptr 2 0, .ptr 4 0, .ptr 9 0, .undef, .undef, .undef, .undef, .undef] } = .ret (.int 1) { mem := m', loc := loc' } ∧
    GlMem m' 0 bl' gl' ∧ gl'.map (·.2) = [Econf.NONE] ∧
    EntMem m' 3 0 { group := Econf.NONE, key := [120], value := some [50], cb := none, ca := some [99], line := 2, quotes := false } [0, bl'] := by
  obtain ⟨m', loc', bl', gl', hex, hG, hn, hE, _, _⟩ :=
    C_insert_nogroup mem 0 1 3 2 4 5 9 10 us es [] 3 base_ok (by decide) ctx_ok dest_ok
      (fun blk hb => by cases hb; rfl) (by decide) (fun x hx => by cases hx) _ rfl rfl rfl rfl rfl 10 (by decide)
  rw [model_says] at hex hn hE
  exact ⟨m', loc', bl', gl', hex, hG, by simpa [Econf.addGroup] using hn, by simpa using hE 0 (by simp)⟩

end LeafKf.Example
