import Econf.Lemmas.LayeredLemmas
import Econf.KeyFileOps
import Econf.Writer

/-!
  C18 — threads working on their own configuration objects do not disturb each other.

  The model makes the process-wide state explicit (`Global`): the settings (security flags, drop-in
  directory list — changed only by the setters documented as global) and the last-error-location
  record (written by every read).  A thread's call is a step on `Global` and on the thread's private
  part.  Two frame conditions are proved for the model's calls (`C18_frame_*`):
  (F1) a call leaves the settings as they are, (F2) its answer and its effect on the private part do
  not depend on the error-location record.  From them follows, for EVERY interleaving of any number
  of threads with call sequences of any length, that each thread obtains exactly the answers of
  running its calls alone (`C18_noninterference`).
  What the model cannot exhibit: a data race inside one call (steps are atomic here) and memory that
  is shared without being in `Global`.  The second is covered by `Struct.C18_globals` over the
  extracted static objects, the first by ThreadSanitizer on the executed schedules.
-/

set_option linter.unusedSimpArgs false

namespace Econf

/-- the settings part of the process-wide state -/
def settingsOf (g : Global) : (Bool × Nat × Bool × Nat × Bool × Bool × Nat × Nat) × List Str := (secOf g, dataOf g)

/-- a system of calls on private state -/
structure CallSys where
  Priv : Type
  Call : Type
  Out : Type
  step : Global → Priv → Call → Global × Priv × Out
  /-- (F1) calls do not change the settings -/
  keeps : ∀ g p c, settingsOf (step g p c).1 = settingsOf g
  /-- (F2) answers and private effects depend on the settings only -/
  indep : ∀ g1 g2 p c, settingsOf g1 = settingsOf g2 → (step g1 p c).2 = (step g2 p c).2

/-- one thread alone -/
def CallSys.solo (S : CallSys) : Global → S.Priv → List S.Call → List S.Out
  | _, _, [] => []
  | g, p, c :: cs => (S.step g p c).2.2 :: S.solo (S.step g p c).1 (S.step g p c).2.1 cs

/-- an interleaved run: events are (thread, call); returns the answers tagged with their thread -/
def CallSys.run (S : CallSys) : Global → (Nat → S.Priv) → List (Nat × S.Call) → List (Nat × S.Out)
  | _, _, [] => []
  | g, ps, (i, c) :: evs =>
    let r := S.step g (ps i) c
    (i, r.2.2) :: S.run r.1 (fun j => if j = i then r.2.1 else ps j) evs

theorem CallSys.solo_indep (S : CallSys) (g1 g2 : Global) (p : S.Priv) (cs : List S.Call) (h : settingsOf g1 = settingsOf g2) :
    S.solo g1 p cs = S.solo g2 p cs := by
  induction cs generalizing g1 g2 p with
  | nil => rfl
  | cons c cs ih =>
    simp only [CallSys.solo]
    have h2 := S.indep g1 g2 p c h
    rw [h2]
    congr 1
    apply ih
    rw [S.keeps, S.keeps, h]

/-- every interleaving: the answers thread `i` obtains are those of its own calls run alone -/
theorem C18_noninterference (S : CallSys) (g : Global) (ps : Nat → S.Priv) (evs : List (Nat × S.Call)) (i : Nat) :
    ((S.run g ps evs).filter (fun e => e.1 == i)).map (·.2) =
      S.solo g (ps i) ((evs.filter (fun e => e.1 == i)).map (·.2)) := by
  induction evs generalizing g ps with
  | nil => rfl
  | cons ev evs ih =>
    obtain ⟨j, c⟩ := ev
    simp only [CallSys.run]
    by_cases hj : j = i
    · subst hj
      simp only [List.filter_cons, beq_self_eq_true, if_true, List.map_cons, CallSys.solo]
      rw [ih]
      simp
    · have hb : (j == i) = false := by simpa using hj
      simp only [List.filter_cons, hb, Bool.false_eq_true, if_false]
      rw [ih]
      have hi : (if i = j then (S.step g (ps j) c).2.1 else ps i) = ps i := by
        rw [if_neg (fun h : i = j => hj h.symm)]
      rw [hi]
      exact S.solo_indep _ _ _ _ (S.keeps g (ps j) c)

/-! ### the model's calls satisfy the frame conditions -/

theorem askCallback_settings (cb : Callback) (s : RdState) (p : Str) : settingsOf (askCallback cb s p).1.g = settingsOf s.g := by
  rw [askCallback_g]

theorem readOpened_settings (ctx : RdCtx) (s : RdState) (j p : Bool) (a d c : Str) :
    settingsOf (readOpened ctx s j p a d c).1.g = settingsOf s.g := by
  unfold settingsOf
  rw [readOpened_sec, readOpened_data ctx s s rfl]
  -- dataOf of the result state equals dataOf of the start state
  congr 1
  unfold readOpened dataOf
  cases ctx.fs.read a with
  | none => rfl
  | some content =>
    simp only
    cases parseBytes { delim := d, comment := c, python := p, join := j } content with
    | error en => rfl
    | ok st => simp only; split <;> rfl

/-- (F1) for a single-file read: security flags and drop-in list are untouched -/
theorem C18_frame_keeps_file (ctx : RdCtx) (s : RdState) (j p : Bool) (path d c : Str) :
    settingsOf (readFileCB ctx s j p path d c).1.g = settingsOf s.g := by
  unfold readFileCB
  cases ctx.fs.lstat path with
  | none => rfl
  | some node =>
    simp only
    cases gate s.g node with
    | some e => rfl
    | none =>
      simp only
      have hg := askCallback_g ctx.cb s path
      generalize askCallback ctx.cb s path = x at hg
      obtain ⟨t, a⟩ := x
      simp only at hg ⊢
      cases a with
      | false => simp only [Bool.not_false, if_true]; rw [hg]
      | true =>
        simp only [Bool.not_true, Bool.false_eq_true, if_false]
        cases absPath ctx.fs path with
        | none => simp only; rw [hg]
        | some ab => simp only; rw [readOpened_settings]; simp only; rw [hg]

/-- (F2) for a single-file read: the result depends on the settings only, not on the error-location record -/
theorem C18_frame_indep_file (fs : FS) (cb : Callback) (s1 s2 : RdState) (j p : Bool) (path d c : Str)
    (h : settingsOf s1.g = settingsOf s2.g) (hc : s1.calls = s2.calls) :
    (readFileCB { fs := fs, cb := cb } s1 j p path d c).2 = (readFileCB { fs := fs, cb := cb } s2 j p path d c).2 := by
  unfold settingsOf at h
  simp only [Prod.mk.injEq] at h
  exact (readFileCB_sim fs cb cb s1 s2 j p path d c h.2 (fun node _ => gate_secOf _ _ h.1 node) (by rw [hc])).1

/-- (F2) for a whole history read without callback -/
theorem C18_frame_indep_history (fs : FS) (s1 s2 : RdState) (dirs : List Str) (name suffix : Option Str) (delim : Option Str)
    (comment : Str) (j p : Bool) (confDirs : List Str) (h : settingsOf s1.g = settingsOf s2.g) :
    (readHistory { fs := fs, cb := none } s1 dirs name suffix delim comment j p confDirs).2 =
      (readHistory { fs := fs, cb := none } s2 dirs name suffix delim comment j p confDirs).2 := by
  unfold settingsOf at h
  simp only [Prod.mk.injEq] at h
  exact (readHistory_sim fs none none (fun _ _ _ => rfl) s1 s2 h.2 dirs name suffix delim comment j p confDirs
    (fun _ node _ => gate_secOf _ _ h.1 node)).1

/-- a concrete call system: threads reading single files of their private tree and querying / changing
    their private object -/
inductive PCall where
  | readFile (path delim comment : Str)
  | set (g : Option Str) (k : Str) (v : Str)
  | get (g : Option Str) (k : Str)
  | write

structure PState' where
  fs : FS
  obj : Option KeyFile

inductive POut where
  | code (e : Err)
  | text (r : Except Err (Option Str))
  | bytes (b : Option Str)

def pstep (g : Global) (p : PState') : PCall → Global × PState' × POut
  | .readFile path d c =>
    let r := readFileCB { fs := p.fs, cb := none } { g := g } false false path d c
    (r.1.g, { p with obj := match r.2 with
      | .ok kf => some kf
      | .error _ => none }, .code (match r.2 with
      | .ok _ => .success
      | .error e => e))
  | .set grp k v =>
    (match p.obj with
     | none => (g, p, .code .fileListIsNull)
     | some kf => let r := setValue kf grp (some k) (.ok v); (g, { p with obj := some r.1 }, .code r.2))
  | .get grp k =>
    (match p.obj with
     | none => (g, p, .text (.error .error))
     | some kf => (g, p, .text (getString kf grp (some k))))
  | .write => (g, p, .bytes (p.obj.map writeBytes))

/-- the concrete call system satisfies (F1) and (F2) -/
def modelSys : CallSys where
  Priv := PState'
  Call := PCall
  Out := POut
  step := pstep
  keeps := by
    intro g p c
    cases c with
    | readFile path d c => exact C18_frame_keeps_file _ { g := g } _ _ _ _ _
    | set grp k v => unfold pstep; cases p.obj <;> rfl
    | get grp k => unfold pstep; cases p.obj <;> rfl
    | write => rfl
  indep := by
    intro g1 g2 p c h
    cases c with
    | readFile path d c =>
      have := C18_frame_indep_file p.fs none { g := g1 } { g := g2 } false false path d c h rfl
      simp only [pstep]
      rw [this]
    | set grp k v => unfold pstep; cases p.obj <;> rfl
    | get grp k => unfold pstep; cases p.obj <;> rfl
    | write => rfl

/-- instance of the theorem: any interleaving of threads reading, changing and writing their own objects -/
theorem C18_model_noninterference (g : Global) (ps : Nat → PState') (evs : List (Nat × PCall)) (i : Nat) :
    ((modelSys.run g ps evs).filter (fun e => e.1 == i)).map (·.2) =
      modelSys.solo g (ps i) ((evs.filter (fun e => e.1 == i)).map (·.2)) :=
  C18_noninterference modelSys g ps evs i

end Econf
