import Econf.Layered
namespace Econf
end Econf
