import Econf.Lemmas.LayeredLemmas

/-!
  C16 — owner, group and symlink restrictions gate every file of every read.

  Every file of every read entry point goes through `readFileCB`; between `lstat` and the
  callback stands `gate`, which looks at the consulted directory entry itself (for a symbolic link:
  the link, not its target) and at the process-wide restriction flags.
-/

set_option linter.unusedSimpArgs false

namespace Econf

/-- what the gate answers, restriction by restriction, in the order the library checks them -/
theorem C16_gate (g : Global) (node : Node) :
    (g.allowSymlinks = false → isLinkNode node = true → gate g node = some .fileIsSymLink) ∧
    (¬(g.allowSymlinks = false ∧ isLinkNode node = true) → g.ownerSet = true → (ownerOf node).1 ≠ g.owner → gate g node = some .wrongOwner) ∧
    (¬(g.allowSymlinks = false ∧ isLinkNode node = true) → ¬(g.ownerSet = true ∧ (ownerOf node).1 ≠ g.owner) →
       g.groupSet = true → (ownerOf node).2 ≠ g.group → gate g node = some .wrongGroup) ∧
    (¬(g.allowSymlinks = false ∧ isLinkNode node = true) → ¬(g.ownerSet = true ∧ (ownerOf node).1 ≠ g.owner) →
       ¬(g.groupSet = true ∧ (ownerOf node).2 ≠ g.group) → g.permsSet = false → gate g node = none) := by
  unfold gate
  refine ⟨?_, ?_, ?_, ?_⟩
  · intro h1 h2; simp [h1, h2]
  · intro h1 h2 h3
    have : (!g.allowSymlinks && isLinkNode node) = false := by
      cases ha : g.allowSymlinks <;> cases hl : isLinkNode node <;> simp_all
    simp [this, h2, h3]
  · intro h1 h2 h3 h4
    have a : (!g.allowSymlinks && isLinkNode node) = false := by
      cases ha : g.allowSymlinks <;> cases hl : isLinkNode node <;> simp_all
    have b : (g.ownerSet && (ownerOf node).1 != g.owner) = false := by
      cases ho : g.ownerSet <;> simp_all
    simp [a, b, h3, h4]
  · intro h1 h2 h3 hp
    have a : (!g.allowSymlinks && isLinkNode node) = false := by
      cases ha : g.allowSymlinks <;> cases hl : isLinkNode node <;> simp_all
    have b : (g.ownerSet && (ownerOf node).1 != g.owner) = false := by
      cases ho : g.ownerSet <;> simp_all
    have c : (g.groupSet && (ownerOf node).2 != g.group) = false := by
      cases hg : g.groupSet <;> simp_all
    simp [a, b, c, hp]

/-- the owner, group and symbolic-link decisions do not depend on whether `econf_requirePermissions`
    is in force as well, nor on the bits it asks for: when one of the three rules refuses a file, the
    gate gives the same code under every permission requirement (the permission checks come last) -/
theorem C16_perms_irrelevant (g : Global) (node : Node) (ps : Bool) (pf pd : Nat) (e : Err)
    (h : gate { g with permsSet := false } node = some e) :
    gate { g with permsSet := ps, permsFile := pf, permsDir := pd } node = some e := by
  unfold gate at h ⊢
  simp only at h ⊢
  split at h
  · rename_i h1; simp only [h1, if_true]; exact h
  · rename_i h1
    simp only [h1, if_false]
    split at h
    · rename_i h2; simp only [h2, if_true]; exact h
    · rename_i h2
      simp only [h2, if_false]
      split at h
      · rename_i h3; simp only [h3, if_true]; exact h
      · simp at h

/-- the permission requirement itself: a file that passes the three rules is refused when it has none
    of the required file bits, or its directory none of the required directory bits -/
theorem C16_perms (g : Global) (node : Node) (h : gate { g with permsSet := false } node = none) (hp : g.permsSet = true) :
    gate g node =
      (if (modeOf node &&& g.permsFile) == 0 then some .wrongFilePermission
       else if (DIRMODE &&& g.permsDir) == 0 then some .wrongDirPermission else none) := by
  unfold gate at h ⊢
  simp only at h
  split at h
  · cases h
  · rename_i h1
    split at h
    · cases h
    · rename_i h2
      split at h
      · cases h
      · rename_i h3
        have a : (!g.allowSymlinks && isLinkNode node) = false := by simpa using h1
        have b : (g.ownerSet && (ownerOf node).1 != g.owner) = false := by simpa using h2
        have c : (g.groupSet && (ownerOf node).2 != g.group) = false := by simpa using h3
        simp only [a, b, c, Bool.false_eq_true, if_false, hp, Bool.true_and]

/-- a refused file is neither shown to the callback nor opened, its content never reaches a result,
    and the read of that file ends with the specific code -/
theorem C16_refused (ctx : RdCtx) (s : RdState) (join python : Bool) (path delim comment : Str) (node : Node) (e : Err)
    (hl : ctx.fs.lstat path = some node) (hg : gate s.g node = some e) :
    readFileCB ctx s join python path delim comment = (s, .error e) := by
  unfold readFileCB
  simp only [hl, hg]

/-- after the reset call every file passes the gate -/
theorem C16_reset (g : Global) (node : Node) : gate (resetSecurity g) node = none := by
  unfold gate resetSecurity; simp

/-- if every file that can be consulted satisfies the rules in force, the read returns what the
    unrestricted read (after the reset call) returns — for the history of a layered read … -/
theorem C16_all_pass_history (fs : FS) (s : RdState) (dirs : List Str) (name suffix : Option Str) (delim : Option Str)
    (comment : Str) (join python : Bool) (confDirs : List Str)
    (hpass : ∀ p node, fs.lstat p = some node → gate s.g node = none) :
    (readHistory { fs := fs, cb := none } s dirs name suffix delim comment join python confDirs).2 =
      (readHistory { fs := fs, cb := none } { s with g := resetSecurity s.g } dirs name suffix delim comment join python confDirs).2 := by
  exact (readHistory_sim fs none none (fun _ _ _ => rfl) s { s with g := resetSecurity s.g } rfl dirs name suffix delim comment join python confDirs
    (fun p node hn => by rw [hpass p node hn, C16_reset])).1

/-- … and for a single file -/
theorem C16_all_pass_file (fs : FS) (s : RdState) (join python : Bool) (path delim comment : Str)
    (hpass : ∀ node, fs.lstat path = some node → gate s.g node = none) :
    (readFileCB { fs := fs, cb := none } s join python path delim comment).2 =
      (readFileCB { fs := fs, cb := none } { s with g := resetSecurity s.g } join python path delim comment).2 := by
  exact (readFileCB_sim fs none none s { s with g := resetSecurity s.g } join python path delim comment rfl
    (fun node hn => by rw [hpass node hn, C16_reset]) rfl).1

/-- the first refused file of a sequence ends the read with its code; no later file is touched -/
theorem C16_first_refused (ctx : RdCtx) (s : RdState) (join python : Bool) (delim comment : Str) (p : Str) (ps : List Str)
    (node : Node) (e : Err) (hl : ctx.fs.lstat p = some node) (hg : gate s.g node = some e) :
    readSeq ctx join python delim comment s (p :: ps) = (s, .error e) := by
  simp only [readSeq, C16_refused ctx s join python p delim comment node e hl hg]

/-- non-vacuity: a foreign-owned symbolic link under "owner 0, no symlinks" is refused as a link -/
example : gate { ownerSet := true, owner := 0, allowSymlinks := false } (.link [0x2f, 0x78] 4242 0) = some .fileIsSymLink ∧
    gate { ownerSet := true, owner := 0 } (.link [0x2f, 0x78] 4242 0) = some .wrongOwner ∧
    gate { ownerSet := true, owner := 0 } (.file [] 0 7) = none ∧
    gate { ownerSet := true, owner := 0, permsSet := true, permsFile := 0o644, permsDir := 0o755 } (.file [] 4242 0) = some .wrongOwner ∧
    gate { permsSet := true, permsFile := 0o001, permsDir := 0o755 } (.file [] 0 0) = some .wrongFilePermission := by decide

end Econf
