import Econf.Writer
namespace Econf
end Econf
