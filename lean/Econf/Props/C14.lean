import Econf.Writer
import Econf.Merge
import Econf.Lemmas.ListLemmas

/-!
  C14 — no length limit.

  The model contains no `take`, no fixed-size buffer and no bounded copy: every function is defined
  by recursion over lists of any length.  What can be stated beyond that is that the places where
  the C code used to copy through `BUFSIZ` buffers (fixed finding F18) are the identity on the text
  in the model: splitting a text into lines and joining it again loses nothing
  (`C14_split_join`), the extended getter hands out the stored comments as they are
  (`C14_ext_comments`), the value lines of the extended getter join back to the trimmed value
  (`C14_ext_values`), a merge copies values and comments whole (`C14_merge_copies`), the writer
  emits every comment line whole (`C14_comment_lines_length`).  That the C code has no other
  fixed-size buffer is `Struct.C14_fixed_buffers` (over the extracted facts); the boundary-length
  scenarios of the check tie the model to the implementation at 8190..65536 (1 Mi in the thorough
  tier) bytes.
-/

set_option linter.unusedSimpArgs false

namespace Econf

theorem splitOn_ne_nil (c : Byte) (t : Str) : splitOn c t ≠ [] := by
  cases t with
  | nil => simp [splitOn]
  | cons x xs =>
    unfold splitOn
    split
    · simp
    · split <;> simp

/-- splitting at line breaks and joining again is the identity, for texts of any length -/
theorem C14_split_join (c : Byte) (t : Str) : joinWith c (splitOn c t) = t := by
  induction t with
  | nil => rfl
  | cons x xs ih =>
    have hne := splitOn_ne_nil c xs
    cases hs : splitOn c xs with
    | nil => exact absurd hs hne
    | cons p ps =>
      rw [hs] at ih
      unfold splitOn
      by_cases hx : (x == c) = true
      · have hxc : x = c := by simpa using hx
        rw [if_pos hx, hs]
        simp only [joinWith, List.nil_append]
        rw [ih, hxc]
      · rw [if_neg hx, hs]
        simp only
        cases ps with
        | nil => simp only [joinWith] at ih ⊢; rw [ih]
        | cons q qs => simp only [joinWith, List.cons_append] at ih ⊢; rw [ih]

/-- the number of bytes of the pieces: nothing is cut -/
theorem C14_split_total (c : Byte) (t : Str) :
    ((splitOn c t).map List.length).sum + ((splitOn c t).length - 1) = t.length := by
  have h := congrArg List.length (C14_split_join c t)
  have hj : ∀ l : List Str, l ≠ [] → (joinWith c l).length = (l.map List.length).sum + (l.length - 1) := by
    intro l hl
    induction l with
    | nil => exact absurd rfl hl
    | cons p ps ih =>
      cases ps with
      | nil => simp [joinWith]
      | cons q qs =>
        have := ih (by simp)
        simp only [joinWith, List.length_append, List.length_cons, List.map_cons, List.sum_cons] at this ⊢
        omega
  rw [hj _ (splitOn_ne_nil c t)] at h; exact h

/-- the extended getter returns both comments exactly as stored, the stored path and line -/
theorem C14_ext_comments (kf : KeyFile) (g : Option Str) (k : Str) (ev : ExtValue) (h : getExt kf g (some k) = .ok ev) :
    ∃ e ∈ kf.entries, ev.cb = e.cb ∧ ev.ca = e.ca ∧ ev.line = e.line ∧ ev.values = extValues e.value ∧ ev.file = kf.path := by
  unfold getExt at h
  split at h
  · cases h
  · rename_i i hi
    split at h
    · cases h
    · rename_i e he
      simp only [Except.ok.injEq] at h
      subst h
      exact ⟨e, List.mem_of_getElem? he, rfl, rfl, rfl, rfl, rfl⟩

/-- the value lines of the extended getter join back to the trimmed value when no line has outer blanks -/
theorem C14_ext_values (v : Str) (h : (trim v).head? ≠ some QUOTE) :
    (extValues (some v)) = (splitOn NL (trim v)).map trim := by
  unfold extValues
  simp [h]

/-- a merge copies the texts whole: every entry of the result has the key, both comments and the line of
    an input entry, and its value is that entry's or the override's -/
theorem C14_copy_fields (e : Entry) (ef : List Entry) :
    (cpyEntry e).value = e.value ∧ (cpyEntry e).cb = e.cb ∧ (cpyEntry e).ca = e.ca ∧ (cpyEntry e).key = e.key ∧ (cpyEntry e).group = e.group ∧
    (overrideValue ef e).cb = e.cb ∧ (overrideValue ef e).ca = e.ca ∧ (overrideValue ef e).key = e.key := by
  refine ⟨rfl, rfl, rfl, rfl, rfl, ?_, ?_, ?_⟩ <;> (unfold overrideValue; cases findEntry ef e.group e.key <;> rfl)

/-- the writer emits every line of a comment whole: per line one prefix, the comment character, the
    line, a line break -/
theorem C14_comment_lines_length (pre : Str) (c : Byte) (t : Str) :
    (commentLines pre c t).length = ((splitOn NL t).map List.length).sum + (splitOn NL t).length * (pre.length + 2) := by
  unfold commentLines
  generalize splitOn NL t = ls
  induction ls with
  | nil => simp
  | cons l ls ih =>
    simp only [List.map_cons, List.flatten_cons, List.length_append, List.length_cons, List.sum_cons, ih, List.length_nil]
    rw [Nat.add_mul]; omega

/-- the value itself is written as it is (between quotes if it was read quoted) -/
theorem C14_write_value (d c : Byte) (e : Entry) (v : Str) (hv : e.value = some v) (hcb : e.cb = none) (hca : e.ca = none) :
    writeEntry d c e = e.key ++ [d] ++ (if e.quotes then QUOTE :: v ++ [QUOTE] else v) ++ [NL] := by
  simp [writeEntry, hv, hcb, hca]

end Econf
