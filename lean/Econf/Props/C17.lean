import Econf.Lemmas.DocLemmas
import Econf.Lemmas.LayeredLemmas
import Econf.Writer
import Econf.Merge

/-!
  # C17 – provenance metadata matches the source file

  Built on the C02 theorem: for every document of the conventional grammar the parser's state is
  `expDoc doc`, so the statements below about `expDoc`/`entryOf` are statements about what
  `econf_readFile` stores and `econf_getExtValue` (`getExt`, `extValues`) reports:
  line number (`C17_line`), comment lines before (`C17_comment_block`, `C17_comment_block_first`),
  trailing comment (`C17_trailing`), value lines (`C17_values_plain`, `C17_values_quoted`), and the
  path query (`C17_path_single`, `C17_path_merged`) on the layered-read model.
-/

set_option linter.unusedSimpArgs false

namespace Econf


/-! ### line number -/

/-- **C17, line.**  The entry contributed by an entry item carries the 1-based number of the
    physical line on which the item ends (its last continuation line), whatever precedes it. -/
theorem C17_line (cfg : Cfg) (pre post : List Item) (e : EntryI)
    (h : ∀ it ∈ pre ++ .entry e :: post, it.WF cfg) :
    ∃ before after,
      (expDoc (pre ++ .entry e :: post)).entries = before ++ entryOf (expDoc pre) e :: after ∧
      (entryOf (expDoc pre) e).line = (renderLines (pre ++ [.entry e])).length := by
  have hpre : ∀ it ∈ pre, it.WF cfg := fun it hit => h it (List.mem_append_left _ hit)
  have he : (Item.entry e).WF cfg := h _ (by simp)
  have hpost : ∀ it ∈ post, it.WF cfg := fun it hit => h it (by simp [hit])
  obtain ⟨more, hm⟩ := expDoc_entries_prefix cfg post (expItem (expDoc pre) (.entry e)) hpost
  refine ⟨(expDoc pre).entries, more, ?_, ?_⟩
  · unfold expDoc at hm ⊢
    rw [List.foldl_append, List.foldl_cons, hm, expItem_entries cfg _ _ he]
    simp [Item.adds]
  · have := expDoc_line pre {}
    simp only [entryOf, expDoc, this, renderLines, List.flatMap_append, List.flatMap_cons, List.flatMap_nil,
      List.length_append, Item.lines, List.length_cons, List.length_map, List.append_nil]
    show 0 + _ + 1 + _ = _
    omega

/-! ### comment lines before the entry -/

/-- the texts of the comment lines of a block (blank lines do not count) -/
def commentTexts : List Item → List Str
  | [] => []
  | .comment _ _ t :: r => t :: commentTexts r
  | _ :: r => commentTexts r

theorem appendComment_fold (ts : List Str) (acc : Str) :
    ts.foldl appendComment (some (acc)) = some (joinWith NL (acc :: ts)) := by
  induction ts generalizing acc with
  | nil => rfl
  | cons x xs ih =>
    rw [List.foldl_cons]
    show xs.foldl appendComment (some (nlCat acc x)) = _
    rw [ih]
    congr 1
    cases xs with
    | nil => simp [joinWith, nlCat]
    | cons y ys => simp [joinWith, nlCat]

theorem inert_block_cb (st : PState) (block : List Item) (h : ∀ it ∈ block, it.inert = true) :
    (block.foldl expItem st).cb = (commentTexts block).foldl appendComment st.cb := by
  induction block generalizing st with
  | nil => rfl
  | cons it its ih =>
    have hi := h it (by simp)
    rw [List.foldl_cons, ih _ (fun x hx => h x (List.mem_cons_of_mem _ hx))]
    cases it with
    | blank ws => rfl
    | comment ind c t => rfl
    | sect _ _ _ _ => cases hi
    | entry _ => cases hi
    | keyonly _ _ _ _ => cases hi

/-- no comment line is pending behind an entry item -/
theorem entry_clears_cb (cfg : Cfg) (st : PState) (e : EntryI) (h : e.WF cfg) : (expItem st (.entry e)).cb = none := by
  rw [C02_entry_item cfg st e h]

/-- **C17, comments before.**  An entry directly preceded by a block of comment lines (blank lines
    may be interleaved), itself preceded by another entry, carries exactly the texts of those comment
    lines, joined by line breaks – and nothing when the block has no comment line. -/
theorem C17_comment_block (cfg : Cfg) (st : PState) (e0 e : EntryI) (block : List Item)
    (h0 : e0.WF cfg) (hb : ∀ it ∈ block, it.inert = true) :
    (entryOf (block.foldl expItem (expItem st (.entry e0))) e).cb =
      (match commentTexts block with
       | [] => none
       | t :: ts => some (joinWith NL (t :: ts))) := by
  simp only [entryOf]
  rw [inert_block_cb _ block hb, entry_clears_cb cfg st e0 h0]
  cases commentTexts block with
  | nil => rfl
  | cons t ts =>
    rw [List.foldl_cons]
    exact appendComment_fold ts t

/-- the same at the start of the file -/
theorem C17_comment_block_first (e : EntryI) (block : List Item) (hb : ∀ it ∈ block, it.inert = true) :
    (entryOf (expDoc block) e).cb =
      (match commentTexts block with
       | [] => none
       | t :: ts => some (joinWith NL (t :: ts))) := by
  simp only [entryOf, expDoc]
  rw [inert_block_cb _ block hb]
  cases commentTexts block with
  | nil => rfl
  | cons t ts =>
    rw [List.foldl_cons]
    exact appendComment_fold ts t

/-! ### trailing comment -/

/-- **C17, trailing comment.**  A single-line entry with no trailing comment pending from a section
    header carries the text behind the comment character of its own line, or nothing. -/
theorem C17_trailing (st : PState) (e : EntryI) (hca : st.ca = none) (hc : e.cont = []) :
    (entryOf st e).ca = e.tc.map (·.text) := by
  simp only [entryOf, hca, hc, List.length_nil, List.replicate_zero, List.append_nil]
  cases e.tc with
  | none => rfl
  | some t => simp [caWith, appendComment]


/-! ### value lines -/


theorem dropWhile_append_stop {α} (p : α → Bool) (x r : List α) (h : ∃ c ∈ x, p c = false) :
    (x ++ r).dropWhile p = x.dropWhile p ++ r := by
  induction x with
  | nil => obtain ⟨c, hc, _⟩ := h; cases hc
  | cons a as ih =>
    cases hpa : p a
    · simp [List.dropWhile_cons, hpa]
    · obtain ⟨c, hc, hpc⟩ := h
      have : ∃ c ∈ as, p c = false := by
        rcases List.mem_cons.mp hc with rfl | hc
        · rw [hpa] at hpc; cases hpc
        · exact ⟨c, hc, hpc⟩
      simp [List.dropWhile_cons, hpa, ih this]

theorem dropLastWhile_append_stop (p : Byte → Bool) (a z : Str) (h : ∃ c ∈ z, p c = false) :
    dropLastWhile p (a ++ z) = a ++ dropLastWhile p z := by
  unfold dropLastWhile
  rw [List.reverse_append, dropWhile_append_stop p z.reverse a.reverse (by
    obtain ⟨c, hc, hpc⟩ := h; exact ⟨c, List.mem_reverse.mpr hc, hpc⟩)]
  simp

theorem joinWith_cons (c : Byte) (x : Str) (xs : List Str) (h : xs ≠ []) : joinWith c (x :: xs) = x ++ c :: joinWith c xs := by
  cases xs with
  | nil => exact absurd rfl h
  | cons y ys => rfl

theorem joinWith_snoc (c : Byte) (xs : List Str) (z : Str) :
    joinWith c (xs ++ [z]) = (xs.flatMap (fun x => x ++ [c])) ++ z := by
  induction xs with
  | nil => rfl
  | cons x xs ih =>
    rw [List.cons_append, joinWith_cons c x (xs ++ [z]) (by simp), ih]
    simp

theorem trim_id (s : Str) (hh : ∀ c, s.head? = some c → isSpace c = false) (hl : ∀ c, s.getLast? = some c → isSpace c = false) :
    trim s = s := by
  unfold trim
  have h1 : s.dropWhile isSpace = s := by
    cases s with
    | nil => rfl
    | cons a as => simp [List.dropWhile_cons, hh a rfl]
  rw [h1]
  have := dropLastWhile_text_blanks s [] (by intro c hc; cases hc) hl
  simpa using this

theorem trim_padded (ind t tr : Str) (hi : blanks ind) (htr : blanks tr) (hne : t ≠ [])
    (hh : ∀ c, t.head? = some c → isSpace c = false) (hl : ∀ c, t.getLast? = some c → isSpace c = false) :
    trim (ind ++ t ++ tr) = t := by
  unfold trim
  rw [List.append_assoc, dropWhile_blanks _ _ hi]
  have h1 : (t ++ tr).dropWhile isSpace = t ++ tr := by
    cases t with
    | nil => exact absurd rfl hne
    | cons a as => simp [List.dropWhile_cons, hh a rfl]
  rw [h1, dropLastWhile_text_blanks t tr htr hl]

theorem joinWith_flat (c : Byte) (v : Str) (xs : List Str) : joinWith c (v :: xs) = v ++ xs.flatMap (fun x => c :: x) := by
  induction xs generalizing v with
  | nil => simp [joinWith]
  | cons x xs ih => rw [joinWith_cons c v (x :: xs) (by simp), ih]; simp

theorem contValue_flat (a : Str) (conts : List ContLine) :
    contValue (some a) conts = some (a ++ conts.flatMap (fun l => NL :: l.render)) := by
  induction conts generalizing a with
  | nil => simp [contValue]
  | cons l ls ih =>
    unfold contValue at ih ⊢
    rw [List.foldl_cons]
    show List.foldl (fun v l => some (nlCat (v.getD []) l.render)) (some (nlCat a l.render)) ls = _
    rw [ih]; simp [nlCat]

/-- value of an entry with continuation lines, as one joined text -/
theorem contValue_join (v : Str) (conts : List ContLine) :
    contValue (some v) conts = some (joinWith NL (v :: conts.map ContLine.render)) := by
  rw [contValue_flat, joinWith_flat, List.flatMap_map]


theorem getLast?_append_ne (a b : Str) (h : b ≠ []) : (a ++ b).getLast? = b.getLast? := by
  cases b with
  | nil => exact absurd rfl h
  | cons x xs =>
    cases hl : (x :: xs).getLast? with
    | none => simp at hl
    | some y => simp [List.getLast?_append, hl]

/-- a continuation line whose text neither starts nor ends with a blank -/
def ContLine.Tight (l : ContLine) : Prop :=
  (∀ c, l.text.head? = some c → isSpace c = false) ∧ (∀ c, l.text.getLast? = some c → isSpace c = false)

/-- **C17, value lines.**  The extended getter reports the value of an entry with a non-empty plain
    value as: the value as written, then the text of each continuation line without its indentation
    and trailing blanks. -/
theorem C17_values_plain (cfg : Cfg) (e : EntryI) (v : Str) (h : e.WF cfg) (hv : e.value = .plain v) (hne : v ≠ [])
    (hc : ∀ l ∈ e.cont, l.WF cfg ∧ l.Tight) :
    extValues (contValue e.expValue.1 e.cont) = v :: e.cont.map (·.text) := by
  have hval := h.val
  rw [hv] at hval
  obtain ⟨hvt, _, hvh, hvl⟩ := hval
  have hexp : e.expValue.1 = some v := by
    cases v with
    | nil => exact absurd rfl hne
    | cons a as => simp [EntryI.expValue, hv]
  obtain ⟨v0, vs, rfl⟩ : ∃ v0 vs, v = v0 :: vs := by
    cases v with
    | nil => exact absurd rfl hne
    | cons a as => exact ⟨a, as, rfl⟩
  have hv0 := hvh v0 rfl
  have hvh' : ∀ c, (v0 :: vs).head? = some c → isSpace c = false := fun c hc => (hvh c hc).1
  rw [hexp, contValue_join]
  -- the trimmed text
  have htrim : ∃ ys : List Str, trim (joinWith NL ((v0 :: vs) :: e.cont.map ContLine.render)) = joinWith NL ((v0 :: vs) :: ys) ∧
      ys.map trim = e.cont.map (·.text) ∧ (∀ y ∈ ys, NL ∉ y) := by
    rcases List.eq_nil_or_concat e.cont with hnil | ⟨init, last, hcl⟩
    · refine ⟨[], ?_, by simp [hnil], by simp⟩
      rw [hnil]
      exact trim_id (v0 :: vs) hvh' hvl
    · rw [List.concat_eq_append] at hcl
      have hlast := hc last (by rw [hcl]; simp)
      have hinit : ∀ l ∈ init, l.WF cfg ∧ l.Tight := fun l hl => hc l (by rw [hcl]; simp [hl])
      refine ⟨init.map ContLine.render ++ [last.indent ++ last.text], ?_, ?_, ?_⟩
      · rw [hcl, List.map_append, List.map_cons, List.map_nil, ← List.cons_append, joinWith_snoc,
          ← List.cons_append, joinWith_snoc]
        unfold trim
        have hd : ∀ r : Str, ((v0 :: vs) ++ r).dropWhile isSpace = (v0 :: vs) ++ r := by
          intro r; simp [List.dropWhile_cons, hv0.1]
        rw [List.flatMap_cons]
        generalize List.flatMap (fun x => x ++ [NL]) (List.map ContLine.render init) = A
        have e1 : (v0 :: vs) ++ [NL] ++ A ++ last.render = (v0 :: vs) ++ ([NL] ++ A ++ last.render) := by simp
        have e2 : (v0 :: vs) ++ ([NL] ++ A ++ last.render) = ((v0 :: vs) ++ [NL] ++ A ++ (last.indent ++ last.text)) ++ last.trail := by
          simp [ContLine.render]
        rw [e1, hd, e2, dropLastWhile_text_blanks _ last.trail hlast.1.trail]
        intro c hcl'
        rw [← List.append_assoc, getLast?_append_ne _ _ hlast.1.textNe] at hcl'
        exact hlast.2.2 c hcl'
      · rw [List.map_append, List.map_map, hcl, List.map_append]
        congr 1
        · apply List.map_congr_left
          intro l hl
          have := hinit l hl
          exact trim_padded l.indent l.text l.trail this.1.ind this.1.trail this.1.textNe this.2.1 this.2.2
        · simp only [List.map_cons, List.map_nil]
          have := trim_padded last.indent last.text [] hlast.1.ind (by intro c hc; cases hc) hlast.1.textNe hlast.2.1 hlast.2.2
          simp only [List.append_nil] at this
          rw [this]
      · intro y hy
        rcases List.mem_append.mp hy with hy | hy
        · obtain ⟨l, hl, rfl⟩ := List.mem_map.mp hy
          have := (hinit l hl).1
          apply text_ne_NL
          unfold ContLine.render
          exact texts_append (texts_append (texts_blanks this.ind) (fun x hx => (this.textCh x hx).1)) (texts_blanks this.trail)
        · simp only [List.mem_singleton] at hy; subst hy
          apply text_ne_NL
          exact texts_append (texts_blanks hlast.1.ind) (fun x hx => (hlast.1.textCh x hx).1)
  obtain ⟨ys, ht, hmap, hnl⟩ := htrim
  unfold extValues
  simp only [ht]
  have hq : ((joinWith NL ((v0 :: vs) :: ys)).head? == some QUOTE) = false := by
    rw [joinWith_flat]
    simp only [List.cons_append, List.head?_cons]
    cases hh : (some v0 == some QUOTE)
    · rfl
    · exact absurd (by simpa using hh) hv0.2.1
  simp only [hq, Bool.false_eq_true, if_false]
  rw [splitOn_joinWith NL _ (by simp)]
  · simp only [List.map_cons, hmap, trim_id (v0 :: vs) hvh' hvl]
  · intro p hp
    rcases List.mem_cons.mp hp with rfl | hp
    · exact text_ne_NL hvt
    · exact hnl p hp

theorem dropWhile_idem {α} (p : α → Bool) (l : List α) : (l.dropWhile p).dropWhile p = l.dropWhile p := by
  induction l with
  | nil => rfl
  | cons a as ih =>
    cases hp : p a
    · simp [List.dropWhile_cons, hp]
    · simp [List.dropWhile_cons, hp, ih]

theorem dropWhile_reverse_dropWhile (p : Byte → Bool) (l : Str) :
    (dropLastWhile p (l.dropWhile p)).dropWhile p = dropLastWhile p (l.dropWhile p) := by
  -- the first byte of `l.dropWhile p`, if any, fails `p`, and survives the trimming at the end
  cases hl : l.dropWhile p with
  | nil => rfl
  | cons a as =>
    have ha : p a = false := by
      have := @List.head_dropWhile_not _ p l (by rw [hl]; simp)
      simpa [hl] using this
    have : dropLastWhile p (a :: as) = a :: dropLastWhile p as := by
      have := dropLastWhile_append_stop p [] (a :: as) ⟨a, by simp, ha⟩
      rw [show a :: as = [a] ++ as by rfl]
      by_cases has : ∃ c ∈ as, p c = false
      · exact dropLastWhile_append_stop p [a] as has
      · have hall : ∀ c ∈ as, p c = true := by
          intro c hc
          cases hpc : p c
          · exact absurd ⟨c, hc, hpc⟩ has
          · rfl
        rw [dropLastWhile_append_all p [a] as hall]
        have h1 : dropLastWhile p [a] = [a] := by simp [dropLastWhile, List.dropWhile_cons, ha]
        have h2 : dropLastWhile p as = [] := by
          have := dropLastWhile_append_all p [] as hall
          simpa [dropLastWhile] using this
        rw [h1, h2]
    rw [this, List.dropWhile_cons, ha]; rfl

theorem trim_trim (s : Str) : trim (trim s) = trim s := by
  unfold trim
  rw [dropWhile_reverse_dropWhile]
  unfold dropLastWhile
  rw [List.reverse_reverse, dropWhile_idem]

/-- a quoted single-line value is reported as one item (without outer blanks) -/
theorem C17_values_quoted (q : Str) (hq : texts q) : extValues (some q) = [trim q] := by
  unfold extValues
  simp only
  split
  · rfl
  · have hnl : NL ∉ trim q := by
      intro hin
      unfold trim dropLastWhile at hin
      have h1 := (List.dropWhile_sublist _).subset (List.mem_reverse.mp hin)
      have h2 := (List.dropWhile_sublist _).subset (List.mem_reverse.mp h1)
      exact text_ne_NL hq h2
    have := splitOn_joinWith NL [trim q] (by simp) (by intro p hp; simp at hp; subst hp; exact hnl)
    simp only [joinWith] at this
    rw [this]
    simp only [List.map_cons, List.map_nil]
    congr 1
    exact trim_trim q


/-! ### the path query -/


theorem pathOf_abs (c : List Str) : (pathOf c).head? = some SLASH := by
  unfold pathOf
  cases c with
  | nil => rfl
  | cons x xs => simp

theorem absPath_abs (fs : FS) (p a : Str) (h : absPath fs p = some a) : a.head? = some SLASH := by
  unfold absPath at h
  by_cases hp : (p.head? == some SLASH) = true
  · simp only [hp, if_true, Option.some.injEq] at h
    subst h; simpa using hp
  · simp only [hp, Bool.false_eq_true, if_false] at h
    unfold FS.realpath at h
    split at h
    · cases h
    · simp only at h
      split at h
      · simp only [Option.some.injEq] at h; subst h; exact pathOf_abs _
      · cases h
    · simp only [Option.some.injEq] at h; subst h; exact pathOf_abs _

/-- **C17, path of a single file.**  After a successful `econf_readFile`, the path query returns the
    absolute path `get_absolute_path` computes for the name given – the name itself when it starts
    with `/`, the resolved path (current directory, `.` and `..` components, a link) otherwise – and
    that path starts with `/`. -/
theorem C17_path_single (ctx : RdCtx) (s s' : RdState) (p d c : Str) (kf : KeyFile)
    (h : readFile ctx s (some p) (some d) (some c) = (s', .success, some kf)) :
    ∃ a, absPath ctx.fs p = some a ∧ getPath kf = a ∧ a.head? = some SLASH ∧
      (p.head? = some SLASH → a = p) := by
  unfold readFile at h
  simp only at h
  unfold readFileCB at h
  cases hl : ctx.fs.lstat p with
  | none => simp [hl] at h
  | some node =>
    simp only [hl] at h
    cases hg : gate s.g node with
    | some e => simp [hg] at h
    | none =>
      simp only [hg] at h
      cases hacc : (askCallback ctx.cb s p).2
      · simp [hacc] at h
      · simp only [hacc, Bool.not_true, Bool.false_eq_true, if_false] at h
        cases ha : absPath ctx.fs p with
        | none => simp [ha] at h
        | some a =>
          simp only [ha] at h
          refine ⟨a, rfl, ?_, absPath_abs ctx.fs p a ha, ?_⟩
          · have hs := (readOpened_spec ctx { (askCallback ctx.cb s p).1 with trace := (askCallback ctx.cb s p).1.trace ++ [Event.openFile a] } false false a d c).2.2
            generalize readOpened ctx _ false false a d c = r at h hs
            obtain ⟨r1, r2⟩ := r
            cases r2 with
            | error e => simp at h
            | ok kf' =>
              simp only [Prod.mk.injEq, Option.some.injEq, true_and] at h
              rcases hs with hs | ⟨e, hs, _⟩ | ⟨kf'', hs, hp⟩
              · cases hs
              · cases hs
              · simp only [Except.ok.injEq] at hs
                rw [← h.2, hs]
                simp [getPath, hp]
          · intro hp
            unfold absPath at ha
            simp only [hp, beq_self_eq_true, if_true, Option.some.injEq] at ha
            exact ha.symm

/-- **C17, path of a merged result**: the empty string. -/
theorem C17_path_merged (u e : KeyFile) : getPath (mergeFiles u e) = [] := rfl


/-! ### the hypotheses are satisfiable -/

/-- in the concrete document of `Props/C02.lean` the entry `k` (item 4, two physical lines) ends on line 5 -/
example : ∃ before after, (expDoc exDoc).entries = before ++ entryOf (expDoc (exDoc.take 3)) exEntry1 :: after ∧
    (entryOf (expDoc (exDoc.take 3)) exEntry1).line = 5 := by
  obtain ⟨b, a, h1, h2⟩ := C17_line exCfg.eff (exDoc.take 3) [.entry exEntry2] exEntry1 (by
    intro it hit; exact exDoc_wf it (by simpa [exDoc] using hit))
  exact ⟨b, a, h1, by rw [h2]; decide⟩

/-- `v = first` / `  second line ` / `\tthird`: three value lines -/
def exEntry3 : EntryI :=
  { indent := [], key := [0x76], ws1 := [0x20], d := 0x3d, ws2 := [0x20], value := .plain [0x66, 0x69, 0x72, 0x73, 0x74], tws := [], tc := none,
    cont := [{ indent := [0x20, 0x20], text := [0x73, 0x65, 0x63, 0x6f, 0x6e, 0x64, 0x20, 0x6c, 0x69, 0x6e, 0x65], trail := [0x20] },
             { indent := [0x09], text := [0x74, 0x68, 0x69, 0x72, 0x64], trail := [] }] }

example : extValues (contValue exEntry3.expValue.1 exEntry3.cont) =
    [[0x66, 0x69, 0x72, 0x73, 0x74], [0x73, 0x65, 0x63, 0x6f, 0x6e, 0x64, 0x20, 0x6c, 0x69, 0x6e, 0x65], [0x74, 0x68, 0x69, 0x72, 0x64]] := by
  apply C17_values_plain exCfg.eff exEntry3 _ _ rfl (by decide)
  · intro l hl
    simp only [exEntry3, List.mem_cons, List.not_mem_nil, or_false] at hl
    rcases hl with rfl | rfl
    · exact ⟨⟨by decide, by decide, by decide, by decide, by decide, by decide, by decide⟩, by decide, by decide⟩
    · exact ⟨⟨by decide, by decide, by decide, by decide, by decide, by decide, by decide⟩, by decide, by decide⟩
  · refine ⟨by decide, by decide, by decide, by decide, by decide, by decide, by decide, by decide, by decide, by decide, ?_, trivial⟩
    exact ⟨by decide, by decide, by decide, by decide⟩

end Econf
