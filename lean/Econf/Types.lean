import Econf.Bytes

namespace Econf

/-- `enum econf_err` (include/libeconf.h), by numeric value. -/
inductive Err where
  | success | error | nomem | nofile | nogroup | nokey | emptykey | writeerror | parseError
  | missingBracket | missingDelimiter | emptySectionName | textAfterSection | fileListIsNull
  | wrongBooleanValue | keyHasNullValue | wrongOwner | wrongGroup | wrongFilePermission
  | wrongDirPermission | fileIsSymLink | parsingCallbackFailed | argumentIsNullValue
  | optionNotFound | valueConversionError
  deriving DecidableEq, Repr, Inhabited

def Err.code : Err → Nat
  | .success => 0 | .error => 1 | .nomem => 2 | .nofile => 3 | .nogroup => 4 | .nokey => 5
  | .emptykey => 6 | .writeerror => 7 | .parseError => 8 | .missingBracket => 9
  | .missingDelimiter => 10 | .emptySectionName => 11 | .textAfterSection => 12
  | .fileListIsNull => 13 | .wrongBooleanValue => 14 | .keyHasNullValue => 15 | .wrongOwner => 16
  | .wrongGroup => 17 | .wrongFilePermission => 18 | .wrongDirPermission => 19
  | .fileIsSymLink => 20 | .parsingCallbackFailed => 21 | .argumentIsNullValue => 22
  | .optionNotFound => 23 | .valueConversionError => 24

/-- `KEY_FILE_NULL_VALUE`: the group name of group-less entries. -/
def NONE : Str := [0x5f, 0x6e, 0x6f, 0x6e, 0x65, 0x5f] /- "_none_" -/

/-- One `struct file_entry`.  `value`, `cb`, `ca` are `none` for a NULL pointer. -/
structure Entry where
  group : Str
  key : Str
  value : Option Str
  cb : Option Str
  ca : Option Str
  line : Nat
  quotes : Bool
  deriving DecidableEq, Repr, Inhabited

/-- An `econf_file`, as far as it can be observed. -/
structure KeyFile where
  entries : List Entry := []
  groups : List Str := []
  delim : Byte := 0
  comment : Byte := 0
  path : Option Str := none
  join : Bool := false
  python : Bool := false
  parseDirs : List Str := []
  confDirs : List Str := []
  rootPrefix : Option Str := none
  deriving DecidableEq, Repr, Inhabited

/-- Delimiter and comment sets of a read. -/
structure Cfg where
  delim : Str
  comment : Str
  python : Bool := false
  join : Bool := false
  deriving DecidableEq, Repr

/-- `setGroupList`: register a group name, keeping first-appearance order. -/
def addGroup (gs : List Str) (g : Str) : List Str := if gs.contains g then gs else gs ++ [g]

end Econf
