import Econf.Writer

/-!
  `econftool show` / `cat`: what `pr_key_file` (util/econftool.c) prints on stdout for a
  configuration object, and the decoder of that format used to state C19.
-/

namespace Econf

def EQS : Str := [0x20, 0x3d, 0x20] /- " = " -/
def INDENT : Str := [0x20, 0x20, 0x20, 0x20, 0x20]

/-- value lines of one key: first line after " = ", the others indented; a key without value
    ends its line at once -/
def toolValueLines : List Str → Str
  | [] => [NL]
  | v :: vs => v ++ [NL] ++ (vs.map (fun x => INDENT ++ x ++ [NL])).flatten

def toolKey (kf : KeyFile) (g : Option Str) (k : Str) : Str :=
  match getExt kf g (some k) with
  | .ok ev => k ++ EQS ++ toolValueLines ev.values
  | .error _ => []

/-- one group block: header (for a real group), the keys, a blank line; the group-less block
    is left out when there are no group-less keys -/
def toolGroup (kf : KeyFile) (g : Option Str) : Str :=
  match getKeys kf g with
  | .error _ =>
    (match g with
     | none => []
     | some name => name ++ [NL] ++ [NL])
  | .ok ks =>
    (match g with
     | none => []
     | some name => name ++ [NL]) ++
    (ks.map (toolKey kf g)).flatten ++ [NL]

/-- stdout of `pr_key_file` -/
def toolShow (kf : KeyFile) : Str :=
  let groups := match getGroups kf with
    | .ok gs => gs
    | .error _ => []
  ((none :: groups.map some).map (toolGroup kf)).flatten

end Econf
