"""Merge pairs (C03): entry lists over {group-less, A, B} x {x, y}, built by parsing or by the setters."""
import itertools

from .scn import Scenario, h

GROUPS = [None, b"A", b"B"]
KEYS = [b"x", b"y"]


def all_lists(maxlen, groups=GROUPS, keys=KEYS):
    cells = [(g, k) for g in groups for k in keys]
    for n in range(maxlen + 1):
        for t in itertools.product(cells, repeat=n):
            yield list(t)


def parseable(lst):
    """can the list be written as a file? (a group-less entry cannot follow a header)"""
    seen_group = False
    for g, _ in lst:
        if g is None and seen_group:
            return False
        if g is not None:
            seen_group = True
    return True


def settable(lst):
    return len(set(lst)) == len(lst)


def file_of(lst, tag, spell=None):
    """spell[i]: None = ordinary value, "null" = `k=` (no value at all), "empty" = `k= ` (empty text), "quoted" = `k=""`"""
    out = b""
    cur = None
    for i, (g, k) in enumerate(lst):
        if g != cur:
            out += b"[" + g + b"]\n"
            cur = g
        sp = spell[i] if spell else None
        v = {None: tag + str(i).encode(), "null": b"", "empty": b" ", "quoted": b'""'}[sp]
        out += k + b"=" + v + b"\n"
    return out


def build_object(s, slot, lst, tag, how, ctor, spell=None):
    """how: 'parse' | 'set'; ctor for 'set' (and for empty lists): 'key' | 'ini' | 'opt'"""
    if how in ("dirs", "hist") and lst:
        # the object a directory read hands to the caller: the result of econf_readDirs (one file, or a main file and a
        # drop-in that adds nothing), or a member of the history
        d = b"/d" + str(slot).encode()
        s.file(d + b"/usr/cfg.conf", file_of(lst, tag, spell))
        if how == "dirs" and len(lst) % 2 == 0:
            s.file(d + b"/etc/cfg.conf.d/z.conf", b"# nothing\n")
        s.add("RD" if how == "dirs" else "RH", slot, h(d + b"/usr"), h(d + b"/etc"), h(b"cfg"), h(b"conf"), h(b"="), h(b"#"))
    elif how == "parse" and lst:
        path = b"/m" + str(slot).encode() + b".conf"
        s.file(path, file_of(lst, tag, spell))
        s.add("RF", slot, h(path), h(b"="), h(b"#"))
    else:
        if ctor == "key":
            s.add("NEW", slot, "key", h(b"="), h(b"#"))
        elif ctor == "ini":
            s.add("NEW", slot, "ini")
        else:
            s.add("NEW", slot, "opt", "-")
        for i, (g, k) in enumerate(lst):
            s.add("SET", slot, "str", h(g), h(k), h(tag + str(i).encode()))


def merge_scenario(sid, base, over, how_b, how_o, ctor_b="opt", ctor_o="opt", spell_b=None, spell_o=None):
    s = Scenario(sid, {"base": base, "over": over, "how": (how_b, how_o, ctor_b, ctor_o), "spell": (spell_b, spell_o)})
    build_object(s, 0, base, b"b", how_b, ctor_b, spell_b)
    build_object(s, 1, over, b"o", how_o, ctor_o, spell_o)
    s.add("RAW", 0)
    s.add("RAW", 1)
    s.add("M", 2, 0, 1)
    s.add("RAW", 2)
    s.add("DUMP", 2)
    s.add("RAW", 0)
    s.add("RAW", 1)
    s.add("FREE", 2)
    s.add("FREE", 1)
    s.add("FREE", 0)
    return s
