"""Operation sequences on configuration objects (C10, C11, C20): create / set / get / list / ext / write."""
from .scn import Scenario, h

SECTIONS = [b"A", b"[A]", b"B", b"", None, b"[B]", b"[]", b"[A", b"C]", b"AB", b"[AB]", b"a", b"ab", b"bA",   # the last two: same djb2 hash
            # names around and beyond 256 bytes, plain and in brackets (the same section)
            b"S" * 255, b"[" + b"S" * 255 + b"]", b"T" * 300, b"[" + b"T" * 300 + b"]"]
KEYS = [b"x", b"y", b"z", b"w", b"", None, b"xy", b"X", b"x ", b"y\t", b" x", b"K" * 300]   # "x ", "y\t", " x": blanks around a key handed to a setter or getter are part of the key; the last one: a long key
TEXTS = [b"1", b"v", b"", b"Yes Please", b"TRUE", b"no", b"0x10", b"-5", b"4294967296", b" padded ", b"a\nb", b'"q"',
         b"_none_", b"p-", b"010", b"12abc", None, b'  "hello world"', b'\t"q r" tail',
         # other spellings of numbers the typed setters are given: the text stored afterwards is the setter's
         b"+42", b"052", b"0x2A", b" 42", b"-0", b"00", b"8", b"16"]
INTS = ["0", "1", "-1", "2147483647", "-2147483648", "42", "8", "16", "-5"]
UINTS = ["0", "1", "4294967295", "42"]
I64 = ["0", "-9223372036854775808", "9223372036854775807", "-7"]
U64 = ["0", "18446744073709551615", "7"]
BOOLS = [b"yes", b"No", b"TRUE", b"false", b"1", b"0", b"maybe", b"", None, b"_none_", b"p-"]

PARSED_FILES = [
    b"x=1\ny=Two Words\n[A]\nx=Yes\nz=\n[B]\nw = \"quoted # text\" # c\n",
    b"# lead\nk1=v1\n\n[S1]\n# c1\n# c2\na=TRUE # t\nb=multi\n  line\n[S2]\nz\n",
    b"x=0x1F\n[A]\ny=-12\n[A]\nx=077\n",
    b"",
    b"[A]\nx=1\n[B]\ny=2\n",                 # no group-less key: the section list does not start with the group-less one
    b"# only a comment\n[S1]\nk=v\n[A]\n",     # ... and a section without keys at the end
    b"x=1\ny=2\nx=3\n[A]\nx=4\nz=5\nx=6\n[B]\nw=7\nw=8\n",    # keys defined more than once in their section (the first definition is the visible one)
    b"[A] # about A\nx=1 # one\n# before y\n# second line\ny=2\n[B]   # about B\nw=3\n",   # comments behind section headers, comment blocks
]


# files for a read with JOIN_SAME_ENTRIES=1: keys defined again with and without value, with and without comments on the line
JOIN_FILES = [
    b"m = a b # initial\nm = # cleared on purpose\nm = c # again\n[A]\nk=1 # c1\nk=\nk=2\n",
    b"# lead\nx=1\nx=2 # two\n[A]\n# block\ny=\ny= # nothing\n[B]\nz=9\n",
]


def start(s, rng, slot=0):
    c = rng.randrange(7)
    if c == 6:
        # the object a layered read with an option hands to the caller (definitions of a key joined, or python style)
        d = b"/opt%d" % slot
        opt = rng.choice([b"JOIN_SAME_ENTRIES=1", b"JOIN_SAME_ENTRIES=1", b"PYTHON_STYLE=1", b"JOIN_SAME_ENTRIES=1;PYTHON_STYLE=1"])
        s.file(d + b"/etc/prj/cfg.conf", rng.choice(JOIN_FILES + PARSED_FILES[:3] + PARSED_FILES[6:]))
        if rng.random() < 0.4:
            s.file(d + b"/etc/prj/cfg.conf.d/a.conf", rng.choice([b"# off\n", b"x=9 # nine\nx=\n[A]\nnew=1\n"]))
        s.add("NEW", slot, "opt", h(b"ROOT_PREFIX=" + d + b";" + opt))
        s.add("RC", slot, h(b"prj"), h(b"/usr/etc"), h(b"cfg"), h(b"conf"), h(b"="), h(b"#"))
        s.add("RAW", slot)
        return c
    if c == 5:
        # the object a directory read hands to the caller (econf_readDirs: a main file, sometimes with a drop-in)
        d = b"/lay%d" % slot
        s.file(d + b"/usr/cfg.conf", rng.choice(PARSED_FILES[:3] + PARSED_FILES[4:]))
        if rng.random() < 0.5:
            s.file(d + b"/etc/cfg.conf.d/a.conf", rng.choice([b"# off\n", b"x=9\n[A]\nnew=1\n"]))
        s.add("RD", slot, h(d + b"/usr"), h(d + b"/etc"), h(b"cfg"), h(b"conf"), h(b"="), h(b"#"))
        s.add("RAW", slot)
        return c
    if c == 4:
        # the merge of two parsed files
        for i, sl in enumerate((slot + 20, slot + 21)):
            path = b"/m%d_%d.conf" % (slot, i)
            s.file(path, rng.choice(PARSED_FILES))
            s.add("RF", sl, h(path), h(b"="), h(b"#"))
        s.add("M", slot, slot + 20, slot + 21)
        s.add("FREE", slot + 20)
        s.add("FREE", slot + 21)
        s.add("RAW", slot)
        return c
    if c == 0:
        s.add("NEW", slot, "key", h(rng.choice([b"=", b":", b" "])), h(rng.choice([b"#", b";"])))
    elif c == 1:
        s.add("NEW", slot, "ini")
    elif c == 2:
        s.add("NEW", slot, "opt", rng.choice(["-", h(b""), h(b"JOIN_SAME_ENTRIES=1")]))
    else:
        path = b"/p%d.conf" % slot
        s.file(path, rng.choice(PARSED_FILES))
        s.add("RF", slot, h(path), h(b"="), h(b"#"))
        s.add("RAW", slot)
    return c


def set_op(s, rng, slot, conventional=False):
    g = rng.choice(SECTIONS[:5] if conventional else SECTIONS)
    k = rng.choice(KEYS[:4] if conventional else KEYS)
    t = rng.randrange(6)
    if t == 0:
        s.add("SET", slot, "str", h(g), h(k), h(rng.choice(TEXTS)))
        if rng.random() < 0.3 and not conventional:
            # what was just stored, seen through the extended getter (value lines, comments, line number) and released again
            s.add("EXT", slot, h(g), h(k))
        elif rng.random() < 0.3 and not conventional:
            # ... and through the getter with a default (the key exists: the default must not be used, whatever the value is)
            s.add("GETD", slot, "str", h(g), h(k), h(b"dflt"))
    elif t == 1:
        s.add("SET", slot, "int", h(g), h(k), rng.choice(INTS))
    elif t == 2:
        s.add("SET", slot, "uint", h(g), h(k), rng.choice(UINTS))
    elif t == 3:
        s.add("SET", slot, "int64", h(g), h(k), rng.choice(I64))
    elif t == 4:
        s.add("SET", slot, "uint64", h(g), h(k), rng.choice(U64))
    else:
        s.add("SET", slot, "bool", h(g), h(k), h(rng.choice(BOOLS)))


def query_op(s, rng, slot, with_write=True):
    g = rng.choice(SECTIONS)
    k = rng.choice(KEYS)
    t = rng.randrange(12 if with_write else 10)
    if t <= 3:
        ty = rng.choice(["str", "int", "uint", "int64", "uint64", "bool"])
        s.add("GET", slot, ty, h(g), h(k))
    elif t == 4:
        ty = rng.choice(["str", "int", "uint", "int64", "uint64", "bool"])
        d = {"str": h(rng.choice([b"dflt", b"", None])), "int": "-3", "uint": "3", "int64": "-33", "uint64": "33", "bool": rng.choice(["0", "1"])}[ty]
        s.add("GETD", slot, ty, h(g), h(k), d)
    elif t == 5:
        s.add("GROUPS", slot)
    elif t == 6:
        s.add("KEYS", slot, h(rng.choice([None, b"", b"A", b"B", b"[A]", b"S1"])))
    elif t == 7:
        s.add("EXT", slot, h(rng.choice([None, b"", b"A", b"B", b"S1"])), h(k))
    elif t == 8:
        s.add("PATH", slot)
    elif t == 9:
        s.add("TAGS", slot)
    elif t == 10:
        s.mkdir(b"/out")
        # (sometimes with an empty directory name: that write is refused, and like every other failing query it leaves the object alone)
        s.add("W", slot, h(b"/out" if rng.random() < 0.75 else b""), h(b"w.conf"))
    else:
        # the object as an input of a merge: with itself, as the base and as the override of another object
        r = rng.randrange(3)
        if r == 0:
            s.add("M", 9, slot, slot)
        else:
            s.file(b"/other.conf", b"x=other\n[A]\nx=o2\nq=3\n[Z]\nz=1\n")
            s.add("RF", 8, h(b"/other.conf"), h(b"="), h(b"#"))
            s.add("M", 9, *((slot, 8) if r == 1 else (8, slot)))
            s.add("FREE", 8)
        s.add("FREE", 9)


def ops_scenario(sid, rng, nops, p_set=0.5):
    s = Scenario(sid)
    kind = start(s, rng)
    nset = nget = 0
    for _ in range(nops):
        if rng.random() < p_set:
            set_op(s, rng, 0)
            nset += 1
        else:
            query_op(s, rng, 0)
            nget += 1
    s.add("RAW", 0)
    s.add("DUMP", 0)
    s.add("FREE", 0)
    s.meta = {"start": kind, "sets": nset, "gets": nget}
    return s


def readonly_scenario(sid, rng, nset, nq):
    """build an object, dump it, run read-only calls, dump it again (C10)"""
    s = Scenario(sid)
    kind = start(s, rng)
    for _ in range(nset):
        set_op(s, rng, 0)
    s.mkdir(b"/o1")
    # what later queries return includes what a later merge with the object returns: a fixed other object is merged with it
    # (as the base and as the override) before and after the calls
    s.file(b"/probe.conf", b"p=1\n[P]\nq=2\n")
    s.add("RF", 7, h(b"/probe.conf"), h(b"="), h(b"#"))

    def dump(name):
        s.add("RAW", 0); s.add("RAWL", 0); s.add("DUMPX", 0)
        for a, b in ((7, 0), (0, 7)):
            s.add("M", 6, a, b); s.add("RAW", 6); s.add("FREE", 6)
        s.add("W", 0, h(b"/o1"), h(name))
    dump(b"a")
    first = len(s.lines)
    for _ in range(nq):
        query_op(s, rng, 0)
    last = len(s.lines)
    dump(b"b")
    s.add("FREE", 7)
    s.add("FREE", 0)
    s.meta = {"start": kind, "sets": nset, "queries": nq, "q_first": first, "q_last": last}
    return s
