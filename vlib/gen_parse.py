"""Generators of file contents for the parser: arbitrary byte strings over structural alphabets
(C04), mutated documents, and the scenario shapes that read one file with given options."""
import itertools
import random

from .scn import Scenario, h

DELIMS = [b"=", b":=", b" ", b" \t", b" =", b"\t =", b""]
COMMENTS = [b"#", b";", b"#;", b""]      # the empty argument means the default "#"
OPTIONS = [None, b"JOIN_SAME_ENTRIES=1", b"PYTHON_STYLE=1", b"JOIN_SAME_ENTRIES=1;PYTHON_STYLE=1"]

ALPHA1 = [b"a", b"=", b" ", b"#", b"[", b"]", b'"', b"\n"]
ALPHA2 = ALPHA1 + [b"\x00", b"\t", b"\x80", b";", b"b", b":", b"\r", b"_none_", b"1"]


def read_scenario(sid, content, delim, comment, opt=None, dump=("RAW", "RAWL", "DUMPX"), extra=()):
    """One file read through econf_readFile (opt None) or through econf_readConfig on an object
    created with the option string (so that JOIN_SAME_ENTRIES / PYTHON_STYLE apply)."""
    s = Scenario(sid, {"content": content, "delim": delim, "comment": comment, "opt": opt})
    if opt is None:
        s.file(b"/f.conf", content)
        s.add("RF", 0, h(b"/f.conf"), h(delim), h(comment))
    else:
        s.file(b"/etc/p/n.conf", content)
        s.add("NEW", 0, "opt", h(opt))
        s.add("RC", 0, h(b"p"), h(b"/usr/etc"), h(b"n"), h(b"conf"), h(delim), h(comment))
    for d in dump:
        s.add(d, 0)
    s.add("ERRLOC")
    for e in extra:
        s.add(*e)
    s.add("FREE", 0)
    return s


def random_content(rng, maxlen=40, alpha=ALPHA2):
    n = rng.randint(0, maxlen)
    return b"".join(rng.choice(alpha) for _ in range(n))


def exhaustive_contents(alpha, maxlen):
    for n in range(maxlen + 1):
        for t in itertools.product(alpha, repeat=n):
            yield b"".join(t)


def liney_content(rng, nlines=6):
    """line-structured random text: more likely to reach the deeper branches"""
    parts = [b"a", b"b", b"k1", b"=", b"=", b" ", b" ", b"\t", b"#", b";", b"[", b"]", b'"', b"v", b"x y", b":",
             b"\x00", b"\x80", b"[s]", b'"q"', b"  ", b"_none_"]
    out = []
    for _ in range(rng.randint(0, nlines)):
        ln = b"".join(rng.choice(parts) for _ in range(rng.randint(0, 7)))
        out.append(ln)
    c = b"\n".join(out)
    if rng.random() < 0.7:
        c += b"\n"
    return c


def fuzz_scenarios(rng, count, prefix="fz"):
    out = []
    for i in range(count):
        c = liney_content(rng) if rng.random() < 0.6 else random_content(rng)
        out.append(read_scenario("%s%d" % (prefix, i), c, rng.choice(DELIMS), rng.choice(COMMENTS),
                                 rng.choice(OPTIONS)))
    return out
