"""Conventional documents (DESIGN.md 5.1): structured items, their rendering and the expected
parse result (`expected`, `expectedExt`).  The generator is grammar-directed: every spelling
choice of the grammar is drawn at random and counted in the distribution the evidence prints."""

NONE = b"_none_"
BLANKS = [b" ", b"\t", b" ", b"  ", b"\x0b", b"\x0c", b"\r"]


def is_blank(c):
    return c in b" \t\x0b\x0c\r"   # isspace minus \n


def delim_class(delim):
    if delim == b"" or delim == b"\n":
        return "none"
    w = any(is_blank(c) for c in delim)
    n = any(not is_blank(c) for c in delim)
    return "mixed" if (w and n) else ("blank" if w else "nonblank")


class Gen:
    def __init__(self, rng, delim, comment, single_line=False, hist=None, python=False, cont_comments=False):
        self.rng = rng
        self.cont_comments = cont_comments    # continuation lines may carry a comment behind their text
        self.delim = delim
        self.comment = comment or b"#"
        self.cls = delim_class(delim)
        self.single_line = single_line
        self.hist = hist if hist is not None else {}
        self.python = python

    def count(self, k):
        self.hist[k] = self.hist.get(k, 0) + 1

    # --- atoms
    def blanks(self, lo=0, hi=3):
        n = self.rng.randint(lo, hi)
        return b"".join(self.rng.choice(BLANKS) for _ in range(n)) if n else b""

    def textbyte(self, forbid=b""):
        pool = b"abcxyzKV019_-./\\'`~!@$%^&*(){}<>?|+,:=;#[]\" \t" + bytes([0x80, 0xc3, 0xa9, 0xff, 0x7f, 0x01])
        while True:
            c = self.rng.choice(pool)
            if c not in forbid and c not in b"\n\x00":
                return bytes([c])

    def text(self, lo, hi, forbid=b""):
        return b"".join(self.textbyte(forbid) for _ in range(self.rng.randint(lo, hi)))

    def key(self):
        forbid = self.delim + self.comment + b'"'
        # keys recur across sections and are prefixes / extensions of each other
        prevk = getattr(self, "_keys", [])
        if prevk and self.rng.random() < 0.3:
            b = self.rng.choice(prevk)
            r = self.rng.random()
            k = b if r < 0.5 else (b[:max(1, len(b) - 1)] if r < 0.75 else b + b"x")
            k = k.strip(b" \t\x0b\x0c\r")
            if k and k[:1] != b"[" and all(c not in forbid for c in k):
                return k
        if self.cls != "none":
            forbid += b" \t\x0b\x0c\r"
        while True:
            k = self.text(1, 6, forbid)
            if self.cls == "none":
                k = k.strip(b" \t\x0b\x0c\r")
                if not k:
                    continue
            if k[:1] != b"[":
                self._keys = prevk + [k]
                return k

    def plain_value(self, allow_empty=True):
        forbid = self.comment
        if self.cls in ("blank", "mixed"):
            allow_empty = False
        for _ in range(100):
            v = self.text(0 if allow_empty else 1, 8, forbid)
            v = v.strip(b" \t\x0b\x0c\r")
            if not v and not allow_empty:
                continue
            if v[:1] == b'"':
                continue
            if self.cls == "mixed" and v[:1] and v[0] in self.delim:
                continue
            return v
        return b"v"

    def trailing_comment(self):
        c = bytes([self.rng.choice(self.comment)])
        return c + self.text(0, 6, self.comment + b'"')

    def section_name(self):
        while True:
            n = self.text(1, 6, self.comment)
            # names related to earlier ones (proper prefix / extension / same) exercise the name comparison
            prev = getattr(self, "_sections", [])
            if prev and self.rng.random() < 0.35:
                b = self.rng.choice(prev)
                r = self.rng.random()
                n = b[:max(1, len(b) - 1)] if r < 0.4 else (b + self.textbyte(self.comment) if r < 0.8 else b)
            elif self.rng.random() < 0.12:
                # pairs of different names with the same djb2 hash (the library has `hashstring`): "…ab" and "…bA"
                stem = self.rng.choice([b"unit-", b"", b"x"])
                n = stem + (b"bA" if any(p == stem + b"ab" for p in prev) else b"ab")
            if n != NONE and n[:1] != b"[" and n.strip(b" \t\x0b\x0c\r"):
                self._sections = prev + [n]
                return n

    # --- items: dicts with 'kind' and the rendered 'lines' (list of bytes without \n)
    def blank_item(self):
        self.count("item_blank")
        ws = self.blanks(0, 3)
        return {"kind": "blank", "lines": [ws], "sp": ("b", ws)}

    def comment_item(self, text=None):
        self.count("item_comment")
        ind = self.blanks(0, 2)
        c = bytes([self.rng.choice(self.comment)])
        t = self.text(0, 10) if text is None else text
        if ind:
            self.count("comment_indented")
        return {"kind": "comment", "lines": [ind + c + t], "text": t, "sp": ("c", ind, c, t)}

    def section_item(self):
        self.count("item_section")
        name = self.section_name()
        tc = self.trailing_comment() if self.rng.random() < 0.25 else None
        lead, trail = self.blanks(0, 2), self.blanks(0, 2)
        line = lead + b"[" + name + b"]" + trail
        if tc is not None:
            line += tc
            self.count("section_trailing_comment")
        return {"kind": "section", "lines": [line], "name": name, "tc": None if tc is None else tc[1:],
                "sp": ("s", lead, name, trail, None if tc is None else (tc[:1], tc[1:]))}

    def entry_item(self, key=None):
        self.count("item_entry")
        key = key or self.key()
        lead = self.blanks(0, 2)
        it = {"kind": "entry", "key": key, "quotes": False, "cont": []}
        if self.cls == "none":
            tc = self.trailing_comment() if self.rng.random() < 0.2 else None
            ktrail = self.blanks(0, 2)
            line = lead + key + ktrail + (tc or b"")
            it.update(lines=[line], value=None, tc=None if tc is None else tc[1:],
                      sp=("k", lead, key, ktrail, None if tc is None else (tc[:1], tc[1:])))
            self.count("entry_keys_only")
            return it
        quoted = self.rng.random() < 0.3
        if quoted:
            q = self.text(0, 8)
            spelled = b'"' + q + b'"'
            value = q
            it["quotes"] = True
            self.count("value_quoted")
        else:
            value = self.plain_value()
            spelled = value
            self.count("value_plain_empty" if not value else "value_plain")
        tc = self.trailing_comment() if self.rng.random() < 0.25 else None
        tws = self.blanks(0, 2)
        # separator
        if self.cls == "nonblank":
            ws1, ws2 = self.blanks(0, 2), self.blanks(0, 2)
            d = bytes([self.rng.choice(self.delim)])
            sep = ws1 + d + ws2
            sepparts = (ws1, d, ws2)
            after = ws2 + spelled + tws
            absent = (not ws1) and (not after)
            self.count("sep_ws1" if ws1 else "sep_tight")
        elif self.cls == "blank":
            dl = bytes([self.rng.choice(self.delim)])
            parts = [self.rng.choice(BLANKS) for _ in range(self.rng.randint(0, 2))] + [dl]
            self.rng.shuffle(parts)
            sep = b"".join(parts)
            ipos = parts.index(dl)
            sepparts = (b"".join(parts[:ipos]), dl, b"".join(parts[ipos + 1:]))
            absent = False
        else:  # mixed
            nb = [c for c in self.delim if not is_blank(c)]
            if self.rng.random() < 0.5:
                sep = self.blanks(1, 3)
                sepparts = (b"", sep[:1], sep[1:])
                self.count("mixed_sep_blanks")
            else:
                m1, md, m2 = self.blanks(0, 2), bytes([self.rng.choice(nb)]), self.blanks(0, 2)
                sep = m1 + md + m2
                sepparts = (m1, md, m2)
                self.count("mixed_sep_delim")
            absent = False
        line = lead + key + sep + spelled + tws + (tc or b"")
        if tc is not None:
            self.count("entry_trailing_comment")
        if quoted:
            val = value
        elif value == b"":
            val = None if absent else b""
            self.count("value_absent" if absent else "value_empty_text")
        else:
            val = value
        it.update(lines=[line], value=val, tc=None if tc is None else tc[1:])
        conts_sp = []
        it["sp"] = ("e", lead, key, sepparts[0], sepparts[1], sepparts[2], "q" if quoted else "p", value, tws,
                    None if tc is None else (tc[:1], tc[1:]), conts_sp)
        # continuation lines
        if (self.cls == "nonblank" and not self.single_line and not self.python and not (not quoted and value == b"")
                and self.rng.random() < 0.3):
            for _ in range(self.rng.randint(1, 3)):
                forbid = self.delim + self.comment
                while True:
                    t = self.text(1, 8, forbid).strip(b" \t\x0b\x0c\r")
                    if t and t[:1] != b"[":
                        break
                if self.rng.random() < 0.03:      # now and then a continuation line around the size of a stdio buffer
                    t = b"L" * self.rng.randint(8185, 8200)
                    self.count("continuation_line_8k")
                ci, ct = self.blanks(1, 3), self.blanks(0, 2)
                cl = ci + t + ct
                ctc = None
                if self.cont_comments and self.rng.random() < 0.4:
                    # a comment behind the text of this line, introduced by any character of the comment set
                    ctc = self.trailing_comment()
                    self.count("continuation_trailing_comment")
                it["lines"].append(cl + (ctc or b""))
                it["cont"].append(cl)
                it.setdefault("cont_tc", []).append(None if ctc is None else ctc[1:])
                conts_sp.append((ci, t, ct))
            self.count("entry_with_continuation")
        return it

    def document(self, nitems, dup_keys=0.15):
        items = []
        keys_in_section = []
        n = self.rng.randint(0, nitems)
        for _ in range(n):
            r = self.rng.random()
            if r < 0.12:
                items.append(self.blank_item())
            elif r < 0.3:
                items.append(self.comment_item())
            elif r < 0.42:
                items.append(self.section_item())
                keys_in_section = []
            else:
                k = None
                if keys_in_section and self.rng.random() < dup_keys:
                    k = self.rng.choice(keys_in_section)
                    self.count("duplicate_key")
                it = self.entry_item(k)
                keys_in_section.append(it["key"])
                items.append(it)
        return items


def render(items, final_newline=True):
    lines = []
    for it in items:
        lines.extend(it["lines"])
    out = b"\n".join(lines)
    if lines and final_newline:
        out += b"\n"
    return out


def expected(items):
    """-> (sections in order of first appearance, entries as dicts incl. provenance)"""
    sections = []
    entries = []
    cur = None
    line = 0
    cb = None
    ca = None
    for it in items:
        first = line + 1
        line += len(it["lines"])
        if it["kind"] == "comment":
            cb = it["text"] if cb is None else cb + b"\n" + it["text"]
        elif it["kind"] == "section":
            cur = it["name"]
            if cur not in sections:
                sections.append(cur)
            if it["tc"] is not None:
                ca = it["tc"] if ca is None else ca + b"\n" + it["tc"]
        elif it["kind"] == "entry":
            if it["tc"] is not None:
                ca = it["tc"] if ca is None else ca + b"\n" + it["tc"]
            v = it["value"]
            eca = ca
            for j, cl in enumerate(it["cont"]):
                v = (v or b"") + b"\n" + cl
                ctc = it.get("cont_tc", [None] * len(it["cont"]))[j]
                # the comments behind the lines of one entry are kept line by line (a line without one contributes an empty text
                # once there is any)
                if ctc is not None:
                    eca = (eca or b"") + b"\n" + ctc
                elif eca is not None:
                    eca = eca + b"\n"
            entries.append({"group": cur if cur is not None else NONE, "key": it["key"], "value": v, "cb": cb, "ca": eca,
                            "q": 1 if it["quotes"] else 0, "line": line, "first_line": first})
            cb = None
            ca = None
    return sections, entries


def groups_list(entries_or_items_sections, entries):
    """the group list as the parser registers it: section headers and _none_ in order of first use"""
    raise NotImplementedError


def registered_groups(items):
    out = []
    cur = None
    for it in items:
        if it["kind"] == "section":
            cur = it["name"]
            if cur not in out:
                out.append(cur)
        elif it["kind"] == "entry":
            g = cur if cur is not None else NONE
            if g not in out:
                out.append(g)
    return out


def trim(b):
    return b.strip(b" \t\x0b\x0c\r\n")


def ext_values(v):
    """values of econf_getExtValue for a stored text"""
    if v is None:
        return []
    t = trim(v)
    if t[:1] == b'"':
        return [t]
    return [trim(x) for x in t.split(b"\n")]


def docwf_lines(items, delim, comment, content, final_newline=True):
    """the document as input of `econf_model --docwf` (structured items, then the bytes fed to the implementation)"""
    def hx(b):
        return "h" + b.hex()

    def tcs(tc):
        return "-" if tc is None else "%s:%s" % (tc[0].hex(), hx(tc[1]))
    out = ["DOC %s %s" % (hx(delim), hx(comment))]
    for it in items:
        sp = it.get("sp")
        if sp is None:
            out.append("IT ?")
        elif sp[0] == "b":
            out.append("IT b %s" % hx(sp[1]))
        elif sp[0] == "c":
            out.append("IT c %s %s %s" % (hx(sp[1]), sp[2].hex(), hx(sp[3])))
        elif sp[0] in ("s", "k"):
            out.append("IT %s %s %s %s %s" % (sp[0], hx(sp[1]), hx(sp[2]), hx(sp[3]), tcs(sp[4])))
        else:
            _, ind, key, ws1, d, ws2, kind, val, tws, tc, conts = sp
            out.append("IT e %s %s %s %s %s %s %s %s %s %d %s" % (hx(ind), hx(key), hx(ws1), d.hex(), hx(ws2), kind, hx(val), hx(tws), tcs(tc), len(conts),
                                                                 " ".join("%s %s %s" % (hx(a), hx(b), hx(c)) for a, b, c in conts)))
    out.append("CHECK %s %d" % (hx(content), 1 if final_newline else 0))
    return out
