"""Trees and parameter shapes for the layered reads (C01, C06, C12, C13, C16, C19, C20)."""
from .scn import Scenario, h

DROPIN_NAMES = [b"10-a.conf", b"9-a.conf", b"a.conf", b"Z.conf", b".hid.conf", b"nosuffix", b"x.confx",
                b"\xc3\xa9.conf", b"b.conf", b".conf", b"sub.conf"]
# different names that a careless comparison takes for equal: same length and same multiplicative hash
# (djb2: 'a'*33+'z' == 'b'*33+'Y'), same letters in another case, same name up to the first dot
LOOKALIKE_NAMES = [b"10-az.conf", b"10-bY.conf", b"5-Az.conf", b"5-az.conf", b"q.d.conf", b"q.conf"]


def content(rng, tag, bare=False):
    """small file: group-less and grouped keys, overlapping across files, plus a provenance key;
    bare: some keys stand alone on their line (no delimiter, no value) - for reads with a delimiter set that contains a blank"""
    lines = []
    if bare and rng.random() < 0.4:
        lines.append(b"k")
    elif rng.random() < 0.7:
        lines.append(b"k=" + tag)
    if rng.random() < 0.4:
        lines.append(b"g" + bytes([rng.choice(b"12")]) + b"=" + tag)
    lines.append(b"id_" + tag + b"=1") if rng.random() < 0.5 else None
    for sec in (b"A", b"B"):
        if rng.random() < 0.5:
            lines.append(b"[" + sec + b"]")
            if bare and rng.random() < 0.4:
                lines.append(b"k")
            elif rng.random() < 0.8:
                lines.append(b"k=" + tag)
            if rng.random() < 0.4:
                lines.append(b"s" + sec + b"_" + tag + b"=" + tag)
    if rng.random() < 0.15:
        lines.append(b"[A]")
        lines.append(b"late=" + tag)
    lines = [l for l in lines if l]
    if rng.random() < 0.12:
        # a value without a key (the line begins with the delimiter): such a line is passed over, with or without a comment before it
        at = rng.randint(0, len(lines))
        lines[at:at] = ([b"# about the next line"] if rng.random() < 0.5 else []) + [b"=orphan_" + tag]
    return b"\n".join(lines) + b"\n"


MALFORMED = [b"[nobracket\n", b"[x] tail\n", b"[]\n", b"key value\n"]


class Tree:
    """files: list of (path, kind, payload, uid, gid) with kind in file|link|dir"""

    def __init__(self):
        self.files = []

    def emit(self, s):
        for path, kind, payload, uid, gid in self.files:
            if kind == "file":
                s.file(path, payload, uid, gid)
            elif kind == "link":
                s.link(path, payload, uid, gid)
            else:
                s.mkdir(path)


def random_tree(rng, dirs, name, dsfx, postfixes, tagger, p_main=0.6, names=DROPIN_NAMES, owner=None, decoys=None, links=True, bare=False):
    """dirs: layer directories (lowest first); main file <dir>/<name><dsfx>; drop-ins in <dir>/<name><postfix>/;
    decoys: further drop-in directory postfixes which get files but are not to be consulted"""
    t = Tree()
    if names is DROPIN_NAMES and rng.random() < 0.25:
        names = LOOKALIKE_NAMES + DROPIN_NAMES[:5]
    if dsfx not in (b"", b".conf"):
        names = [n.replace(b".conf", dsfx) for n in names]
    postfixes = list(postfixes) + [q for q in (decoys or []) if q not in postfixes]
    uid, gid = owner if owner else (None, None)
    seen = set()
    for d in dirs:
        if d in seen:
            continue   # the same directory given twice (e.g. both NULL)
        seen.add(d)
        st = rng.random()
        mainp = d + b"/" + name + dsfx
        if dsfx == b"" and any(q.startswith(b"/") or q == b"" for q in postfixes):
            st = 1.0   # <dir>/<name> has to be a directory here
        if st < p_main * 0.6:
            t.files.append((mainp, "file", content(rng, tagger(), bare), uid, gid))
        elif st < p_main * 0.8:
            t.files.append((mainp, "file", b"", uid, gid))
        elif st < p_main:
            t.files.append((mainp, "link", b"/dev/null", uid, gid))
        for q in postfixes:
            dd = d + b"/" + name + q
            r = rng.random()
            if r < 0.25:
                continue
            if r < 0.35:
                t.files.append((dd, "dir", None, None, None))
                continue
            k = rng.choice([1, 1, 2, 2, 3, 4])
            for nm in rng.sample(names, k):
                if nm.startswith(b"sub.") and rng.random() < 0.5:
                    t.files.append((dd + b"/" + nm, "dir", None, None, None))
                elif links and rng.random() < 0.1:
                    # a drop-in that is a symbolic link: to /dev/null (switches the name off) or to a file with another
                    # name somewhere else; it takes part under its own name
                    if rng.random() < 0.5:
                        t.files.append((dd + b"/" + nm, "link", b"/dev/null", uid, gid))
                    else:
                        tag = tagger()
                        t.files.append((b"/store/" + tag + b".data", "file", content(rng, tag, bare), uid, gid))
                        t.files.append((dd + b"/" + nm, "link", b"/store/" + tag + b".data", uid, gid))
                else:
                    t.files.append((dd + b"/" + nm, "file", content(rng, tagger(), bare), uid, gid))
    return t


class Tagger:
    def __init__(self):
        self.n = 0

    def __call__(self):
        self.n += 1
        return b"t%d" % self.n


SHAPES = ["project", "noproject", "dropinonly", "rootprefix", "parsingdirs", "configdirs", "setconfdirs", "readdirs"]


def shape_params(rng, shape):
    """-> dict(dirs, name, dsfx, postfixes, setup lines, call tokens builder)"""
    name = b"cfg"
    # the suffix word: mostly the usual one, sometimes a short, a dotted or a long one (the name of a file is
    # <name>.<word> whatever the length of the word)
    word = rng.choice([b"conf"] * 6 + [b"c", b"cfg", b"conf.local", b"configuration-of-the-local-site-v2"])
    sfx_spelling = rng.choice([word, b"." + word, None, word, b""])
    dsfx = b"" if not sfx_spelling else (sfx_spelling if sfx_spelling.startswith(b".") else b"." + sfx_spelling)
    p = {"name": name, "suffix": sfx_spelling, "dsfx": dsfx, "pre": [], "slot_pre": None, "global_confdirs": None, "decoys": None}
    usr = b"/usr/etc"
    if shape == "project":
        p["dirs"] = [usr + b"/prj", b"/run/prj", b"/etc/prj"]
        p["postfixes"] = [dsfx + b".d"]
        p["call"] = ("RC", b"prj", usr, name, sfx_spelling)
    elif shape == "noproject":
        p["dirs"] = [usr, b"/run", b"/etc"]
        p["postfixes"] = [dsfx + b".d"]
        p["call"] = ("RC", None, usr, name, sfx_spelling)
    elif shape == "dropinonly":
        p["name"] = b"prj"
        p["dirs"] = [usr, b"/run", b"/etc"]
        p["postfixes"] = [b".d"]
        p["call"] = ("RC", b"prj", usr, rng.choice([None, b""]), sfx_spelling)
    elif shape == "rootprefix":
        p["dirs"] = [b"/rt//usr/etc/prj", b"/rt//run/prj", b"/rt//etc/prj"]
        p["postfixes"] = [dsfx + b".d"]
        p["slot_pre"] = b"ROOT_PREFIX=/rt"
        p["call"] = ("RC", b"prj", usr, name, sfx_spelling)
    elif shape == "parsingdirs":
        n = rng.randint(1, 4)
        dirs = [b"/d%d" % i for i in range(n)]
        p["dirs"] = dirs
        p["postfixes"] = [dsfx + b".d"]
        p["slot_pre"] = b"PARSING_DIRS=" + b":".join(dirs)
        p["call"] = ("RC", b"prj", usr, name, sfx_spelling)
    elif shape == "configdirs":
        p["dirs"] = [usr + b"/prj", b"/run/prj", b"/etc/prj"]
        p["postfixes"] = rng.choice([[b".d"], [b".d", b"/conf.d"], [b"/conf.d", b".d", b""]])
        p["slot_pre"] = b"CONFIG_DIRS=" + b":".join(p["postfixes"])
        p["call"] = ("RC", b"prj", usr, name, sfx_spelling)
    elif shape == "setconfdirs":
        p["dirs"] = [usr + b"/prj", b"/run/prj", b"/etc/prj"]
        p["postfixes"] = rng.choice([[b".d"], [b"/conf.d", b".d"], [b".conf.d", b".d"]])
        p["global_confdirs"] = p["postfixes"]
        p["call"] = ("RC", b"prj", usr, name, sfx_spelling)
    if shape in ("dropinonly", "configdirs") and rng.random() < 0.4:
        # a process-wide list is installed as well; the list of the object has to win
        other = [q for q in (b"/conf.d", b".g.d", b".conf.d") if q not in p["postfixes"]]
        p["global_confdirs"] = rng.sample(other, rng.randint(1, 2))
        p["decoys"] = p["global_confdirs"]
    if shape == "readdirs":
        u = rng.choice([b"/usr/etc", b"/u", None, b""])
        e = rng.choice([b"/etc", b"/e", None])
        p["dirs"] = [u or b"", e or b""]
        p["postfixes"] = [dsfx + b".d"]
        p["call"] = ("RD", u, e, name, sfx_spelling)
    return p


def emit_read(s, p, slot, delim=b"=", comment=b"#", cb=None, entry=None):
    """emit the read call of shape p into slot; entry overrides RC/RD (RH for history)"""
    kind = entry or p["call"][0]
    if p["global_confdirs"] is not None:
        s.add("G", "confdirs", *[h(x) for x in p["global_confdirs"]])
    if kind == "RC":
        if p["slot_pre"] is not None:
            s.add("NEW", slot, "opt", h(p["slot_pre"]))
        _, prj, usr, name, sfx = p["call"]
        toks = ["RC", slot, h(prj), h(usr), h(name), h(sfx), h(delim), h(comment)]
    else:
        _, u, e, name, sfx = p["call"]
        toks = [kind, slot, h(u), h(e), h(name), h(sfx), h(delim), h(comment)]
    if cb:
        toks.append(cb)
    s.add(*toks)


def tree_scenario(sid, rng, shape=None, cb=None, malformed_at=None):
    shape = shape or rng.choice(SHAPES)
    p = shape_params(rng, shape)
    tg = Tagger()
    # a seventh of the trees are read with a delimiter set that contains a blank (login.defs style next to key=value): there a key
    # may stand alone on its line, and such a key in a later file takes the value of the earlier files away
    bare = malformed_at is None and rng.random() < 0.15
    t = random_tree(rng, p["dirs"], p["name"], p["dsfx"], p["postfixes"], tg, decoys=p["decoys"], bare=bare)
    s = Scenario(sid, {"shape": shape, "suffix": p["suffix"], "nfiles": len(t.files), "bare": bare})
    t.emit(s)
    s.add("LOGOPEN", 1)
    emit_read(s, p, 0, cb=cb, delim=b" =" if bare else b"=")
    s.add("RAW", 0)
    s.add("DUMP", 0)
    if True:
        s.add("SLOT", 0)
    s.add("ERRLOC")
    s.add("FREE", 0)
    return s, p, t


def reuse_scenario(sid, rng):
    """two layered reads through ONE handle: the second read has to return the configuration that belongs to its own
    arguments (after a successful read the handle holds the merged result, which carries no options; after a failed
    read on a handle made with PARSING_DIRS the handle still carries that list).  -> scenario, p (of the second read), tree (both trees)"""
    from checks import trees
    tg = Tagger()
    kind = rng.choice(["after_success", "after_success", "after_failure_pdirs"])
    t = Tree()
    if kind == "after_success":
        for _ in range(20):
            shape = rng.choice(["project", "noproject", "rootprefix", "parsingdirs", "configdirs", "dropinonly"])
            p1 = shape_params(rng, shape)
            if p1["global_confdirs"] is not None:
                continue   # a process-wide list would outlive the first read
            t1 = random_tree(rng, p1["dirs"], p1["name"], p1["dsfx"], p1["postfixes"], tg, decoys=p1["decoys"], p_main=0.8)
            main, drops = trees.consulted(trees.TreeView(t1), p1["dirs"], p1["name"], p1["dsfx"], p1["postfixes"])
            if main or drops:
                break
        else:
            raise RuntimeError("no first tree")
        # the second read: another project and/or another vendor directory and/or another name
        prj2 = rng.choice([b"other", b"prj", None])
        usr2 = rng.choice([b"/opt/etc", b"/usr/etc", b"/usr/lib"])
        name2 = rng.choice([b"cfg", b"second"])
        if (prj2, usr2, name2) == (p1["call"][1], p1["call"][2], p1["name"]):
            prj2 = b"other"
        sfx = p1["suffix"]
        dsfx = p1["dsfx"]
        dirs2 = [usr2 + b"/" + prj2, b"/run/" + prj2, b"/etc/" + prj2] if prj2 else [usr2, b"/run", b"/etc"]
        p = {"name": name2, "suffix": sfx, "dsfx": dsfx, "pre": [], "slot_pre": None, "global_confdirs": None, "decoys": None,
             "dirs": dirs2, "postfixes": [dsfx + b".d"], "call": ("RC", prj2, usr2, name2, sfx)}
        t2 = random_tree(rng, dirs2, name2, dsfx, p["postfixes"], tg, p_main=0.8)
        have = set(f[0] for f in t1.files)

        def clashes(path):
            # the same name, a directory of the first tree where the second wants a file, or the other way round
            return any(q == path or q.startswith(path + b"/") or path.startswith(q + b"/") and k != "dir" for q, k, _, _, _ in t1.files)
        t.files = t1.files + [f for f in t2.files if not clashes(f[0])]
        first = p1
    else:
        p = shape_params(rng, "parsingdirs")
        t = random_tree(rng, p["dirs"], p["name"], p["dsfx"], p["postfixes"], tg, p_main=0.8)
        first = dict(p)
        first["call"] = ("RC", b"prj", b"/usr/etc", b"missing", p["suffix"])
    s = Scenario(sid, {"shape": "reuse_" + kind, "suffix": p["suffix"], "nfiles": len(t.files), "reuse": kind})
    t.emit(s)
    s.add("LOGOPEN", 1)
    emit_read(s, first, 0)
    _, prj, usr, name, sfx = p["call"]
    s.add("RC", 0, h(prj), h(usr), h(name), h(sfx), h(b"="), h(b"#"))
    s.add("RAW", 0)
    s.add("FREE", 0)
    return s, p, t
