"""Scenario construction and execution on both sides (C harness = implementation, Lean driver = model)."""
import os
import subprocess
import concurrent.futures as cf

from . import build


def h(b):
    """token for a byte string (None = NULL pointer)"""
    if b is None:
        return "-"
    if isinstance(b, str):
        b = b.encode("latin-1")
    return "h" + b.hex()


def run_token(count, byte):
    return "r%d:%02x" % (count, byte)


def unh(tok):
    if tok == "~" or tok == "-":
        return None
    assert tok[0] == "h", tok
    return bytes.fromhex(tok[1:])


class Scenario:
    def __init__(self, sid, meta=None):
        self.id = sid
        self.lines = []
        self.meta = meta or {}

    def add(self, *toks):
        self.lines.append(" ".join(str(t) for t in toks))
        return self

    # tree
    def file(self, path, content, uid=None, gid=None):
        if uid is None:
            return self.add("F", h(path), h(content))
        return self.add("F", h(path), h(content), uid, gid)

    def link(self, path, target, uid=None, gid=None):
        if uid is None:
            return self.add("L", h(path), h(target))
        return self.add("L", h(path), h(target), uid, gid)

    def mkdir(self, path):
        return self.add("D", h(path))

    def text(self):
        return "BEGIN %s\n%s\nEND\n" % (self.id, "\n".join(self.lines))


def parse_output(text):
    """-> dict id -> (list of lines, status string)"""
    res = {}
    cur = None
    lines = []
    for ln in text.split("\n"):
        if ln.startswith("#BEGIN "):
            cur = ln[7:]
            lines = []
        elif ln.startswith("#END ") and cur is not None:
            rest = ln[5:]
            if rest.startswith(cur + " "):
                res[cur] = (lines, rest[len(cur) + 1:])
                cur = None
            else:
                lines.append(ln)
        elif cur is not None:
            if not ln.startswith("~"):      # implementation-only information lines are not compared
                lines.append(ln)
    if cur is not None:
        res[cur] = (lines, "ABORTED")
    return res


# stack size (KiB) of the implementation harness; None = the system's limit.  A check that looks for stack use growing with
# the input (C14) sets it low, so that the growth shows at input sizes the quick tier can afford.
STACK_KB = None


def _limit_stack():
    import resource
    n = STACK_KB * 1024
    resource.setrlimit(resource.RLIMIT_STACK, (n, n))


def _run_proc(cmd, text, env=None, timeout=3600, limit_stack=False):
    p = subprocess.run(cmd, input=text.encode(), stdout=subprocess.PIPE, stderr=subprocess.PIPE, env=env, timeout=timeout,
                       preexec_fn=_limit_stack if (limit_stack and STACK_KB) else None)
    return p.stdout.decode("latin-1"), p.stderr.decode("latin-1"), p.returncode


def chunks(lst, n):
    k = max(1, (len(lst) + n - 1) // n)
    return [lst[i:i + k] for i in range(0, len(lst), k)]


def run_impl(scenarios, harness, jobs=16, per_timeout=20):
    env = dict(os.environ)
    env["ASAN_OPTIONS"] = "detect_leaks=0:abort_on_error=0:symbolize=0:allocator_may_return_null=1:malloc_fill_byte=190:max_malloc_fill_size=1048576"
    env["UBSAN_OPTIONS"] = "print_stacktrace=0"
    res = {}
    parts = chunks(scenarios, jobs)
    with cf.ThreadPoolExecutor(max_workers=jobs) as ex:
        futs = [ex.submit(_run_proc, [harness["drv"], str(per_timeout)], "".join(s.text() for s in part), env, 3600, True) for part in parts]
        for f in futs:
            out, err, rc = f.result()
            res.update(parse_output(out))
    return res


def run_model(scenarios, jobs=16):
    exe = build.model_exe()
    res = {}
    parts = chunks(scenarios, jobs)
    with cf.ThreadPoolExecutor(max_workers=jobs) as ex:
        futs = [ex.submit(_run_proc, [exe], "".join(s.text() for s in part)) for part in parts]
        for f in futs:
            out, err, rc = f.result()
            r = parse_output(out)
            if rc != 0:
                # the model driver must never fail: mark what is missing
                for s in scenarios:
                    pass
            res.update(r)
    return res


def compare(scenarios, impl, model):
    """-> list of (scenario, impl_lines, impl_status, model_lines, model_status) that differ"""
    diffs = []
    for s in scenarios:
        il, ist = impl.get(s.id, ([], "MISSING"))
        ml, mst = model.get(s.id, ([], "MISSING"))
        if ist != "ok" or mst != "ok" or il != ml:
            diffs.append((s, il, ist, ml, mst))
    return diffs


def first_diff(il, ml):
    for i in range(max(len(il), len(ml))):
        a = il[i] if i < len(il) else "<none>"
        b = ml[i] if i < len(ml) else "<none>"
        if a != b:
            return i, a, b
    return None
