"""Build steps shared by all checks: the C harness (from /repo's working tree), econftool,
the Lean library and the model driver.  Everything lands under /verif/build (git-ignored)."""
import fcntl
import glob
import hashlib
import os
import shutil
import subprocess
import sys
import time

VERIF = os.path.dirname(os.path.dirname(os.path.abspath(__file__)))
REPO = os.environ.get("VERIF_REPO", "/repo")
BUILD = os.path.join(VERIF, "build")
LEAN = os.path.join(VERIF, "lean")
GUARD = "OPENSUSE_LIBECONF_VERIF"

CFLAGS = ["-O1", "-g", "-w", "-D_GNU_SOURCE", "-D_REENTRANT", "-D" + GUARD,
          "-I" + os.path.join(REPO, "include"), "-I" + os.path.join(REPO, "lib")]
SAN = ["-fsanitize=address,undefined", "-fno-sanitize-recover=all"]


def repo_hash():
    h = hashlib.sha256()
    files = sorted(glob.glob(os.path.join(REPO, "lib", "*.[ch]")) +
                   glob.glob(os.path.join(REPO, "include", "*.h")) +
                   glob.glob(os.path.join(REPO, "util", "*.[ch]")) +
                   glob.glob(os.path.join(VERIF, "harness", "*.[ch]")))
    for f in files:
        h.update(f.encode())
        with open(f, "rb") as fh:
            h.update(fh.read())
    return h.hexdigest()[:16]


class BuildError(Exception):
    pass


def _run(cmd, **kw):
    r = subprocess.run(cmd, stdout=subprocess.PIPE, stderr=subprocess.STDOUT, text=True, **kw)
    return r.returncode, r.stdout


def build_harness():
    """Returns dict with paths: drv (ASan+UBSan), tsan (thread harness) if present, econftool.
    Raises BuildError (with compiler output) when /repo no longer compiles with the harness."""
    os.makedirs(BUILD, exist_ok=True)
    hsh = repo_hash()
    out = os.path.join(BUILD, "h-" + hsh)
    lock = open(os.path.join(BUILD, ".lock"), "w")
    fcntl.flock(lock, fcntl.LOCK_EX)
    try:
        ok = os.path.join(out, ".ok")
        if not os.path.exists(ok):
            shutil.rmtree(out, ignore_errors=True)
            os.makedirs(out)
            libsrc = sorted(glob.glob(os.path.join(REPO, "lib", "*.c")))
            jobs = []
            jobs.append((["gcc"] + CFLAGS + SAN + ["-Wl,--wrap=fopen", "-Wl,--wrap=close", os.path.join(VERIF, "harness", "drv.c")] + libsrc +
                         ["-o", os.path.join(out, "drv")], "drv"))
            # the same interpreter, all scenarios of one input as concurrent threads, ThreadSanitizer
            jobs.append((["gcc"] + CFLAGS + ["-DTHREADS", "-fsanitize=thread", "-Wl,--wrap=fopen", "-Wl,--wrap=close", os.path.join(VERIF, "harness", "drv.c")] + libsrc +
                         ["-lpthread", "-o", os.path.join(out, "thr")], "thr"))
            num = os.path.join(VERIF, "harness", "num.c")
            if os.path.exists(num):
                jobs.append((["gcc", "-O2"] + CFLAGS[2:] + [num] + libsrc + ["-lpthread", "-lm", "-o", os.path.join(out, "num")], "num"))
            leaf = os.path.join(VERIF, "harness", "leaf.c")
            if os.path.exists(leaf):
                # the static helpers are reached by including their source files; the other files are linked as they are
                rest = [f for f in libsrc if os.path.basename(f) not in ("libeconf_ext.c", "getfilecontents.c", "mergefiles.c")]
                jobs.append((["gcc"] + CFLAGS + SAN + ["-I" + os.path.join(REPO, "util"), leaf] + rest + ["-o", os.path.join(out, "leaf")], "leaf"))
            tool = os.path.join(REPO, "util", "econftool.c")
            if os.path.exists(tool):
                jobs.append((["gcc"] + CFLAGS + SAN + [tool] + libsrc + ["-o", os.path.join(out, "econftool")], "econftool"))
            procs = [(subprocess.Popen(c, stdout=subprocess.PIPE, stderr=subprocess.STDOUT, text=True), n) for c, n in jobs]
            errs = []
            for p, n in procs:
                o, _ = p.communicate()
                if p.returncode != 0:
                    if n == "leaf":
                        # the direct harness reaches static functions by name and signature: a change to one of them is reported
                        # by the checks that use it (as an obligation), it does not stop the scenario harness
                        open(os.path.join(out, "leaf.err"), "w").write(o[-4000:])
                        continue
                    errs.append("%s: %s" % (n, o[-4000:]))
            if errs:
                raise BuildError("\n".join(errs))
            open(ok, "w").write(str(time.time()))
        # remove stale harness builds
        for d in glob.glob(os.path.join(BUILD, "h-*")):
            if d != out and time.time() - os.path.getmtime(d) > 3600:
                shutil.rmtree(d, ignore_errors=True)
    finally:
        fcntl.flock(lock, fcntl.LOCK_UN)
        lock.close()
    leaf_err = os.path.join(out, "leaf.err")
    return {"dir": out, "drv": os.path.join(out, "drv"), "thr": os.path.join(out, "thr"),
            "num": os.path.join(out, "num"), "econftool": os.path.join(out, "econftool"),
            "leaf": None if os.path.exists(leaf_err) else os.path.join(out, "leaf"),
            "leaf_error": open(leaf_err).read() if os.path.exists(leaf_err) else None, "hash": hsh}


def lake_build(targets, pre=None):
    """lake build of the given targets (serialised); `pre` (e.g. the fact extractor, which rewrites
    Generated/Facts.lean) runs under the same lock; returns (ok, output)."""
    os.makedirs(BUILD, exist_ok=True)
    lock = open(os.path.join(BUILD, ".lake.lock"), "w")
    fcntl.flock(lock, fcntl.LOCK_EX)
    try:
        if pre is not None:
            pre()
        rc, out = _run(["lake", "build"] + list(targets), cwd=LEAN)
    finally:
        fcntl.flock(lock, fcntl.LOCK_UN)
        lock.close()
    return rc == 0, out


def model_exe():
    return os.path.join(LEAN, ".lake", "build", "bin", "econf_model")


if __name__ == "__main__":
    h = build_harness()
    print(h)
    sys.path.insert(0, VERIF)
    from gen import extract_facts, c2lean  # Generated/*.lean are not tracked: always re-extracted from /repo

    def pre():
        extract_facts.generate()
        c2lean.generate()
    ok, out = lake_build(["Econf", "econf_model", "Econf.Props.All"], pre=pre)
    print("lake:", ok)
    if not ok:
        print(out[-3000:])
        sys.exit(1)
