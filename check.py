#!/usr/bin/env python3
"""Entry point of every check:  python3 check.py <property id> [--tier quick|thorough] [--replay file]"""
import os
import sys

sys.path.insert(0, os.path.dirname(os.path.abspath(__file__)))
from checks import common  # noqa: E402

if __name__ == "__main__":
    sys.exit(common.main(sys.argv[1:]))
