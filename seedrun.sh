#!/bin/bash
# usage: seedrun.sh <seed-dir> <check> [<check>...]   - applies the seeded change to /repo, runs the checks (quick), reverts /repo
S=$1; shift
cd /repo && git apply $S/patch.diff || { echo "does not apply to /repo"; exit 2; }
for c in "$@"; do (cd /verif && timeout 1800 python3 check.py $c --tier ${TIER:-quick} | grep -E "VIOLATION|KNOWN|^C[0-9]+ " | cut -c1-220); done
git -C /repo checkout -q -- .
# the evidence files in the work tree are those of the unchanged tree again
git -C /verif checkout -q -- evidence 2>/dev/null
