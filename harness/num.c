/* Direct oracles for C08 / C09 on the real library: exhaustive and sampled typed round trips,
 * exhaustive boolean strings.  No model involved: the property itself is evaluated.
 *   num rt32 <lo> <hi>            all 32-bit patterns in [lo,hi]: int32, uint32, float set->get
 *   num rt64 <seed> <count>       int64, uint64, double: boundaries, single bits, powers of ten, random
 *   num file <seed> <count> <dir> set -> write -> read -> get, 256 keys per file, all six numeric types + bool
 *   num boolx <maxlen>            all strings up to maxlen over the reduced alphabet through set(string)/getBool
 * Output: "FAIL <what>" lines (at most 20) and a final "done <evaluations> <failures>".
 */
#define _GNU_SOURCE
#include <ctype.h>
#include <inttypes.h>
#include <math.h>
#include <stdarg.h>
#include <stdbool.h>
#include <stdint.h>
#include <stdio.h>
#include <stdlib.h>
#include <string.h>
#include <strings.h>
#include <unistd.h>

#include "libeconf.h"

static uint64_t evals, fails;
static void fail(const char *fmt, ...)
{
  fails++;
  if (fails > 20) return;
  va_list ap; va_start(ap, fmt);
  printf("FAIL "); vprintf(fmt, ap); printf("\n");
  va_end(ap);
}

static uint64_t rs;
static uint64_t rnd(void) { rs ^= rs << 13; rs ^= rs >> 7; rs ^= rs << 17; return rs; }

static bool same_f(float a, float b) { uint32_t x, y; memcpy(&x, &a, 4); memcpy(&y, &b, 4); return x == y || (isnan(a) && isnan(b)); }
static bool same_d(double a, double b) { uint64_t x, y; memcpy(&x, &a, 8); memcpy(&y, &b, 8); return x == y || (isnan(a) && isnan(b)); }

static void rt32(econf_file *kf, uint32_t v)
{
  int32_t i = (int32_t)v, io = 0; uint32_t uo = 0; float f, fo = 0; econf_err e;
  memcpy(&f, &v, 4);
  evals += 3;
  if ((e = econf_setIntValue(kf, "g", "i", i)) || (e = econf_getIntValue(kf, "g", "i", &io)) || io != i)
    fail("int32 %d: err %d got %d", i, e, io);
  if ((e = econf_setUIntValue(kf, NULL, "u", v)) || (e = econf_getUIntValue(kf, NULL, "u", &uo)) || uo != v)
    fail("uint32 %u: err %d got %u", v, e, uo);
  if ((e = econf_setFloatValue(kf, "g", "f", f)) || (e = econf_getFloatValue(kf, "g", "f", &fo)) || !same_f(f, fo))
    fail("float bits %08x: err %d got %a", v, e, (double)fo);
}

static void rt64(econf_file *kf, uint64_t v)
{
  int64_t i = (int64_t)v, io = 0; uint64_t uo = 0; double d, dd = 0; econf_err e;
  memcpy(&d, &v, 8);
  evals += 3;
  if ((e = econf_setInt64Value(kf, "g", "i", i)) || (e = econf_getInt64Value(kf, "g", "i", &io)) || io != i)
    fail("int64 %" PRId64 ": err %d got %" PRId64, i, e, io);
  if ((e = econf_setUInt64Value(kf, NULL, "u", v)) || (e = econf_getUInt64Value(kf, NULL, "u", &uo)) || uo != v)
    fail("uint64 %" PRIu64 ": err %d got %" PRIu64, v, e, uo);
  if ((e = econf_setDoubleValue(kf, "g", "d", d)) || (e = econf_getDoubleValue(kf, "g", "d", &dd)) || !same_d(d, dd))
    fail("double bits %016" PRIx64 ": err %d got %a", v, e, dd);
}

static size_t interesting64(uint64_t *out)
{
  size_t n = 0;
  for (int b = 0; b < 64; b++) {
    uint64_t x = 1ULL << b;
    out[n++] = x; out[n++] = x - 1; out[n++] = x + 1; out[n++] = ~x; out[n++] = (uint64_t)(-(int64_t)x);
  }
  uint64_t p = 1;
  for (int k = 0; k < 20; k++) { out[n++] = p; out[n++] = p - 1; out[n++] = p + 1; out[n++] = (uint64_t)(-(int64_t)p); p *= 10; }
  /* doubles: powers of ten and neighbours, limits, subnormals */
  for (int k = -330; k <= 310; k += 1) {
    double d = pow(10.0, k); uint64_t b; memcpy(&b, &d, 8);
    out[n++] = b; out[n++] = b + 1; out[n++] = b - 1;
  }
  uint64_t sp[] = {0, 1, 2, 0x000fffffffffffffULL, 0x0010000000000000ULL, 0x7fefffffffffffffULL, 0x7ff0000000000000ULL,
                   0xfff0000000000000ULL, 0x7ff8000000000000ULL, 0xfff8000000000001ULL, 0x8000000000000000ULL, 0x8000000000000001ULL,
                   0x3ff0000000000000ULL, 0x3fb999999999999aULL, 0x7fffffffffffffffULL, 0xffffffffffffffffULL};
  for (size_t i = 0; i < sizeof sp / sizeof sp[0]; i++) out[n++] = sp[i];
  return n;
}

static void file_rt(uint64_t count, const char *dir)
{
  const int B = 256;
  uint64_t *vals = malloc(sizeof(uint64_t) * B);
  static uint64_t spec[4000]; size_t ns = interesting64(spec), si = 0;
  static const char *bools[] = {"yes", "Yes", "YES", "no", "NO", "true", "True", "TRUE", "tRuE", "false", "FALSE", "fAlSe", "1", "0"};
  for (uint64_t done = 0; done < count; done += B) {
    econf_file *kf = NULL, *rd = NULL; char key[32]; econf_err e;
    econf_newKeyFile(&kf, '=', '#');
    for (int i = 0; i < B; i++) {
      uint64_t v = si < ns ? spec[si++] : rnd(); vals[i] = v;
      double d; float f; uint32_t v32 = (uint32_t)v; memcpy(&d, &v, 8); memcpy(&f, &v32, 4);
      snprintf(key, sizeof key, "k%d", i);
      econf_setInt64Value(kf, "i64", key, (int64_t)v); econf_setUInt64Value(kf, "u64", key, v);
      econf_setIntValue(kf, "i32", key, (int32_t)v32); econf_setUIntValue(kf, "u32", key, v32);
      econf_setDoubleValue(kf, "dbl", key, d); econf_setFloatValue(kf, "flt", key, f);
      econf_setBoolValue(kf, "bool", key, bools[v % 14]);
    }
    if ((e = econf_writeFile(kf, dir, "num.conf"))) { fail("writeFile err %d", e); break; }
    char path[4096]; snprintf(path, sizeof path, "%s/num.conf", dir);
    if ((e = econf_readFile(&rd, path, "=", "#"))) { fail("readFile err %d", e); break; }
    for (int i = 0; i < B; i++) {
      uint64_t v = vals[i]; uint32_t v32 = (uint32_t)v; double d, dd = 0; float f, ff = 0;
      int64_t i64 = 0; uint64_t u64 = 0; int32_t i32 = 0; uint32_t u32 = 0; bool b = false;
      memcpy(&d, &v, 8); memcpy(&f, &v32, 4);
      snprintf(key, sizeof key, "k%d", i);
      evals += 7;
      if ((e = econf_getInt64Value(rd, "i64", key, &i64)) || i64 != (int64_t)v) fail("file int64 %" PRId64 " err %d got %" PRId64, (int64_t)v, e, i64);
      if ((e = econf_getUInt64Value(rd, "u64", key, &u64)) || u64 != v) fail("file uint64 %" PRIu64 " err %d", v, e);
      if ((e = econf_getIntValue(rd, "i32", key, &i32)) || i32 != (int32_t)v32) fail("file int32 %d err %d got %d", (int32_t)v32, e, i32);
      if ((e = econf_getUIntValue(rd, "u32", key, &u32)) || u32 != v32) fail("file uint32 %u err %d", v32, e);
      if ((e = econf_getDoubleValue(rd, "dbl", key, &dd)) || !same_d(d, dd)) fail("file double bits %016" PRIx64 " err %d got %a", v, e, dd);
      if ((e = econf_getFloatValue(rd, "flt", key, &ff)) || !same_f(f, ff)) fail("file float bits %08x err %d", v32, e);
      const char *w = bools[v % 14];
      bool want = !strcasecmp(w, "yes") || !strcasecmp(w, "true") || !strcmp(w, "1");
      if ((e = econf_getBoolValue(rd, "bool", key, &b)) || b != want) fail("file bool %s err %d got %d", w, e, (int)b);
    }
    econf_freeFile(kf); econf_freeFile(rd);
  }
  free(vals);
}

/* reduced alphabet: every letter of the six words in both cases, digits 0/1, djb2 neighbours and separators */
static const char ALPHA[] = "yestrunofalYESTRUNOFAL01 -@p`2_";

static int is_true(const char *s) { return !strcmp(s, "1") || !strcasecmp(s, "yes") || !strcasecmp(s, "true"); }
static int is_false(const char *s) { return !strcmp(s, "0") || !strcasecmp(s, "no") || !strcasecmp(s, "false") || !*s; }

static void boolx(econf_file *kf, char *buf, int pos, int maxlen)
{
  buf[pos] = 0;
  bool b = false; econf_err e;
  evals++;
  econf_setStringValue(kf, NULL, "b", buf);
  e = econf_getBoolValue(kf, NULL, "b", &b);
  if (is_true(buf)) { if (e || !b) fail("bool text '%s': err %d value %d, expected true", buf, e, (int)b); }
  else if (is_false(buf)) { if (e || b) fail("bool text '%s': err %d value %d, expected false", buf, e, (int)b); }
  else if (!e) fail("bool text '%s' accepted as %d", buf, (int)b);
  /* the getter must not change the stored text */
  char *back = NULL;
  if (econf_getStringValue(kf, NULL, "b", &back) || strcmp(back ? back : "", buf)) fail("bool getter changed stored '%s' to '%s'", buf, back ? back : "(null)");
  free(back);
  /* setter: accepted spellings canonicalise and read back */
  e = econf_setBoolValue(kf, NULL, "c", buf);
  if (is_true(buf) || (is_false(buf) && *buf)) {
    bool r = false; econf_err e2 = econf_getBoolValue(kf, NULL, "c", &r);
    if (e || e2 || r != (is_true(buf) != 0)) fail("bool set '%s': err %d/%d got %d", buf, e, e2, (int)r);
  } else if (!e && *buf && strcasecmp(buf, "_none_")) fail("bool setter accepted '%s'", buf);
  if (pos == maxlen) return;
  for (const char *a = ALPHA; *a; a++) { buf[pos] = *a; boolx(kf, buf, pos + 1, maxlen); }
}

int main(int argc, char **argv)
{
  if (argc < 2) return 2;
  econf_file *kf = NULL;
  econf_newKeyFile(&kf, '=', '#');
  if (!strcmp(argv[1], "rt32")) {
    uint64_t lo = strtoull(argv[2], NULL, 0), hi = strtoull(argv[3], NULL, 0);
    for (uint64_t v = lo; v <= hi; v++) rt32(kf, (uint32_t)v);
  } else if (!strcmp(argv[1], "rt64")) {
    rs = strtoull(argv[2], NULL, 0) * 2654435761ULL + 88172645463325252ULL;
    uint64_t cnt = strtoull(argv[3], NULL, 0);
    static uint64_t spec[4000]; size_t ns = interesting64(spec);
    for (size_t i = 0; i < ns; i++) rt64(kf, spec[i]);
    for (uint64_t i = 0; i < cnt; i++) rt64(kf, rnd());
  } else if (!strcmp(argv[1], "file")) {
    rs = strtoull(argv[2], NULL, 0) * 2654435761ULL + 88172645463325252ULL;
    file_rt(strtoull(argv[3], NULL, 0), argv[4]);
  } else if (!strcmp(argv[1], "boolx")) {
    char buf[16] = "";
    int start = 0;
    if (argc > 3) { snprintf(buf, sizeof buf, "%s", argv[3]); start = (int)strlen(buf); }   /* only strings with this prefix */
    boolx(kf, buf, start, atoi(argv[2]));
  } else return 2;
  econf_freeFile(kf);
  printf("done %" PRIu64 " %" PRIu64 "\n", evals, fails);
  return 0;
}
