/* Scenario interpreter for the real libeconf (linked with /repo/lib/*.c compiled afresh).
 *
 * stdin : scenarios   "BEGIN <id>" , command lines , "END"
 * stdout: "#BEGIN <id>", one or more result lines per command, "#END <id> <status>"
 *
 * Every scenario runs in a forked child that chroot()s into a fresh directory, so the
 * library sees exactly the tree the scenario builds (absolute default directories
 * /usr/etc, /run, /etc included).  A crash, sanitizer abort or timeout of the child is
 * reported by the parent as status CRASH / TIMEOUT.
 *
 * Byte strings are hex encoded with an 'h' prefix (empty string = "h"), "-" is the NULL
 * pointer.  See DESIGN.md 2.4.  The Lean driver (lean/Driver.lean) interprets the very
 * same text against the model and must print the same lines.
 */
#define _GNU_SOURCE
#include <ctype.h>
#include <dirent.h>
#include <errno.h>
#include <fcntl.h>
#include <ftw.h>
#include <inttypes.h>
#include <locale.h>
#include <signal.h>
#include <stdbool.h>
#include <stdint.h>
#include <stdio.h>
#include <stdlib.h>
#include <string.h>
#include <sys/stat.h>
#include <sys/types.h>
#include <sys/wait.h>
#include <unistd.h>

#include "libeconf.h"
#include "libeconf_ext.h"
#include "keyfile.h"

extern size_t __sanitizer_get_current_allocated_bytes(void) __attribute__((weak));

#define MAXSLOT 64
#define MAXTOK 32

#ifdef THREADS
#define TL __thread
#else
#define TL
#endif
static TL econf_file *slot[MAXSLOT];
static TL FILE *out_fp;            /* results of the current scenario (stdout, or a per-thread buffer) */
#define OUT (out_fp ? out_fp : stdout)
#define printf(...) fprintf(OUT, __VA_ARGS__)
static char scratch_base[4096];
static int timeout_s = 20;

/* ---------- output ---------- */
static void put_hex(const char *s)
{
  if (s == NULL) { fputs("~", OUT); return; }
  fputc('h', OUT);
  for (const unsigned char *p = (const unsigned char *)s; *p; p++)
    printf("%02x", *p);
}
static void put_hexn(const unsigned char *s, size_t n)
{
  fputc('h', OUT);
  for (size_t i = 0; i < n; i++) printf("%02x", s[i]);
}
/* long strings: length + FNV hash instead of content */
static void put_sum(const char *s)
{
  if (s == NULL) { fputs("~", OUT); return; }
  size_t n = strlen(s);
  uint64_t h = 14695981039346656037ULL;
  for (size_t i = 0; i < n; i++) { h ^= (unsigned char)s[i]; h *= 1099511628211ULL; }
  printf("len=%zu fnv=%016" PRIx64, n, h);
}

/* ---------- token decoding ---------- */
static int hexv(int c) { return c <= '9' ? c - '0' : (c | 32) - 'a' + 10; }
/* returns malloc'd string or NULL for "-" ; *len gets byte count */
static char *dec(const char *t, size_t *len)
{
  if (len) *len = 0;
  if (t == NULL || strcmp(t, "-") == 0) return NULL;
  if (t[0] == 'r') { /* r<count>:<hexbyte>  run of one byte, for long inputs */
    size_t cnt = strtoul(t + 1, NULL, 10);
    const char *c = strchr(t, ':');
    int b = c ? (hexv(c[1]) << 4 | hexv(c[2])) : 'a';
    char *o = malloc(cnt + 1);
    memset(o, b, cnt); o[cnt] = 0;
    if (len) *len = cnt;
    return o;
  }
  if (t[0] != 'h') { fprintf(stderr, "bad token %s\n", t); exit(3); }
  size_t n = strlen(t + 1) / 2;
  char *o = malloc(n + 1);
  for (size_t i = 0; i < n; i++) o[i] = (char)(hexv(t[1 + 2 * i]) << 4 | hexv(t[2 + 2 * i]));
  o[n] = 0;
  if (len) *len = n;
  return o;
}
/* concatenation token: parts joined by '+', each part h.. or r.. */
static char *decc(const char *t, size_t *len)
{
  if (t == NULL || strcmp(t, "-") == 0) { if (len) *len = 0; return NULL; }
  char *copy = strdup(t), *save = NULL, *out = malloc(1);
  size_t tot = 0; out[0] = 0;
  for (char *p = strtok_r(copy, "+", &save); p; p = strtok_r(NULL, "+", &save)) {
    size_t l; char *d = dec(p, &l);
    out = realloc(out, tot + l + 1);
    memcpy(out + tot, d, l); tot += l; out[tot] = 0; free(d);
  }
  free(copy);
  if (len) *len = tot;
  return out;
}

/* The delimiter and comment arguments of the read functions are handed over in two buffers that live as long as the
   thread and are re-used from call to call (an application that keeps its settings in a struct does the same): the
   library sees the same addresses with different contents. */
static TL char arg_delim[64], arg_comment[64];
static const char *keep_arg(char *buf, size_t size, char *s)
{
  if (s == NULL || strlen(s) >= size) return s;
  memset(buf, 0, size);
  strcpy(buf, s);
  return buf;
}
#define DELIM(d) keep_arg(arg_delim, sizeof arg_delim, d)
#define COMMENT(c) keep_arg(arg_comment, sizeof arg_comment, c)

/* ---------- callback ---------- */
static TL int cb_mode;            /* 0 none, 1 accept all, 2 reject n-th, 3 reject suffix, 4 accept all after reading another
                                     file through the library, 5 accept all, the n-th call removes a file first */
static TL int log_open;
static TL int cb_n, cb_calls;
static TL char *cb_suffix;
static TL int cb_token;           /* its address is the data pointer */
static bool the_cb(const char *filename, const void *data)
{
  printf("cb "); put_hex(filename); printf(" %d\n", data == (const void *)&cb_token);
  int k = cb_calls++;
  if (cb_mode == 2 && k == cb_n) return false;
  if (cb_mode == 4) { /* a policy callback which loads its own configuration with the library while it is being asked */
    int keep = log_open; log_open = 0;
    econf_file *t = NULL;
    if (econf_readFile(&t, cb_suffix, ":", ";") == ECONF_SUCCESS) { char *v = NULL; econf_getStringValue(t, NULL, "allow", &v); free(v); }
    econf_freeFile(t);
    /* ... and a layered one: <dir of the policy file>/usr + /etc, name "allow", suffix "list" */
    char *dir = strdup(cb_suffix); char *sl = strrchr(dir, '/'); if (sl) *sl = 0;
    char *u = NULL, *e2 = NULL;
    if (asprintf(&u, "%s/usr", dir) > 0 && asprintf(&e2, "%s/etc", dir) > 0) {
      t = NULL;
      econf_readDirs(&t, u, e2, "allow", "list", " ", "!");
      econf_freeFile(t);
    }
    free(u); free(e2); free(dir);
    log_open = keep;
  }
  if (cb_mode == 5 && k == cb_n) unlink(cb_suffix);
  if (cb_mode == 3) {
    size_t lf = strlen(filename), ls = strlen(cb_suffix);
    if (ls <= lf && strcmp(filename + lf - ls, cb_suffix) == 0) return false;
  }
  return true;
}
/* parse optional trailing callback spec; returns 1 if a callback is to be used */
static int cb_setup(const char *t)
{
  cb_mode = 0; cb_calls = 0; free(cb_suffix); cb_suffix = NULL;
  if (t == NULL) return 0;
  if (strcmp(t, "cb:all") == 0) cb_mode = 1;
  else if (strncmp(t, "cb:rej:", 7) == 0) { cb_mode = 2; cb_n = atoi(t + 7); }
  else if (strncmp(t, "cb:suf:", 7) == 0) { cb_mode = 3; cb_suffix = dec(t + 7, NULL); }
  else if (strncmp(t, "cb:nest:", 8) == 0) { cb_mode = 4; cb_suffix = dec(t + 8, NULL); }
  else if (strncmp(t, "cb:rm:", 6) == 0) { cb_mode = 5; cb_n = atoi(t + 6); cb_suffix = dec(strchr(t + 6, ':') + 1, NULL); }
  else { fprintf(stderr, "bad cb spec %s\n", t); exit(3); }
  return 1;
}

/* fopen logging through -Wl,--wrap=fopen */
FILE *__real_fopen(const char *path, const char *mode);
FILE *__wrap_fopen(const char *path, const char *mode)
{
  if (log_open && mode && mode[0] == 'r') { printf("open "); put_hex(path); printf("\n"); }
  return __real_fopen(path, mode);
}

/* object life-cycle events, reported by the library through its verification hook
   (lib/libeconf.c, guard OPENSUSE_LIBECONF_VERIF); ids are handed out in order of creation */
#ifdef OPENSUSE_LIBECONF_VERIF
extern void (*econf_verif_object_hook)(const char *event, const void *object);
#endif
#define MAXOBJ 8192
static TL int log_obj;
static TL const void *obj_ptr[MAXOBJ];
static TL int obj_n;
static void obj_event(const char *event, const void *object)
{
  if (!log_obj) return;
  if (strcmp(event, "free") != 0) {
    if (obj_n < MAXOBJ) obj_ptr[obj_n] = object;
    printf("obj %s %d\n", event, obj_n++);
    return;
  }
  /* the most recent object created at this address (addresses are re-used after a release) */
  for (int i = (obj_n < MAXOBJ ? obj_n : MAXOBJ) - 1; i >= 0; i--)
    if (obj_ptr[i] == object) { obj_ptr[i] = NULL; printf("obj free %d\n", i); return; }
  printf("obj free ?\n");
}

/* close() on a descriptor that is not open (closed twice, or never opened): alone it only fails with EBADF, with other
   threads around it closes whatever file another thread has just opened under that number.  (-Wl,--wrap=close) */
int __real_close(int fd);
int __wrap_close(int fd)
{
  int r = __real_close(fd);
  if (r == -1 && errno == EBADF) { int e = errno; printf("badclose\n"); errno = e; }
  return r;
}

/* ---------- helpers ---------- */
static void mkparents(const char *path)
{
  char *p = strdup(path);
  for (char *s = p + 1; *s; s++)
    if (*s == '/') { *s = 0; mkdir(p, 0755); *s = '/'; }
  free(p);
}
static int sl(const char *t)
{
  int s = atoi(t);
  if (s < 0 || s >= MAXSLOT) { fprintf(stderr, "bad slot\n"); exit(3); }
  return s;
}
static const char *ptrstate(econf_file *p) { return p ? "obj" : "null"; }

static void dump_raw(econf_file *kf)
{
  if (!kf) { printf("raw null\n"); return; }
  printf("raw len=%zu groups=%d", kf->length, kf->group_count);
  for (int i = 0; i < kf->group_count; i++) { printf(" "); put_hex(kf->groups[i]); }
  printf(" path="); put_hex(kf->path);
  printf(" d=%02x c=%02x\n", (unsigned char)kf->delimiter, (unsigned char)kf->comment);
  for (size_t i = 0; i < kf->length; i++) {
    struct file_entry *e = &kf->file_entry[i];
    printf("e "); put_hex(e->group); printf(" "); put_hex(e->key); printf(" "); put_hex(e->value);
    printf(" "); put_hex(e->comment_before_key); printf(" "); put_hex(e->comment_after_value);
    printf(" q=%d\n", (int)e->quotes);
  }
}
/* same, with the line numbers (only meaningful for parsed objects) */
static void dump_rawl(econf_file *kf)
{
  if (!kf) { printf("rawl null\n"); return; }
  printf("rawl len=%zu\n", kf->length);
  for (size_t i = 0; i < kf->length; i++)
    printf("l %" PRIu64 "\n", kf->file_entry[i].line_number);
}

static void print_ext(econf_file *kf, const char *g, const char *k)
{
  econf_ext_value *ev = NULL;
  econf_err e = econf_getExtValue(kf, g, k, &ev);
  printf("ext E%d", e);
  if (e == 0 && ev) {
    printf(" file="); put_hex(ev->file);
    printf(" line=%" PRIu64, ev->line_number);
    printf(" cb="); put_hex(ev->comment_before_key);
    printf(" ca="); put_hex(ev->comment_after_value);
    printf(" vals");
    for (char **v = ev->values; v && *v; v++) { printf(" "); put_hex(*v); }
    econf_freeExtValue(ev);
  }
  printf("\n");
}

/* public-API view: groups, keys per group (group-less first), string value of each key */
static void dump_view(econf_file *kf, int with_ext)
{
  if (!kf) { printf("view null\n"); return; }
  size_t ng = 0; char **groups = NULL;
  econf_err e = econf_getGroups(kf, &ng, &groups);
  printf("view groups E%d", e);
  if (e) ng = 0;
  for (size_t i = 0; i < ng; i++) { printf(" "); put_hex(groups[i]); }
  printf("\n");
  for (size_t gi = 0; gi <= ng; gi++) {
    const char *g = gi == 0 ? NULL : groups[gi - 1];
    size_t nk = 0; char **keys = NULL;
    e = econf_getKeys(kf, g, &nk, &keys);
    printf("keys "); put_hex(g); printf(" E%d", e);
    if (e) { printf("\n"); continue; }
    for (size_t k = 0; k < nk; k++) { printf(" "); put_hex(keys[k]); }
    printf("\n");
    for (size_t k = 0; k < nk; k++) {
      char *v = NULL;
      econf_err e2 = econf_getStringValue(kf, g, keys[k], &v);
      printf("val "); put_hex(keys[k]); printf(" E%d ", e2);
      if (e2 == 0) { put_hex(v); free(v); }
      printf("\n");
      if (with_ext) print_ext(kf, g, keys[k]);
    }
    econf_freeArray(keys);
  }
  if (groups) econf_freeArray(groups);
}

/* every typed getter on every listed key; the floating getters are impl-only ("~" lines are not compared) */
static void all_getters(econf_file *kf)
{
  if (!kf) { printf("allget null\n"); return; }
  size_t ng = 0; char **groups = NULL;
  econf_err e = econf_getGroups(kf, &ng, &groups);
  if (e) ng = 0;
  printf("allget E%d\n", e);
  for (size_t gi = 0; gi <= ng; gi++) {
    const char *g = gi == 0 ? NULL : groups[gi - 1];
    size_t nk = 0; char **keys = NULL;
    if (econf_getKeys(kf, g, &nk, &keys)) continue;
    for (size_t k = 0; k < nk; k++) {
      int32_t i32 = 0; int64_t i64 = 0; uint32_t u32 = 0; uint64_t u64 = 0; bool b = false; float f = 0; double d = 0;
      econf_err e1 = econf_getIntValue(kf, g, keys[k], &i32), e2 = econf_getInt64Value(kf, g, keys[k], &i64),
                e3 = econf_getUIntValue(kf, g, keys[k], &u32), e4 = econf_getUInt64Value(kf, g, keys[k], &u64),
                e5 = econf_getBoolValue(kf, g, keys[k], &b);
      printf("ag "); put_hex(keys[k]);
      printf(" i E%d", e1); if (!e1) printf(" %d", i32);
      printf(" l E%d", e2); if (!e2) printf(" %lld", (long long)i64);
      printf(" u E%d", e3); if (!e3) printf(" %u", u32);
      printf(" w E%d", e4); if (!e4) printf(" %llu", (unsigned long long)u64);
      printf(" b E%d", e5); if (!e5) printf(" %d", (int)b);
      printf("\n");
      econf_err e6 = econf_getFloatValue(kf, g, keys[k], &f), e7 = econf_getDoubleValue(kf, g, keys[k], &d);
      printf("~ag f E%d d E%d\n", e6, e7);
    }
    econf_freeArray(keys);
  }
  if (groups) econf_freeArray(groups);
}

static void print_file_bytes(const char *path)
{
  FILE *f = __real_fopen(path, "rb");
  if (!f) { printf("bytes none\n"); return; }
  printf("bytes h");
  int c;
  while ((c = fgetc(f)) != EOF) printf("%02x", c);
  printf("\n");
  fclose(f);
}
static void print_file_sum(const char *path)
{
  FILE *f = __real_fopen(path, "rb");
  if (!f) { printf("bytes none\n"); return; }
  uint64_t h = 14695981039346656037ULL; size_t n = 0; int c;
  while ((c = fgetc(f)) != EOF) { h ^= (unsigned char)c; h *= 1099511628211ULL; n++; }
  printf("bytes len=%zu fnv=%016" PRIx64 "\n", n, h);
  fclose(f);
}

static TL size_t mark_bytes;

/* ---------- typed set / get ---------- */
static void do_set(econf_file *kf, const char *type, const char *g, const char *k, const char *vt)
{
  econf_err e;
  if (!strcmp(type, "str")) { char *v = decc(vt, NULL); e = econf_setStringValue(kf, g, k, v); free(v); }
  else if (!strcmp(type, "bool")) { char *v = decc(vt, NULL); e = econf_setBoolValue(kf, g, k, v); free(v); }
  else if (!strcmp(type, "int")) e = econf_setIntValue(kf, g, k, (int32_t)strtoll(vt, NULL, 10));
  else if (!strcmp(type, "int64")) e = econf_setInt64Value(kf, g, k, (int64_t)strtoll(vt, NULL, 10));
  else if (!strcmp(type, "uint")) e = econf_setUIntValue(kf, g, k, (uint32_t)strtoull(vt, NULL, 10));
  else if (!strcmp(type, "uint64")) e = econf_setUInt64Value(kf, g, k, (uint64_t)strtoull(vt, NULL, 10));
  else if (!strcmp(type, "float")) { uint32_t b = (uint32_t)strtoul(vt + 1, NULL, 16); float f; memcpy(&f, &b, 4); e = econf_setFloatValue(kf, g, k, f); }
  else if (!strcmp(type, "double")) { uint64_t b = strtoull(vt + 1, NULL, 16); double d; memcpy(&d, &b, 8); e = econf_setDoubleValue(kf, g, k, d); }
  else { fprintf(stderr, "bad type %s\n", type); exit(3); }
  printf("set E%d\n", e);
}
/* def == NULL: plain getter */
static void do_get(econf_file *kf, const char *type, const char *g, const char *k, const char *dt)
{
  econf_err e;
  if (!strcmp(type, "str")) {
    char *v = NULL;
    if (dt) { char *d = decc(dt, NULL); e = econf_getStringValueDef(kf, g, k, &v, d); free(d); }
    else e = econf_getStringValue(kf, g, k, &v);
    printf("get E%d ", e);
    if (e == 0 || (dt && e == ECONF_NOKEY)) { put_hex(v); free(v); }
    printf("\n");
    return;
  }
  if (!strcmp(type, "sum")) { /* string getter, length+hash only */
    char *v = NULL; e = econf_getStringValue(kf, g, k, &v);
    printf("get E%d ", e); if (e == 0) { put_sum(v); free(v); } printf("\n"); return;
  }
#define NUMGET(T, FN, FND, PARSE, FMT, CAST) do { T r = 0; \
    if (dt) { T d = (T)PARSE; e = FND(kf, g, k, &r, d); } else e = FN(kf, g, k, &r); \
    printf("get E%d", e); if (e == 0 || (dt && e == ECONF_NOKEY)) printf(" " FMT, (CAST)r); printf("\n"); } while (0)
  if (!strcmp(type, "int")) NUMGET(int32_t, econf_getIntValue, econf_getIntValueDef, strtoll(dt, NULL, 10), "%lld", long long);
  else if (!strcmp(type, "int64")) NUMGET(int64_t, econf_getInt64Value, econf_getInt64ValueDef, strtoll(dt, NULL, 10), "%lld", long long);
  else if (!strcmp(type, "uint")) NUMGET(uint32_t, econf_getUIntValue, econf_getUIntValueDef, strtoull(dt, NULL, 10), "%llu", unsigned long long);
  else if (!strcmp(type, "uint64")) NUMGET(uint64_t, econf_getUInt64Value, econf_getUInt64ValueDef, strtoull(dt, NULL, 10), "%llu", unsigned long long);
  else if (!strcmp(type, "bool")) {
    bool r = false;
    if (dt) e = econf_getBoolValueDef(kf, g, k, &r, atoi(dt) != 0); else e = econf_getBoolValue(kf, g, k, &r);
    printf("get E%d", e); if (e == 0 || (dt && e == ECONF_NOKEY)) printf(" %d", (int)r); printf("\n");
  }
  else if (!strcmp(type, "float")) {
    float r = 0; uint32_t b;
    if (dt) { b = (uint32_t)strtoul(dt + 1, NULL, 16); float d; memcpy(&d, &b, 4); e = econf_getFloatValueDef(kf, g, k, &r, d); }
    else e = econf_getFloatValue(kf, g, k, &r);
    memcpy(&b, &r, 4);
    printf("get E%d", e); if (e == 0 || (dt && e == ECONF_NOKEY)) printf(" x%08x", b); printf("\n");
  }
  else if (!strcmp(type, "double")) {
    double r = 0; uint64_t b;
    if (dt) { b = strtoull(dt + 1, NULL, 16); double d; memcpy(&d, &b, 8); e = econf_getDoubleValueDef(kf, g, k, &r, d); }
    else e = econf_getDoubleValue(kf, g, k, &r);
    memcpy(&b, &r, 8);
    printf("get E%d", e); if (e == 0 || (dt && e == ECONF_NOKEY)) printf(" x%016" PRIx64, b); printf("\n");
  }
  else { fprintf(stderr, "bad type %s\n", type); exit(3); }
}

/* ---------- one command ---------- */
static void run_cmd(char *line)
{
  char *tok[MAXTOK]; int n = 0; char *save = NULL;
  for (char *p = strtok_r(line, " \n", &save); p && n < MAXTOK; p = strtok_r(NULL, " \n", &save)) tok[n++] = p;
  if (n == 0) return;
  for (int i = n; i < MAXTOK; i++) tok[i] = NULL;
  const char *c = tok[0];

  if (!strcmp(c, "D")) {
    char *p = dec(tok[1], NULL); mkparents(p); mkdir(p, 0755);
    if (tok[2]) chmod(p, (mode_t)strtol(tok[2], NULL, 8));       /* D <path> <octal mode> */
    free(p);
  }
  else if (!strcmp(c, "F")) {
    char *p = dec(tok[1], NULL); size_t l; char *b = decc(tok[2], &l);
    mkparents(p);
    FILE *f = __real_fopen(p, "wb"); if (!f) { perror(p); exit(3); }
    fwrite(b, 1, l, f); fclose(f);
    if (tok[3] && tok[4]) { if (lchown(p, atoi(tok[3]), atoi(tok[4]))) perror("lchown"); }
    free(p); free(b);
  }
  else if (!strcmp(c, "L")) {
    char *p = dec(tok[1], NULL), *t = dec(tok[2], NULL);
    mkparents(p);
    if (symlink(t, p)) perror("symlink");
    if (tok[3] && tok[4]) { if (lchown(p, atoi(tok[3]), atoi(tok[4]))) perror("lchown"); }
    free(p); free(t);
  }
  else if (!strcmp(c, "RM")) { char *p = dec(tok[1], NULL); unlink(p); free(p); }
  else if (!strcmp(c, "CD")) { char *p = dec(tok[1], NULL); if (chdir(p)) perror("chdir"); free(p); }
  else if (!strcmp(c, "G")) {
    if (!strcmp(tok[1], "owner")) econf_requireOwner((uid_t)strtoul(tok[2], NULL, 10));
    else if (!strcmp(tok[1], "group")) econf_requireGroup((gid_t)strtoul(tok[2], NULL, 10));
    else if (!strcmp(tok[1], "nosymlink")) econf_followSymlinks(atoi(tok[2]) == 0);
    else if (!strcmp(tok[1], "perms")) econf_requirePermissions((mode_t)strtol(tok[2], NULL, 8), (mode_t)strtol(tok[3], NULL, 8));
    else if (!strcmp(tok[1], "reset")) econf_reset_security_settings();
    else if (!strcmp(tok[1], "confdirs")) {
      const char *lst[MAXTOK]; int k = 0;
      for (int i = 2; i < n; i++) lst[k++] = dec(tok[i], NULL);
      lst[k] = NULL;
      econf_err e = econf_set_conf_dirs(lst);
      for (int i = 0; i < k; i++) free((char *)lst[i]);
      printf("confdirs E%d\n", e);
    }
  }
  else if (!strcmp(c, "LOCALE")) { /* LOCALE <name>: numeric locale of the process (found through $LOCPATH) */
    char *r = setlocale(LC_NUMERIC, tok[1]);
    printf("locale %s %s\n", r ? "set" : "unavailable", localeconv()->decimal_point);
  }
  else if (!strcmp(c, "LOGOPEN")) log_open = atoi(tok[1]);
  else if (!strcmp(c, "OBJLOG")) log_obj = atoi(tok[1]);
  else if (!strcmp(c, "NEW")) {
    int s = sl(tok[1]); econf_err e;
    if (!strcmp(tok[2], "key")) { char *d = dec(tok[3], NULL), *cm = dec(tok[4], NULL); e = econf_newKeyFile(&slot[s], d[0], cm[0]); free(d); free(cm); }
    else if (!strcmp(tok[2], "ini")) e = econf_newIniFile(&slot[s]);
    else { char *o = dec(tok[3], NULL); e = econf_newKeyFile_with_options(&slot[s], o); free(o); }
    printf("new E%d %s\n", e, ptrstate(slot[s]));
  }
  else if (!strcmp(c, "OPTS")) { /* option fields of an object, via the internal header */
    econf_file *kf = slot[sl(tok[1])];
    if (!kf) printf("opts null\n");
    else {
      printf("opts join=%d python=%d root=", kf->join_same_entries, kf->python_style); put_hex(kf->root_prefix);
      printf(" pdirs=%d", kf->parse_dirs_count);
      for (int i = 0; i < kf->parse_dirs_count; i++) { printf(" "); put_hex(kf->parse_dirs[i]); }
      printf(" cdirs=%d", kf->conf_count);
      for (int i = 0; i < kf->conf_count; i++) { printf(" "); put_hex(kf->conf_dirs[i]); }
      printf("\n");
    }
  }
  else if (!strcmp(c, "RF")) { /* RF slot path delim comment [cb] */
    int s = sl(tok[1]); char *p = dec(tok[2], NULL), *d = dec(tok[3], NULL), *cm = dec(tok[4], NULL);
    econf_err e;
    if (cb_setup(tok[5])) e = econf_readFileWithCallback(&slot[s], p, DELIM(d), COMMENT(cm), the_cb, &cb_token);
    else e = econf_readFile(&slot[s], p, DELIM(d), COMMENT(cm));
    printf("rf E%d %s\n", e, ptrstate(slot[s]));
    free(p); free(d); free(cm);
  }
  else if (!strcmp(c, "RC")) { /* RC slot project usr_subdir name suffix delim comment [cb] */
    int s = sl(tok[1]);
    char *pr = dec(tok[2], NULL), *us = dec(tok[3], NULL), *nm = dec(tok[4], NULL), *sf = dec(tok[5], NULL),
         *d = dec(tok[6], NULL), *cm = dec(tok[7], NULL);
    econf_err e;
    if (cb_setup(tok[8])) e = econf_readConfigWithCallback(&slot[s], pr, us, nm, sf, DELIM(d), COMMENT(cm), the_cb, &cb_token);
    else e = econf_readConfig(&slot[s], pr, us, nm, sf, DELIM(d), COMMENT(cm));
    printf("rc E%d %s\n", e, ptrstate(slot[s]));
    free(pr); free(us); free(nm); free(sf); free(d); free(cm);
  }
  else if (!strcmp(c, "RD")) { /* RD slot usr etc name suffix delim comment [cb] */
    int s = sl(tok[1]);
    char *u = dec(tok[2], NULL), *et = dec(tok[3], NULL), *nm = dec(tok[4], NULL), *sf = dec(tok[5], NULL),
         *d = dec(tok[6], NULL), *cm = dec(tok[7], NULL);
    econf_err e;
    if (cb_setup(tok[8])) e = econf_readDirsWithCallback(&slot[s], u, et, nm, sf, DELIM(d), COMMENT(cm), the_cb, &cb_token);
    else e = econf_readDirs(&slot[s], u, et, nm, sf, DELIM(d), COMMENT(cm));
    printf("rd E%d %s\n", e, ptrstate(slot[s]));
    free(u); free(et); free(nm); free(sf); free(d); free(cm);
  }
  else if (!strcmp(c, "RH")) { /* RH slot usr etc name suffix delim comment [cb] : files into slot.. */
    int s = sl(tok[1]);
    char *u = dec(tok[2], NULL), *et = dec(tok[3], NULL), *nm = dec(tok[4], NULL), *sf = dec(tok[5], NULL),
         *d = dec(tok[6], NULL), *cm = dec(tok[7], NULL);
    econf_file **hist = (econf_file **)&cb_token; /* sentinel: "untouched" */
    size_t size = 12345;
    econf_err e;
    if (cb_setup(tok[8])) e = econf_readDirsHistoryWithCallback(&hist, &size, u, et, nm, sf, DELIM(d), COMMENT(cm), the_cb, &cb_token);
    else e = econf_readDirsHistory(&hist, &size, u, et, nm, sf, DELIM(d), COMMENT(cm));
    const char *st = hist == (econf_file **)&cb_token ? "untouched" : hist ? "obj" : "null";
    if (e == 0) {
      printf("rh E%d %s %zu\n", e, st, size);
      for (size_t i = 0; i < size && s + (int)i < MAXSLOT; i++) slot[s + i] = hist[i];
      free(hist);
    } else printf("rh E%d %s\n", e, st);
    free(u); free(et); free(nm); free(sf); free(d); free(cm);
  }
  else if (!strcmp(c, "M")) {
    int s = sl(tok[1]);
    econf_file *a = strcmp(tok[2], "-") ? slot[sl(tok[2])] : NULL, *b = strcmp(tok[3], "-") ? slot[sl(tok[3])] : NULL;
    econf_err e;
    if (!strcmp(tok[1], "-")) { e = econf_mergeFiles(NULL, a, b); printf("m E%d\n", e); }
    else { e = econf_mergeFiles(&slot[s], a, b); printf("m E%d %s\n", e, ptrstate(slot[s])); }
  }
  else if (!strcmp(c, "SET")) {
    econf_file *kf = strcmp(tok[1], "-") ? slot[sl(tok[1])] : NULL;
    char *g = dec(tok[3], NULL), *k = dec(tok[4], NULL);
    do_set(kf, tok[2], g, k, tok[5]); free(g); free(k);
  }
  else if (!strcmp(c, "GET") || !strcmp(c, "GETD")) {
    econf_file *kf = strcmp(tok[1], "-") ? slot[sl(tok[1])] : NULL;
    char *g = decc(tok[3], NULL), *k = decc(tok[4], NULL);
    do_get(kf, tok[2], g, k, !strcmp(c, "GETD") ? tok[5] : NULL); free(g); free(k);
  }
  else if (!strcmp(c, "GROUPS")) {
    econf_file *kf = strcmp(tok[1], "-") ? slot[sl(tok[1])] : NULL;
    size_t ng = 0; char **gr = NULL; econf_err e = econf_getGroups(kf, &ng, &gr);
    printf("groups E%d", e);
    if (!e) { for (size_t i = 0; i < ng; i++) { printf(" "); put_hex(gr[i]); } econf_freeArray(gr); }
    printf("\n");
  }
  else if (!strcmp(c, "KEYS")) {
    econf_file *kf = strcmp(tok[1], "-") ? slot[sl(tok[1])] : NULL;
    char *g = dec(tok[2], NULL); size_t nk = 0; char **ks = NULL;
    econf_err e = econf_getKeys(kf, g, &nk, &ks);
    printf("keys E%d", e);
    if (!e) { for (size_t i = 0; i < nk; i++) { printf(" "); put_hex(ks[i]); } econf_freeArray(ks); }
    printf("\n"); free(g);
  }
  else if (!strcmp(c, "TOOLSHOW")) printf("~toolshow\n");   /* answered by the model only */
  else if (!strcmp(c, "KEYSUM")) { /* KEYSUM slot group : sums of all section names and of the group's keys */
    econf_file *kf = slot[sl(tok[1])];
    char *g = decc(tok[2], NULL); size_t ng = 0, nk = 0; char **gr = NULL, **ks = NULL;
    econf_err e1 = econf_getGroups(kf, &ng, &gr), e2 = econf_getKeys(kf, g, &nk, &ks);
    printf("keysum E%d E%d", e1, e2);
    if (!e1) { for (size_t i = 0; i < ng; i++) { printf(" g "); put_sum(gr[i]); } econf_freeArray(gr); }
    if (!e2) { for (size_t i = 0; i < nk; i++) { printf(" k "); put_sum(ks[i]); } econf_freeArray(ks); }
    printf("\n"); free(g);
  }
  else if (!strcmp(c, "EXT")) {
    econf_file *kf = strcmp(tok[1], "-") ? slot[sl(tok[1])] : NULL;
    char *g = dec(tok[2], NULL), *k = dec(tok[3], NULL);
    print_ext(kf, g, k); free(g); free(k);
  }
  else if (!strcmp(c, "EXTSUM")) { /* lengths and hashes only */
    econf_file *kf = slot[sl(tok[1])];
    char *g = decc(tok[2], NULL), *k = decc(tok[3], NULL);
    econf_ext_value *ev = NULL; econf_err e = econf_getExtValue(kf, g, k, &ev);
    printf("extsum E%d", e);
    if (!e && ev) {
      printf(" cb "); put_sum(ev->comment_before_key); printf(" ca "); put_sum(ev->comment_after_value);
      for (char **v = ev->values; v && *v; v++) { printf(" v "); put_sum(*v); }
      econf_freeExtValue(ev);
    }
    printf("\n"); free(g); free(k);
  }
  else if (!strcmp(c, "PATH") && !slot[sl(tok[1])]) printf("path null\n");   /* econf_getPath() does not accept NULL */
  else if (!strcmp(c, "PATH")) { char *p = econf_getPath(slot[sl(tok[1])]); printf("path "); put_hex(p); printf("\n"); free(p); }
  else if (!strcmp(c, "TAGS")) {
    econf_file *kf = strcmp(tok[1], "-") ? slot[sl(tok[1])] : NULL;
    printf("tags %02x %02x\n", (unsigned char)econf_delimiter_tag(kf), (unsigned char)econf_comment_tag(kf));
  }
  else if (!strcmp(c, "SETTAGS")) {
    econf_file *kf = strcmp(tok[1], "-") ? slot[sl(tok[1])] : NULL;
    char *d = dec(tok[2], NULL), *cm = dec(tok[3], NULL);
    econf_set_delimiter_tag(kf, d[0]); econf_set_comment_tag(kf, cm[0]); free(d); free(cm);
  }
  else if (!strcmp(c, "W") || !strcmp(c, "WSUM")) { /* W slot dir name */
    econf_file *kf = strcmp(tok[1], "-") ? slot[sl(tok[1])] : NULL;
    char *d = dec(tok[2], NULL), *nm = dec(tok[3], NULL);
    char *full; if (asprintf(&full, "%s/%s", d ? d : "", nm ? nm : "") < 0) exit(3);
    struct stat sb0; int existed = lstat(full, &sb0) == 0;
    econf_err e = econf_writeFile(kf, d, nm);
    printf("w E%d\n", e);
    if (!e) {
      if (!strcmp(c, "W")) print_file_bytes(full); else print_file_sum(full);
      /* the harness runs with umask 022: a file that did not exist before is created with mode 0644; anything else is said */
      struct stat sb; if (!existed && stat(full, &sb) == 0 && (sb.st_mode & 07777) != 0644) printf("wmode %o\n", (unsigned)(sb.st_mode & 07777));
      mode_t um = umask(022); if (um != 022) printf("umask %o\n", (unsigned)um);
    }
    free(full);
    free(d); free(nm);
  }
  else if (!strcmp(c, "ALLGET")) all_getters(slot[sl(tok[1])]);
  else if (!strcmp(c, "DUMP")) dump_view(slot[sl(tok[1])], 0);
  else if (!strcmp(c, "DUMPX")) dump_view(slot[sl(tok[1])], 1);
  else if (!strcmp(c, "RAW")) dump_raw(slot[sl(tok[1])]);
  else if (!strcmp(c, "RAWL")) dump_rawl(slot[sl(tok[1])]);
  else if (!strcmp(c, "FREE")) { int s = sl(tok[1]); econf_file *r = econf_freeFile(slot[s]); slot[s] = NULL; printf("free %s\n", ptrstate(r)); }
  else if (!strcmp(c, "FREENULL")) {
    econf_file *r = econf_freeFile(NULL); char **a = econf_freeArray(NULL); econf_freeExtValue(NULL);
    printf("freenull %s %s\n", ptrstate(r), a ? "obj" : "null");
  }
  else if (!strcmp(c, "ERRLOC")) {
    char *f = NULL; uint64_t l = 0; econf_errLocation(&f, &l);
    printf("errloc "); put_hex(f); printf(" %" PRIu64 "\n", l); free(f);
  }
  else if (!strcmp(c, "ERRSTR")) { printf("errstr "); put_hex(econf_errString((econf_err)atoi(tok[1]))); printf("\n"); }
  else if (!strcmp(c, "MARK")) { fflush(OUT); mark_bytes = __sanitizer_get_current_allocated_bytes ? __sanitizer_get_current_allocated_bytes() : 0; }
  else if (!strcmp(c, "LEAK")) {
    fflush(stdout);
    free(cb_suffix); cb_suffix = NULL;   /* the harness' own allocation */
    size_t now = __sanitizer_get_current_allocated_bytes ? __sanitizer_get_current_allocated_bytes() : 0;
    printf("leak %d\n", now != mark_bytes);
    if (now != mark_bytes) fprintf(stderr, "leak: %zu bytes\n", now - mark_bytes);
  }
  else if (!strcmp(c, "SLOT")) printf("slot %s\n", ptrstate(slot[sl(tok[1])]));
  else { fprintf(stderr, "unknown command %s\n", c); exit(3); }
}

/* ---------- scenario runner ---------- */
static int rm_cb(const char *p, const struct stat *sb, int flag, struct FTW *f)
{
  (void)sb; (void)flag; (void)f;
  return remove(p);
}
/* removal relative to directory descriptors: the trees of some scenarios are deeper than PATH_MAX */
static void rm_at(int dfd, const char *name)
{
  int fd = openat(dfd, name, O_RDONLY | O_DIRECTORY | O_NOFOLLOW);
  if (fd < 0) { unlinkat(dfd, name, 0); return; }
  DIR *d = fdopendir(fd);
  if (!d) { close(fd); return; }
  struct dirent *e;
  while ((e = readdir(d)) != NULL) {
    if (!strcmp(e->d_name, ".") || !strcmp(e->d_name, "..")) continue;
    rm_at(fd, e->d_name);
  }
  closedir(d);
  unlinkat(dfd, name, AT_REMOVEDIR);
}
static void rm_rf(const char *dir)
{
  rm_at(AT_FDCWD, dir);
  (void)rm_cb;
}

static char *read_scenario(char *id, size_t idsz)
{
  char *line = NULL; size_t cap = 0; ssize_t r;
  while ((r = getline(&line, &cap, stdin)) > 0) {
    if (strncmp(line, "BEGIN ", 6) == 0) {
      snprintf(id, idsz, "%s", line + 6);
      id[strcspn(id, "\n")] = 0;
      size_t tot = 0, bcap = 1 << 16; char *body = malloc(bcap); body[0] = 0;
      while ((r = getline(&line, &cap, stdin)) > 0) {
        if (strncmp(line, "END", 3) == 0) break;
        if (tot + (size_t)r + 1 > bcap) { while (tot + (size_t)r + 1 > bcap) bcap *= 2; body = realloc(body, bcap); }
        memcpy(body + tot, line, (size_t)r); tot += (size_t)r; body[tot] = 0;
      }
      free(line);
      return body;
    }
  }
  free(line);
  return NULL;
}

#ifdef THREADS
#include <pthread.h>
struct job { char *body; char *out; size_t outlen; };
static void *thread_main(void *arg)
{
  struct job *j = arg;
  out_fp = open_memstream(&j->out, &j->outlen);
  char *save = NULL;
  for (char *ln = strtok_r(j->body, "\n", &save); ln; ln = strtok_r(NULL, "\n", &save)) run_cmd(ln);
  fclose(out_fp); out_fp = NULL;
  return NULL;
}
/* all scenarios of stdin run concurrently, one thread each, in one chroot; each must use private paths */
static int threads_main(void)
{
  char id[256]; char *body; int n = 0;
  struct job jobs[64]; char ids[64][256]; pthread_t th[64];
  while (n < 64 && (body = read_scenario(id, sizeof id)) != NULL) { jobs[n].body = body; jobs[n].out = NULL; snprintf(ids[n], 256, "%s", id); n++; }
  /* no chroot here (ThreadSanitizer needs /proc to name globals): the scenarios carry real, private path prefixes */
  /* a scenario named "prologue..." runs to its end before the threads start: the documented process-wide options are set there */
  int first = 0;
  if (n > 0 && strncmp(ids[0], "prologue", 8) == 0) { thread_main(&jobs[0]); first = 1; }
  for (int i = first; i < n; i++) pthread_create(&th[i], NULL, thread_main, &jobs[i]);
  for (int i = first; i < n; i++) pthread_join(th[i], NULL);
  for (int i = 0; i < n; i++) { fprintf(stdout, "#BEGIN %s\n", ids[i]); fwrite(jobs[i].out, 1, jobs[i].outlen, stdout); fprintf(stdout, "#END %s ok\n", ids[i]); }
  fflush(stdout);
  return 0;
}
#endif

int main(int argc, char **argv)
{
  umask(022);   /* files 0644, directories 0755: what the model's `modeOf` says */
#ifdef OPENSUSE_LIBECONF_VERIF
  econf_verif_object_hook = obj_event;
#endif
  const char *base = getenv("VERIF_SCRATCH");
  if (!base) base = access("/dev/shm", W_OK) == 0 ? "/dev/shm" : "/tmp";
  if (argc > 1) timeout_s = atoi(argv[1]);
  snprintf(scratch_base, sizeof scratch_base, "%s/econf-drv-%d", base, (int)getpid());
  mkdir(scratch_base, 0755);
#ifdef THREADS
  { int r = threads_main(); rmdir(scratch_base); return r; }
#endif
  char id[256]; char *body; long cnt = 0;
  setvbuf(stdout, NULL, _IOFBF, 1 << 16);
  int timeouts = 0;
  while ((body = read_scenario(id, sizeof id)) != NULL) {
    printf("#BEGIN %s\n", id); fflush(stdout);
    if (timeouts >= 5) {
      /* five scenarios of this batch have already run into the time limit: that is reported; the rest of the
         batch is marked as not run instead of waiting for the limit again and again */
      printf("#END %s SKIPPED\n", id); fflush(stdout);
      free(body);
      continue;
    }
    char root[4200]; snprintf(root, sizeof root, "%s/r%ld", scratch_base, cnt++);
    mkdir(root, 0755);
    pid_t pid = fork();
    if (pid == 0) {
      alarm((unsigned)timeout_s);
      if (chdir(root) || chroot(".")) { perror("chroot"); _exit(4); }
      mkdir("/dev", 0755);
      { FILE *f = __real_fopen("/dev/null", "wb"); if (f) fclose(f); }
      dup2(1, 2); /* sanitizer reports go to the same stream, after the results */
      char *save = NULL;
      for (char *ln = strtok_r(body, "\n", &save); ln; ln = strtok_r(NULL, "\n", &save)) {
        run_cmd(ln); fflush(stdout);
      }
      fflush(stdout);
      _exit(0);
    }
    int st = 0; waitpid(pid, &st, 0);
    if (WIFEXITED(st) && WEXITSTATUS(st) == 0) printf("#END %s ok\n", id);
    else if (WIFSIGNALED(st) && WTERMSIG(st) == SIGALRM) { printf("\n#END %s TIMEOUT\n", id); timeouts++; }
    else printf("\n#END %s CRASH %d\n", id, WIFEXITED(st) ? WEXITSTATUS(st) : 128 + WTERMSIG(st));
    fflush(stdout);
    free(body);
    rm_rf(root);
  }
  rm_rf(scratch_base);
  return 0;
}
