/* Direct harness for the string helpers that gen/c2lean.py translates: the real C functions (static ones reached by
 * including their source files) are run on the same inputs as the MiniC interpreter runs the translated terms on
 * (lean/Driver.lean --leaf); both print one line per call.  Built with ASan+UBSan: every argument lives in a heap block
 * of exactly strlen+1 bytes, as in the interpreter's memory, so an over-read or over-write is reported.
 *
 * stdin : <function> <hex string> [<hex string> <hex string>]     stdout: <function> <result>
 */
#define _GNU_SOURCE
#include <stdio.h>
#include <stdlib.h>
#include <string.h>
#include <stdbool.h>
#include <stdint.h>

#define main econftool_main
#include "econftool.c"
#undef main
#include "libeconf_ext.c"
#include "getfilecontents.c"

static int hexv(int c) { return c <= '9' ? c - '0' : (c | 32) - 'a' + 10; }
static char *dec(const char *t)
{
  size_t n = strlen(t + 1) / 2;
  char *o = malloc(n + 1);
  for (size_t i = 0; i < n; i++) o[i] = (char)(hexv(t[1 + 2 * i]) << 4 | hexv(t[2 + 2 * i]));
  o[n] = 0;
  return o;
}
static void put_hex(const char *s)
{
  putchar('h');
  for (const unsigned char *p = (const unsigned char *)s; *p; p++) printf("%02x", *p);
}

int main(void)
{
  char *line = NULL; size_t cap = 0;
  while (getline(&line, &cap, stdin) > 0) {
    char *save = NULL, *tok[5] = {0}; int n = 0;
    for (char *p = strtok_r(line, " \n", &save); p && n < 5; p = strtok_r(NULL, " \n", &save)) tok[n++] = p;
    if (n < 2) continue;
    const char *f = tok[0];
    char *a = dec(tok[1]), *b = n > 2 ? dec(tok[2]) : NULL, *c = n > 3 ? dec(tok[3]) : NULL;
    printf("%s ", f);
    if (!strcmp(f, "stripbrackets")) { char *r = stripbrackets(a); printf("%ld ", (long)(r - a)); put_hex(r); }
    else if (!strcmp(f, "addbrackets")) { char *r = addbrackets(a); put_hex(r); printf(" "); put_hex(a); free(r); }
    else if (!strcmp(f, "toLowerCase")) { char *r = toLowerCase(a); printf("%ld ", (long)(r - a)); put_hex(r); }
    else if (!strcmp(f, "hashstring")) printf("%zu", hashstring(a));
    else if (!strcmp(f, "ltrim")) { char *r = ltrim(a); printf("%ld ", (long)(r - a)); put_hex(a); }
    else if (!strcmp(f, "rtrim")) { char *r = rtrim(a); printf("%ld ", (long)(r - a)); put_hex(a); }
    else if (!strcmp(f, "trim")) { char *r = trim(a); printf("%ld ", (long)(r - a)); put_hex(r); }
    else if (!strcmp(f, "check_delim")) { bool w = 0, nw = 0; check_delim(a, &w, &nw); printf("%d %d", (int)w, (int)nw); }
    else if (!strcmp(f, "replace_str")) { char *r = replace_str(a, b, c); printf("%ld ", (long)(r - a)); put_hex(r); }
    else printf("?");
    printf("\n");
    free(a); free(b); free(c);
  }
  free(line);
  return 0;
}
