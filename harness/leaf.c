/* Direct harness for the string helpers that gen/c2lean.py translates: the real C functions (static ones reached by
 * including their source files) are run on the same inputs as the MiniC interpreter runs the translated terms on
 * (lean/Driver.lean --leaf); both print one line per call.  Built with ASan+UBSan: every argument lives in a heap block
 * of exactly strlen+1 bytes, as in the interpreter's memory, so an over-read or over-write is reported.
 *
 * stdin : <function> <hex string> [<hex string> <hex string>]     stdout: <function> <result>
 *
 * Functions over an econf_file (has_group, first_entry, first_definition, find_key, getFromGroupList): the first argument
 * describes the object: eh<hexgroup>:h<hexkey>,h<hexgroup>:h<hexkey>,...   (entries; the array has exactly that many elements)
 *                  or  gh<hexname>,h<hexname>,...                            (the group list; groups[count] = NULL)
 * further arguments: h<hex> string, - NULL, n<decimal> number.
 */
#define _GNU_SOURCE
#include <stdio.h>
#include <stdlib.h>
#include <string.h>
#include <stdbool.h>
#include <stdint.h>

#define main econftool_main
#include "econftool.c"
#undef main
#include "libeconf_ext.c"
#include "getfilecontents.c"
#include "mergefiles.c"

static int hexv(int c) { return c <= '9' ? c - '0' : (c | 32) - 'a' + 10; }
static char *dec(const char *t)
{
  size_t n = strlen(t + 1) / 2;
  char *o = malloc(n + 1);
  for (size_t i = 0; i < n; i++) o[i] = (char)(hexv(t[1 + 2 * i]) << 4 | hexv(t[2 + 2 * i]));
  o[n] = 0;
  return o;
}
static void put_hex(const char *s)
{
  putchar('h');
  for (const unsigned char *p = (const unsigned char *)s; *p; p++) printf("%02x", *p);
}

static char *dec_raw(const char *t, size_t n)      /* n hex digits pairs at t */
{
  char *o = malloc(n + 1);
  for (size_t i = 0; i < n; i++) o[i] = (char)(hexv(t[2 * i]) << 4 | hexv(t[2 * i + 1]));
  o[n] = 0;
  return o;
}

/* an econf_file whose arrays are exactly as long as the description says */
static void build_kf(econf_file *kf, const char *spec)
{
  memset(kf, 0, sizeof *kf);
  kf->delimiter = '='; kf->comment = '#';
  size_t n = 0;
  if (spec[1]) { n = 1; for (const char *p = spec; *p; p++) if (*p == ',') n++; }
  if (spec[0] == 'e') {
    kf->file_entry = malloc(n * sizeof(struct file_entry) + (n ? 0 : 1));
    kf->length = kf->alloc_length = n;
    const char *p = spec + 1;
    for (size_t i = 0; i < n; i++) {
      const char *c = strchr(p, ':'), *e = strchr(p, ',');
      if (!e) e = p + strlen(p);
      memset(&kf->file_entry[i], 0, sizeof(struct file_entry));
      kf->file_entry[i].group = dec_raw(p + 1, (size_t)(c - p - 1) / 2);
      const char *c2 = memchr(c + 1, ':', (size_t)(e - c - 1));       /* optional third field: the value, '-' = NULL */
      const char *ke = c2 ? c2 : e;
      kf->file_entry[i].key = dec_raw(c + 2, (size_t)(ke - c - 2) / 2);
      if (c2 && c2[1] == 'h') kf->file_entry[i].value = dec_raw(c2 + 2, (size_t)(e - c2 - 2) / 2);
      kf->file_entry[i].line_number = 10 + i;
      p = *e ? e + 1 : e;
    }
  } else {
    kf->groups = malloc((n + 1) * sizeof(char *));
    kf->group_count = (int)n;
    const char *p = spec + 1;
    for (size_t i = 0; i < n; i++) {
      const char *e = strchr(p, ',');
      if (!e) e = p + strlen(p);
      kf->groups[i] = dec_raw(p + 1, (size_t)(e - p - 1) / 2);
      p = *e ? e + 1 : e;
    }
    kf->groups[n] = NULL;
  }
}
static void free_kf(econf_file *kf)
{
  for (size_t i = 0; i < kf->length; i++) { free(kf->file_entry[i].group); free(kf->file_entry[i].key); free(kf->file_entry[i].value); }
  free(kf->file_entry);
  for (int i = 0; i < kf->group_count; i++) free(kf->groups[i]);
  free(kf->groups);
}
static char *argstr(const char *t) { return (!t || t[0] == '-') ? NULL : dec(t); }

static void put_opt(const char *s) { if (s) put_hex(s); else putchar('-'); }
static void put_groups(const econf_file *kf)
{
  printf(" g");
  for (int i = 0; i < kf->group_count; i++) { if (i) putchar(','); put_hex(kf->groups[i]); }
  if (kf->groups && kf->groups[kf->group_count] != NULL) printf(" NOT-TERMINATED");
}

/* the copying functions: setGroupList, cpy_file_entry, and the three steps of econf_mergeFiles in its order */
static int merge_function(const char *f, char **tok, int n)
{
  if (!strcmp(f, "setGroupList")) {
    econf_file kf; build_kf(&kf, tok[1]);
    char *a = argstr(tok[2]);
    char *r = setGroupList(&kf, a);
    int at = -1;
    for (int i = 0; i < kf.group_count; i++) if (kf.groups[i] == r) at = i;
    printf("%s %d", f, at); put_groups(&kf); printf("\n");
    free(a); free_kf(&kf);
    return 1;
  }
  if (!strcmp(f, "cpy_file_entry")) {
    econf_file dest, src; build_kf(&dest, tok[1]); build_kf(&src, tok[2]);
    size_t i = strtoull(tok[3] + 1, NULL, 10);
    src.file_entry[i].quotes = true;
    struct file_entry c = cpy_file_entry(&dest, src.file_entry[i]);
    int at = -1;
    for (int k = 0; k < dest.group_count; k++) if (dest.groups[k] == c.group) at = k;
    printf("%s %d ", f, at); put_hex(c.key); putchar(' '); put_opt(c.value); putchar(' '); put_opt(c.comment_before_key); putchar(' ');
    put_opt(c.comment_after_value); printf(" %llu %d", (unsigned long long)c.line_number, (int)c.quotes);
    put_groups(&dest); printf("\n");
    free(c.key); free(c.value); free(c.comment_before_key); free(c.comment_after_value);
    free_kf(&dest); free_kf(&src);
    return 1;
  }
  if (!strcmp(f, "merge3")) {
    econf_file uf, ef, dest; build_kf(&uf, tok[1]); build_kf(&ef, tok[2]);
    memset(&dest, 0, sizeof dest);
    struct file_entry *fe = malloc((ef.length + uf.length) * sizeof(struct file_entry) + ((ef.length + uf.length) ? 0 : 1));
    size_t len = insert_nogroup(&dest, &fe, &uf, &ef);
    printf("%s %zu", f, len);
    len = merge_existing_groups(&dest, &fe, &uf, &ef, len);
    printf(" %zu", len);
    len = add_new_groups(&dest, &fe, &uf, &ef, len);
    printf(" %zu e", len);
    for (size_t i = 0; i < len; i++) {
      int at = -1;
      for (int k = 0; k < dest.group_count; k++) if (dest.groups[k] == fe[i].group) at = k;
      if (i) putchar(',');
      printf("%d:", at); put_hex(fe[i].key); putchar(':'); put_opt(fe[i].value); printf(":%llu:%d", (unsigned long long)fe[i].line_number, (int)fe[i].quotes);
    }
    put_groups(&dest); printf("\n");
    for (size_t i = 0; i < len; i++) { free(fe[i].key); free(fe[i].value); }
    free(fe);
    free_kf(&dest); free_kf(&uf); free_kf(&ef);
    return 1;
  }
  if (!strcmp(f, "mergeFiles")) {
    /* econf_mergeFiles itself on the same two objects */
    econf_file uf, ef; build_kf(&uf, tok[1]); build_kf(&ef, tok[2]);
    econf_file *merged = NULL;
    econf_err e = econf_mergeFiles(&merged, &uf, &ef);
    printf("%s E%d", f, (int)e);
    if (merged) {
      printf(" %zu %zu %d %d %s e", merged->length, merged->alloc_length, (int)merged->delimiter, (int)merged->comment, merged->path ? "path" : "-");
      for (size_t i = 0; i < merged->length; i++) {
        int at = -1;
        for (int k = 0; k < merged->group_count; k++) if (merged->groups[k] == merged->file_entry[i].group) at = k;
        if (i) putchar(',');
        printf("%d:", at); put_hex(merged->file_entry[i].key); putchar(':'); put_opt(merged->file_entry[i].value);
        printf(":%llu:%d", (unsigned long long)merged->file_entry[i].line_number, (int)merged->file_entry[i].quotes);
      }
      put_groups(merged);
      econf_freeFile(merged);
    }
    printf("\n");
    free_kf(&uf); free_kf(&ef);
    return 1;
  }
  return 0;
}

/* the getters that return arrays through out-parameters: econf_getGroups, econf_getKeys.
 *   getGroups <g-object | -> <mode>            mode: n = all arguments given, g = groups is NULL
 *   getKeys   <e-object | -> <group | -> <mode>  mode: n = all arguments given, l = length is NULL
 * The cells for the results are heap blocks of exactly their size; before the call the length holds 77 and the array pointer
 * a sentinel.  Output: E<code> <length> followed by g<names> (the returned array, its strings; NOT-TERMINATED when the word after
 * the last one is not NULL), "null" for a NULL array after success, or same / changed for the array pointer after a failure. */
static int getter_function(const char *f, char **tok, int n)
{
  int isG = !strcmp(f, "getGroups"), isK = !strcmp(f, "getKeys");
  if (!isG && !isK) return 0;
  econf_file kf; int have = tok[1][0] != '-';
  if (have) build_kf(&kf, tok[1]);
  const char *mode = isG ? (n > 2 ? tok[2] : "n") : (n > 3 ? tok[3] : "n");
  char *grp = isK && n > 2 ? argstr(tok[2]) : NULL;
  size_t *length = malloc(sizeof *length); *length = 77;
  char ***arr = malloc(sizeof *arr); char **sentinel = (char **)length; *arr = sentinel;
  econf_err e = isG ? econf_getGroups(have ? &kf : NULL, length, mode[0] == 'g' ? NULL : arr)
                    : econf_getKeys(have ? &kf : NULL, grp, mode[0] == 'l' ? NULL : length, arr);
  printf("%s E%d %zu", f, (int)e, *length);
  if (e) printf(" %s", *arr == sentinel ? "same" : "changed");
  else if (*arr == NULL) printf(" null");
  else if (*arr == sentinel) printf(" same");
  else {
    /* with length == NULL the number of strings is found by the terminator */
    size_t cnt = 0;
    if (mode[0] == 'l') { while ((*arr)[cnt]) cnt++; } else cnt = *length;
    printf(" g");
    for (size_t i = 0; i < cnt; i++) { if (i) putchar(','); put_opt((*arr)[i]); free((*arr)[i]); }
    if ((*arr)[cnt] != NULL) printf(" NOT-TERMINATED");
    free(*arr);
  }
  printf("\n");
  free(grp); free(length); free(arr);
  if (have) free_kf(&kf);
  return 1;
}

static int kf_function(const char *f, char **tok, int n)
{
  if (merge_function(f, tok, n)) return 1;
  if (getter_function(f, tok, n)) return 1;
  if (strcmp(f, "has_group") && strcmp(f, "first_entry") && strcmp(f, "first_definition") && strcmp(f, "find_key") &&
      strcmp(f, "getFromGroupList"))
    return 0;
  econf_file kf;
  build_kf(&kf, tok[1]);
  char *a = n > 2 ? argstr(tok[2]) : NULL, *b = n > 3 ? argstr(tok[3]) : NULL;
  printf("%s ", f);
  if (!strcmp(f, "has_group")) printf("%d", (int)has_group(&kf, a));
  else if (!strcmp(f, "first_entry")) printf("%zu", first_entry(&kf, a, b));
  else if (!strcmp(f, "first_definition")) printf("%d", (int)first_definition(&kf, strtoull(tok[2] + 1, NULL, 10)));
  else if (!strcmp(f, "find_key")) {
    size_t *num = malloc(sizeof *num);      /* written only on success */
    econf_err e = find_key(kf, a, b, num);
    if (e) printf("E%d -", (int)e); else printf("E0 %zu", *num);
    free(num);
  } else {
    char *r = getFromGroupList(&kf, a);
    int at = -1;
    for (int i = 0; i < kf.group_count; i++) if (kf.groups[i] == r) at = i;
    if (r) printf("%d", at); else printf("null");
  }
  printf("\n");
  free(a); free(b);
  free_kf(&kf);
  return 1;
}

int main(void)
{
  char *line = NULL; size_t cap = 0;
  while (getline(&line, &cap, stdin) > 0) {
    char *save = NULL, *tok[5] = {0}; int n = 0;
    for (char *p = strtok_r(line, " \n", &save); p && n < 5; p = strtok_r(NULL, " \n", &save)) tok[n++] = p;
    if (n < 2) continue;
    const char *f = tok[0];
    if (kf_function(f, tok, n)) continue;
    char *a = dec(tok[1]), *b = n > 2 ? dec(tok[2]) : NULL, *c = n > 3 ? dec(tok[3]) : NULL;
    printf("%s ", f);
    if (!strcmp(f, "stripbrackets")) { char *r = stripbrackets(a); printf("%ld ", (long)(r - a)); put_hex(r); }
    else if (!strcmp(f, "addbrackets")) { char *r = addbrackets(a); put_hex(r); printf(" "); put_hex(a); free(r); }
    else if (!strcmp(f, "toLowerCase")) { char *r = toLowerCase(a); printf("%ld ", (long)(r - a)); put_hex(r); }
    else if (!strcmp(f, "hashstring")) printf("%zu", hashstring(a));
    else if (!strcmp(f, "ltrim")) { char *r = ltrim(a); printf("%ld ", (long)(r - a)); put_hex(a); }
    else if (!strcmp(f, "rtrim")) { char *r = rtrim(a); printf("%ld ", (long)(r - a)); put_hex(a); }
    else if (!strcmp(f, "trim")) { char *r = trim(a); printf("%ld ", (long)(r - a)); put_hex(r); }
    else if (!strcmp(f, "check_delim")) { bool w = 0, nw = 0; check_delim(a, &w, &nw); printf("%d %d", (int)w, (int)nw); }
    else if (!strcmp(f, "replace_str")) { char *r = replace_str(a, b, c); printf("%ld ", (long)(r - a)); put_hex(r); }
    else printf("?");
    printf("\n");
    free(a); free(b); free(c);
  }
  free(line);
  return 0;
}
