"""Shared pieces of the document-based checks (C02, C05, C13, C15, C17)."""
from vlib import gen_doc, gen_parse
from vlib.scn import Scenario, h
from checks.outparse import parse_raws, parse_rawl, parse_views, NONE

DELIMS = gen_parse.DELIMS
COMMENTS = gen_parse.COMMENTS


def doc_scenario(sid, content, delim, comment, meta, path=b"/etc/app/doc.conf", opt=None, cd=None, relpath=None):
    s = Scenario(sid, meta)
    s.file(path, content)
    if cd:
        s.add("CD", h(cd))
    if opt is None:
        s.add("RF", 0, h(relpath or path), h(delim), h(comment))
    else:
        s.add("NEW", 0, "opt", h(opt))
        # <path> = /etc/app/doc.conf : project app, name doc, suffix conf
        s.add("RC", 0, h(b"app"), h(b"/usr/etc"), h(b"doc"), h(b"conf"), h(delim), h(comment))
    s.add("RAW", 0)
    s.add("RAWL", 0)
    s.add("DUMPX", 0)
    s.add("PATH", 0) if False else None
    s.add("ERRLOC")
    s.add("FREE", 0)
    return s


def check_entries(lines, sections, entries, path, check_prov=True):
    """compare the implementation's dump with the expected parse; returns a message or None"""
    first = next((l for l in lines if l.startswith(("rf ", "rc "))), "")
    if not first.startswith(("rf E0 obj", "rc E0 obj")):
        return "reading a conventional file did not succeed: %r" % first
    raws = parse_raws(lines)
    if not raws or raws[0].null:
        return "no object"
    r = raws[0]
    got = r.entries
    if len(got) != len(entries):
        return "expected %d entries, got %d" % (len(entries), len(got))
    for i, (g, e) in enumerate(zip(got, entries)):
        for f in ("group", "key", "value", "q"):
            if g[f] != e[f]:
                return "entry %d (%r): %s is %r, expected %r" % (i, e["key"], f, g[f], e[f])
        if check_prov:
            for f in ("cb", "ca"):
                if g[f] != e[f]:
                    return "entry %d (%r): %s is %r, expected %r" % (i, e["key"], f, g[f], e[f])
    if check_prov:
        rl = parse_rawl(lines)
        if rl and rl[0] is not None and rl[0] != [e["line"] for e in entries]:
            return "line numbers %r, expected %r" % (rl[0], [e["line"] for e in entries])
    # public view: sections in order of first appearance, keys per section in file order, first definition wins
    vs = parse_views(lines)
    if not vs or vs[0].null:
        return "no view"
    v = vs[0]
    if v.gerr == 0 and v.groups != sections:
        return "sections %r, expected %r" % (v.groups, sections)
    if v.gerr != 0 and (sections or entries):
        return "section listing failed with E%d" % v.gerr
    for g in [None] + sections:
        gg = NONE if g is None else g
        want = [e["key"] for e in entries if e["group"] == gg]
        err, keys = v.keys.get(g, (5, []))
        if want and (err != 0 or keys != want):
            return "keys of %r: %r (E%d), expected %r" % (g, keys, err, want)
        if not want and err == 0:
            return "keys listed for empty section %r" % (g,)
        for idx, k in enumerate(want):
            fd = next(e for e in entries if e["group"] == gg and e["key"] == k)
            kk, verr, val = v.vals.get((g, idx), (None, 1, None))
            # the value getters take a section name with or without surrounding brackets (C11): the listed name "[unit]" of a
            # section written [[unit]] denotes the section "unit" there
            lg = gg[1:].split(b"]")[0] if (gg[:1] == b"[" and gg[-1:] == b"]") else gg
            ld = next((e for e in entries if e["group"] == lg and e["key"] == k), None)
            if ld is None:
                if verr != 5:
                    return "lookup of %r/%r gives %r (E%d), expected no such key" % (g, k, val, verr)
            elif verr != 0 or val != ld["value"]:
                return "lookup of %r/%r gives %r (E%d), expected first definition %r" % (g, k, val, verr, ld["value"])
            if check_prov:
                x = v.ext.get((g, idx))
                if x is None or x["err"] != 0:
                    return "extended value of %r/%r failed" % (g, k)
                if x["file"] != path:
                    return "extended value reports file %r, expected %r" % (x["file"], path)
                if x["line"] != fd["line"] or x["cb"] != fd["cb"] or x["ca"] != fd["ca"]:
                    return "extended value of %r/%r: line/comments %r, expected %r" % (g, k, (x["line"], x["cb"], x["ca"]), (fd["line"], fd["cb"], fd["ca"]))
                if x["vals"] != gen_doc.ext_values(fd["value"]):
                    return "extended value lines of %r/%r: %r, expected %r" % (g, k, x["vals"], gen_doc.ext_values(fd["value"]))
    return None
