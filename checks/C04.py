"""C04 - no file content can corrupt memory, crash or hang read, query, merge or write."""
import itertools
from vlib import gen_parse, gen_doc
from vlib.scn import Scenario, h
from gen import extract_facts
generate_facts = extract_facts.generate

ID = "C04"
LEAN_MODULES = ["Econf.Props.C04", "Econf.Props.Tie", "Econf.Props.Leaf", "Econf.Props.LeafKf", "Econf.Props.LeafMerge", "Econf.Props.LeafAddNew", "Econf.Props.LeafMergeEx", "Econf.Props.LeafMergeAll"]
THEOREMS = ["Econf.C04_read_total", "Econf.C04_line_total", "Econf.C04_split_lossless", "Econf.parseLine_err", "Econf.Struct.tie_parser_codes",
            "Leaf.ltrim_exec", "Leaf.rtrim_exec", "Leaf.trim_exec", "Leaf.toLowerCase_exec",
            "Leaf.stripbrackets_exec", "Leaf.C_trim", "Leaf.C_toLowerCase", "Leaf.C_stripbrackets", "Leaf.C_ltrim",
            "Leaf.check_delim_exec", "Leaf.hashstring_exec",
            "Leaf.addbrackets_exec", "Leaf.replace_str_exec", "Leaf.C_replace_str", "Leaf.replaceSpec_length",
            "LeafKf.first_entry_exec", "LeafKf.has_group_exec", "LeafKf.first_definition_exec",
            "LeafKf.find_key_exec", "LeafKf.getFromGroupList_exec", "LeafKf.setGroupList_new", "LeafKf.setGroupList_found", "LeafKf.cpy_file_entry_exec", "LeafKf.C_fe_append", "LeafKf.insert_nogroup_exec", "LeafKf.add_new_groups_exec", "LeafKf.C_merge_existing_groups"]
# the string helpers whose C source is translated to MiniC on every run (memory safety for every input is a theorem about the translation)
LEAF_FNS = ["stripbrackets", "addbrackets", "toLowerCase", "hashstring", "ltrim", "rtrim", "trim", "check_delim", "replace_str",
            "has_group", "first_entry", "first_definition", "getFromGroupList", "find_key",
            "setGroupList", "cpy_file_entry", "merge3", "mergeFiles"]
SHRINK = False
RULE = ("three input streams under ASan+UBSan with a per-scenario timeout: (1) all byte strings up to the tier's length over "
        "{a = space # [ ] \" newline} and random strings over a wider alphabet incl. NUL, tab, 0x80, ';'; (2) conventional documents "
        "with byte-level mutations; (3) long lines around BUFSIZ and 64 KiB; (5) last lines of 120*2^k-3..-1 bytes (the terminator in the last byte of getline's block) of ten shapes, with and without line break; (4) files with 0..34, 63..65, 127..129, 255..257 sections or keys per section, "
        "alone and as the inputs of a merge with that many sections in the result; x 7 delimiter sets x 3 comment sets x {default, JOIN, PYTHON, "
        "both}; after a successful read: every listing, every typed and extended getter on every key, merge with a second file in both "
        "roles, write and re-read; non-trivial = the read succeeded with at least one entry; distinct by (content, sets, options)")
ODD_COMMENTS = [b" #", b"\t;", b"a#", b"]#"]
DOCUMENTED = {0, 3, 9, 10, 11, 12}   # success, file not found (re-read after a refused write), the four parse errors


def scenario(sid, a, b, delim, comment, opt, stream):
    s = Scenario(sid, {"a": a, "b": b, "delim": delim, "comment": comment, "opt": opt, "stream": stream})
    if opt is None:
        s.file(b"/a.conf", a)
        s.add("RF", 0, h(b"/a.conf"), h(delim), h(comment))
    else:
        s.file(b"/etc/p/n.conf", a)
        s.add("NEW", 0, "opt", h(opt))
        s.add("RC", 0, h(b"p"), h(b"/usr/etc"), h(b"n"), h(b"conf"), h(delim), h(comment))
    s.add("RAW", 0); s.add("RAWL", 0); s.add("DUMPX", 0); s.add("ALLGET", 0); s.add("ERRLOC")
    s.mkdir(b"/out")
    s.add("SLOT", 0)
    if b is not None:
        s.file(b"/b.conf", b)
        s.add("RF", 1, h(b"/b.conf"), h(delim), h(comment))
    # (a NULL object is refused by econf_writeFile and econf_mergeFiles, so these run after a failed read as well)
    s.add("W", 0, h(b"/out"), h(b"w.conf"))
    s.add("RF", 4, h(b"/out/w.conf"), h(delim), h(comment))
    s.add("RAW", 4)
    if b is not None:
        s.add("M", 2, 0, 1)
        s.add("M", 3, 1, 0)
        s.add("RAW", 2); s.add("RAW", 3); s.add("ALLGET", 2); s.add("DUMPX", 3)
        s.add("W", 2, h(b"/out"), h(b"m.conf"))
    for i in (4, 3, 2, 1, 0):
        s.add("FREE", i)
    return s


def mutate(rng, doc):
    b = bytearray(doc)
    for _ in range(rng.randint(1, 4)):
        if not b:
            break
        r = rng.randrange(7)
        i = rng.randrange(len(b))
        if r == 0:
            del b[i]
        elif r == 1:
            b.insert(i, b[i])
        elif r == 2:
            j = rng.randrange(len(b)); b[i], b[j] = b[j], b[i]
        elif r == 3:
            b.insert(i, rng.choice(b"=#;[]\"\n \t\x00:"))
        elif r == 4:
            del b[i:]
        elif r == 5:
            b[i] = rng.choice(b"=#;[]\"\n \t\x00\x80")
        else:
            j = rng.randrange(len(b)); b[i:i] = b[j:j + rng.randint(1, 10)]
    return bytes(b)


def long_line(rng, n, kind=None):
    if kind is None:
        kind = rng.randrange(6)
    body = lambda k, c=0x61: ("r%d:%02x" % (k, c))
    if kind == 0:   # long value
        return h(b"k=") + "+" + body(n) + "+" + h(b"\nz=1\n")
    if kind == 1:   # long key
        return body(n) + "+" + h(b"=v\n")
    if kind == 2:   # long section
        return h(b"[") + "+" + body(n) + "+" + h(b"]\nk=v\n")
    if kind == 3:   # long comment before
        return h(b"#") + "+" + body(n) + "+" + h(b"\nk=v #") + "+" + body(n, 0x62) + "+" + h(b"\n")
    if kind == 4:   # long continuation
        return h(b"k=v\n ") + "+" + body(n) + "+" + h(b"\n")
    return body(n, rng.choice([0x20, 0x3d, 0x23, 0x5b, 0x22]))   # only structural characters


def many(rng, nsec, nkeys, groupless, prefix=b"s"):
    """a file with `nsec` sections of `nkeys` keys each (growth of the entry and section arrays: counts around powers of two)"""
    lines = [b"g%d=%d" % (i, i) for i in range(groupless)]
    for i in range(nsec):
        lines.append(b"[" + prefix + b"%d]" % i)
        lines += [b"k%d=v%d" % (j, j) for j in range(nkeys)]
    return b"\n".join(lines) + b"\n"


# the implementation harness runs with the usual 8 MiB stack whatever the limit of the calling shell is
STACK_KB = 8192


def big_value_scenario(sid, n):
    """one value of n bytes (more than the stack has): read, every typed getter on it, written, read back"""
    from vlib.scn import run_token
    s = Scenario(sid, {"a": b"", "b": None, "delim": b"=", "comment": b"#", "opt": None, "stream": "bigvalue", "impl_only": True, "big": n})
    s.add("F", h(b"/big.conf"), h(b"k=") + "+" + run_token(n, 0x76) + "+" + h(b"\nflag=yes\n"))
    s.add("RF", 0, h(b"/big.conf"), h(b"="), h(b"#"))
    for ty in ("bool", "int", "uint", "int64", "uint64", "float", "double", "sum"):
        s.add("GET", 0, ty, "-", h(b"k"))
    s.add("GET", 0, "bool", "-", h(b"flag"))
    s.mkdir(b"/out")
    s.add("WSUM", 0, h(b"/out"), h(b"w.conf"))
    s.add("FREE", 0)
    return s


def scenarios(tier, rng):
    out = []
    n = 0
    # (1) exhaustive short strings
    maxlen = 4 if tier == "quick" else 5
    # comment sets: the usual ones and, as often, unusual ones - a white space character, a letter, a bracket, the delimiter
    cfgs = [(d, c, o) for d in gen_parse.DELIMS for c in gen_parse.COMMENTS + ODD_COMMENTS for o in gen_parse.OPTIONS]
    for content in gen_parse.exhaustive_contents(gen_parse.ALPHA1, maxlen):
        ks = rng.sample(cfgs, 1 if tier == "quick" else 3)
        for d, c, o in ks:
            n += 1
            out.append(scenario("x%d" % n, content, None, d, c, o, "exhaustive"))
    nr = 3000 if tier == "quick" else 60000
    for i in range(nr):
        d, c, o = rng.choice(cfgs)
        a = gen_parse.liney_content(rng) if rng.random() < 0.6 else gen_parse.random_content(rng)
        b = gen_parse.liney_content(rng)
        out.append(scenario("r%d" % i, a, b, d, c, o, "random"))
    # (2) mutated documents
    for i in range(nr // 2):
        d, c, o = rng.choice(cfgs)
        g = gen_doc.Gen(rng, d, c)
        a = mutate(rng, gen_doc.render(g.document(12)))
        b = mutate(rng, gen_doc.render(g.document(8)))
        out.append(scenario("m%d" % i, a, b, d, c, o, "mutated"))
    # (4) many sections / many keys: every count from 0 to 34 and some larger ones, alone and as the two inputs of a merge
    #     whose result has such a count
    counts = list(range(0, 35)) + [63, 64, 65, 127, 128, 129, 255, 256, 257]
    for i, c in enumerate(counts if tier == "quick" else counts * 3):
        d, cm = b"=", rng.choice([b"#", b";"])
        o = rng.choice(gen_parse.OPTIONS)
        gl = rng.choice([0, 0, 1, 2])
        k = rng.choice([0, 1, 1, 2])
        left = rng.randint(0, c)
        out.append(scenario("n%da" % i, many(rng, c, k, gl), many(rng, rng.choice([0, 1, c]), 1, rng.choice([0, 1]), b"t"), d, cm, o, "many"))
        out.append(scenario("n%db" % i, many(rng, left, 1, gl), many(rng, c - left, 1, 0, b"t"), d, cm, o, "many"))
        out.append(scenario("n%dc" % i, many(rng, 1, c, gl), many(rng, 1, rng.choice([1, c]), 1), d, cm, o, "many"))
    # (3) long lines
    #     every kind of long field at every length with the conventional characters, and once more with random ones
    for i, nlen in enumerate([8189, 8190, 8191, 8192, 8193, 8194, 16384, 65536] * (1 if tier == "quick" else 4)):
        for kind in range(7):
            d, c, o = (b"=", b"#", rng.choice(gen_parse.OPTIONS)) if kind < 6 else rng.choice(cfgs)
            s = scenario("l%d_%d" % (i, kind), b"", b"k=1\n", d, c, o, "long")
            s.lines[0] = "F %s %s" % (s.lines[0].split(" ")[1], long_line(rng, nlen, kind if kind < 6 else None))
            s.meta["a"] = ("long", nlen, s.lines[0])
            out.append(s)
    # (5) a last line that fills the line buffer to the byte: getline hands out blocks of 120 * 2^k bytes, so a line of
    #     120 * 2^k - 1 bytes without a line break has its terminator in the last byte of the block and whatever is read
    #     behind the terminator is outside of it; every shape of line, padded with blanks or with text
    shapes = [(b"key", b" "), (b"key=", b" "), (b"key =", b"v"), (b"key", b"y"), (b"", b" "), (b"[sec]", b" "), (b"#", b"c"), (b"k=\"", b"q"),
              (b"k=v\n cont", b" "), (b"key\t", b"\t")]
    for bi, blk in enumerate([120, 240, 480, 960]):
        for si, (head, pad) in enumerate(shapes):
            for delta in (-2, -1, 0):
                total = blk + delta
                tail = head.split(b"\n")[-1]
                content = head + pad * (total - len(tail))
                for nl in (b"", b"\n"):
                    d, c, o = rng.choice(cfgs)
                    out.append(scenario("b%d_%d_%d_%d" % (bi, si, delta + 2, len(nl)), content + nl, b"k=1\n", d, c, o, "blockfill"))
    # (the stack of the process is 8 MiB: a value larger than that)
    out.append(big_value_scenario("bigvalue", 12 << 20))
    return out


def oracle(s, lines):
    for l in lines:
        if l.startswith(("rf E", "rc E")):
            code = int(l.split()[1][1:])
            if code not in DOCUMENTED:
                return "read returned the undocumented code %d" % code
    # the sanitizer fills every fresh block with the byte 0xbe (ASAN_OPTIONS malloc_fill_byte): a key, value or comment that
    # contains this byte although no file of the scenario does has been read from memory nobody had written to
    m = s.meta
    if m.get("big"):
        gets = [l for l in lines if l.startswith("get ")]
        # a value of that many 'v' is no number and no truth value; the text comes back whole
        want = ["get E8"] + ["get E24"] * 6 + ["get E0 len=%d" % m["big"], "get E0 1"]
        got = [g if not g.startswith("get E0 len=") else g.split(" fnv=")[0] for g in gets]
        if got != want:
            return "value of %d bytes: the getters answer %r, expected %r" % (m["big"], got, want)
        return None
    if "a" in m and not any(isinstance(m.get(x), bytes) and b"\xbe" in m[x] for x in ("a", "b")):
        for l in lines:
            if l.startswith("e "):
                for t in l.split()[1:6]:
                    if t.startswith("h") and "be" in t and b"\xbe" in bytes.fromhex(t[1:]):
                        return "an entry contains bytes of uninitialised memory (sanitizer fill pattern 0xbe, not in any file): %s" % l[:160]
    return None


def nontrivial(s, lines):
    if "a" not in s.meta:
        return None
    for l in lines:
        if l.startswith("raw len=") and not l.startswith("raw len=0"):
            return (s.meta["a"], s.meta["b"], s.meta["delim"], s.meta["comment"], s.meta["opt"])
    return None


def histogram(s, lines):
    if "stream" not in s.meta:
        return ["corpus"]
    ks = ["stream_" + s.meta["stream"], "opt_%s" % (s.meta["opt"] or b"default").decode()]
    for l in lines[:3]:
        if l.startswith(("rf E", "rc E")):
            ks.append("read_" + l.split()[1])
    return ks
