"""C07 - a written configuration reads back identically."""
from vlib import gen_doc
from vlib.scn import Scenario, h
from checks.outparse import parse_raws, NONE, txt

ID = "C07"
LEAN_MODULES = ["Econf.Props.C07", "Econf.Props.Leaf"]
THEOREMS = ["Econf.C07_roundtrip", "Econf.C07_object", "Econf.C07_setter_step", "Econf.C07_setters", "Econf.C07_built_roundtrip", "Econf.render_docOf", "Econf.docOf_wf", "Econf.doc_reread", "Econf.C02_parse_render",
            "Leaf.C_addbrackets", "Leaf.addSpec_eq"]
SHRINK = False
# string helpers translated from the C source on every run (gen/c2lean.py); theorems in lean/Econf/Props/Leaf.lean
LEAF_FNS = ["addbrackets"]
RULE = ("objects built by random setter histories with arguments of DESIGN.md 5.4 (interleaved group-less and sectioned keys, re-opened "
        "sections, overwritten keys, typed setters) and objects parsed from conventional documents, x delimiter char {=,:,space} x "
        "comment char {#,;}; each is written - to a fresh path or over an existing, longer file -, read back with the same characters and compared; distinct by written bytes and characters")
BL = b" \t\x0b\x0c\r"


def value54(rng, g, d, single=False):
    """a value with an unambiguous textual form"""
    r = rng.random()
    if single:
        r = min(r, 0.7)
    if r < 0.15:
        return b""
    if r < 0.22:
        # ordinary texts that mean something elsewhere (the placeholder of a key without value, printf's NULL, ...)
        return rng.choice([b"_none_", b"(null)", b"NULL", b"none", b"~", b"-", b"0", b"false"])
    l0 = g.plain_value(allow_empty=False)
    if d != b" " and r > 0.75:
        lines = [l0]
        for _ in range(rng.randint(1, 2)):
            while True:
                t = g.text(1, 6, g.delim + g.comment).strip(BL)
                if t and t[:1] != b"[":
                    break
            lines.append(g.blanks(1, 2) + t + g.blanks(0, 1))
        return b"\n".join(lines)
    return l0


def built(rng, sid):
    d = rng.choice([b"=", b":", b" "])
    c = rng.choice([b"#", b";"])
    g = gen_doc.Gen(rng, d, c)
    s = Scenario(sid, {"kind": "built", "d": d, "c": c})
    ctor = rng.choice(["key", "key", "opt"])
    if ctor == "key":
        s.add("NEW", 0, "key", h(d), h(c))
    else:
        s.add("NEW", 0, "opt", "-")
        s.add("SETTAGS", 0, h(d), h(c))
    secs = [None, b""] + [g.section_name().strip(BL) or b"S" for _ in range(rng.randint(1, 3))]
    secs = [x for x in secs if x is None or x == b"" or (x[:1] != b"[" and x != NONE)]
    keys = [g.key() for _ in range(rng.randint(1, 5))]
    n = rng.randint(1, 25)
    for _ in range(n):
        sec = rng.choice(secs)
        if sec and rng.random() < 0.3:
            sec = b"[" + sec + b"]"
        k = rng.choice(keys)
        t = rng.random()
        if t < 0.6:
            s.add("SET", 0, "str", h(sec), h(k), h(value54(rng, g, d)))
        elif t < 0.7:
            s.add("SET", 0, "int", h(sec), h(k), str(rng.randint(-2**31, 2**31 - 1)))
        elif t < 0.8:
            s.add("SET", 0, "uint64", h(sec), h(k), str(rng.randint(0, 2**64 - 1)))
        else:
            s.add("SET", 0, "bool", h(sec), h(k), h(rng.choice([b"yes", b"NO", b"True", b"0", b"1", b"false", b""])))
    return finish(s, d, c, rng)


def parsed(rng, sid):
    d = rng.choice([b"=", b":", b" "])
    c = rng.choice([b"#", b";"])
    g = gen_doc.Gen(rng, d, c)
    items = []
    for _ in range(rng.randint(0, 20)):
        r = rng.random()
        if r < 0.1:
            items.append(g.blank_item())
        elif r < 0.3:
            items.append(g.comment_item())
        elif r < 0.42:
            it = g.section_item()
            if it["tc"] is not None:      # a header comment would give the next entry a second comment line
                continue
            items.append(it)
        else:
            it = g.entry_item()
            if (it["quotes"] or it.get("tc") is not None) and it["cont"]:   # 5.4: a comment after the value on single-line entries only
                it["lines"] = it["lines"][:1]
                it["cont"] = []
            items.append(it)
    content = gen_doc.render(items)
    s = Scenario(sid, {"kind": "parsed", "d": d, "c": c, "content": content})
    s.file(b"/in.conf", content)
    s.add("RF", 0, h(b"/in.conf"), h(d), h(c))
    # a parsed object changed through the setters before it is written: new group-less keys, new sections, overwritten keys
    if rng.random() < 0.35:
        s.meta["kind"] = "parsed_then_set"
        for _ in range(rng.randint(1, 4)):
            sec = rng.choice([None, b"", g.section_name().strip(BL) or b"S"])
            if sec and (sec[:1] == b"[" or sec == NONE):
                sec = None
            # single-line values: the key may be one of the file's, whose entry can carry a trailing comment (5.4: a comment
            # after the value on single-line entries only)
            s.add("SET", 0, "str", h(sec), h(g.key()), h(value54(rng, g, d, single=True)))
    ents = [it for it in items if it["kind"] == "entry"]
    if ents and rng.random() < 0.3:
        # a setter call that is refused (not a boolean word) on a key of the file: nothing may change, whatever the entry
        # carries (quotes, comments, continuation lines)
        s.meta["kind"] = s.meta["kind"] + "_refused_set"
        cur = None
        secs = {}
        for it in items:
            if it["kind"] == "section":
                cur = it["name"]
            elif it["kind"] == "entry":
                secs[id(it)] = cur
        for it in rng.sample(ents, min(len(ents), rng.randint(1, 3))):
            s.add("SET", 0, "bool", h(secs[id(it)]), h(it["key"]), h(rng.choice([b"maybe", b"2", b"yess"])))
    return finish(s, d, c, rng)


OLD_FILES = [b"[logging]\nlevel=debug\ntarget=syslog\n[network]\nhostname=example.org\ngateway=192.0.2.1\n[paths]\ncache=/var/cache/app\nstate=/var/lib/app\n" * 8,
             b"stale\n", b"x" * 5000 + b"\n", b"k=old value \\\n  continued\n[old]\nz=1\n" * 40]


def finish(s, d, c, rng):
    s.mkdir(b"/out")
    # saving over an existing file (an earlier, longer save at the same place): only the new text may be left
    if rng.random() < 0.4:
        s.file(b"/out/w.conf", rng.choice(OLD_FILES))
        s.meta["over_existing"] = True
    s.add("RAW", 0)
    s.add("W", 0, h(b"/out"), h(b"w.conf"))
    s.add("RF", 1, h(b"/out/w.conf"), h(d), h(c))
    s.add("RAW", 1)
    s.add("DUMP", 1)
    s.add("FREE", 1)
    s.add("FREE", 0)
    return s


def scenarios(tier, rng):
    n = 1000 if tier == "quick" else 40000
    return [built(rng, "b%d" % i) for i in range(n)] + [parsed(rng, "p%d" % i) for i in range(n)]


def canon(raw):
    secs = []
    per = {}
    for e in raw.entries:
        g = e["group"]
        if g != NONE and g not in secs:
            secs.append(g)
        single = e["value"] is None or b"\n" not in e["value"]
        per.setdefault(g, []).append((e["key"], txt(e["value"]), e["q"], (txt(e["cb"]), txt(e["ca"])) if single else None))   # an empty comment and no comment are the same text
    return secs, per


def oracle(s, lines):
    if "kind" not in s.meta:
        return None
    raws = parse_raws(lines)
    if len(raws) < 2 or raws[0].null:
        return None if s.meta["kind"].startswith("parsed") and lines and not lines[0].startswith("rf E0") else "object not built"
    if not any(l == "w E0" for l in lines):
        return "writing failed"
    if raws[1].null:
        return "the written file cannot be read back: %r" % [l for l in lines if l.startswith("rf ")][-1:]
    a, b = canon(raws[0]), canon(raws[1])
    if a[0] != b[0]:
        return "key-bearing sections %r read back as %r" % (a[0], b[0])
    for g in [NONE] + a[0]:
        if a[1].get(g, []) != b[1].get(g, []):
            return "section %r: %r read back as %r" % (g, a[1].get(g), b[1].get(g))
    return None


def nontrivial(s, lines):
    if "kind" not in s.meta:
        return None
    w = [l for l in lines if l.startswith("bytes ")]
    if not w or w[0] == "bytes h":
        return None
    return (w[0], s.meta["d"], s.meta["c"])


def histogram(s, lines):
    m = s.meta
    if "kind" not in m:
        return ["corpus"]
    ks = ["object_" + m["kind"], "delim_%r" % m["d"].decode(), "comment_" + m["c"].decode()]
    if m.get("over_existing"):
        ks.append("written_over_existing_file")
    raws = parse_raws(lines)
    if raws and not raws[0].null:
        es = raws[0].entries
        seen = False
        for e in es:
            if e["group"] != NONE:
                seen = True
            elif seen:
                ks.append("groupless_after_section")
                break
        if any(e["value"] and b"\n" in e["value"] for e in es):
            ks.append("multi_line_value")
        if any(e["q"] for e in es):
            ks.append("quoted_value")
        if any(e["cb"] or e["ca"] for e in es):
            ks.append("with_comments")
        gs = [e["group"] for e in es]
        if any(gs[i] != gs[i - 1] and gs[i] in gs[:i] for i in range(1, len(gs))):
            ks.append("section_reopened")
    return ks
