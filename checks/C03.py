"""C03 - merging is a complete, ordered, non-destructive override."""
from vlib import gen_merge
from checks.outparse import parse_raws, parse_views, NONE, txt, is_subseq
from gen import extract_facts
generate_facts = extract_facts.generate

ID = "C03"
LEAN_MODULES = ["Econf.Props.C03", "Econf.Props.Tie", "Econf.Props.LeafKf", "Econf.Props.LeafMerge", "Econf.Props.LeafAddNew", "Econf.Props.LeafMergeEx", "Econf.Props.LeafMergeAll", "Econf.Props.LeafMergeFiles"]
# the look-ups of the merge over the entry arrays: translated from lib/mergefiles.c on every run (gen/c2lean.py)
LEAF_FNS = ["has_group", "first_entry", "first_definition", "setGroupList", "cpy_file_entry", "merge3", "mergeFiles"]
THEOREMS = ["Econf.C03_lookup", "Econf.C03_nothing_else", "Econf.C03_no_duplicates", "Econf.C03_base_order",
            "Econf.C03_new_keys_after_base", "Econf.C03_new_groups_last", "Econf.C03_groupless_first", "Econf.C03_bound",
            "Econf.C03_object", "Econf.C03_merge_spec", "Econf.Struct.api_frames",
            "LeafKf.C_first_entry", "LeafKf.C_has_group", "LeafKf.first_definition_exec", "LeafKf.first_entry_shape", "LeafKf.has_group_shape",
            "LeafKf.C_setGroupList", "LeafKf.setGroupList_new", "LeafKf.setGroupList_found", "LeafKf.setGroupList_shape",
            "LeafKf.cpy_file_entry_exec", "LeafKf.cpy_file_entry_shape", "LeafKf.setGroupList_spec",
            "LeafKf.C_fe_append", "LeafKf.fe_append_exec", "LeafKf.EntMem.moved",
            # insert_nogroup, the first of the three loops of the merge, on the generated term and against the model's insertNoGroup
            "LeafKf.C_insert_nogroup", "LeafKf.insert_nogroup_exec", "LeafKf.insert_nogroup_shape", "LeafKf.ng_round", "LeafKf.ng_loop",
            "LeafKf.selUpTo_model", "LeafKf.ngSel_model", "LeafKf.firstIdx_eq_iff", "LeafKf.firstDefsAux_eq",
            # a concrete caller's memory that meets the hypotheses of C_insert_nogroup (the premises are satisfiable)
            "LeafKf.Example.run", "LeafKf.Example.ctx_ok", "LeafKf.Example.override_ok", "LeafKf.Example.base_ok",
            # add_new_groups, the last loop of the merge (with the final realloc), on the generated term and against the model's addNewGroups
            "LeafKf.C_add_new_groups", "LeafKf.add_new_groups_exec", "LeafKf.add_new_groups_shape", "LeafKf.ag_round", "LeafKf.ag_loop",
            "LeafKf.selBy_model", "LeafKf.agSel_model", "LeafKf.EntMem.reblock", "LeafKf.Example.run_add", "LeafKf.Example.ctx_add",
            # merge_existing_groups in parts: its shape, the search loop with break, the inner copying loop (= the model's newKeysOf); the NULL cases of all three
            "LeafKf.merge_existing_groups_shape", "LeafKf.me_last", "LeafKf.loop_brk", "LeafKf.C_me_newkeys", "LeafKf.mn_round", "LeafKf.ArrInv.append",
            "LeafKf.mnSel_model", "LeafKf.firstIdx_eq_length_iff", "LeafKf.me_override", "LeafKf.me_newval", "LeafKf.findEntry_eq", "LeafKf.ArrInv.congr",
            "LeafKf.EntMem.ptr_str", "LeafKf.EntMem.reblock'", "LeafKf.GlMem.fst_unique", "LeafKf.me_newkeys_inv",
            # merge_existing_groups whole: the outer loop over the base, against the model's mergeExisting
            "LeafKf.C_merge_existing_groups", "LeafKf.mo_round", "LeafKf.mo_first", "LeafKf.meUpTo_model", "LeafKf.cpy_meUpTo",
            # the three calls in sequence, as econf_mergeFiles makes them: array = mergeEntries, group list = groupsOf
            "LeafKf.C_merge3", "LeafKf.C_merge3_mergeFiles", "LeafKf.EntMem.carry", "LeafKf.SrcMem.transfer", "LeafKf.Example.run_merge3",
            "LeafKf.insert_nogroup_null", "LeafKf.add_new_groups_null", "LeafKf.merge_existing_groups_null",
            # econf_mergeFiles itself (lib/libeconf.c) on the generated term: from the object calloc returns (groups == NULL) to the result object
            "LeafKf.C_merge3_fresh", "LeafKf.C_econf_mergeFiles", "LeafKf.C_econf_mergeFiles_null", "LeafKf.C_econf_mergeFiles_null_dest",
            "LeafKf.econf_mergeFiles_shape", "LeafKf.mf_prefix", "LeafKf.mf_zero", "LeafKf.GlMem.set_member", "LeafKf.GlMemA.ne",
            "LeafKf.Example.run_merge3_fresh", "LeafKf.Example.dest_null", "LeafKf.Example.run_mergeFiles"]
RULE = ("pairs of entry lists over {group-less,A,B}x{x,y}: exhaustive up to the tier's length bound, built by parsing and by the setters "
        "on all constructor kinds, plus random larger pairs, pairs with valueless definitions, and pairs in which an input is the result of "
        "econf_readDirs or a member of a history; non-trivial = merge succeeded and both sides non-empty or one side an "
        "empty object; distinct by (base list, override list, construction)")
EXHAUSTIVE = {"quick": True, "thorough": True}
ASSUMPTIONS = ["values compared as text (absent = empty), DESIGN.md 5.3"]


def pairs(maxlen, rng=None, sample=None):
    lists = list(gen_merge.all_lists(maxlen))
    n = 0
    for b in lists:
        for o in lists:
            for hb in ("parse", "set"):
                if hb == "parse" and (not b or not gen_merge.parseable(b)):
                    continue
                if hb == "set" and not gen_merge.settable(b):
                    continue
                for ho in ("parse", "set"):
                    if ho == "parse" and (not o or not gen_merge.parseable(o)):
                        continue
                    if ho == "set" and not gen_merge.settable(o):
                        continue
                    if sample is not None and rng.random() > sample:
                        continue
                    ctors = (("opt", "opt"), ("key", "ini"), ("ini", "opt")) if (not b or not o) else (("opt", "key"),)
                    for cb, co in ctors:
                        n += 1
                        yield gen_merge.merge_scenario("p%d" % n, b, o, hb, ho, cb, co)


def random_pair(rng, sid):
    groups = [None, b"A", b"B", b"C", b"D"]
    if rng.random() < 0.3:
        # section names that look like the internal marker of the group-less keys ("_none_") to a sloppy comparison: other
        # spellings of it, a prefix, and names with the same djb2 hash (lib/helpers.c hashstring, KEY_FILE_NULL_VALUE_HASH)
        groups = groups + [b"_nooD_", b"_oNne_", b"_NONE_", b"_none", b"_none__"]
    keys = [b"k%d" % i for i in range(6)]

    def lst():
        n = rng.randint(0, 40)
        return [(rng.choice(groups), rng.choice(keys)) for _ in range(n)]
    b, o = lst(), lst()
    hb = "parse" if rng.random() < 0.5 else "set"
    ho = "parse" if rng.random() < 0.5 else "set"
    if hb == "parse":
        b = sorted(b, key=lambda e: e[0] is not None) if not gen_merge.parseable(b) else b
    else:
        b = list(dict.fromkeys(b))
    if ho == "parse":
        o = sorted(o, key=lambda e: e[0] is not None) if not gen_merge.parseable(o) else o
    else:
        o = list(dict.fromkeys(o))
    return gen_merge.merge_scenario(sid, b, o, hb if b else "set", ho if o else "set", rng.choice(["opt", "key", "ini"]), rng.choice(["opt", "key", "ini"]))


def valueless_pair(rng, sid):
    """parsed objects in which some keys have no value at all (`k=`), the empty text or a quoted empty value: the override's
    definition wins also when it is the empty one"""
    cells = [(g, k) for g in (None, b"A", b"B") for k in (b"x", b"y", b"z")]

    def lst():
        l = [rng.choice(cells) for _ in range(rng.randint(1, 5))]
        return sorted(l, key=lambda e: e[0] is not None) if not gen_merge.parseable(l) else l

    def spell(l):
        return [rng.choice([None, None, "null", "null", "empty", "quoted"]) for _ in l]
    b, o = lst(), lst()
    return gen_merge.merge_scenario(sid, b, o, "parse", "parse", spell_b=spell(b), spell_o=spell(o))


def dirs_pair(rng, sid):
    """one or both inputs are objects which a directory read handed to the caller (econf_readDirs result, history member)"""
    cells = [(g, k) for g in (None, b"A", b"B") for k in (b"x", b"y", b"z")]

    def lst():
        l = [rng.choice(cells) for _ in range(rng.randint(1, 6))]
        return sorted(l, key=lambda e: e[0] is not None) if not gen_merge.parseable(l) else l
    hb, ho = rng.choice([("dirs", "parse"), ("parse", "dirs"), ("hist", "parse"), ("parse", "hist"), ("dirs", "hist"), ("set", "dirs"), ("hist", "set")])
    b, o = lst(), lst()
    if hb == "set":
        b = list(dict.fromkeys(b))
    if ho == "set":
        o = list(dict.fromkeys(o))
    return gen_merge.merge_scenario(sid, b, o, hb, ho)


def scenarios(tier, rng):
    extra = [valueless_pair(rng, "v%d" % i) for i in range(600 if tier == "quick" else 15000)]
    extra += [dirs_pair(rng, "d%d" % i) for i in range(400 if tier == "quick" else 10000)]
    if tier == "quick":
        out = list(pairs(2))
        out += list(pairs(3, rng, 0.02))
        out += [random_pair(rng, "r%d" % i) for i in range(300)]
    else:
        out = list(pairs(3))
        out += list(pairs(4, rng, 0.01))
        out += [random_pair(rng, "r%d" % i) for i in range(5000)]
    return out + extra


def g_of(e):
    return e["group"]


def oracle(s, lines):
    raws = parse_raws(lines)
    if len(raws) != 5:
        return "unexpected output shape (%d dumps)" % len(raws)
    b0, o0, m, b1, o1 = raws
    if not any(l.startswith("m E0 obj") for l in lines):
        return "merge of two objects did not succeed"
    if b0.sig() != b1.sig() or o0.sig() != o1.sig():
        return "(I) an input of the merge was changed"
    mk = m.keyseq()
    bk, ok_ = b0.keyseq(), o0.keyseq()
    bset, oset = set(bk), set(ok_)
    # (L) lookup
    for gk in bset | oset:
        e = m.lookup(*gk)
        if e is None:
            return "(L) %r missing from the result" % (gk,)
        want = o0.lookup(*gk) if gk in oset else b0.lookup(*gk)
        if txt(e["value"]) != txt(want["value"]):
            return "(L) %r has value %r, expected %r" % (gk, e["value"], want["value"])
    # (N)
    for gk in mk:
        if gk not in bset and gk not in oset:
            return "(N) %r appears in the result only" % (gk,)
    # (U)
    if len(bset) == len(bk) and len(oset) == len(ok_) and len(set(mk)) != len(mk):
        return "(U) duplicate (section,key) in the result of duplicate-free inputs"
    # (B) capacity
    if len(mk) > len(bk) + len(ok_):
        return "(B) result longer than both inputs together"
    # (O1)
    if not is_subseq(bk, mk):
        return "(O1) base entries do not keep their relative order"
    bgroups = set(g for g, _ in bk)
    # (O2) a key only the override has, in a section the base has, follows all base entries of the section
    for i, gk in enumerate(mk):
        if gk not in bset and gk[0] in bgroups:
            for later in mk[i + 1:]:
                if later[0] == gk[0] and later in bset:
                    return "(O2) override-only key %r precedes base key %r of its section" % (gk, later)
    # (O3) sections only the override has come last, in the override's order
    tail = [gk for gk in mk if gk[0] != NONE and gk[0] not in bgroups]
    if tail and mk[len(mk) - len(tail):] != tail:
        return "(O3) entries of override-only sections are not last"
    if not is_subseq(tail, ok_):
        return "(O3) override-only sections not in the override's order"
    # (O4) group-less
    def gl_first(seq):
        seen = False
        for g, _ in seq:
            if g != NONE:
                seen = True
            elif seen:
                return False
        return True
    if gl_first(bk) and not gl_first(mk):
        return "(O4) group-less entries do not precede the sections"
    for e in m.entries:
        src = b0.lookup(e["group"], e["key"]) or o0.lookup(e["group"], e["key"])
        if src is None:
            return "(N) entry without source"
    # the public view agrees with the entries
    vs = parse_views(lines)
    if vs:
        v = vs[0]
        want_groups = []
        for g, _ in mk:
            if g != NONE and g not in want_groups:
                want_groups.append(g)
        if v.gerr == 0 and v.groups != want_groups:
            return "section listing %r does not match the merged entries %r" % (v.groups, want_groups)
    return None


def nontrivial(s, lines):
    if not any(l.startswith("m E0 obj") for l in lines):
        return None
    return (tuple(s.meta["base"]), tuple(s.meta["over"]), s.meta["how"])


def histogram(s, lines):
    b, o = s.meta["base"], s.meta["over"]
    keys = ["base_len_%d" % min(len(b), 9), "over_len_%d" % min(len(o), 9), "build_%s_%s" % s.meta["how"][:2]]
    if not b:
        keys.append("empty_base_ctor_" + s.meta["how"][2])
    if not o:
        keys.append("empty_over_ctor_" + s.meta["how"][3])
    gs = [g for g, _ in b]
    if any(gs[i] != gs[i - 1] and gs[i] in gs[:i] for i in range(1, len(gs))):
        keys.append("base_reopens_section")
    if len(set(o)) != len(o):
        keys.append("over_has_duplicates")
    if len(set(b)) != len(b):
        keys.append("base_has_duplicates")
    sp = s.meta.get("spell") or (None, None)
    for side, spl in zip(("base", "over"), sp):
        for x in set(spl or []):
            if x:
                keys.append("%s_value_%s" % (side, x))
    return keys
