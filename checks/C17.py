"""C17 - provenance metadata (path, line, comments, value lines) matches the source file."""
from vlib import gen_doc
from vlib.scn import Scenario, h
from checks import docs

ID = "C17"
LEAN_MODULES = ["Econf.Props.C17", "Econf.Props.Leaf"]
THEOREMS = ["Econf.C17_line", "Econf.C17_comment_block", "Econf.C17_comment_block_first", "Econf.C17_trailing", "Econf.C17_values_plain", "Econf.C17_values_quoted", "Econf.C17_path_single", "Econf.C17_path_merged", "Econf.C02_parse_render",
            "Leaf.C_trim", "Leaf.C_ltrim", "Leaf.trim_eq", "Leaf.spc_eq"]
# string helpers translated from the C source on every run (gen/c2lean.py); theorems in lean/Econf/Props/Leaf.lean
LEAF_FNS = ["ltrim", "rtrim", "trim"]
RULE = ("conventional documents with comment blocks, trailing comments (also behind the later lines of a value) and multi-line values over-represented, read by absolute name, "
        "by relative names (after chdir) and through a symbolic link; every key's extended value and the path query are compared with "
        "the document; a merged result (econf_mergeFiles, and a layered read of the document plus one or two drop-ins, some without entries) must report the empty path; distinct by (content, sets, way of naming the file)")
PATH = b"/etc/app/doc.conf"
SHRINK = False
WAYS = [("abs", None, PATH), ("rel_same_dir", b"/etc/app", b"doc.conf"), ("rel_dot", b"/etc/app", b"./doc.conf"),
        ("rel_parent", b"/etc", b"app/doc.conf"), ("rel_updown", b"/etc/app", b"../app/doc.conf")]


def make(rng, sid, hist):
    delim = rng.choice(docs.DELIMS)
    comment = rng.choice(docs.COMMENTS)
    g = gen_doc.Gen(rng, delim, comment, hist=hist, cont_comments=rng.random() < 0.5)
    items = []
    for _ in range(rng.randint(1, 12)):
        for _ in range(rng.randint(0, 3)):
            items.append(g.comment_item())
        r = rng.random()
        if r < 0.15:
            items.append(g.section_item())
        elif r < 0.25:
            items.append(g.blank_item())
        else:
            items.append(g.entry_item())
    if rng.random() < 0.15:
        # a section whose name has brackets of its own ("[[unit]]" is the section "[unit]") next to the plain section of that
        # name, both with the same key: the extended getter takes the section name as the listing gives it
        nm = g.section_name().strip(b" \t[]") or b"unit"
        k = g.key()
        sec = g.section_item()
        twin = [dict(sec, lines=[b"[[" + nm + b"]]"], name=b"[" + nm + b"]", tc=None), g.comment_item(), g.entry_item(k),
                dict(sec, lines=[b"[" + nm + b"]"], name=nm, tc=None), g.entry_item(k)]
        if rng.random() < 0.5:
            twin = twin[3:] + twin[:3]
        items += twin
    content = gen_doc.render(items, rng.random() < 0.9)
    way, cd, rel = rng.choice(WAYS)
    s = Scenario(sid, {"items": items, "delim": delim, "comment": comment, "cls": g.cls, "content": content, "way": way})
    s.file(PATH, content)
    if cd:
        s.add("CD", h(cd))
    s.add("RF", 0, h(rel), h(delim), h(comment))
    s.add("RAW", 0); s.add("RAWL", 0); s.add("DUMPX", 0)
    s.add("PATH", 0)
    if rng.random() < 0.3:
        # the object is written out (to another place) in between: the answers stay what they were
        s.mkdir(b"/copy")
        s.add("W", 0, h(b"/copy"), h(b"doc.conf"))
        s.add("DUMPX", 0)
        s.add("PATH", 0)
        s.meta["written"] = True
    if cd:
        # the application changes its working directory after the read (as a daemon does): the object still names the
        # file it was read from, also when the new directory has a file of the same relative name
        s.file(b"/elsewhere/doc.conf", b"other=1\n")
        s.file(b"/elsewhere/app/doc.conf", b"other=2\n")
        s.add("CD", h(b"/elsewhere"))
        s.add("PATH", 0)
        s.add("DUMPX", 0)
        s.meta["moved"] = True
    # merged result: empty path
    s.file(b"/o.conf", b"zz=1\n")
    s.add("RF", 1, h(b"/o.conf"), h(b"="), h(b"#"))
    s.add("M", 2, 0, 1)
    s.add("PATH", 2)
    s.add("FREE", 2); s.add("FREE", 1); s.add("FREE", 0)
    # the same document as the main file of a layered read with one or two drop-ins, some of them without entries
    # (empty, switched off by commenting out, blank lines): the result is merged from several files, its path is empty
    s.file(b"/usr/etc/lay.conf", content)
    nd = rng.randint(1, 2)
    bodies = [rng.choice([b"", b"# disabled\n# k=1\n", b"\n\n", b"zz=1\n", b"[only]\n"]) for _ in range(nd)]
    for i, b in enumerate(bodies):
        s.file(b"/etc/lay.conf.d/%d0-x.conf" % (i + 1), b)
    if delim not in (b"", b"\n"):
        s.add("RD", 3, h(b"/usr/etc"), h(b"/etc"), h(b"lay"), h(b"conf"), h(delim), h(comment))
        s.add("PATH", 3)
        s.add("FREE", 3)
        s.meta["layered"] = bodies
    return s


GEN_HIST = {}


def scenarios(tier, rng):
    n = 1500 if tier == "quick" else 50000
    return [make(rng, "x%d" % i, GEN_HIST) for i in range(n)]


def oracle(s, lines):
    if "items" not in s.meta:
        return None
    sections, entries = gen_doc.expected(s.meta["items"])
    msg = docs.check_entries(lines, sections, entries, PATH)
    if msg:
        return msg
    paths = [l for l in lines if l.startswith("path ")]
    if len(paths) < 2 or paths[0] != "path " + h(PATH):
        return "path query %r, expected %r (file named %s)" % (paths[:1], PATH, s.meta["way"])
    if s.meta.get("written"):
        # the extended dump taken after econf_writeFile is line for line the one taken before it
        if "w E0" not in lines:
            return "writing the object to another directory failed"
        views = [i for i, l in enumerate(lines) if l.startswith("view groups")]
        p0 = next(i for i, l in enumerate(lines) if l.startswith("path "))
        if len(views) < 2:
            return "no second dump"
        before = lines[views[0]:p0]
        after = lines[views[1]:views[1] + len(before)]
        if before != after:
            d = next((i for i, (a, b) in enumerate(zip(before, after)) if a != b), min(len(before), len(after)))
            return "after econf_writeFile the object answers differently: %r, before %r" % (after[d:d + 1], before[d:d + 1])
        if paths[1] != "path " + h(PATH):
            return "path query after econf_writeFile %r, expected %r" % (paths[1], PATH)
        paths = [paths[0]] + paths[2:]
    if s.meta.get("moved"):
        if paths[1] != "path " + h(PATH):
            return "path query after chdir %r, expected %r (file named %s)" % (paths[1], PATH, s.meta["way"])
        files = [x for l in lines if l.startswith("ext E0") for x in l.split() if x.startswith("file=")]
        if any(x != "file=" + h(PATH) for x in files):
            return "extended value after chdir names the file %r, expected %r" % (sorted(set(files)), PATH)
        paths = [paths[0]] + paths[2:]
    if paths[1] != "path h":
        return "a merged result reports the path %r" % paths[1]
    if "layered" in s.meta:
        rd = [l for l in lines if l.startswith("rd ")]
        if rd and rd[0] == "rd E0 obj" and (len(paths) != 3 or paths[2] != "path h"):
            return "the result of a layered read of %d files (drop-ins %r) reports the path %r" % (1 + len(s.meta["layered"]), s.meta["layered"], paths[2:3])
    return None


def nontrivial(s, lines):
    if "items" not in s.meta:
        return None
    return (s.meta["content"], s.meta["delim"], s.meta["comment"], s.meta["way"])


def histogram(s, lines):
    if "items" not in s.meta:
        return ["corpus"]
    ks = ["class_" + s.meta["cls"], "named_" + s.meta["way"]]
    nc = 0
    for it in s.meta["items"]:
        if it["kind"] == "comment":
            nc += 1
        else:
            if it["kind"] == "entry":
                ks.append("comment_block_%s" % ("0" if nc == 0 else "1" if nc == 1 else "2+"))
                if it["cont"]:
                    ks.append("multi_line_value")
                if it.get("tc") is not None:
                    ks.append("trailing_comment")
            nc = 0 if it["kind"] == "entry" else nc
    return ks
