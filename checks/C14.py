"""C14 - no length limit: long keys, values, comments, lines and paths are kept whole."""
import os
import subprocess
from vlib.scn import Scenario, h, run_token
from checks import common

from gen import extract_facts
generate_facts = extract_facts.generate

ID = "C14"
LEAN_MODULES = ["Econf.Props.C14", "Econf.Props.Struct"]
THEOREMS = ["Econf.C14_split_join", "Econf.C14_split_total", "Econf.C14_ext_comments", "Econf.C14_ext_values", "Econf.C14_copy_fields", "Econf.C14_comment_lines_length", "Econf.C14_write_value", "Econf.Struct.C14_fixed_buffers"]
SHRINK = False
RULE = ("every field kind (key, value, continuation line, section, comment before, comment after, file name, directory name, option "
        "string, two keys / two sections that agree in all but their last byte, the definitions joined under JOIN_SAME_ENTRIES with an empty one among them, econftool --delimiters) x lengths {1, BUFSIZ-2..BUFSIZ+2, 2*BUFSIZ, 64Ki, 1Mi (thorough)} and {NAME_MAX-1, NAME_MAX}, "
        "{PATH_MAX-2..PATH_MAX+2} for names and paths (read), a short name through two symbolic links into a directory whose real path has 1.6k..7.6k bytes, drop-ins of two layers whose names of NAME_MAX-1 / NAME_MAX bytes differ in one byte (with and without suffix), NAME_MAX-6..NAME_MAX and PATH_MAX-8..PATH_MAX-1 (written and read back) x every API that copies the field (string and extended getter, merge, write, "
        "re-read, error location); lengths and FNV hashes of what comes back are compared with what went in; distinct by (field, length)")
BUFSIZ = 8192
NAME_MAX = 255
PATH_MAX = 4096


def fnv(b):
    hh = 14695981039346656037
    for c in b:
        hh = ((hh ^ c) * 1099511628211) % (1 << 64)
    return hh


def summ(n, byte):
    return "len=%d fnv=%016x" % (n, fnv(bytes([byte]) * n))


def field_scenario(sid, field, n):
    s = Scenario(sid, {"field": field, "n": n})
    R = lambda c: run_token(n, c)
    if field == "value":
        content = h(b"k=") + "+" + R(0x76) + "+" + h(b"\n")
    elif field == "key":
        content = R(0x6b) + "+" + h(b"=v\n")
    elif field == "section":
        content = h(b"[") + "+" + R(0x73) + "+" + h(b"]\nk=v\n")
    elif field == "cb":
        content = h(b"#") + "+" + R(0x63) + "+" + h(b"\nk=v\n")
    elif field == "cb2":
        # a comment block of several lines in which a later line is the long one
        content = h(b"#first\n#") + "+" + R(0x63) + "+" + h(b"\n#last\nk=v\n")
    elif field == "ca":
        content = h(b"k=v #") + "+" + R(0x64) + "+" + h(b"\n")
    elif field == "cont":
        content = h(b"k=v\n ") + "+" + R(0x6c) + "+" + h(b"\n")
    elif field == "line":
        content = R(0x20) + "+" + h(b"k=v\n")
    s.add("F", h(b"/f.conf"), content)
    s.add("RF", 0, h(b"/f.conf"), h(b"="), h(b"#"))
    grp = "-" if field != "section" else R(0x73)
    key = h(b"k") if field != "key" else R(0x6b)
    s.add("KEYSUM", 0, grp)
    s.add("GET", 0, "sum", grp, key)
    s.add("EXTSUM", 0, grp, key)
    s.mkdir(b"/o")
    s.add("WSUM", 0, h(b"/o"), h(b"w"))
    s.add("RF", 1, h(b"/o/w"), h(b"="), h(b"#"))
    s.add("GET", 1, "sum", grp, key)
    s.add("EXTSUM", 1, grp, key)
    s.add("F", h(b"/g.conf"), h(b"other=1\n"))
    s.add("RF", 2, h(b"/g.conf"), h(b"="), h(b"#"))
    s.add("M", 3, 2, 0)
    s.add("GET", 3, "sum", grp, key)
    s.add("EXTSUM", 3, grp, key)
    s.add("M", 4, 0, 2)
    s.add("EXTSUM", 4, grp, key)
    return s


# the implementation harness runs with a small stack: memory that is taken from the stack per entry or per line and only
# given back when a function returns shows at sizes the quick tier can afford
STACK_KB = 1024


def many_scenario(sid, count, n):
    """`count` entries that all carry comments of n bytes before the key and behind the value; read, written, read back"""
    s = Scenario(sid, {"field": "many", "n": n, "count": count})
    parts = []
    for i in range(count):
        parts.append(h(b"#") + "+" + run_token(n, 0x63) + "+" + h(b"\nk%d=v #" % i) + "+" + run_token(n, 0x64) + "+" + h(b"\n"))
    s.add("F", h(b"/f.conf"), "+".join(parts))
    s.add("RF", 0, h(b"/f.conf"), h(b"="), h(b"#"))
    s.add("EXTSUM", 0, "-", h(b"k%d" % (count - 1)))
    s.mkdir(b"/o")
    s.add("WSUM", 0, h(b"/o"), h(b"w"))
    s.add("RF", 1, h(b"/o/w"), h(b"="), h(b"#"))
    s.add("EXTSUM", 1, "-", h(b"k0"))
    s.add("EXTSUM", 1, "-", h(b"k%d" % (count - 1)))
    return s


def name_scenario(sid, kind, n):
    """file names up to NAME_MAX and paths around PATH_MAX"""
    s = Scenario(sid, {"field": kind, "n": n})
    if kind == "filename":
        name = b"f" * (n - 5) + b".conf"
        s.file(b"/etc/p/cfg.conf.d/" + name, b"k=v\n")
        s.add("RC", 0, h(b"p"), h(b"/usr/etc"), h(b"cfg"), h(b"conf"), h(b"="), h(b"#"))
        s.add("PATH", 0)
        s.add("RAW", 0)
        s.meta["path"] = b"/etc/p/cfg.conf.d/" + name
    elif kind in ("twins", "twins_nosuffix"):
        # two drop-ins of different layers whose names of n bytes differ in one byte only (the last one of the name, or the
        # last one before the suffix): different names, nobody masks anybody; a third name is in both layers and is masked
        if kind == "twins":
            a, b, c, sfx, dd = b"x" * (n - 6) + b"a.conf", b"x" * (n - 6) + b"b.conf", b"y" * (n - 5) + b".conf", b"conf", b"cfg.conf.d"
        else:
            a, b, c, sfx, dd = b"x" * (n - 1) + b"a", b"x" * (n - 1) + b"b", b"y" * n, b"", b"cfg.d"
        s.file(b"/usr/etc/" + dd + b"/" + a, b"ka=1\n")
        s.file(b"/etc/" + dd + b"/" + b, b"kb=2\n")
        s.file(b"/usr/etc/" + dd + b"/" + c, b"kc=low\nkd=4\n")
        s.file(b"/etc/" + dd + b"/" + c, b"kc=high\n")
        s.add("RD", 0, h(b"/usr/etc"), h(b"/etc"), h(b"cfg"), h(sfx), h(b"="), h(b"#"))
        for k in (b"ka", b"kb", b"kc", b"kd"):
            s.add("GET", 0, "str", h(None), h(k))
    elif kind == "dirname":
        d = b"d" * n
        s.file(b"/" + d + b"/cfg.conf", b"k=v\n")
        s.add("RD", 0, h(b"/" + d), h(b"/nonexistent"), h(b"cfg"), h(b"conf"), h(b"="), h(b"#"))
        s.add("PATH", 0)
        s.add("RAW", 0)
        s.meta["path"] = b"/" + d + b"/cfg.conf"
    elif kind == "path":
        # a path of exactly n bytes built from 200-byte components
        comps = []
        rest = n - len(b"/f.conf")
        while rest > 201:
            comps.append(b"c" * 200)
            rest -= 201
        if rest > 1:
            comps.append(b"e" * (rest - 1))
        p = b"/" + b"/".join(comps) + b"/f.conf" if comps else b"/f.conf"
        if n < PATH_MAX:
            s.file(p, b"k=v\n[bad\n")
        else:
            # the OS refuses such a path; a file at the path cut to PATH_MAX-1 bytes must not be read instead
            s.file(p[:PATH_MAX - 1], b"k=v\n[bad\n")
        s.add("RF", 0, h(p), h(b"="), h(b"#"))
        s.add("ERRLOC")
        s.meta["path"] = p
    elif kind in ("wfilename", "wpath"):
        # the writer: a file name of n bytes / a directory + name of n bytes in total, written and read back
        if kind == "wfilename":
            d, name = b"/o", b"w" * n
        else:
            name = b"w.conf"
            comps = []
            rest = n - len(name) - 1
            while rest > 201:
                comps.append(b"c" * 200)
                rest -= 201
            if rest > 1:
                comps.append(b"e" * (rest - 1))
            d = b"/" + b"/".join(comps)
        s.mkdir(d)
        s.add("NEW", 0, "ini")
        s.add("SET", 0, "str", h(b"S"), h(b"k"), h(b"kept"))
        s.add("WSUM", 0, h(d), h(name))
        s.add("RF", 1, h(d + b"/" + name), h(b"="), h(b"#"))
        s.add("GET", 1, "str", h(b"S"), h(b"k"))
        s.meta["path"] = d + b"/" + name
    elif kind == "layerdir":
        # an over-long vendor sub-directory (or root prefix) next to a project name: the layer directories are composed in
        # PATH_MAX arrays; the over-long one cannot exist, the /etc layer is still read whole
        s.file(b"/etc/p/cfg.conf", b"k=" + b"v" * 100 + b"\n")
        s.add("RC", 0, h(b"p"), h(b"/" + b"u" * (n - 1)), h(b"cfg"), h(b"conf"), h(b"="), h(b"#"))
        s.add("GET", 0, "sum", "-", h(b"k"))
        s.add("NEW", 1, "opt", h(b"ROOT_PREFIX=/" + b"r" * (n - 1)))
        s.add("RC", 1, h(b"p"), h(b"/usr/etc"), h(b"cfg"), h(b"conf"), h(b"="), h(b"#"))
        s.add("SLOT", 1)
    elif kind == "deeplink":
        # a short name that leads through two symbolic links into a directory whose real path has n bytes (beyond PATH_MAX
        # the directory can only be made and reached in steps): the operating system opens the file, so the library reads it
        k = max(2, n // 402)
        A = b"/r/" + b"/".join([b"a" * 200] * k)
        Brel = b"/".join([b"b" * 200] * k)
        s.mkdir(A)
        s.add("CD", h(A))
        s.mkdir(Brel)
        s.add("F", h(Brel + b"/f.conf"), h(b"k=") + "+" + run_token(100, 0x76) + "+" + h(b"\n"))
        s.add("CD", h(b"/"))
        s.link(b"/l1", A)
        s.link(A + b"/l2", Brel)
        s.add("RF", 0, h(b"/l1/l2/f.conf"), h(b"="), h(b"#"))
        s.add("GET", 0, "sum", "-", h(b"k"))
        s.meta["impl_only"] = True
        s.meta["real"] = len(A) + 1 + len(Brel)
    elif kind == "options":
        d = b"/" + b"x" * n
        s.add("NEW", 0, "opt", h(b"ROOT_PREFIX=" + d + b";PARSING_DIRS=" + d + b":/b;CONFIG_DIRS=" + b"y" * n))
        s.add("OPTS", 0)
        s.meta["opt"] = d
    return s


def join_scenario(sid, n):
    """JOIN_SAME_ENTRIES: the definitions of a key are joined into one value, whatever their lengths; an empty definition starts
    the value afresh"""
    s = Scenario(sid, {"field": "joined", "n": n})
    R = lambda c: run_token(n, c)
    content = "+".join([h(b"k="), R(0x41), h(b"\nk="), R(0x42), h(b"\nk=\nk="), R(0x43), h(b"\nk=D\nj="), R(0x45), h(b"\nj="), R(0x46), h(b"\nj=G\n")])
    s.add("F", h(b"/etc/p/cfg.conf"), content)
    s.add("NEW", 0, "opt", h(b"JOIN_SAME_ENTRIES=1"))
    s.add("RC", 0, h(b"p"), h(b"/usr/etc"), h(b"cfg"), h(b"conf"), h(b"="), h(b"#"))
    s.add("GET", 0, "sum", "-", h(b"k"))
    s.add("GET", 0, "sum", "-", h(b"j"))
    # (the text after an empty definition starts with the line break of the join: the model's C15_join_since_empty)
    s.meta["want"] = [b"\n" + b"C" * n + b"\nD", b"E" * n + b"\n" + b"F" * n + b"\nG"]
    return s


def pair_scenario(sid, field, n):
    """two names (keys of one section, or sections) of n+1 bytes that agree in their first n bytes: both are kept, each with its own value;
    read, looked up, written and read back, merged"""
    s = Scenario(sid, {"field": "pair_" + field, "n": n})
    R = run_token(n, 0x6b)
    if field == "key":
        content = R + "+" + h(b"A=first\n") + "+" + R + "+" + h(b"B=second\n")
        names = [("-", R + "+" + h(b"A")), ("-", R + "+" + h(b"B"))]
    else:
        content = h(b"[") + "+" + R + "+" + h(b"A]\nk=first\n[") + "+" + R + "+" + h(b"B]\nk=second\n")
        names = [(R + "+" + h(b"A"), h(b"k")), (R + "+" + h(b"B"), h(b"k"))]
    s.add("F", h(b"/f.conf"), content)
    s.add("RF", 0, h(b"/f.conf"), h(b"="), h(b"#"))
    s.mkdir(b"/o")
    s.add("WSUM", 0, h(b"/o"), h(b"w"))
    s.add("RF", 1, h(b"/o/w"), h(b"="), h(b"#"))
    # the second name alone in an override: the merge has to replace the second value and leave the first
    if field == "key":
        s.add("F", h(b"/g.conf"), R + "+" + h(b"B=third\n"))
    else:
        s.add("F", h(b"/g.conf"), h(b"[") + "+" + R + "+" + h(b"B]\nk=third\n"))
    s.add("RF", 2, h(b"/g.conf"), h(b"="), h(b"#"))
    s.add("M", 3, 0, 2)
    for slot in (0, 1, 3):
        for g, k in names:
            s.add("GET", slot, "str", g, k)
    return s


LENS_Q = [1, BUFSIZ - 2, BUFSIZ - 1, BUFSIZ, BUFSIZ + 1, BUFSIZ + 2, 2 * BUFSIZ, 65536]
FIELDS = ["value", "key", "section", "cb", "cb2", "ca", "cont", "line"]


def scenarios(tier, rng):
    out = []
    lens = LENS_Q + ([1 << 20] if tier != "quick" else [])
    for f in FIELDS:
        for n in lens:
            out.append(field_scenario("%s_%d" % (f, n), f, n))
    if tier == "quick":
        # one field of the largest size of the table in the quick tier as well (a file of more than 1 MiB)
        out.append(field_scenario("value_%d" % (1 << 20), "value", 1 << 20))
    for n in lens:
        out.append(join_scenario("joined_%d" % n, n))
    for n in lens:
        if n <= 65536:
            out.append(pair_scenario("pairk_%d" % n, "key", n))
            out.append(pair_scenario("pairs_%d" % n, "section", n))
    for n in (NAME_MAX - 1, NAME_MAX):
        out.append(name_scenario("fn_%d" % n, "filename", n))
        out.append(name_scenario("dn_%d" % n, "dirname", n))
    out.append(many_scenario("many_40x64k", 40, 65536))
    out.append(many_scenario("many_400x8k", 400, BUFSIZ))
    for n in (NAME_MAX - 1, NAME_MAX):
        out.append(name_scenario("tw_%d" % n, "twins", n))
        out.append(name_scenario("tn_%d" % n, "twins_nosuffix", n))
    for n in range(PATH_MAX - 3, PATH_MAX + 3):
        out.append(name_scenario("p_%d" % n, "path", n))
    for n in range(NAME_MAX - 6, NAME_MAX + 1):
        out.append(name_scenario("wfn_%d" % n, "wfilename", n))
    for n in range(PATH_MAX - 8, PATH_MAX):
        out.append(name_scenario("wp_%d" % n, "wpath", n))
    for n in list(range(PATH_MAX - 3, PATH_MAX + 4)) + [2 * PATH_MAX, 65536]:
        out.append(name_scenario("ld_%d" % n, "layerdir", n))
    for n in (100, BUFSIZ, 65536):
        out.append(name_scenario("o_%d" % n, "options", n))
    for n in (2000, 4200, 4500, 5000, 8000):      # real path lengths 1.6k, 4023, 4425, 4827, 7641
        out.append(name_scenario("dl_%d" % n, "deeplink", n))
    return out


def oracle(s, lines):
    m = s.meta
    if "field" not in m:
        return None
    f, n = m["field"], m["n"]
    if f in FIELDS:
        if not lines or lines[0] != "rf E0 obj":
            return "file with a %s of %d bytes not read: %r" % (f, n, lines[:1])
        want = {"value": summ(n, 0x76), "key": None, "section": None, "cb": summ(n, 0x63), "ca": summ(n, 0x64), "line": None}
        gets = [l for l in lines if l.startswith("get ")]
        exts = [l for l in lines if l.startswith("extsum ")]
        if len(gets) != 3 or len(exts) != 4:
            return "unexpected output for %s/%d: %r" % (f, n, lines[:12])
        if any(not g.startswith("get E0") for g in gets) or any(not e.startswith("extsum E0") for e in exts):
            return "%s of %d bytes: a getter failed: %r %r" % (f, n, gets, exts)
        if f == "value":
            for g in gets:
                if g != "get E0 " + want["value"]:
                    return "value of %d bytes comes back as %r" % (n, g)
            for e in exts:
                if " v " + want["value"] not in e:
                    return "extended value of %d bytes comes back as %r" % (n, e)
        if f == "cont":
            w = "len=%d" % (len(b"v\n ") + n)
            for g in gets:
                if w not in g:
                    return "multi-line value with a line of %d bytes comes back as %r" % (n, g)
            for e in exts:
                if " v len=1 " not in e or " v " + summ(n, 0x6c) not in e:
                    return "value lines with a line of %d bytes come back as %r" % (n, e)
        if f == "cb2":
            blk = b"first\n" + b"c" * n + b"\nlast"
            w = "len=%d fnv=%016x" % (len(blk), fnv(blk))
            for i, e in enumerate(exts):
                if " cb " + w not in e:
                    return "comment block with a line of %d bytes comes back as %r (%s)" % (n, e, ["parsed", "written and re-read", "merged as override", "merged as base"][i])
        if f in ("cb", "ca"):
            for i, e in enumerate(exts):
                if " %s %s" % (f, want[f]) not in e:
                    return "comment (%s) of %d bytes comes back as %r (%s)" % (f, n, e, ["parsed", "written and re-read", "merged as override", "merged as base"][i])
        if f == "key":
            ks = [l for l in lines if l.startswith("keysum ")]
            if not ks or summ(n, 0x6b) not in ks[0]:
                return "key of %d bytes listed as %r" % (n, ks)
        if f == "section":
            ks = [l for l in lines if l.startswith("keysum ")]
            if not ks or " g " + summ(n, 0x73) not in ks[0]:
                return "section of %d bytes listed as %r" % (n, ks)
        return None
    if f.startswith("pair_"):
        gets = [l for l in lines if l.startswith("get ")]
        want = ["get E0 " + h(x) for x in (b"first", b"second", b"first", b"second", b"first", b"third")]
        if gets != want:
            return "two %ss of %d bytes that differ in their last byte only: values come back as %r, expected %r (parsed; written and re-read; merged with an override of the second)" % (f[5:], n + 1, gets, want)
        return None
    if f == "joined":
        want = ["new E0 obj", "rc E0 obj"] + ["get E0 len=%d fnv=%016x" % (len(w), fnv(w)) for w in m["want"]]
        if lines[:4] != want:
            return "definitions of %d bytes joined (JOIN_SAME_ENTRIES): %r, expected %r" % (n, lines[:4], want)
        return None
    if f in ("filename", "dirname"):
        if " E0 obj" not in lines[0]:
            return "%s of %d bytes: %r" % (f, n, lines[0])
        if lines[1] != "path " + h(m["path"]):
            return "%s of %d bytes: path %r" % (f, n, lines[1][:80])
        return None
    if f == "many":
        exts = [l for l in lines if l.startswith("extsum ")]
        w = " cb %s" % summ(n, 0x63)
        w2 = " ca %s" % summ(n, 0x64)
        if len(exts) != 3 or any(not e.startswith("extsum E0") or w not in e or w2 not in e for e in exts):
            return "%d entries with comments of %d bytes each: read, written and read back gives %r" % (m["count"], n, [e[:80] for e in exts])
        return None
    if f in ("twins", "twins_nosuffix"):
        want = ["rd E0 obj", "get E0 " + h(b"1"), "get E0 " + h(b"2"), "get E0 " + h(b"high"), "get E5 "]
        if lines[:5] != want:
            return "drop-ins with names of %d bytes that differ in one byte: %r, expected %r" % (n, lines[:5], want)
        return None
    if f == "layerdir":
        want = ["rc E0 obj", "get E0 " + summ(100, 0x76)]
        if lines[:2] != want:
            return "layered read with a vendor sub-directory of %d bytes and a project name: %r, expected %r" % (n, lines[:2], want)
        if not lines[3].startswith("rc E3") and not lines[3].startswith("rc E0"):
            return "layered read with a root prefix of %d bytes: %r" % (n, lines[3])
        return None
    if f in ("wfilename", "wpath"):
        if "w E0" not in lines or lines[-2:] != ["rf E0 obj", "get E0 " + h(b"kept")]:
            return "econf_writeFile to a %s of %d bytes (which the operating system accepts): %r" % (
                "file name" if f == "wfilename" else "path", n, [l[:40] for l in lines[2:]])
        return None
    if f == "path":
        if n >= PATH_MAX:
            return None if lines[0] == "rf E3 null" else "path of %d bytes (beyond PATH_MAX): %r, expected file-not-found" % (n, lines[0])
        if lines[0] != "rf E9 null":
            return "path of %d bytes: %r" % (n, lines[0])
        if lines[1] != "errloc %s 2" % h(m["path"]):
            return "error location for a path of %d bytes is truncated or wrong" % n
        return None
    if f == "deeplink":
        want = ["rf E0 obj", "get E0 " + summ(100, 0x76)]
        got = [l for l in lines if l.startswith(("rf ", "get "))]
        if got != want:
            return "a file behind two symbolic links whose directory has a real path of %d bytes: %r, expected %r" % (m["real"], got, want)
        return None
    if f == "options":
        d = m["opt"]
        want = "opts join=0 python=0 root=%s pdirs=2 %s %s cdirs=1 %s" % (h(d), h(d), h(b"/b"), h(b"y" * n))
        if lines[0] != "new E0 obj" or lines[1] != want:
            return "option string with %d-byte items is not kept whole" % n
        return None
    return None


def nontrivial(s, lines):
    m = s.meta
    return (m["field"], m["n"]) if "field" in m else None


def histogram(s, lines):
    m = s.meta
    return ["field_" + m["field"], "len_%d" % m["n"]] if "field" in m else ["corpus"]


def direct_checks(res, harness, tier, rng):
    """econftool --delimiters of any length (fixed finding F28)"""
    import tempfile
    import shutil
    d = tempfile.mkdtemp(prefix="econf-c14-", dir="/dev/shm" if os.access("/dev/shm", os.W_OK) else None)
    try:
        os.makedirs(d + "/etc")
        with open(d + "/etc/t.conf", "w") as f:
            f.write("a\tb\n")
        for n in (10, 1023, 1024, 1500, 20000):
            delim = "x" * n + "\\t"
            env = dict(os.environ, ECONFTOOL_ROOT=d, ASAN_OPTIONS="detect_leaks=0")
            p = subprocess.run([harness["econftool"], "show", "--delimiters=" + delim, "t.conf"], env=env, stdout=subprocess.PIPE, stderr=subprocess.STDOUT, text=True)
            res.evaluations += 1
            res.direct_distinct += 1
            res.hist["econftool_delimiters_len_%d" % n] = 1
            if "AddressSanitizer" in p.stdout or "runtime error" in p.stdout or p.returncode < 0 or "a = b" not in p.stdout:
                path = common.write_replay(res, "tool%d" % n, None, "econftool show --delimiters=<%d x 'x'>\\t t.conf with $ECONFTOOL_ROOT/etc/t.conf = 'a<TAB>b': "
                                           "exit %d\n%s" % (n, p.returncode, p.stdout[-1500:]))
                res.violations.append((path, "econftool --delimiters of %d bytes" % n, False))
    finally:
        shutil.rmtree(d, ignore_errors=True)
