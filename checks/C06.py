"""C06 - every file passes the caller's check before use; one rejection yields nothing."""
from vlib import gen_tree
from vlib.scn import Scenario, h, unh
from checks import trees
from checks.outparse import parse_raws

ID = "C06"
LEAN_MODULES = ["Econf.Props.C06"]
THEOREMS = ["Econf.C06_file", "Econf.readSeq_spec", "Econf.readFirst_spec", "Econf.C06_history_trace", "Econf.C06_no_config",
            "Econf.C06_no_config_dirs", "Econf.C06_no_history"]
SHRINK = False
RULE = ("trees of C01 x callback policies (accept all, accept all after reading a policy file and a small layered tree through the library inside the callback, "
        "reject the k-th call for k = 0..n, reject by path suffix: the main file, a drop-in, a masked drop-in) x the four callback entry points (single file, layered read, two-directory read, history); the logged "
        "callback calls and file opens and the result are compared with the consulted list computed from the tree; "
        "non-trivial = at least one callback call; distinct by scenario text")


def make(rng, sid):
    shape = rng.choice(["project", "noproject", "readdirs", "readdirs", "parsingdirs", "configdirs", "dropinonly", "single"])
    if shape == "single":
        s = Scenario(sid, {"single": True})
        s.file(b"/etc/one.conf", b"a=1\n[S]\nb=2\n")
        pol = rng.choice(["cb:all", "cb:rej:0", "cb:suf:" + h(b"one.conf"), "cb:suf:" + h(b"other")])
        s.add("LOGOPEN", 1)
        name = b"/etc/one.conf"
        if rng.random() < 0.4:     # relative name: the callback must be shown the name as the caller gave it
            s.add("CD", h(b"/etc"))
            name = rng.choice([b"one.conf", b"./one.conf", b"../etc/one.conf"])
        s.add("RF", 0, h(name), h(b"="), h(b"#"), pol)
        s.add("RAW", 0)
        s.meta["policy"] = pol
        s.meta["consulted"] = [name]
        return s
    p = gen_tree.shape_params(rng, shape)
    tg = gen_tree.Tagger()
    t = gen_tree.random_tree(rng, p["dirs"], p["name"], p["dsfx"], p["postfixes"], tg, decoys=p["decoys"])
    relative = False
    if shape == "readdirs" and rng.random() < 0.4 and all(d.startswith(b"/") and len(d) > 1 for d in p["dirs"]):
        # relative directory arguments (after chdir to /): the callback is shown the consulted names as built from them
        relative = True
        _, u, e, nm, sfx = p["call"]
        p["call"] = ("RD", u[1:], e[1:], nm, sfx)
        p["dirs"] = [u[1:], e[1:]]
    # a left-over link whose target is gone among the consulted files: the callback is asked about it like about any other
    dangling = None
    if rng.random() < 0.2:
        tv0 = trees.TreeView(t)
        main0, drops0 = trees.consulted(tv0, p["dirs"], p["name"], p["dsfx"], p["postfixes"])
        cand = [i for i, f in enumerate(t.files) if f[1] == "file" and any(trees.norm(f[0]) == trees.norm(d) for d in drops0)]
        if cand:
            i = rng.choice(cand)
            f = t.files[i]
            t.files[i] = (f[0], "link", rng.choice([b"/nonexistent/target", b"../gone/old.conf"]), None, None)
            dangling = f[0]
    tv = trees.TreeView(t)
    main, drops = trees.consulted(tv, p["dirs"], p["name"], p["dsfx"], p["postfixes"])
    files = ([main] if main else []) + drops
    r = rng.random()
    nested = None
    if r < 0.12 and files:
        # the callback loads a policy file of its own through the library while it is being asked, and accepts
        nested = b"/policy/allow.conf"
        pol = "cb:nest:" + h(nested)
    elif r < 0.25 or not files:
        pol = "cb:all"
    elif r < 0.6:
        pol = "cb:rej:%d" % rng.randint(0, len(files))
    else:
        f = rng.choice(files)
        pol = "cb:suf:" + h(trees.basename(f) if rng.random() < 0.7 else f[-6:])
    if dangling is not None and rng.random() < 0.6:
        pol = "cb:suf:" + h(trees.basename(dangling))
    entry = None
    if p["call"][0] == "RD" and rng.random() < 0.5:
        entry = "RH"
    s = Scenario(sid, {"p": p, "tree": t, "policy": pol, "consulted": files, "entry": entry or p["call"][0], "shape": shape, "dangling": dangling})
    t.emit(s)
    if nested:
        s.file(nested, b"allow=yes\nleaked_from_policy=1\n[A]\nk=policy\n")
        # ... and a small layered tree of its own, which the callback reads with econf_readDirs
        s.file(b"/policy/usr/allow.list", b"user root\nleaked_from_policy 2\n")
        s.file(b"/policy/etc/allow.list.d/10-x.list", b"user admin\n")
    if relative:
        s.add("CD", h(b"/"))
        s.meta["relative"] = True
    if rng.random() < 0.25:
        # a permission requirement that every file and directory of the tree meets (files 0644, directories 0755) is in force:
        # the callback is asked all the same
        s.add("G", "perms", rng.choice(["004", "644"]), rng.choice(["001", "755"]))
        s.meta["perms"] = True
    s.add("LOGOPEN", 1)
    gen_tree.emit_read(s, p, 0, cb=pol, entry=entry)
    if entry == "RH":
        for i in range(len(files) + 1):
            s.add("SLOT", i)
    else:
        s.add("RAW", 0)
    # the same read without callback, for the all-accepted case
    s.add("LOGOPEN", 0)
    if entry != "RH":
        gen_tree.emit_read(s, p, 10)
        s.add("RAW", 10)
    return s


def scenarios(tier, rng):
    n = 2500 if tier == "quick" else 60000
    return [make(rng, "c%d" % i) for i in range(n)]


def rejected(policy, k, path):
    if policy == "cb:all" or policy.startswith("cb:nest:"):
        return False
    if policy.startswith("cb:rej:"):
        return k == int(policy[7:])
    suf = unh(policy[7:])
    return path.endswith(suf)


def oracle(s, lines):
    m = s.meta
    if "policy" not in m:
        return None
    files = m["consulted"]
    # events up to the result line of the first read
    ev = []
    res = None
    for l in lines:
        if l.startswith(("cb ", "open ")):
            ev.append(l)
        elif l.startswith(("rf ", "rc ", "rd ", "rh ")):
            res = l
            break
    cbs = [l for l in ev if l.startswith("cb ")]
    # expected callback sequence: consulted files in processing order up to and including the first rejected one
    want = []
    rej_at = None
    unreadable = None
    for k, f in enumerate(files):
        want.append(f)
        if rejected(m["policy"], k, f):
            rej_at = k
            break
        if m.get("dangling") is not None and trees.norm(f) == trees.norm(m["dangling"]):
            unreadable = f        # accepted, but there is nothing to open: the read ends here with file-not-found
            break
    got = [unh(l.split()[1]) for l in cbs]
    if got != want:
        return "callback called with %r, expected %r (policy %s)" % (got, want, m["policy"])
    if any(l.split()[2] != "1" for l in cbs):
        return "callback data pointer not passed through"
    # every open is preceded by an accepting callback call for that path, nothing is opened after a rejection
    seen = set()
    k = 0
    pending = False
    cwd = next((unh(x.split()[1]) for x in s.lines if x.startswith("CD ")), None)
    for l in ev:
        pth = unh(l.split()[1])
        if l.startswith("cb "):
            if not rejected(m["policy"], k, pth):
                seen.add(pth)
                pending = cwd is not None and not pth.startswith(b"/")
            else:
                pending = False
            k += 1
        elif pending:
            # relative name: the callback is shown the name as given, the open uses what `realpath` makes of it (links, `.`
            # and `..` resolved); the open must be the event right behind the accepting call
            pending = False
        else:
            if pth not in seen:
                return "file %r opened without an accepting callback call" % pth
    if rej_at is not None:
        if " E21" not in res:
            return "a file was rejected but the result is %r" % res
        if res.startswith("rh "):
            if res.split()[2] not in ("null", "untouched"):
                return "history handed back after a rejection: %r" % res
        else:
            raws = parse_raws(lines)
            if raws and not raws[0].null and raws[0].entries:
                return "a configuration with %d entries is handed back after a rejection" % len(raws[0].entries)
        return None
    if unreadable is not None:
        if " E3" not in res:
            return "the link %r (target missing) was accepted, result %r, expected file-not-found" % (unreadable, res)
        return None
    # all accepted: same as the read without callback
    if not files:
        return None if " E3" in res else "no file, result %r" % res
    if " E0" not in res:
        return "all files accepted but the read failed: %r" % res
    if not res.startswith("rh ") and not m.get("single"):
        raws = parse_raws(lines)
        if len(raws) >= 2 and raws[0].sig() != raws[1].sig():
            return "result with an always-accepting callback differs from the result without callback"
    return None


def nontrivial(s, lines):
    if "policy" not in s.meta:
        return None
    return tuple(s.lines) if any(l.startswith("cb ") for l in lines) else None


def histogram(s, lines):
    m = s.meta
    if "policy" not in m:
        return ["corpus"]
    ks = ["entry_" + ("RF" if m.get("single") else m["entry"]), "policy_" + m["policy"].split(":")[1]]
    res = next((l for l in lines if l.startswith(("rf ", "rc ", "rd ", "rh "))), "")
    ks.append("result_" + res.split()[1] if res else "noresult")
    ks.append("consulted_%d" % min(len(m["consulted"]), 8))
    if m.get("dangling"):
        ks.append("dangling_link_among_the_drop_ins")
    if m.get("perms"):
        ks.append("permission_requirement_in_force")
    return ks
