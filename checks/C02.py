"""C02 - conventional files parse to exactly the sections, keys and values written."""
from vlib import gen_doc
from checks import docs
from gen import extract_facts
generate_facts = extract_facts.generate

ID = "C02"
LEAN_MODULES = ["Econf.Props.C02", "Econf.Props.Tie"]
THEOREMS = ["Econf.C02_parse_render", "Econf.C02_parse_render_plain", "Econf.C02_entry_item", "Econf.C02_no_final_newline", "Econf.parseLine_noeol", "Econf.parse_item", "Econf.splitLines_render", "Econf.Struct.tie_macros"]
RULE = ("grammar-directed documents of DESIGN.md 5.1 (0..60 items, every spelling choice drawn at random) x 7 delimiter sets x 3 comment "
        "sets x final newline present/absent; non-trivial = at least one entry or section; distinct by file content and sets")
PATH = b"/etc/app/doc.conf"
SHRINK = False


def make(rng, sid, nitems, hist, single_line=False):
    delim = rng.choice(docs.DELIMS)
    comment = rng.choice(docs.COMMENTS)
    g = gen_doc.Gen(rng, delim, comment, single_line=single_line, hist=hist)
    items = g.document(nitems)
    fnl = rng.random() < 0.85
    content = gen_doc.render(items, fnl)
    meta = {"items": items, "delim": delim, "comment": comment, "cls": g.cls, "content": content}
    return docs.doc_scenario(sid, content, delim, comment, meta, PATH)


GEN_HIST = {}


def scenarios(tier, rng):
    n = 2000 if tier == "quick" else 60000
    out = []
    for i in range(n):
        size = rng.choice([3, 8, 8, 20, 60])
        out.append(make(rng, "d%d" % i, size, GEN_HIST))
    return out


def oracle(s, lines):
    if "items" not in s.meta:
        return None
    sections, entries = gen_doc.expected(s.meta["items"])
    return docs.check_entries(lines, sections, entries, PATH)


def nontrivial(s, lines):
    if "items" not in s.meta:
        return None
    if not any(it["kind"] in ("entry", "section") for it in s.meta["items"]):
        return None
    return (s.meta["content"], s.meta["delim"], s.meta["comment"])


def histogram(s, lines):
    if "items" not in s.meta:
        return ["corpus"]
    ks = ["class_" + s.meta["cls"], "comment_set_" + s.meta["comment"].decode()]
    for it in s.meta["items"]:
        ks.append("item_" + it["kind"])
        if it["kind"] == "entry":
            if it["cont"]:
                ks.append("entry_with_continuation")
            if it["quotes"]:
                ks.append("value_quoted")
            if it["value"] is None:
                ks.append("value_absent")
            if it.get("tc") is not None:
                ks.append("trailing_comment")
    return ks
