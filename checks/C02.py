"""C02 - conventional files parse to exactly the sections, keys and values written."""
from vlib import gen_doc
from vlib.scn import h
from checks import docs
from gen import extract_facts
generate_facts = extract_facts.generate

ID = "C02"
LEAN_MODULES = ["Econf.Props.C02", "Econf.Props.Tie", "Econf.Props.Leaf"]
THEOREMS = ["Econf.C02_parse_render", "Econf.C02_parse_render_plain", "Econf.C02_in_domain", "Econf.C02_entry_item", "Econf.C02_keyonly_item", "Econf.C02_no_final_newline", "Econf.parseLine_noeol", "Econf.parse_item", "Econf.splitLines_render", "Econf.Struct.tie_macros",
            "Leaf.C_check_delim"]
# string helpers translated from the C source on every run (gen/c2lean.py); theorems in lean/Econf/Props/Leaf.lean
LEAF_FNS = ["check_delim"]
RULE = ("grammar-directed documents of DESIGN.md 5.1 (0..60 items, every spelling choice drawn at random) x 7 delimiter sets x 3 comment "
        "sets x final newline present/absent; non-trivial = at least one entry or section; distinct by file content and sets")
PATH = b"/etc/app/doc.conf"
SHRINK = False


def make(rng, sid, nitems, hist, single_line=False):
    delim = rng.choice(docs.DELIMS)
    comment = rng.choice(docs.COMMENTS)
    g = gen_doc.Gen(rng, delim, comment, single_line=single_line, hist=hist)
    items = g.document(nitems)
    fnl = rng.random() < 0.85
    content = gen_doc.render(items, fnl)
    meta = {"items": items, "delim": delim, "comment": comment, "cls": g.cls, "content": content, "fnl": fnl}
    s = docs.doc_scenario(sid, content, delim, comment, meta, PATH)
    if rng.random() < 0.25:
        # an earlier, successful read in the same process with another delimiter and comment set (a login.defs style file, a
        # file with colons): what the earlier call was told must not play a part in this one
        pf, pd, pc = rng.choice([(b"UMASK 022\nMAIL_DIR\t/var/mail\n", b" \t", b"#"), (b"a:b\nc : d ; e\n", b":", b";"),
                                 (b"x = 1\n[s]\ny=2 # t\n", b" =", b"#"), (b"k;v\n", b";", b"!")])
        s.lines[1:1] = ["F %s %s" % (h(b"/etc/prior.conf"), h(pf)), "RF 20 %s %s %s" % (h(b"/etc/prior.conf"), h(pd), h(pc)), "FREE 20"]
        s.meta["prior"] = True
    return s


GEN_HIST = {}
DOCS = []      # (scenario id, docwf input lines) of the documents generated in this run


def scenarios(tier, rng):
    n = 2000 if tier == "quick" else 60000
    out = []
    for i in range(n):
        size = rng.choice([3, 8, 8, 20, 60])
        sc = make(rng, "d%d" % i, size, GEN_HIST)
        out.append(sc)
        m = sc.meta
        if m["items"]:
            DOCS.append((sc.id, gen_doc.docwf_lines(m["items"], m["delim"], m["comment"], m["content"], m["fnl"])))
    return out


def direct_checks(res, harness, tier, rng):
    """the tie between the C02 theorem and what the correspondence run samples: every generated document is handed, as a
    structured list of items, to the model driver (`econf_model --docwf`), which decides with the kernel-checked decidability
    instances whether it lies in the domain of `C02_parse_render` (`docInDomain`), whether the Lean `render` of the items is
    byte for byte the file given to the implementation, and whether the parser model returns `expDoc`"""
    import subprocess
    from vlib import build
    from checks import common
    docs, DOCS[:] = list(DOCS), []
    if not docs:
        return
    text = "\n".join("\n".join(ls) for _, ls in docs) + "\n"
    p = subprocess.run([build.model_exe(), "--docwf"], input=text.encode(), stdout=subprocess.PIPE, stderr=subprocess.PIPE)
    outs = [l for l in p.stdout.decode().split("\n") if l.startswith("docwf ")]
    if len(outs) != len(docs):
        path = common.write_replay(res, "docwf", None, "econf_model --docwf answered %d of %d documents (exit %d)\n%s" % (len(outs), len(docs), p.returncode, p.stderr.decode()[-500:]))
        res.violations.append((path, "domain check of the generated documents did not run", True))
        return
    for (sid, ls), o in zip(docs, outs):
        f = dict(x.split("=") for x in o.split()[1:])
        res.hist["doc_in_theorem_domain" if f["in"] == "1" else "doc_outside_theorem_domain"] = res.hist.get("doc_in_theorem_domain" if f["in"] == "1" else "doc_outside_theorem_domain", 0) + 1
        bad = None
        if f["render"] != "1":
            bad = "the Lean rendering of the generated items is not the file given to the implementation"
        elif f["in"] == "1" and f["parse"] != "1":
            bad = "document inside the domain of C02_parse_render on which the parser model does not return expDoc (contradicts the theorem: the driver and the library disagree about a definition)"
        elif f["parse"] != "1":
            bad = "generated conventional document outside the theorem's domain (item %s) on which the parser model differs from the expected state" % f["bad"]
        if bad and len([v for v in res.violations]) < 5:
            path = common.write_replay(res, "docwf-" + sid, None, bad + "\n" + o + "\n" + "\n".join(ls))
            res.violations.append((path, bad, False))


def oracle(s, lines):
    if "items" not in s.meta:
        return None
    sections, entries = gen_doc.expected(s.meta["items"])
    return docs.check_entries(lines, sections, entries, PATH)


def nontrivial(s, lines):
    if "items" not in s.meta:
        return None
    if not any(it["kind"] in ("entry", "section") for it in s.meta["items"]):
        return None
    return (s.meta["content"], s.meta["delim"], s.meta["comment"])


def histogram(s, lines):
    if "items" not in s.meta:
        return ["corpus"]
    ks = ["class_" + s.meta["cls"], "comment_set_" + s.meta["comment"].decode()]
    for it in s.meta["items"]:
        ks.append("item_" + it["kind"])
        if it["kind"] == "entry":
            if it["cont"]:
                ks.append("entry_with_continuation")
            if it["quotes"]:
                ks.append("value_quoted")
            if it["value"] is None:
                ks.append("value_absent")
            if it.get("tc") is not None:
                ks.append("trailing_comment")
    return ks
