"""C12 - all layered-read entry points agree with each other and with the history."""
from vlib import gen_tree
from vlib.scn import Scenario, h, unh
from checks import trees
from checks.outparse import parse_raws, txt

ID = "C12"
LEAN_MODULES = ["Econf.Props.C12"]
THEOREMS = ["Econf.C12_history_callback", "Econf.C12_dirs_callback", "Econf.C12_config_callback", "Econf.C12_dirs_config", "Econf.C12_history", "Econf.readHistory_sim"]
SHRINK = False
RULE = ("two-directory trees (and default three-layer trees) x suffix spellings x NULL/empty directory arguments x process-wide drop-in "
        "list: econf_readDirs, econf_readConfig with PARSING_DIRS of the same directories, both callback variants with an accepting "
        "callback, and both history variants are run on the same tree (the handle of the layered read sometimes made with the option given "
        "twice, or used before for a read that finds nothing); results must be identical and the history, merged left to right "
        "with masking, must reproduce the result; non-trivial = at least two files consulted; distinct by scenario text")


NH = 28      # history slots dumped per variant


def make(rng, sid):
    p = gen_tree.shape_params(rng, "readdirs")
    if rng.random() < 0.12:
        # a configuration name with a directory part: <dir>/sub/cfg<suffix> and <dir>/sub/cfg<suffix>.d/
        p["name"] = b"sub/cfg"
        p["call"] = p["call"][:3] + (b"sub/cfg",) + p["call"][4:]
    sep = rng.random() < 0.15
    if sep:
        # directory names that contain the separators of the option syntax (`:` between directories, `;` between options):
        # the two-directory entry points take their arguments as they are
        u0, e0 = rng.choice([(b"/opt/vendor:2.0", b"/etc"), (b"/usr/etc", b"/etc;site"), (b"/opt/a:b", b"/srv/c:d")])
        p["dirs"] = [u0, e0]
        p["call"] = ("RD", u0, e0, p["call"][3], p["call"][4])
    if rng.random() < 0.3:
        p["global_confdirs"] = rng.choice([[b".d"], [b"/conf.d", b".d"], [p["dsfx"] + b".d", b".x.d"]])
        p["postfixes"] = p["global_confdirs"]
    tg = gen_tree.Tagger()
    t = gen_tree.random_tree(rng, p["dirs"], p["name"], p["dsfx"], p["postfixes"], tg, decoys=p["decoys"])
    _, u, e, name, sfx = p["call"]
    s = Scenario(sid, {"p": p, "tree": t})
    t.emit(s)
    if u and e and u.startswith(b"/") and e.startswith(b"/") and len(u) > 1 and len(e) > 1 and rng.random() < 0.35:
        # the two directories given as relative names (after chdir to /): all entry points must still agree
        s.add("CD", h(b"/"))
        u, e = u[1:], e[1:]
        s.meta["relative"] = True
    if p["global_confdirs"] is not None:
        s.add("G", "confdirs", *[h(x) for x in p["global_confdirs"]])
    args = [h(u), h(e), h(name), h(sfx), h(b"="), h(b"#")]
    s.add("RD", 0, *args)
    s.add("RAW", 0)
    s.add("RD", 1, *(args + ["cb:all"]))
    s.add("RAW", 1)
    if sep:
        # (such names cannot be written into a PARSING_DIRS list: the comparison with that route is replaced by a second pair of calls)
        s.meta["separators"] = True
        s.add("RD", 2, *args)
        s.add("RAW", 2)
        s.add("RD", 3, *(args + ["cb:all"]))
        s.add("RAW", 3)
    else:
        pd = b"PARSING_DIRS=" + (u or b"") + b":" + (e or b"")
        how = rng.random()
        if how < 0.15 and name:
            # the option given twice: the second list replaces the first (whose directories hold files of the same configuration)
            s.file(b"/old/e/" + name + p["dsfx"], b"old_main=1\n")
            s.file(b"/old/u/" + name + p["postfixes"][0] + b"/zz-old" + (p["dsfx"] or b".conf"), b"old_dropin=1\n")
            pd = b"PARSING_DIRS=/old/u:/old/e;" + pd
            s.meta["variant"] = "option_twice"
        elif how < 0.3:
            # the handle has already been used for a read that found nothing: its list of directories is still the caller's
            s.meta["variant"] = "failed_read_first"
        # (with an explicit list of directories the project argument plays no part: given or NULL)
        prj = rng.choice([b"ignored", None])
        s.add("NEW", 2, "opt", h(pd))
        if s.meta.get("variant") == "failed_read_first":
            s.add("RC", 2, h(prj), h(b"/ignored"), h(b"no-such-configuration"), h(sfx), h(b"="), h(b"#"))
        s.add("RC", 2, h(prj), h(b"/ignored"), h(name), h(sfx), h(b"="), h(b"#"))
        s.add("RAW", 2)
        s.add("NEW", 3, "opt", h(pd))
        if s.meta.get("variant") == "failed_read_first":
            s.add("RC", 3, h(prj), h(b"/ignored"), h(b"no-such-configuration"), h(sfx), h(b"="), h(b"#"), "cb:all")
        s.add("RC", 3, h(prj), h(b"/ignored"), h(name), h(sfx), h(b"="), h(b"#"), "cb:all")
        s.add("RAW", 3)
    s.add("RH", 4, *args)
    for i in range(4, 4 + NH):
        s.add("RAW", i)
    s.add("RH", 34, *(args + ["cb:all"]))
    for i in range(34, 34 + NH):
        s.add("RAW", i)
    return s


def scenarios(tier, rng):
    n = 2000 if tier == "quick" else 50000
    return [make(rng, "w%d" % i) for i in range(n)]


def oracle(s, lines):
    if "p" not in s.meta:
        return None
    results = [l for l in lines if l.startswith(("rd ", "rc ", "rh "))]
    if s.meta.get("variant") == "failed_read_first" and len(results) == 8:
        for i in (4, 2):
            if results[i].split()[1] != "E3":
                return "a layered read of a configuration that does not exist returns %r" % results[i]
            del results[i]
    if len(results) != 6:
        return "unexpected output"
    codes = [r.split()[1] for r in results]
    if len(set(codes)) != 1:
        return "entry points return different codes: %r" % results
    raws = parse_raws(lines)
    merged = raws[:4]
    if codes[0] != "E0":
        return None
    sig0 = merged[0].sig()
    for i, r in enumerate(merged[1:], 1):
        if r.sig() != sig0:
            return "entry point %d returns a different configuration than econf_readDirs" % i
    nh = int(results[4].split()[3])
    if int(results[5].split()[3]) != nh:
        return "the two history variants list a different number of files"
    if nh > NH:
        return None
    h1 = raws[4:4 + nh]
    h2 = raws[4 + NH:4 + NH + nh]
    if [r.sig() for r in h1] != [r.sig() for r in h2]:
        return "the two history variants differ"
    # the history lists exactly the consulted files in processing order, each with its own path and content
    p, t = s.meta["p"], s.meta["tree"]
    tv = trees.TreeView(t)
    main, drops = trees.consulted(tv, p["dirs"], p["name"], p["dsfx"], p["postfixes"])
    files = ([main] if main else []) + drops

    def stored(f):
        # a relative name is stored as what realpath() makes of it: normalised, a symbolic link replaced by its target
        if not s.meta.get("relative"):
            return f
        n = tv.get(f)
        return trees.norm(n[1]) if n and n[0] == "link" else trees.norm(f)
    if [r.path for r in h1] != [stored(f) for f in files]:
        return "history paths %r, consulted files %r" % ([r.path for r in h1], [stored(f) for f in files])
    for r, f in zip(h1, files):
        want = trees.parse_simple(tv.content(f) or b"")
        if trees.raw_map(r) != {k: v for k, v in want.items()}:
            return "history member %r does not carry its own content" % f
    # merging the history left to right (skipping a file when a later one has the same name) reproduces the result;
    # the first file is never skipped (known finding F14 of C01 concerns the rule, not this agreement)
    acc = {}
    for i, r in enumerate(h1):
        b = trees.basename(r.path)
        if i > 0 and b not in (b".", b"..") and any(trees.basename(x.path) == b for x in h1[i + 1:]):
            continue
        for k, v in trees.raw_map(r).items():
            acc[k] = v
    if acc != trees.raw_map(merged[0]):
        return "merging the history left to right does not reproduce the merged result"
    if nh == 1 and merged[0].path != h1[0].path:
        return "single-file result does not keep the file's path"
    return None


def nontrivial(s, lines):
    if "p" not in s.meta:
        return None
    r = [l for l in lines if l.startswith("rh E0")]
    return tuple(s.lines) if r and int(r[0].split()[3]) >= 2 else None


def histogram(s, lines):
    if "p" not in s.meta:
        return ["corpus"]
    p = s.meta["p"]
    ks = ["suffix_%r" % p["suffix"], "usr_%r" % (p["call"][1],), "etc_%r" % (p["call"][2],), "variant_%s" % s.meta.get("variant", "plain"),
          "confdirs_global" if p["global_confdirs"] is not None else "confdirs_default"]
    r = [l for l in lines if l.startswith("rh ")]
    if r:
        ks.append("history_%s" % (r[0].split()[3] if r[0].startswith("rh E0") else r[0].split()[1]))
    return ks
