"""C10 - queries never change the configuration."""
from vlib import gen_ops
from gen import extract_facts
generate_facts = extract_facts.generate

ID = "C10"
LEAN_MODULES = ["Econf.Props.C10", "Econf.Props.Tie", "Econf.Props.LeafKf"]
# look-ups translated from the C source on every run (gen/c2lean.py): find_key leaves the memory the caller can see alone except *num,
# and releases its copy of the group name on every path (lean/Econf/Props/LeafKf.lean)
LEAF_FNS = ["find_key", "first_entry", "has_group"]
THEOREMS = ["Econf.C10_readonly", "Econf.C10_later_answers", "Econf.C10_later_write", "Econf.Struct.C10_frames", "Econf.Struct.api_frames",
            "LeafKf.C_find_key", "LeafKf.C_first_entry", "LeafKf.C_has_group"]
RULE = ("random configurations (parsed and built, with mixed-case, boolean-like and non-boolean values) x random sequences of 1..40 "
        "read-only calls (listings, typed/defaulted/extended getters incl. failing ones, path/tag queries, writes, use as merge input); "
        "the full dump (entries, comments, line numbers, public view, written bytes) before and after must be identical; "
        "distinct by scenario text")


def scenarios(tier, rng):
    n = 1500 if tier == "quick" else 40000
    return [gen_ops.readonly_scenario("q%d" % i, rng, rng.randint(0, 12), rng.randint(1, 40)) for i in range(n)]


def split_dumps(lines):
    """the two full dumps: from 'raw ' up to and including the 'bytes' line"""
    dumps = []
    cur = None
    for l in lines:
        if l.startswith("raw ") and cur is None:
            cur = []
        if cur is not None:
            cur.append(l)
            if l.startswith("bytes "):
                dumps.append(cur)
                cur = None
    return dumps


def oracle(s, lines):
    if "q_first" not in s.meta:
        return None
    # locate the dumps: the first starts at the first 'raw' line, the last ends at the last 'bytes' line
    # (a full dump is RAW, RAWL, DUMPX, W: it starts at the 'raw' line in front of a 'rawl' line)
    idx = []
    for i, l in enumerate(lines):
        if l.startswith("rawl "):
            j = i - 1
            while j >= 0 and not lines[j].startswith("raw "):
                j -= 1
            idx.append(j)
    if len(idx) < 2 or idx[0] < 0:
        return "dumps missing"
    first_start = idx[0]
    # first dump ends with its bytes line
    first_end = next(i for i in range(first_start, len(lines)) if lines[i].startswith("bytes ")) + 1
    last_start = idx[-1]
    a = lines[first_start:first_end]
    b = lines[last_start:last_start + len(a)]
    if a != b:
        for x, y in zip(a, b):
            if x != y:
                return "a read-only call sequence changed the object: %r became %r" % (x, y)
        return "a read-only call sequence changed the object (dump length)"
    return None


def nontrivial(s, lines):
    if "q_first" not in s.meta:
        return None
    return tuple(s.lines)


def histogram(s, lines):
    if "start" not in s.meta:
        return ["corpus"]
    ks = ["start_%d" % s.meta["start"]]
    for l in s.lines[s.meta["q_first"]:s.meta["q_last"]]:
        t = l.split(" ")
        ks.append("q_" + t[0] + ("_" + t[2] if t[0] in ("GET", "GETD") else ""))
    return ks
