"""C05 - a commented-out line is inert whatever it contains."""
from vlib import gen_doc
from vlib.scn import Scenario, h
from checks import docs
from checks.outparse import parse_raws, parse_views

ID = "C05"
LEAN_MODULES = ["Econf.Props.C05"]
THEOREMS = ["Econf.C05_step_inert", "Econf.C05_blank_inert", "Econf.C05_lines_inert", "Econf.C05_insert_comments"]
RULE = ("conventional single-line-value documents x random insertion points x comment-line texts over the printable alphabet with "
        "comment characters, delimiters, quotes and brackets over-represented, with and without indentation, the comment sets {#, ;, #;, default} and longer ones (4, 9, 11 characters with the usual ones last; sets without # or without ;; a character named twice); the file "
        "is read with and without the inserted lines (a fifth of the documents in python style, through an object created with PYTHON_STYLE=1 and the layered read) and the two results are compared; plus long files in which small comment blocks add up to 8 KiB ... 140 KiB (1 MiB thorough) (in a third of the scenarios after an earlier read with other comment characters in the same process); distinct by (document, inserted lines)")

NASTY = [b"old=1 # disabled", b"# heading", b" c", b"[section]", b"[broken", b"key value", b"k=v", b'"quoted', b"=", b"]", b"a=b # c ; d",
         b"", b" ", b"\t[x] y", b"#", b";", b"#;#;", b'k="v" # t']


LONG_SETS = [b"#;!%", b"!%/*|~^;#", b"!%/*|~^&@;#", b"##", b";#;"]
# sets without the usual characters, or with only one of them
OTHER_SETS = [b"%", b"#%", b"!", b"!#", b"%;"]


def comment_text(rng, g):
    r = rng.random()
    if r < 0.5:
        return rng.choice(NASTY)
    pool = b"#;=: \t[]\"'abK01_" + g.comment + g.delim
    return bytes(rng.choice(pool) for _ in range(rng.randint(0, 12)))


def make(rng, sid):
    delim = rng.choice(docs.DELIMS)
    # besides the usual one- and two-character sets: long sets (the usual characters last), sets naming a character twice
    comment = rng.choice(docs.COMMENTS + docs.COMMENTS + LONG_SETS + OTHER_SETS)
    g = gen_doc.Gen(rng, delim, comment, single_line=True)
    items = g.document(rng.choice([2, 6, 12, 25]))
    # a fifth of the documents are read in python style (PYTHON_STYLE=1: indentation continues a value); there every entry and
    # header starts in column 0, so that the only indented lines are inserted comment lines
    python = comment != b"" and rng.random() < 0.2
    if python:
        # (python style takes a comment behind a header for text after the section name)
        items = [it for it in items if not (it["kind"] == "section" and it.get("tc") is not None)]
        for it in items:
            if it["kind"] in ("entry", "section"):
                it["lines"] = [it["lines"][0].lstrip(b" \t\x0b\x0c\r")] + it["lines"][1:]
    # inserted comment lines
    ins = []
    for _ in range(rng.randint(1, 4)):
        pos = rng.randint(0, len(items))
        ins.append((pos, g.comment_item(comment_text(rng, g))))
    with_c = list(items)
    for pos, it in sorted(ins, key=lambda x: -x[0]):
        with_c.insert(pos, it)
    a = gen_doc.render(items)
    b = gen_doc.render(with_c)
    s = Scenario(sid, {"a": a, "b": b, "delim": delim, "comment": comment, "cls": g.cls, "inserted": [it["lines"][0] for _, it in ins],
                       "items": items, "with_c": with_c, "python": python})
    if python:
        # the option needs an object created with it and the layered read: <dir>/<project>/<name>.<suffix>
        s.file(b"/etc/pa/doc.conf", a)
        s.file(b"/etc/pb/doc.conf", b)
        for slot, prj in ((0, b"pa"), (1, b"pb")):
            s.add("NEW", slot, "opt", h(b"PYTHON_STYLE=1"))
            s.add("RC", slot, h(prj), h(b"/usr/etc"), h(b"doc"), h(b"conf"), h(delim), h(comment))
        s.add("RAW", 0); s.add("DUMP", 0)
        s.add("RAW", 1); s.add("DUMP", 1)
        s.add("FREE", 0); s.add("FREE", 1)
        return s
    s.file(b"/a.conf", a)
    s.file(b"/b.conf", b)
    if rng.random() < 0.3:
        # an earlier read in the same process with other comment and delimiter characters (handed over in the same buffers)
        pc = rng.choice([c for c in docs.COMMENTS + [b"!", b"%#"] if c != comment])
        s.file(b"/prior.conf", rng.choice([b"x=1\n! note\n", b"# c\nk v\n", b"; c\n[s]\nk=v ; t\n"]))
        s.add("RF", 20, h(b"/prior.conf"), h(rng.choice([b"=", b" ", b":"])), h(pc))
        s.add("FREE", 20)
        s.meta["prior"] = True
    s.add("RF", 0, h(b"/a.conf"), h(delim), h(comment))
    s.add("RF", 1, h(b"/b.conf"), h(delim), h(comment))
    s.add("RAW", 0); s.add("DUMP", 0)
    s.add("RAW", 1); s.add("DUMP", 1)
    s.add("FREE", 0); s.add("FREE", 1)
    return s


def make_bulk(rng, sid, total):
    """a long file in which the inserted comment lines add up to `total` bytes (each block of them is small)"""
    delim, comment = rng.choice([b"=", b" =", b":="]), rng.choice([b"#", b";", b"#;"])
    plain, commented, inserted = [], [], []
    per = 330
    n = max(3, total // per)
    for i in range(n):
        if i % (n // 3 + 1) == 0:
            hdr = b"[sec%d]" % (i // (n // 3 + 1))
            plain.append(hdr); commented.append(hdr)
        block = []
        size = 0
        while size < per:
            text = rng.choice(NASTY) + b" " + bytes(rng.choice(b"abK01_ =[]\"") for _ in range(rng.randint(10, 60)))
            ln = rng.choice([b"", b"  ", b"\t"]) + bytes([rng.choice(comment)]) + text
            block.append(ln); size += len(ln) + 1
        inserted += block
        commented += block
        ent = b"key%d" % i + delim[-1:] + b"value%d" % i
        plain.append(ent); commented.append(ent)
    a = b"\n".join(plain) + b"\n"
    b = b"\n".join(commented) + b"\n"
    s = Scenario(sid, {"a": a, "b": b, "delim": delim, "comment": comment, "cls": "bulk", "inserted": inserted[:4], "bulk": sum(len(l) + 1 for l in inserted), "python": False})
    s.file(b"/a.conf", a)
    s.file(b"/b.conf", b)
    s.add("RF", 0, h(b"/a.conf"), h(delim), h(comment))
    s.add("RF", 1, h(b"/b.conf"), h(delim), h(comment))
    s.add("RAW", 0); s.add("DUMP", 0)
    s.add("RAW", 1); s.add("DUMP", 1)
    s.add("FREE", 0); s.add("FREE", 1)
    return s


def scenarios(tier, rng):
    n = 3000 if tier == "quick" else 100000
    out = [make(rng, "c%d" % i) for i in range(n)]
    # the amount of comment text in one file: small blocks that add up to 8 KiB ... 1 MiB
    for i, total in enumerate([8192, 65536, 70000, 140000] + ([1 << 20] if tier != "quick" else [])):
        out.append(make_bulk(rng, "bulk%d" % i, total))
    return out


def oracle(s, lines):
    if "a" not in s.meta:
        return None
    rfs = ["rf" + l[2:] for l in lines if l.startswith(("rf ", "rc "))]
    if s.meta.get("prior"):
        rfs = rfs[1:]
    if len(rfs) != 2 or rfs[0] != "rf E0 obj":
        return "conventional file not read: %r" % rfs
    if rfs[1] != "rf E0 obj":
        return "inserting comment lines %r made the read fail: %s" % (s.meta["inserted"], rfs[1])
    ra, rb = parse_raws(lines)[:2]
    ka = [(e["group"], e["key"], e["value"], e["q"]) for e in ra.entries]
    kb = [(e["group"], e["key"], e["value"], e["q"]) for e in rb.entries]
    if ka != kb:
        return "inserting comment lines %r changed the entries: %r -> %r" % (s.meta["inserted"], ka, kb)
    va, vb = parse_views(lines)[:2]
    if va.groups != vb.groups:
        return "inserting comment lines changed the sections: %r -> %r" % (va.groups, vb.groups)
    if s.meta.get("python") or s.meta.get("bulk"):
        return None     # what a python-style document means is C15's subject; here: the inserted lines changed nothing
    # and both agree with the grammar's expectation
    sections, entries = gen_doc.expected(s.meta["items"])
    want = [(e["group"], e["key"], e["value"], e["q"]) for e in entries]
    if ka != want:
        return "entries %r differ from the document %r" % (ka, want)
    return None


def nontrivial(s, lines):
    if "a" not in s.meta:
        return None
    return (s.meta["a"], tuple(s.meta["inserted"]), s.meta["delim"], s.meta["comment"])


def histogram(s, lines):
    if "a" not in s.meta:
        return ["corpus"]
    ks = ["class_" + s.meta["cls"], "comment_set_" + s.meta["comment"].decode()] + (["python_style"] if s.meta.get("python") else [])
    if s.meta.get("bulk"):
        return ks + ["inserted_total_%dKiB" % (s.meta["bulk"] // 1024)]
    for l in s.meta["inserted"]:
        ks.append("inserted_indented" if l[:1] in b" \t\x0b\x0c\r" and l[:1] else "inserted_at_col0")
        body = l.lstrip(b" \t\x0b\x0c\r")[1:]
        if any(c in body for c in s.meta["comment"]):
            ks.append("inserted_contains_comment_char")
        if any(c in body for c in b"=:"):
            ks.append("inserted_contains_delimiter")
        if b"[" in body or b"]" in body:
            ks.append("inserted_contains_bracket")
        if b'"' in body:
            ks.append("inserted_contains_quote")
    return ks
