"""C11 - the set/get/list API behaves as an ordered map from (section, key) to text."""
from vlib import gen_ops
from vlib.scn import unh
from checks.outparse import NONE
from gen import extract_facts
generate_facts = extract_facts.generate

ID = "C11"
LEAN_MODULES = ["Econf.Props.C11", "Econf.Props.Tie", "Econf.Props.Leaf", "Econf.Props.LeafKf", "Econf.Props.LeafGetters", "Econf.Props.LeafGetKeys"]
THEOREMS = ["Econf.C11_set", "Econf.C11_get", "Econf.C11_keys", "Econf.C11_groups", "Econf.C11_refused", "Econf.C11_brackets",
            "Econf.C11_get_set_same", "Econf.C11_get_set_other", "Econf.C11_keys_set", "Econf.C11_default", "Econf.C11_step",
            "Econf.C11_refines", "Econf.C11_fresh", "Econf.Struct.tie_macros", "Econf.Struct.api_frames",
            "Leaf.C_stripbrackets", "Leaf.stripSpec_eq",
            "LeafKf.C_find_key", "LeafKf.find_key_exec", "LeafKf.fkCode_model", "LeafKf.find_key_shape", "LeafKf.getFromGroupList_exec", "LeafKf.C_first_entry",
            "LeafKf.econf_getGroups_shape", "LeafKf.C_econf_getGroups", "LeafKf.C_econf_getGroups_model", "LeafKf.C_econf_getGroups_nogroup",
            "LeafKf.C_econf_getGroups_null_kf", "LeafKf.C_econf_getGroups_null_groups", "LeafKf.Example.run_getGroups",
            # econf_getKeys on its generated term: the two zeroing loops, the marking and the copying loop, the whole function, its exits, the model
            "LeafKf.econf_getKeys_shape", "LeafKf.zero_bytes_loop", "LeafKf.zero_words_loop", "LeafKf.mark_loop", "LeafKf.copy_loop", "LeafKf.gk_prefix",
            "LeafKf.C_econf_getKeys", "LeafKf.C_econf_getKeys_nokey", "LeafKf.C_econf_getKeys_null_kf", "LeafKf.getKeys_model",
            "LeafKf.C_econf_getKeys_model", "LeafKf.C_econf_getKeys_nokey_model", "LeafKf.Example.run_getKeys", "LeafKf.Example.run_getKeys_nokey"]
# string helpers translated from the C source on every run (gen/c2lean.py); theorems in lean/Econf/Props/Leaf.lean
LEAF_FNS = ["stripbrackets", "find_key", "getFromGroupList", "getGroups", "getKeys"]
RULE = ("random sequences of create/set/get/get-with-default/list operations (1..60, thorough ..300) over a small universe of sections "
        "and keys incl. bracketed, empty and NULL ones and keys with blanks at either end, starting from econf_newKeyFile, econf_newIniFile, "
        "econf_newKeyFile_with_options, parsed files (with and without group-less keys, with key-less sections) and merged objects; every output is compared with a reference ordered map; distinct by op sequence")


def norm_group(g):
    if g is None or g == b"":
        return NONE
    if g[:1] == b"[" and g[-1:] == b"]":
        g = g[1:].split(b"]")[0]
        return g if g else NONE
    return g


def typed_text(ty, tok):
    """the text a typed setter stores; None = refused (wrong boolean)"""
    if ty == "str":
        v = unh(tok)
        return b"" if v is None else v
    if ty == "bool":
        v = unh(tok)
        if v is None:
            return NONE
        l = v.lower()
        if l in (b"1", b"yes", b"true"):
            return b"true"
        if l in (b"0", b"no", b"false"):
            return b"false"
        if l == NONE or v == b"":
            return NONE
        return None
    return tok.encode()


class RefMap:
    """reference: insertion-ordered association list + section list"""

    def __init__(self):
        self.items = []      # [ [group, key, text or None] ]
        self.sections = []   # registered names, NONE included
        self.valid = True

    def find(self, g, k):
        for it in self.items:
            if it[0] == g and it[1] == k:
                return it
        return None


def load_parsed(ref, content):
    cur = NONE
    for ln in content.split(b"\n"):
        ln = ln.strip()
        if not ln or ln[:1] == b"#":
            continue
        if ln[:1] == b"[":
            cur = ln[1:-1]
            if cur not in ref.sections:
                ref.sections.append(cur)
        else:
            return False
    return True


def oracle(s, lines):
    """replays the scenario on the reference map; only scenarios starting from a constructor are replayed in full,
    parsed starts take the implementation's first RAW-free listing as the initial state"""
    ref = None
    out = iter(lines)
    for cmd in s.lines:
        t = cmd.split(" ")
        c = t[0]
        if c in ("F", "D"):
            continue
        try:
            if c == "NEW":
                res = next(out)
                ref = RefMap()
                if t[2] in ("key", "ini"):
                    ref.sections.append(NONE)
                continue
            if c in ("RF", "M", "RD") and ref is None:
                next(out)
                continue      # parsed / merged start: the reference map starts from the object's own first dump (below)
            if c == "FREE" and ref is None:
                next(out)
                continue
            if c == "RAW" and ref is None:
                head = next(out).split(" ")
                if head[1] == "null":
                    return None
                n = int(head[1].split("=")[1])
                ng = int(head[2].split("=")[1])
                ref = RefMap()
                ref.sections = [unh(x) for x in head[3:3 + ng]]
                for _ in range(n):
                    e = next(out).split(" ")
                    ref.items.append([unh(e[1]), unh(e[2]), unh(e[3])])
                continue
            if ref is None:
                return None
            if c == "SET":
                res = next(out)
                g, k = unh(t[3]), unh(t[4])
                if k is None or k == b"":
                    want = "set E6"
                else:
                    g = norm_group(g)
                    txt = typed_text(t[2], t[5])
                    it = ref.find(g, k)
                    if it is None:
                        it = [g, k, NONE]
                        ref.items.append(it)
                        for x in (NONE, g):
                            if x not in ref.sections:
                                ref.sections.append(x)
                    if txt is None:
                        want = "set E14"
                    else:
                        it[2] = txt
                        want = "set E0"
                if res != want:
                    return "%s -> %r, reference map says %r" % (cmd, res, want)
            elif c in ("GET", "GETD"):
                res = next(out)
                g, k = unh(t[3]), unh(t[4])
                ty = t[2]
                if ty != "str":
                    continue       # typed interpretation of the text is C09's subject
                if k is None or k == b"":
                    want = "get E1 "
                else:
                    it = ref.find(norm_group(g), k)
                    if it is not None:
                        want = "get E0 " + ("~" if it[2] is None else "h" + it[2].hex())
                    elif c == "GETD":
                        want = "get E5 " + ("~" if t[5] == "-" else t[5])
                    else:
                        want = "get E5 "
                if res != want:
                    return "%s -> %r, reference map says %r" % (cmd, res, want)
            elif c == "GROUPS":
                res = next(out)
                if not ref.sections:
                    want = "groups E4"
                else:
                    want = "groups E0" + "".join(" h" + x.hex() for x in ref.sections if x != NONE)
                if res != want:
                    return "%s -> %r, reference map says %r" % (cmd, res, want)
            elif c == "KEYS":
                res = next(out)
                g = unh(t[2])
                g = NONE if (g is None or g == b"") else g
                ks = []
                # (a parsed start can hold more than one definition of a key: the listing shows the definitions in file order
                #  - C02 -, look-ups see the first one; entries made by the setters are never duplicates)
                for it in ref.items:
                    if it[0] == g:
                        ks.append(it[1])
                want = "keys E0" + "".join(" h" + x.hex() for x in ks) if ks else "keys E5"
                if res != want:
                    return "%s -> %r, reference map says %r" % (cmd, res, want)
            elif c in ("EXT", "PATH", "TAGS", "FREE", "M", "RF", "RD"):
                next(out)
            elif c == "W":
                if next(out) == "w E0":
                    next(out)
            elif c in ("RAW", "DUMP"):
                return None
        except StopIteration:
            return "output ended early at %r" % cmd
    return None


def scenarios(tier, rng):
    n, mx = (1500, 60) if tier == "quick" else (30000, 300)
    return [gen_ops.ops_scenario("o%d" % i, rng, rng.randint(1, mx), p_set=0.55) for i in range(n)]


def nontrivial(s, lines):
    if s.meta.get("sets", 0) + s.meta.get("gets", 0) < 2:
        return None
    return tuple(s.lines)


def histogram(s, lines):
    ks = ["start_%s" % ["newKeyFile", "newIniFile", "with_options", "parsed", "merged", "readDirs", "read_with_option"][s.meta.get("start", 0)]] if "start" in s.meta else ["corpus"]
    nset = sum(1 for l in lines if l == "set E0")
    ks.append("growth_beyond_8" if nset > 8 else "within_8")
    for l in lines:
        if l.startswith("set E6"):
            ks.append("set_refused_emptykey")
        elif l.startswith("get E5"):
            ks.append("lookup_miss")
        elif l.startswith("get E0"):
            ks.append("lookup_hit")
    return ks
