"""Parsing of harness / model output lines into Python values."""
from vlib.scn import unh

NONE = b"_none_"


class Raw:
    def __init__(self):
        self.null = False
        self.groups = []
        self.path = None
        self.delim = 0
        self.comment = 0
        self.entries = []    # dicts group,key,value,cb,ca,q

    def keyseq(self):
        return [(e["group"], e["key"]) for e in self.entries]

    def lookup(self, g, k):
        for e in self.entries:
            if e["group"] == g and e["key"] == k:
                return e
        return None

    def sig(self):
        return (tuple(self.groups), self.path, self.delim, self.comment,
                tuple((e["group"], e["key"], e["value"], e["cb"], e["ca"], e["q"]) for e in self.entries))


def parse_raws(lines):
    """all RAW blocks of an output, in order"""
    out = []
    cur = None
    for ln in lines:
        t = ln.split(" ")
        if t[0] == "raw":
            cur = Raw()
            out.append(cur)
            if t[1] == "null":
                cur.null = True
                cur = None
                continue
            # raw len=N groups=G <groups...> path=.. d=.. c=..
            ng = int(t[2].split("=")[1])
            cur.groups = [unh(x) for x in t[3:3 + ng]]
            rest = t[3 + ng:]
            cur.path = unh(rest[0].split("=", 1)[1])
            cur.delim = int(rest[1].split("=")[1], 16)
            cur.comment = int(rest[2].split("=")[1], 16)
        elif t[0] == "e" and cur is not None:
            cur.entries.append({"group": unh(t[1]), "key": unh(t[2]), "value": unh(t[3]), "cb": unh(t[4]), "ca": unh(t[5]),
                                "q": int(t[6].split("=")[1])})
        elif t[0] not in ("e",):
            cur = None
    return out


def parse_rawl(lines):
    out = []
    cur = None
    for ln in lines:
        t = ln.split(" ")
        if t[0] == "rawl":
            cur = []
            out.append(cur)
            if t[1] == "null":
                cur = None
        elif t[0] == "l" and cur is not None:
            cur.append(int(t[1]))
        else:
            cur = None
    return out


class View:
    def __init__(self):
        self.null = False
        self.gerr = 0
        self.groups = []
        self.keys = {}     # group(None for group-less) -> (err, [keys])
        self.vals = {}     # (group, idx) -> (key, err, value)
        self.ext = {}      # (group, idx) -> dict

    def sig(self):
        return (self.gerr, tuple(self.groups), tuple(sorted((str(k), v[0], tuple(v[1])) for k, v in self.keys.items())),
                tuple(sorted((str(k), v) for k, v in self.vals.items())))


def parse_ext(t):
    d = {"err": int(t[1][1:])}
    if d["err"] == 0:
        d["file"] = unh(t[2].split("=", 1)[1])
        d["line"] = int(t[3].split("=")[1])
        d["cb"] = unh(t[4].split("=", 1)[1])
        d["ca"] = unh(t[5].split("=", 1)[1])
        d["vals"] = [unh(x) for x in t[7:]]
    return d


def parse_views(lines):
    out = []
    cur = None
    g = None
    idx = 0
    for ln in lines:
        t = ln.split(" ")
        if t[0] == "view":
            cur = View()
            out.append(cur)
            if t[1] == "null":
                cur.null = True
                cur = None
                continue
            cur.gerr = int(t[2][1:])
            cur.groups = [unh(x) for x in t[3:]]
        elif cur is None:
            continue
        elif t[0] == "keys" and len(t) >= 3 and (t[1] == "~" or t[1].startswith("h")) and t[2].startswith("E"):
            g = unh(t[1])
            cur.keys[g] = (int(t[2][1:]), [unh(x) for x in t[3:]])
            idx = 0
        elif t[0] == "val":
            err = int(t[2][1:])
            cur.vals[(g, idx)] = (unh(t[1]), err, unh(t[3]) if err == 0 else None)
            idx += 1
        elif t[0] == "ext":
            cur.ext[(g, idx - 1)] = parse_ext(t)
        else:
            cur = None
    return out


def txt(v):
    return b"" if v is None else v


def is_subseq(a, b):
    it = iter(b)
    return all(any(x == y for y in it) for x in a)
