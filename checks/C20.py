"""C20 - every allocation is released exactly once on every path, failures included."""
from vlib import gen_tree, gen_ops
from vlib.scn import Scenario, h
from checks import trees

ID = "C20"
LEAN_MODULES = ["Econf.Props.C20", "Econf.Props.LeafKf"]
# look-ups translated from the C source on every run (gen/c2lean.py): find_key leaves the memory the caller can see alone except *num,
# and releases its copy of the group name on every path (lean/Econf/Props/LeafKf.lean)
LEAF_FNS = ["find_key", "first_entry", "has_group"]
THEOREMS = ["Econf.C20_readFile_out", "Econf.C20_readConfig_out", "Econf.C20_history_out", "Econf.C20_merge_out",
            "Econf.C20_readConfig_ledger", "Econf.C20_readDirs_ledger", "Econf.C20_readFile_ledger", "Econf.C20_history_ledger",
            "Econf.C20_readConfig_fresh", "Econf.C20_readConfig_no_leak", "Econf.C20_own_refines",
            "LeafKf.C_find_key"]
SHRINK = False
RULE = ("API call sequences of C11 and layered reads of C01/C06/C13/C16 with a failure injected at each consulted file in turn "
        "(callback rejection, foreign owner, malformed line, vanished file = dangling link, file removed by the callback while an earlier file is checked) and unknown options and option values at the edge of their syntax (empty lists, empty elements, empty prefix), through all read entry "
        "points; after the caller has freed the valid handles the allocator's live-byte count (ASan) must be back at its mark; ASan "
        "reports double frees and use after free; out-pointers must be NULL, untouched or usable; the object events reported by the library "
        "(creation / release of every econf_file) must form a correct ledger (fresh ids, no release of a dead object) with nothing alive at the end, "
        "and must equal the ownership model's event sequence (interleaved with callback calls); "
        "non-trivial = the scenario performed at least one allocation-carrying call; distinct by scenario text")
ASSUMPTIONS = ["leaks are measured as the difference of __sanitizer_get_current_allocated_bytes() between MARK and LEAK",
               "econf_file objects are observed through the guarded hook econf_verif_object_hook (lib/libeconf.c): the three creation sites "
               "(econf_newKeyFile, econf_newKeyFile_with_options, econf_mergeFiles) and econf_freeFile; the ledger theorems speak about the "
               "ownership model lean/Econf/Own.lean, whose event sequence is compared line by line with the library's on every scenario"]


def ops(rng, sid):
    s = Scenario(sid, {"kind": "ops"})
    s.mkdir(b"/out")
    s.add("OBJLOG", 1)
    s.add("MARK")
    gen_ops.start(s, rng)
    for _ in range(rng.randint(1, 40)):
        if rng.random() < 0.5:
            gen_ops.set_op(s, rng, 0)
        else:
            gen_ops.query_op(s, rng, 0)
    if rng.random() < 0.3:
        s.add("NEW", 1, "opt", h(rng.choice([b"FOO=1", b"JOIN_SAME_ENTRIES=1;BAR", b"PARSING_DIRS=/a:/b;CONFIG_DIRS=x;NOPE", b"ROOT_PREFIX=/r;ROOT_PREFIX=/s"])))
        s.add("SLOT", 1)
        s.add("FREE", 1)
    s.add("FREE", 0)
    s.add("FREENULL")
    s.add("LEAK")
    return s


ODD_OPTIONS = [b"PARSING_DIRS=", b"PARSING_DIRS=:", b"PARSING_DIRS=:/etc", b"PARSING_DIRS=/usr/etc::/etc", b"PARSING_DIRS=/usr/etc:", b"CONFIG_DIRS=",
               b"CONFIG_DIRS=:", b"ROOT_PREFIX=", b"PARSING_DIRS=;JOIN_SAME_ENTRIES=1", b"ROOT_PREFIX=;PARSING_DIRS=:", b"CONFIG_DIRS=.d:;PARSING_DIRS=/etc"]


def inject(rng, sid):
    shape = rng.choice(["project", "noproject", "readdirs", "parsingdirs", "configdirs", "dropinonly", "rootprefix"])
    p = gen_tree.shape_params(rng, shape)
    tg = gen_tree.Tagger()
    t = gen_tree.random_tree(rng, p["dirs"], p["name"], p["dsfx"], p["postfixes"], tg, decoys=p["decoys"])
    tv = trees.TreeView(t)
    main, drops = trees.consulted(tv, p["dirs"], p["name"], p["dsfx"], p["postfixes"])
    files = ([main] if main else []) + drops
    real = [f for f in files if tv.get(f) and tv.get(f)[0] != "dir"]
    fault = rng.choice(["none", "callback", "owner", "malformed", "vanished", "callback", "unlinked"])
    cb = None
    pre = []
    impl_only = False
    if fault == "unlinked":
        # a consulted file disappears between the directory listing and the moment it is looked at: the check callback
        # removes it while an earlier file is being checked (the model has no file system that changes during a read:
        # judged by the ledger of the library's own object events and the live-byte count)
        later = [f for f in real[1:]]
        if later:
            cb = "cb:rm:0:" + h(rng.choice(later))
            impl_only = True
        else:
            fault = "none"
    if fault == "callback":
        cb = "cb:rej:%d" % rng.randint(0, max(len(files), 1))
    elif fault != "none" and real:
        victim = rng.choice(real)
        for i, f in enumerate(t.files):
            if trees.norm(f[0]) == trees.norm(victim):
                if fault == "owner":
                    t.files[i] = (f[0], f[1], f[2], 4242, 0)
                    pre.append(("G", "owner", 0))
                elif fault == "malformed":
                    t.files[i] = (f[0], "file", (f[2] if f[1] == "file" else b"") + b"[broken\n", f[3], f[4])
                else:
                    t.files[i] = (f[0], "link", b"/nonexistent/target", None, None)
    odd = None
    if p["call"][0] == "RC" and rng.random() < 0.15:
        # option values at the edge of their syntax on the caller's object: empty lists, empty elements, an empty prefix
        odd = rng.choice(ODD_OPTIONS)
        p["slot_pre"] = odd
    entry = None
    if p["call"][0] == "RD" and rng.random() < 0.4:
        entry = "RH"
    s = Scenario(sid, {"kind": "inject", "fault": fault, "entry": entry or p["call"][0], "shape": shape, "nfiles": len(files)})
    if impl_only:
        s.meta["impl_only"] = True
    if odd is not None:
        s.meta["odd_options"] = True
    t.emit(s)
    if p["global_confdirs"] is not None:
        p["global_confdirs"] = None      # the process-wide list stays allocated by design
    s.add("OBJLOG", 1)
    s.add("MARK")
    for c in pre:
        s.add(*c)
    twice = entry is None and p["call"][0] == "RC" and rng.random() < 0.25
    if twice:
        # the read is made twice through one handle of the caller's (whatever the first one did - succeed, or fail in any of the
        # injected ways - nothing may remain after the handle is released)
        if p["slot_pre"] is None:
            p["slot_pre"] = b""
        s.meta["twice"] = True
        s.meta["impl_only"] = True
    gen_tree.emit_read(s, p, 0, cb=cb, entry=entry)
    if twice:
        s.lines.append(s.lines[-1])
    if entry == "RH":
        for i in range(0, len(files) + 1):
            s.add("RAW", i)
        for i in range(0, len(files) + 1):
            s.add("FREE", i)
    else:
        s.add("RAW", 0)
        s.add("DUMPX", 0)
        s.add("FREE", 0)
    s.add("G", "reset")
    s.add("LEAK")
    return s


def confdirs_seq(rng, sid):
    """the process-wide drop-in list set several times in a row (longer, shorter, empty lists), with layered reads in between;
    the list itself stays allocated by design, so this kind is judged by ASan (double free, use after free) and by the
    comparison with the model, not by the live-byte count"""
    s = Scenario(sid, {"kind": "confdirs"})
    s.file(b"/usr/etc/cfg.conf", b"k=1\n")
    s.file(b"/etc/cfg.conf.d/a.conf", b"k=2\n")
    s.file(b"/etc/cfg/conf.d/b.conf", b"j=3\n")
    s.add("OBJLOG", 1)
    for _ in range(rng.randint(2, 6)):
        lst = rng.choice([[], [], [b".d"], [b"/conf.d", b".conf.d"], [b".d", b"/conf.d", b".x"]])
        s.add("G", "confdirs", *[h(x) for x in lst])
        if rng.random() < 0.6:
            s.add("RD", 0, h(b"/usr/etc"), h(b"/etc"), h(b"cfg"), h(b"conf"), h(b"="), h(b"#"))
            s.add("RAW", 0)
            s.add("FREE", 0)
    return s


def scenarios(tier, rng):
    n = 1500 if tier == "quick" else 40000
    out = [ops(rng, "a%d" % i) for i in range(n)] + [inject(rng, "i%d" % i) for i in range(n)]
    out += [confdirs_seq(rng, "d%d" % i) for i in range(n // 10)]
    s = Scenario("freenull", {"kind": "freenull"})
    s.add("MARK"); s.add("FREENULL"); s.add("LEAK")
    out.append(s)
    return out


def ledger(lines):
    """replays the object events the library reported (hook econf_verif_object_hook): ids are fresh, nothing is released
    twice or before it exists; returns (message or None, set of live ids)"""
    live = set()
    seen = set()
    for l in lines:
        if not l.startswith("obj "):
            continue
        _, ev, i = l.split()
        if ev in ("new", "merged"):
            if i in seen:
                return "object id %s created twice" % i, live
            seen.add(i)
            live.add(i)
        elif ev == "free":
            if i not in live:
                return ("object %s released twice" % i) if i in seen else "release of an object that was never created (%s)" % i, live
            live.discard(i)
    return None, live


def oracle(s, lines):
    if "kind" not in s.meta:
        return None
    msg, live = ledger(lines)
    if msg:
        return msg
    if live and s.meta["kind"] != "keep":
        return "econf_file objects %s are still alive after the caller released every handle it was given (fault: %s, entry %s)" % (
            sorted(live), s.meta.get("fault"), s.meta.get("entry"))
    if s.meta["kind"] == "confdirs":
        return None
    leak = [l for l in lines if l.startswith("leak ")]
    if not leak:
        return "no leak measurement"
    if leak[-1] != "leak 0":
        return "memory allocated by the library remains after all handles were freed (fault: %s, entry %s)" % (s.meta.get("fault"), s.meta.get("entry"))
    if any(l.startswith("freenull") and l != "freenull null null" for l in lines):
        return "a free function given NULL did not return NULL"
    for l in lines:
        if l.startswith("rh E") and not l.startswith("rh E0") and l.split()[2] == "obj":
            return "history pointer is neither NULL nor untouched after a failed read: %r" % l
    return None


def nontrivial(s, lines):
    return tuple(s.lines) if "kind" in s.meta and len(lines) > 2 else None


def histogram(s, lines):
    m = s.meta
    nev = sum(1 for l in lines if l.startswith("obj "))
    evk = "object_events_%s" % ("0" if nev == 0 else "1-2" if nev <= 2 else "3-6" if nev <= 6 else "7-14" if nev <= 14 else "15+")
    if m.get("kind") == "inject":
        res = next((l for l in lines if l.startswith(("rc ", "rd ", "rh "))), "x x")
        return ["inject_" + m["fault"], "entry_" + m["entry"], "result_" + res.split()[1], evk] + (["options_at_the_edge_of_their_syntax"] if m.get("odd_options") else [])
    return ["kind_" + m.get("kind", "corpus"), evk]
