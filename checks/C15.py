"""C15 - parsing options do what they say: JOIN_SAME_ENTRIES, PYTHON_STYLE, unknown options."""
from vlib import gen_doc
from vlib.scn import Scenario, h
from checks import docs
from checks.outparse import parse_raws, parse_views
from gen import extract_facts
generate_facts = extract_facts.generate

ID = "C15"
LEAN_MODULES = ["Econf.Props.C15", "Econf.Props.Tie"]
THEOREMS = ["Econf.C15_options", "Econf.C15_unknown", "Econf.C15_unknown_string", "Econf.applyOption_item", "Econf.C15_join_step", "Econf.C15_join_entry", "Econf.C15_join_value", "Econf.C15_join_since_empty", "Econf.C15_join_concat", "Econf.C15_join_spec", "Econf.C15_no_join", "Econf.C15_python_continues", "Econf.C15_python_append", "Econf.Struct.tie_option_names"]
RULE = ("join documents (repeated keys, empty definitions, multi-line definitions), python-style documents (indented continuation lines "
        "containing delimiters and comment characters), a quarter of both kinds ending without a line break, a fifth of both kinds read from the vendor layer behind a dangling link of the same name in a higher layer, and option strings built from the documented items in every order, repeated, "
        "and with unknown or misspelt names; distinct by (content or option string, sets)")
PATH = b"/etc/app/doc.conf"
SHRINK = False
BL = b" \t\x0b\x0c\r"


def strip_empty_ends(lst):
    lst = list(lst)
    while lst and lst[0] == b"":
        lst.pop(0)
    while lst and lst[-1] == b"":
        lst.pop()
    return lst


def maybe_fallback(s, rng, content):
    """a fifth of the documents live in the vendor layer while a higher layer holds the name as a symbolic link that leads nowhere
    (it exists, it cannot be opened): the vendor file is the one that is read, and the options of the object apply to it"""
    if rng.random() < 0.2:
        assert s.lines[0].startswith("F ")
        s.lines[0] = "F %s %s" % (h(b"/usr/etc/app/doc.conf"), h(content))
        s.lines.insert(1, "L %s %s" % (h(rng.choice([PATH, b"/run/app/doc.conf"])), h(b"/nonexistent/gone.conf")))
        s.meta["fallback"] = True
    return s


def join_make(rng, sid, hist):
    delim = rng.choice([b"=", b":=", b":"])
    comment = rng.choice(docs.COMMENTS)
    g = gen_doc.Gen(rng, delim, comment, hist=hist)
    items = []
    keys = [g.key() for _ in range(rng.randint(1, 3))]
    secnames = []
    for _ in range(rng.randint(1, 14)):
        r = rng.random()
        if r < 0.1:
            items.append(g.comment_item())
        elif r < 0.18:
            items.append(g.blank_item())
        elif r < 0.34:
            # few section names, so that sections are re-opened behind entries of another section (the join is per
            # (section, key) over the whole file, not per block)
            it = g.section_item()
            if secnames and rng.random() < 0.75:
                nm = rng.choice(secnames)
                it = dict(it, lines=[b"[" + nm + b"]"], name=nm, tc=None)
            elif it["tc"] is None and len(secnames) < 2:
                secnames.append(it["name"])
            items.append(it)
        else:
            it = g.entry_item(rng.choice(keys))
            # no value whose text starts with a quote (it would be one item for the extended getter)
            v = it["value"]
            if v is not None and v.lstrip(BL)[:1] == b'"':
                continue
            if rng.random() < 0.2:       # empty definition
                it = dict(it, lines=[it["key"] + delim[:1] + g.blanks(0, 2)], value=None, cont=[], tc=None, quotes=False)
                it["value"] = None if it["lines"][0].endswith(delim[:1]) else b""
            items.append(it)
    # a quarter of the files end without a line break (the last line may then be a continuation line)
    content = gen_doc.render(items, final_newline=rng.random() >= 0.25)
    # the flag alone, or next to other documented items in either order (the object then carries its own drop-in postfixes)
    opt = rng.choice([b"JOIN_SAME_ENTRIES=1", b"JOIN_SAME_ENTRIES=1", b"CONFIG_DIRS=.d;JOIN_SAME_ENTRIES=1", b"JOIN_SAME_ENTRIES=1;CONFIG_DIRS=conf.d:.d",
                      b"JOIN_SAME_ENTRIES=1;PARSING_DIRS=/usr/etc/app:/etc/app"])
    s = docs.doc_scenario(sid, content, delim, comment, {"mode": "join", "items": items, "content": content, "delim": delim, "comment": comment},
                          PATH, opt=opt)
    return maybe_fallback(s, rng, content)


def join_expected(items):
    """(group,key) -> expected value list: the definitions since the last empty one, joined by line breaks (leading blanks of an
    appended definition removed, line breaks included), as the extended getter reports that text (split into trimmed lines; a text
    that starts with a quote after trimming is one item - the rule C17 states)"""
    sections, entries = gen_doc.expected(items)
    text = {}
    order = []
    for e in entries:
        gk = (e["group"], e["key"])
        if gk not in text:
            text[gk] = None
            order.append(gk)
        if e["value"] is None or e["value"] == b"":
            text[gk] = None
        elif text[gk] is None:
            text[gk] = e["value"]
        else:
            text[gk] = text[gk] + b"\n" + e["value"].lstrip(BL + b"\n")
    out = {gk: ([] if t is None else gen_doc.ext_values(t)) for gk, t in text.items()}
    return sections, order, out


def python_make(rng, sid, hist):
    delim = rng.choice([b"=", b":=", b" ", b" \t"])
    comment = rng.choice(docs.COMMENTS)
    g = gen_doc.Gen(rng, delim, comment, hist=hist, python=True)
    items = []
    for _ in range(rng.randint(1, 10)):
        r = rng.random()
        if r < 0.12:
            items.append(g.comment_item())
        elif r < 0.2:
            items.append(g.blank_item())
        elif r < 0.3:
            it = g.section_item()
            if it["tc"] is not None:
                continue
            items.append(it)
        else:
            it = g.entry_item()
            if it.get("tc") is not None:
                continue
            it["lines"][0] = it["lines"][0].lstrip(BL)     # python entries start in column 0
            # python: a comment character after the value stays in the value
            if rng.random() < 0.3 and not it["quotes"] and it["value"]:
                extra = b" " + bytes([rng.choice(comment or b"#")]) + g.text(0, 4, b'"')
                it["lines"][0] = it["lines"][0].rstrip(BL) + extra
                it["value"] = (it["value"] + extra).rstrip(BL)
            cont = []
            for _ in range(rng.choice([0, 0, 1, 2, 3])):
                while True:
                    t = g.text(1, 10).strip(BL)
                    if t and t[:1] != b"[" and t[0] not in (comment or b"#"):
                        break
                cont.append(g.blanks(1, 3) + t + g.blanks(0, 2))
            it["lines"] = [it["lines"][0]] + cont
            it["pycont"] = cont
            items.append(it)
    content = gen_doc.render(items, final_newline=rng.random() >= 0.25)
    exp = python_expected(items)
    if rng.random() < 0.2 and len(set((g, k) for g, k, _ in exp)) == len(exp):
        # both flags on the object, the document as a drop-in behind an empty main file (no key is defined twice, so joining
        # changes nothing): the drop-in is read in python style like the main file would be
        s = Scenario(sid, {"mode": "python", "items": items, "content": content, "delim": delim, "comment": comment, "dropin_both_flags": True})
        s.file(PATH, b"")
        s.file(PATH + b".d/50-site.conf", content)
        s.add("NEW", 0, "opt", h(rng.choice([b"JOIN_SAME_ENTRIES=1;PYTHON_STYLE=1", b"PYTHON_STYLE=1;JOIN_SAME_ENTRIES=1"])))
        s.add("RC", 0, h(b"app"), h(b"/usr/etc"), h(b"doc"), h(b"conf"), h(delim), h(comment))
        s.add("RAW", 0); s.add("RAWL", 0); s.add("DUMPX", 0); s.add("ERRLOC"); s.add("FREE", 0)
        return s
    s = docs.doc_scenario(sid, content, delim, comment, {"mode": "python", "items": items, "content": content, "delim": delim, "comment": comment},
                          PATH, opt=rng.choice([b"PYTHON_STYLE=1", b"PYTHON_STYLE=1", b"CONFIG_DIRS=.d;PYTHON_STYLE=1", b"PYTHON_STYLE=1;CONFIG_DIRS=.d"]))
    return maybe_fallback(s, rng, content)


def python_expected(items):
    out = []
    cur = gen_doc.NONE
    for it in items:
        if it["kind"] == "section":
            cur = it["name"]
        elif it["kind"] == "entry":
            v = it["value"]
            for cl in it.get("pycont", []):
                v = (v or b"") + b"\n" + cl.lstrip(BL)
            out.append((cur, it["key"], v))
    return out


ITEMS = {"join": b"JOIN_SAME_ENTRIES=1", "python": b"PYTHON_STYLE=1"}
UNKNOWN = [b"FOO=1", b"join_same_entries=1", b"PYTHON_STYLE", b"JOIN_SAME_ENTRIES", b"PARSING_DIR=/a", b"ROOTPREFIX=/r",
           b"CONFIG_DIRS", b"PYTHON_STYLE=2", b"X", b" JOIN_SAME_ENTRIES=1",
           b"", b""]     # an empty item (a `;` at the end, at the start, or two in a row) is no documented item either


def option_make(rng, sid):
    parts = []
    exp = {"join": 0, "python": 0, "root": None, "pdirs": [], "cdirs": []}
    unknown_at = None
    n = rng.randint(1, 6)
    for i in range(n):
        r = rng.random()
        if r < 0.12 and unknown_at is None:
            parts.append(rng.choice(UNKNOWN))
            unknown_at = i
            if parts == [b""]:
                parts.append(ITEMS["join"])      # (the empty string as a whole is a valid option string: no items)
            break
        kind = rng.choice(["join", "python", "pdirs", "cdirs", "root"])
        if kind in ITEMS:
            parts.append(ITEMS[kind]); exp[kind] = 1
        elif kind == "pdirs":
            d = [rng.choice([b"/a", b"/usr/etc", b"/b/c", b"/etc"]) for _ in range(rng.randint(1, 4))]
            parts.append(b"PARSING_DIRS=" + b":".join(d)); exp["pdirs"] = d
        elif kind == "cdirs":
            # (an empty postfix is the plain directory <dir>/<name>/ and stays in the list)
            d = [rng.choice([b".d", b"/conf.d", b".conf.d", b"/", b""]) for _ in range(rng.randint(1, 3))]
            parts.append(b"CONFIG_DIRS=" + b":".join(d)); exp["cdirs"] = d
        else:
            d = rng.choice([b"/rt", b"/tmp/root", b"/"])
            parts.append(b"ROOT_PREFIX=" + d); exp["root"] = d
    opt = b";".join(parts)
    s = Scenario(sid, {"mode": "options", "opt": opt, "exp": exp, "unknown": unknown_at is not None, "nitems": len(parts)})
    s.add("NEW", 0, "opt", h(opt))
    s.add("OPTS", 0)
    s.add("FREE", 0)
    return s


GEN_HIST = {}


def scenarios(tier, rng):
    n = 800 if tier == "quick" else 30000
    out = [join_make(rng, "j%d" % i, GEN_HIST) for i in range(n)]
    out += [python_make(rng, "p%d" % i, GEN_HIST) for i in range(n)]
    out += [option_make(rng, "o%d" % i) for i in range(n)]
    return out


def oracle(s, lines):
    m = s.meta
    if m.get("mode") == "options":
        if m["unknown"]:
            if not lines or not lines[0].startswith("new E23"):
                return "option string %r with an unknown item: %r, expected option-not-found" % (m["opt"], lines[:1])
            return None
        if lines[0] != "new E0 obj":
            return "option string %r of documented items refused: %r" % (m["opt"], lines[0])
        e = m["exp"]
        want = "opts join=%d python=%d root=%s pdirs=%d%s cdirs=%d%s" % (
            e["join"], e["python"], "~" if e["root"] is None else h(e["root"]), len(e["pdirs"]), "".join(" " + h(x) for x in e["pdirs"]),
            len(e["cdirs"]), "".join(" " + h(x) for x in e["cdirs"]))
        if lines[1] != want:
            return "option string %r: %r, expected %r" % (m["opt"], lines[1], want)
        return None
    if m.get("mode") == "join":
        if not lines or not lines[1].startswith("rc E0 obj"):
            return "join document not read: %r" % lines[:2]
        sections, order, exp = join_expected(m["items"])
        v = parse_views(lines)[0]
        if v.groups != sections:
            return "sections %r, expected %r" % (v.groups, sections)
        for (g, k) in order:
            gv = None if g == gen_doc.NONE else g
            err, keys = v.keys.get(gv, (5, []))
            if k not in keys:
                return "key %r/%r not listed" % (g, k)
            x = v.ext.get((gv, keys.index(k)))
            if x is None or x["err"] != 0:
                return "no extended value for %r/%r" % (g, k)
            if strip_empty_ends(x["vals"]) != strip_empty_ends(exp[(g, k)]):
                return "joined value list of %r/%r is %r, expected %r" % (g, k, x["vals"], exp[(g, k)])
        return None
    if m.get("mode") == "python":
        if not lines or not lines[1].startswith("rc E0 obj"):
            return "python-style document not read: %r" % lines[:2]
        r = parse_raws(lines)[0]
        got = [(e["group"], e["key"], e["value"]) for e in r.entries]
        want = python_expected(m["items"])
        if got != want:
            return "python-style entries %r, expected %r" % (got, want)
        return None
    return None


def nontrivial(s, lines):
    m = s.meta
    if m.get("mode") == "options":
        return ("opt", m["opt"])
    if m.get("mode") in ("join", "python"):
        return (m["mode"], m["content"], m["delim"], m["comment"])
    return None


def histogram(s, lines):
    m = s.meta
    if m.get("mode") == "options":
        return ["options_unknown" if m["unknown"] else "options_documented", "options_items_%d" % m["nitems"]]
    if m.get("mode") == "join":
        ks = ["join_doc"]
        seen = set()
        cur = None
        for it in m["items"]:
            if it["kind"] == "section":
                cur = it["name"]
            if it["kind"] == "entry":
                if (cur, it["key"]) in seen:
                    ks.append("join_repeated_definition")
                seen.add((cur, it["key"]))
                if not it["value"]:
                    ks.append("join_empty_definition")
                if it["cont"]:
                    ks.append("join_multiline_definition")
        if m["content"] and not m["content"].endswith(b"\n"):
            ks.append("join_no_final_newline")
            if m["items"][-1]["kind"] == "entry" and m["items"][-1]["cont"]:
                ks.append("join_last_line_is_continuation_no_newline")
        return ks
    if m.get("mode") == "python":
        ks = ["python_doc"]
        for it in m["items"]:
            if it["kind"] == "entry":
                for cl in it.get("pycont", []):
                    ks.append("python_continuation")
                    if any(c in cl for c in m["delim"]):
                        ks.append("python_continuation_with_delimiter")
                    if any(c in cl for c in (m["comment"] or b"#")):
                        ks.append("python_continuation_with_comment_char")
        if m["content"] and not m["content"].endswith(b"\n"):
            ks.append("python_no_final_newline")
            if m["items"][-1]["kind"] == "entry" and m["items"][-1].get("pycont"):
                ks.append("python_last_line_is_continuation_no_newline")
        return ks
    return ["corpus"]
