"""C16 - owner, group and symlink restrictions gate every file of every read."""
from vlib import gen_tree
from vlib.scn import Scenario, h, unh
from checks import trees
from checks.outparse import parse_raws
from gen import extract_facts
generate_facts = extract_facts.generate

ID = "C16"
LEAN_MODULES = ["Econf.Props.C16", "Econf.Props.Tie"]
THEOREMS = ["Econf.C16_gate", "Econf.C16_refused", "Econf.C16_reset", "Econf.C16_all_pass_history", "Econf.C16_all_pass_file", "Econf.C16_first_refused", "Econf.Struct.tie_gate_codes"]
SHRINK = False
RULE = ("small trees x every consulted file assigned {matching, foreign} owner and group and {regular, symbolic link to a file elsewhere, symbolic link to /dev/null} at random x every "
        "subset of {required owner, required group, no symlinks} (required IDs: root's, the other user's, the largest value of the type) (the setters called in any order, the symbolic-link rule also set and lifted again or stated as the default) x read entry points (single file, layered, two-directory, history); "
        "the result is compared with: code of the first offending consulted file and no content, or the unrestricted result; after the "
        "reset call the read must equal the unrestricted one; non-trivial = a restriction is active and a file consulted; "
        "plus relative names with `..` behind a symbolic link to a directory (the file checked must be the file read); "
        "distinct by scenario text.  Runs as root (chown).")
ASSUMPTIONS = ["the check runs as root so that files can be given foreign owners"]
UID, GID = 0, 0
FUID, FGID = 4242, 4343


def make(rng, sid):
    shape = rng.choice(["project", "readdirs", "noproject", "parsingdirs", "configdirs", "setconfdirs"])
    p = gen_tree.shape_params(rng, shape)
    tg = gen_tree.Tagger()
    t = gen_tree.random_tree(rng, p["dirs"], p["name"], p["dsfx"], p["postfixes"], tg, decoys=p["decoys"],
                             names=[b"a.conf", b"b.conf", b"10-a.conf", b"Z.conf", b"nosuffix"], links=False)
    # assign owner/group/link-ness
    tv0 = trees.TreeView(t)
    _, drops0 = trees.consulted(tv0, p["dirs"], p["name"], p["dsfx"], p["postfixes"])
    has_dropins = any(tv0.get(f) and tv0.get(f)[0] == "file" for f in drops0)
    mains = set(d + b"/" + p["name"] + p["dsfx"] for d in p["dirs"]) if p["name"] else set()
    attrs = {}
    new = []
    store = 0
    for (path, kind, payload, uid, gid) in t.files:
        if kind == "dir":
            new.append((path, kind, payload, None, None))
            continue
        u = FUID if rng.random() < 0.2 else UID
        g = FGID if rng.random() < 0.2 else GID
        link = kind == "link"
        if kind == "file" and rng.random() < 0.2:
            if path in mains and has_dropins and rng.random() < 0.4:
                # the main file of a layer is a link whose target is gone (or a directory): still a symbolic link with an owner
                new.append((path, "link", rng.choice([b"/nonexistent/gone.conf", b"/usr"]), u, g))
            elif rng.random() < 0.35:
                # a link to /dev/null (the way a name is switched off) is a symbolic link like any other
                new.append((path, "link", b"/dev/null", u, g))
            else:
                store += 1
                target = b"/store/f%d" % store
                new.append((target, "file", payload, UID, GID))
                new.append((path, "link", target, u, g))
            link = True
        else:
            new.append((path, kind, payload, u, g))
        attrs[trees.norm(path)] = (u, g, link)
    t.files = new
    # relative directory arguments (after chdir to /): the checks must look at the consulted entry itself,
    # not at what a relative name resolves to
    relative = False
    if shape == "readdirs" and rng.random() < 0.5 and all(d.startswith(b"/") and len(d) > 1 for d in p["dirs"]):
        relative = True
        _, u, e, nm, sfx = p["call"]
        p["call"] = ("RD", u[1:], e[1:], nm, sfx)
        p["dirs"] = [u[1:], e[1:]]
    restr = {"owner": rng.random() < 0.5, "group": rng.random() < 0.5, "nosymlink": rng.random() < 0.5}
    # the required IDs: mostly root's, sometimes the other user's (then root's files are the foreign ones), sometimes the largest
    # value the type has (no file carries it: every file is refused)
    restr["uid"] = rng.choice([UID] * 8 + [FUID, 4294967295])
    restr["gid"] = rng.choice([GID] * 8 + [FGID, 4294967295])
    # econf_requirePermissions in force as well: bits every file and directory of the tree has (files 0644, directories 0755,
    # links 0777), or bits that the files / the directories lack
    perms = rng.choice([None, None, ("644", "755"), ("400", "001"), ("001", "755"), ("644", "002")])
    entry = None
    if p["call"][0] == "RD" and rng.random() < 0.3:
        entry = "RH"
    s = Scenario(sid, {"p": p, "tree": t, "attrs": attrs, "restr": restr, "entry": entry or p["call"][0], "shape": shape, "perms": perms})
    t.emit(s)
    if relative:
        s.add("CD", h(b"/"))
        s.meta["relative"] = True
    # the setters in any order, the symbolic-link rule possibly stated more than once (forbidden and allowed again, the
    # default stated explicitly); what is in force is what each setter was told last
    cmds = []
    if restr["owner"]:
        cmds.append(("G", "owner", restr["uid"]))
    if restr["group"]:
        cmds.append(("G", "group", restr["gid"]))
    if perms:
        cmds.append(("G", "perms", perms[0], perms[1]))
    rng.shuffle(cmds)
    link_calls = rng.choice([[1], [0, 1], [1, 1]]) if restr["nosymlink"] else rng.choice([[], [], [0], [1, 0], [0, 0]])
    pos = 0
    for v in link_calls:     # kept in their order, anywhere between the other setters
        pos = rng.randint(pos, len(cmds))
        cmds.insert(pos, ("G", "nosymlink", v))
        pos += 1
    if link_calls and rng.random() < 0.5:
        # the last call about links comes after the other restrictions at least sometimes
        last = max(i for i, c in enumerate(cmds) if c[1] == "nosymlink")
        cmds.append(cmds.pop(last))
    for c in cmds:
        s.add(*c)
    s.meta["setter_calls"] = len(cmds)
    s.add("LOGOPEN", 1)
    # a third of the reads go through the ...WithCallback entry points with a callback that accepts every file: the
    # restrictions gate the files all the same
    cb = "cb:all" if rng.random() < 0.33 else None
    if cb:
        s.meta["with_callback"] = True
    gen_tree.emit_read(s, p, 0, entry=entry, cb=cb)
    s.add("RAW", 0)
    s.add("G", "reset")
    gen_tree.emit_read(s, p, 10, entry=entry, cb=cb)
    s.add("RAW", 10)
    return s


def scenarios(tier, rng):
    n = 1500 if tier == "quick" else 50000
    out = [make(rng, "g%d" % i) for i in range(n)]
    out += dotdot_scenarios(rng, 60 if tier == "quick" else 600)
    # single file, every combination
    i = 0
    for u in (UID, FUID):
        for g in (GID, FGID):
            for link in (False, True):
                for ro in (False, True):
                    for rg in (False, True):
                        for rl in (False, True):
                            i += 1
                            s = Scenario("one%d" % i, {"single": (u, g, link, ro, rg, rl)})
                            if link:
                                s.file(b"/store/x", b"a=1\n", UID, GID)
                                s.link(b"/etc/one.conf", b"/store/x", u, g)
                            else:
                                s.file(b"/etc/one.conf", b"a=1\n", u, g)
                            if ro:
                                s.add("G", "owner", UID)
                            if rg:
                                s.add("G", "group", GID)
                            if rl:
                                s.add("G", "nosymlink", 1)
                            s.add("LOGOPEN", 1)
                            name = b"/etc/one.conf"
                            if i % 2 == 0:
                                s.add("CD", h(b"/etc"))
                                name = rng.choice([b"one.conf", b"./one.conf", b"../etc/one.conf"])
                            s.add("RF", 0, h(name), h(b"="), h(b"#"))
                            s.add("RAW", 0)
                            s.add("G", "reset")
                            s.add("RF", 10, h(name), h(b"="), h(b"#"))
                            s.add("RAW", 10)
                            out.append(s)
    return out


def dotdot_scenarios(rng, n):
    """relative names with `..` directly behind a symbolic link to a directory: the file the kernel resolves the name to is
    the one the checks look at, and it must also be the one that is read - not the file a lexical clean-up of the name
    would give.  (The model's file system resolves names lexically and has no links to directories, so these scenarios are
    judged on the implementation only.)"""
    out = []
    for i in range(n):
        s = Scenario("dd%d" % i, {"dotdot": True, "impl_only": True})
        s.mkdir(b"/base/releases/v2")
        s.link(b"/base/current", b"releases/v2")
        kind = rng.choice(["owner", "group", "link"])
        entry = rng.choice(["RF", "RD", "RDdrop"])
        good = (b"/base/releases/app.conf", b"/base/releases/usr/app.conf", b"/base/releases/etc/app.conf.d/a.conf")
        evil = (b"/base/app.conf", b"/base/usr/app.conf", b"/base/etc/app.conf.d/a.conf")
        k = {"RF": 0, "RD": 1, "RDdrop": 2}[entry]
        s.file(good[k], b"key=trusted\n", UID, GID)
        if entry == "RDdrop":
            s.file(b"/base/releases/usr/app.conf", b"m=1\n", UID, GID)
            s.file(b"/base/usr/app.conf", b"m=1\n", UID, GID)
        if kind == "link":
            s.file(b"/store/evil", b"key=evil\n", UID, GID)
            s.link(evil[k], b"/store/evil", UID, GID)
            s.add("G", "nosymlink", 1)
        elif kind == "owner":
            s.file(evil[k], b"key=evil\n", FUID, GID)
            s.add("G", "owner", UID)
        else:
            s.file(evil[k], b"key=evil\n", UID, FGID)
            s.add("G", "group", GID)
        s.add("CD", h(b"/base"))
        if entry == "RF":
            s.add("RF", 0, h(b"current/../app.conf"), h(b"="), h(b"#"))
        else:
            s.add("RD", 0, h(b"current/../usr"), h(b"current/../etc"), h(b"app"), h(b"conf"), h(b"="), h(b"#"))
        s.add("GET", 0, "str", "-", h(b"key"))
        s.meta["entry"] = entry
        s.meta["kind"] = kind
        out.append(s)
    return out


def offence(attr, ro, rg, rl, perms=None, isdir=False, ru=UID, rgid=GID):
    u, g, link = attr
    if rl and link:
        return 20
    if ro and u != ru:
        return 16
    if rg and g != rgid:
        return 17
    if perms:
        mode = 0o777 if link else (0o755 if isdir else 0o644)
        if mode & int(perms[0], 8) == 0:
            return 18
        if 0o755 & int(perms[1], 8) == 0:
            return 19
    return None


def oracle(s, lines):
    m = s.meta
    res = [l for l in lines if l.startswith(("rf ", "rc ", "rd ", "rh "))]
    if m.get("dotdot"):
        want = [("rf" if m["entry"] == "RF" else "rd") + " E0 obj", "get E0 " + h(b"trusted")]
        if lines[:2] != want:
            return ("%s of a relative name with `..` behind a symbolic link to a directory under the %s rule: %r - the file the "
                    "name resolves to satisfies the rule and holds key=trusted, a file that violates the rule holds key=evil" % (m["entry"], m["kind"], lines[:2]))
        return None
    if "single" in m:
        u, g, link, ro, rg, rl = m["single"]
        code = offence((u, g, link), ro, rg, rl)
        raws = parse_raws(lines)
        if code is not None:
            if res[0] != "rf E%d null" % code:
                return "file (uid %d gid %d link %s) under restrictions %r: %r, expected E%d" % (u, g, link, (ro, rg, rl), res[0], code)
            if any(l.startswith("open ") for l in lines[:lines.index(res[0])]):
                return "a refused file was opened"
        elif res[0] != "rf E0 obj":
            return "a file that satisfies the rules was refused: %r" % res[0]
        if res[1] != "rf E0 obj" or raws[1].null or len(raws[1].entries) != 1:
            return "after the reset call the file is not accepted: %r" % res[1]
        return None
    if "restr" not in m:
        return None
    p, t, r = m["p"], m["tree"], m["restr"]
    tv = trees.TreeView(t)
    main, drops = trees.consulted(tv, p["dirs"], p["name"], p["dsfx"], p["postfixes"])
    files = ([main] if main else []) + drops
    # main-file search: candidates from the highest layer down; an offending existing candidate stops the read
    order = []
    if p["name"]:
        for d in reversed(p["dirs"]):
            c = d + b"/" + p["name"] + p["dsfx"]
            if tv.get(c) is not None:
                order.append(c)
                if tv.get(c)[0] == "link" and tv.get(c)[1] != b"/dev/null" and tv.get(tv.get(c)[1]) is None:
                    continue     # a link whose target does not exist: checked like every file, then "no such file" - the next layer is tried
                # (a link to an existing directory is read as a file without content)
                break
    order += drops
    code = None
    for f in order:
        a = m["attrs"].get(trees.norm(f))
        isdir = a is None   # directories ('.', '..', sub-directories): root owned, not links
        code = offence(a or (UID, GID, False), r["owner"], r["group"], r["nosymlink"], m.get("perms"), isdir, r.get("uid", UID), r.get("gid", GID))
        if code is not None:
            break
    raws = parse_raws(lines)
    first, second = res[0], res[1]
    if code is not None:
        if " E%d" % code not in first:
            return "first offending consulted file demands E%d, result %r" % (code, first)
        if first.startswith("rh "):
            if first.split()[2] == "obj":
                return "history handed back although a file was refused"
        elif raws and not raws[0].null and raws[0].entries:
            return "content reaches the result although a file was refused"
    else:
        if first.split()[1] != second.split()[1]:
            return "all files satisfy the rules but the restricted read gives %r, the unrestricted %r" % (first, second)
        if not first.startswith("rh ") and len(raws) >= 2 and raws[0].sig() != raws[1].sig():
            return "all files satisfy the rules but the result differs from the unrestricted one"
    if files and " E0" not in second:
        return "after the reset call the read fails: %r" % second
    return None


def nontrivial(s, lines):
    m = s.meta
    if "single" in m:
        return ("single",) + m["single"]
    if m.get("dotdot"):
        return tuple(s.lines)
    if "restr" not in m or not any(m["restr"].values()):
        return None
    return tuple(s.lines)


def histogram(s, lines):
    m = s.meta
    if "single" in m:
        return ["single_file"]
    if m.get("dotdot"):
        return ["dotdot_behind_directory_link_" + m["entry"] + "_" + m["kind"]]
    if "restr" not in m:
        return ["corpus"]
    ks = ["entry_" + m["entry"], "restr_" + "".join(k[0] for k, v in sorted(m["restr"].items()) if v), "relative_dirs" if m.get("relative") else "absolute_dirs"]
    res = [l for l in lines if l.startswith(("rf ", "rc ", "rd ", "rh "))]
    if res:
        ks.append("first_" + res[0].split()[1])
    if m.get("with_callback"):
        ks.append("through_WithCallback_entry_point")
    return ks
