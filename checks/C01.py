"""C01 - layered lookup yields the vendor < /run < /etc precedence for every tree."""
from vlib import gen_tree
from vlib.scn import Scenario, h
from checks import trees
from checks.outparse import parse_raws
from gen import extract_facts
generate_facts = extract_facts.generate

ID = "C01"
LEAN_MODULES = ["Econf.Props.C01", "Econf.Props.Tie"]
THEOREMS = ["Econf.C01_lookup", "Econf.C01_masked_ignored", "Econf.C01_F14_witness", "Econf.C01_main_skip_absent", "Econf.C01_main_first_present",
            "Econf.C01_main_candidates", "Econf.C01_layer_order", "Econf.C01_dir_order", "Econf.C01_nofile", "Econf.C01_null_refused",
            "Econf.sortNames_sorted", "Econf.sortNames_perm", "Econf.Struct.tie_macros"]
SHRINK = False
RULE = ("random trees: per layer main file in {absent, regular, empty, link to /dev/null} and drop-in directories with names drawn from "
        "a pool with non-numeric byte order, dot files, names without the suffix, sub-directories, same and different names across layers, "
        "contents with group-less and grouped keys; x 8 parameter shapes (project given/NULL, drop-in only, ROOT_PREFIX, PARSING_DIRS, "
        "CONFIG_DIRS, econf_set_conf_dirs, two-directory read) x suffix spellings, plus a tenth as many sequences of two layered reads through one "
        "handle (after a successful read; after a failed read on a handle made with PARSING_DIRS); the result is compared with the precedence rule "
        "evaluated on the tree; non-trivial = at least two files consulted; distinct by scenario text")


def scenarios(tier, rng):
    n = 3000 if tier == "quick" else 80000
    out = []
    for i in range(n):
        s, p, t = gen_tree.tree_scenario("t%d" % i, rng)
        s.meta.update({"p": p, "tree": t})
        out.append(s)
    # the same handle used for a second read (its result must belong to the second call's arguments)
    for i in range(n // 10):
        s, p, t = gen_tree.reuse_scenario("u%d" % i, rng)
        s.meta.update({"p": p, "tree": t})
        out.append(s)
    # the witness of known finding F14, evaluated by the oracle like every generated tree
    p = {"name": b"cfg", "suffix": b"conf", "dsfx": b".conf", "pre": [], "slot_pre": None, "global_confdirs": None,
         "dirs": [b"/usr/etc/prj", b"/run/prj", b"/etc/prj"], "postfixes": [b".conf.d"], "call": ("RC", b"prj", b"/usr/etc", b"cfg", b"conf")}
    t = gen_tree.Tree()
    t.files = [(b"/usr/etc/prj/cfg.conf.d/a.conf", "file", b"from_usr=1\nk=usr\n", None, None),
               (b"/etc/prj/cfg.conf.d/a.conf", "file", b"k=etc\n", None, None)]
    s = Scenario("f14witness", {"shape": "project", "suffix": b"conf", "nfiles": 2, "p": p, "tree": t})
    t.emit(s)
    s.add("LOGOPEN", 1)
    gen_tree.emit_read(s, p, 0)
    s.add("RAW", 0)
    s.add("FREE", 0)
    out.append(s)
    # both project and configuration name NULL must be refused, not crash
    for i, (prj, name) in enumerate([(None, None), (None, b""), (b"", None)]):
        s = Scenario("null%d" % i, {"nullcase": True})
        s.file(b"/etc/x.conf", b"a=1\n")
        s.add("RC", 0, h(prj), h(b"/usr/etc"), h(name), h(b"conf"), h(b"="), h(b"#"))
        s.add("RD", 1, h(b"/usr/etc"), h(b"/etc"), h(name), h(b"conf"), h(b"="), h(b"#"))
        s.add("FREE", 1)
        out.append(s)
    return out


def analyse(s):
    p, t = s.meta["p"], s.meta["tree"]
    tv = trees.TreeView(t)
    main, drops = trees.consulted(tv, p["dirs"], p["name"], p["dsfx"], p["postfixes"])
    files = ([main] if main else []) + drops
    return tv, main, drops, files


def oracle(s, lines):
    if s.meta.get("nullcase"):
        if not lines or lines[0].split()[1] == "E0":
            return "a read without project and configuration name is not refused: %r" % lines[:1]
        return None
    if "p" not in s.meta:
        return None
    tv, main, drops, files = analyse(s)
    res = next((l for l in (reversed(lines) if s.meta.get("reuse") else lines) if l.startswith(("rc ", "rd "))), "")
    if not files:
        if " E3" not in res:
            return "no file exists but the result is %r (expected file-not-found)" % res
        return None
    if " E0 obj" not in res:
        return "files %r exist but the read failed: %r" % (files, res)
    want = trees.expected_map(tv, trees.unmasked(files))
    got = trees.raw_map(parse_raws(lines)[0])
    if got != want:
        diff = {k: (got.get(k), want.get(k)) for k in set(got) | set(want) if got.get(k) != want.get(k)}
        return "result differs from the precedence rule on (section,key) -> (got, expected): %r; consulted %r" % (diff, files)
    return None


def f14(s, lines, msg):
    """known finding F14: without a main file the first drop-in is never masked"""
    if "p" not in s.meta:
        return False
    tv, main, drops, files = analyse(s)
    if main is not None or not files:
        return False
    res = next((l for l in (reversed(lines) if s.meta.get("reuse") else lines) if l.startswith(("rc ", "rd "))), "")
    if " E0 obj" not in res:
        return False
    # the implementation's result equals the rule with "the first file is never masked"
    want = trees.expected_map(tv, trees.unmasked(files, first_never_masked=True))
    return trees.raw_map(parse_raws(lines)[0]) == want


KNOWN = {"f14": f14}


def nontrivial(s, lines):
    if "p" not in s.meta:
        return None
    n = sum(1 for l in lines if l.startswith("open "))
    return tuple(s.lines) if n >= 2 else None


def histogram(s, lines):
    if "p" not in s.meta:
        return ["nullcase" if s.meta.get("nullcase") else "corpus"]
    tv, main, drops, files = analyse(s)
    ks = ["shape_" + s.meta["shape"], "suffix_%r" % s.meta["suffix"], "consulted_%d" % min(len(files), 8)]
    if main:
        n = tv.get(main)
        ks.append("main_" + ("devnull" if n[0] == "link" else "empty" if n[0] == "file" and not n[1] else n[0]))
    else:
        ks.append("main_absent")
    if len(trees.unmasked(files)) != len(files):
        ks.append("with_masked_dropin")
    return ks
