"""C08 - typed values survive set/get and set/write/read/get exactly."""
import shutil
from vlib.scn import Scenario, h
from checks import numrun

from gen import extract_facts
generate_facts = extract_facts.generate

ID = "C08"
LEAN_MODULES = ["Econf.Props.C08", "Econf.Props.Struct", "Econf.Props.Tie"]
THEOREMS = ["Econf.C08_int32", "Econf.C08_int64", "Econf.C08_uint32", "Econf.C08_uint64", "Econf.C08_int32_object", "Econf.C08_uint64_object", "Econf.C08_text_form", "Econf.C08_bool", "Econf.Struct.C08_formats", "Econf.C08_text_is_54", "Econf.C08_through_file", "Econf.Struct.tie_bool_words"]
RULE = ("direct oracle on the library (harness/num.c): int32/uint32/float set->get over a slice (quick) or all 2^32 bit patterns "
        "(thorough); int64/uint64/double: every single-bit value and its neighbours, powers of ten +-1 (integers) and 10^k +-1ulp "
        "(doubles), limits, subnormals, infinities, NaNs, and pseudo-random values; set->write->read->get for all seven types incl. "
        "14 boolean spellings; plus scenarios comparing the text each integer setter stores with the model's printf, and typed setters "
        "called on keys that already hold a text (empty, absent, another spelling of the same truth value, numbers) in fresh and parsed "
        "objects (among them a file with keys that have neither delimiter nor value), read back directly and through a written file; "
        "non-trivial = a value round trip; distinct values are counted by the harness")
EXHAUSTIVE = {"quick": False, "thorough": True}
ASSUMPTIONS = ["glibc printf(%.*g) and strtof/strtod are correctly rounded (assumed; FloatThm shows that 9/17 digits then suffice)"]

INTS = [0, 1, -1, 9, 10, -10, 99, 100, 2**31 - 1, -2**31, 2**15, -2**15 - 1, 123456789, -987654321]
I64 = [2**63 - 1, -2**63, 2**31, -2**31 - 1, 10**18, -10**18, 2**62 + 1]
U64 = [0, 1, 2**32 - 1, 2**32, 2**64 - 1, 10**19, 2**63]


def scenarios(tier, rng):
    """integer setters: stored text and read-back compared with the model (Numeric.showInt / strtoCore)"""
    out = []
    n = 200 if tier == "quick" else 5000
    for i in range(n):
        s = Scenario("n%d" % i, {"num": True})
        s.add("NEW", 0, "ini")
        for j in range(8):
            ty = rng.choice(["int", "uint", "int64", "uint64"])
            if ty == "int":
                v = rng.choice(INTS) if rng.random() < 0.5 else rng.randint(-2**31, 2**31 - 1)
            elif ty == "uint":
                v = abs(rng.choice(INTS)) if rng.random() < 0.5 else rng.randint(0, 2**32 - 1)
            elif ty == "int64":
                v = rng.choice(I64 + INTS) if rng.random() < 0.5 else rng.randint(-2**63, 2**63 - 1)
            else:
                v = rng.choice(U64) if rng.random() < 0.5 else rng.randint(0, 2**64 - 1)
            k = b"k%d" % j
            s.add("SET", 0, ty, h(b"S"), h(k), str(v))
            s.add("GET", 0, "str", h(b"S"), h(k))
            s.add("GET", 0, ty, h(b"S"), h(k))
        s.mkdir(b"/o")
        s.add("W", 0, h(b"/o"), h(b"w"))
        s.add("RF", 1, h(b"/o/w"), h(b"="), h(b"#"))
        s.add("ALLGET", 1)
        out.append(s)
    # typed setters on keys that already hold a text (empty, another spelling of the same truth value, a number, ...):
    # the value stored last comes back, directly and through a file
    PRIOR = [b"", None, b"false", b"0", b"No", b"1", b"yes", b"TRUE", b"text", b"42", b"-1", b"0x10"]
    BOOLS = [(b"true", 1), (b"false", 0), (b"0", 0), (b"1", 1), (b"yes", 1), (b"no", 0), (b"YES", 1), (b"No", 0), (b"False", 0), (b"TRUE", 1)]
    for i in range(n):
        s = Scenario("p%d" % i, {"prior": True, "want": []})
        r = rng.random()
        if r < 0.35:
            s.add("NEW", 0, "ini")
        elif r < 0.55:
            # a file that begins with a section: the group-less keys set afterwards are the first ones without a group
            s.file(b"/in.conf", rng.choice([b"[S]\nk2=\"\"\nk3=0\n\n[Sx]\nk1=no\n", b"[Sx]\nk0=1\n", b"# head\n\n[S]\nk4\n"]))
            s.add("RF", 0, h(b"/in.conf"), h(b"="), h(b"#"))
        elif r < 0.75:
            s.file(b"/in.conf", b"k0=\nk1=no\n[S]\nk2=\"\"\nk3=0\nk4\n")
            s.add("RF", 0, h(b"/in.conf"), h(b"="), h(b"#"))
        else:
            # a file with keys that have neither delimiter nor value (each behind an empty line, so that it is a key of its own
            # and not the next line of the value before it), next to keys which then get typed values
            s.file(b"/in.conf", b"k0=no\n\nk1\n\nk2=3\n\nk3\n[S]\nk4=0\n\nk5\n\nk0=1\n")
            s.add("RF", 0, h(b"/in.conf"), h(b"="), h(b"#"))
        # two section names of which one begins with the other; in a third of the sequences two names that a multiplicative
        # string hash does not tell apart ('A'*33+'b' == 'B'*33+'A'), with few keys, so that both sections get the same key
        twins = rng.random() < 0.33
        for j in range(6):
            g = rng.choice([b"Ab", b"BA", b"Ab", b"BA", None] if twins else [None, b"S", b"Sx", b"S"])
            k = b"k%d" % rng.randrange(2 if twins else 6)
            if rng.random() < 0.7:
                s.add("SET", 0, "str", h(g), h(k), h(rng.choice(PRIOR)))
            ty = rng.choice(["bool", "bool", "int", "uint64"])
            if ty == "bool":
                sp, val = rng.choice(BOOLS)
                s.add("SET", 0, "bool", h(g), h(k), h(sp))
                want = str(val)
            else:
                v = rng.choice([0, 1, 7, 2**31 - 1]) if ty == "int" else rng.choice(U64)
                s.add("SET", 0, ty, h(g), h(k), str(v))
                want = str(v)
            s.add("GET", 0, ty, h(g), h(k))
            s.meta["want"] = [w for w in s.meta["want"] if (w[0], w[1]) != (g, k)] + [(g, k, ty, want)]
        s.mkdir(b"/o")
        s.add("W", 0, h(b"/o"), h(b"w"))
        s.add("RF", 1, h(b"/o/w"), h(b"="), h(b"#"))
        for g, k, ty, want in s.meta["want"]:
            s.add("GET", 1, ty, h(g), h(k))
        out.append(s)
    return out


def oracle_prior(s, lines):
    it = iter(lines)
    last = {}
    for cmd in s.lines:
        t = cmd.split()
        if t[0] in ("NEW", "RF", "W", "SET", "GET"):
            l = next(it, "")
            if t[0] == "W" and l == "w E0":
                next(it, "")
            if t[0] == "SET" and t[2] != "str":
                if l != "set E0":
                    return "typed setter refused: %r -> %r" % (cmd, l)
                last[(t[3], t[4])] = cmd
            if t[0] == "GET":
                want = next(w for w in reversed(s.meta["want"]) if (h(w[0]), h(w[1])) == (t[3], t[4]))[3] if t[1] == "1" else None
                if t[1] == "0":
                    # directly after the typed set
                    setcmd = last.get((t[3], t[4]))
                    st = setcmd.split()
                    if st[2] == "bool":
                        want = {"true": "1", "yes": "1", "1": "1"}.get(bytes.fromhex(st[5][1:]).decode().lower(), "0")
                    else:
                        want = st[5]
                if l != "get E0 " + want:
                    return "%s after %s: got %r, stored value %s" % (cmd, "write and read back" if t[1] == "1" else "the typed set", l, want)
    return None


def oracle(s, lines):
    if s.meta.get("prior"):
        return oracle_prior(s, lines)
    if not s.meta.get("num"):
        return None
    # every SET v / GET str / GET ty triple: text is the decimal numeral, value comes back
    it = iter(lines)
    next(it)
    for cmd in s.lines[1:]:
        t = cmd.split()
        if t[0] == "SET":
            a, b, c = next(it), next(it), next(it)
            want = t[5]
            if a != "set E0" or b != "get E0 h" + want.encode().hex() or c != "get E0 " + want:
                return "%s %s: %r %r %r" % (t[2], want, a, b, c)
    return None


def nontrivial(s, lines):
    return tuple(s.lines) if (s.meta.get("num") or s.meta.get("prior")) else None


def histogram(s, lines):
    return ["int_text_scenario"] if s.meta.get("num") else ["typed_set_over_prior_text"] if s.meta.get("prior") else ["corpus"]


def direct_checks(res, harness, tier, rng):
    jobs = []
    if tier == "quick":
        # 64 slices of 2^15 patterns spread over the 32-bit range + the boundaries
        for i in range(64):
            lo = (i * 0x04000000 + rng.randrange(0x03ff0000)) & 0xffffffff
            jobs.append(["rt32", str(lo), str(min(lo + 0x7fff, 0xffffffff))])
        for lo, hi in [(0, 0x3fff), (0x7fffc000, 0x80003fff), (0xffffc000, 0xffffffff), (0x7f7fc000, 0x7f803fff), (0x007fc000, 0x00803fff)]:
            jobs.append(["rt32", str(lo), str(hi)])
        jobs += [["rt64", str(res.seed * 16 + i), "200000"] for i in range(8)]
        nfile = 4096
    else:
        step = 1 << 24
        for lo in range(0, 1 << 32, step):
            jobs.append(["rt32", str(lo), str(lo + step - 1)])
        jobs += [["rt64", str(res.seed * 64 + i), "2000000"] for i in range(16)]
        nfile = 65536
    dirs = []
    for i in range(8):
        d = numrun.scratch()
        dirs.append(d)
        jobs.append(["file", str(res.seed * 8 + i), str(nfile), d])
    ev, fails, distinct = numrun.run_jobs(harness, jobs)
    for d in dirs:
        shutil.rmtree(d, ignore_errors=True)
    res.evaluations += ev
    res.direct_distinct += distinct
    res.hist["direct_round_trips"] = ev
    res.hist["direct_jobs"] = len(jobs)
    res.notes.append("direct oracle: %d typed round trips in %d jobs (%s)" % (ev, len(jobs), "all 2^32 patterns" if tier != "quick" else "slices"))
    res.samples.append({"direct": jobs[0], "evaluations": ev})
    numrun.report(res, fails, "typed round trip")
