"""Python rendering of the layered-lookup specification (C01) used as oracle on the implementation's output,
plus helpers shared by C01, C06, C12, C16, C20."""
from checks.outparse import NONE, txt


class TreeView:
    def __init__(self, tree):
        self.nodes = {}      # normalised path -> (kind, payload, uid, gid)
        for path, kind, payload, uid, gid in tree.files:
            p = norm(path)
            self.nodes[p] = (kind, payload, uid or 0, gid or 0)
            parts = p.split(b"/")
            for i in range(2, len(parts)):
                self.nodes.setdefault(b"/".join(parts[:i]), ("dir", None, 0, 0))

    def get(self, path):
        return self.nodes.get(norm(path))

    def listdir(self, path):
        p = norm(path)
        n = self.nodes.get(p)
        if n is None or n[0] != "dir":
            return None
        pre = p + b"/"
        kids = [k[len(pre):] for k in self.nodes if k.startswith(pre) and b"/" not in k[len(pre):]]
        return sorted([b".", b".."] + kids)

    def content(self, path, depth=0):
        n = self.get(path)
        if n is None:
            return None
        if n[0] == "file":
            return n[1]
        if n[0] == "dir":
            return b""
        if n[1] == b"/dev/null":
            return b""
        return self.content(n[1], depth + 1) if depth < 3 else None


def norm(p):
    out = []
    for c in p.split(b"/"):
        if c in (b"", b"."):
            continue
        if c == b"..":
            if out:
                out.pop()
            continue
        out.append(c)
    return b"/" + b"/".join(out)


def consulted(tv, dirs, name, dsfx, postfixes):
    """-> (main path or None, [drop-in paths in processing order]) with the paths as the library spells them"""
    main = None
    if name:
        for d in reversed(dirs):
            p = d + b"/" + name + dsfx
            if tv.get(p) is not None:
                main = p
                break
    drops = []
    for d in dirs:
        for q in postfixes:
            dd = d + b"/" + name + q
            names = tv.listdir(dd)
            if names is None:
                continue
            for e in names:
                if len(dsfx) < len(e) and e.endswith(dsfx):
                    drops.append(dd + b"/" + e)
    return main, drops


def basename(p):
    return p.rstrip(b"/").split(b"/")[-1]


def unmasked(files, first_never_masked=False):
    """the files that take part in the result: a file is ignored when a later consulted one has its name"""
    out = []
    for i, f in enumerate(files):
        b = basename(f)
        m = b not in (b".", b"..") and any(basename(x) == b for x in files[i + 1:])
        if not m or (first_never_masked and i == 0):
            out.append(f)
    return out


def parse_simple(content):
    """first definitions of a generated file: dict (group,key) -> value, in file order"""
    out = {}
    cur = NONE
    for ln in content.split(b"\n"):
        if not ln or ln[:1] == b"#":
            continue
        if ln[:1] == b"[":
            cur = ln[1:ln.index(b"]")]
        elif b"=" in ln and ln[:1] != b"=":      # (a line that begins with the delimiter has no key: it is passed over)
            k, v = ln.split(b"=", 1)
            out.setdefault((cur, k), v)
        elif b"=" not in ln:
            # a key alone on its line (generated only for reads whose delimiter set contains a blank): no value, compared as empty text
            out.setdefault((cur, ln.strip()), b"")
    return out


def expected_map(tv, files):
    """later files override earlier ones key by key"""
    out = {}
    for f in files:
        c = tv.content(f)
        for gk, v in parse_simple(c or b"").items():
            out[gk] = v
    return out


def raw_map(raw):
    out = {}
    for e in raw.entries:
        out.setdefault((e["group"], e["key"]), txt(e["value"]))
    return out
