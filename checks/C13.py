"""C13 - parse failures name the right error, file and line and return nothing partial."""
from vlib import gen_doc, gen_tree
from vlib.scn import Scenario, h
from checks import docs
from checks.outparse import parse_raws

from gen import extract_facts
generate_facts = extract_facts.generate

ID = "C13"
LEAN_MODULES = ["Econf.Props.C13", "Econf.Props.Struct", "Econf.Props.Tie"]
THEOREMS = ["Econf.C13_section_codes", "Econf.C13_section_line", "Econf.C13_nodelim_line", "Econf.C13_first_error", "Econf.C13_error_range", "Econf.Struct.C13_messages", "Econf.C13_after_conventional", "Econf.C13_location_file", "Econf.C13_location_seq", "Econf.C13_location_first", "Econf.C13_location_history", "Econf.C13_layered_line", "Econf.Struct.tie_err_codes", "Econf.Struct.tie_parser_codes"]
RULE = ("conventional documents with one injected malformed line of each kind (no closing bracket, text after bracket, empty section "
        "name, key and text without delimiter) at every kind of position, followed by arbitrary lines; alone and as a member of a "
        "layered tree (a fifth of them with one of the other layer directories being a regular file); plus missing files (no such name; a name below a regular file) and the message of every code -1..30; distinct by (file content, kind, position)")
PATH = b"/etc/app/doc.conf"
SHRINK = False

MESSAGES = ["Success", "Unknown error", "Out of memory", "Configuration file not found", "Group not found", "Key not found",
            "Key is NULL or has empty value", "Error creating or writing to a file", "Parse error", "Missing bracket",
            "Missing delimiter", "Empty section name", "Text after section", "Conf file list is NULL",
            "Wrong boolean value (1/0 true/false yes/no)", "Given key has NULL value", "File has wrong owner", "File has wrong group",
            "File has wrong file permissions", "File has wrong dir permissions", "File is a sym link which is not permitted",
            "User defined parsing callback has failed", "Given argument is NULL", "Given option not found", "Value cannot be converted"]

KINDS = {"nobracket": 9, "textafter": 12, "emptyname": 11, "nodelim": 10, "nodelim_quoted": 10}


def malformed_line(rng, g, kind):
    b = g.blanks
    if kind == "nobracket":
        return b(0, 2) + b"[" + g.text(0, 6, g.comment + b"]") + b(0, 2)
    if kind == "emptyname":
        return b(0, 2) + b"[]" + b(0, 2)
    if kind == "textafter":
        while True:
            tail = g.text(1, 6, g.comment).strip(b" \t\x0b\x0c\r")
            if tail and not tail.endswith(b"]"):
                break
        return b(0, 2) + b"[" + g.section_name() + b"]" + b(0, 2) + tail + b(0, 2)
    if kind == "nodelim_quoted":
        # key, blanks, then text in which a delimiter character comes later (inside double quotes): not a continuation line
        # of the entry before it (those have no delimiter character at all), and no delimiter after the key
        q = b'"' + g.text(1, 3, g.comment + g.delim + b'"').strip(b" \t\x0b\x0c\r") + g.delim[:1] + g.text(0, 3, g.comment + b'"') + b'"'
        return g.key() + b(1, 2) + q + (b(1, 1) + b"c" if rng.random() < 0.5 else b"")
    # key followed by text without delimiter
    while True:
        t = g.text(1, 6, g.comment + g.delim).strip(b" \t\x0b\x0c\r")
        if t:
            break
    return b(0, 2) + g.key() + b(1, 3) + t + b(0, 2)


def make(rng, sid, hist):
    comment = rng.choice(docs.COMMENTS)
    kind = rng.choice(list(KINDS))
    delim = rng.choice([b"=", b":="]) if kind.startswith("nodelim") else rng.choice(docs.DELIMS)
    g = gen_doc.Gen(rng, delim, comment, hist=hist)
    items = g.document(rng.choice([0, 2, 6, 15]))
    # a fifth of the files are read in python style (an object created with PYTHON_STYLE=1, layered read): there entries, headers
    # and the malformed line start in column 0 (an indented line would continue a value) and headers carry no comment
    python = comment != b"" and rng.random() < 0.2
    if python:
        items = [it for it in items if not (it["kind"] == "section" and it.get("tc") is not None)]
        for it in items:
            if it["kind"] in ("entry", "section"):
                it["lines"] = [it["lines"][0].lstrip(b" \t\x0b\x0c\r")] + it["lines"][1:]
    if kind == "nodelim":
        # not in continuation position: the previous line must not be the last line of an entry
        while items and items[-1]["kind"] == "entry":
            if rng.random() < 0.5:
                items.append(g.blank_item() if rng.random() < 0.5 else g.comment_item())
            else:
                items.pop()
    bad = malformed_line(rng, g, kind)
    if python:
        bad = bad.lstrip(b" \t\x0b\x0c\r")
    d1 = gen_doc.render(items)
    rest = b"".join(g.text(0, 10) + b"\n" for _ in range(rng.randint(0, 4)))
    content = d1 + bad + (b"\n" if rest or rng.random() < 0.8 else b"") + rest
    line = d1.count(b"\n") + 1
    pos = "first" if not items else ("after_" + items[-1]["kind"])
    s = Scenario(sid, {"kind": kind, "line": line, "content": content, "delim": delim, "comment": comment, "pos": pos, "bad": bad})
    # a sixth of the single files live behind a long path (every component short, the whole longer than NAME_MAX, far below PATH_MAX)
    path = PATH
    if not python and rng.random() < 0.17:
        path = b"/srv/" + b"/".join([b"build-root-%02d" % i + b"x" * rng.randint(20, 40) for i in range(rng.randint(6, 9))]) + b"/doc.conf"
    s.meta["path"] = path
    s.file(path, content)
    if rng.random() < 0.3:
        # an earlier read in the same process with other delimiter and comment characters (a login.defs style file, or one
        # that fails itself) must not change what this read reports
        pd, pc = rng.choice([(b" \t", b"#"), (b" \t=", b";"), (b":", b"#;"), (b"", b"#")])
        s.file(b"/etc/prior.conf", rng.choice([b"UMASK 022\nMAIL_DIR\t/var/mail\n", b"a:b\n[x] y\n", b"one two three\n# c\n"]))
        s.add("RF", 20, h(b"/etc/prior.conf"), h(pd), h(pc))
        s.add("FREE", 20)
        s.meta["prior"] = 2
    if python:
        s.meta["python"] = True
        s.add("NEW", 0, "opt", h(b"PYTHON_STYLE=1"))
        s.add("RC", 0, h(b"app"), h(b"/usr/etc"), h(b"doc"), h(b"conf"), h(delim), h(comment))
    else:
        s.add("RF", 0, h(path), h(delim), h(comment))
    s.add("SLOT", 0)
    s.add("ERRLOC")
    return s


def tree_make(rng, sid):
    """a malformed file as the k-th consulted file of a layered read"""
    shape = rng.choice(["project", "noproject", "readdirs", "parsingdirs", "configdirs", "setconfdirs"])
    p = gen_tree.shape_params(rng, shape)
    # the parse options of the caller's object must not change what a malformed line does
    if p["call"][0] == "RC" and rng.random() < 0.4:
        p["slot_pre"] = b";".join(([p["slot_pre"]] if p["slot_pre"] else []) + [b"JOIN_SAME_ENTRIES=1"])
    tg = gen_tree.Tagger()
    t = gen_tree.random_tree(rng, p["dirs"], p["name"], p["dsfx"], p["postfixes"], tg, decoys=p["decoys"])
    files = [i for i, f in enumerate(t.files) if f[1] == "file"]
    s = Scenario(sid, {"tree": True, "shape": shape})
    if files:
        i = rng.choice(files)
        kind = rng.choice(["nobracket", "textafter", "emptyname", "nodelim"])
        bad = {"nobracket": b"[oops", "textafter": b"[s] tail", "emptyname": b"[]", "nodelim": b"key value"}[kind]
        good = t.files[i][2]
        nl = rng.randint(0, good.count(b"\n"))
        glines = good.split(b"\n")
        # insert at a line boundary that is not a continuation position: after a section header or at the start
        if kind == "nodelim":
            nl = 0
        content = b"\n".join(glines[:nl] + [bad] + glines[nl:])
        f = t.files[i]
        t.files[i] = (f[0], f[1], content, f[3], f[4])
        s.meta.update({"bad_path": f[0], "kind": kind, "line": nl + 1})
    # one of the other layer directories is a regular file: everything "below" it is simply not there (ENOTDIR, not ENOENT)
    if rng.random() < 0.2:
        bp = s.meta.get("bad_path", b"")
        cand = [d for d in p["dirs"] if d and d != b"/" and not bp.startswith(d + b"/")
                and not any(o != d and (o.startswith(d + b"/") or d.startswith(o + b"/")) for o in p["dirs"] if o)]
        if cand:
            d = rng.choice(sorted(set(cand)))
            t.files = [f for f in t.files if not f[0].startswith(d + b"/") and f[0] != d]
            t.files.append((d, "file", b"this is not a directory\n", None, None))
            s.meta["plain_layer"] = d
    t.emit(s)
    s.add("LOGOPEN", 1)
    cb = None
    if rng.random() < 0.25:
        # the caller's check callback reads files of its own through the library while it is being asked (and accepts):
        # the error location must still name the malformed file of the outer read
        s.file(b"/policy/allow.conf", b"allow=yes\n")
        s.file(b"/policy/usr/allow.list", b"user root\n")
        cb = "cb:nest:" + h(b"/policy/allow.conf")
        # (the error location after a read that succeeds is not specified and depends on what the callback read last; the
        # model's callback is a pure function, so these scenarios are judged by the oracle on the implementation only)
        s.meta["impl_only"] = True
    gen_tree.emit_read(s, p, 0, cb=cb)
    s.add("RAW", 0)
    s.add("ERRLOC")
    s.add("FREE", 0)
    s.meta["fresh"] = p["slot_pre"] is None and p["call"][0] == "RC"
    s.meta["call"] = p["call"][0]
    return s


def misc_scenarios():
    s = Scenario("messages", {"misc": "messages"})
    for n in range(-1, 31):
        s.add("ERRSTR", n)
    yield s
    s = Scenario("nofile", {"misc": "nofile"})
    s.mkdir(b"/etc")
    s.add("RF", 0, h(b"/etc/missing.conf"), h(b"="), h(b"#"))
    s.add("SLOT", 0)
    # missing because a component of the path is a regular file
    s.file(b"/etc/plain", b"x=1\n")
    s.add("RF", 3, h(b"/etc/plain/x.conf"), h(b"="), h(b"#"))
    s.add("SLOT", 3)
    s.add("RD", 1, h(b"/usr/etc"), h(b"/etc"), h(b"missing"), h(b"conf"), h(b"="), h(b"#"))
    s.add("RAW", 1)
    s.add("RC", 2, h(b"prj"), h(b"/usr/etc"), h(b"missing"), h(b"conf"), h(b"="), h(b"#"))
    s.add("SLOT", 2)
    yield s


GEN_HIST = {}


def scenarios(tier, rng):
    n = 1500 if tier == "quick" else 40000
    out = list(misc_scenarios())
    out += [make(rng, "e%d" % i, GEN_HIST) for i in range(n)]
    out += [tree_make(rng, "t%d" % i) for i in range(n // 2)]
    return out


def oracle(s, lines):
    m = s.meta
    if m.get("misc") == "messages":
        got = [l for l in lines if l.startswith("errstr ")]
        for i, n in enumerate(range(-1, 31)):
            want = MESSAGES[n] if 0 <= n < len(MESSAGES) else "Unknown libeconf error %d" % n
            if i >= len(got) or got[i] != "errstr " + h(want.encode()):
                return "message of code %d is not the documented %r" % (n, want)
        return None
    if m.get("misc") == "nofile":
        if lines[:4] != ["rf E3 null", "slot null", "rf E3 null", "slot null"]:
            return "missing file: %r" % lines[:4]
        if not any(l.startswith("rd E3") for l in lines) or not any(l.startswith("rc E3 null") for l in lines):
            return "missing file in a layered read is not reported as file-not-found"
        r = parse_raws(lines)
        if r and not r[0].null and r[0].entries:
            return "entries after a failed read"
        return None
    if m.get("tree"):
        if "bad_path" not in m:
            return None
        opens = [l for l in lines if l.startswith("open ")]
        res = next((l for l in lines if l.startswith(("rc ", "rd "))), "")
        consulted = "open " + h(m["bad_path"].replace(b"//", b"/")) in [o.replace("2f2f", "2f") for o in opens]
        if not consulted:
            return None      # the malformed file was masked by a main file of a higher layer
        code = KINDS[m["kind"]]
        if not res.startswith("%s E%d" % (res.split()[0], code)):
            return "malformed %s in %r: result %r, expected E%d" % (m["kind"], m["bad_path"], res, code)
        # the malformed file is the last one opened, and the location names it
        loc = next((l for l in lines if l.startswith("errloc ")), "")
        if loc.split()[1] != opens[-1].split()[1] or int(loc.split()[2]) != m["line"]:
            return "error location %r, expected %r line %d" % (loc, opens[-1], m["line"])
        r = parse_raws(lines)
        if r and not r[0].null and r[0].entries:
            return "a partial configuration (%d entries) is handed back" % len(r[0].entries)
        if m["fresh"] and not res.endswith("null"):
            return "out pointer not NULL after a failed read into a NULL pointer"
        return None
    if "kind" not in m:
        return None
    code = KINDS[m["kind"]]
    want = ["rf E%d null" % code, "slot null", "errloc %s %d" % (h(m.get("path", PATH)), m["line"])]
    k = m.get("prior", 0)
    if m.get("python"):
        got = lines[k:k + 4]
        if len(got) < 4 or got[0] != "new E0 obj" or not got[1].startswith("rc E%d " % code) or got[3] != want[2]:
            return "malformed line %r (%s) at line %d, python style: got %r, expected code %d and %r" % (m["bad"], m["kind"], m["line"], got, code, want[2])
        return None
    if lines[k:k + 3] != want:
        return "malformed line %r (%s) at line %d%s: got %r, expected %r" % (
            m["bad"], m["kind"], m["line"], " after an earlier read with other delimiter characters" if k else "", lines[k:k + 3], want)
    return None


def nontrivial(s, lines):
    m = s.meta
    if m.get("tree"):
        return ("tree", tuple(s.lines)) if "bad_path" in m else None
    if "kind" in m:
        return (m["content"], m["delim"], m["comment"])
    return ("misc", m.get("misc"))


def histogram(s, lines):
    if s.meta.get("python"):
        return ["kind_" + s.meta["kind"], "python_style"]
    m = s.meta
    if m.get("tree"):
        return ["tree_" + m["shape"], "tree_kind_" + m.get("kind", "none")] + (["tree_layer_is_regular_file"] if m.get("plain_layer") else [])
    if "kind" in m:
        return ["kind_" + m["kind"], "pos_" + m["pos"], "line_%s" % ("1" if m["line"] == 1 else "2-5" if m["line"] <= 5 else "6+")]
    return ["misc"]
