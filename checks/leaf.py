"""The string helpers that gen/c2lean.py translates (stripbrackets, addbrackets, toLowerCase, hashstring, ltrim, rtrim,
trim, check_delim, replace_str): the real C function (harness/leaf.c, ASan+UBSan, arguments in tight heap blocks), the
translated term run by the MiniC interpreter (econf_model --leaf) and an independent specification in Python are
evaluated on the same inputs.  This validates the trusted part of the translator route (the MiniC semantics and the
translation itself) and supplies the failing input when a theorem of lean/Econf/Props/Leaf.lean no longer checks."""
import itertools
import subprocess

from vlib import build
from checks import common

SPACE = b" \t\n\v\f\r"
ALPHA_SMALL = [0x20, 0x09, 0x5b, 0x5d, 0x41, 0x7a, 0x3d, 0x80]
ALPHA = list(b" \t\n\r\v\f[]AZazMm09=#\"\\tn-_@`{") + [0x01, 0x7f, 0x80, 0xc3, 0xff]


def hx(b):
    return "h" + bytes(b).hex()


# ---------- specifications
def spec_stripbrackets(s):
    if len(s) >= 1 and s[:1] == b"[" and s[-1:] == b"]":
        return "0 " + hx(s[1:].split(b"]")[0])
    return "0 " + hx(s)


def spec_addbrackets(s):
    r = s if (s[:1] == b"[" and s[-1:] == b"]") else b"[" + s + b"]"
    return hx(r) + " " + hx(s)


def spec_lower(s):
    return "0 " + hx(bytes(c + 32 if 65 <= c <= 90 else c for c in s))


def spec_hash(s):
    hh = 5381
    for c in s:
        sc = c - 256 if c >= 128 else c
        hh = (hh * 33 + sc) % (1 << 64)
    return str(hh)


def lspan(s):
    n = 0
    while n < len(s) and s[n] in SPACE:
        n += 1
    return n


def spec_ltrim(s):
    return "%d %s" % (lspan(s), hx(s))


def rstrip_c(s):
    n = len(s)
    while n > 0 and s[n - 1] in SPACE:
        n -= 1
    return s[:n]


def spec_rtrim(s):
    return "0 " + hx(rstrip_c(s))


def spec_trim(s):
    n = lspan(s)
    return "%d %s" % (n, hx(rstrip_c(s[n:])))


def spec_check_delim(s):
    return "%d %d" % (any(c in SPACE for c in s), any(c not in SPACE for c in s))


def spec_replace(s, o, r):
    if len(r) > len(o) or o not in s:
        return "0 " + hx(s)
    i = s.index(o)
    return "0 " + hx(s[:i] + r + s[i + len(o):])


SPECS = {"stripbrackets": spec_stripbrackets, "addbrackets": spec_addbrackets, "toLowerCase": spec_lower, "hashstring": spec_hash,
         "ltrim": spec_ltrim, "rtrim": spec_rtrim, "trim": spec_trim, "check_delim": spec_check_delim}


def valid(fn, s):
    if fn == "rtrim":
        # rtrim() is only ever called on what ltrim() returns: the empty string or a string with a non-blank byte
        return len(s) == 0 or any(c not in SPACE for c in s)
    return True


def inputs(fn, tier, rng):
    """-> list of argument tuples (bytes without NUL)"""
    out = []
    if fn == "replace_str":
        pairs = [(b"\\t", b"\t"), (b"\\n", b"\n"), (b"ab", b"a"), (b"a", b""), (b"abc", b"abc"), (b"x", b"yz"), (b"", b""), (b"\\t", b"")]
        for _ in range(400 if tier == "quick" else 20000):
            o, r = rng.choice(pairs)
            n = rng.randint(0, 12)
            s = bytes(rng.choice(list(b"ab\\tnxyz \t") if rng.random() < 0.8 else ALPHA) for _ in range(n))
            if rng.random() < 0.5 and o:
                i = rng.randint(0, len(s))
                s = s[:i] + o + s[i:]
            out.append((s, o, r))
        return out
    maxlen = 3 if tier == "quick" else 4
    for n in range(maxlen + 1):
        for t in itertools.product(ALPHA_SMALL, repeat=n):
            out.append((bytes(t),))
    for _ in range(600 if tier == "quick" else 30000):
        n = rng.choice([0, 1, 2, 5, 9, 17, 40, 100])
        kind = rng.random()
        if kind < 0.3:
            s = bytes(rng.choice(b" \t\n") for _ in range(n))
        elif kind < 0.6:
            core = bytes(rng.choice(ALPHA) for _ in range(n))
            s = bytes(rng.choice(b" \t") for _ in range(rng.randint(0, 3))) + core + bytes(rng.choice(b" \t\r") for _ in range(rng.randint(0, 3)))
        else:
            s = b"[" * rng.randint(0, 2) + bytes(rng.choice(ALPHA) for _ in range(n)) + b"]" * rng.randint(0, 2)
        out.append((s,))
    return [a for a in out if valid(fn, a[0])]


def run_lines(harness, lines):
    """-> (impl lines or None on crash, model lines, impl stderr)"""
    text = ("\n".join(lines) + "\n").encode()
    p = subprocess.run([harness["leaf"]], input=text, stdout=subprocess.PIPE, stderr=subprocess.PIPE,
                       env={"ASAN_OPTIONS": "detect_leaks=0:abort_on_error=0"}, timeout=600)
    impl = p.stdout.decode("latin-1").split("\n")[:-1]
    q = subprocess.run([build.model_exe(), "--leaf"], input=text, stdout=subprocess.PIPE, stderr=subprocess.PIPE, timeout=600)
    model = q.stdout.decode("latin-1").split("\n")[:-1]
    return impl, model, p.stderr.decode("latin-1"), p.returncode


def run(res, harness, tier, rng, fns):
    for fn in fns:
        args = inputs(fn, tier, rng)
        lines = ["%s %s" % (fn, " ".join(hx(a) for a in t)) for t in args]
        impl, model, err, rc = run_lines(harness, lines)
        res.evaluations += len(lines)
        res.direct_distinct += len(set(lines))
        res.hist["leaf_%s" % fn] = len(lines)
        bad = []
        if rc != 0 or len(impl) != len(lines):
            # a sanitizer report: find the first input that triggers it
            for ln in lines:
                i1, _, e1, rc1 = run_lines(harness, [ln])
                if rc1 != 0 or len(i1) != 1:
                    bad.append((ln, "the C function: sanitizer report or crash\n" + e1[-1500:], None, None))
                    break
        for k, (ln, t) in enumerate(zip(lines, args)):
            want = fn + " " + (spec_replace(*t) if fn == "replace_str" else SPECS[fn](*t))
            il = impl[k] if k < len(impl) else None
            ml = model[k] if k < len(model) else None
            if il is not None and il != want:
                bad.append((ln, "the C function returns %r, the specification of the helper says %r" % (il, want), il, ml))
            elif ml != want:
                bad.append((ln, "the translated function (MiniC) returns %r, the C function %r, the specification %r" % (ml, il, want), il, ml))
            if len(bad) >= 3:
                break
        for ln, why, il, ml in bad[:2]:
            if len(res.violations) < 5:
                p = common.write_replay(res, "leaf_%s_%d" % (fn, len(res.violations) + 1), None,
                                        "string helper %s: %s\ninput line (replay with: check.py %s --replay <this file>):" % (fn, why, res.pid))
                with open(p, "a") as f:
                    f.write("LEAF %s\n" % ln)
                res.violations.append((p, "helper %s: %s" % (fn, why.split("\n")[0]), False))


def replay(res, harness, path):
    lines = [l[5:].strip() for l in open(path) if l.startswith("LEAF ")]
    if not lines:
        return False
    impl, model, err, rc = run_lines(harness, lines)
    for ln, il, ml in zip(lines, impl + [None] * len(lines), model + [None] * len(lines)):
        fn = ln.split()[0]
        t = [bytes.fromhex(x[1:]) for x in ln.split()[1:]]
        want = fn + " " + (spec_replace(*t) if fn == "replace_str" else SPECS[fn](*t))
        print("LEAF %s\n  C function : %s\n  MiniC      : %s\n  expected   : %s" % (ln, il, ml, want))
        res.evaluations += 1
        if il != want or ml != want or rc != 0:
            res.violations.append((path, "helper %s" % fn, False))
    if rc != 0:
        print(err[-2000:])
    return True
