"""The helpers that gen/c2lean.py translates (stripbrackets, addbrackets, toLowerCase, hashstring, ltrim, rtrim,
trim, check_delim, replace_str; over the entry array of an econf_file: has_group, first_entry, first_definition, find_key,
getFromGroupList; the copying half of the merge: setGroupList, cpy_file_entry and - as "merge3" - insert_nogroup,
merge_existing_groups, add_new_groups in the order econf_mergeFiles calls them): the real C function (harness/leaf.c, ASan+UBSan, arguments in tight heap blocks), the
translated term run by the MiniC interpreter (econf_model --leaf) and an independent specification in Python are
evaluated on the same inputs.  This validates the trusted part of the translator route (the MiniC semantics and the
translation itself) and supplies the failing input when a theorem of lean/Econf/Props/Leaf.lean no longer checks."""
import itertools
import subprocess

from vlib import build
from checks import common

SPACE = b" \t\n\v\f\r"
ALPHA_SMALL = [0x20, 0x09, 0x5b, 0x5d, 0x41, 0x7a, 0x3d, 0x80]
ALPHA = list(b" \t\n\r\v\f[]AZazMm09=#\"\\tn-_@`{") + [0x01, 0x7f, 0x80, 0xc3, 0xff]


def hx(b):
    return "h" + bytes(b).hex()


# ---------- specifications
def spec_stripbrackets(s):
    if len(s) >= 1 and s[:1] == b"[" and s[-1:] == b"]":
        return "0 " + hx(s[1:].split(b"]")[0])
    return "0 " + hx(s)


def spec_addbrackets(s):
    r = s if (s[:1] == b"[" and s[-1:] == b"]") else b"[" + s + b"]"
    return hx(r) + " " + hx(s)


def spec_lower(s):
    return "0 " + hx(bytes(c + 32 if 65 <= c <= 90 else c for c in s))


def spec_hash(s):
    hh = 5381
    for c in s:
        sc = c - 256 if c >= 128 else c
        hh = (hh * 33 + sc) % (1 << 64)
    return str(hh)


def lspan(s):
    n = 0
    while n < len(s) and s[n] in SPACE:
        n += 1
    return n


def spec_ltrim(s):
    return "%d %s" % (lspan(s), hx(s))


def rstrip_c(s):
    n = len(s)
    while n > 0 and s[n - 1] in SPACE:
        n -= 1
    return s[:n]


def spec_rtrim(s):
    return "0 " + hx(rstrip_c(s))


def spec_trim(s):
    n = lspan(s)
    return "%d %s" % (n, hx(rstrip_c(s[n:])))


def spec_check_delim(s):
    return "%d %d" % (any(c in SPACE for c in s), any(c not in SPACE for c in s))


def spec_replace(s, o, r):
    if len(r) > len(o) or o not in s:
        return "0 " + hx(s)
    i = s.index(o)
    return "0 " + hx(s[:i] + r + s[i + len(o):])


SPECS = {"stripbrackets": spec_stripbrackets, "addbrackets": spec_addbrackets, "toLowerCase": spec_lower, "hashstring": spec_hash,
         "ltrim": spec_ltrim, "rtrim": spec_rtrim, "trim": spec_trim, "check_delim": spec_check_delim}


def valid(fn, s):
    if fn == "rtrim":
        # rtrim() is only ever called on what ltrim() returns: the empty string or a string with a non-blank byte
        return len(s) == 0 or any(c not in SPACE for c in s)
    return True


def inputs(fn, tier, rng):
    """-> list of argument tuples (bytes without NUL)"""
    out = []
    if fn == "replace_str":
        pairs = [(b"\\t", b"\t"), (b"\\n", b"\n"), (b"ab", b"a"), (b"a", b""), (b"abc", b"abc"), (b"x", b"yz"), (b"", b""), (b"\\t", b"")]
        for _ in range(400 if tier == "quick" else 20000):
            o, r = rng.choice(pairs)
            n = rng.randint(0, 12)
            s = bytes(rng.choice(list(b"ab\\tnxyz \t") if rng.random() < 0.8 else ALPHA) for _ in range(n))
            if rng.random() < 0.5 and o:
                i = rng.randint(0, len(s))
                s = s[:i] + o + s[i:]
            out.append((s, o, r))
        return out
    maxlen = 3 if tier == "quick" else 4
    for n in range(maxlen + 1):
        for t in itertools.product(ALPHA_SMALL, repeat=n):
            out.append((bytes(t),))
    for _ in range(600 if tier == "quick" else 30000):
        n = rng.choice([0, 1, 2, 5, 9, 17, 40, 100])
        kind = rng.random()
        if kind < 0.3:
            s = bytes(rng.choice(b" \t\n") for _ in range(n))
        elif kind < 0.6:
            core = bytes(rng.choice(ALPHA) for _ in range(n))
            s = bytes(rng.choice(b" \t") for _ in range(rng.randint(0, 3))) + core + bytes(rng.choice(b" \t\r") for _ in range(rng.randint(0, 3)))
        else:
            s = b"[" * rng.randint(0, 2) + bytes(rng.choice(ALPHA) for _ in range(n)) + b"]" * rng.randint(0, 2)
        out.append((s,))
    return [a for a in out if valid(fn, a[0])]


# ---------- functions over the entry array / the group list of an econf_file
KF_FNS = ("has_group", "first_entry", "first_definition", "find_key", "getFromGroupList")
NONE = b"_none_"
KF_GROUPS = [b"A", b"B", b"", NONE, b"AB", b"a", b"[A]", b"ab", b"bA", b"_nooD_"]   # ab / bA and _none_ / _nooD_: same djb2 hash
KF_KEYS = [b"x", b"y", b"xy", b"", b"X"]


def ents_token(ents):
    return "e" + ",".join(hx(g) + ":" + hx(k) for g, k in ents)


def arg_token(a):
    return "-" if a is None else ("n%d" % a if isinstance(a, int) else hx(a))


def first_entry_spec(ents, g, k):
    for i, (eg, ek) in enumerate(ents):
        if eg == g and ek == k:
            return i
    return len(ents)


def kf_spec(fn, obj, args):
    if fn == "has_group":
        return "%d" % any(g == args[0] for g, _ in obj)
    if fn == "first_entry":
        return "%d" % first_entry_spec(obj, args[0], args[1])
    if fn == "first_definition":
        g, k = obj[args[0]]
        return "%d" % (first_entry_spec(obj, g, k) == args[0])
    if fn == "find_key":
        g, k = args
        grp = NONE if not g else g
        if not k:
            return "E1 -"
        i = first_entry_spec(obj, grp, k)
        return "E0 %d" % i if i < len(obj) else "E5 -"
    if fn == "getFromGroupList":
        for i, g in enumerate(obj):
            if g == args[0]:
                return "%d" % i
        return "null"
    raise KeyError(fn)


def kf_cases(fn, tier, rng):
    """-> list of (input line, expected output line)"""
    out = []

    def add(obj, args):
        tok = ("g" + ",".join(hx(g) for g in obj)) if fn == "getFromGroupList" else ents_token(obj)
        out.append(("%s %s %s" % (fn, tok, " ".join(arg_token(a) for a in args)), fn + " " + kf_spec(fn, obj, args)))

    def arg_sets(obj):
        if fn == "has_group":
            return [(g,) for g in KF_GROUPS[:4]]
        if fn == "first_entry":
            return [(g, k) for g in KF_GROUPS[:3] for k in KF_KEYS[:3]]
        if fn == "first_definition":
            return [(i,) for i in range(len(obj))]
        if fn == "find_key":
            return [(g, k) for g in (None, b"", b"A", NONE) for k in (None, b"", b"x", b"y")]
        return [(g,) for g in KF_GROUPS[:4]]

    # every object of up to 2 (thorough: 3) entries over a tiny universe, with every argument
    small = [(g, k) for g in KF_GROUPS[:3] for k in KF_KEYS[:2]] if fn != "getFromGroupList" else KF_GROUPS[:4]
    for n in range(0, (3 if tier == "quick" else 4)):
        for obj in itertools.product(small, repeat=n):
            for a in arg_sets(list(obj)):
                add(list(obj), a)
    # longer random objects (repeated definitions, look-alike names)
    for _ in range(400 if tier == "quick" else 20000):
        n = rng.choice([1, 2, 3, 5, 8, 13, 40])
        if fn == "getFromGroupList":
            obj = [rng.choice(KF_GROUPS) for _ in range(n)]
            add(obj, (rng.choice(KF_GROUPS),))
            continue
        obj = [(rng.choice(KF_GROUPS), rng.choice(KF_KEYS)) for _ in range(n)]
        if fn == "has_group":
            add(obj, (rng.choice(KF_GROUPS),))
        elif fn == "first_entry":
            add(obj, (rng.choice(KF_GROUPS), rng.choice(KF_KEYS)))
        elif fn == "first_definition":
            add(obj, (rng.randrange(n),))
        else:
            add(obj, (rng.choice(KF_GROUPS + [None]), rng.choice(KF_KEYS + [None])))
    return out


# ---------- the copying half of the merge (setGroupList, cpy_file_entry, the three steps of econf_mergeFiles)
MERGE_FNS = ("setGroupList", "cpy_file_entry", "merge3", "mergeFiles")


def ents3_token(ents):
    return "e" + ",".join(hx(g) + ":" + hx(k) + ":" + ("-" if v is None else hx(v)) for g, k, v in ents)


def opt_tok(v):
    return "-" if v is None else hx(v)


def merge_spec(uf, ef):
    """entries (group, key, value, line) of the result of the three steps, the lengths after each step, the group list"""
    ufl = [(g, k, v, 10 + i) for i, (g, k, v) in enumerate(uf)]
    efl = [(g, k, v, 10 + i) for i, (g, k, v) in enumerate(ef)]

    def first_defs(l):
        seen, out = set(), []
        for e in l:
            if (e[0], e[1]) not in seen:
                out.append(e)
            seen.add((e[0], e[1]))
        return out

    ef1 = first_defs(efl)
    res = []
    if not any(g == NONE for g, _, _, _ in ufl):
        res += [e for e in ef1 if e[0] == NONE]
    l1 = len(res)
    for i, (g, k, v, ln) in enumerate(ufl):
        ov = next((e for e in efl if e[0] == g and e[1] == k), None)
        res.append((g, k, v if ov is None else (ov[2] if ov[2] is not None else b""), ln))
        if not any(e[0] == g for e in ufl[i + 1:]):
            res += [e for e in ef1 if e[0] == g and not any(u[0] == g and u[1] == e[1] for u in ufl)]
    l2 = len(res)
    res += [e for e in ef1 if e[0] != NONE and not any(u[0] == e[0] for u in ufl)]
    groups = []
    for e in res:
        if e[0] not in groups:
            groups.append(e[0])
    return res, (l1, l2, len(res)), groups


def merge_expected(fn, t):
    if fn == "setGroupList":
        groups, name = t
        out = list(groups) if name in groups else list(groups) + [name]
        return "%d g%s" % (out.index(name), ",".join(hx(g) for g in out))
    if fn == "cpy_file_entry":
        groups, ents, i = t
        g, k, v = ents[i]
        out = list(groups) if g in groups else list(groups) + [g]
        return "%d %s %s - - %d 0 g%s" % (out.index(g), hx(k), opt_tok(v), 10 + i, ",".join(hx(x) for x in out))
    uf, ef = t
    res, (l1, l2, l3), groups = merge_spec(uf, ef)
    if fn == "mergeFiles":
        # econf_mergeFiles: success, length = alloc_length = number of entries, the base's delimiter and comment characters, no path
        return "E0 %d %d 61 35 - e%s g%s" % (l3, l3, ",".join("%d:%s:%s:%d:0" % (groups.index(g), hx(k), opt_tok(v), ln) for g, k, v, ln in res),
                                           ",".join(hx(x) for x in groups))
    return "%d %d %d e%s g%s" % (l1, l2, l3, ",".join("%d:%s:%s:%d:0" % (groups.index(g), hx(k), opt_tok(v), ln) for g, k, v, ln in res),
                                  ",".join(hx(x) for x in groups))


def merge_line(fn, t):
    if fn == "setGroupList":
        return "%s g%s %s" % (fn, ",".join(hx(g) for g in t[0]), hx(t[1]))
    if fn == "cpy_file_entry":
        return "%s g%s %s n%d" % (fn, ",".join(hx(g) for g in t[0]), ents3_token(t[1]), t[2])
    return "%s %s %s" % (fn, ents3_token(t[0]), ents3_token(t[1]))


def merge_parse(ln):
    t = ln.split()
    fn = t[0]

    def groups(tok):
        return [bytes.fromhex(x[1:]) for x in tok[1:].split(",") if x]

    def ents(tok):
        out = []
        for x in [y for y in tok[1:].split(",") if y]:
            f = x.split(":")
            out.append((bytes.fromhex(f[0][1:]), bytes.fromhex(f[1][1:]), None if f[2] == "-" else bytes.fromhex(f[2][1:])))
        return out
    if fn == "setGroupList":
        return fn, (groups(t[1]), bytes.fromhex(t[2][1:]))
    if fn == "cpy_file_entry":
        return fn, (groups(t[1]), ents(t[2]), int(t[3][1:]))
    return fn, (ents(t[1]), ents(t[2]))


def merge_cases(fn, tier, rng):
    out = []
    G = [NONE, b"A", b"B", b"AB", b"ab", b"bA", b"_nooD_"]
    K = [b"x", b"y", b"xy", b"ab", b"bA", b"_none_"]       # (a key may be called like the library's placeholder text)
    V = [b"1", b"two words", None, b"", b"_none_"]

    def add(t):
        out.append((merge_line(fn, t), fn + " " + merge_expected(fn, t)))
    if fn == "setGroupList":
        for n in range(0, 4):
            for gs in itertools.permutations(G, n):
                for name in G:
                    add((list(gs), name))
        for _ in range(200 if tier == "quick" else 5000):
            gs = rng.sample([NONE, b"A", b"B", b"AB", b"a", b"[A]", b"C", b"D", b"E", b"ab", b"bA"], rng.randint(0, 9))
            add((gs, rng.choice(G + [b"a", b"zz"])))
        return out
    if fn == "cpy_file_entry":
        for _ in range(400 if tier == "quick" else 10000):
            gs = rng.sample(G, rng.randint(0, 4))
            ents = [(rng.choice(G), rng.choice(K), rng.choice(V)) for _ in range(rng.randint(1, 4))]
            add((gs, ents, rng.randrange(len(ents))))
        return out
    small = [(g, k, v) for g in G[:3] for k in K[:2] for v in (b"1", None)]
    for nu in range(0, 3):
        for ne in range(0, 3):
            pool = list(itertools.product(small, repeat=nu))
            pool2 = list(itertools.product(small, repeat=ne))
            for uf in (pool if len(pool) <= 40 else rng.sample(pool, 40)):
                for ef in (pool2 if len(pool2) <= 40 else rng.sample(pool2, 12 if tier == "quick" else 40)):
                    add((list(uf), list(ef)))
    for _ in range(600 if tier == "quick" else 20000):
        # sections that are opened again, keys defined twice, group-less keys anywhere
        uf = [(rng.choice(G), rng.choice(K), rng.choice(V)) for _ in range(rng.choice([0, 1, 2, 3, 5, 8, 13]))]
        ef = [(rng.choice(G), rng.choice(K), rng.choice(V)) for _ in range(rng.choice([0, 1, 2, 3, 5, 8, 13]))]
        add((uf, ef))
    return out


# ---------- the getters that return arrays through out-parameters (econf_getGroups, econf_getKeys)
GETTER_FNS = ("getGroups", "getKeys")


def getter_expected(fn, obj, grp, mode):
    """documented behaviour.  econf_getGroups: the names of all groups except the pseudo group of the group-less keys, in the
    order of the object, their number in *length, the array NULL-terminated; ECONF_ERROR without an object or without a place for
    the array, ECONF_NOGROUP for an object without groups - nothing is written then.  econf_getKeys: the keys of the entries of
    the group (NULL or "" = the group-less keys), in order, repeated definitions included; *length (when given) is set to 0 first;
    ECONF_ERROR without an object, ECONF_NOKEY when the group has no entry - the array pointer is not written then."""
    if fn == "getGroups":
        if obj is None or mode == "g":
            return "E1 77 same"
        if not obj:
            return "E4 77 same"
        names = [g for g in obj if g != NONE]
        if not names:
            return "E0 0 null"          # only the pseudo group: success, no array
        return "E0 %d g%s" % (len(names), ",".join(hx(g) for g in names))
    ln = 77 if mode == "l" else 0
    if obj is None:
        return "E1 %d same" % ln
    g = NONE if not grp else grp
    keys = [k for eg, k in obj if eg == g]
    if not keys:
        return "E5 %d same" % ln
    return "E0 %d g%s" % (77 if mode == "l" else len(keys), ",".join(hx(k) for k in keys))


def getter_line(fn, obj, grp, mode):
    if fn == "getGroups":
        return "%s %s %s" % (fn, "-" if obj is None else "g" + ",".join(hx(g) for g in obj), mode)
    return "%s %s %s %s" % (fn, "-" if obj is None else ents_token(obj), arg_token(grp), mode)


def getter_parse(ln):
    t = ln.split()
    fn = t[0]
    items = [x for x in t[1][1:].split(",") if x]
    if fn == "getGroups":
        return fn, (None if t[1] == "-" else [bytes.fromhex(x[1:]) for x in items]), None, t[2]
    obj = None if t[1] == "-" else [tuple(bytes.fromhex(y[1:]) for y in x.split(":")) for x in items]
    return fn, obj, (None if t[2] == "-" else bytes.fromhex(t[2][1:])), t[3]


def getter_cases(fn, tier, rng):
    out = []

    def add(obj, grp, mode):
        out.append((getter_line(fn, obj, grp, mode), fn + " " + getter_expected(fn, obj, grp, mode)))
    if fn == "getGroups":
        add(None, None, "n")
        add(None, None, "g")
        small = [NONE, b"A", b"B", b"", b"_nooD_"]
        for n in range(0, (4 if tier == "quick" else 5)):
            for obj in itertools.product(small, repeat=n):
                add(list(obj), None, "n")
                if n < 3:
                    add(list(obj), None, "g")
        for _ in range(400 if tier == "quick" else 20000):
            n = rng.choice([1, 2, 3, 5, 8, 13, 40])
            obj = [rng.choice(KF_GROUPS if rng.random() < 0.7 else [NONE, b"A"]) for _ in range(n)]
            add(obj, None, "n" if rng.random() < 0.95 else "g")
        return out
    grps = [None, b"", b"A", NONE, b"B", b"_nooD_"]
    for g in grps:
        add(None, g, "n")
        add(None, g, "l")
    small = [(g, k) for g in (NONE, b"A", b"B") for k in KF_KEYS[:2]]
    for n in range(0, (3 if tier == "quick" else 4)):
        for obj in itertools.product(small, repeat=n):
            for g in grps[:5]:
                add(list(obj), g, "n")
                if n < 2:
                    add(list(obj), g, "l")
    for _ in range(400 if tier == "quick" else 20000):
        n = rng.choice([1, 2, 3, 5, 8, 13, 40])
        obj = [(rng.choice(KF_GROUPS), rng.choice(KF_KEYS)) for _ in range(n)]
        add(obj, rng.choice(KF_GROUPS + [None]), "n" if rng.random() < 0.9 else "l")
    return out


def expected(ln):
    """expected output of an input line (replay)"""
    t = ln.split()
    fn = t[0]
    if fn in GETTER_FNS:
        f2, obj, grp, mode = getter_parse(ln)
        return fn + " " + getter_expected(f2, obj, grp, mode)
    if fn in MERGE_FNS:
        f2, tt = merge_parse(ln)
        return fn + " " + merge_expected(f2, tt)
    if fn in KF_FNS:
        items = [x for x in t[1][1:].split(",") if x] if len(t[1]) > 1 else []
        if fn == "getFromGroupList":
            obj = [bytes.fromhex(x[1:]) for x in items]
        else:
            obj = [tuple(bytes.fromhex(y[1:]) for y in x.split(":")) for x in items]
        args = [None if a == "-" else (int(a[1:]) if a.startswith("n") else bytes.fromhex(a[1:])) for a in t[2:]]
        return fn + " " + kf_spec(fn, obj, args)
    a = [bytes.fromhex(x[1:]) for x in t[1:]]
    return fn + " " + (spec_replace(*a) if fn == "replace_str" else SPECS[fn](*a))


def run_lines(harness, lines):
    """-> (impl lines or None on crash, model lines, impl stderr)"""
    text = ("\n".join(lines) + "\n").encode()
    p = subprocess.run([harness["leaf"]], input=text, stdout=subprocess.PIPE, stderr=subprocess.PIPE,
                       env={"ASAN_OPTIONS": "detect_leaks=0:abort_on_error=0"}, timeout=600)
    impl = p.stdout.decode("latin-1").split("\n")[:-1]
    q = subprocess.run([build.model_exe(), "--leaf"], input=text, stdout=subprocess.PIPE, stderr=subprocess.PIPE, timeout=600)
    model = q.stdout.decode("latin-1").split("\n")[:-1]
    return impl, model, p.stderr.decode("latin-1"), p.returncode


def run(res, harness, tier, rng, fns):
    for fn in fns:
        if fn in MERGE_FNS:
            cases = merge_cases(fn, tier, rng)
        elif fn in KF_FNS:
            cases = kf_cases(fn, tier, rng)
        elif fn in GETTER_FNS:
            cases = getter_cases(fn, tier, rng)
        else:
            cases = [("%s %s" % (fn, " ".join(hx(a) for a in t)), None) for t in inputs(fn, tier, rng)]
            cases = [(ln, expected(ln)) for ln, _ in cases]
        lines = [c[0] for c in cases]
        impl, model, err, rc = run_lines(harness, lines)
        res.evaluations += len(lines)
        res.direct_distinct += len(set(lines))
        res.hist["leaf_%s" % fn] = len(lines)
        bad = []
        if rc != 0 or len(impl) != len(lines):
            # a sanitizer report: find the first input that triggers it
            for ln in lines:
                i1, _, e1, rc1 = run_lines(harness, [ln])
                if rc1 != 0 or len(i1) != 1:
                    bad.append((ln, "the C function: sanitizer report or crash\n" + e1[-1500:], None, None, False))
                    break
        for k, (ln, want) in enumerate(cases):
            il = impl[k] if k < len(impl) else None
            ml = model[k] if k < len(model) else None
            if il is not None and il != want:
                bad.append((ln, "the C function returns %r, the specification of the helper says %r" % (il, want), il, ml, False))
            elif ml != want:
                # the C function does what the specification says on this input: only the translated term (or the translator) no longer
                # corresponds to it - a broken correspondence, not a failing input of the library
                bad.append((ln, "the translated function (MiniC) returns %r, the C function %r, the specification %r" % (ml, il, want), il, ml, il == want))
            # (inputs on which only the translated term disagrees are kept to two; the search for an input on which the C function
            # itself departs from the specification goes on)
            if sum(1 for b in bad if b[4]) > 2:
                bad.remove(next(b for b in reversed(bad) if b[4]))
            if sum(1 for b in bad if not b[4]) >= 3:
                break
        # (failing inputs of the C function first)
        bad.sort(key=lambda b: b[4])
        for ln, why, il, ml, nofail in bad[:2]:
            if len(res.violations) < 5:
                p = common.write_replay(res, "leaf_%s_%d" % (fn, len(res.violations) + 1), None,
                                        "string helper %s: %s\ninput line (replay with: check.py %s --replay <this file>):" % (fn, why, res.pid))
                with open(p, "a") as f:
                    f.write("LEAF %s\n" % ln)
                res.violations.append((p, "helper %s: %s" % (fn, why.split("\n")[0]), nofail))


def replay(res, harness, path):
    lines = [l[5:].strip() for l in open(path) if l.startswith("LEAF ")]
    if not lines:
        return False
    impl, model, err, rc = run_lines(harness, lines)
    for ln, il, ml in zip(lines, impl + [None] * len(lines), model + [None] * len(lines)):
        fn = ln.split()[0]
        want = expected(ln)
        print("LEAF %s\n  C function : %s\n  MiniC      : %s\n  expected   : %s" % (ln, il, ml, want))
        res.evaluations += 1
        if il != want or ml != want or rc != 0:
            res.violations.append((path, "helper %s" % fn, False))
    if rc != 0:
        print(err[-2000:])
    return True
