"""C18 - threads working on their own configuration objects do not disturb each other."""
import os
import re
import subprocess
import concurrent.futures as cf
from vlib import build, scn, gen_ops
from vlib.scn import Scenario, h
from checks import common

from gen import extract_facts
generate_facts = extract_facts.generate

ID = "C18"
LEAN_MODULES = ["Econf.Props.C18", "Econf.Props.Struct"]
THEOREMS = ["Econf.C18_noninterference", "Econf.C18_frame_keeps_file", "Econf.C18_frame_indep_file", "Econf.C18_frame_indep_history", "Econf.C18_model_noninterference", "Econf.Struct.C18_globals"]
SHRINK = False
RULE = ("groups of 2..16 threads in one process (ThreadSanitizer build of the harness), each running its own call sequence (read single "
        "files and two-directory trees, query, set, merge, write, re-read, free) on private objects and private directories; every "
        "thread's output is compared with the model's output for its sequence run alone; ThreadSanitizer reports are violations except "
        "on the documented process-wide error-location record; non-trivial = a thread scenario that ran concurrently with at least one "
        "other; distinct by scenario text")
ASSUMPTIONS = ["only executed interleavings are observed; races inside a single API call are visible to ThreadSanitizer only"]
ALLOWED = ("last_scanned_line_nr", "last_scanned_filename")

FILES = [b"x=1\ny=Two Words\n[A]\nx=Yes\nz=\n[B]\nw = \"q # t\" # c\n", b"# lead\nk1=v1\n\n[S1]\n# c1\na=TRUE # t\nb=multi\n  line\n",
         b"x=0x1F\n[A]\ny=-12\n[A]\nx=077\n", b"", b"[broken\n", b"k=v\nbad line without delimiter\n"]


# configurations of a size at which a library might switch to another data structure (several hundred entries to merge)
BIG_A = b"".join(b"[s%d]\n" % g + b"".join(b"k%d=a%d\n" % (k, k) for k in range(12)) for g in range(12))
BIG_B = b"".join(b"[s%d]\n" % g + b"".join(b"k%d=b%d\n" % (k, k) for k in range(0, 24, 2)) for g in range(6, 18))

LONGVAL = b"m=line0\n" + b"".join(b"   line%d of the value\n" % k for k in range(1, 40))


def thread_scenario(rng, sid, i, base):
    pre = base + b"/t%d" % i
    s = Scenario(sid, {"thread": i})
    if rng.random() < 0.3:
        # many extended-value queries on a value of many lines: the line splitting of the getter runs for a while in every thread
        p = pre + b"/long.conf"
        s.file(p, LONGVAL + b"k=%d\n" % i)
        s.add("RF", 0, h(p), h(b"="), h(b"#"))
        for _ in range(rng.randint(30, 80)):
            s.add("EXT", 0, "-", h(b"m"))
        s.add("GET", 0, "str", "-", h(b"k"))
        s.add("FREE", 0)
    if rng.random() < 0.25:
        # a large merge of the thread's own: two files of about 150 entries each, and the same as a layered read
        s.file(pre + b"/big/usr/cfg.conf", BIG_A)
        s.file(pre + b"/big/etc/cfg.conf.d/z.conf", BIG_B)
        for _ in range(rng.randint(2, 6)):
            s.add("RF", 0, h(pre + b"/big/usr/cfg.conf"), h(b"="), h(b"#"))
            s.add("RF", 1, h(pre + b"/big/etc/cfg.conf.d/z.conf"), h(b"="), h(b"#"))
            s.add("M", 2, 0, 1)
            s.add("GET", 2, "str", h(b"s7"), h(b"k4"))
            s.add("GET", 2, "str", h(b"s17"), h(b"k22"))
            s.add("GET", 2, "str", h(b"s0"), h(b"k11"))
            for k in (2, 1, 0):
                s.add("FREE", k)
            s.add("RD", 0, h(pre + b"/big/usr"), h(pre + b"/big/etc"), h(b"cfg"), h(b"conf"), h(b"="), h(b"#"))
            s.add("GET", 0, "str", h(b"s9"), h(b"k6"))
            s.add("FREE", 0)
    for _ in range(rng.randint(1, 3)):
        r = rng.random()
        if r < 0.4:
            p = pre + b"/f%d.conf" % rng.randint(0, 3)
            s.file(p, rng.choice(FILES))
            s.add("RF", 0, h(p), h(b"="), h(b"#"), *( ["cb:all"] if rng.random() < 0.3 else []))
        elif r < 0.5:
            # the layered read of a project that has drop-ins only (no configuration name), under the thread's own root prefix
            s.file(pre + b"/usr/etc/prj.d/10-a.conf", rng.choice(FILES[:4]))
            if rng.random() < 0.6:
                s.file(pre + b"/etc/prj.d/20-b.conf", rng.choice(FILES[:4]))
            s.file(pre + b"/etc/prj.conf.d/not-a-dropin-of-this-mode.conf", b"wrong=1\n")
            s.add("NEW", 0, "opt", h(b"ROOT_PREFIX=" + pre))
            s.add("RC", 0, h(b"prj"), h(b"/usr/etc"), rng.choice(["-", h(b"")]), h(b"conf"), h(b"="), h(b"#"))
        elif r < 0.7:
            s.file(pre + b"/usr/cfg.conf", rng.choice(FILES[:4]))
            if rng.random() < 0.7:
                s.file(pre + b"/etc/cfg.conf.d/a.conf", rng.choice(FILES[:4]))
            if rng.random() < 0.5:
                s.file(pre + b"/usr/cfg.conf.d/a.conf", rng.choice(FILES))
            s.add("RD", 0, h(pre + b"/usr"), h(pre + b"/etc"), h(b"cfg"), h(b"conf"), h(b"="), h(b"#"))
        else:
            s.add("NEW", 0, rng.choice(["ini", "opt"]), *([] if rng.random() < 0.5 else ["-"]))
            if s.lines[-1].startswith("NEW 0 opt") and not s.lines[-1].endswith("-"):
                s.lines[-1] = "NEW 0 opt -"
        s.add("SLOT", 0)
        for _ in range(rng.randint(2, 15)):
            if rng.random() < 0.4:
                gen_ops.set_op(s, rng, 0)
            else:
                gen_ops.query_op(s, rng, 0, with_write=False)
        s.mkdir(pre + b"/out")
        s.add("W", 0, h(pre + b"/out"), h(b"w.conf"))
        s.add("RF", 1, h(pre + b"/out/w.conf"), h(b"="), h(b"#"))
        s.add("M", 2, 0, 1)
        s.add("RAW", 2)
        s.add("ERRSTR", rng.randint(-2, 30))
        for k in (2, 1, 0):
            s.add("FREE", k)
    return s


def perm_scenario(rng, sid, i, base):
    """a thread that reads files of its own directory again and again while econf_requirePermissions is in force; the
    directories of the threads have different modes, so some threads are always refused and the others never"""
    pre = base + b"/t%d" % i
    s = Scenario(sid, {"thread": i, "perm": True})
    mode = "755" if i % 2 == 0 else "750"
    s.add("D", h(pre + b"/conf"), mode)
    s.file(pre + b"/conf/a.conf", b"k=%d\n[S]\nx=1\n" % i)
    s.file(pre + b"/conf/b.conf", b"j=%d\n" % i)
    for r in range(rng.randint(60, 150)):
        s.add("RF", 0, h(pre + b"/conf/" + (b"a.conf" if r % 3 else b"b.conf")), h(b"="), h(b"#"))
        if r % 10 == 0:
            s.add("GET", 0, "str", "-", h(b"k"))
        s.add("FREE", 0)
    return s


def symlink_scenario(rng, sid, i, base):
    """threads under econf_followSymlinks(false) (set once before they start): the even ones read a layered tree of their own
    in which a drop-in is switched off by a link to /dev/null, the odd ones read a file of their own through a symbolic link
    (always refused) and directly (always read)"""
    pre = base + b"/t%d" % i
    s = Scenario(sid, {"thread": i, "nosymlink": True})
    if i % 2 == 0:
        s.file(pre + b"/usr/etc/cfg.conf", b"k=%d\n" % i)
        s.file(pre + b"/usr/etc/cfg.conf.d/10-a.conf", b"a=1\n")
        s.link(pre + b"/etc/cfg.conf.d/10-a.conf", b"/dev/null")
        s.file(pre + b"/etc/cfg.conf.d/20-b.conf", b"b=2\n")
        for r in range(rng.randint(40, 90)):
            s.add("RD", 0, h(pre + b"/usr/etc"), h(pre + b"/etc"), h(b"cfg"), h(b"conf"), h(b"="), h(b"#"))
            s.add("FREE", 0)
    else:
        s.file(pre + b"/real.conf", b"secret=%d\n" % i)
        s.link(pre + b"/link.conf", pre + b"/real.conf")
        for r in range(rng.randint(150, 300)):
            s.add("RF", 0, h(pre + (b"/link.conf" if r % 4 else b"/real.conf")), h(b"="), h(b"#"))
            if r % 16 == 0:
                s.add("GET", 0, "str", "-", h(b"secret"))
            s.add("FREE", 0)
    return s


def build_locale():
    """a tiny locale whose decimal point is ',' (none is installed): -> (LOCPATH, name) or None"""
    d = os.path.join(build.BUILD, "locale")
    name = "xx_XX"
    if os.path.exists(os.path.join(d, name, "LC_NUMERIC")):
        return d, name
    os.makedirs(d, exist_ok=True)
    cm = "<code_set_name> ANSI_X3.4-1968\n<comment_char> %\n<escape_char> /\nCHARMAP\n" + \
        "".join("<U%04X> /x%02x\n" % (i, i) for i in range(128)) + "END CHARMAP\n"
    src = ("comment_char %\nescape_char /\nLC_CTYPE\nupper " + ";".join("<U%04X>" % i for i in range(65, 91)) + "\nlower " +
           ";".join("<U%04X>" % i for i in range(97, 123)) + "\nEND LC_CTYPE\nLC_NUMERIC\ndecimal_point \"<U002C>\"\n"
           "thousands_sep \"<U002E>\"\ngrouping 3;3\nEND LC_NUMERIC\n")
    open(os.path.join(d, "ascii.cm"), "w").write(cm)
    open(os.path.join(d, "xx_XX.src"), "w").write(src)
    subprocess.run(["localedef", "-c", "-f", os.path.join(d, "ascii.cm"), "-i", os.path.join(d, "xx_XX.src"), os.path.join(d, name)],
                   stdout=subprocess.DEVNULL, stderr=subprocess.DEVNULL)
    return (d, name) if os.path.exists(os.path.join(d, name, "LC_NUMERIC")) else None


def float_scenario(rng, sid, i, base):
    """typed floating values on a private object, many times: formatted and parsed with the C library's locale-dependent
    functions; judged by comparing the thread's output with its own output when it runs alone"""
    pre = base + b"/t%d" % i
    s = Scenario(sid, {"thread": i, "floats": True})
    s.mkdir(pre + b"/out")
    s.add("NEW", 0, "ini")
    for r in range(rng.randint(40, 90)):
        k = h(b"k%d" % (r % 5))
        if rng.random() < 0.5:
            s.add("SET", 0, "double", h(b"S"), k, "x%016x" % rng.choice([0x3ff8000000000000, 0x3fd5555555555555, 0x40091eb851eb851f, 0xc059000000000000 + i]))
            s.add("GET", 0, "str", h(b"S"), k)
            s.add("GET", 0, "double", h(b"S"), k)
        else:
            s.add("SET", 0, "float", h(b"S"), k, "x%08x" % rng.choice([0x3fc00000, 0x3eaaaaab, 0x40490fdb, 0xc2c80000 + i]))
            s.add("GET", 0, "str", h(b"S"), k)
            s.add("GET", 0, "float", h(b"S"), k)
    s.add("W", 0, h(pre + b"/out"), h(b"w.conf"))
    s.add("RF", 1, h(pre + b"/out/w.conf"), h(b"="), h(b"#"))
    s.add("GET", 1, "double", h(b"S"), h(b"k0"))
    s.add("FREE", 1)
    s.add("FREE", 0)
    return s


def scenarios(tier, rng):
    return []      # everything happens in direct_checks (the thread harness is a different executable)


def oracle(s, lines):
    return None


def nontrivial(s, lines):
    return None


def histogram(s, lines):
    return []


def direct_checks(res, harness, tier, rng):
    ngroups = 120 if tier == "quick" else 3000
    import tempfile
    import shutil
    tmp = tempfile.mkdtemp(prefix="econf-thr-", dir="/dev/shm" if os.access("/dev/shm", os.W_OK) else None)
    groups = []
    for g in range(ngroups):
        nt = rng.choice([2, 2, 3, 4, 8, 16])
        grp = [thread_scenario(rng, "g%dt%d" % (g, i), i, ("%s/g%d" % (tmp, g)).encode()) for i in range(nt)]
        if rng.random() < 0.35:
            # documented process-wide options set once before the threads start (all files here are regular files of the
            # user the check runs as, so every read still succeeds as in a run alone)
            pro = Scenario("prologue_g%d" % g, {"prologue": True})
            for c in rng.sample([("G", "nosymlink", 1), ("G", "owner", os.getuid()), ("G", "group", os.getgid())], rng.randint(1, 3)):
                pro.add(*c)
            grp.insert(0, pro)
        groups.append(grp)
    # groups that work with floating values under a numeric locale with a decimal comma: compared with the same thread alone
    loc = build_locale()
    fgroups = []
    if loc:
        for g in range(12 if tier == "quick" else 200):
            nt = rng.choice([4, 8, 8, 16])
            grp = [float_scenario(rng, "f%dt%d" % (g, i), i, ("%s/f%d" % (tmp, g)).encode()) for i in range(nt)]
            pro = Scenario("prologue_f%d" % g, {"prologue": True})
            pro.add("LOCALE", loc[1])
            grp.insert(0, pro)
            fgroups.append(grp)
    else:
        res.notes.append("no numeric locale with a decimal comma could be built (localedef): float groups skipped")
    # groups under econf_requirePermissions (set once before the threads start) whose threads read from private directories
    # of different modes: compared with the same thread alone
    nfloat = len(fgroups)
    for g in range(10 if tier == "quick" else 150):
        nt = rng.choice([4, 8, 8, 16])
        grp = [perm_scenario(rng, "p%dt%d" % (g, i), i, ("%s/p%d" % (tmp, g)).encode()) for i in range(nt)]
        pro = Scenario("prologue_p%d" % g, {"prologue": True})
        pro.add("G", "perms", "004", "001")
        grp.insert(0, pro)
        fgroups.append(grp)
    # groups under econf_followSymlinks(false): some threads meet a /dev/null link in a drop-in directory, the others read through links
    nperm_end = len(fgroups)
    for g in range(10 if tier == "quick" else 150):
        nt = rng.choice([4, 8, 8, 16])
        grp = [symlink_scenario(rng, "y%dt%d" % (g, i), i, ("%s/y%d" % (tmp, g)).encode()) for i in range(nt)]
        pro = Scenario("prologue_y%d" % g, {"prologue": True})
        pro.add("G", "nosymlink", "1")
        grp.insert(0, pro)
        fgroups.append(grp)
    supp = os.path.join(build.BUILD, "tsan.supp")
    with open(supp, "w") as f:
        for a in ALLOWED:
            f.write("race:%s\n" % a)
    env = dict(os.environ, TSAN_OPTIONS="suppressions=%s:halt_on_error=0:report_signal_unsafe=0:exitcode=0" % supp)
    if loc:
        env["LOCPATH"] = loc[0]

    def run_group(grp):
        text = "".join(s.text() for s in grp)
        p = subprocess.run([harness["thr"]], input=text.encode(), stdout=subprocess.PIPE, stderr=subprocess.PIPE, env=env, timeout=300)
        return scn.parse_output(p.stdout.decode("latin-1")), p.stderr.decode("latin-1"), p.returncode

    allsc = [s for grp in groups for s in grp]
    model = scn.run_model(allsc)
    try:
        with cf.ThreadPoolExecutor(max_workers=8) as ex:
            results = list(ex.map(run_group, groups))
    finally:
        shutil.rmtree(tmp, ignore_errors=True)
    races = 0
    for grp, (out, err, rc) in zip(groups, results):
        res.hist["threads_%d" % len(grp)] = res.hist.get("threads_%d" % len(grp), 0) + 1
        reports = [r for r in err.split("==================") if "ThreadSanitizer" in r]
        for r in reports:
            races += 1
            if len(res.violations) < 3:
                loc = re.search(r"Location is global '([^']+)'", r)
                p = common.write_replay(res, "race%d" % (len(res.violations) + 1), None,
                                        "ThreadSanitizer report while %d threads worked on private objects (global: %s)\n%s\nscenarios:\n%s"
                                        % (len(grp), loc.group(1) if loc else "?", r[:3000], "".join(s.text() for s in grp)))
                res.violations.append((p, "unsynchronised access to shared memory", False))
        for s in grp:
            res.evaluations += 1
            il, ist = out.get(s.id, ([], "MISSING"))
            ml, mst = model.get(s.id, ([], "MISSING"))
            if ist == "ok" and len(grp) > 1:
                res.nontrivial.add(tuple(s.lines))
            if len(res.samples) < 2:
                res.samples.append({"threads_in_group": len(grp), "scenario": s.lines[:10], "output": il[:10]})
            if "badclose" in il and len(res.violations) < 3:
                p = common.write_replay(res, "fd%d" % (len(res.violations) + 1), s,
                                        "the library closed a file descriptor that was not open (closed twice or never opened): with other "
                                        "threads running this closes a file another thread has just opened", il, ml)
                res.violations.append((p, "close of a descriptor the library does not own", False))
            if il != ml or ist != "ok":
                res.disagreements += 1
                if len(res.violations) < 3:
                    fd = scn.first_diff(il, ml)
                    p = common.write_replay(res, "thr%d" % (len(res.violations) + 1), s,
                                            "a thread's results differ from running its calls alone (model): first difference %s; "
                                            "%d threads in the group; exit %d\n%s" % (fd, len(grp), rc, err[-1500:]), il, ml)
                    res.violations.append((p, "thread output differs from its serial run", False))
    # float groups: every thread's output while the others run = its output when it runs alone (same prologue)
    def run_alone(grp):
        outs = {}
        for sc in grp[1:]:
            o, _, _ = run_group([grp[0], sc])
            outs[sc.id] = o.get(sc.id, ([], "MISSING"))
        return outs
    with cf.ThreadPoolExecutor(max_workers=8) as ex:
        conc = list(ex.map(run_group, fgroups))
        alone = list(ex.map(run_alone, fgroups))
    for gi, (grp, (out, err, rc), solo) in enumerate(zip(fgroups, conc, alone)):
        isperm = gi >= nfloat
        issym = gi >= nperm_end
        label = "nosymlink_threads_%d" if issym else "perm_threads_%d" if isperm else "float_threads_%d"
        res.hist[label % (len(grp) - 1)] = res.hist.get(label % (len(grp) - 1), 0) + 1
        if not isperm and out.get(grp[0].id, ([""], ""))[0][:1] != ["locale set ,"]:
            res.notes.append("the test locale could not be activated: %r" % (out.get(grp[0].id),))
            continue
        for r in [r for r in err.split("==================") if "ThreadSanitizer" in r]:
            if len(res.violations) < 3:
                locg = re.search(r"Location is global '([^']+)'", r)
                p = common.write_replay(res, "race%d" % (len(res.violations) + 1), None,
                                        "ThreadSanitizer report while %d threads worked on private objects (global: %s)\n%s\nscenarios:\n%s"
                                        % (len(grp) - 1, locg.group(1) if locg else "?", r[:3000], "".join(s.text() for s in grp)))
                res.violations.append((p, "unsynchronised access to shared memory", False))
        for sc in grp[1:]:
            res.evaluations += 1
            il, ist = out.get(sc.id, ([], "MISSING"))
            al, ast = solo[sc.id]
            if ist == "ok":
                res.nontrivial.add(tuple(sc.lines))
            if issym and sc.meta.get("thread", 0) % 2 == 1 and ist == "ok" and len(res.violations) < 3:
                # whatever the run alone says (it is a thread of its own too): the rule was set before the threads started, so
                # every read through the link is refused and every read of the file itself succeeds
                ops = [l.split()[2] for l in sc.lines if l.startswith("RF ")]
                outs = [l for l in il if l.startswith("rf ")]
                bad = [(bytes.fromhex(o[1:]), r) for o, r in zip(ops, outs)
                       if (r.split()[1] != "E20") == bytes.fromhex(o[1:]).endswith(b"/link.conf")]
                if bad or len(ops) != len(outs):
                    p = common.write_replay(res, "nosymabs%d" % (len(res.violations) + 1), sc,
                                            "econf_followSymlinks(false) was called before the threads started, yet in a thread a read through a "
                                            "symbolic link is not refused (or a read of a regular file is): %r" % (bad[:3],), il, al)
                    res.violations.append((p, "a restriction set before the threads started is not in force in a thread", False))
            if (il != al or ist != "ok") and len(res.violations) < 3:
                fd = scn.first_diff(il, al)
                what = ("with econf_followSymlinks(false) in force, links to /dev/null in some threads' drop-in directories" if issym
                        else "with econf_requirePermissions in force and private directories of different modes" if isperm
                        else "under a numeric locale with a decimal comma")
                p = common.write_replay(res, "%s%d" % ("nosym" if issym else "perm" if isperm else "float", len(res.violations) + 1), sc,
                                        "%s a thread's results differ from the results of the same "
                                        "calls run alone: first difference %s (concurrent, alone); %d threads in the group" % (what, fd, len(grp) - 1), il, al)
                res.violations.append((p, "thread output differs from its run alone (%s)" % ("symbolic links refused" if issym else "permission requirement" if isperm else "floating values, decimal-comma locale"), False))
    res.notes.append("%d thread groups, %d ThreadSanitizer reports (after suppressing the documented error-location record)" % (len(groups), races))
